/-
  Terminal shortcuts and level skipping of the element-wise set operations
  (`operations/union.cc`, `intersection.cc`, `difference.cc`, `complement.cc`).

  The real `_compute` functions perform the recursion of `apply2` but
    (a) test a list of *terminal shortcuts* before recursing,
    (b) skip positions that both operands skip ("by top level" / "by unprimed"),
    (c) consult a compute table (handled in `State/ComputeTable.lean`).
  This file models (a) and (b) and proves them to be pure optimisations: the
  tree they return is *identical* to the one `apply2` returns.

  Contents
    0. `cofactor_red`
    1. `applyS` (generic recursion with a shortcut table), `ShortcutSound`,
       `applyS_eval`, `applyS_red`, `applyS_eq_apply2(_at)`
    2. `Policy` (fully / quasi / identity reduced), `Shape.Has`, `copyTo`, `chainTrue`
    3. `unionShortcut`, `interShortcut`, `diffShortcut` transcribed test by test;
       one soundness lemma per case (`union_case_…_sound`, …), the tables
       (`unionShortcut_sound`, …), the operations (`unionS_eval/_red/_eq_apply2`, …)
    4. level skipping: `apply2_skip_red`, `apply2_skip_primed`, `…_same`,
       `applySkip_eq_apply2`; shortcuts + skipping `applyFullS_eq_apply2`;
       the rules of the three constructors (`unionRule`, `interRule`, `diffRule`,
       `…Rule_ok`); `unionFull_eq_apply2`, …; completeness of the terminal cases
    5. COMPLEMENT: `apply1S`, `complShortcut`, `complS_eq_apply1`, unary skipping
    6. examples (`decide`)

  What is assumed of the C++ (modelled, not proved here):
    * "copy of X into the result forest at (L, in)" (`copy_argNres->compute`) is the
      element-wise copy `apply1 … id` (the COPY operation has its own component);
    * `makeRedundantsTo(TRUE,0,L)` / `makeIdentitiesTo(TRUE,0,L,in)` return the
      reduced tree of "TRUE everywhere" / "identity below" (`chainTrue`; their loop
      structure is `redStep` / `identHalf`: `chainTrue_fully_succ`, `chainTrue_ident_pair`);
    * operands are legal (`Red`) in their own forests: in particular a
      quasi-reduced forest has the terminal TRUE at level 0 only.
  Result: no terminal case of the three binary operations or of complement is
  unsound at /repo HEAD; the side conditions are all needed (section 6).
-/
import MeddlyModel.Core.DD
import MeddlyModel.Core.Canon
import MeddlyModel.Ops.Apply
import MeddlyModel.Ops.ApplyProofs

namespace Meddly

set_option linter.unusedSectionVars false
set_option linter.unusedVariables false

namespace DD
variable {α β γ : Type} [DecidableEq α] [DecidableEq β] [DecidableEq γ]

/-! ## 0. Cofactors of reduced trees are reduced -/

theorem cofactor_red (S : Shape) (zero : α) (k : Nat) (fi : Option Nat) (d : DD α) (i : Nat)
    (hi : i < S.size (k+1)) (h : Red S zero (k+1) fi d = true) :
    Red S zero k (some i) (cofactor S zero (k+1) fi d i) = true := by
  rcases storedAt_cases (k+1) d with ⟨cs, rfl⟩ | hd
  · rw [cofactor_node]
    obtain ⟨_, hlen, _, _, hch⟩ := (Red_succ_node S zero k fi cs).mp h
    exact hch i (by rw [hlen]; exact hi)
  · rcases cofactor_skip_cases S zero (k+1) fi i hd with e | e <;> rw [e]
    · exact Red_none_some S zero k i d (Red_succ_skip S zero k fi hd h).2
    · exact Red_leaf_zero S zero k (some i)

/-! ## 1. `applyS`: `apply2` with a shortcut table tried first at every step -/

/-- `apply2` with terminal shortcuts: `sc k fi a b = some r` means "answer `r`
    without recursing". -/
def applyS (Sa Sb Sc : Shape) (za : α) (zb : β) (zc : γ) (f : α → β → γ)
    (sc : Nat → Option Nat → DD α → DD β → Option (DD γ)) :
    Nat → Option Nat → DD α → DD β → DD γ
  | 0, fi, a, b =>
    match sc 0 fi a b with
    | some r => r
    | none => .leaf (f (leafVal za a) (leafVal zb b))
  | k+1, fi, a, b =>
    match sc (k+1) fi a b with
    | some r => r
    | none =>
      mkNode Sc zc (k+1) fi
        ((List.range (Sc.size (k+1))).map fun i =>
          applyS Sa Sb Sc za zb zc f sc k (some i)
            (cofactor Sa za (k+1) fi a i) (cofactor Sb zb (k+1) fi b i))

/-- The context of a recursive call: position `k ≤ top`, entered through index
    `fi` of position `k+1` (`none`: position `k+1` was skipped or `k` is the
    top; then `k` is not an `ident` position in any of the three forests). -/
structure Ctx (Sa Sb Sc : Shape) (k : Nat) (fi : Option Nat) : Prop where
  le  : k ≤ Sc.top
  idx : ∀ i, fi = some i → i < Sc.size (k+1)
  na  : fi = none → Sa.mode k ≠ .ident
  nb  : fi = none → Sb.mode k ≠ .ident
  nc  : fi = none → Sc.mode k ≠ .ident

/-- the assignment respects the arriving index -/
def Resp (k : Nat) (fi : Option Nat) (x : Assign) : Prop := ∀ i, fi = some i → x (k+1) = i

theorem Ctx.child {Sa Sb Sc : Shape} {k : Nat} {fi : Option Nat} (h : Ctx Sa Sb Sc (k+1) fi)
    {i : Nat} (hi : i < Sc.size (k+1)) : Ctx Sa Sb Sc k (some i) where
  le := Nat.le_of_succ_le h.le
  idx := by intro j hj; cases hj; exact hi
  na := by intro h; cases h
  nb := by intro h; cases h
  nc := by intro h; cases h

theorem Ctx.top {Sa Sb Sc : Shape} (hSa : Sa.WF) (hSb : Sb.WF) (hSc : Sc.WF)
    (hac : SameVars Sa Sc) (hbc : SameVars Sb Sc) : Ctx Sa Sb Sc Sc.top none where
  le := Nat.le_refl _
  idx := by intro i h; cases h
  na := fun _ => hSa.top_not_ident (by rw [hac.top]; exact Nat.le_refl _)
  nb := fun _ => hSb.top_not_ident (by rw [hbc.top]; exact Nat.le_refl _)
  nc := fun _ => hSc.top_not_ident (Nat.le_refl _)

/-- from the context and `Resp`: the side condition of `apply2_eval` & co. -/
theorem fi_of_mode {S : Shape} {k : Nat} {fi : Option Nat} {x : Assign}
    (hn : fi = none → S.mode k ≠ .ident) (hr : Resp k fi x) :
    S.mode k = .ident → fi = some (x (k+1)) := by
  intro hm
  cases fi with
  | none => exact absurd hm (hn rfl)
  | some i => rw [hr i rfl]

/-- `r` is a correct answer for `f a b` at position `k` entered through `fi`:
    right denotation, and reduced in the result forest. -/
def AnswerSound (Sa Sb Sc : Shape) (za : α) (zb : β) (zc : γ) (f : α → β → γ)
    (k : Nat) (fi : Option Nat) (a : DD α) (b : DD β) (r : DD γ) : Prop :=
  (∀ x, Assign.Valid Sc x → Resp k fi x →
      eval Sc zc k r x = f (eval Sa za k a x) (eval Sb zb k b x)) ∧
  Red Sc zc k fi r = true

/-- Every answer of the shortcut table, on operands reduced in their own
    forests, is a correct answer. -/
def ShortcutSound (Sa Sb Sc : Shape) (za : α) (zb : β) (zc : γ) (f : α → β → γ)
    (sc : Nat → Option Nat → DD α → DD β → Option (DD γ)) : Prop :=
  ∀ k fi a b r, Ctx Sa Sb Sc k fi →
    Red Sa za k fi a = true → Red Sb zb k fi b = true → sc k fi a b = some r →
    AnswerSound Sa Sb Sc za zb zc f k fi a b r

theorem applyS_zero (Sa Sb Sc : Shape) (za : α) (zb : β) (zc : γ) (f : α → β → γ)
    (sc : Nat → Option Nat → DD α → DD β → Option (DD γ)) (fi : Option Nat) (a : DD α) (b : DD β) :
    applyS Sa Sb Sc za zb zc f sc 0 fi a b =
      match sc 0 fi a b with
      | some r => r
      | none => .leaf (f (leafVal za a) (leafVal zb b)) := by
  rw [applyS]

theorem applyS_succ (Sa Sb Sc : Shape) (za : α) (zb : β) (zc : γ) (f : α → β → γ)
    (sc : Nat → Option Nat → DD α → DD β → Option (DD γ)) (k : Nat) (fi : Option Nat)
    (a : DD α) (b : DD β) :
    applyS Sa Sb Sc za zb zc f sc (k+1) fi a b =
      match sc (k+1) fi a b with
      | some r => r
      | none =>
        mkNode Sc zc (k+1) fi
          ((List.range (Sc.size (k+1))).map fun i =>
            applyS Sa Sb Sc za zb zc f sc k (some i)
              (cofactor Sa za (k+1) fi a i) (cofactor Sb zb (k+1) fi b i)) := by
  rw [applyS]

/-- the answer of plain `apply2` is always sound (no hypothesis on the operands) -/
theorem apply2_answerSound (Sa Sb Sc : Shape) (za : α) (zb : β) (zc : γ) (f : α → β → γ)
    (hSc : Sc.WF) (k : Nat) (fi : Option Nat) (a : DD α) (b : DD β) (hc : Ctx Sa Sb Sc k fi) :
    AnswerSound Sa Sb Sc za zb zc f k fi a b (apply2 Sa Sb Sc za zb zc f k fi a b) :=
  ⟨fun x hx hr => apply2_eval Sa Sb Sc za zb zc f k fi a b x hc.le hx
      (fi_of_mode hc.na hr) (fi_of_mode hc.nb hr) (fi_of_mode hc.nc hr),
   apply2_red Sa Sb Sc za zb zc f hSc k fi a b hc.nc⟩

/-- Canonicity: a sound answer *is* the tree `apply2` builds. -/
theorem AnswerSound.eq_apply2 {Sa Sb Sc : Shape} {za : α} {zb : β} {zc : γ} {f : α → β → γ}
    (hSc : Sc.WF) {k : Nat} {fi : Option Nat} {a : DD α} {b : DD β} {r : DD γ}
    (hc : Ctx Sa Sb Sc k fi) (h : AnswerSound Sa Sb Sc za zb zc f k fi a b r) :
    r = apply2 Sa Sb Sc za zb zc f k fi a b := by
  have h2 := apply2_answerSound Sa Sb Sc za zb zc f hSc k fi a b hc
  apply canon_gen Sc zc hSc k hc.le fi _ _ hc.idx h.2 h2.2
  intro x hx hr
  rw [h.1 x hx hr, h2.1 x hx hr]

/-- Main lemma of item 1: with a sound shortcut table, `applyS` on reduced
    operands has the denotation of `f` and a reduced result. -/
theorem applyS_sound (Sa Sb Sc : Shape) (za : α) (zb : β) (zc : γ) (f : α → β → γ)
    (sc : Nat → Option Nat → DD α → DD β → Option (DD γ))
    (hSc : Sc.WF) (hac : SameVars Sa Sc) (hbc : SameVars Sb Sc)
    (hsc : ShortcutSound Sa Sb Sc za zb zc f sc) :
    ∀ (k : Nat) (fi : Option Nat) (a : DD α) (b : DD β), Ctx Sa Sb Sc k fi →
      Red Sa za k fi a = true → Red Sb zb k fi b = true →
      AnswerSound Sa Sb Sc za zb zc f k fi a b (applyS Sa Sb Sc za zb zc f sc k fi a b) := by
  intro k
  induction k with
  | zero =>
    intro fi a b hc ha hb
    rw [applyS_zero]
    cases hs : sc 0 fi a b with
    | some r => exact hsc 0 fi a b r hc ha hb hs
    | none =>
      refine ⟨?_, rfl⟩
      intro x _ _
      show eval Sc zc 0 (.leaf (f (leafVal za a) (leafVal zb b))) x = _
      rw [eval_zero_leaf, eval_zero_eq_leafVal, eval_zero_eq_leafVal]
  | succ k ih =>
    intro fi a b hc ha hb
    rw [applyS_succ]
    cases hs : sc (k+1) fi a b with
    | some r => exact hsc (k+1) fi a b r hc ha hb hs
    | none =>
      show AnswerSound Sa Sb Sc za zb zc f (k+1) fi a b (mkNode Sc zc (k+1) fi _)
      have hch : ∀ i, i < Sc.size (k+1) →
          AnswerSound Sa Sb Sc za zb zc f k (some i)
            (cofactor Sa za (k+1) fi a i) (cofactor Sb zb (k+1) fi b i)
            (applyS Sa Sb Sc za zb zc f sc k (some i)
              (cofactor Sa za (k+1) fi a i) (cofactor Sb zb (k+1) fi b i)) := by
        intro i hi
        exact ih (some i) _ _ (hc.child hi)
          (cofactor_red Sa za k fi a i (by rw [hac.size]; exact hi) ha)
          (cofactor_red Sb zb k fi b i (by rw [hbc.size]; exact hi) hb)
      constructor
      · intro x hx hr
        have hxk : x (k+1) < Sc.size (k+1) := hx (k+1) (by omega) hc.le
        rw [mkNode_eval Sc zc k fi _ x hc.le (length_map_range _ _) hx
            (fun c h => by
              obtain ⟨i, hi, rfl⟩ := List.mem_map.mp h
              exact (Red_WFTree Sc zc k (some i) _ (hch i (List.mem_range.mp hi)).2).1)
            (fi_of_mode hc.nc hr),
          getD_map_range _ _ _ hxk,
          (hch _ hxk).1 x hx (fun i h => by cases h; rfl),
          ← cofactor_eval Sa za k fi a x (fi_of_mode hc.na hr),
          ← cofactor_eval Sb zb k fi b x (fi_of_mode hc.nb hr)]
      · apply mkNode_red Sc zc hSc k fi _ (length_map_range _ _) _ hc.nc
        intro i hi
        rw [length_map_range] at hi
        rw [getD_map_range _ _ _ hi]
        exact (hch i hi).2

theorem applyS_eval (Sa Sb Sc : Shape) (za : α) (zb : β) (zc : γ) (f : α → β → γ)
    (sc : Nat → Option Nat → DD α → DD β → Option (DD γ))
    (hSc : Sc.WF) (hac : SameVars Sa Sc) (hbc : SameVars Sb Sc)
    (hsc : ShortcutSound Sa Sb Sc za zb zc f sc)
    (k : Nat) (fi : Option Nat) (a : DD α) (b : DD β) (hc : Ctx Sa Sb Sc k fi)
    (ha : Red Sa za k fi a = true) (hb : Red Sb zb k fi b = true)
    (x : Assign) (hx : Assign.Valid Sc x) (hr : Resp k fi x) :
    eval Sc zc k (applyS Sa Sb Sc za zb zc f sc k fi a b) x
      = f (eval Sa za k a x) (eval Sb zb k b x) :=
  (applyS_sound Sa Sb Sc za zb zc f sc hSc hac hbc hsc k fi a b hc ha hb).1 x hx hr

theorem applyS_red (Sa Sb Sc : Shape) (za : α) (zb : β) (zc : γ) (f : α → β → γ)
    (sc : Nat → Option Nat → DD α → DD β → Option (DD γ))
    (hSc : Sc.WF) (hac : SameVars Sa Sc) (hbc : SameVars Sb Sc)
    (hsc : ShortcutSound Sa Sb Sc za zb zc f sc)
    (k : Nat) (fi : Option Nat) (a : DD α) (b : DD β) (hc : Ctx Sa Sb Sc k fi)
    (ha : Red Sa za k fi a = true) (hb : Red Sb zb k fi b = true) :
    Red Sc zc k fi (applyS Sa Sb Sc za zb zc f sc k fi a b) = true :=
  (applyS_sound Sa Sb Sc za zb zc f sc hSc hac hbc hsc k fi a b hc ha hb).2

/-- Shortcuts are pure optimisations: at *every* recursion step `applyS`
    returns the very tree `apply2` returns. -/
theorem applyS_eq_apply2_at (Sa Sb Sc : Shape) (za : α) (zb : β) (zc : γ) (f : α → β → γ)
    (sc : Nat → Option Nat → DD α → DD β → Option (DD γ))
    (hSc : Sc.WF) (hac : SameVars Sa Sc) (hbc : SameVars Sb Sc)
    (hsc : ShortcutSound Sa Sb Sc za zb zc f sc)
    (k : Nat) (fi : Option Nat) (a : DD α) (b : DD β) (hc : Ctx Sa Sb Sc k fi)
    (ha : Red Sa za k fi a = true) (hb : Red Sb zb k fi b = true) :
    applyS Sa Sb Sc za zb zc f sc k fi a b = apply2 Sa Sb Sc za zb zc f k fi a b :=
  (applyS_sound Sa Sb Sc za zb zc f sc hSc hac hbc hsc k fi a b hc ha hb).eq_apply2 hSc hc

/-- … in particular for whole forests. -/
theorem applyS_eq_apply2 (Sa Sb Sc : Shape) (za : α) (zb : β) (zc : γ) (f : α → β → γ)
    (sc : Nat → Option Nat → DD α → DD β → Option (DD γ))
    (hSa : Sa.WF) (hSb : Sb.WF) (hSc : Sc.WF) (hac : SameVars Sa Sc) (hbc : SameVars Sb Sc)
    (hsc : ShortcutSound Sa Sb Sc za zb zc f sc) (a : DD α) (b : DD β)
    (ha : Red Sa za Sa.top none a = true) (hb : Red Sb zb Sb.top none b = true) :
    applyS Sa Sb Sc za zb zc f sc Sc.top none a b = apply2 Sa Sb Sc za zb zc f Sc.top none a b :=
  applyS_eq_apply2_at Sa Sb Sc za zb zc f sc hSc hac hbc hsc Sc.top none a b
    (Ctx.top hSa hSb hSc hac hbc) (by rw [← hac.top]; exact ha) (by rw [← hbc.top]; exact hb)

/-! ## 2. Reduction policies of whole forests; copies and chains -/

end DD

/-- The reduction rule of a whole forest (`policies::reduction_rule`). -/
inductive Policy where
  | fully | quasi | ident
  deriving DecidableEq, Repr

/-- the per-position mode a policy prescribes: identity-reduced relation forests
    have `ident` at the primed (odd) positions and `red` at the unprimed ones -/
def Policy.mode : Policy → Nat → Mode
  | .fully, _ => .red
  | .quasi, _ => .none
  | .ident, p => if p % 2 = 1 then .ident else .red

/-- forest shape `S` follows policy `p` (`isFullyReduced()` / `isQuasiReduced()` /
    `isIdentityReduced()`) -/
def Shape.Has (S : Shape) (p : Policy) : Prop := ∀ q, 1 ≤ q → q ≤ S.top → S.mode q = p.mode q

/-- same variables, modes of policy `p` -/
def Shape.withPolicy (S : Shape) (p : Policy) : Shape := { top := S.top, size := S.size, mode := p.mode }

theorem Shape.withPolicy_mode (S : Shape) (p : Policy) (q : Nat) :
    (S.withPolicy p).mode q = p.mode q := rfl

theorem Policy.mode_fully (q : Nat) : Policy.fully.mode q = .red := rfl
theorem Policy.mode_quasi (q : Nat) : Policy.quasi.mode q = .none := rfl

theorem Policy.mode_zero_ne_ident (p : Policy) : p.mode 0 ≠ .ident := by
  cases p <;> simp [Policy.mode]

namespace DD
variable {α β γ : Type} [DecidableEq α] [DecidableEq β] [DecidableEq γ]

/-- `eval` reads only the modes of the positions `1..k` -/
theorem eval_mode_congr (S T : Shape) (zero : α) :
    ∀ (k : Nat) (d : DD α) (x : Assign), (∀ q, 1 ≤ q → q ≤ k → S.mode q = T.mode q) →
      eval S zero k d x = eval T zero k d x := by
  intro k
  induction k with
  | zero => intro d x _; cases d <;> rfl
  | succ k ih =>
    intro d x h
    have hk := h (k+1) (by omega) (Nat.le_refl _)
    have hlow : ∀ q, 1 ≤ q → q ≤ k → S.mode q = T.mode q := fun q h1 h2 => h q h1 (by omega)
    rcases storedAt_cases (k+1) d with ⟨cs, rfl⟩ | hd
    · rw [eval_succ_node, eval_succ_node]; exact ih _ x hlow
    · rw [eval_succ_skip S zero k x hd, eval_succ_skip T zero k x hd, hk, ih d x hlow]

/-- a terminal above positions none of which is `ident` is a constant -/
theorem eval_leaf_of_no_ident (S : Shape) (zero v : α) :
    ∀ (k : Nat) (x : Assign), (∀ q, 1 ≤ q → q ≤ k → S.mode q ≠ .ident) →
      eval S zero k (.leaf v) x = v := by
  intro k
  induction k with
  | zero => intro x _; rfl
  | succ k ih =>
    intro x h
    have hk := h (k+1) (by omega) (Nat.le_refl _)
    rw [eval_succ_skip S zero k x rfl, if_neg (fun hh => hk hh.1)]
    exact ih x (fun q h1 h2 => h q h1 (by omega))

/-- fully reduced: a terminal means "this value everywhere below" -/
theorem eval_leaf_fully {S : Shape} (hS : S.Has .fully) (zero v : α) (k : Nat) (hk : k ≤ S.top)
    (x : Assign) : eval S zero k (.leaf v) x = v := by
  apply eval_leaf_of_no_ident
  intro q h1 h2
  rw [hS q h1 (by omega)]
  intro h; cases h

/-- two forests with the same policy read a tree the same way -/
theorem eval_same_policy {S T : Shape} {p : Policy} (hS : S.Has p) (hT : T.Has p) (zero : α)
    (k : Nat) (hkS : k ≤ S.top) (hkT : k ≤ T.top) (d : DD α) (x : Assign) :
    eval S zero k d x = eval T zero k d x := by
  apply eval_mode_congr
  intro q h1 h2
  rw [hS q h1 (by omega), hT q h1 (by omega)]

theorem withPolicy_Has (S : Shape) (p : Policy) : (S.withPolicy p).Has p := fun _ _ _ => rfl

/-- quasi reduced: a non-transparent terminal occurs at position 0 only -/
theorem Red_leaf_quasi {S : Shape} (hS : S.Has .quasi) (zero v : α) (k : Nat) (hk : k ≤ S.top)
    (fi : Option Nat) (h : Red S zero k fi (.leaf v) = true) : v = zero ∨ k = 0 := by
  cases k with
  | zero => right; rfl
  | succ k =>
    left
    have hm : S.mode (k+1) = .none := hS (k+1) (by omega) hk
    have he := (Red_succ_skip S zero k fi (d := .leaf v) rfl h).1
    have := edgeOK_none_skip S zero k fi hm rfl he
    cases this; rfl

/-- terminal test (`forest::isTerminalNode`) -/
def isTerm : DD α → Bool
  | .leaf _ => true
  | .node _ _ => false

theorem isTerm_bool {a : DD Bool} (h : isTerm a = true) (hne : a ≠ .leaf false) : a = .leaf true := by
  cases a with
  | leaf v => cases v with
    | true => rfl
    | false => exact absurd rfl hne
  | node p cs => cases h

/-- "copy of `d` (a node of the forest `Sx`) into the result forest", entered at
    position `k` through index `fi`: the `COPY` operation the shortcuts call. -/
def copyTo (Sx Sc : Shape) (k : Nat) (fi : Option Nat) (d : DD Bool) : DD Bool :=
  apply1 Sx Sc false false id k fi d

/-- `makeRedundantsTo(TRUE, 0, k)` (`p = fully`: TRUE everywhere below) resp.
    `makeIdentitiesTo(TRUE, 0, k, fi)` (`p = ident`: the identity relation below)
    in the result forest. -/
def chainTrue (p : Policy) (Sc : Shape) (k : Nat) (fi : Option Nat) : DD Bool :=
  copyTo (Sc.withPolicy p) Sc k fi (.leaf true)

theorem copyTo_eval (Sx Sc : Shape) (k : Nat) (fi : Option Nat) (d : DD Bool) (x : Assign)
    (hk : k ≤ Sc.top) (hx : Assign.Valid Sc x)
    (hxm : Sx.mode k = .ident → fi = some (x (k+1)))
    (hcm : Sc.mode k = .ident → fi = some (x (k+1))) :
    eval Sc false k (copyTo Sx Sc k fi d) x = eval Sx false k d x :=
  apply1_eval Sx Sc false false id k fi d x hk hx hxm hcm

theorem copyTo_red (Sx Sc : Shape) (hSc : Sc.WF) (k : Nat) (fi : Option Nat) (d : DD Bool)
    (hfi : fi = none → Sc.mode k ≠ .ident) : Red Sc false k fi (copyTo Sx Sc k fi d) = true :=
  apply1_red Sx Sc false false id hSc k fi d hfi

theorem chainTrue_fully_eval (Sc : Shape) (k : Nat) (fi : Option Nat) (x : Assign)
    (hk : k ≤ Sc.top) (hx : Assign.Valid Sc x)
    (hcm : Sc.mode k = .ident → fi = some (x (k+1))) :
    eval Sc false k (chainTrue .fully Sc k fi) x = true := by
  unfold chainTrue
  rw [copyTo_eval _ Sc k fi _ x hk hx (fun h => by cases h) hcm]
  exact eval_leaf_fully (withPolicy_Has Sc .fully) false true k hk x

theorem chainTrue_ident_eval {Sx : Shape} (hSx : Sx.Has .ident) (Sc : Shape) (k : Nat)
    (fi : Option Nat) (x : Assign) (hk : k ≤ Sc.top) (hkx : k ≤ Sx.top) (hx : Assign.Valid Sc x)
    (hxm : Sx.mode k = .ident → fi = some (x (k+1)))
    (hcm : Sc.mode k = .ident → fi = some (x (k+1))) :
    eval Sc false k (chainTrue .ident Sc k fi) x = eval Sx false k (.leaf true) x := by
  unfold chainTrue
  rw [copyTo_eval _ Sc k fi _ x hk hx ?_ hcm]
  · exact eval_same_policy (withPolicy_Has Sc .ident) hSx false k hk hkx _ x
  · intro h
    apply hxm
    cases k with
    | zero => exact absurd h (Policy.mode_zero_ne_ident .ident)
    | succ k => rw [hSx (k+1) (by omega) hkx]; exact h

/-! ## 3. The shortcut tables of UNION, INTERSECTION, DIFFERENCE

  Operands: `a` in a forest of shape `Sa` and policy `pa`, `b` in `Sb`/`pb`,
  result in `Sc`.  `same = true` models `arg1F == arg2F` (then `Sa = Sb`, and
  equality of trees stands for equality of node handles, by canonicity).
  `leaf false` is handle 0, `leaf true` the terminal TRUE (handle -1).       -/

section Tables
variable (pa pb : Policy) (same : Bool) (Sa Sb Sc : Shape)

/-- `union_mt::_compute`, "Check terminal cases", in the order of the code. -/
def unionShortcut (k : Nat) (fi : Option Nat) (a b : DD Bool) : Option (DD Bool) :=
  -- if (0==A && 0==B) { C = 0; return; }
  if a = .leaf false ∧ b = .leaf false then some (.leaf false)
  -- if (0==A) { copy_arg2res->compute(L, in, B, C); return; }
  else if a = .leaf false then some (copyTo Sb Sc k fi b)
  -- if ( (0 == B) || ((A==B)&&(arg1F==arg2F)) ) { copy_arg1res->compute(L, in, A, C); return; }
  else if b = .leaf false ∨ (a = b ∧ same = true) then some (copyTo Sa Sc k fi a)
  -- if (arg1F->isTerminalNode(A) && arg2F->isTerminalNode(B))
  --    both_identity ? makeIdentitiesTo(TRUE, 0, L, in) : makeRedundantsTo(TRUE, 0, L)
  else if isTerm a = true ∧ isTerm b = true then
    (if pa = .ident ∧ pb = .ident then some (chainTrue .ident Sc k fi)
     else some (chainTrue .fully Sc k fi))
  -- if ( (arg1F->isTerminalNode(A) && arg1F->isFullyReduced())
  --    || (arg2F->isTerminalNode(B) && arg2F->isFullyReduced()) ) makeRedundantsTo(TRUE, 0, L)
  else if (isTerm a = true ∧ pa = .fully) ∨ (isTerm b = true ∧ pb = .fully) then
    some (chainTrue .fully Sc k fi)
  else none

/-- `inter_mt::_compute`, "Check terminal cases" (with the repaired last test
    `(A == B) && ((arg1F==arg2F) || arg1F->isTerminalNode(A))`). -/
def interShortcut (k : Nat) (fi : Option Nat) (a b : DD Bool) : Option (DD Bool) :=
  -- if (A==0 || B==0) { C = 0; return; }
  if a = .leaf false ∨ b = .leaf false then some (.leaf false)
  -- if (arg1F->isTerminalNode(A)) if (L==0 || arg1F->isFullyReduced()) copy B
  else if isTerm a = true ∧ (k = 0 ∨ pa = .fully) then some (copyTo Sb Sc k fi b)
  -- if (arg2F->isTerminalNode(B)) if (L==0 || arg2F->isFullyReduced()) copy A
  else if isTerm b = true ∧ (k = 0 ∨ pb = .fully) then some (copyTo Sa Sc k fi a)
  -- if ((A == B) && ((arg1F==arg2F) || arg1F->isTerminalNode(A))) copy A
  else if a = b ∧ (same = true ∨ isTerm a = true) then some (copyTo Sa Sc k fi a)
  else none

/-- `diffr_mt::_compute`, "Check terminal cases". -/
def diffShortcut (pa pb : Policy) (same : Bool) (Sa _Sb Sc : Shape)
    (k : Nat) (fi : Option Nat) (a b : DD Bool) : Option (DD Bool) :=
  -- if (A==0) { C = 0; return; }
  if a = .leaf false then some (.leaf false)
  -- if (B < 0) { if (arg2F->isFullyReduced() || 0==L) { C = 0; return; } …
  else if b = .leaf true ∧ (pb = .fully ∨ k = 0) then some (.leaf false)
  --   … if (A < 0) { if (arg1F->isIdentityReduced()) { C = 0; return; } } }     (I - I)
  else if b = .leaf true ∧ a = .leaf true ∧ pa = .ident then some (.leaf false)
  -- if (B==0) copy A
  else if b = .leaf false then some (copyTo Sa Sc k fi a)
  -- if (A == B) { if (arg1F == arg2F && !force_by_levels) { C = 0; return; } }
  else if a = b ∧ same = true ∧ ¬ (pa = .fully ∧ pb = .ident) then some (.leaf false)
  else none

end Tables

/-! ### Building blocks: when is a copy / ∅ / TRUE / I a sound answer -/

section Blocks
variable {Sa Sb Sc : Shape} {f : Bool → Bool → Bool} {k : Nat} {fi : Option Nat}

/-- soundness of an answer for Boolean forests -/
abbrev AnsB (Sa Sb Sc : Shape) (f : Bool → Bool → Bool) (k : Nat) (fi : Option Nat)
    (a b r : DD Bool) : Prop :=
  AnswerSound Sa Sb Sc false false false f k fi a b r

theorem answer_copyA (hSc : Sc.WF) (hc : Ctx Sa Sb Sc k fi) (a b : DD Bool)
    (h : ∀ x, Assign.Valid Sc x → Resp k fi x →
      f (eval Sa false k a x) (eval Sb false k b x) = eval Sa false k a x) :
    AnsB Sa Sb Sc f k fi a b (copyTo Sa Sc k fi a) := by
  refine ⟨?_, copyTo_red Sa Sc hSc k fi a hc.nc⟩
  intro x hx hr
  rw [copyTo_eval Sa Sc k fi a x hc.le hx (fi_of_mode hc.na hr) (fi_of_mode hc.nc hr), h x hx hr]

theorem answer_copyB (hSc : Sc.WF) (hc : Ctx Sa Sb Sc k fi) (a b : DD Bool)
    (h : ∀ x, Assign.Valid Sc x → Resp k fi x →
      f (eval Sa false k a x) (eval Sb false k b x) = eval Sb false k b x) :
    AnsB Sa Sb Sc f k fi a b (copyTo Sb Sc k fi b) := by
  refine ⟨?_, copyTo_red Sb Sc hSc k fi b hc.nc⟩
  intro x hx hr
  rw [copyTo_eval Sb Sc k fi b x hc.le hx (fi_of_mode hc.nb hr) (fi_of_mode hc.nc hr), h x hx hr]

theorem answer_empty (a b : DD Bool)
    (h : ∀ x, Assign.Valid Sc x → Resp k fi x →
      f (eval Sa false k a x) (eval Sb false k b x) = false) :
    AnsB Sa Sb Sc f k fi a b (.leaf false) := by
  refine ⟨?_, Red_leaf_zero Sc false k fi⟩
  intro x hx hr
  rw [eval_leaf_zero, h x hx hr]

theorem answer_true (hSc : Sc.WF) (hc : Ctx Sa Sb Sc k fi) (a b : DD Bool)
    (h : ∀ x, Assign.Valid Sc x → Resp k fi x →
      f (eval Sa false k a x) (eval Sb false k b x) = true) :
    AnsB Sa Sb Sc f k fi a b (chainTrue .fully Sc k fi) := by
  refine ⟨?_, copyTo_red _ Sc hSc k fi _ hc.nc⟩
  intro x hx hr
  rw [chainTrue_fully_eval Sc k fi x hc.le hx (fi_of_mode hc.nc hr), h x hx hr]

theorem answer_identity (hSc : Sc.WF) (hac : SameVars Sa Sc) (hc : Ctx Sa Sb Sc k fi)
    (hpa : Sa.Has .ident) (a b : DD Bool)
    (h : ∀ x, Assign.Valid Sc x → Resp k fi x →
      f (eval Sa false k a x) (eval Sb false k b x) = eval Sa false k (.leaf true) x) :
    AnsB Sa Sb Sc f k fi a b (chainTrue .ident Sc k fi) := by
  refine ⟨?_, copyTo_red _ Sc hSc k fi _ hc.nc⟩
  intro x hx hr
  rw [chainTrue_ident_eval hpa Sc k fi x hc.le (by rw [hac.top]; exact hc.le) hx
    (fi_of_mode hc.na hr) (fi_of_mode hc.nc hr), h x hx hr]

end Blocks

/-! ### UNION, case by case -/

section UnionCases
variable {pa pb : Policy} {Sa Sb Sc : Shape} {k : Nat} {fi : Option Nat}

local notation "orF" => (fun p q : Bool => p || q)

/-- `0 ∪ 0 = 0` -/
theorem union_case_bothEmpty_sound :
    AnsB Sa Sb Sc orF k fi (.leaf false) (.leaf false) (.leaf false) :=
  answer_empty _ _ (fun x _ _ => by rw [eval_leaf_zero, eval_leaf_zero]; rfl)

/-- `0 ∪ B = B` -/
theorem union_case_leftEmpty_sound (hSc : Sc.WF) (hc : Ctx Sa Sb Sc k fi) (b : DD Bool) :
    AnsB Sa Sb Sc orF k fi (.leaf false) b (copyTo Sb Sc k fi b) :=
  answer_copyB hSc hc _ _ (fun x _ _ => by rw [eval_leaf_zero]; rfl)

/-- `A ∪ 0 = A` -/
theorem union_case_rightEmpty_sound (hSc : Sc.WF) (hc : Ctx Sa Sb Sc k fi) (a : DD Bool) :
    AnsB Sa Sb Sc orF k fi a (.leaf false) (copyTo Sa Sc k fi a) :=
  answer_copyA hSc hc _ _ (fun x _ _ => by rw [eval_leaf_zero]; exact Bool.or_false _)

/-- `A ∪ A = A` (same forest) -/
theorem union_case_same_sound (hSc : Sc.WF) (hs : Sa = Sb) (hc : Ctx Sa Sb Sc k fi)
    (a : DD Bool) : AnsB Sa Sb Sc orF k fi a a (copyTo Sa Sc k fi a) :=
  answer_copyA hSc hc _ _ (fun x _ _ => by subst hs; exact Bool.or_self _)

/-- TRUE ∪ TRUE, both forests identity reduced: `I ∪ I = I` -/
theorem union_case_bothTrue_identity_sound (hSc : Sc.WF) (hac : SameVars Sa Sc)
    (hbc : SameVars Sb Sc) (hc : Ctx Sa Sb Sc k fi) (hpa : Sa.Has .ident) (hpb : Sb.Has .ident) :
    AnsB Sa Sb Sc orF k fi (.leaf true) (.leaf true) (chainTrue .ident Sc k fi) :=
  answer_identity hSc hac hc hpa _ _ (fun x _ _ => by
    rw [eval_same_policy hpb hpa false k (by rw [hbc.top]; exact hc.le)
      (by rw [hac.top]; exact hc.le)]
    exact Bool.or_self _)

/-- TRUE ∪ TRUE, not both identity reduced: the constant TRUE.  (Needs the
    operands to be legal: in a quasi-reduced forest TRUE occurs at position 0 only.) -/
theorem union_case_bothTrue_sound (hSc : Sc.WF) (hac : SameVars Sa Sc) (hbc : SameVars Sb Sc)
    (hc : Ctx Sa Sb Sc k fi) (hpa : Sa.Has pa) (hpb : Sb.Has pb)
    (hni : ¬ (pa = .ident ∧ pb = .ident))
    (ha : Red Sa false k fi (.leaf true) = true) (hb : Red Sb false k fi (.leaf true) = true) :
    AnsB Sa Sb Sc orF k fi (.leaf true) (.leaf true) (chainTrue .fully Sc k fi) := by
  have hka : k ≤ Sa.top := by rw [hac.top]; exact hc.le
  have hkb : k ≤ Sb.top := by rw [hbc.top]; exact hc.le
  apply answer_true hSc hc
  intro x _ _
  have hzero : k = 0 → (eval Sa false k (.leaf true) x || eval Sb false k (.leaf true) x) = true := by
    intro h0; subst h0; rfl
  cases pa with
  | fully => rw [eval_leaf_fully hpa false true k hka x]; rfl
  | quasi =>
    rcases Red_leaf_quasi hpa false true k hka fi ha with h | h
    · cases h
    · exact hzero h
  | ident =>
    cases pb with
    | fully => rw [eval_leaf_fully hpb false true k hkb x]; exact Bool.or_true _
    | quasi =>
      rcases Red_leaf_quasi hpb false true k hkb fi hb with h | h
      · cases h
      · exact hzero h
    | ident => exact absurd ⟨rfl, rfl⟩ hni

/-- fully-reduced TRUE ∪ B = TRUE -/
theorem union_case_leftFullyTrue_sound (hSc : Sc.WF) (hac : SameVars Sa Sc)
    (hc : Ctx Sa Sb Sc k fi) (hpa : Sa.Has .fully) (b : DD Bool) :
    AnsB Sa Sb Sc orF k fi (.leaf true) b (chainTrue .fully Sc k fi) :=
  answer_true hSc hc _ _ (fun x _ _ => by
    rw [eval_leaf_fully hpa false true k (by rw [hac.top]; exact hc.le) x]; rfl)

/-- A ∪ fully-reduced TRUE = TRUE -/
theorem union_case_rightFullyTrue_sound (hSc : Sc.WF) (hbc : SameVars Sb Sc)
    (hc : Ctx Sa Sb Sc k fi) (hpb : Sb.Has .fully) (a : DD Bool) :
    AnsB Sa Sb Sc orF k fi a (.leaf true) (chainTrue .fully Sc k fi) :=
  answer_true hSc hc _ _ (fun x _ _ => by
    rw [eval_leaf_fully hpb false true k (by rw [hbc.top]; exact hc.le) x]; exact Bool.or_true _)

/-- The whole UNION table is sound. -/
theorem unionShortcut_sound (same : Bool) (hSc : Sc.WF) (hac : SameVars Sa Sc)
    (hbc : SameVars Sb Sc) (hpa : Sa.Has pa) (hpb : Sb.Has pb) (hsame : same = true → Sa = Sb) :
    ShortcutSound Sa Sb Sc false false false orF (unionShortcut pa pb same Sa Sb Sc) := by
  intro k fi a b r hc ha hb hs
  unfold unionShortcut at hs
  split at hs
  · rename_i h
    obtain ⟨rfl, rfl⟩ := h
    cases hs
    exact union_case_bothEmpty_sound
  · rename_i h1
    split at hs
    · rename_i h2
      subst h2; cases hs
      exact union_case_leftEmpty_sound hSc hc b
    · rename_i h2
      split at hs
      · rename_i h3
        cases hs
        rcases h3 with rfl | ⟨rfl, hsm⟩
        · exact union_case_rightEmpty_sound hSc hc a
        · exact union_case_same_sound hSc (hsame hsm) hc a
      · rename_i h3
        have hb0 : b ≠ .leaf false := fun h => h3 (Or.inl h)
        split at hs
        · rename_i h4
          have ea := isTerm_bool h4.1 h2
          have eb := isTerm_bool h4.2 hb0
          subst ea; subst eb
          split at hs
          · rename_i h5
            obtain ⟨rfl, rfl⟩ := h5
            cases hs
            exact union_case_bothTrue_identity_sound hSc hac hbc hc hpa hpb
          · rename_i h5
            cases hs
            exact union_case_bothTrue_sound hSc hac hbc hc hpa hpb h5 ha hb
        · split at hs
          · rename_i h5
            cases hs
            rcases h5 with ⟨ht, rfl⟩ | ⟨ht, rfl⟩
            · have ea := isTerm_bool ht h2
              subst ea
              exact union_case_leftFullyTrue_sound hSc hac hc hpa b
            · have eb := isTerm_bool ht hb0
              subst eb
              exact union_case_rightFullyTrue_sound hSc hbc hc hpb a
          · cases hs

end UnionCases

/-! ### INTERSECTION, case by case -/

section InterCases
variable {pa pb : Policy} {Sa Sb Sc : Shape} {k : Nat} {fi : Option Nat}

local notation "andF" => (fun p q : Bool => p && q)

/-- `0 ∩ B = 0` -/
theorem inter_case_leftEmpty_sound (b : DD Bool) :
    AnsB Sa Sb Sc andF k fi (.leaf false) b (.leaf false) :=
  answer_empty _ _ (fun x _ _ => by rw [eval_leaf_zero]; rfl)

/-- `A ∩ 0 = 0` -/
theorem inter_case_rightEmpty_sound (a : DD Bool) :
    AnsB Sa Sb Sc andF k fi a (.leaf false) (.leaf false) :=
  answer_empty _ _ (fun x _ _ => by rw [eval_leaf_zero]; exact Bool.and_false _)

/-- a terminal TRUE at position 0, or in a fully reduced forest, is the constant TRUE -/
theorem eval_true_const {S : Shape} {p : Policy} (hp : S.Has p) (k : Nat) (hk : k ≤ S.top)
    (h : k = 0 ∨ p = .fully) (x : Assign) : eval S false k (.leaf true) x = true := by
  rcases h with rfl | rfl
  · rfl
  · exact eval_leaf_fully hp false true k hk x

/-- `TRUE ∩ B = B` when `L == 0` or arg1 is fully reduced -/
theorem inter_case_leftTrue_sound (hSc : Sc.WF) (hac : SameVars Sa Sc) (hc : Ctx Sa Sb Sc k fi)
    (hpa : Sa.Has pa) (h : k = 0 ∨ pa = .fully) (b : DD Bool) :
    AnsB Sa Sb Sc andF k fi (.leaf true) b (copyTo Sb Sc k fi b) :=
  answer_copyB hSc hc _ _ (fun x _ _ => by
    rw [eval_true_const hpa k (by rw [hac.top]; exact hc.le) h x]; rfl)

/-- `A ∩ TRUE = A` when `L == 0` or arg2 is fully reduced -/
theorem inter_case_rightTrue_sound (hSc : Sc.WF) (hbc : SameVars Sb Sc) (hc : Ctx Sa Sb Sc k fi)
    (hpb : Sb.Has pb) (h : k = 0 ∨ pb = .fully) (a : DD Bool) :
    AnsB Sa Sb Sc andF k fi a (.leaf true) (copyTo Sa Sc k fi a) :=
  answer_copyA hSc hc _ _ (fun x _ _ => by
    rw [eval_true_const hpb k (by rw [hbc.top]; exact hc.le) h x]; exact Bool.and_true _)

/-- `A ∩ A = A` (same forest) -/
theorem inter_case_same_sound (hSc : Sc.WF) (hs : Sa = Sb) (hc : Ctx Sa Sb Sc k fi)
    (a : DD Bool) : AnsB Sa Sb Sc andF k fi a a (copyTo Sa Sc k fi a) :=
  answer_copyA hSc hc _ _ (fun x _ _ => by subst hs; exact Bool.and_self _)

/-- a legal terminal TRUE above position 0 in a forest that is not fully reduced:
    the forest is identity reduced -/
theorem policy_ident_of_true {S : Shape} {p : Policy} (hp : S.Has p) {k : Nat} (hk : k ≤ S.top)
    {fi : Option Nat} (hr : Red S false k fi (.leaf true) = true) (h : ¬ (k = 0 ∨ p = .fully)) :
    p = .ident := by
  cases p with
  | fully => exact absurd (Or.inr rfl) h
  | quasi =>
    rcases Red_leaf_quasi hp false true k hk fi hr with h' | h'
    · cases h'
    · exact absurd (Or.inl h') h
  | ident => rfl

/-- TRUE ∩ TRUE across two forests, neither fully reduced (the repaired case):
    both are identity reduced, `I ∩ I = I` -/
theorem inter_case_bothTrue_cross_sound (hSc : Sc.WF) (hac : SameVars Sa Sc)
    (hbc : SameVars Sb Sc) (hc : Ctx Sa Sb Sc k fi) (hpa : Sa.Has pa) (hpb : Sb.Has pb)
    (hna : ¬ (k = 0 ∨ pa = .fully)) (hnb : ¬ (k = 0 ∨ pb = .fully))
    (ha : Red Sa false k fi (.leaf true) = true) (hb : Red Sb false k fi (.leaf true) = true) :
    AnsB Sa Sb Sc andF k fi (.leaf true) (.leaf true) (copyTo Sa Sc k fi (.leaf true)) := by
  have hka : k ≤ Sa.top := by rw [hac.top]; exact hc.le
  have hkb : k ≤ Sb.top := by rw [hbc.top]; exact hc.le
  have ea := policy_ident_of_true hpa hka ha hna
  have eb := policy_ident_of_true hpb hkb hb hnb
  subst ea; subst eb
  exact answer_copyA hSc hc _ _ (fun x _ _ => by
    rw [eval_same_policy hpb hpa false k hkb hka]; exact Bool.and_self _)

/-- The whole INTERSECTION table is sound. -/
theorem interShortcut_sound (same : Bool) (hSc : Sc.WF) (hac : SameVars Sa Sc)
    (hbc : SameVars Sb Sc) (hpa : Sa.Has pa) (hpb : Sb.Has pb) (hsame : same = true → Sa = Sb) :
    ShortcutSound Sa Sb Sc false false false andF (interShortcut pa pb same Sa Sb Sc) := by
  intro k fi a b r hc ha hb hs
  unfold interShortcut at hs
  split at hs
  · rename_i h
    cases hs
    rcases h with rfl | rfl
    · exact inter_case_leftEmpty_sound b
    · exact inter_case_rightEmpty_sound a
  · rename_i h1
    have ha0 : a ≠ .leaf false := fun h => h1 (Or.inl h)
    have hb0 : b ≠ .leaf false := fun h => h1 (Or.inr h)
    split at hs
    · rename_i h2
      cases hs
      have ea := isTerm_bool h2.1 ha0
      subst ea
      exact inter_case_leftTrue_sound hSc hac hc hpa h2.2 b
    · rename_i h2
      split at hs
      · rename_i h3
        cases hs
        have eb := isTerm_bool h3.1 hb0
        subst eb
        exact inter_case_rightTrue_sound hSc hbc hc hpb h3.2 a
      · rename_i h3
        split at hs
        · rename_i h4
          cases hs
          obtain ⟨rfl, h4⟩ := h4
          rcases h4 with hsm | ht
          · exact inter_case_same_sound hSc (hsame hsm) hc a
          · have ea := isTerm_bool ht ha0
            subst ea
            exact inter_case_bothTrue_cross_sound hSc hac hbc hc hpa hpb
              (fun h => h2 ⟨rfl, h⟩) (fun h => h3 ⟨rfl, h⟩) ha hb
        · cases hs

end InterCases

/-! ### DIFFERENCE, case by case -/

section DiffCases
variable {pa pb : Policy} {Sa Sb Sc : Shape} {k : Nat} {fi : Option Nat}

local notation "diffF" => (fun p q : Bool => p && !q)

/-- `0 − B = 0` -/
theorem diff_case_leftEmpty_sound (b : DD Bool) :
    AnsB Sa Sb Sc diffF k fi (.leaf false) b (.leaf false) :=
  answer_empty _ _ (fun x _ _ => by rw [eval_leaf_zero]; rfl)

/-- `A − TRUE = 0` when arg2 is fully reduced or `L == 0` -/
theorem diff_case_rightTrue_sound (hbc : SameVars Sb Sc) (hc : Ctx Sa Sb Sc k fi)
    (hpb : Sb.Has pb) (h : pb = .fully ∨ k = 0) (a : DD Bool) :
    AnsB Sa Sb Sc diffF k fi a (.leaf true) (.leaf false) :=
  answer_empty _ _ (fun x _ _ => by
    rw [eval_true_const hpb k (by rw [hbc.top]; exact hc.le) h.symm x]
    exact Bool.and_false _)

/-- `I − I = 0`: B is TRUE in a forest that is not fully reduced (hence identity
    reduced, B being legal), A is TRUE in an identity-reduced forest -/
theorem diff_case_identities_sound (hac : SameVars Sa Sc) (hbc : SameVars Sb Sc)
    (hc : Ctx Sa Sb Sc k fi) (hpa : Sa.Has .ident) (hpb : Sb.Has pb)
    (hnb : ¬ (pb = .fully ∨ k = 0)) (hb : Red Sb false k fi (.leaf true) = true) :
    AnsB Sa Sb Sc diffF k fi (.leaf true) (.leaf true) (.leaf false) := by
  have hka : k ≤ Sa.top := by rw [hac.top]; exact hc.le
  have hkb : k ≤ Sb.top := by rw [hbc.top]; exact hc.le
  have eb := policy_ident_of_true hpb hkb hb (fun h => hnb h.symm)
  subst eb
  exact answer_empty _ _ (fun x _ _ => by
    rw [eval_same_policy hpb hpa false k hkb hka]
    cases eval Sa false k (.leaf true) x <;> rfl)

/-- `A − 0 = A` -/
theorem diff_case_rightEmpty_sound (hSc : Sc.WF) (hc : Ctx Sa Sb Sc k fi) (a : DD Bool) :
    AnsB Sa Sb Sc diffF k fi a (.leaf false) (copyTo Sa Sc k fi a) :=
  answer_copyA hSc hc _ _ (fun x _ _ => by rw [eval_leaf_zero]; exact Bool.and_true _)

/-- `A − A = 0` (same forest) -/
theorem diff_case_same_sound (hs : Sa = Sb) (a : DD Bool) :
    AnsB Sa Sb Sc diffF k fi a a (.leaf false) :=
  answer_empty _ _ (fun x _ _ => by
    subst hs
    cases eval Sa false k a x <;> rfl)

/-- The whole DIFFERENCE table is sound. -/
theorem diffShortcut_sound (same : Bool) (hSc : Sc.WF) (hac : SameVars Sa Sc)
    (hbc : SameVars Sb Sc) (hpa : Sa.Has pa) (hpb : Sb.Has pb) (hsame : same = true → Sa = Sb) :
    ShortcutSound Sa Sb Sc false false false diffF (diffShortcut pa pb same Sa Sb Sc) := by
  intro k fi a b r hc ha hb hs
  unfold diffShortcut at hs
  split at hs
  · rename_i h
    subst h; cases hs
    exact diff_case_leftEmpty_sound b
  · split at hs
    · rename_i h2
      cases hs
      obtain ⟨rfl, h2⟩ := h2
      exact diff_case_rightTrue_sound hbc hc hpb h2 a
    · rename_i h2
      split at hs
      · rename_i h3
        cases hs
        obtain ⟨rfl, rfl, rfl⟩ := h3
        exact diff_case_identities_sound hac hbc hc hpa hpb (fun h => h2 ⟨rfl, h⟩) hb
      · split at hs
        · rename_i h4
          subst h4; cases hs
          exact diff_case_rightEmpty_sound hSc hc a
        · split at hs
          · rename_i h5
            cases hs
            obtain ⟨rfl, hsm, _⟩ := h5
            exact diff_case_same_sound (hsame hsm) a
          · cases hs

end DiffCases

/-! ### The three operations with their shortcuts -/

section WithShortcuts
variable (pa pb : Policy) (same : Bool) (Sa Sb Sc : Shape)

/-- UNION as coded: the recursion with the terminal cases of `union_mt` -/
def unionS (a b : DD Bool) : DD Bool :=
  applyS Sa Sb Sc false false false (fun p q => p || q) (unionShortcut pa pb same Sa Sb Sc)
    Sc.top none a b
def interS (a b : DD Bool) : DD Bool :=
  applyS Sa Sb Sc false false false (fun p q => p && q) (interShortcut pa pb same Sa Sb Sc)
    Sc.top none a b
def diffS (a b : DD Bool) : DD Bool :=
  applyS Sa Sb Sc false false false (fun p q => p && !q) (diffShortcut pa pb same Sa Sb Sc)
    Sc.top none a b

variable {pa pb same Sa Sb Sc}

/-- hypotheses on the three forests of an operation -/
structure Setup (pa pb : Policy) (same : Bool) (Sa Sb Sc : Shape) : Prop where
  wfa : Sa.WF
  wfb : Sb.WF
  wfc : Sc.WF
  ac : SameVars Sa Sc
  bc : SameVars Sb Sc
  hpa : Sa.Has pa
  hpb : Sb.Has pb
  hsame : same = true → Sa = Sb

theorem unionS_eq_apply2 (h : Setup pa pb same Sa Sb Sc) (a b : DD Bool)
    (ha : Red Sa false Sa.top none a = true) (hb : Red Sb false Sb.top none b = true) :
    unionS pa pb same Sa Sb Sc a b = union Sa Sb Sc a b :=
  applyS_eq_apply2 Sa Sb Sc false false false _ _ h.wfa h.wfb h.wfc h.ac h.bc
    (unionShortcut_sound same h.wfc h.ac h.bc h.hpa h.hpb h.hsame) a b ha hb

theorem interS_eq_apply2 (h : Setup pa pb same Sa Sb Sc) (a b : DD Bool)
    (ha : Red Sa false Sa.top none a = true) (hb : Red Sb false Sb.top none b = true) :
    interS pa pb same Sa Sb Sc a b = inter Sa Sb Sc a b :=
  applyS_eq_apply2 Sa Sb Sc false false false _ _ h.wfa h.wfb h.wfc h.ac h.bc
    (interShortcut_sound same h.wfc h.ac h.bc h.hpa h.hpb h.hsame) a b ha hb

theorem diffS_eq_apply2 (h : Setup pa pb same Sa Sb Sc) (a b : DD Bool)
    (ha : Red Sa false Sa.top none a = true) (hb : Red Sb false Sb.top none b = true) :
    diffS pa pb same Sa Sb Sc a b = diff Sa Sb Sc a b :=
  applyS_eq_apply2 Sa Sb Sc false false false _ _ h.wfa h.wfb h.wfc h.ac h.bc
    (diffShortcut_sound same h.wfc h.ac h.bc h.hpa h.hpb h.hsame) a b ha hb

theorem unionS_eval (h : Setup pa pb same Sa Sb Sc) (a b : DD Bool)
    (ha : Red Sa false Sa.top none a = true) (hb : Red Sb false Sb.top none b = true)
    (x : Assign) (hx : Assign.Valid Sc x) :
    eval Sc false Sc.top (unionS pa pb same Sa Sb Sc a b) x
      = (eval Sa false Sa.top a x || eval Sb false Sb.top b x) := by
  rw [unionS_eq_apply2 h a b ha hb]; exact union_eval h.wfa h.wfb h.wfc h.ac h.bc a b x hx

theorem interS_eval (h : Setup pa pb same Sa Sb Sc) (a b : DD Bool)
    (ha : Red Sa false Sa.top none a = true) (hb : Red Sb false Sb.top none b = true)
    (x : Assign) (hx : Assign.Valid Sc x) :
    eval Sc false Sc.top (interS pa pb same Sa Sb Sc a b) x
      = (eval Sa false Sa.top a x && eval Sb false Sb.top b x) := by
  rw [interS_eq_apply2 h a b ha hb]; exact inter_eval h.wfa h.wfb h.wfc h.ac h.bc a b x hx

theorem diffS_eval (h : Setup pa pb same Sa Sb Sc) (a b : DD Bool)
    (ha : Red Sa false Sa.top none a = true) (hb : Red Sb false Sb.top none b = true)
    (x : Assign) (hx : Assign.Valid Sc x) :
    eval Sc false Sc.top (diffS pa pb same Sa Sb Sc a b) x
      = (eval Sa false Sa.top a x && !eval Sb false Sb.top b x) := by
  rw [diffS_eq_apply2 h a b ha hb]; exact diff_eval h.wfa h.wfb h.wfc h.ac h.bc a b x hx

theorem unionS_red (h : Setup pa pb same Sa Sb Sc) (a b : DD Bool)
    (ha : Red Sa false Sa.top none a = true) (hb : Red Sb false Sb.top none b = true) :
    Red Sc false Sc.top none (unionS pa pb same Sa Sb Sc a b) = true := by
  rw [unionS_eq_apply2 h a b ha hb]; exact union_red h.wfc a b

theorem interS_red (h : Setup pa pb same Sa Sb Sc) (a b : DD Bool)
    (ha : Red Sa false Sa.top none a = true) (hb : Red Sb false Sb.top none b = true) :
    Red Sc false Sc.top none (interS pa pb same Sa Sb Sc a b) = true := by
  rw [interS_eq_apply2 h a b ha hb]; exact inter_red h.wfc a b

theorem diffS_red (h : Setup pa pb same Sa Sb Sc) (a b : DD Bool)
    (ha : Red Sa false Sa.top none a = true) (hb : Red Sb false Sb.top none b = true) :
    Red Sc false Sc.top none (diffS pa pb same Sa Sb Sc a b) = true := by
  rw [diffS_eq_apply2 h a b ha hb]; exact diff_red h.wfc a b

end WithShortcuts

/-! ## 4. Level skipping

  When neither operand is stored at position `k+1` the real operations do not
  build a node there: they recurse at the next position where something is
  stored and afterwards *chain* the result up (`chainToLevel`:
  `makeRedundantsTo` / `makeIdentitiesTo`, and `redirectSingleton`).  Two
  patterns (comments in the constructors of `union_mt`, `inter_mt`, `diffr_mt`):
    * fully pattern, "skip by top level":   every child is the same sub-result;
    * identity pattern, "skip by unprimed": only the diagonal child is the
      sub-result, all others are transparent.                                  -/

section Skip
variable (Sa Sb Sc : Shape) (za : α) (zb : β) (zc : γ) (f : α → β → γ)

theorem cofactor_skip_nonident (S : Shape) (zero : α) (k : Nat) (fi : Option Nat) {d : DD α}
    (i : Nat) (hd : d.isNodeAt k = false) (hm : S.mode k ≠ .ident) :
    cofactor S zero k fi d i = d := by
  rw [cofactor_skip S zero k fi i hd, if_neg hm]

theorem cofactor_fi_irrel (S : Shape) (zero : α) (k : Nat) (fi fj : Option Nat) (d : DD α)
    (i : Nat) (hm : S.mode k ≠ .ident) :
    cofactor S zero k fi d i = cofactor S zero k fj d i := by
  rcases storedAt_cases k d with ⟨cs, rfl⟩ | hd
  · rw [cofactor_node, cofactor_node]
  · rw [cofactor_skip_nonident S zero k fi i hd hm, cofactor_skip_nonident S zero k fj i hd hm]

theorem cofactor_skip_diag (S : Shape) (zero : α) (k i : Nat) {d : DD α}
    (hd : d.isNodeAt k = false) : cofactor S zero k (some i) d i = d := by
  rw [cofactor_skip S zero k (some i) i hd]
  split
  · show (if i = i then d else .leaf zero) = d
    rw [if_pos rfl]
  · rfl

theorem cofactor_skip_offdiag (S : Shape) (zero : α) (k i j : Nat) {d : DD α}
    (hd : d.isNodeAt k = false) (hm : S.mode k = .ident) (hij : j ≠ i) :
    cofactor S zero k (some i) d j = .leaf zero := by
  rw [cofactor_skip S zero k (some i) j hd, if_pos hm]
  show (if j = i then d else .leaf zero) = .leaf zero
  rw [if_neg hij]

theorem mkNode_fi_irrel (S : Shape) (zero : α) (k : Nat) (fi fj : Option Nat) (cs : List (DD α))
    (hm : S.mode k ≠ .ident) : mkNode S zero k fi cs = mkNode S zero k fj cs := by
  unfold mkNode
  cases h : S.mode k with
  | red => rfl
  | none => rfl
  | ident => exact absurd h hm

theorem mkNode_all_zero (S : Shape) (zero : α) (k : Nat) (fi : Option Nat) (cs : List (DD α))
    (h : ∀ c, c ∈ cs → c = .leaf zero) : mkNode S zero k fi cs = .leaf zero := by
  unfold mkNode
  rw [if_pos]
  rw [List.all_eq_true]
  intro c hc
  exact beq_iff_eq.mpr (h c hc)

/-- the entering index is irrelevant at a position that is `ident` in no forest -/
theorem apply2_fi_irrel (k : Nat) (fi fj : Option Nat) (a : DD α) (b : DD β)
    (ha : Sa.mode k ≠ .ident) (hb : Sb.mode k ≠ .ident) (hc : Sc.mode k ≠ .ident) :
    apply2 Sa Sb Sc za zb zc f k fi a b = apply2 Sa Sb Sc za zb zc f k fj a b := by
  cases k with
  | zero => rw [apply2_zero, apply2_zero]
  | succ k =>
    rw [apply2_succ, apply2_succ, mkNode_fi_irrel Sc zc (k+1) fi fj _ hc]
    congr 1
    apply List.map_congr_left
    intro i _
    rw [cofactor_fi_irrel Sa za (k+1) fi fj a i ha, cofactor_fi_irrel Sb zb (k+1) fi fj b i hb]

/-- `apply2` is transparent as soon as `f` is, on a class of operand pairs closed
    under taking cofactors -/
theorem apply2_eq_zero (Pa : DD α → Prop) (Pb : DD β → Prop)
    (hPa : ∀ k fi a i, Pa a → Pa (cofactor Sa za k fi a i))
    (hPb : ∀ k fi b i, Pb b → Pb (cofactor Sb zb k fi b i))
    (hf : ∀ a b, Pa a → Pb b → f (leafVal za a) (leafVal zb b) = zc) :
    ∀ (k : Nat) (fi : Option Nat) (a : DD α) (b : DD β), Pa a → Pb b →
      apply2 Sa Sb Sc za zb zc f k fi a b = .leaf zc := by
  intro k
  induction k with
  | zero => intro fi a b ha hb; rw [apply2_zero, hf a b ha hb]
  | succ k ih =>
    intro fi a b ha hb
    rw [apply2_succ]
    apply mkNode_all_zero
    intro c hc
    obtain ⟨i, _, rfl⟩ := List.mem_map.mp hc
    exact ih (some i) _ _ (hPa _ _ _ _ ha) (hPb _ _ _ _ hb)

theorem cofactor_leaf_zero (S : Shape) (zero : α) (k : Nat) (fi : Option Nat) (i : Nat) :
    cofactor S zero k fi (.leaf zero) i = .leaf zero := by
  rcases cofactor_skip_cases S zero k fi (d := .leaf zero) i rfl with h | h <;> exact h

/-- `0 op B = 0` when `f zero y = zero` for all `y` (∩, −) -/
theorem apply2_zero_left (hf : ∀ y, f za y = zc) (k : Nat) (fi : Option Nat) (b : DD β) :
    apply2 Sa Sb Sc za zb zc f k fi (.leaf za) b = .leaf zc :=
  apply2_eq_zero Sa Sb Sc za zb zc f (fun a => a = .leaf za) (fun _ => True)
    (fun k fi a i h => by rw [h]; exact cofactor_leaf_zero Sa za k fi i) (fun _ _ _ _ _ => trivial)
    (fun a b ha _ => by rw [ha]; exact hf _) k fi _ b rfl trivial

/-- `A op 0 = 0` when `f x zero = zero` for all `x` (∩) -/
theorem apply2_zero_right (hf : ∀ x, f x zb = zc) (k : Nat) (fi : Option Nat) (a : DD α) :
    apply2 Sa Sb Sc za zb zc f k fi a (.leaf zb) = .leaf zc :=
  apply2_eq_zero Sa Sb Sc za zb zc f (fun _ => True) (fun b => b = .leaf zb)
    (fun _ _ _ _ _ => trivial) (fun k fi b i h => by rw [h]; exact cofactor_leaf_zero Sb zb k fi i)
    (fun a b _ hb => by rw [hb]; exact hf _) k fi a _ trivial rfl

/-- `0 op 0 = 0` when `f zero zero = zero` (∪, ∩, −) -/
theorem apply2_zero_zero (hf : f za zb = zc) (k : Nat) (fi : Option Nat) :
    apply2 Sa Sb Sc za zb zc f k fi (.leaf za) (.leaf zb) = .leaf zc :=
  apply2_eq_zero Sa Sb Sc za zb zc f (fun a => a = .leaf za) (fun b => b = .leaf zb)
    (fun k fi a i h => by rw [h]; exact cofactor_leaf_zero Sa za k fi i)
    (fun k fi b i h => by rw [h]; exact cofactor_leaf_zero Sb zb k fi i)
    (fun a b ha hb => by rw [ha, hb]; exact hf) k fi _ _ rfl rfl

/-! ### `redirectSingleton` -/

/-- child `i` of a stored node -/
def childAt (zero : α) (i : Nat) : DD α → DD α
  | .leaf v => .leaf v
  | .node _ cs => cs.getD i (.leaf zero)

/-- `forest::redirectSingleton(i, p)` at position `k`: an edge from index `i` must
    not point to an `i`-singleton of an `ident` position; it points to the
    singleton's child instead. -/
def redirect (S : Shape) (zero : α) (k i : Nat) (r : DD α) : DD α :=
  if S.mode k = .ident ∧ isSingleton zero k i r = true then childAt zero i r else r

theorem redirect_nonident (S : Shape) (zero : α) (k i : Nat) (r : DD α) (hm : S.mode k ≠ .ident) :
    redirect S zero k i r = r := by
  unfold redirect
  rw [if_neg (fun h => hm h.1)]

theorem redirect_leaf (S : Shape) (zero : α) (k i : Nat) (v : α) :
    redirect S zero k i (.leaf v) = .leaf v := by
  unfold redirect
  rw [if_neg]
  intro h
  exact absurd h.2 (by simp [isSingleton])

/-- `createReducedNode` knowing the incoming index = `createReducedNode` not
    knowing it, followed by `redirectSingleton` -/
theorem mkNode_some_eq_redirect (S : Shape) (zero : α) (k i : Nat) (cs : List (DD α)) :
    mkNode S zero k (some i) cs = redirect S zero k i (mkNode S zero k none cs) := by
  by_cases hm : S.mode k = .ident
  · by_cases hz : cs.all (fun c => c == .leaf zero) = true
    · have e1 : mkNode S zero k (some i) cs = .leaf zero := by unfold mkNode; rw [if_pos hz]
      have e2 : mkNode S zero k none cs = .leaf zero := by unfold mkNode; rw [if_pos hz]
      rw [e1, e2, redirect_leaf]
    · have e1 : mkNode S zero k (some i) cs =
          if isSingletonList zero i cs = true then cs.getD i (.leaf zero) else .node k cs := by
        unfold mkNode; rw [if_neg hz]; simp only [hm]
      have e2 : mkNode S zero k none cs = .node k cs := by
        unfold mkNode; rw [if_neg hz]; simp only [hm]
      rw [e1, e2]
      unfold redirect
      rw [isSingleton_node_eq]
      by_cases hs : isSingletonList zero i cs = true
      · rw [if_pos hs, if_pos ⟨hm, hs⟩]; rfl
      · rw [if_neg hs, if_neg (fun h => hs h.2)]
  · rw [redirect_nonident S zero k i _ hm]
    exact mkNode_fi_irrel S zero k _ _ cs hm

/-- the sub-result computed not knowing the index, redirected, is the
    sub-result computed knowing the index -/
theorem apply2_some_eq_redirect (k i : Nat) (a : DD α) (b : DD β)
    (ha : Sa.mode k ≠ .ident) (hb : Sb.mode k ≠ .ident) :
    apply2 Sa Sb Sc za zb zc f k (some i) a b
      = redirect Sc zc k i (apply2 Sa Sb Sc za zb zc f k none a b) := by
  cases k with
  | zero => rw [apply2_zero, apply2_zero, redirect_leaf]
  | succ k =>
    rw [apply2_succ, apply2_succ, mkNode_some_eq_redirect]
    congr 2
    apply List.map_congr_left
    intro j _
    rw [cofactor_fi_irrel Sa za (k+1) (some i) none a j ha,
      cofactor_fi_irrel Sb zb (k+1) (some i) none b j hb]

/-! ### The two skipping steps -/

/-- one step of `makeRedundantsTo` (+ `redirectSingleton`) in the result forest:
    a node all of whose children are the sub-result `r` -/
def redStep (k : Nat) (fi : Option Nat) (r : DD γ) : DD γ :=
  mkNode Sc zc k fi ((List.range (Sc.size k)).map fun i => redirect Sc zc (k-1) i r)

/-- the primed half of one step of `makeIdentitiesTo`: only child `i0` (the index
    we came from) is the sub-result `r` -/
def identHalf (k i0 : Nat) (r : DD γ) : DD γ :=
  mkNode Sc zc k (some i0)
    ((List.range (Sc.size k)).map fun j => if j = i0 then r else .leaf zc)

/-- **fully pattern.**  Both operands skip position `k+1`, which is `ident` in
    neither operand forest, nor is position `k`: every child of the result is the
    sub-result at `k`. -/
theorem apply2_skip_red (k : Nat) (fi : Option Nat) (a : DD α) (b : DD β)
    (hsa : a.isNodeAt (k+1) = false) (hsb : b.isNodeAt (k+1) = false)
    (ha1 : Sa.mode (k+1) ≠ .ident) (hb1 : Sb.mode (k+1) ≠ .ident)
    (ha0 : Sa.mode k ≠ .ident) (hb0 : Sb.mode k ≠ .ident) :
    apply2 Sa Sb Sc za zb zc f (k+1) fi a b
      = redStep Sc zc (k+1) fi (apply2 Sa Sb Sc za zb zc f k none a b) := by
  rw [apply2_succ]
  unfold redStep
  congr 1
  apply List.map_congr_left
  intro i _
  rw [cofactor_skip_nonident Sa za (k+1) fi i hsa ha1,
    cofactor_skip_nonident Sb zb (k+1) fi i hsb hb1]
  exact apply2_some_eq_redirect Sa Sb Sc za zb zc f k i a b ha0 hb0

/-- when is the off-diagonal of an identity pattern transparent -/
def OffDiag (p : Nat) : Prop :=
  (Sa.mode p = .ident ∧ Sb.mode p = .ident ∧ f za zb = zc) ∨
  (Sa.mode p = .ident ∧ Sb.mode p ≠ .ident ∧ ∀ y, f za y = zc) ∨
  (Sa.mode p ≠ .ident ∧ Sb.mode p = .ident ∧ ∀ x, f x zb = zc)

/-- **identity pattern.**  Both operands skip the primed position `k+1`, entered
    through index `i0`; at least one operand forest is `ident` there and the
    off-diagonal entries are transparent: only child `i0` is the sub-result. -/
theorem apply2_skip_primed (k i0 : Nat) (a : DD α) (b : DD β)
    (hsa : a.isNodeAt (k+1) = false) (hsb : b.isNodeAt (k+1) = false)
    (hod : OffDiag Sa Sb za zb zc f (k+1))
    (ha0 : Sa.mode k ≠ .ident) (hb0 : Sb.mode k ≠ .ident) (hc0 : Sc.mode k ≠ .ident) :
    apply2 Sa Sb Sc za zb zc f (k+1) (some i0) a b
      = identHalf Sc zc (k+1) i0 (apply2 Sa Sb Sc za zb zc f k none a b) := by
  rw [apply2_succ]
  unfold identHalf
  congr 1
  apply List.map_congr_left
  intro j _
  by_cases hj : j = i0
  · subst hj
    rw [if_pos rfl, cofactor_skip_diag Sa za (k+1) j hsa, cofactor_skip_diag Sb zb (k+1) j hsb]
    exact apply2_fi_irrel Sa Sb Sc za zb zc f k _ _ a b ha0 hb0 hc0
  · rw [if_neg hj]
    rcases hod with ⟨hma, hmb, hf⟩ | ⟨hma, hmb, hf⟩ | ⟨hma, hmb, hf⟩
    · rw [cofactor_skip_offdiag Sa za (k+1) i0 j hsa hma hj,
        cofactor_skip_offdiag Sb zb (k+1) i0 j hsb hmb hj]
      exact apply2_zero_zero Sa Sb Sc za zb zc f hf k _
    · rw [cofactor_skip_offdiag Sa za (k+1) i0 j hsa hma hj]
      exact apply2_zero_left Sa Sb Sc za zb zc f hf k _ _
    · rw [cofactor_skip_offdiag Sb zb (k+1) i0 j hsb hmb hj]
      exact apply2_zero_right Sa Sb Sc za zb zc f hf k _ _

/-! ### When the result forest follows the same pattern the chain vanishes -/

theorem mkNode_red_const (S : Shape) (zero : α) (k : Nat) (fi : Option Nat) (cs : List (DD α))
    (r : DD α) (hm : S.mode k = .red) (hne : cs ≠ []) (hall : ∀ c, c ∈ cs → c = r) :
    mkNode S zero k fi cs = r := by
  obtain ⟨c0, cs', rfl⟩ := List.exists_cons_of_ne_nil hne
  have hc0 : c0 = r := hall c0 (List.mem_cons_self ..)
  unfold mkNode
  by_cases hz : (c0 :: cs').all (fun c => c == .leaf zero) = true
  · rw [if_pos hz]
    have := beq_iff_eq.mp (List.all_eq_true.mp hz c0 (List.mem_cons_self ..))
    rw [← hc0, this]
  · rw [if_neg hz]
    simp only [hm]
    rw [if_pos]
    · exact hc0
    · rw [List.all_eq_true]
      intro c hc
      apply beq_iff_eq.mpr
      rw [hall c hc]
      exact hc0.symm

/-- fully pattern into a `red` position of the result: nothing to build -/
theorem redStep_red (k : Nat) (fi : Option Nat) (r : DD γ)
    (hm : Sc.mode (k+1) = .red) (h0 : Sc.mode k ≠ .ident) (hpos : 0 < Sc.size (k+1)) :
    redStep Sc zc (k+1) fi r = r := by
  unfold redStep
  apply mkNode_red_const Sc zc (k+1) fi _ r hm
  · intro h
    have := congrArg List.length h
    rw [length_map_range] at this
    simp at this
    omega
  · intro c hc
    obtain ⟨i, _, rfl⟩ := List.mem_map.mp hc
    exact redirect_nonident Sc zc _ i r h0

/-- identity pattern into an `ident` position of the result: nothing to build -/
theorem identHalf_ident (k i0 : Nat) (r : DD γ)
    (hm : Sc.mode k = .ident) (hi : i0 < Sc.size k) :
    identHalf Sc zc k i0 r = r := by
  unfold identHalf
  have hget : ((List.range (Sc.size k)).map fun j => if j = i0 then r else .leaf zc).getD i0
      (.leaf zc) = r := by
    rw [getD_map_range _ _ _ hi, if_pos rfl]
  rcases mkNode_cases Sc zc k (some i0)
      ((List.range (Sc.size k)).map fun j => if j = i0 then r else .leaf zc)
    with ⟨hz, hr⟩ | ⟨_, hm', _⟩ | ⟨_, _, i, hi', _, hr⟩ | ⟨hz, _, _, hid⟩
  · rw [hr, ← hget]
    exact (all_leaf_zero_getD zc _ hz i0).symm
  · rw [hm] at hm'; cases hm'
  · cases hi'; rw [hr, hget]
  · exfalso
    have hs := hid hm i0 rfl
    have : isSingletonList zc i0
        ((List.range (Sc.size k)).map fun j => if j = i0 then r else .leaf zc) = true := by
      rw [isSingletonList_iff]
      refine ⟨by rw [length_map_range]; exact hi, ?_, ?_⟩
      · intro j hj
        rw [length_map_range] at hj
        by_cases hji : j = i0
        · left; exact hji
        · right; rw [getD_map_range _ _ _ hj, if_neg hji]
      · rw [hget]
        intro hrz
        obtain ⟨c, hc, hcne⟩ := exists_ne_of_all_false zc _ hz
        obtain ⟨j, _, rfl⟩ := List.mem_map.mp hc
        by_cases hji : j = i0
        · rw [if_pos hji] at hcne; exact hcne hrz
        · rw [if_neg hji] at hcne; exact hcne rfl
    rw [this] at hs; cases hs

/-- **fully pattern, all three forests** ("skip by top level"): recurse directly
    at the next position. -/
theorem apply2_skip_red_same (k : Nat) (fi : Option Nat) (a : DD α) (b : DD β)
    (hsa : a.isNodeAt (k+1) = false) (hsb : b.isNodeAt (k+1) = false)
    (ha1 : Sa.mode (k+1) ≠ .ident) (hb1 : Sb.mode (k+1) ≠ .ident) (hc1 : Sc.mode (k+1) = .red)
    (ha0 : Sa.mode k ≠ .ident) (hb0 : Sb.mode k ≠ .ident) (hc0 : Sc.mode k ≠ .ident)
    (hpos : 0 < Sc.size (k+1)) :
    apply2 Sa Sb Sc za zb zc f (k+1) fi a b = apply2 Sa Sb Sc za zb zc f k none a b := by
  rw [apply2_skip_red Sa Sb Sc za zb zc f k fi a b hsa hsb ha1 hb1 ha0 hb0,
    redStep_red Sc zc k fi _ hc1 hc0 hpos]

/-- **identity pattern, primed half, result forest `ident` there**: recurse
    directly at the next position. -/
theorem apply2_skip_primed_same (k i0 : Nat) (a : DD α) (b : DD β)
    (hsa : a.isNodeAt (k+1) = false) (hsb : b.isNodeAt (k+1) = false)
    (hod : OffDiag Sa Sb za zb zc f (k+1)) (hc1 : Sc.mode (k+1) = .ident)
    (ha0 : Sa.mode k ≠ .ident) (hb0 : Sb.mode k ≠ .ident) (hc0 : Sc.mode k ≠ .ident)
    (hi : i0 < Sc.size (k+1)) :
    apply2 Sa Sb Sc za zb zc f (k+1) (some i0) a b = apply2 Sa Sb Sc za zb zc f k none a b := by
  rw [apply2_skip_primed Sa Sb Sc za zb zc f k i0 a b hsa hsb hod ha0 hb0 hc0,
    identHalf_ident Sc zc (k+1) i0 _ hc1 hi]

/-- **identity pattern, a whole unprimed/primed pair** ("skip by unprimed"):
    positions `k+2` (unprimed, `red`) and `k+1` (primed) are skipped by both
    operands, the result forest is `red`/`ident` there: recurse directly at `k`. -/
theorem apply2_skip_pair_same (k : Nat) (fi : Option Nat) (a : DD α) (b : DD β)
    (hsa2 : a.isNodeAt (k+2) = false) (hsb2 : b.isNodeAt (k+2) = false)
    (hsa : a.isNodeAt (k+1) = false) (hsb : b.isNodeAt (k+1) = false)
    (ha2 : Sa.mode (k+2) ≠ .ident) (hb2 : Sb.mode (k+2) ≠ .ident) (hc2 : Sc.mode (k+2) = .red)
    (hod : OffDiag Sa Sb za zb zc f (k+1)) (hc1 : Sc.mode (k+1) = .ident)
    (ha0 : Sa.mode k ≠ .ident) (hb0 : Sb.mode k ≠ .ident) (hc0 : Sc.mode k ≠ .ident)
    (hsz : Sc.size (k+2) ≤ Sc.size (k+1)) (hpos : 0 < Sc.size (k+2)) :
    apply2 Sa Sb Sc za zb zc f (k+2) fi a b = apply2 Sa Sb Sc za zb zc f k none a b := by
  rw [apply2_succ]
  apply mkNode_red_const Sc zc (k+2) fi _ _ hc2
  · intro h
    have := congrArg List.length h
    rw [length_map_range] at this
    have hpos' : 0 < Sc.size (k+1+1) := hpos
    simp at this
    omega
  · intro c hc
    obtain ⟨i, hi, rfl⟩ := List.mem_map.mp hc
    have hi' : i < Sc.size (k+2) := List.mem_range.mp hi
    rw [cofactor_skip_nonident Sa za (k+2) fi i hsa2 ha2,
      cofactor_skip_nonident Sb zb (k+2) fi i hsb2 hb2]
    exact apply2_skip_primed_same Sa Sb Sc za zb zc f k i a b hsa hsb hod hc1 ha0 hb0 hc0
      (by omega)

/-! ### `applySkip`: the recursion that skips -/

/-- which skipping step applies at position `k`:
    `none` = build a node; `some none` = fully pattern; `some (some i)` =
    identity pattern, entered through index `i`. -/
def skipKind (skR skP : Nat → Bool) (k : Nat) (fi : Option Nat) (a : DD α) (b : DD β) :
    Option (Option Nat) :=
  if a.isNodeAt k || b.isNodeAt k then none
  else if skR k then some none
  else if skP k then (match fi with | some i => some (some i) | none => none)
  else none

/-- `apply2` that does not build nodes at positions both operands skip, when the
    rule (`skR`: fully pattern allowed at this position; `skP`: identity pattern
    allowed at this primed position) says so. -/
def applySkip (skR skP : Nat → Bool) : Nat → Option Nat → DD α → DD β → DD γ
  | 0, _, a, b => .leaf (f (leafVal za a) (leafVal zb b))
  | k+1, fi, a, b =>
    match skipKind skR skP (k+1) fi a b with
    | some none => redStep Sc zc (k+1) fi (applySkip skR skP k none a b)
    | some (some i0) => identHalf Sc zc (k+1) i0 (applySkip skR skP k none a b)
    | none =>
      mkNode Sc zc (k+1) fi
        ((List.range (Sc.size (k+1))).map fun i =>
          applySkip skR skP k (some i)
            (cofactor Sa za (k+1) fi a i) (cofactor Sb zb (k+1) fi b i))

/-- The mode conditions under which the rule may skip. -/
structure SkipOK (skR skP : Nat → Bool) : Prop where
  red : ∀ k, k+1 ≤ Sc.top → skR (k+1) = true →
    Sa.mode (k+1) ≠ .ident ∧ Sb.mode (k+1) ≠ .ident ∧ Sa.mode k ≠ .ident ∧ Sb.mode k ≠ .ident
  primed : ∀ k, k+1 ≤ Sc.top → skP (k+1) = true →
    OffDiag Sa Sb za zb zc f (k+1) ∧
      Sa.mode k ≠ .ident ∧ Sb.mode k ≠ .ident ∧ Sc.mode k ≠ .ident

theorem skipKind_some_none {skR skP : Nat → Bool} {k : Nat} {fi : Option Nat} {a : DD α}
    {b : DD β} (h : skipKind skR skP k fi a b = some none) :
    a.isNodeAt k = false ∧ b.isNodeAt k = false ∧ skR k = true := by
  unfold skipKind at h
  split at h
  · cases h
  · rename_i hn
    simp only [Bool.or_eq_true, not_or, Bool.not_eq_true] at hn
    split at h
    · rename_i hr; exact ⟨hn.1, hn.2, hr⟩
    · split at h
      · cases fi <;> cases h
      · cases h

theorem skipKind_some_some {skR skP : Nat → Bool} {k : Nat} {fi : Option Nat} {a : DD α}
    {b : DD β} {i0 : Nat} (h : skipKind skR skP k fi a b = some (some i0)) :
    a.isNodeAt k = false ∧ b.isNodeAt k = false ∧ skP k = true ∧ fi = some i0 := by
  unfold skipKind at h
  split at h
  · cases h
  · rename_i hn
    simp only [Bool.or_eq_true, not_or, Bool.not_eq_true] at hn
    split at h
    · cases h
    · split at h
      · rename_i hp
        cases fi with
        | none => cases h
        | some i => cases h; exact ⟨hn.1, hn.2, hp, rfl⟩
      · cases h

/-- Level skipping is a pure optimisation: no hypothesis on the operand trees. -/
theorem applySkip_eq_apply2 (skR skP : Nat → Bool) (hok : SkipOK Sa Sb Sc za zb zc f skR skP) :
    ∀ (k : Nat), k ≤ Sc.top → ∀ (fi : Option Nat) (a : DD α) (b : DD β),
      applySkip Sa Sb Sc za zb zc f skR skP k fi a b = apply2 Sa Sb Sc za zb zc f k fi a b := by
  intro k
  induction k with
  | zero => intro _ fi a b; rw [applySkip, apply2_zero]
  | succ k ih =>
    intro hk fi a b
    rw [applySkip]
    cases hsk : skipKind skR skP (k+1) fi a b with
    | none =>
      show mkNode Sc zc (k+1) fi _ = _
      rw [apply2_succ]
      congr 1
      apply List.map_congr_left
      intro i _
      exact ih (by omega) _ _ _
    | some o =>
      cases o with
      | none =>
        obtain ⟨hsa, hsb, hr⟩ := skipKind_some_none hsk
        obtain ⟨ha1, hb1, ha0, hb0⟩ := hok.red k hk hr
        show redStep Sc zc (k+1) fi _ = _
        rw [ih (by omega), apply2_skip_red Sa Sb Sc za zb zc f k fi a b hsa hsb ha1 hb1 ha0 hb0]
      | some i0 =>
        obtain ⟨hsa, hsb, hp, rfl⟩ := skipKind_some_some hsk
        obtain ⟨hod, ha0, hb0, hc0⟩ := hok.primed k hk hp
        show identHalf Sc zc (k+1) i0 _ = _
        rw [ih (by omega),
          apply2_skip_primed Sa Sb Sc za zb zc f k i0 a b hsa hsb hod ha0 hb0 hc0]

/-! ### Shortcuts *and* skipping: the recursion as coded

  `_compute(L, in, A, B)`: (1) terminal cases; (2) `Clevel = topLevelOf(L, …)`:
  while both operands skip, no node is built (and the terminal cases are not
  re-tested: they depend on `A`, `B` only); (3) build the node at `Clevel`, the
  children being recursive calls; (4) chain the result up to `L`.             -/

/-- steps (2)–(4) -/
def applyFull (sc : Nat → Option Nat → DD α → DD β → Option (DD γ)) (skR skP : Nat → Bool) :
    Nat → Option Nat → DD α → DD β → DD γ
  | 0, _, a, b => .leaf (f (leafVal za a) (leafVal zb b))
  | k+1, fi, a, b =>
    match skipKind skR skP (k+1) fi a b with
    | some none => redStep Sc zc (k+1) fi (applyFull sc skR skP k none a b)
    | some (some i0) => identHalf Sc zc (k+1) i0 (applyFull sc skR skP k none a b)
    | none =>
      mkNode Sc zc (k+1) fi
        ((List.range (Sc.size (k+1))).map fun i =>
          match sc k (some i) (cofactor Sa za (k+1) fi a i) (cofactor Sb zb (k+1) fi b i) with
          | some r => r
          | none => applyFull sc skR skP k (some i)
              (cofactor Sa za (k+1) fi a i) (cofactor Sb zb (k+1) fi b i))

/-- steps (1)–(4) -/
def applyFullS (sc : Nat → Option Nat → DD α → DD β → Option (DD γ)) (skR skP : Nat → Bool)
    (k : Nat) (fi : Option Nat) (a : DD α) (b : DD β) : DD γ :=
  match sc k fi a b with
  | some r => r
  | none => applyFull Sa Sb Sc za zb zc f sc skR skP k fi a b

theorem applyFull_eq_apply2 (sc : Nat → Option Nat → DD α → DD β → Option (DD γ))
    (skR skP : Nat → Bool) (hSc : Sc.WF) (hac : SameVars Sa Sc) (hbc : SameVars Sb Sc)
    (hsc : ShortcutSound Sa Sb Sc za zb zc f sc) (hok : SkipOK Sa Sb Sc za zb zc f skR skP) :
    ∀ (k : Nat), k ≤ Sc.top → ∀ (fi : Option Nat) (a : DD α) (b : DD β),
      Red Sa za k fi a = true → Red Sb zb k fi b = true →
      applyFull Sa Sb Sc za zb zc f sc skR skP k fi a b = apply2 Sa Sb Sc za zb zc f k fi a b := by
  intro k
  induction k with
  | zero => intro _ fi a b _ _; rw [applyFull, apply2_zero]
  | succ k ih =>
    intro hk fi a b hra hrb
    rw [applyFull]
    cases hsk : skipKind skR skP (k+1) fi a b with
    | none =>
      show mkNode Sc zc (k+1) fi _ = _
      rw [apply2_succ]
      congr 1
      apply List.map_congr_left
      intro i hi
      have hi' : i < Sc.size (k+1) := List.mem_range.mp hi
      have hra' := cofactor_red Sa za k fi a i (by rw [hac.size]; exact hi') hra
      have hrb' := cofactor_red Sb zb k fi b i (by rw [hbc.size]; exact hi') hrb
      have hctx : Ctx Sa Sb Sc k (some i) :=
        ⟨by omega, (by intro j hj; cases hj; exact hi'), (by intro h; cases h),
          (by intro h; cases h), (by intro h; cases h)⟩
      cases hs : sc k (some i) (cofactor Sa za (k+1) fi a i) (cofactor Sb zb (k+1) fi b i) with
      | some r => exact (hsc k (some i) _ _ r hctx hra' hrb' hs).eq_apply2 hSc hctx
      | none => exact ih (by omega) _ _ _ hra' hrb'
    | some o =>
      cases o with
      | none =>
        obtain ⟨hsa, hsb, hr⟩ := skipKind_some_none hsk
        obtain ⟨ha1, hb1, ha0, hb0⟩ := hok.red k hk hr
        show redStep Sc zc (k+1) fi _ = _
        rw [ih (by omega) none a b (Red_succ_skip Sa za k fi hsa hra).2
            (Red_succ_skip Sb zb k fi hsb hrb).2,
          apply2_skip_red Sa Sb Sc za zb zc f k fi a b hsa hsb ha1 hb1 ha0 hb0]
      | some i0 =>
        obtain ⟨hsa, hsb, hp, rfl⟩ := skipKind_some_some hsk
        obtain ⟨hod, ha0, hb0, hc0⟩ := hok.primed k hk hp
        show identHalf Sc zc (k+1) i0 _ = _
        rw [ih (by omega) none a b (Red_succ_skip Sa za k (some i0) hsa hra).2
            (Red_succ_skip Sb zb k (some i0) hsb hrb).2,
          apply2_skip_primed Sa Sb Sc za zb zc f k i0 a b hsa hsb hod ha0 hb0 hc0]

/-- The recursion as coded — terminal shortcuts, level skipping, chaining —
    returns the tree of the plain recursion, at every step. -/
theorem applyFullS_eq_apply2 (sc : Nat → Option Nat → DD α → DD β → Option (DD γ))
    (skR skP : Nat → Bool) (hSc : Sc.WF) (hac : SameVars Sa Sc) (hbc : SameVars Sb Sc)
    (hsc : ShortcutSound Sa Sb Sc za zb zc f sc) (hok : SkipOK Sa Sb Sc za zb zc f skR skP)
    (k : Nat) (fi : Option Nat) (a : DD α) (b : DD β) (hc : Ctx Sa Sb Sc k fi)
    (hra : Red Sa za k fi a = true) (hrb : Red Sb zb k fi b = true) :
    applyFullS Sa Sb Sc za zb zc f sc skR skP k fi a b = apply2 Sa Sb Sc za zb zc f k fi a b := by
  unfold applyFullS
  cases hs : sc k fi a b with
  | some r => exact (hsc k fi a b r hc hra hrb hs).eq_apply2 hSc hc
  | none =>
    exact applyFull_eq_apply2 Sa Sb Sc za zb zc f sc skR skP hSc hac hbc hsc hok k hc.le fi a b
      hra hrb

end Skip

/-! ### Which reduction-rule combinations skip how (constructors of `union_mt`,
    `inter_mt`, `diffr_mt`) -/

/-- the two flags that drive `topLevelOf` / `chainToLevel` -/
structure SkipRule where
  /-- "fully pattern: skip by top level" -/
  fullyPattern : Bool
  /-- "identity pattern: skip by unprimed" -/
  identPattern : Bool
  deriving DecidableEq, Repr

/-- the fully pattern may skip any position -/
def SkipRule.skR (r : SkipRule) (_ : Nat) : Bool := r.fullyPattern
/-- the identity pattern skips primed (odd) positions (the unprimed position above
    then carries the node all of whose children are identity halves: this is what
    `makeIdentitiesTo` builds; in an identity-reduced result forest it vanishes) -/
def SkipRule.skP (r : SkipRule) (p : Nat) : Bool := r.identPattern && p % 2 == 1

/-- `union_mt`: `both_fully`, `both_identity`; `by_levels = !(both_fully || both_identity)`
    (in particular `forced_by_levels`, fully × identity, goes by levels). -/
def unionRule (pa pb : Policy) : SkipRule :=
  ⟨decide (pa = .fully ∧ pb = .fully), decide (pa = .ident ∧ pb = .ident)⟩

/-- `inter_mt`: `identity_pattern = (arg1 ident && !arg2 quasi) || (arg2 ident && !arg1 quasi)`;
    otherwise `topLevel(Alevel, Blevel)`, which skips only when both are fully reduced
    (a legal non-empty node of a quasi-reduced forest sits at every level: `quasi_no_skip`). -/
def interRule (pa pb : Policy) : SkipRule :=
  ⟨decide (pa = .fully ∧ pb = .fully),
   decide ((pa = .ident ∧ pb ≠ .quasi) ∨ (pb = .ident ∧ pa ≠ .quasi))⟩

/-- `diffr_mt`: `force_by_unprimed = arg1 ident && !arg2 quasi`;
    `force_by_levels = arg1 fully && arg2 ident` (no skipping). -/
def diffRule (pa pb : Policy) : SkipRule :=
  ⟨decide (pa = .fully ∧ pb = .fully), decide (pa = .ident ∧ pb ≠ .quasi)⟩

/-- `by_levels` of `union_mt` -/
def unionByLevels (pa pb : Policy) : Bool :=
  !((unionRule pa pb).fullyPattern || (unionRule pa pb).identPattern)
/-- `forced_by_levels` of `union_mt` / `force_by_levels` of `diffr_mt` (one direction) -/
def forcedByLevels (pa pb : Policy) : Bool :=
  decide ((pa = .fully ∧ pb = .ident) ∨ (pb = .fully ∧ pa = .ident))

example : ∀ pa pb, forcedByLevels pa pb = true → unionByLevels pa pb = true := by
  intro pa pb; cases pa <;> cases pb <;> decide
example : (diffRule .fully .ident) = ⟨false, false⟩ := by decide
example : (interRule .fully .ident) = ⟨false, true⟩ := by decide
example : (unionRule .fully .ident) = ⟨false, false⟩ := by decide

section Rules
variable {pa pb pc : Policy} {Sa Sb Sc : Shape}

theorem mode_ne_ident_zero {S : Shape} (hS : S.WF) : S.mode 0 ≠ .ident := by
  intro h
  have := (hS.ident_below_red 0 h).1
  omega

theorem mode_ne_ident_fully {S : Shape} (hS : S.WF) (hp : S.Has .fully) (q : Nat)
    (hq : q ≤ S.top) : S.mode q ≠ .ident := by
  cases q with
  | zero => exact mode_ne_ident_zero hS
  | succ q => rw [hp (q+1) (by omega) hq]; intro h; cases h

theorem mode_ne_ident_quasi {S : Shape} (hS : S.WF) (hp : S.Has .quasi) (q : Nat)
    (hq : q ≤ S.top) : S.mode q ≠ .ident := by
  cases q with
  | zero => exact mode_ne_ident_zero hS
  | succ q => rw [hp (q+1) (by omega) hq]; intro h; cases h

/-- unprimed positions are `ident` under no policy -/
theorem mode_ne_ident_even {S : Shape} {p : Policy} (hS : S.WF) (hp : S.Has p) (q : Nat)
    (hq : q ≤ S.top) (he : q % 2 = 0) : S.mode q ≠ .ident := by
  cases q with
  | zero => exact mode_ne_ident_zero hS
  | succ q =>
    rw [hp (q+1) (by omega) hq]
    cases p with
    | fully => intro h; cases h
    | quasi => intro h; cases h
    | ident =>
      show (if (q+1) % 2 = 1 then Mode.ident else Mode.red) ≠ Mode.ident
      rw [if_neg (by omega)]
      intro h; cases h

theorem mode_ident_odd {S : Shape} (hp : S.Has .ident) (q : Nat) (hq : q ≤ S.top)
    (ho : q % 2 = 1) : S.mode q = .ident := by
  rw [hp q (by omega) hq]
  show (if q % 2 = 1 then Mode.ident else Mode.red) = Mode.ident
  rw [if_pos ho]

/-- A rule is sound as soon as its fully pattern is used between fully-reduced
    operand forests only, and its identity pattern only where the off-diagonal
    is transparent. -/
theorem skipOK_of_rule (f : Bool → Bool → Bool) (r : SkipRule)
    (hSa : Sa.WF) (hSb : Sb.WF) (hSc : Sc.WF) (hac : SameVars Sa Sc) (hbc : SameVars Sb Sc)
    (hpa : Sa.Has pa) (hpb : Sb.Has pb) (hpc : Sc.Has pc)
    (hR : r.fullyPattern = true → pa = .fully ∧ pb = .fully)
    (hP : r.identPattern = true → ∀ q, q % 2 = 1 → q ≤ Sc.top →
      OffDiag Sa Sb false false false f q) :
    SkipOK Sa Sb Sc false false false f r.skR r.skP where
  red := by
    intro k hk h
    obtain ⟨rfl, rfl⟩ := hR h
    have hka : k + 1 ≤ Sa.top := by rw [hac.top]; exact hk
    have hkb : k + 1 ≤ Sb.top := by rw [hbc.top]; exact hk
    exact ⟨mode_ne_ident_fully hSa hpa _ hka, mode_ne_ident_fully hSb hpb _ hkb,
      mode_ne_ident_fully hSa hpa _ (by omega), mode_ne_ident_fully hSb hpb _ (by omega)⟩
  primed := by
    intro k hk h
    have h' : r.identPattern = true ∧ (k+1) % 2 = 1 := by
      simpa [SkipRule.skP] using h
    have hka : k ≤ Sa.top := by rw [hac.top]; omega
    have hkb : k ≤ Sb.top := by rw [hbc.top]; omega
    exact ⟨hP h'.1 (k+1) h'.2 hk, mode_ne_ident_even hSa hpa k hka (by omega),
      mode_ne_ident_even hSb hpb k hkb (by omega), mode_ne_ident_even hSc hpc k (by omega) (by omega)⟩

theorem policy_mode_ne_ident_of_ne {p : Policy} (hp : p ≠ .ident) (q : Nat) :
    p.mode q ≠ .ident := by
  cases p with
  | fully => intro h; cases h
  | quasi => intro h; cases h
  | ident => exact absurd rfl hp

theorem unionRule_ok (hSa : Sa.WF) (hSb : Sb.WF) (hSc : Sc.WF) (hac : SameVars Sa Sc)
    (hbc : SameVars Sb Sc) (hpa : Sa.Has pa) (hpb : Sb.Has pb) (hpc : Sc.Has pc) :
    SkipOK Sa Sb Sc false false false (fun p q => p || q)
      (unionRule pa pb).skR (unionRule pa pb).skP := by
  apply skipOK_of_rule _ _ hSa hSb hSc hac hbc hpa hpb hpc
  · intro h; simpa [unionRule] using h
  · intro h q hq hle
    have h' : pa = .ident ∧ pb = .ident := by simpa [unionRule] using h
    obtain ⟨rfl, rfl⟩ := h'
    exact Or.inl ⟨mode_ident_odd hpa q (by rw [hac.top]; exact hle) hq,
      mode_ident_odd hpb q (by rw [hbc.top]; exact hle) hq, rfl⟩

theorem interRule_ok (hSa : Sa.WF) (hSb : Sb.WF) (hSc : Sc.WF) (hac : SameVars Sa Sc)
    (hbc : SameVars Sb Sc) (hpa : Sa.Has pa) (hpb : Sb.Has pb) (hpc : Sc.Has pc) :
    SkipOK Sa Sb Sc false false false (fun p q => p && q)
      (interRule pa pb).skR (interRule pa pb).skP := by
  apply skipOK_of_rule _ _ hSa hSb hSc hac hbc hpa hpb hpc
  · intro h; simpa [interRule] using h
  · intro h q hq hle
    have hqa : q ≤ Sa.top := by rw [hac.top]; exact hle
    have hqb : q ≤ Sb.top := by rw [hbc.top]; exact hle
    have hq1 : 1 ≤ q := by omega
    have h' : (pa = .ident ∧ pb ≠ .quasi) ∨ (pb = .ident ∧ pa ≠ .quasi) := by
      simpa [interRule] using h
    rcases h' with ⟨rfl, hb⟩ | ⟨rfl, ha⟩
    · by_cases hbi : pb = .ident
      · subst hbi
        exact Or.inl ⟨mode_ident_odd hpa q hqa hq, mode_ident_odd hpb q hqb hq, rfl⟩
      · refine Or.inr (Or.inl ⟨mode_ident_odd hpa q hqa hq, ?_, fun y => rfl⟩)
        rw [hpb q hq1 hqb]; exact policy_mode_ne_ident_of_ne hbi q
    · by_cases hai : pa = .ident
      · subst hai
        exact Or.inl ⟨mode_ident_odd hpa q hqa hq, mode_ident_odd hpb q hqb hq, rfl⟩
      · refine Or.inr (Or.inr ⟨?_, mode_ident_odd hpb q hqb hq, fun x => Bool.and_false x⟩)
        rw [hpa q hq1 hqa]; exact policy_mode_ne_ident_of_ne hai q

theorem diffRule_ok (hSa : Sa.WF) (hSb : Sb.WF) (hSc : Sc.WF) (hac : SameVars Sa Sc)
    (hbc : SameVars Sb Sc) (hpa : Sa.Has pa) (hpb : Sb.Has pb) (hpc : Sc.Has pc) :
    SkipOK Sa Sb Sc false false false (fun p q => p && !q)
      (diffRule pa pb).skR (diffRule pa pb).skP := by
  apply skipOK_of_rule _ _ hSa hSb hSc hac hbc hpa hpb hpc
  · intro h; simpa [diffRule] using h
  · intro h q hq hle
    have hqa : q ≤ Sa.top := by rw [hac.top]; exact hle
    have hqb : q ≤ Sb.top := by rw [hbc.top]; exact hle
    have hq1 : 1 ≤ q := by omega
    have h' : pa = .ident ∧ pb ≠ .quasi := by simpa [diffRule] using h
    obtain ⟨rfl, hb⟩ := h'
    by_cases hbi : pb = .ident
    · subst hbi
      exact Or.inl ⟨mode_ident_odd hpa q hqa hq, mode_ident_odd hpb q hqb hq, rfl⟩
    · refine Or.inr (Or.inl ⟨mode_ident_odd hpa q hqa hq, ?_, fun y => rfl⟩)
      rw [hpb q hq1 hqb]; exact policy_mode_ne_ident_of_ne hbi q

/-- In a quasi-reduced forest a legal non-empty operand never skips a position:
    `topLevel(Alevel, Blevel) = L` in all combinations with a quasi-reduced
    operand forest ("no level skipping will occur"). -/
theorem quasi_no_skip {S : Shape} (hp : S.Has .quasi) (k : Nat) (hk : k + 1 ≤ S.top)
    (fi : Option Nat) (d : DD Bool) (hr : Red S false (k+1) fi d = true) (hne : d ≠ .leaf false) :
    d.isNodeAt (k+1) = true := by
  rcases storedAt_cases (k+1) d with ⟨cs, rfl⟩ | hd
  · simp [isNodeAt]
  · exact absurd (edgeOK_none_skip S false k fi (hp (k+1) (by omega) hk) hd
      (Red_succ_skip S false k fi hd hr).1) hne

end Rules

/-! ### UNION, INTERSECTION, DIFFERENCE as coded -/

section AsCoded
variable (pa pb : Policy) (same : Bool) (Sa Sb Sc : Shape)

def unionFull (a b : DD Bool) : DD Bool :=
  applyFullS Sa Sb Sc false false false (fun p q => p || q) (unionShortcut pa pb same Sa Sb Sc)
    (unionRule pa pb).skR (unionRule pa pb).skP Sc.top none a b
def interFull (a b : DD Bool) : DD Bool :=
  applyFullS Sa Sb Sc false false false (fun p q => p && q) (interShortcut pa pb same Sa Sb Sc)
    (interRule pa pb).skR (interRule pa pb).skP Sc.top none a b
def diffFull (a b : DD Bool) : DD Bool :=
  applyFullS Sa Sb Sc false false false (fun p q => p && !q) (diffShortcut pa pb same Sa Sb Sc)
    (diffRule pa pb).skR (diffRule pa pb).skP Sc.top none a b

variable {pa pb same Sa Sb Sc}

theorem unionFull_eq_apply2 {pc : Policy} (h : Setup pa pb same Sa Sb Sc) (hpc : Sc.Has pc)
    (a b : DD Bool)
    (ha : Red Sa false Sa.top none a = true) (hb : Red Sb false Sb.top none b = true) :
    unionFull pa pb same Sa Sb Sc a b = union Sa Sb Sc a b :=
  applyFullS_eq_apply2 Sa Sb Sc false false false _ _ _ _ h.wfc h.ac h.bc
    (unionShortcut_sound same h.wfc h.ac h.bc h.hpa h.hpb h.hsame)
    (unionRule_ok h.wfa h.wfb h.wfc h.ac h.bc h.hpa h.hpb hpc) Sc.top none a b
    (Ctx.top h.wfa h.wfb h.wfc h.ac h.bc) (by rw [← h.ac.top]; exact ha)
    (by rw [← h.bc.top]; exact hb)

theorem interFull_eq_apply2 {pc : Policy} (h : Setup pa pb same Sa Sb Sc) (hpc : Sc.Has pc)
    (a b : DD Bool)
    (ha : Red Sa false Sa.top none a = true) (hb : Red Sb false Sb.top none b = true) :
    interFull pa pb same Sa Sb Sc a b = inter Sa Sb Sc a b :=
  applyFullS_eq_apply2 Sa Sb Sc false false false _ _ _ _ h.wfc h.ac h.bc
    (interShortcut_sound same h.wfc h.ac h.bc h.hpa h.hpb h.hsame)
    (interRule_ok h.wfa h.wfb h.wfc h.ac h.bc h.hpa h.hpb hpc) Sc.top none a b
    (Ctx.top h.wfa h.wfb h.wfc h.ac h.bc) (by rw [← h.ac.top]; exact ha)
    (by rw [← h.bc.top]; exact hb)

theorem diffFull_eq_apply2 {pc : Policy} (h : Setup pa pb same Sa Sb Sc) (hpc : Sc.Has pc)
    (a b : DD Bool)
    (ha : Red Sa false Sa.top none a = true) (hb : Red Sb false Sb.top none b = true) :
    diffFull pa pb same Sa Sb Sc a b = diff Sa Sb Sc a b :=
  applyFullS_eq_apply2 Sa Sb Sc false false false _ _ _ _ h.wfc h.ac h.bc
    (diffShortcut_sound same h.wfc h.ac h.bc h.hpa h.hpb h.hsame)
    (diffRule_ok h.wfa h.wfb h.wfc h.ac h.bc h.hpa h.hpb hpc) Sc.top none a b
    (Ctx.top h.wfa h.wfb h.wfc h.ac h.bc) (by rw [← h.ac.top]; exact ha)
    (by rw [← h.bc.top]; exact hb)

end AsCoded

/-! ### Completeness of the terminal cases

  After the terminal cases the code computes `Clevel = topLevelOf(L, Alevel, Blevel)`
  and unpacks nodes *at `Clevel`*, which must be a level `≥ 1`.  When both operands
  are terminals (`Alevel = Blevel = 0`) a skipping rule would return `Clevel = 0`.
  Hence: on two terminals either a terminal case fires, or the operation goes by
  levels and `L ≥ 1`.  (In the model nothing can go wrong — `applyFull` just
  arrives at position 0 — so this is a property of the tables, stated separately.
  It is exactly what failed before the repair of `intersection.cc`: see
  `ShortcutExamples.interShortcutOld`.)                                         -/

section TerminalComplete
variable (pa pb : Policy) (same : Bool) (Sa Sb Sc : Shape) (k : Nat) (fi : Option Nat)

theorem unionShortcut_terminal_complete (a b : DD Bool)
    (hta : isTerm a = true) (htb : isTerm b = true) :
    (unionShortcut pa pb same Sa Sb Sc k fi a b).isSome = true := by
  unfold unionShortcut
  split
  · rfl
  · split
    · rfl
    · split
      · rfl
      · rw [if_pos ⟨hta, htb⟩]
        split <;> rfl

theorem interShortcut_terminal_complete (a b : DD Bool)
    (hta : isTerm a = true) (htb : isTerm b = true) :
    (interShortcut pa pb same Sa Sb Sc k fi a b).isSome = true := by
  unfold interShortcut
  split
  · rfl
  · rename_i h1
    have ea := isTerm_bool hta (fun h => h1 (Or.inl h))
    have eb := isTerm_bool htb (fun h => h1 (Or.inr h))
    subst ea; subst eb
    split
    · rfl
    · split
      · rfl
      · rw [if_pos ⟨rfl, Or.inr rfl⟩]; rfl

theorem diffShortcut_terminal_complete (a b : DD Bool)
    (hta : isTerm a = true) (htb : isTerm b = true)
    (hn : diffShortcut pa pb same Sa Sb Sc k fi a b = none) :
    1 ≤ k ∧ diffRule pa pb = ⟨false, false⟩ := by
  unfold diffShortcut at hn
  split at hn
  · cases hn
  · rename_i h1
    have ea := isTerm_bool hta h1
    subst ea
    split at hn
    · cases hn
    · rename_i h2
      split at hn
      · cases hn
      · rename_i h3
        split at hn
        · cases hn
        · rename_i h4
          have eb := isTerm_bool htb h4
          subst eb
          have hpb : ¬ (pb = .fully ∨ k = 0) := fun h => h2 ⟨rfl, h⟩
          have hpa : pa ≠ .ident := fun h => h3 ⟨rfl, rfl, h⟩
          refine ⟨by omega, ?_⟩
          have e1 : decide (pa = .fully ∧ pb = .fully) = false :=
            decide_eq_false (fun h => hpb (Or.inl h.2))
          have e2 : decide (pa = .ident ∧ pb ≠ .quasi) = false :=
            decide_eq_false (fun h => hpa h.1)
          unfold diffRule
          rw [e1, e2]

end TerminalComplete

/-! ## 5. COMPLEMENT (unary): terminal cases and skipping of `compl_mt` -/

section Unary
variable (Sa Sc : Shape) (za : α) (zc : γ) (g : α → γ)

/-- `apply1` with a shortcut table -/
def apply1S (sc : Nat → Option Nat → DD α → Option (DD γ)) : Nat → Option Nat → DD α → DD γ
  | 0, fi, a =>
    match sc 0 fi a with
    | some r => r
    | none => .leaf (g (leafVal za a))
  | k+1, fi, a =>
    match sc (k+1) fi a with
    | some r => r
    | none =>
      mkNode Sc zc (k+1) fi
        ((List.range (Sc.size (k+1))).map fun i =>
          apply1S sc k (some i) (cofactor Sa za (k+1) fi a i))

def AnswerSound1 (k : Nat) (fi : Option Nat) (a : DD α) (r : DD γ) : Prop :=
  (∀ x, Assign.Valid Sc x → Resp k fi x → eval Sc zc k r x = g (eval Sa za k a x)) ∧
  Red Sc zc k fi r = true

def ShortcutSound1 (sc : Nat → Option Nat → DD α → Option (DD γ)) : Prop :=
  ∀ k fi a r, Ctx Sa Sa Sc k fi → Red Sa za k fi a = true → sc k fi a = some r →
    AnswerSound1 Sa Sc za zc g k fi a r

theorem apply1_answerSound (hSc : Sc.WF) (k : Nat) (fi : Option Nat) (a : DD α)
    (hc : Ctx Sa Sa Sc k fi) : AnswerSound1 Sa Sc za zc g k fi a (apply1 Sa Sc za zc g k fi a) :=
  ⟨fun x hx hr => apply1_eval Sa Sc za zc g k fi a x hc.le hx (fi_of_mode hc.na hr)
      (fi_of_mode hc.nc hr),
   apply1_red Sa Sc za zc g hSc k fi a hc.nc⟩

variable {Sa Sc za zc g}

theorem AnswerSound1.eq_apply1 (hSc : Sc.WF) {k : Nat} {fi : Option Nat} {a : DD α} {r : DD γ}
    (hc : Ctx Sa Sa Sc k fi) (h : AnswerSound1 Sa Sc za zc g k fi a r) :
    r = apply1 Sa Sc za zc g k fi a := by
  have h2 := apply1_answerSound Sa Sc za zc g hSc k fi a hc
  apply canon_gen Sc zc hSc k hc.le fi _ _ hc.idx h.2 h2.2
  intro x hx hr
  rw [h.1 x hx hr, h2.1 x hx hr]

variable (Sa Sc za zc g)

theorem apply1S_sound (sc : Nat → Option Nat → DD α → Option (DD γ))
    (hSc : Sc.WF) (hac : SameVars Sa Sc) (hsc : ShortcutSound1 Sa Sc za zc g sc) :
    ∀ (k : Nat) (fi : Option Nat) (a : DD α), Ctx Sa Sa Sc k fi → Red Sa za k fi a = true →
      AnswerSound1 Sa Sc za zc g k fi a (apply1S Sa Sc za zc g sc k fi a) := by
  intro k
  induction k with
  | zero =>
    intro fi a hc ha
    rw [apply1S]
    cases hs : sc 0 fi a with
    | some r => exact hsc 0 fi a r hc ha hs
    | none =>
      refine ⟨?_, rfl⟩
      intro x _ _
      show eval Sc zc 0 (.leaf (g (leafVal za a))) x = _
      rw [eval_zero_leaf, eval_zero_eq_leafVal]
  | succ k ih =>
    intro fi a hc ha
    rw [apply1S]
    cases hs : sc (k+1) fi a with
    | some r => exact hsc (k+1) fi a r hc ha hs
    | none =>
      show AnswerSound1 Sa Sc za zc g (k+1) fi a (mkNode Sc zc (k+1) fi _)
      have hch : ∀ i, i < Sc.size (k+1) →
          AnswerSound1 Sa Sc za zc g k (some i) (cofactor Sa za (k+1) fi a i)
            (apply1S Sa Sc za zc g sc k (some i) (cofactor Sa za (k+1) fi a i)) := by
        intro i hi
        exact ih (some i) _ (hc.child hi)
          (cofactor_red Sa za k fi a i (by rw [hac.size]; exact hi) ha)
      constructor
      · intro x hx hr
        have hxk : x (k+1) < Sc.size (k+1) := hx (k+1) (by omega) hc.le
        rw [mkNode_eval Sc zc k fi _ x hc.le (length_map_range _ _) hx
            (fun c h => by
              obtain ⟨i, hi, rfl⟩ := List.mem_map.mp h
              exact (Red_WFTree Sc zc k (some i) _ (hch i (List.mem_range.mp hi)).2).1)
            (fi_of_mode hc.nc hr),
          getD_map_range _ _ _ hxk,
          (hch _ hxk).1 x hx (fun i h => by cases h; rfl),
          ← cofactor_eval Sa za k fi a x (fi_of_mode hc.na hr)]
      · apply mkNode_red Sc zc hSc k fi _ (length_map_range _ _) _ hc.nc
        intro i hi
        rw [length_map_range] at hi
        rw [getD_map_range _ _ _ hi]
        exact (hch i hi).2

theorem apply1S_eq_apply1_at (sc : Nat → Option Nat → DD α → Option (DD γ))
    (hSc : Sc.WF) (hac : SameVars Sa Sc) (hsc : ShortcutSound1 Sa Sc za zc g sc)
    (k : Nat) (fi : Option Nat) (a : DD α) (hc : Ctx Sa Sa Sc k fi)
    (ha : Red Sa za k fi a = true) :
    apply1S Sa Sc za zc g sc k fi a = apply1 Sa Sc za zc g k fi a :=
  (apply1S_sound Sa Sc za zc g sc hSc hac hsc k fi a hc ha).eq_apply1 hSc hc

theorem apply1S_eq_apply1 (sc : Nat → Option Nat → DD α → Option (DD γ))
    (hSa : Sa.WF) (hSc : Sc.WF) (hac : SameVars Sa Sc) (hsc : ShortcutSound1 Sa Sc za zc g sc)
    (a : DD α) (ha : Red Sa za Sa.top none a = true) :
    apply1S Sa Sc za zc g sc Sc.top none a = apply1 Sa Sc za zc g Sc.top none a :=
  apply1S_eq_apply1_at Sa Sc za zc g sc hSc hac hsc Sc.top none a
    (Ctx.top hSa hSa hSc hac hac) (by rw [← hac.top]; exact ha)

/-! ### unary skipping -/

theorem apply1_some_eq_redirect (k i : Nat) (a : DD α) (ha : Sa.mode k ≠ .ident) :
    apply1 Sa Sc za zc g k (some i) a = redirect Sc zc k i (apply1 Sa Sc za zc g k none a) := by
  cases k with
  | zero => rw [apply1_zero, apply1_zero, redirect_leaf]
  | succ k =>
    rw [apply1_succ, apply1_succ, mkNode_some_eq_redirect]
    congr 2
    apply List.map_congr_left
    intro j _
    rw [cofactor_fi_irrel Sa za (k+1) (some i) none a j ha]

theorem apply1_fi_irrel (k : Nat) (fi fj : Option Nat) (a : DD α)
    (ha : Sa.mode k ≠ .ident) (hc : Sc.mode k ≠ .ident) :
    apply1 Sa Sc za zc g k fi a = apply1 Sa Sc za zc g k fj a := by
  cases k with
  | zero => rw [apply1_zero, apply1_zero]
  | succ k =>
    rw [apply1_succ, apply1_succ, mkNode_fi_irrel Sc zc (k+1) fi fj _ hc]
    congr 1
    apply List.map_congr_left
    intro i _
    rw [cofactor_fi_irrel Sa za (k+1) fi fj a i ha]

/-- `compl_mt`, argument forest not identity reduced: `makeRedundantsTo(cp, Alevel, L)` -/
theorem apply1_skip_red (k : Nat) (fi : Option Nat) (a : DD α)
    (hsa : a.isNodeAt (k+1) = false) (ha1 : Sa.mode (k+1) ≠ .ident) (ha0 : Sa.mode k ≠ .ident) :
    apply1 Sa Sc za zc g (k+1) fi a = redStep Sc zc (k+1) fi (apply1 Sa Sc za zc g k none a) := by
  rw [apply1_succ]
  unfold redStep
  congr 1
  apply List.map_congr_left
  intro i _
  rw [cofactor_skip_nonident Sa za (k+1) fi i hsa ha1]
  exact apply1_some_eq_redirect Sa Sc za zc g k i a ha0

/-- `compl_mt::_identity_complement`: the argument skips a primed position of an
    identity-reduced forest; the diagonal child is the sub-result, the off-diagonal
    children are the image of the transparent terminal (for complement: the chain
    to TRUE):   [ p 1 1 ] [ 1 p 1 ] [ 1 1 p ] -/
theorem apply1_skip_primed (k i0 : Nat) (a : DD α)
    (hsa : a.isNodeAt (k+1) = false) (ha1 : Sa.mode (k+1) = .ident)
    (ha0 : Sa.mode k ≠ .ident) (hc0 : Sc.mode k ≠ .ident) :
    apply1 Sa Sc za zc g (k+1) (some i0) a =
      mkNode Sc zc (k+1) (some i0)
        ((List.range (Sc.size (k+1))).map fun j =>
          if j = i0 then apply1 Sa Sc za zc g k none a
          else apply1 Sa Sc za zc g k none (.leaf za)) := by
  rw [apply1_succ]
  congr 1
  apply List.map_congr_left
  intro j _
  by_cases hj : j = i0
  · subst hj
    rw [if_pos rfl, cofactor_skip_diag Sa za (k+1) j hsa]
    exact apply1_fi_irrel Sa Sc za zc g k _ _ a ha0 hc0
  · rw [if_neg hj, cofactor_skip_offdiag Sa za (k+1) i0 j hsa ha1 hj]
    exact apply1_fi_irrel Sa Sc za zc g k _ _ _ ha0 hc0

end Unary

/-! ### the terminal cases of `compl_mt::_compute` -/

/-- `identity_complement(FALSE, 0, L, in)`: the complement of the identity relation -/
def identityComplement (Sc : Shape) (k : Nat) (fi : Option Nat) : DD Bool :=
  apply1 (Sc.withPolicy .ident) Sc false false (fun p => !p) k fi (.leaf true)

def complShortcut (pa : Policy) (Sc : Shape) (k : Nat) (fi : Option Nat) (a : DD Bool) :
    Option (DD Bool) :=
  -- if (argF->isTerminalNode(A)) {
  if isTerm a = true then
    --   if (!ta) { cp = resF->makeRedundantsTo(TRUE, 0, L); return; }
    (if a = .leaf false then some (chainTrue .fully Sc k fi)
    --   if (argF->isIdentityReduced()) cp = identity_complement(FALSE, 0, L, in);
     else if pa = .ident then some (identityComplement Sc k fi)
    --   else cp = resF->makeRedundantsTo(FALSE, 0, L);      (= FALSE)
     else some (.leaf false))
  else none

section ComplCases
variable {pa : Policy} {Sa Sc : Shape} {k : Nat} {fi : Option Nat}

local notation "notF" => (fun p : Bool => !p)

/-- `¬0` = the constant TRUE, whatever the reduction rule of the argument forest -/
theorem compl_case_false_sound (hSc : Sc.WF) (hc : Ctx Sa Sa Sc k fi) :
    AnswerSound1 Sa Sc false false notF k fi (.leaf false) (chainTrue .fully Sc k fi) := by
  refine ⟨?_, copyTo_red _ Sc hSc k fi _ hc.nc⟩
  intro x hx hr
  rw [chainTrue_fully_eval Sc k fi x hc.le hx (fi_of_mode hc.nc hr), eval_leaf_zero]
  rfl

/-- `¬I`, argument forest identity reduced -/
theorem compl_case_true_identity_sound (hSc : Sc.WF) (hac : SameVars Sa Sc)
    (hc : Ctx Sa Sa Sc k fi) (hpa : Sa.Has .ident) :
    AnswerSound1 Sa Sc false false notF k fi (.leaf true) (identityComplement Sc k fi) := by
  have hka : k ≤ Sa.top := by rw [hac.top]; exact hc.le
  refine ⟨?_, apply1_red _ Sc false false _ hSc k fi _ hc.nc⟩
  intro x hx hr
  unfold identityComplement
  rw [apply1_eval _ Sc false false _ k fi _ x hc.le hx ?_ (fi_of_mode hc.nc hr),
    eval_same_policy (withPolicy_Has Sc .ident) hpa false k hc.le hka]
  intro h
  apply fi_of_mode hc.na hr
  cases k with
  | zero => exact absurd h (Policy.mode_zero_ne_ident .ident)
  | succ k => rw [hpa (k+1) (by omega) hka]; exact h

/-- `¬TRUE = 0`, argument forest fully (or quasi: then `L == 0`) reduced -/
theorem compl_case_true_sound (hac : SameVars Sa Sc) (hc : Ctx Sa Sa Sc k fi)
    (hpa : Sa.Has pa) (hni : pa ≠ .ident) (ha : Red Sa false k fi (.leaf true) = true) :
    AnswerSound1 Sa Sc false false notF k fi (.leaf true) (.leaf false) := by
  have hka : k ≤ Sa.top := by rw [hac.top]; exact hc.le
  refine ⟨?_, Red_leaf_zero Sc false k fi⟩
  intro x _ _
  rw [eval_leaf_zero]
  cases pa with
  | fully => rw [eval_leaf_fully hpa false true k hka x]; rfl
  | quasi =>
    rcases Red_leaf_quasi hpa false true k hka fi ha with h | h
    · cases h
    · subst h; rfl
  | ident => exact absurd rfl hni

theorem complShortcut_sound (hSc : Sc.WF) (hac : SameVars Sa Sc) (hpa : Sa.Has pa) :
    ShortcutSound1 Sa Sc false false notF (complShortcut pa Sc) := by
  intro k fi a r hc ha hs
  unfold complShortcut at hs
  split at hs
  · rename_i ht
    split at hs
    · rename_i h; subst h; cases hs
      exact compl_case_false_sound hSc hc
    · rename_i h
      have ea := isTerm_bool ht h
      subst ea
      split at hs
      · rename_i hp; subst hp; cases hs
        exact compl_case_true_identity_sound hSc hac hc hpa
      · rename_i hp; cases hs
        exact compl_case_true_sound hac hc hpa hp ha
  · cases hs

end ComplCases

/-! ### The chains, structurally: what the loops of `_makeRedundantsTo` and
    `_makeIdentitiesTo` build, one step at a time -/

theorem apply1_leaf_zero (Sa Sc : Shape) (za : α) (zc : γ) (g : α → γ) (hg : g za = zc) :
    ∀ (k : Nat) (fi : Option Nat), apply1 Sa Sc za zc g k fi (.leaf za) = .leaf zc := by
  intro k
  induction k with
  | zero => intro fi; rw [apply1_zero]; show DD.leaf (g za) = _; rw [hg]
  | succ k ih =>
    intro fi
    rw [apply1_succ]
    apply mkNode_all_zero
    intro c hc
    obtain ⟨i, _, rfl⟩ := List.mem_map.mp hc
    rw [cofactor_leaf_zero]
    exact ih (some i)

/-- `makeRedundantsTo(TRUE, 0, k+1)` = one redundant step above `makeRedundantsTo(TRUE, 0, k)` -/
theorem chainTrue_fully_succ (Sc : Shape) (k : Nat) (fi : Option Nat) :
    chainTrue .fully Sc (k+1) fi = redStep Sc false (k+1) fi (chainTrue .fully Sc k none) :=
  apply1_skip_red (Sc.withPolicy .fully) Sc false false id k fi (.leaf true) rfl
    (by intro h; cases h) (by intro h; cases h)

/-- `makeIdentitiesTo(TRUE, 0, ·, in)`, primed half: the `in`-singleton above the chain below -/
theorem chainTrue_ident_primed (Sc : Shape) (k i0 : Nat) (hk : (k+1) % 2 = 1)
    (hc0 : Sc.mode k ≠ .ident) :
    chainTrue .ident Sc (k+1) (some i0) = identHalf Sc false (k+1) i0 (chainTrue .ident Sc k none) := by
  have hm1 : (Sc.withPolicy .ident).mode (k+1) = .ident := by
    show (if (k+1) % 2 = 1 then Mode.ident else Mode.red) = Mode.ident
    rw [if_pos hk]
  have hm0 : (Sc.withPolicy .ident).mode k ≠ .ident := by
    show (if k % 2 = 1 then Mode.ident else Mode.red) ≠ Mode.ident
    rw [if_neg (by omega)]; intro h; cases h
  unfold chainTrue copyTo identHalf
  rw [apply1_skip_primed (Sc.withPolicy .ident) Sc false false id k i0 (.leaf true) rfl hm1 hm0 hc0]
  congr 1
  apply List.map_congr_left
  intro j _
  by_cases hj : j = i0
  · rw [if_pos hj, if_pos hj]
  · rw [if_neg hj, if_neg hj]
    exact apply1_leaf_zero _ Sc false false id rfl k none

/-- `makeIdentitiesTo(TRUE, 0, ·, ·)`, one unprimed/primed pair -/
theorem chainTrue_ident_pair (Sc : Shape) (k : Nat) (fi : Option Nat) (hk : (k+2) % 2 = 0)
    (hc0 : Sc.mode k ≠ .ident) :
    chainTrue .ident Sc (k+2) fi =
      mkNode Sc false (k+2) fi ((List.range (Sc.size (k+2))).map fun i =>
        identHalf Sc false (k+1) i (chainTrue .ident Sc k none)) := by
  have hm2 : (Sc.withPolicy .ident).mode (k+2) ≠ .ident := by
    show (if (k+2) % 2 = 1 then Mode.ident else Mode.red) ≠ Mode.ident
    rw [if_neg (by omega)]; intro h; cases h
  have hstep : chainTrue .ident Sc (k+2) fi =
      mkNode Sc false (k+2) fi ((List.range (Sc.size (k+2))).map fun i =>
        chainTrue .ident Sc (k+1) (some i)) := by
    unfold chainTrue copyTo
    rw [apply1_succ]
    congr 1
    apply List.map_congr_left
    intro i _
    rw [cofactor_skip_nonident _ false (k+2) fi i rfl hm2]
  rw [hstep]
  congr 1
  apply List.map_congr_left
  intro i _
  exact chainTrue_ident_primed Sc k i (by omega) hc0

/-- COMPLEMENT with the terminal cases of `compl_mt` -/
def complS (pa : Policy) (Sa Sc : Shape) (a : DD Bool) : DD Bool :=
  apply1S Sa Sc false false (fun p => !p) (complShortcut pa Sc) Sc.top none a

theorem complS_eq_apply1 {pa : Policy} {Sa Sc : Shape} (hSa : Sa.WF) (hSc : Sc.WF)
    (hac : SameVars Sa Sc) (hpa : Sa.Has pa) (a : DD Bool)
    (ha : Red Sa false Sa.top none a = true) : complS pa Sa Sc a = compl Sa Sc a :=
  apply1S_eq_apply1 Sa Sc false false _ _ hSa hSc hac (complShortcut_sound hSc hac hpa) a ha

theorem complS_eval {pa : Policy} {Sa Sc : Shape} (hSa : Sa.WF) (hSc : Sc.WF)
    (hac : SameVars Sa Sc) (hpa : Sa.Has pa) (a : DD Bool)
    (ha : Red Sa false Sa.top none a = true) (x : Assign) (hx : Assign.Valid Sc x) :
    eval Sc false Sc.top (complS pa Sa Sc a) x = !eval Sa false Sa.top a x := by
  rw [complS_eq_apply1 hSa hSc hac hpa a ha]; exact compl_eval hSa hSc hac a x hx

theorem complS_red {pa : Policy} {Sa Sc : Shape} (hSa : Sa.WF) (hSc : Sc.WF)
    (hac : SameVars Sa Sc) (hpa : Sa.Has pa) (a : DD Bool)
    (ha : Red Sa false Sa.top none a = true) :
    Red Sc false Sc.top none (complS pa Sa Sc a) = true := by
  rw [complS_eq_apply1 hSa hSc hac hpa a ha]; exact compl_red hSc a

end DD

/-! ## 6. Non-vacuity: every case fires on concrete trees, with `apply2`'s answer -/

namespace ShortcutExamples
open DD CanonExamples ApplyExamples

/-- quasi reduced, same variables as `SB` / `SF` (top 4, sizes 2) -/
def SQ : Shape where
  top := 4
  size := fun _ => 2
  mode := fun _ => .none

theorem SQ_WF : SQ.WF where
  size_ge := by intro p _ _; exact Nat.le_refl 2
  ident_below_red := by intro p h; cases h

theorem SB_Has : SB.Has .ident := by
  intro q h1 h2
  have h4 : q ≤ 4 := h2
  have : q = 1 ∨ q = 2 ∨ q = 3 ∨ q = 4 := by omega
  rcases this with rfl | rfl | rfl | rfl <;> rfl
theorem SF_Has : SF.Has .fully := fun _ _ _ => rfl
theorem SQ_Has : SQ.Has .quasi := fun _ _ _ => rfl

theorem SF_SB : SameVars SF SB := ⟨rfl, fun _ => rfl⟩
theorem SB_SB : SameVars SB SB := ⟨rfl, fun _ => rfl⟩
theorem SF_SF : SameVars SF SF := ⟨rfl, fun _ => rfl⟩

abbrev T : DD Bool := .leaf true
abbrev F : DD Bool := .leaf false
abbrev orF : Bool → Bool → Bool := fun p q => p || q
abbrev andF : Bool → Bool → Bool := fun p q => p && q
abbrev diffF : Bool → Bool → Bool := fun p q => p && !q
abbrev U (Sa Sb Sc : Shape) := apply2 Sa Sb Sc false false false orF
abbrev I' (Sa Sb Sc : Shape) := apply2 Sa Sb Sc false false false andF
abbrev D (Sa Sb Sc : Shape) := apply2 Sa Sb Sc false false false diffF

/-- `x₂ = 0` in the fully-reduced forest -/
def cF : DD Bool := .node 4 [T, F]
/-- skips the pair 4/3 -/
def a2 : DD Bool := .node 2 [T, F]
def b2 : DD Bool := .node 2 [F, T]
/-- the identity relation, spelled out in the fully-reduced forest -/
def idF : DD Bool := .node 4 [.node 3 [i1, F], .node 3 [F, i1]]
/-- a legal tree of the quasi-reduced forest -/
def qT : DD Bool :=
  .node 4 [.node 3 [.node 2 [.node 1 [T, T], .node 1 [T, F]], F], F]

example : Red SF false 4 none cF = true := by decide
example : Red SB false 4 none a2 = true := by decide
example : Red SB false 4 none b2 = true := by decide
example : Red SF false 4 none a2 = true := by decide
example : Red SQ false 4 none qT = true := by decide
/-- in a quasi-reduced forest TRUE is legal at position 0 only -/
example : Red SQ false 4 none T = false := by decide
example : Red SQ false 0 (some 1) T = true := by decide

/-! ### UNION -/

-- both ∅
example : unionShortcut .ident .ident true SB SB SB 4 none F F = some (U SB SB SB 4 none F F) := by
  decide
-- A = ∅: copy of B, identity-reduced → fully-reduced
example : unionShortcut .fully .ident false SF SB SF 4 none F bB = some (U SF SB SF 4 none F bB) := by
  decide
example : unionShortcut .fully .ident false SF SB SF 4 none F bB
    = some (.node 4 [.node 3 [F, i1], F]) := by decide
-- B = ∅: copy of A
example : unionShortcut .ident .fully false SB SF SB 4 none bB F = some (U SB SF SB 4 none bB F) := by
  decide
-- A = B, same forest
example : unionShortcut .ident .ident true SB SB SF 4 none bB bB = some (U SB SB SF 4 none bB bB) := by
  decide
-- TRUE ∪ TRUE, both identity reduced: I, chained as identities in a fully-reduced result
example : unionShortcut .ident .ident false SB SB SF 4 none T T = some (U SB SB SF 4 none T T) := by
  decide
example : unionShortcut .ident .ident false SB SB SF 4 none T T = some idF := by decide
-- … the same at a primed position entered through index 1
example : unionShortcut .ident .ident false SB SB SF 3 (some 1) T T
    = some (U SB SB SF 3 (some 1) T T) := by decide
example : unionShortcut .ident .ident false SB SB SF 3 (some 1) T T = some (.node 3 [F, i1]) := by
  decide
-- … and in an identity-reduced result it is the terminal
example : unionShortcut .ident .ident false SB SB SB 4 none T T = some T := by decide
-- TRUE ∪ TRUE, identity × fully: the constant TRUE, chained as redundant nodes (which an
-- identity-reduced result forest stores at the primed positions)
example : unionShortcut .ident .fully false SB SF SB 4 none T T = some (U SB SF SB 4 none T T) := by
  decide
example : unionShortcut .ident .fully false SB SF SB 4 none T T
    = some (.node 3 [.node 1 [T, T], .node 1 [T, T]]) := by decide
-- TRUE ∪ TRUE in quasi-reduced forests: position 0
example : unionShortcut .quasi .quasi true SQ SQ SQ 0 (some 1) T T
    = some (U SQ SQ SQ 0 (some 1) T T) := by decide
-- fully-reduced TRUE ∪ B (mixed fully × identity pair)
example : unionShortcut .fully .ident false SF SB SB 4 none T bB = some (U SF SB SB 4 none T bB) := by
  decide
example : unionShortcut .ident .fully false SB SF SF 4 none bB T = some (U SB SF SF 4 none bB T) := by
  decide
example : unionShortcut .ident .fully false SB SF SF 4 none bB T = some T := by decide
-- no case: recurse
example : unionShortcut .ident .fully false SB SF SF 4 none T cF = none := by decide

/-! ### INTERSECTION -/

example : interShortcut .ident .fully false SB SF SF 4 none F cF = some (I' SB SF SF 4 none F cF) := by
  decide
example : interShortcut .ident .fully false SB SF SF 4 none bB F = some (I' SB SF SF 4 none bB F) := by
  decide
-- fully-reduced TRUE ∩ B = B (mixed fully × identity pair)
example : interShortcut .fully .ident false SF SB SB 4 none T bB = some (I' SF SB SB 4 none T bB) := by
  decide
example : interShortcut .fully .ident false SF SB SB 4 none T bB = some bB := by decide
-- TRUE at position 0
example : interShortcut .quasi .ident false SQ SB SB 0 (some 1) T T
    = some (I' SQ SB SB 0 (some 1) T T) := by decide
-- A ∩ fully-reduced TRUE = A
example : interShortcut .ident .fully false SB SF SF 4 none bB T = some (I' SB SF SF 4 none bB T) := by
  decide
-- A ∩ A, same forest
example : interShortcut .ident .ident true SB SB SB 4 none bB bB = some (I' SB SB SB 4 none bB bB) := by
  decide
-- TRUE ∩ TRUE across two identity-reduced forests (the repaired case)
example : interShortcut .ident .ident false SB SB SF 4 none T T = some (I' SB SB SF 4 none T T) := by
  decide
example : interShortcut .ident .ident false SB SB SF 4 none T T = some idF := by decide
example : interShortcut .ident .ident false SB SB SF 3 (some 0) T T
    = some (I' SB SB SF 3 (some 0) T T) := by decide
-- I ∩ B with B in a fully-reduced forest: no shortcut (I is not "everything")
example : interShortcut .ident .fully false SB SF SF 4 none T cF = none := by decide

/-- The terminal cases of `inter_mt` *before* the repair: last test
    `(A == B) && (arg1F == arg2F)`. -/
def interShortcutOld (pa pb : Policy) (same : Bool) (Sa Sb Sc : Shape)
    (k : Nat) (fi : Option Nat) (a b : DD Bool) : Option (DD Bool) :=
  if a = .leaf false ∨ b = .leaf false then some (.leaf false)
  else if isTerm a = true ∧ (k = 0 ∨ pa = .fully) then some (copyTo Sb Sc k fi b)
  else if isTerm b = true ∧ (k = 0 ∨ pb = .fully) then some (copyTo Sa Sc k fi a)
  else if a = b ∧ same = true then some (copyTo Sa Sc k fi a)
  else none

/-- Known defect (found by testing, repaired at /repo HEAD), seen from the model:
    TRUE ∩ TRUE across two identity-reduced forests fired no terminal case although
    the operation skips by the identity pattern — `topLevelOf` returned level 0. -/
example : interShortcutOld .ident .ident false SB SB SF 4 none T T = none
    ∧ interRule .ident .ident = ⟨false, true⟩
    ∧ Red SB false 4 none T = true := by decide
example : (interShortcut .ident .ident false SB SB SF 4 none T T).isSome = true := by decide

/-! ### DIFFERENCE -/

example : diffShortcut .ident .fully false SB SF SF 4 none F cF = some (D SB SF SF 4 none F cF) := by
  decide
-- A − fully-reduced TRUE = ∅
example : diffShortcut .ident .fully false SB SF SB 4 none bB T = some (D SB SF SB 4 none bB T) := by
  decide
-- A − TRUE at position 0
example : diffShortcut .ident .ident false SB SB SB 0 (some 0) T T
    = some (D SB SB SB 0 (some 0) T T) := by decide
-- I − I across two identity-reduced forests
example : diffShortcut .ident .ident false SB SB SF 4 none T T = some (D SB SB SF 4 none T T) := by
  decide
example : diffShortcut .ident .ident false SB SB SF 3 (some 1) T T
    = some (D SB SB SF 3 (some 1) T T) := by decide
-- A − ∅ = A (mixed identity × fully pair)
example : diffShortcut .ident .fully false SB SF SF 4 none bB F = some (D SB SF SF 4 none bB F) := by
  decide
-- A − A, same forest
example : diffShortcut .ident .ident true SB SB SB 4 none bB bB = some (D SB SB SB 4 none bB bB) := by
  decide
-- TRUE − I (fully × identity): "need to compute it"
example : diffShortcut .fully .ident false SF SB SF 4 none T T = none := by decide
example : D SF SB SF 4 none T T
    = .node 4 [.node 3 [.node 2 [.node 1 [F, T], .node 1 [T, F]], T],
               .node 3 [T, .node 2 [.node 1 [F, T], .node 1 [T, F]]]] := by decide

/-! ### COMPLEMENT -/

example : complShortcut .ident SF 4 none F = some (compl SB SF F) := by decide
example : complShortcut .ident SF 4 none T = some (compl SB SF T) := by decide
example : complShortcut .ident SB 4 none T = some (compl SB SB T) := by decide
example : complShortcut .fully SB 4 none T = some (compl SF SB T) := by decide
example : complShortcut .ident SB 3 (some 1) T
    = some (apply1 SB SB false false (fun p => !p) 3 (some 1) T) := by decide

/-! ### whole operations -/

example : unionS .ident .ident false SB SB SF aB bB = union SB SB SF aB bB := by decide
example : interS .ident .fully false SB SF SB bB cF = inter SB SF SB bB cF := by decide
example : diffS .fully .ident false SF SB SF cF bB = diff SF SB SF cF bB := by decide
example : complS .ident SB SB bB = compl SB SB bB := by decide

/-- the general theorem applied to a concrete instance -/
example : unionS .ident .ident false SB SB SF aB bB = .node 4 [i1, .node 3 [.leaf false, i1]] := by
  rw [unionS_eq_apply2 ⟨SB_WF, SB_WF, SF_WF, SB_SF, SB_SF, SB_Has, SB_Has, (by intro h; cases h)⟩
    aB bB (by decide) (by decide)]
  decide

/-! ### level skipping -/

-- identity pattern: both operands skip the primed position 3, entered through index 0
example : skipKind (unionRule .ident .ident).skR (unionRule .ident .ident).skP 3 (some 0) a2 b2
    = some (some 0) := by decide
-- fully pattern: both skip position 4
example : skipKind (unionRule .fully .fully).skR (unionRule .fully .fully).skP 4 none a2 b2
    = some none := by decide
-- fully × identity: by levels
example : skipKind (unionRule .fully .ident).skR (unionRule .fully .ident).skP 3 (some 0) a2 b2
    = none := by decide

-- identity-reduced operands and result: the skipped pair leaves no trace
example : unionFull .ident .ident false SB SB SB a2 b2 = union SB SB SB a2 b2 := by decide
example : unionFull .ident .ident false SB SB SB a2 b2 = T := by decide
example : U SB SB SB 4 none a2 b2 = U SB SB SB 2 none a2 b2 := by decide
-- fully-reduced result: `makeIdentitiesTo` builds the pattern above the sub-result
example : unionFull .ident .ident false SB SB SF a2 b2 = union SB SB SF a2 b2 := by decide
example : unionFull .ident .ident false SB SB SF a2 b2
    = .node 4 [.node 3 [.node 2 [.node 1 [T, F], .node 1 [F, T]], F],
               .node 3 [F, .node 2 [.node 1 [T, F], .node 1 [F, T]]]] := by decide
-- fully pattern
example : unionFull .fully .fully true SF SF SF a2 b2 = union SF SF SF a2 b2 := by decide
-- fully pattern into an identity-reduced result (`redirectSingleton` matters)
example : unionFull .fully .fully true SF SF SB a2 b2 = union SF SF SB a2 b2 := by decide
example : interFull .ident .fully false SB SF SB a2 a2 = inter SB SF SB a2 a2 := by decide
example : interFull .fully .ident false SF SB SF a2 b2 = inter SF SB SF a2 b2 := by decide
example : diffFull .ident .fully false SB SF SF a2 b2 = diff SB SF SF a2 b2 := by decide
example : diffFull .fully .ident false SF SB SB a2 b2 = diff SF SB SB a2 b2 := by decide
example : interFull .ident .ident false SB SB SF bB aB = inter SB SB SF bB aB := by decide

/-! ### The side conditions are necessary (what a wrong one looks like) -/

/-- `I ∩ B = B` would be wrong: dropping `L==0 || arg1F->isFullyReduced()` from the
    TRUE-terminal case of intersection gives a different tree. -/
example : copyTo SF SF 4 none cF ≠ inter SB SF SF T cF := by decide
/-- `A == B` across forests does not mean the same set: TRUE − I ≠ ∅ -/
example : diff SF SB SF T T ≠ F := by decide
/-- the identity pattern is wrong for fully ∪ identity (`forced_by_levels`) … -/
example : applySkip SF SB SF false false false orF (fun _ => false) (fun p => p % 2 == 1)
    4 none a2 b2 ≠ U SF SB SF 4 none a2 b2 := by decide
/-- … and for fully − identity (`force_by_levels` of `diffr_mt`) … -/
example : applySkip SF SB SF false false false diffF (fun _ => false) (fun p => p % 2 == 1)
    4 none a2 b2 ≠ D SF SB SF 4 none a2 b2 := by decide
/-- … but right for identity − fully (`force_by_unprimed`) -/
example : applySkip SB SF SF false false false diffF (fun _ => false) (fun p => p % 2 == 1)
    4 none a2 b2 = D SB SF SF 4 none a2 b2 := by decide
/-- the fully pattern is wrong between identity-reduced operands -/
example : applySkip SB SB SB false false false orF (fun _ => true) (fun _ => false)
    4 none a2 b2 ≠ U SB SB SB 4 none a2 b2 := by decide

end ShortcutExamples

#print axioms DD.cofactor_red
#print axioms DD.applyS_eval
#print axioms DD.applyS_red
#print axioms DD.applyS_eq_apply2
#print axioms DD.unionShortcut_sound
#print axioms DD.interShortcut_sound
#print axioms DD.diffShortcut_sound
#print axioms DD.complShortcut_sound
#print axioms DD.unionS_eq_apply2
#print axioms DD.interS_eq_apply2
#print axioms DD.diffS_eq_apply2
#print axioms DD.unionS_eval
#print axioms DD.complS_eq_apply1
#print axioms DD.applySkip_eq_apply2
#print axioms DD.applyFullS_eq_apply2
#print axioms DD.unionFull_eq_apply2
#print axioms DD.interFull_eq_apply2
#print axioms DD.diffFull_eq_apply2
#print axioms DD.interShortcut_terminal_complete
#print axioms DD.diffShortcut_terminal_complete
#print axioms DD.chainTrue_ident_pair
/- Output (Lean 4.33.0):
'Meddly.DD.cofactor_red' depends on axioms: [propext, Quot.sound]
'Meddly.DD.applyS_eval' depends on axioms: [propext, Classical.choice, Quot.sound]
'Meddly.DD.applyS_red' depends on axioms: [propext, Classical.choice, Quot.sound]
'Meddly.DD.applyS_eq_apply2' depends on axioms: [propext, Classical.choice, Quot.sound]
'Meddly.DD.unionShortcut_sound' depends on axioms: [propext, Classical.choice, Quot.sound]
'Meddly.DD.interShortcut_sound' depends on axioms: [propext, Classical.choice, Quot.sound]
'Meddly.DD.diffShortcut_sound' depends on axioms: [propext, Classical.choice, Quot.sound]
'Meddly.DD.complShortcut_sound' depends on axioms: [propext, Classical.choice, Quot.sound]
'Meddly.DD.unionS_eq_apply2' depends on axioms: [propext, Classical.choice, Quot.sound]
'Meddly.DD.interS_eq_apply2' depends on axioms: [propext, Classical.choice, Quot.sound]
'Meddly.DD.diffS_eq_apply2' depends on axioms: [propext, Classical.choice, Quot.sound]
'Meddly.DD.unionS_eval' depends on axioms: [propext, Classical.choice, Quot.sound]
'Meddly.DD.complS_eq_apply1' depends on axioms: [propext, Classical.choice, Quot.sound]
'Meddly.DD.applySkip_eq_apply2' depends on axioms: [propext, Classical.choice, Quot.sound]
'Meddly.DD.applyFullS_eq_apply2' depends on axioms: [propext, Classical.choice, Quot.sound]
'Meddly.DD.unionFull_eq_apply2' depends on axioms: [propext, Classical.choice, Quot.sound]
'Meddly.DD.interFull_eq_apply2' depends on axioms: [propext, Classical.choice, Quot.sound]
'Meddly.DD.diffFull_eq_apply2' depends on axioms: [propext, Classical.choice, Quot.sound]
'Meddly.DD.interShortcut_terminal_complete' depends on axioms: [propext]
'Meddly.DD.diffShortcut_terminal_complete' depends on axioms: [propext, Quot.sound]
'Meddly.DD.chainTrue_ident_pair' depends on axioms: [propext, Quot.sound]
-/

end Meddly
