/-
  Correctness of the generic element-wise apply (`Ops/Apply.lean`):
    * `apply2`/`apply1` compute the pointwise function of the operands'
      denotations (`apply2_eval`, `apply1_eval`);
    * their result is reduced for the result forest (`apply2_red`, `apply1_red`);
    * hence, by canonicity (`DD.canon`), the result is *the* reduced tree of the
      pointwise function (`apply2_unique`, `apply1_unique`).
-/
import MeddlyModel.Ops.Apply

namespace Meddly

set_option linter.unusedSectionVars false

namespace DD
variable {α β γ : Type} [DecidableEq α] [DecidableEq β] [DecidableEq γ]

/-! ## Well-shaped trees -/

/-- the root of `d` is stored at position `≤ k` (terminals: position 0) -/
def Below (k : Nat) (d : DD α) : Prop := d.pos ≤ k

/-- every stored node at position `p` has all its children below `p-1` -/
inductive WFTree : DD α → Prop where
  | leaf (v : α) : WFTree (.leaf v)
  | node (p : Nat) (cs : List (DD α)) :
      (∀ c, c ∈ cs → Below (p-1) c) → (∀ c, c ∈ cs → WFTree c) → WFTree (.node p cs)

theorem Below_leaf (k : Nat) (v : α) : Below k (.leaf v : DD α) := Nat.zero_le k

theorem Below.mono {k k' : Nat} {d : DD α} (h : Below k d) (hk : k ≤ k') : Below k' d :=
  Nat.le_trans h hk

theorem Below.not_nodeAt {k : Nat} {d : DD α} (h : Below k d) : d.isNodeAt (k+1) = false := by
  cases d with
  | leaf v => rfl
  | node p cs =>
    have hp : p ≤ k := h
    have : p ≠ k+1 := by omega
    simp [isNodeAt, this]

theorem Below_of_not_nodeAt {k : Nat} {d : DD α} (h : Below (k+1) d)
    (hn : d.isNodeAt (k+1) = false) : Below k d := by
  cases d with
  | leaf v => exact Below_leaf k v
  | node p cs =>
    have hp : p ≤ k+1 := h
    have hne : p ≠ k+1 := by simpa [isNodeAt] using hn
    show p ≤ k
    omega

theorem WFTree.children {p : Nat} {cs : List (DD α)} (h : WFTree (.node p cs)) :
    ∀ c, c ∈ cs → Below (p-1) c ∧ WFTree c := by
  cases h with
  | node _ _ hb hc => exact fun c hm => ⟨hb c hm, hc c hm⟩

/-- `getD` on a list is a member or the default -/
theorem getD_mem_or {β : Type} (l : List β) (i : Nat) (dflt : β) :
    l.getD i dflt ∈ l ∨ l.getD i dflt = dflt := by
  by_cases hi : i < l.length
  · left
    rw [List.getD_eq_getElem?_getD, List.getElem?_eq_getElem hi]
    exact List.getElem_mem hi
  · right
    rw [List.getD_eq_getElem?_getD, List.getElem?_eq_none (by omega)]
    rfl

theorem WFTree.child {p : Nat} {cs : List (DD α)} (h : WFTree (.node p cs)) (zero : α) (i : Nat) :
    Below (p-1) (cs.getD i (.leaf zero)) ∧ WFTree (cs.getD i (.leaf zero)) := by
  rcases getD_mem_or cs i (.leaf zero) with hm | he
  · exact h.children _ hm
  · rw [he]; exact ⟨Below_leaf _ _, WFTree.leaf _⟩

/-- A tree reduced for position `k` is well shaped and below `k`. -/
theorem Red_WFTree (S : Shape) (zero : α) :
    ∀ (k : Nat) (fi : Option Nat) (d : DD α), Red S zero k fi d = true → Below k d ∧ WFTree d := by
  intro k
  induction k with
  | zero =>
    intro fi d h
    obtain ⟨v, rfl⟩ := (Red_zero_iff S zero fi d).mp h
    exact ⟨Below_leaf _ _, WFTree.leaf _⟩
  | succ k ih =>
    intro fi d h
    rcases storedAt_cases (k+1) d with ⟨cs, rfl⟩ | hd
    · obtain ⟨_, _, _, _, hch⟩ := (Red_succ_node S zero k fi cs).mp h
      have hc : ∀ c, c ∈ cs → Below k c ∧ WFTree c := by
        intro c hc
        obtain ⟨j, hj, rfl⟩ := List.getElem_of_mem hc
        have := ih (some j) _ (hch j hj)
        simpa [List.getD_eq_getElem?_getD, hj] using this
      exact ⟨Nat.le_refl _, WFTree.node _ _ (fun c hm => (hc c hm).1) (fun c hm => (hc c hm).2)⟩
    · obtain ⟨_, h2⟩ := Red_succ_skip S zero k fi hd h
      obtain ⟨hb, hw⟩ := ih none d h2
      exact ⟨hb.mono (Nat.le_succ k), hw⟩

/-! ## `cofactor` -/

theorem cofactor_node (S : Shape) (zero : α) (k : Nat) (fi : Option Nat) (cs : List (DD α))
    (i : Nat) : cofactor S zero k fi (.node k cs) i = cs.getD i (.leaf zero) := by
  simp [cofactor]

theorem cofactor_skip (S : Shape) (zero : α) (k : Nat) (fi : Option Nat) {d : DD α} (i : Nat)
    (hd : d.isNodeAt k = false) :
    cofactor S zero k fi d i =
      if S.mode k = .ident then
        (match fi with
         | some j => if i = j then d else .leaf zero
         | none => d)
      else d := by
  cases d with
  | leaf v => rfl
  | node p cs =>
    have hp : p ≠ k := by simpa [isNodeAt] using hd
    simp only [cofactor, if_neg hp]
    rfl

/-- the cofactor is a child, the tree itself, or the transparent terminal -/
theorem cofactor_skip_cases (S : Shape) (zero : α) (k : Nat) (fi : Option Nat) {d : DD α} (i : Nat)
    (hd : d.isNodeAt k = false) :
    cofactor S zero k fi d i = d ∨ cofactor S zero k fi d i = .leaf zero := by
  rw [cofactor_skip S zero k fi i hd]
  split
  · cases fi with
    | none => left; rfl
    | some j =>
      show (if i = j then d else .leaf zero) = d ∨ (if i = j then d else .leaf zero) = .leaf zero
      split
      · left; rfl
      · right; rfl
  · left; rfl

theorem cofactor_eval (S : Shape) (zero : α) (k : Nat) (fi : Option Nat) (d : DD α) (x : Assign)
    (hfi : S.mode (k+1) = .ident → fi = some (x (k+2))) :
    eval S zero (k+1) d x = eval S zero k (cofactor S zero (k+1) fi d (x (k+1))) x := by
  rcases storedAt_cases (k+1) d with ⟨cs, rfl⟩ | hd
  · rw [eval_succ_node, cofactor_node]
  · rw [eval_succ_skip S zero k x hd, cofactor_skip S zero (k+1) fi _ hd]
    by_cases hm : S.mode (k+1) = .ident
    · rw [hfi hm, if_pos hm]
      show _ = eval S zero k (if x (k+1) = x (k+2) then d else .leaf zero) x
      by_cases he : x (k+1) = x (k+2)
      · have : ¬ (S.mode (k+1) = .ident ∧ x (k+1) ≠ x (k+2)) := fun h => h.2 he
        rw [if_neg this, if_pos he]
      · rw [if_pos ⟨hm, he⟩, if_neg he, eval_leaf_zero]
    · have : ¬ (S.mode (k+1) = .ident ∧ x (k+1) ≠ x (k+2)) := fun h => hm h.1
      rw [if_neg this, if_neg hm]

theorem cofactor_WFTree (S : Shape) (zero : α) (k : Nat) (fi : Option Nat) (d : DD α) (i : Nat)
    (hw : WFTree d) : WFTree (cofactor S zero k fi d i) := by
  rcases storedAt_cases k d with ⟨cs, rfl⟩ | hd
  · rw [cofactor_node]; exact (hw.child zero i).2
  · rcases cofactor_skip_cases S zero k fi i hd with h | h <;> rw [h]
    · exact hw
    · exact WFTree.leaf _

theorem cofactor_Below (S : Shape) (zero : α) (k : Nat) (fi : Option Nat) (d : DD α) (i : Nat)
    (hw : WFTree d) (hb : Below (k+1) d) : Below k (cofactor S zero (k+1) fi d i) := by
  rcases storedAt_cases (k+1) d with ⟨cs, rfl⟩ | hd
  · rw [cofactor_node]; exact (hw.child zero i).1
  · rcases cofactor_skip_cases S zero (k+1) fi i hd with h | h <;> rw [h]
    · exact Below_of_not_nodeAt hb hd
    · exact Below_leaf _ _

/-! ## `Red` helpers -/

theorem isSingleton_of_not_nodeAt (zero : α) (p i : Nat) {d : DD α} (hd : d.isNodeAt p = false) :
    isSingleton zero p i d = false := by
  cases d with
  | leaf v => rfl
  | node q cs =>
    have hq : (q == p) = false := hd
    simp only [isSingleton, hq, Bool.false_and]

theorem isAnySingleton_of_not_nodeAt (zero : α) (p : Nat) {d : DD α} (hd : d.isNodeAt p = false) :
    isAnySingleton zero p d = false := by
  cases d with
  | leaf v => rfl
  | node q cs =>
    rw [← Bool.not_eq_true]
    simp only [isAnySingleton, List.any_eq_true, List.mem_range]
    rintro ⟨i, _, hi⟩
    rw [isSingleton_of_not_nodeAt zero p i hd] at hi
    cases hi

/-- a tree that skips a `red` or `ident` position may hang below any edge -/
theorem edgeOK_skip (S : Shape) (zero : α) (k : Nat) (fi : Option Nat) {d : DD α}
    (hd : d.isNodeAt k = false) (hm : S.mode k ≠ .none) : edgeOK S zero k fi d = true := by
  unfold edgeOK
  split
  · rfl
  · rename_i h; exact absurd h hm
  · cases fi with
    | none =>
      show (!isAnySingleton zero k d) = true
      rw [isAnySingleton_of_not_nodeAt zero k hd]; rfl
    | some i =>
      show (!isSingleton zero k i d) = true
      rw [isSingleton_of_not_nodeAt zero k i hd]; rfl

theorem Red_skip_intro (S : Shape) (zero : α) (k : Nat) (fi : Option Nat) {d : DD α}
    (hb : Below k d) (he : edgeOK S zero (k+1) fi d = true) (hr : Red S zero k none d = true) :
    Red S zero (k+1) fi d = true := by
  cases d with
  | leaf v =>
    rw [Red, Bool.and_eq_true]; exact ⟨he, hr⟩
  | node p cs =>
    have hp : p ≤ k := hb
    have h1 : p ≠ k+1 := by omega
    have h2 : p < k+1 := by omega
    rw [Red, Bool.and_eq_true]
    refine ⟨he, ?_⟩
    simp only [if_neg h1, if_pos h2]
    exact hr

/-- the arriving index only matters at `ident` positions -/
theorem Red_fi_irrel (S : Shape) (zero : α) (k : Nat) (fi fj : Option Nat) (d : DD α)
    (hm : S.mode k ≠ .ident) : Red S zero k fi d = Red S zero k fj d := by
  cases k with
  | zero => cases d <;> rfl
  | succ k =>
    cases d <;> simp only [Red, edgeOK_not_ident S zero (k+1) fi fj hm]

/-- A tree that is reduced below *every* index of position `k+1` is reduced
    below a skipped position `k+1`: it is no singleton at all.  This is what makes
    eliminating a redundant node at a `red` position above an `ident` position
    legal. -/
theorem Red_all_some_none (S : Shape) (zero : α) (hS : S.WF) (k : Nat) (d : DD α)
    (hpos : 0 < S.size (k+1))
    (h : ∀ i, i < S.size (k+1) → Red S zero k (some i) d = true) :
    Red S zero k none d = true := by
  have h0 := h 0 hpos
  by_cases hm : S.mode k = .ident
  · obtain ⟨hk1, _, _, hsz⟩ := hS.ident_below_red k hm
    obtain ⟨k', rfl⟩ : ∃ k', k = k'+1 := ⟨k-1, by omega⟩
    rcases storedAt_cases (k'+1) d with ⟨cs, rfl⟩ | hd
    · obtain ⟨_, hlen, hnz, hred, hch⟩ := (Red_succ_node S zero k' (some 0) cs).mp h0
      refine (Red_succ_node S zero k' none cs).mpr ⟨?_, hlen, hnz, hred, hch⟩
      unfold edgeOK
      rw [hm]
      show (!isAnySingleton zero (k'+1) (.node (k'+1) cs)) = true
      rw [Bool.not_eq_true', ← Bool.not_eq_true]
      simp only [isAnySingleton, List.any_eq_true, List.mem_range]
      rintro ⟨i, hi, hs⟩
      have hi' : i < S.size (k'+1+1) := by rw [hsz, ← hlen]; exact hi
      have hE := ((Red_succ_node S zero k' (some i) cs).mp (h i hi')).1
      rw [edgeOK_ident_some S zero (k'+1) i hm hE] at hs
      cases hs
    · obtain ⟨_, hr⟩ := Red_succ_skip S zero k' (some 0) hd h0
      have hb : Below k' d := (Red_WFTree S zero k' none d hr).1
      exact Red_skip_intro S zero k' none hb
        (edgeOK_skip S zero (k'+1) none hd (by rw [hm]; intro h; cases h)) hr
  · rw [Red_fi_irrel S zero k none (some 0) d hm]; exact h0

/-! ## `mkNode` -/

theorem headD_eq_getD {β : Type} (l : List β) (dflt : β) : l.headD dflt = l.getD 0 dflt := by
  cases l <;> rfl

theorem all_leaf_zero_getD (zero : α) (cs : List (DD α))
    (h : cs.all (fun c => c == .leaf zero) = true) (i : Nat) :
    cs.getD i (.leaf zero) = .leaf zero := by
  rcases getD_mem_or cs i (.leaf zero) with hm | he
  · exact beq_iff_eq.mp (List.all_eq_true.mp h _ hm)
  · exact he

theorem all_head_getD (dflt : DD α) (cs : List (DD α))
    (h : cs.all (fun c => c == cs.headD dflt) = true) (i : Nat) (hi : i < cs.length) :
    cs.getD i dflt = cs.headD dflt := by
  have hm : cs.getD i dflt ∈ cs := by
    rw [List.getD_eq_getElem?_getD, List.getElem?_eq_getElem hi]
    exact List.getElem_mem hi
  exact beq_iff_eq.mp (List.all_eq_true.mp h _ hm)

theorem exists_ne_of_all_false (zero : α) (cs : List (DD α))
    (h : cs.all (fun c => c == .leaf zero) = false) : ∃ c, c ∈ cs ∧ c ≠ .leaf zero := by
  rw [← Bool.not_eq_true, List.all_eq_true] at h
  apply Classical.byContradiction
  intro hne
  apply h
  intro c hc
  apply beq_iff_eq.mpr
  apply Classical.byContradiction
  intro hcz
  exact hne ⟨c, hc, hcz⟩

theorem isSingletonList_iff (zero : α) (i : Nat) (cs : List (DD α)) :
    isSingletonList zero i cs = true ↔
      i < cs.length ∧
      (∀ j, j < cs.length → j = i ∨ cs.getD j (.leaf zero) = .leaf zero) ∧
      cs.getD i (.leaf zero) ≠ .leaf zero := by
  simp only [isSingletonList, Bool.and_eq_true, decide_eq_true_eq,
    List.all_eq_true, List.mem_range, Bool.or_eq_true, beq_iff_eq, bne_iff_ne, ne_eq, and_assoc]

theorem isSingleton_node_eq (zero : α) (p i : Nat) (cs : List (DD α)) :
    isSingleton zero p i (.node p cs) = isSingletonList zero i cs := by
  simp only [isSingleton, isSingletonList, beq_self_eq_true, Bool.true_and]

/-- The four outcomes of `mkNode`. -/
theorem mkNode_cases (S : Shape) (zero : α) (k : Nat) (fi : Option Nat) (cs : List (DD α)) :
    (cs.all (fun c => c == .leaf zero) = true ∧ mkNode S zero k fi cs = .leaf zero) ∨
    (cs.all (fun c => c == .leaf zero) = false ∧ S.mode k = .red ∧
      cs.all (fun c => c == cs.headD (.leaf zero)) = true ∧
      mkNode S zero k fi cs = cs.headD (.leaf zero)) ∨
    (cs.all (fun c => c == .leaf zero) = false ∧ S.mode k = .ident ∧
      ∃ i, fi = some i ∧ isSingletonList zero i cs = true ∧
        mkNode S zero k fi cs = cs.getD i (.leaf zero)) ∨
    (cs.all (fun c => c == .leaf zero) = false ∧ mkNode S zero k fi cs = .node k cs ∧
      (S.mode k = .red → cs.all (fun c => c == cs.headD (.leaf zero)) = false) ∧
      (S.mode k = .ident → ∀ i, fi = some i → isSingletonList zero i cs = false)) := by
  by_cases hz : cs.all (fun c => c == .leaf zero) = true
  · left; exact ⟨hz, by unfold mkNode; rw [if_pos hz]⟩
  · right
    have hz' : cs.all (fun c => c == .leaf zero) = false := by simpa using hz
    unfold mkNode
    rw [if_neg hz]
    cases hm : S.mode k with
    | red =>
      by_cases hh : cs.all (fun c => c == cs.headD (.leaf zero)) = true
      · left; exact ⟨hz', rfl, hh, by simp only [if_pos hh]⟩
      · right; right
        exact ⟨hz', by simp only [if_neg hh], (fun _ => by simpa using hh), (fun h => by cases h)⟩
    | none =>
      right; right
      exact ⟨hz', rfl, (fun h => by cases h), (fun h => by cases h)⟩
    | ident =>
      cases fi with
      | none =>
        right; right
        exact ⟨hz', rfl, (fun h => by cases h), (fun _ i h => by cases h)⟩
      | some i =>
        by_cases hs : isSingletonList zero i cs = true
        · right; left
          exact ⟨hz', rfl, i, rfl, hs, by simp only [if_pos hs]⟩
        · right; right
          refine ⟨hz', by simp only [if_neg hs], (fun h => by cases h), ?_⟩
          intro _ j hj
          cases hj
          simpa using hs

theorem mkNode_eval_lt (S : Shape) (zero : α) (k : Nat) (fi : Option Nat) (cs : List (DD α))
    (x : Assign) (hlen : cs.length = S.size (k+1)) (hx : x (k+1) < S.size (k+1))
    (hb : ∀ c, c ∈ cs → Below k c)
    (hfi : S.mode (k+1) = .ident → fi = some (x (k+2))) :
    eval S zero (k+1) (mkNode S zero (k+1) fi cs) x
      = eval S zero k (cs.getD (x (k+1)) (.leaf zero)) x := by
  have hbg : ∀ i, Below k (cs.getD i (.leaf zero)) := by
    intro i
    rcases getD_mem_or cs i (.leaf zero) with hm | he
    · exact hb _ hm
    · rw [he]; exact Below_leaf _ _
  rcases mkNode_cases S zero (k+1) fi cs with ⟨hz, hr⟩ | ⟨_, hm, hh, hr⟩ | ⟨_, hm, i, hi, hs, hr⟩ |
      ⟨_, hr, _, _⟩
  · rw [hr, eval_leaf_zero, all_leaf_zero_getD zero cs hz, eval_leaf_zero]
  · rw [hr, all_head_getD _ cs hh _ (by rw [hlen]; exact hx)]
    have hbh : Below k (cs.headD (.leaf zero)) := by rw [headD_eq_getD]; exact hbg 0
    rw [eval_succ_skip S zero k x hbh.not_nodeAt]
    have : ¬ (S.mode (k+1) = .ident ∧ x (k+1) ≠ x (k+2)) := by
      intro h; rw [hm] at h; cases h.1
    rw [if_neg this]
  · have hi' : i = x (k+2) := by
      have := hfi hm; rw [hi] at this; cases this; rfl
    subst hi'
    obtain ⟨_, hoth, _⟩ := (isSingletonList_iff zero _ cs).mp hs
    rw [hr, eval_succ_skip S zero k x (hbg _).not_nodeAt]
    by_cases he : x (k+1) = x (k+2)
    · have : ¬ (S.mode (k+1) = .ident ∧ x (k+1) ≠ x (k+2)) := fun h => h.2 he
      rw [if_neg this, he]
    · rw [if_pos ⟨hm, he⟩]
      rcases hoth (x (k+1)) (by rw [hlen]; exact hx) with h | h
      · exact absurd h he
      · rw [h, eval_leaf_zero]
  · rw [hr, eval_succ_node]

/-- `mkNode` denotes the function whose cofactors are the children. -/
theorem mkNode_eval (S : Shape) (zero : α) (k : Nat) (fi : Option Nat) (cs : List (DD α))
    (x : Assign) (hk : k+1 ≤ S.top) (hlen : cs.length = S.size (k+1)) (hx : Assign.Valid S x)
    (hb : ∀ c, c ∈ cs → Below k c)
    (hfi : S.mode (k+1) = .ident → fi = some (x (k+2))) :
    eval S zero (k+1) (mkNode S zero (k+1) fi cs) x
      = eval S zero k (cs.getD (x (k+1)) (.leaf zero)) x :=
  mkNode_eval_lt S zero k fi cs x hlen (hx (k+1) (by omega) hk) hb hfi

theorem mkNode_Below (S : Shape) (zero : α) (k : Nat) (fi : Option Nat) (cs : List (DD α))
    (hb : ∀ c, c ∈ cs → Below k c) : Below (k+1) (mkNode S zero (k+1) fi cs) := by
  have hbg : ∀ i, Below (k+1) (cs.getD i (.leaf zero)) := by
    intro i
    rcases getD_mem_or cs i (.leaf zero) with hm | he
    · exact (hb _ hm).mono (Nat.le_succ k)
    · rw [he]; exact Below_leaf _ _
  rcases mkNode_cases S zero (k+1) fi cs with ⟨_, hr⟩ | ⟨_, _, _, hr⟩ | ⟨_, _, i, _, _, hr⟩ |
      ⟨_, hr, _, _⟩ <;> rw [hr]
  · exact Below_leaf _ _
  · rw [headD_eq_getD]; exact hbg 0
  · exact hbg i
  · exact Nat.le_refl (k+1)

theorem mkNode_WFTree (S : Shape) (zero : α) (k : Nat) (fi : Option Nat) (cs : List (DD α))
    (hb : ∀ c, c ∈ cs → Below k c) (hw : ∀ c, c ∈ cs → WFTree c) :
    WFTree (mkNode S zero (k+1) fi cs) := by
  have hwg : ∀ i, WFTree (cs.getD i (.leaf zero)) := by
    intro i
    rcases getD_mem_or cs i (.leaf zero) with hm | he
    · exact hw _ hm
    · rw [he]; exact WFTree.leaf _
  rcases mkNode_cases S zero (k+1) fi cs with ⟨_, hr⟩ | ⟨_, _, _, hr⟩ | ⟨_, _, i, _, _, hr⟩ |
      ⟨_, hr, _, _⟩ <;> rw [hr]
  · exact WFTree.leaf _
  · rw [headD_eq_getD]; exact hwg 0
  · exact hwg i
  · exact WFTree.node _ _ hb hw

/-- at a `none` (quasi-reduced) position `mkNode` stores the node, unless it is
    the transparent one -/
theorem mkNode_none (S : Shape) (zero : α) (k : Nat) (fi : Option Nat) (cs : List (DD α))
    (hm : S.mode k = .none) :
    mkNode S zero k fi cs = .leaf zero ∨ mkNode S zero k fi cs = .node k cs := by
  rcases mkNode_cases S zero k fi cs with ⟨_, hr⟩ | ⟨_, hm', _⟩ | ⟨_, hm', _⟩ | ⟨_, hr, _, _⟩
  · left; exact hr
  · rw [hm] at hm'; cases hm'
  · rw [hm] at hm'; cases hm'
  · right; exact hr

/-- `mkNode` of reduced children is reduced. -/
theorem mkNode_red (S : Shape) (zero : α) (hS : S.WF) (k : Nat) (fi : Option Nat)
    (cs : List (DD α)) (hlen : cs.length = S.size (k+1))
    (hch : ∀ i, i < cs.length → Red S zero k (some i) (cs.getD i (.leaf zero)) = true)
    (hfi : fi = none → S.mode (k+1) ≠ .ident) :
    Red S zero (k+1) fi (mkNode S zero (k+1) fi cs) = true := by
  rcases mkNode_cases S zero (k+1) fi cs with ⟨_, hr⟩ | ⟨hz, hm, hh, hr⟩ | ⟨_, hm, i, hi, hs, hr⟩ |
      ⟨hz, hr, hred, hid⟩
  · rw [hr]; exact Red_leaf_zero S zero (k+1) fi
  · rw [hr]
    obtain ⟨c0, hc0, _⟩ := exists_ne_of_all_false zero cs hz
    have hpos : 0 < cs.length := List.length_pos_of_mem hc0
    have hall : ∀ i, i < S.size (k+1) →
        Red S zero k (some i) (cs.headD (.leaf zero)) = true := by
      intro i hi
      rw [← hlen] at hi
      rw [← all_head_getD _ cs hh i hi]; exact hch i hi
    have hnone := Red_all_some_none S zero hS k _ (by rw [← hlen]; exact hpos) hall
    have hb := (Red_WFTree S zero k none _ hnone).1
    exact Red_skip_intro S zero k fi hb
      (edgeOK_skip S zero (k+1) fi hb.not_nodeAt (by rw [hm]; intro h; cases h)) hnone
  · rw [hr]
    obtain ⟨hil, _, _⟩ := (isSingletonList_iff zero i cs).mp hs
    have hmk : S.mode k ≠ .ident := by
      intro hk
      have := (hS.ident_below_red k hk).2.2.1
      rw [hm] at this; cases this
    have hnone : Red S zero k none (cs.getD i (.leaf zero)) = true := by
      rw [Red_fi_irrel S zero k none (some i) _ hmk]; exact hch i hil
    have hb := (Red_WFTree S zero k none _ hnone).1
    exact Red_skip_intro S zero k fi hb
      (edgeOK_skip S zero (k+1) fi hb.not_nodeAt (by rw [hm]; intro h; cases h)) hnone
  · rw [hr]
    refine (Red_succ_node S zero k fi cs).mpr ⟨?_, hlen, exists_ne_of_all_false zero cs hz, ?_, hch⟩
    · unfold edgeOK
      cases hm : S.mode (k+1) with
      | red => rfl
      | none => simp [isNodeAt]
      | ident =>
        cases fi with
        | none => exact absurd hm (hfi rfl)
        | some i =>
          show (!isSingleton zero (k+1) i (.node (k+1) cs)) = true
          rw [isSingleton_node_eq, hid hm i rfl]; rfl
    · intro hm hall
      have := hred hm
      rw [← Bool.not_eq_true, List.all_eq_true] at this
      exact this (fun c hc => beq_iff_eq.mpr (hall c hc))

/-! ## `apply2` -/

theorem eval_zero_eq_leafVal (S : Shape) (zero : α) (d : DD α) (x : Assign) :
    eval S zero 0 d x = leafVal zero d := by
  cases d <;> rfl

theorem getD_map_range {δ : Type} (n : Nat) (g : Nat → δ) (i : Nat) (hi : i < n) (dflt : δ) :
    ((List.range n).map g).getD i dflt = g i := by
  rw [List.getD_eq_getElem?_getD, List.getElem?_map, List.getElem?_range hi]
  rfl

theorem length_map_range {δ : Type} (n : Nat) (g : Nat → δ) :
    ((List.range n).map g).length = n := by
  rw [List.length_map, List.length_range]

theorem apply2_zero (Sa Sb Sc : Shape) (za : α) (zb : β) (zc : γ) (f : α → β → γ)
    (fi : Option Nat) (a : DD α) (b : DD β) :
    apply2 Sa Sb Sc za zb zc f 0 fi a b = .leaf (f (leafVal za a) (leafVal zb b)) := by
  rw [apply2]

theorem apply2_succ (Sa Sb Sc : Shape) (za : α) (zb : β) (zc : γ) (f : α → β → γ)
    (k : Nat) (fi : Option Nat) (a : DD α) (b : DD β) :
    apply2 Sa Sb Sc za zb zc f (k+1) fi a b =
      mkNode Sc zc (k+1) fi
        ((List.range (Sc.size (k+1))).map fun i =>
          apply2 Sa Sb Sc za zb zc f k (some i)
            (cofactor Sa za (k+1) fi a i) (cofactor Sb zb (k+1) fi b i)) := by
  rw [apply2]

/-- The result of `apply2` is always well shaped and below its position. -/
theorem apply2_Below_WFTree (Sa Sb Sc : Shape) (za : α) (zb : β) (zc : γ) (f : α → β → γ) :
    ∀ (k : Nat) (fi : Option Nat) (a : DD α) (b : DD β),
      Below k (apply2 Sa Sb Sc za zb zc f k fi a b) ∧
      WFTree (apply2 Sa Sb Sc za zb zc f k fi a b) := by
  intro k
  induction k with
  | zero =>
    intro fi a b
    rw [apply2_zero]
    exact ⟨Below_leaf _ _, WFTree.leaf _⟩
  | succ k ih =>
    intro fi a b
    rw [apply2_succ]
    have hc : ∀ c, c ∈ ((List.range (Sc.size (k+1))).map fun i =>
          apply2 Sa Sb Sc za zb zc f k (some i)
            (cofactor Sa za (k+1) fi a i) (cofactor Sb zb (k+1) fi b i)) →
        Below k c ∧ WFTree c := by
      intro c hc
      obtain ⟨i, _, rfl⟩ := List.mem_map.mp hc
      exact ih _ _ _
    exact ⟨mkNode_Below Sc zc k fi _ (fun c h => (hc c h).1),
      mkNode_WFTree Sc zc k fi _ (fun c h => (hc c h).1) (fun c h => (hc c h).2)⟩

/-- `apply2 f` denotes the pointwise `f` of the operands' denotations.
    (No hypothesis on the operand trees or on `Sa`, `Sb` is needed: `cofactor`
    mirrors `eval` on arbitrary trees.) -/
theorem apply2_eval (Sa Sb Sc : Shape) (za : α) (zb : β) (zc : γ) (f : α → β → γ) :
    ∀ (k : Nat) (fi : Option Nat) (a : DD α) (b : DD β) (x : Assign),
      k ≤ Sc.top → Assign.Valid Sc x →
      (Sa.mode k = .ident → fi = some (x (k+1))) →
      (Sb.mode k = .ident → fi = some (x (k+1))) →
      (Sc.mode k = .ident → fi = some (x (k+1))) →
      eval Sc zc k (apply2 Sa Sb Sc za zb zc f k fi a b) x
        = f (eval Sa za k a x) (eval Sb zb k b x) := by
  intro k
  induction k with
  | zero =>
    intro fi a b x _ _ _ _ _
    rw [apply2_zero, eval_zero_leaf, eval_zero_eq_leafVal, eval_zero_eq_leafVal]
  | succ k ih =>
    intro fi a b x hk hx ha hb hc
    have hxk : x (k+1) < Sc.size (k+1) := hx (k+1) (by omega) hk
    rw [apply2_succ,
      mkNode_eval Sc zc k fi _ x hk (length_map_range _ _) hx
        (fun c h => by
          obtain ⟨i, _, rfl⟩ := List.mem_map.mp h
          exact (apply2_Below_WFTree Sa Sb Sc za zb zc f k _ _ _).1) hc,
      getD_map_range _ _ _ hxk,
      ih (some (x (k+1))) _ _ x (by omega) hx (fun _ => rfl) (fun _ => rfl) (fun _ => rfl),
      ← cofactor_eval Sa za k fi a x ha, ← cofactor_eval Sb zb k fi b x hb]

theorem _root_.Meddly.Shape.WF.top_not_ident {S : Shape} (hS : S.WF) {k : Nat} (hk : S.top ≤ k) :
    S.mode k ≠ .ident := by
  intro h
  have := (hS.ident_below_red k h).2.1
  omega

/-- `apply2_eval` for whole forests. -/
theorem apply2_eval_top (Sa Sb Sc : Shape) (za : α) (zb : β) (zc : γ) (f : α → β → γ)
    (hSa : Sa.WF) (hSb : Sb.WF) (hSc : Sc.WF) (hac : SameVars Sa Sc) (hbc : SameVars Sb Sc)
    (a : DD α) (b : DD β) (x : Assign) (hx : Assign.Valid Sc x) :
    eval Sc zc Sc.top (apply2 Sa Sb Sc za zb zc f Sc.top none a b) x
      = f (eval Sa za Sa.top a x) (eval Sb zb Sb.top b x) := by
  rw [hac.top, hbc.top]
  exact apply2_eval Sa Sb Sc za zb zc f Sc.top none a b x (Nat.le_refl _) hx
    (fun h => absurd h (hSa.top_not_ident (by rw [hac.top]; exact Nat.le_refl _)))
    (fun h => absurd h (hSb.top_not_ident (by rw [hbc.top]; exact Nat.le_refl _)))
    (fun h => absurd h (hSc.top_not_ident (Nat.le_refl _)))

/-- The result of `apply2` is reduced for the result forest. -/
theorem apply2_red (Sa Sb Sc : Shape) (za : α) (zb : β) (zc : γ) (f : α → β → γ) (hSc : Sc.WF) :
    ∀ (k : Nat) (fi : Option Nat) (a : DD α) (b : DD β),
      (fi = none → Sc.mode k ≠ .ident) →
      Red Sc zc k fi (apply2 Sa Sb Sc za zb zc f k fi a b) = true := by
  intro k
  induction k with
  | zero =>
    intro fi a b _
    rw [apply2_zero]; rfl
  | succ k ih =>
    intro fi a b hfi
    rw [apply2_succ]
    apply mkNode_red Sc zc hSc k fi _ (length_map_range _ _) _ hfi
    intro i hi
    rw [length_map_range] at hi
    rw [getD_map_range _ _ _ hi]
    exact ih (some i) _ _ (fun h => by cases h)

theorem apply2_red_top (Sa Sb Sc : Shape) (za : α) (zb : β) (zc : γ) (f : α → β → γ)
    (hSc : Sc.WF) (a : DD α) (b : DD β) :
    Red Sc zc Sc.top none (apply2 Sa Sb Sc za zb zc f Sc.top none a b) = true :=
  apply2_red Sa Sb Sc za zb zc f hSc Sc.top none a b
    (fun _ => hSc.top_not_ident (Nat.le_refl _))

/-- `apply2` computes *the* reduced tree of the pointwise function. -/
theorem apply2_unique (Sa Sb Sc : Shape) (za : α) (zb : β) (zc : γ) (f : α → β → γ)
    (hSa : Sa.WF) (hSb : Sb.WF) (hSc : Sc.WF) (hac : SameVars Sa Sc) (hbc : SameVars Sb Sc)
    (a : DD α) (b : DD β) (r : DD γ)
    (hr : Red Sc zc Sc.top none r = true)
    (hd : ∀ x, Assign.Valid Sc x →
      eval Sc zc Sc.top r x = f (eval Sa za Sa.top a x) (eval Sb zb Sb.top b x)) :
    r = apply2 Sa Sb Sc za zb zc f Sc.top none a b := by
  apply (canon Sc zc hSc r _ hr (apply2_red_top Sa Sb Sc za zb zc f hSc a b)).mp
  intro x hx
  rw [hd x hx, apply2_eval_top Sa Sb Sc za zb zc f hSa hSb hSc hac hbc a b x hx]

/-! ## `apply1` -/

theorem apply1_zero (Sa Sc : Shape) (za : α) (zc : γ) (f : α → γ)
    (fi : Option Nat) (a : DD α) :
    apply1 Sa Sc za zc f 0 fi a = .leaf (f (leafVal za a)) := by
  rw [apply1]

theorem apply1_succ (Sa Sc : Shape) (za : α) (zc : γ) (f : α → γ)
    (k : Nat) (fi : Option Nat) (a : DD α) :
    apply1 Sa Sc za zc f (k+1) fi a =
      mkNode Sc zc (k+1) fi
        ((List.range (Sc.size (k+1))).map fun i =>
          apply1 Sa Sc za zc f k (some i) (cofactor Sa za (k+1) fi a i)) := by
  rw [apply1]

theorem apply1_Below_WFTree (Sa Sc : Shape) (za : α) (zc : γ) (f : α → γ) :
    ∀ (k : Nat) (fi : Option Nat) (a : DD α),
      Below k (apply1 Sa Sc za zc f k fi a) ∧ WFTree (apply1 Sa Sc za zc f k fi a) := by
  intro k
  induction k with
  | zero =>
    intro fi a
    rw [apply1_zero]
    exact ⟨Below_leaf _ _, WFTree.leaf _⟩
  | succ k ih =>
    intro fi a
    rw [apply1_succ]
    have hc : ∀ c, c ∈ ((List.range (Sc.size (k+1))).map fun i =>
          apply1 Sa Sc za zc f k (some i) (cofactor Sa za (k+1) fi a i)) →
        Below k c ∧ WFTree c := by
      intro c hc
      obtain ⟨i, _, rfl⟩ := List.mem_map.mp hc
      exact ih _ _
    exact ⟨mkNode_Below Sc zc k fi _ (fun c h => (hc c h).1),
      mkNode_WFTree Sc zc k fi _ (fun c h => (hc c h).1) (fun c h => (hc c h).2)⟩

theorem apply1_eval (Sa Sc : Shape) (za : α) (zc : γ) (f : α → γ) :
    ∀ (k : Nat) (fi : Option Nat) (a : DD α) (x : Assign),
      k ≤ Sc.top → Assign.Valid Sc x →
      (Sa.mode k = .ident → fi = some (x (k+1))) →
      (Sc.mode k = .ident → fi = some (x (k+1))) →
      eval Sc zc k (apply1 Sa Sc za zc f k fi a) x = f (eval Sa za k a x) := by
  intro k
  induction k with
  | zero =>
    intro fi a x _ _ _ _
    rw [apply1_zero, eval_zero_leaf, eval_zero_eq_leafVal]
  | succ k ih =>
    intro fi a x hk hx ha hc
    have hxk : x (k+1) < Sc.size (k+1) := hx (k+1) (by omega) hk
    rw [apply1_succ,
      mkNode_eval Sc zc k fi _ x hk (length_map_range _ _) hx
        (fun c h => by
          obtain ⟨i, _, rfl⟩ := List.mem_map.mp h
          exact (apply1_Below_WFTree Sa Sc za zc f k _ _).1) hc,
      getD_map_range _ _ _ hxk,
      ih (some (x (k+1))) _ x (by omega) hx (fun _ => rfl) (fun _ => rfl),
      ← cofactor_eval Sa za k fi a x ha]

theorem apply1_eval_top (Sa Sc : Shape) (za : α) (zc : γ) (f : α → γ)
    (hSa : Sa.WF) (hSc : Sc.WF) (hac : SameVars Sa Sc)
    (a : DD α) (x : Assign) (hx : Assign.Valid Sc x) :
    eval Sc zc Sc.top (apply1 Sa Sc za zc f Sc.top none a) x = f (eval Sa za Sa.top a x) := by
  rw [hac.top]
  exact apply1_eval Sa Sc za zc f Sc.top none a x (Nat.le_refl _) hx
    (fun h => absurd h (hSa.top_not_ident (by rw [hac.top]; exact Nat.le_refl _)))
    (fun h => absurd h (hSc.top_not_ident (Nat.le_refl _)))

theorem apply1_red (Sa Sc : Shape) (za : α) (zc : γ) (f : α → γ) (hSc : Sc.WF) :
    ∀ (k : Nat) (fi : Option Nat) (a : DD α),
      (fi = none → Sc.mode k ≠ .ident) →
      Red Sc zc k fi (apply1 Sa Sc za zc f k fi a) = true := by
  intro k
  induction k with
  | zero =>
    intro fi a _
    rw [apply1_zero]; rfl
  | succ k ih =>
    intro fi a hfi
    rw [apply1_succ]
    apply mkNode_red Sc zc hSc k fi _ (length_map_range _ _) _ hfi
    intro i hi
    rw [length_map_range] at hi
    rw [getD_map_range _ _ _ hi]
    exact ih (some i) _ (fun h => by cases h)

theorem apply1_red_top (Sa Sc : Shape) (za : α) (zc : γ) (f : α → γ) (hSc : Sc.WF) (a : DD α) :
    Red Sc zc Sc.top none (apply1 Sa Sc za zc f Sc.top none a) = true :=
  apply1_red Sa Sc za zc f hSc Sc.top none a (fun _ => hSc.top_not_ident (Nat.le_refl _))

theorem apply1_unique (Sa Sc : Shape) (za : α) (zc : γ) (f : α → γ)
    (hSa : Sa.WF) (hSc : Sc.WF) (hac : SameVars Sa Sc) (a : DD α) (r : DD γ)
    (hr : Red Sc zc Sc.top none r = true)
    (hd : ∀ x, Assign.Valid Sc x → eval Sc zc Sc.top r x = f (eval Sa za Sa.top a x)) :
    r = apply1 Sa Sc za zc f Sc.top none a := by
  apply (canon Sc zc hSc r _ hr (apply1_red_top Sa Sc za zc f hSc a)).mp
  intro x hx
  rw [hd x hx, apply1_eval_top Sa Sc za zc f hSa hSc hac a x hx]

/-! ## Set algebra -/

section SetAlgebra
variable (Sa Sb Sc : Shape)

/-- union of two sets / relations (operands in forests `Sa`, `Sb`; result in `Sc`) -/
def union (a b : DD Bool) : DD Bool :=
  apply2 Sa Sb Sc false false false (fun p q => p || q) Sc.top none a b
def inter (a b : DD Bool) : DD Bool :=
  apply2 Sa Sb Sc false false false (fun p q => p && q) Sc.top none a b
def diff (a b : DD Bool) : DD Bool :=
  apply2 Sa Sb Sc false false false (fun p q => p && !q) Sc.top none a b
def compl (a : DD Bool) : DD Bool :=
  apply1 Sa Sc false false (fun p => !p) Sc.top none a

variable {Sa Sb Sc}

theorem union_eval (hSa : Sa.WF) (hSb : Sb.WF) (hSc : Sc.WF) (hac : SameVars Sa Sc)
    (hbc : SameVars Sb Sc) (a b : DD Bool) (x : Assign) (hx : Assign.Valid Sc x) :
    eval Sc false Sc.top (union Sa Sb Sc a b) x
      = (eval Sa false Sa.top a x || eval Sb false Sb.top b x) :=
  apply2_eval_top Sa Sb Sc false false false _ hSa hSb hSc hac hbc a b x hx

theorem inter_eval (hSa : Sa.WF) (hSb : Sb.WF) (hSc : Sc.WF) (hac : SameVars Sa Sc)
    (hbc : SameVars Sb Sc) (a b : DD Bool) (x : Assign) (hx : Assign.Valid Sc x) :
    eval Sc false Sc.top (inter Sa Sb Sc a b) x
      = (eval Sa false Sa.top a x && eval Sb false Sb.top b x) :=
  apply2_eval_top Sa Sb Sc false false false _ hSa hSb hSc hac hbc a b x hx

theorem diff_eval (hSa : Sa.WF) (hSb : Sb.WF) (hSc : Sc.WF) (hac : SameVars Sa Sc)
    (hbc : SameVars Sb Sc) (a b : DD Bool) (x : Assign) (hx : Assign.Valid Sc x) :
    eval Sc false Sc.top (diff Sa Sb Sc a b) x
      = (eval Sa false Sa.top a x && !eval Sb false Sb.top b x) :=
  apply2_eval_top Sa Sb Sc false false false _ hSa hSb hSc hac hbc a b x hx

theorem compl_eval (hSa : Sa.WF) (hSc : Sc.WF) (hac : SameVars Sa Sc)
    (a : DD Bool) (x : Assign) (hx : Assign.Valid Sc x) :
    eval Sc false Sc.top (compl Sa Sc a) x = !eval Sa false Sa.top a x :=
  apply1_eval_top Sa Sc false false _ hSa hSc hac a x hx

theorem union_red (hSc : Sc.WF) (a b : DD Bool) :
    Red Sc false Sc.top none (union Sa Sb Sc a b) = true :=
  apply2_red_top Sa Sb Sc false false false _ hSc a b

theorem inter_red (hSc : Sc.WF) (a b : DD Bool) :
    Red Sc false Sc.top none (inter Sa Sb Sc a b) = true :=
  apply2_red_top Sa Sb Sc false false false _ hSc a b

theorem diff_red (hSc : Sc.WF) (a b : DD Bool) :
    Red Sc false Sc.top none (diff Sa Sb Sc a b) = true :=
  apply2_red_top Sa Sb Sc false false false _ hSc a b

theorem compl_red (hSc : Sc.WF) (a : DD Bool) :
    Red Sc false Sc.top none (compl Sa Sc a) = true :=
  apply1_red_top Sa Sc false false _ hSc a

end SetAlgebra

end DD

namespace ApplyExamples
open DD CanonExamples

/-! ## Non-vacuity: concrete instances -/

/-! (a) fully reduced, three positions of sizes 2, 3, 2 (`CanonExamples.SA`) -/

def xA : DD Bool := .node 1 [.leaf false, .leaf true]
def yA : DD Bool := .node 1 [.leaf true, .leaf false]
/-- child 1 skips position 2 -/
def aA : DD Bool := .node 3 [.node 2 [xA, yA, .leaf false], xA]
def bA : DD Bool := .node 3 [.node 2 [yA, .leaf false, xA], .leaf false]

example : Red SA false 3 none aA = true := by decide
example : Red SA false 3 none bA = true := by decide
/-- `xA ∪ yA` is the redundant node `[true, true]`, eliminated to `leaf true` -/
example : union SA SA SA aA bA = .node 3 [.node 2 [.leaf true, yA, xA], xA] := by decide
example : Red SA false 3 none (.node 3 [.node 2 [.leaf true, yA, xA], xA]) = true := by decide
example : inter SA SA SA aA bA = .leaf false := by decide
example : compl SA SA aA = .node 3 [.node 2 [yA, xA, .leaf true], yA] := by decide

/-! (b) operands identity-reduced (`CanonExamples.SB`: positions 4, 2 `red`;
    3, 1 `ident`; sizes 2), result fully reduced over the same variables -/

def SF : Shape where
  top := 4
  size := fun _ => 2
  mode := fun _ => .red

theorem SF_WF : SF.WF where
  size_ge := by intro p _ _; exact Nat.le_refl 2
  ident_below_red := by intro p h; cases h

theorem SB_SF : SameVars SB SF := ⟨rfl, fun _ => rfl⟩

/-- the identity relation on both variables: skips every position -/
def aB : DD Bool := .leaf true
/-- `x₂ = 0 → x₂' = 1`, `x₁' = x₁`: the `leaf true` skips the `ident` position 1 -/
def bB : DD Bool := .node 4 [.node 3 [.leaf false, .leaf true], .leaf false]
/-- the identity on variable 1, spelled out in a fully reduced forest -/
def i1 : DD Bool := .node 2 [.node 1 [.leaf true, .leaf false], .node 1 [.leaf false, .leaf true]]

example : Red SB false 4 none aB = true := by decide
example : Red SB false 4 none bB = true := by decide
/-- identity expansion of both operands; below index 0 of position 4 the node
    `[i1, i1]` at position 3 is redundant in the fully reduced result -/
example : union SB SB SF aB bB = .node 4 [i1, .node 3 [.leaf false, i1]] := by decide
example : Red SF false 4 none (.node 4 [i1, .node 3 [.leaf false, i1]]) = true := by decide
/-- same operands, identity-reduced result: below index 1 the 1-singleton at
    position 3 is eliminated again -/
example : union SB SB SB aB bB = .node 4 [.node 3 [.leaf true, .leaf true], .leaf true] := by
  decide
example : diff SB SB SB aB bB = .leaf true := by decide
example : diff SB SB SF aB bB =
    .node 4 [.node 3 [i1, .leaf false], .node 3 [.leaf false, i1]] := by decide
/-- the complement of a relation in an identity-reduced forest: "everything"
    below a skipped `red` position is the stored node `[true, true]` -/
example : compl SB SB bB =
    .node 4 [.node 3 [.node 1 [.leaf true, .leaf true],
                      .node 2 [.node 1 [.leaf false, .leaf true], .node 1 [.leaf true, .leaf false]]],
             .node 3 [.node 1 [.leaf true, .leaf true], .node 1 [.leaf true, .leaf true]]] := by
  decide

/-- the general theorems apply to the concrete instance -/
example (x : Assign) (hx : Assign.Valid SF x) :
    eval SF false 4 (.node 4 [i1, .node 3 [.leaf false, i1]]) x
      = (eval SB false 4 aB x || eval SB false 4 bB x) := by
  have h := union_eval SB_WF SB_WF SF_WF SB_SF SB_SF aB bB x hx
  have e : union SB SB SF aB bB = .node 4 [i1, .node 3 [.leaf false, i1]] := by decide
  rw [e] at h
  exact h

end ApplyExamples

#print axioms DD.apply2_eval_top
#print axioms DD.apply2_red_top
#print axioms DD.apply2_unique
#print axioms DD.apply1_eval_top
#print axioms DD.apply1_unique
#print axioms DD.union_eval
/- Output (Lean 4.33.0):
'Meddly.DD.apply2_eval_top' depends on axioms: [propext, Classical.choice, Quot.sound]
'Meddly.DD.apply2_red_top' depends on axioms: [propext, Classical.choice, Quot.sound]
'Meddly.DD.apply2_unique' depends on axioms: [propext, Classical.choice, Quot.sound]
'Meddly.DD.apply1_eval_top' depends on axioms: [propext, Classical.choice, Quot.sound]
'Meddly.DD.apply1_unique' depends on axioms: [propext, Classical.choice, Quot.sound]
'Meddly.DD.union_eval' depends on axioms: [propext, Classical.choice, Quot.sound]
-/

end Meddly
