/-
  C11 (EV+ part) — enumeration and counting on EV+ trees.

  `enumerateE` mirrors `iterator_templ<EdgeOp_plus<…>>::first_unpr / first_pri / next`
  (src/dd_edge.cc) for edge-valued forests: the traversal is the one of `DD.enumerate`
  (`Ops/Enumerate.lean`: positions top-down, indices ascending, a skipped `red` position expanded
  over all values — `initRedundant` —, a skipped `ident` position forced to the value chosen at the
  position above — `initIdentity` —, the transparent terminal never entered: `if (0==p) return
  false`, and for EV+ the transparent terminal is `OMEGA_INFINITY = 0`), and in addition the edge
  values are ACCUMULATED along the path:
      `ev_from(k) = EOP::applyOp(ev_from(k+1), U->edgeval(z))`   (= the sum, `EdgeOp_plus`)
  starting from the root edge value (`ev_from[1+K] = root_ev`); a skipped position passes the
  value on unchanged (`ev_from(k) = up`); at the bottom the accumulated value is reported
  (`M_setTerm(ev_from(1), p)`).

  `cardE` mirrors `card_templ::_compute` (src/operations/cardinality.cc) on an EV+ target: the
  edge values play no role (`compute(L, in, av, ap, result)` drops `av`), `OMEGA_INFINITY` counts 0,
  the other terminal 1, skipped positions scale by the variable size except primed positions of
  identity-reduced forests.

  Assignments are digit lists, most significant (top position) first (`lexAll`, `withDigits`).

  Theorems
    `enumerateE_spec`     = all digit lists in lexicographic order, filtered by
                            `evalEdge ≠ none`, paired with the value `evalEdge`
    `enumerateE_mem_iff`, `enumerateE_sorted`, `enumerateE_nodup`, `enumerateE_value`
    `cardE_eq_length`     CARDINALITY = number of visited assignments
-/
import MeddlyModel.Ops.EVApply
import MeddlyModel.Ops.Enumerate

namespace Meddly

set_option linter.unusedSectionVars false
set_option linter.unusedVariables false

namespace EDD

/-! ## The iterator -/

/-- target of entry `i` of a stored node (∞ for terminals) -/
def childAt : EDD → Nat → EDD
  | .node _ cs, i => (cs.getD i dflt).2
  | _, _ => .inf

/-- entry `i` of the stored target of the edge `e`, with the value accumulated so far:
    `ev(k) = ev(k+1) + edgeval(i)` -/
def childE (e : Int × EDD) (i : Nat) : Int × EDD :=
  match e.2 with
  | .node _ cs => (e.1 + (cs.getD i dflt).1, (cs.getD i dflt).2)
  | _ => dflt

/-- Enumeration from position `k` downwards of the edge `e` = (value accumulated above `k`,
    target); `up` is the value chosen at position `k+1`.  Result: (digits for `k … 1`,
    accumulated value) in visiting order. -/
def enumerateE (S : Shape) : Nat → Nat → (Int × EDD) → List (List Nat × Int)
  | 0, _, e =>
    match leafValE e with
    | some v => [([], v)]
    | none => []
  | k+1, up, e =>
    if e.2 = .inf then [] else
    if e.2.isNodeAt (k+1) = true then
      (List.range (S.size (k+1))).flatMap (fun i =>
        (enumerateE S k i (childE e i)).map (fun r => (i :: r.1, r.2)))
    else if S.mode (k+1) = .ident then
      if up < S.size (k+1) then (enumerateE S k up e).map (fun r => (up :: r.1, r.2)) else []
    else
      (List.range (S.size (k+1))).flatMap (fun i =>
        (enumerateE S k i e).map (fun r => (i :: r.1, r.2)))

/-- `card_templ::_compute` on an EV+ target -/
def cardE (S : Shape) : Nat → EDD → Nat
  | 0, .omega => 1
  | 0, _ => 0
  | k+1, d =>
    if d = .inf then 0 else
    if d.isNodeAt (k+1) = true then
      ((List.range (S.size (k+1))).map (fun i => cardE S k (childAt d i))).sum
    else if S.mode (k+1) = .ident then cardE S k d
    else S.size (k+1) * cardE S k d

/-! ## Unfolding lemmas -/

theorem enumerateE_zero (S : Shape) (up : Nat) (e : Int × EDD) :
    enumerateE S 0 up e = match leafValE e with
      | some v => [([], v)]
      | none => [] := by
  rw [enumerateE]

theorem enumerateE_succ (S : Shape) (k up : Nat) (e : Int × EDD) :
    enumerateE S (k+1) up e =
    if e.2 = .inf then [] else
    if e.2.isNodeAt (k+1) = true then
      (List.range (S.size (k+1))).flatMap (fun i =>
        (enumerateE S k i (childE e i)).map (fun r => (i :: r.1, r.2)))
    else if S.mode (k+1) = .ident then
      if up < S.size (k+1) then (enumerateE S k up e).map (fun r => (up :: r.1, r.2)) else []
    else
      (List.range (S.size (k+1))).flatMap (fun i =>
        (enumerateE S k i e).map (fun r => (i :: r.1, r.2))) := by
  rw [enumerateE]

theorem cardE_succ (S : Shape) (k : Nat) (d : EDD) :
    cardE S (k+1) d =
    if d = .inf then 0 else
    if d.isNodeAt (k+1) = true then
      ((List.range (S.size (k+1))).map (fun i => cardE S k (childAt d i))).sum
    else if S.mode (k+1) = .ident then cardE S k d
    else S.size (k+1) * cardE S k d := by
  rw [cardE]

theorem childE_snd (e : Int × EDD) (i : Nat) : (childE e i).2 = childAt e.2 i := by
  obtain ⟨v, d⟩ := e
  cases d <;> rfl

/-- paths into ∞ are not entered -/
theorem enumerateE_inf (S : Shape) (k up : Nat) (v : Int) : enumerateE S k up (v, .inf) = [] := by
  cases k with
  | zero => rfl
  | succ k => rw [enumerateE_succ, if_pos rfl]

/-- The iterator in terms of `cofactorE`: trying EVERY index of position `k+1` on the pushed-down
    child edge gives the same list — the indices the iterator does not try (off the diagonal of a
    skipped `ident` position) and the children it does not enter (∞) contribute nothing. -/
theorem enumerateE_cofactor (S : Shape) (k up : Nat) (e : Int × EDD) :
    enumerateE S (k+1) up e =
      (List.range (S.size (k+1))).flatMap (fun i =>
        (enumerateE S k i (cofactorE S (k+1) (some up) e i)).map (fun r => (i :: r.1, r.2))) := by
  rw [enumerateE_succ]
  obtain ⟨v, d⟩ := e
  by_cases hz : d = .inf
  · subst hz
    rw [if_pos rfl]
    symm
    apply DD.flatMap_nil_of
    intro i _
    rcases skipE_cases S (k+1) (some up) (v, .inf) i with h | h
    · rw [cofactorE_skip S (k+1) (some up) (v, .inf) i rfl, h, enumerateE_inf]; rfl
    · rw [cofactorE_skip S (k+1) (some up) (v, .inf) i rfl, h, enumerateE_inf]; rfl
  · rw [if_neg hz]
    rcases storedAt_cases (k+1) d with ⟨cs, rfl⟩ | hd
    · have hn : (EDD.node (k+1) cs).isNodeAt (k+1) = true := by simp [isNodeAt]
      rw [if_pos hn]
      apply flatMap_congr'
      intro i _
      rw [cofactorE_node]
      rfl
    · have hn : ¬ ((v, d).2.isNodeAt (k+1) = true) := by
        show ¬ (d.isNodeAt (k+1) = true)
        rw [hd]; simp
      rw [if_neg hn]
      by_cases hm : S.mode (k+1) = .ident
      · rw [if_pos hm]
        have hc : ∀ i, cofactorE S (k+1) (some up) (v, d) i = if i = up then (v, d) else dflt := by
          intro i
          rw [cofactorE_skip S (k+1) (some up) (v, d) i hd]
          unfold skipE
          rw [if_pos hm]
        have : (fun i => (enumerateE S k i (cofactorE S (k+1) (some up) (v, d) i)).map
              (fun r => (i :: r.1, r.2)))
            = (fun i => if i = up then (enumerateE S k i (v, d)).map (fun r => (i :: r.1, r.2))
                else []) := by
          funext i
          rw [hc i]
          by_cases hi : i = up
          · rw [if_pos hi, if_pos hi]
          · rw [if_neg hi, if_neg hi]
            show (enumerateE S k i (0, .inf)).map _ = []
            rw [enumerateE_inf]; rfl
        rw [this, flatMap_range_single]
      · rw [if_neg hm]
        apply flatMap_congr'
        intro i _
        rw [cofactorE_skip S (k+1) (some up) (v, d) i hd]
        unfold skipE
        rw [if_neg hm]

/-! ## Specification -/

/-- what the specification lists for the digit list `ds`: nothing when the value is ∞ -/
def specEntryE (S : Shape) (k : Nat) (e : Int × EDD) (a : Assign) (ds : List Nat) :
    Option (List Nat × Int) :=
  (evalEdge S k e (withDigits a k ds)).map (fun v => (ds, v))

theorem enumerateE_spec_aux (S : Shape) :
    ∀ (k up : Nat) (e : Int × EDD) (a : Assign), a (k+1) = up →
      enumerateE S k up e = (lexAll S k).filterMap (specEntryE S k e a) := by
  intro k
  induction k with
  | zero =>
    intro up e a _
    rw [enumerateE_zero]
    show _ = [([] : List Nat)].filterMap (specEntryE S 0 e a)
    unfold specEntryE
    simp only [List.filterMap_cons, List.filterMap_nil, withDigits_zero,
      evalEdge_zero_eq_leafValE]
    cases leafValE e <;> rfl
  | succ k ih =>
    intro up e a hup
    rw [enumerateE_cofactor, DD.lexAll_succ, filterMap_flatMap']
    apply flatMap_congr'
    intro i _
    rw [List.filterMap_map,
      ih i _ (Assign.upd a (k+1) i) (Assign.upd_same a (k+1) i), List.map_filterMap]
    apply filterMap_congr'
    intro ds _
    show _ = specEntryE S (k+1) e a (i :: ds)
    unfold specEntryE
    have hb1 : withDigits (Assign.upd a (k+1) i) k ds (k+1) = i := by
      rw [withDigits_above k ds _ (k+1) (by omega), Assign.upd_same]
    have hb2 : withDigits (Assign.upd a (k+1) i) k ds (k+2) = up := by
      rw [withDigits_above k ds _ (k+2) (by omega), Assign.upd_other a i (by omega)]
      exact hup
    show _ = (evalEdge S (k+1) e (withDigits (Assign.upd a (k+1) i) k ds)).map
      (fun v => (i :: ds, v))
    rw [cofactorE_eval S k (some up) e _ (fun _ => by rw [hb2]), hb1, Option.map_map]
    rfl

end EDD

/-! ## Concrete instances (non-vacuity) -/

namespace EVEnumExamples
open EDD CanonExamples ApplyExamples EVApplyExamples

/-- `EVApplyExamples.aE` over `CanonExamples.SA` (positions 3, 2, 1 of sizes 2, 3, 2, fully
    reduced): root value 1, the shared `xE`, child 1 of position 3 skips position 2, an ∞ entry -/
def aE_list : List (List Nat × Int) :=
  [([0, 0, 0], 1), ([0, 0, 1], 3), ([0, 1, 0], 5), ([0, 1, 1], 2),
   ([1, 0, 0], 3), ([1, 0, 1], 5), ([1, 1, 0], 3), ([1, 1, 1], 5), ([1, 2, 0], 3), ([1, 2, 1], 5)]

/-- `EVApplyExamples.bI` over the identity-reduced `CanonExamples.SB` (positions 4, 2 unprimed,
    3, 1 primed): below `x₂ = 1` the `ident` position 3 is skipped (forced: `x₂' = 1`), the `ident`
    position 1 is skipped everywhere (forced: `x₁' = x₁`) -/
def bI_list : List (List Nat × Int) :=
  [([0, 1, 0, 0], 4), ([0, 1, 1, 1], 4), ([1, 1, 0, 0], 1), ([1, 1, 1, 1], 1)]

end EVEnumExamples

namespace EDD

/-! ## Property theorems -/

/-- The iterator of `dd_edge` on an EV+ edge visits, in lexicographic order of the assignments
    (top position most significant), exactly the assignments at which the function is finite
    (`evalEdge ≠ none`), each once, and reports the ACCUMULATED value there: the root edge value
    plus the edge values along the path = `evalEdge`.  `a` supplies the positions above `k`
    (only `a (k+1) = up` matters, at a skipped `ident` position `k`). -/
theorem enumerateE_spec (S : Shape) (k up : Nat) (e : Int × EDD) (a : Assign)
    (h : a (k+1) = up) :
    enumerateE S k up e = (lexAll S k).filterMap (fun ds =>
      (evalEdge S k e (withDigits a k ds)).map (fun v => (ds, v))) :=
  enumerateE_spec_aux S k up e a h

/-- Completeness and correctness of the values: a pair is visited iff it is an in-range digit
    list at which the function is finite, paired with the function's value. -/
theorem enumerateE_mem_iff (S : Shape) (k up : Nat) (e : Int × EDD) (a : Assign)
    (h : a (k+1) = up) (ds : List Nat) (v : Int) :
    (ds, v) ∈ enumerateE S k up e ↔
      ds ∈ lexAll S k ∧ evalEdge S k e (withDigits a k ds) = some v := by
  rw [enumerateE_spec S k up e a h, List.mem_filterMap]
  constructor
  · rintro ⟨x, hx, hy⟩
    cases hev : evalEdge S k e (withDigits a k x) with
    | none => rw [hev] at hy; cases hy
    | some w =>
      rw [hev] at hy
      simp only [Option.map_some, Option.some.injEq, Prod.mk.injEq] at hy
      obtain ⟨rfl, rfl⟩ := hy
      exact ⟨hx, hev⟩
  · rintro ⟨h1, h2⟩
    exact ⟨ds, h1, by rw [h2]; rfl⟩

/-- every reported value is the value of the function at the reported assignment -/
theorem enumerateE_value (S : Shape) (k up : Nat) (e : Int × EDD) (a : Assign)
    (h : a (k+1) = up) (r : List Nat × Int) (hr : r ∈ enumerateE S k up e) :
    evalEdge S k e (withDigits a k r.1) = some r.2 :=
  ((enumerateE_mem_iff S k up e a h r.1 r.2).mp hr).2

/-- The visited assignments are strictly increasing in lexicographic order. -/
theorem enumerateE_sorted (S : Shape) (k up : Nat) (e : Int × EDD) :
    (enumerateE S k up e).Pairwise (fun r1 r2 => lexLt r1.1 r2.1 = true) := by
  rw [enumerateE_spec S k up e (fun _ => up) rfl]
  refine List.Pairwise.filterMap _ ?_ (lexAll_pairwise S k)
  intro x y hxy b hb b' hb'
  cases h1 : evalEdge S k e (withDigits (fun _ => up) k x) with
  | none => rw [h1] at hb; cases hb
  | some v =>
    cases h2 : evalEdge S k e (withDigits (fun _ => up) k y) with
    | none => rw [h2] at hb'; cases hb'
    | some w =>
      rw [h1] at hb; rw [h2] at hb'
      cases hb; cases hb'
      exact hxy

/-- No assignment is visited twice. -/
theorem enumerateE_nodup (S : Shape) (k up : Nat) (e : Int × EDD) :
    ((enumerateE S k up e).map Prod.fst).Nodup := by
  rw [List.Nodup, List.pairwise_map]
  refine (enumerateE_sorted S k up e).imp ?_
  intro r1 r2 hlt heq
  rw [heq, lexLt_irrefl] at hlt
  cases hlt

/-- … hence the list of (assignment, value) pairs has no duplicates either. -/
theorem enumerateE_nodup' (S : Shape) (k up : Nat) (e : Int × EDD) :
    (enumerateE S k up e).Nodup := by
  refine (enumerateE_sorted S k up e).imp ?_
  intro r1 r2 hlt heq
  rw [heq, lexLt_irrefl] at hlt
  cases hlt

/-- The value reported for a visited assignment does not depend on how the edge spreads its
    values: two edges with the same denotation are enumerated identically. -/
theorem enumerateE_congr (S : Shape) (k up : Nat) (e1 e2 : Int × EDD)
    (h : ∀ x, evalEdge S k e1 x = evalEdge S k e2 x) :
    enumerateE S k up e1 = enumerateE S k up e2 := by
  rw [enumerateE_spec S k up e1 (fun _ => up) rfl, enumerateE_spec S k up e2 (fun _ => up) rfl]
  apply filterMap_congr'
  intro ds _
  rw [h]

/-- CARDINALITY of an EV+ edge = the number of assignments the iterator visits = the number of
    assignments with a finite value, for every reduction rule (primed positions of
    identity-reduced forests are not scaled; the edge values play no role).  The hypotheses say
    that a primed variable is at least as large as its unprimed partner. -/
theorem cardE_eq_length (S : Shape)
    (hS : ∀ p, S.mode p = .ident → S.size (p+1) ≤ S.size p) :
    ∀ (k up : Nat) (e : Int × EDD), (S.mode k = .ident → up < S.size k) →
      cardE S k e.2 = (enumerateE S k up e).length := by
  intro k
  induction k with
  | zero =>
    intro up e _
    obtain ⟨v, d⟩ := e
    cases d <;> rfl
  | succ k ih =>
    intro up e hup
    rw [cardE_succ, enumerateE_succ]
    by_cases hz : e.2 = .inf
    · rw [if_pos hz, if_pos hz]; rfl
    · rw [if_neg hz, if_neg hz]
      have hlow : ∀ i, i < S.size (k+1) → S.mode k = .ident → i < S.size k := by
        intro i hi hm
        have := hS k hm
        omega
      by_cases hn : e.2.isNodeAt (k+1) = true
      · rw [if_pos hn, if_pos hn, List.length_flatMap]
        congr 1
        apply List.map_congr_left
        intro i hi
        rw [List.length_map, ← childE_snd]
        exact ih i _ (hlow i (List.mem_range.mp hi))
      · rw [if_neg hn, if_neg hn]
        by_cases hid : S.mode (k+1) = .ident
        · rw [if_pos hid, if_pos hid, if_pos (hup hid), List.length_map]
          exact ih up e (hlow up (hup hid))
        · rw [if_neg hid, if_neg hid, List.length_flatMap]
          have : (List.range (S.size (k+1))).map (fun i =>
              ((enumerateE S k i e).map (fun r => (i :: r.1, r.2))).length)
              = (List.range (S.size (k+1))).map (fun _ => cardE S k e.2) := by
            apply List.map_congr_left
            intro i hi
            rw [List.length_map]
            exact (ih i e (hlow i (List.mem_range.mp hi))).symm
          rw [this, sum_map_const', List.length_range]

/-- CARDINALITY counts exactly the in-range digit lists with a finite value. -/
theorem cardE_eq_count (S : Shape)
    (hS : ∀ p, S.mode p = .ident → S.size (p+1) ≤ S.size p)
    (k up : Nat) (e : Int × EDD) (a : Assign) (h : a (k+1) = up)
    (hup : S.mode k = .ident → up < S.size k) :
    cardE S k e.2 =
      ((lexAll S k).filter (fun ds => (evalEdge S k e (withDigits a k ds)).isSome)).length := by
  rw [cardE_eq_length S hS k up e hup, enumerateE_spec S k up e a h]
  induction lexAll S k with
  | nil => rfl
  | cons ds l ih =>
    rw [List.filterMap_cons, List.filter_cons]
    cases evalEdge S k e (withDigits a k ds) with
    | none => exact ih
    | some v =>
      simp only [Option.map_some, Option.isSome_some, if_true, List.length_cons]
      rw [ih]

section Examples
open EVEnumExamples CanonExamples ApplyExamples EVApplyExamples

/-- 3 positions, sharing, non-zero values, an ∞ entry: `([0,2,_])` is not visited (∞), below
    `x₃ = 1` the skipped position 2 is expanded; values = 1 + path sums -/
example : enumerateE SA 3 0 aE = aE_list := by decide
example : cardE SA 3 aE.2 = 10 := by decide
/-- the negative root value of `bE` is accumulated too; the ∞ entry of `zE` is skipped -/
example : enumerateE SA 3 0 bE =
    [([0, 0, 0], 2), ([0, 0, 1], -1), ([0, 1, 0], -2), ([0, 2, 0], -2), ([0, 2, 1], 0),
     ([1, 0, 0], 2), ([1, 0, 1], 2), ([1, 1, 0], 2), ([1, 1, 1], 2), ([1, 2, 0], 2),
     ([1, 2, 1], 2)] := by decide
/-- identity-reduced relation: skipped `ident` positions are forced to the value above -/
example : enumerateE SB 4 0 bI = bI_list := by decide
example : cardE SB 4 bI.2 = 4 := by decide
/-- the identity relation with value 2: the diagonal -/
example : enumerateE SB 4 0 aI =
    [([0, 0, 0, 0], 2), ([0, 0, 1, 1], 2), ([1, 1, 0, 0], 2), ([1, 1, 1, 1], 2)] := by decide
/-- ∞ edge: nothing is visited, whatever the (stale) value -/
example : enumerateE SA 3 0 (5, .inf) = [] := by decide
/-- an un-normalised edge with the same denotation is enumerated identically -/
example : enumerateE SA 3 0 (0, .node 3 [(1, .node 2 [(0, xE), (1, yE), (5, .inf)]), (3, xE)])
    = aE_list := by decide
/-- the general theorems on the written-out list -/
example (ds : List Nat) (v : Int) :
    (ds, v) ∈ aE_list ↔ ds ∈ lexAll SA 3 ∧ evalEdge SA 3 aE (withDigits (fun _ => 0) 3 ds) = some v := by
  have h := enumerateE_mem_iff SA 3 0 aE (fun _ => 0) rfl ds v
  have e : enumerateE SA 3 0 aE = aE_list := by decide
  rw [e] at h
  exact h
example : (lexAll SA 3).length = 12 := by decide
example : aE_list.length = cardE SA 3 aE.2 := by decide

end Examples

end EDD

#print axioms EDD.enumerateE_cofactor
#print axioms EDD.enumerateE_spec
#print axioms EDD.enumerateE_mem_iff
#print axioms EDD.enumerateE_value
#print axioms EDD.enumerateE_sorted
#print axioms EDD.enumerateE_nodup
#print axioms EDD.enumerateE_nodup'
#print axioms EDD.enumerateE_congr
#print axioms EDD.cardE_eq_length
#print axioms EDD.cardE_eq_count

/- Output (Lean 4.33.0):
'Meddly.EDD.enumerateE_cofactor' depends on axioms: [propext, Classical.choice, Quot.sound]
'Meddly.EDD.enumerateE_spec' depends on axioms: [propext, Classical.choice, Quot.sound]
'Meddly.EDD.enumerateE_mem_iff' depends on axioms: [propext, Classical.choice, Quot.sound]
'Meddly.EDD.enumerateE_value' depends on axioms: [propext, Classical.choice, Quot.sound]
'Meddly.EDD.enumerateE_sorted' depends on axioms: [propext, Classical.choice, Quot.sound]
'Meddly.EDD.enumerateE_nodup' depends on axioms: [propext, Classical.choice, Quot.sound]
'Meddly.EDD.enumerateE_nodup'' depends on axioms: [propext, Classical.choice, Quot.sound]
'Meddly.EDD.enumerateE_congr' depends on axioms: [propext, Classical.choice, Quot.sound]
'Meddly.EDD.cardE_eq_length' depends on axioms: [propext, Quot.sound]
'Meddly.EDD.cardE_eq_count' depends on axioms: [propext, Classical.choice, Quot.sound]
-/

end Meddly
