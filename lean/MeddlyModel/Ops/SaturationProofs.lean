/-
  Correctness of the decision-diagram recursion of saturation (`Ops/Saturation.lean`).

  Semantics.  A state is a valid assignment; the event of top level `m+1` fires from `x` to `y`
  (`Fires m x y`) when `ev (m+1) (x (m+1)) (y (m+1))` relates the positions `1..m` of `x` and `y`
  and every position above `m+1` is unchanged; `StepLe k` is the union of the lifted events of
  level `≤ k`, `Reach k A` the valid states reachable from `A` by them.

  Structure of the proof.
    * one level (`section Level`): for ANY firing function `fire` of level `k` that meets the
      specification `FireSpec` (denotes the `≤ k`-saturated image), the loop of level `k+1`
        - keeps every child reduced and closed under the events below (`sweep_inv`),
        - only grows the children (`sweep_mono`) and contains every firing of the initial
          children (`sweep_contains`),
        - strictly grows the number of states in every sweep that changes a child — the
          children are reduced trees, so by canonicity (`canon_gen`) a changed tree is a
          changed set (`sweep_grows`) — hence stops by its own test within `numStates + 1`
          rounds at a fixed point of the sweep (`loop_fix`, `satLoop_fix`),
        - and therefore builds exactly the `≤ k+1`-reachable set of its initial children
          (`satLoop_spec`: soundness by an invariant `T`, completeness by fixed point + closure);
    * `recFire_spec`: by induction on the level, `recFire k` meets `FireSpec`;
    * `saturate_main`: by induction on the level (children first), `saturate k n` is reduced and
      denotes exactly `Reach k n`.
  Property theorems (end of file): `recFire_sound`, `recFire_closed`, `saturate_sound`,
  `saturate_closed`, `satLoop_stops`, `satur_eq_lfp`, `saturate_least`, `satur_eq_reachFix`,
  `satur_eq_reach_lfp`, `satur_eq_bfs_set`, `saturate_red`, `satur_eq_bfs`, `saturate_terminal`,
  `recFire_identity`.
  Nothing is left partial with respect to the model; the modelling boundary (semantic relation,
  round-based loop instead of the index queue, no compute tables, no level jump in `recFire`) is
  described in `Ops/Saturation.lean`.
-/
import MeddlyModel.Ops.Saturation
import MeddlyModel.Ops.Reach

namespace Meddly
namespace Satur
open DD

set_option linter.unusedSectionVars false
set_option linter.unusedVariables false

/-! ## Semantics: events, steps, reachability -/

section Sem
variable (S : Shape) (ev : Nat → Nat → Nat → Rel)

/-- the event of top level `m+1` fires from `x` to `y`: position `m+1` moves from
    `x (m+1)` to `y (m+1)`, the sub-relation `ev (m+1) _ _` holds on positions
    `1..m`, every position above `m+1` is unchanged. -/
def Fires (m : Nat) (x y : Assign) : Prop :=
  relAt m (ev (m+1) (x (m+1)) (y (m+1))) x y = true ∧ ∀ p, m+1 < p → x p = y p

/-- one step of some event of top level `≤ k` -/
def StepLe (k : Nat) (x y : Assign) : Prop := ∃ m, m < k ∧ Fires ev m x y

/-- the valid states reachable from the valid states of `A` by events of level `≤ k` -/
inductive Reach (k : Nat) (A : Assign → Prop) : Assign → Prop
  | base {x : Assign} : Assign.Valid S x → A x → Reach k A x
  | step {x y : Assign} : Reach k A x → Assign.Valid S y → StepLe ev k x y → Reach k A y

/-- image of `A` under the relation `r` read at positions `1..k` (identity above `k`) -/
def img (k : Nat) (r : Rel) (A : Assign → Prop) (y : Assign) : Prop :=
  ∃ x, Assign.Valid S x ∧ A x ∧ relAt k r x y = true ∧ ∀ p, k < p → x p = y p

/-- the set denoted by the tree `t` (read at position `k`) is closed under events of level `≤ k` -/
def ClosedT (k : Nat) (t : DD Bool) : Prop :=
  ∀ x y, Assign.Valid S x → Assign.Valid S y → eval S false k t x = true → StepLe ev k x y →
    eval S false k t y = true

end Sem

/-! ## Assignments: `trunc`, `upd`, `relAt` -/

theorem trunc_zero (x : Assign) : trunc 0 x = zeroA := by
  funext p
  unfold trunc zeroA
  have : ¬ (1 ≤ p ∧ p ≤ 0) := by omega
  rw [if_neg this]

theorem trunc_upd_above {m p : Nat} (h : m < p) (x : Assign) (v : Nat) :
    trunc m (Assign.upd x p v) = trunc m x := by
  funext q
  unfold trunc
  by_cases hq : 1 ≤ q ∧ q ≤ m
  · rw [if_pos hq, if_pos hq, Assign.upd_other x v (by omega)]
  · rw [if_neg hq, if_neg hq]

theorem trunc_succ (k : Nat) (x : Assign) :
    Assign.upd (trunc k x) (k+1) (x (k+1)) = trunc (k+1) x := by
  funext q
  unfold trunc
  by_cases hq : q = k+1
  · subst hq; rw [Assign.upd_same, if_pos (by omega)]
  · rw [Assign.upd_other _ _ hq]
    by_cases h1 : 1 ≤ q ∧ q ≤ k
    · rw [if_pos h1, if_pos (by omega)]
    · rw [if_neg h1, if_neg (by omega)]

theorem relAt_upd {m p : Nat} (h : m < p) (r : Rel) (x y : Assign) (v w : Nat) :
    relAt m r (Assign.upd x p v) (Assign.upd y p w) = relAt m r x y := by
  unfold relAt
  rw [trunc_upd_above h, trunc_upd_above h]

theorem relAt_upd_left {m p : Nat} (h : m < p) (r : Rel) (x y : Assign) (v : Nat) :
    relAt m r (Assign.upd x p v) y = relAt m r x y := by
  unfold relAt
  rw [trunc_upd_above h]

theorem relAt_succ (k : Nat) (r : Rel) (x y : Assign) :
    relAt (k+1) r x y = relAt k (sub r (k+1) (x (k+1)) (y (k+1))) x y := by
  unfold relAt sub
  rw [trunc_succ, trunc_succ]

theorem upd_self (y : Assign) (p : Nat) : Assign.upd y p (y p) = y := by
  funext q
  by_cases hq : q = p
  · subst hq; rw [Assign.upd_same]
  · rw [Assign.upd_other _ _ hq]

/-! ## Steps and reachability -/

section StepLemmas
variable {S : Shape} {ev : Nat → Nat → Nat → Rel}

theorem StepLe.mono {k k' : Nat} (h : k ≤ k') {x y : Assign} (hs : StepLe ev k x y) :
    StepLe ev k' x y := by
  obtain ⟨m, hm, hf⟩ := hs
  exact ⟨m, by omega, hf⟩

theorem StepLe.above {k : Nat} {x y : Assign} (hs : StepLe ev k x y) :
    ∀ p, k < p → x p = y p := by
  obtain ⟨m, hm, _, hf⟩ := hs
  intro p hp
  exact hf p (by omega)

theorem not_stepLe_zero {x y : Assign} : ¬ StepLe ev 0 x y := by
  rintro ⟨m, hm, _⟩
  omega

theorem Fires.upd {m p : Nat} (hp : m+1 < p) {x y : Assign} (v : Nat) (hf : Fires ev m x y) :
    Fires ev m (Assign.upd x p v) (Assign.upd y p v) := by
  obtain ⟨h1, h2⟩ := hf
  have hne : m+1 ≠ p := by omega
  refine ⟨?_, ?_⟩
  · rw [Assign.upd_other x v hne, Assign.upd_other y v hne, relAt_upd (by omega)]
    exact h1
  · intro q hq
    by_cases hqp : q = p
    · subst hqp; rw [Assign.upd_same, Assign.upd_same]
    · rw [Assign.upd_other _ _ hqp, Assign.upd_other _ _ hqp]; exact h2 q hq

theorem StepLe.upd {k : Nat} {x y : Assign} (v : Nat) (hs : StepLe ev k x y) :
    StepLe ev (k+1) (Assign.upd x (k+1) v) (Assign.upd y (k+1) v) := by
  obtain ⟨m, hm, hf⟩ := hs
  exact ⟨m, by omega, hf.upd (by omega) v⟩

theorem Reach.valid {k : Nat} {A : Assign → Prop} {y : Assign} (h : Reach S ev k A y) :
    Assign.Valid S y := by
  cases h with
  | base hv _ => exact hv
  | step _ hv _ => exact hv

/-- least-closed-superset principle -/
theorem Reach.induct {k : Nat} {A : Assign → Prop} (D : Assign → Prop)
    (hA : ∀ x, Assign.Valid S x → A x → D x)
    (hD : ∀ x y, Assign.Valid S x → Assign.Valid S y → D x → StepLe ev k x y → D y)
    {y : Assign} (h : Reach S ev k A y) : D y := by
  induction h with
  | base hv ha => exact hA _ hv ha
  | step hr hv hs ih => exact hD _ _ hr.valid hv ih hs

theorem Reach.mono_reach {k k' : Nat} (hk : k ≤ k') {A B : Assign → Prop}
    (hAB : ∀ x, Assign.Valid S x → A x → Reach S ev k' B x) {y : Assign}
    (h : Reach S ev k A y) : Reach S ev k' B y := by
  induction h with
  | base hv ha => exact hAB _ hv ha
  | step _ hv hs ih => exact .step ih hv (hs.mono hk)

theorem Reach.mono {k : Nat} {A B : Assign → Prop}
    (hAB : ∀ x, Assign.Valid S x → A x → B x) {y : Assign}
    (h : Reach S ev k A y) : Reach S ev k B y :=
  h.mono_reach (Nat.le_refl k) (fun x hv ha => .base hv (hAB x hv ha))

theorem Reach_zero {A : Assign → Prop} {y : Assign} :
    Reach S ev 0 A y ↔ Assign.Valid S y ∧ A y := by
  constructor
  · intro h
    cases h with
    | base hv ha => exact ⟨hv, ha⟩
    | step _ _ hs => exact absurd hs not_stepLe_zero
  · rintro ⟨hv, ha⟩; exact .base hv ha

theorem Reach_empty {k : Nat} {A : Assign → Prop} (hA : ∀ x, ¬ A x) {y : Assign} :
    ¬ Reach S ev k A y := by
  intro h
  induction h with
  | base _ ha => exact hA _ ha
  | step _ _ _ ih => exact ih

/-- a path that stays below position `k+1` keeps position `k+1` -/
theorem Reach.lift {k : Nat} {A B : Assign → Prop} (j : Nat)
    (hAB : ∀ x, Assign.Valid S x → A x → x (k+1) = j → Reach S ev (k+1) B x) {y : Assign}
    (h : Reach S ev k A y) : y (k+1) = j → Reach S ev (k+1) B y := by
  induction h with
  | base hv ha => exact hAB _ hv ha
  | step _ hv hs ih =>
    intro hj
    refine .step (ih ?_) hv (hs.mono (Nat.le_succ k))
    rw [hs.above (k+1) (Nat.lt_succ_self k)]; exact hj

end StepLemmas

/-! ## Trees: `eval`, `cofactor`, `mkNode`, union at a level (all positions fully reduced) -/

section Trees
variable {S : Shape}

theorem not_ident (hred : ∀ p, S.mode p = .red) (p : Nat) : S.mode p ≠ .ident := by
  rw [hred p]; intro h; cases h

/-- `eval … k` reads positions `1..k` only -/
theorem eval_congr_pos (hred : ∀ p, S.mode p = .red) :
    ∀ (k : Nat) (d : DD Bool) (a a' : Assign), (∀ p, 1 ≤ p → p ≤ k → a p = a' p) →
      eval S false k d a = eval S false k d a' := by
  intro k
  induction k with
  | zero => intro d a a' _; cases d <;> rfl
  | succ k ih =>
    intro d a a' h
    have hk1 : a (k+1) = a' (k+1) := h (k+1) (by omega) (Nat.le_refl _)
    have hlow : ∀ p, 1 ≤ p → p ≤ k → a p = a' p := fun p h1 h2 => h p h1 (by omega)
    rcases storedAt_cases (k+1) d with ⟨cs, rfl⟩ | hd
    · rw [eval_succ_node, eval_succ_node, hk1]; exact ih _ a a' hlow
    · have e1 : ¬ (S.mode (k+1) = .ident ∧ a (k+1) ≠ a (k+2)) := fun h => not_ident hred _ h.1
      have e2 : ¬ (S.mode (k+1) = .ident ∧ a' (k+1) ≠ a' (k+2)) := fun h => not_ident hred _ h.1
      rw [eval_succ_skip S false k a hd, eval_succ_skip S false k a' hd, if_neg e1, if_neg e2]
      exact ih d a a' hlow

theorem eval_upd_above (hred : ∀ p, S.mode p = .red) {k p : Nat} (hp : k < p) (d : DD Bool)
    (x : Assign) (v : Nat) : eval S false k d (Assign.upd x p v) = eval S false k d x :=
  eval_congr_pos hred k d _ _ (fun q _ hq => Assign.upd_other x v (by omega))

theorem eval_trunc (hred : ∀ p, S.mode p = .red) (k : Nat) (d : DD Bool) (x : Assign) :
    eval S false k d (trunc k x) = eval S false k d x :=
  eval_congr_pos hred k d _ _ (fun q h1 h2 => by unfold trunc; rw [if_pos ⟨h1, h2⟩])

theorem cofactor_eval' (hred : ∀ p, S.mode p = .red) (k : Nat) (d : DD Bool) (x : Assign) :
    eval S false (k+1) d x = eval S false k (cofactor S false (k+1) none d (x (k+1))) x :=
  cofactor_eval S false k none d x (fun h => absurd h (not_ident hred _))

theorem unionAt_eval (hred : ∀ p, S.mode p = .red) {k : Nat} (hk : k ≤ S.top) (a b : DD Bool)
    {x : Assign} (hx : Assign.Valid S x) :
    eval S false k (unionAt S k a b) x = (eval S false k a x || eval S false k b x) :=
  apply2_eval S S S false false false _ k none a b x hk hx
    (fun h => absurd h (not_ident hred _)) (fun h => absurd h (not_ident hred _))
    (fun h => absurd h (not_ident hred _))

theorem unionAt_red (hS : S.WF) (hred : ∀ p, S.mode p = .red) (k : Nat) (fi : Option Nat)
    (a b : DD Bool) : Red S false k fi (unionAt S k a b) = true := by
  rw [Red_fi_irrel S false k fi none _ (not_ident hred k)]
  exact apply2_red S S S false false false _ hS k none a b (fun _ => not_ident hred k)

theorem eval_bot (k : Nat) (x : Assign) : eval S false k bot x = false :=
  eval_leaf_zero S false k x

theorem red_bot (k : Nat) (fi : Option Nat) : Red S false k fi bot = true :=
  Red_leaf_zero S false k fi

theorem red_leaf (hred : ∀ p, S.mode p = .red) (v : Bool) :
    ∀ (k : Nat) (fi : Option Nat), Red S false k fi (.leaf v) = true := by
  intro k
  induction k with
  | zero => intro _; rfl
  | succ k ih =>
    intro fi
    rw [Red, Bool.and_eq_true]
    refine ⟨?_, ih none⟩
    unfold edgeOK
    rw [hred]

theorem eval_leaf (hred : ∀ p, S.mode p = .red) (v : Bool) (x : Assign) :
    ∀ k, eval S false k (.leaf v) x = v := by
  intro k
  induction k with
  | zero => rfl
  | succ k ih =>
    have e : ¬ (S.mode (k+1) = .ident ∧ x (k+1) ≠ x (k+2)) := fun h => not_ident hred _ h.1
    rw [eval_succ_skip S false k x rfl, if_neg e]; exact ih

end Trees

/-! ## Lists of children: `addTo`, folds over index pairs, the stop-test loop -/

section Lists
variable {S : Shape}

theorem addTo_length (k : Nat) (cs : List (DD Bool)) (j : Nat) (t : DD Bool) :
    (addTo S k cs j t).length = cs.length := List.length_set

theorem addTo_getD (k : Nat) (cs : List (DD Bool)) (j j' : Nat) (t : DD Bool) :
    (addTo S k cs j t).getD j' bot =
      if j' = j ∧ j < cs.length then unionAt S k (cs.getD j bot) t else cs.getD j' bot := by
  unfold addTo
  rw [List.getD_eq_getElem?_getD, List.getElem?_set]
  by_cases h : j = j'
  · subst h
    by_cases hl : j < cs.length
    · rw [if_pos rfl, if_pos hl, if_pos ⟨rfl, hl⟩]; rfl
    · rw [if_pos rfl, if_neg hl, if_neg (fun h => hl h.2), List.getD_eq_getElem?_getD,
        List.getElem?_eq_none (by omega)]
  · rw [if_neg h, if_neg (fun h' => h h'.1.symm), List.getD_eq_getElem?_getD]

theorem mem_pairs {n : Nat} {p : Nat × Nat} : p ∈ pairs n ↔ p.1 < n ∧ p.2 < n := by
  unfold pairs
  rw [List.mem_flatMap]
  constructor
  · rintro ⟨i, hi, hp⟩
    obtain ⟨j, hj, rfl⟩ := List.mem_map.mp hp
    exact ⟨List.mem_range.mp hi, List.mem_range.mp hj⟩
  · rintro ⟨h1, h2⟩
    exact ⟨p.1, List.mem_range.mpr h1, List.mem_map.mpr ⟨p.2, List.mem_range.mpr h2, rfl⟩⟩

/-- a list of `n` children, child `j` satisfying `P j` -/
def AllP (n : Nat) (P : Nat → DD Bool → Prop) (cs : List (DD Bool)) : Prop :=
  cs.length = n ∧ ∀ j, j < n → P j (cs.getD j bot)

theorem fold_inv (k n : Nat) (P : Nat → DD Bool → Prop)
    (g : List (DD Bool) → Nat × Nat → DD Bool) (L : List (Nat × Nat))
    (hstep : ∀ cs p, p ∈ L → AllP n P cs → p.2 < n →
      P p.2 (unionAt S k (cs.getD p.2 bot) (g cs p))) :
    ∀ cs, AllP n P cs → AllP n P (L.foldl (fun cs p => addTo S k cs p.2 (g cs p)) cs) := by
  induction L with
  | nil => intro cs h; exact h
  | cons q L ih =>
    intro cs h
    rw [List.foldl_cons]
    apply ih (fun cs p hp => hstep cs p (List.mem_cons_of_mem _ hp))
    refine ⟨by rw [addTo_length]; exact h.1, ?_⟩
    intro j hj
    rw [addTo_getD]
    by_cases hc : j = q.2 ∧ q.2 < cs.length
    · rw [if_pos hc, hc.1]
      exact hstep cs q List.mem_cons_self h (by rw [← hc.1]; exact hj)
    · rw [if_neg hc]; exact h.2 j hj

theorem fold_mono (hred : ∀ p, S.mode p = .red) {k : Nat} (hk : k ≤ S.top)
    (g : List (DD Bool) → Nat × Nat → DD Bool) (L : List (Nat × Nat)) :
    ∀ (cs : List (DD Bool)) (j : Nat) (x : Assign), Assign.Valid S x →
      eval S false k (cs.getD j bot) x = true →
      eval S false k ((L.foldl (fun cs p => addTo S k cs p.2 (g cs p)) cs).getD j bot) x = true := by
  induction L with
  | nil => intro cs j x _ h; exact h
  | cons q L ih =>
    intro cs j x hx h
    rw [List.foldl_cons]
    apply ih _ j x hx
    rw [addTo_getD]
    by_cases hc : j = q.2 ∧ q.2 < cs.length
    · rw [if_pos hc, unionAt_eval hred hk _ _ hx, ← hc.1, h]; rfl
    · rw [if_neg hc]; exact h

/-- semantic order on lists of children -/
def LeL (S : Shape) (k : Nat) (cs cs' : List (DD Bool)) : Prop :=
  ∀ j x, Assign.Valid S x → eval S false k (cs.getD j bot) x = true →
    eval S false k (cs'.getD j bot) x = true

theorem addTo_le (hred : ∀ p, S.mode p = .red) {k : Nat} (hk : k ≤ S.top)
    (cs : List (DD Bool)) (j : Nat) (t : DD Bool) : LeL S k cs (addTo S k cs j t) := by
  intro j' x hx h
  rw [addTo_getD]
  by_cases hc : j' = j ∧ j < cs.length
  · rw [if_pos hc, unionAt_eval hred hk _ _ hx, ← hc.1, h]; rfl
  · rw [if_neg hc]; exact h

theorem fold_contains (hred : ∀ p, S.mode p = .red) {k : Nat} (hk : k ≤ S.top) (n : Nat)
    (g : List (DD Bool) → Nat × Nat → DD Bool)
    (gmono : ∀ cs cs' p x, LeL S k cs cs' → Assign.Valid S x →
      eval S false k (g cs p) x = true → eval S false k (g cs' p) x = true)
    (L : List (Nat × Nat)) :
    ∀ (cs : List (DD Bool)), cs.length = n → ∀ p, p ∈ L → p.2 < n → ∀ x, Assign.Valid S x →
      eval S false k (g cs p) x = true →
      eval S false k ((L.foldl (fun cs p => addTo S k cs p.2 (g cs p)) cs).getD p.2 bot) x = true := by
  induction L with
  | nil => intro cs _ p hp; cases hp
  | cons q L ih =>
    intro cs hlen p hp hpn x hx h
    rw [List.foldl_cons]
    rcases List.mem_cons.mp hp with rfl | hpL
    · apply fold_mono hred hk g L _ _ x hx
      rw [addTo_getD, if_pos ⟨rfl, by rw [hlen]; exact hpn⟩, unionAt_eval hred hk _ _ hx, h,
        Bool.or_true]
    · apply ih _ (by rw [addTo_length]; exact hlen) p hpL hpn x hx
      exact gmono cs _ p x (addTo_le hred hk cs _ _) hx h

theorem loop_inv (f : List (DD Bool) → List (DD Bool)) (I : List (DD Bool) → Prop)
    (hf : ∀ cs, I cs → I (f cs)) : ∀ n cs, I cs → I (loop f n cs) := by
  intro n
  induction n with
  | zero => intro cs h; exact h
  | succ n ih =>
    intro cs h
    unfold loop
    split
    · exact h
    · exact ih _ (hf cs h)

/-- the loop stops by its own test when a bounded measure grows in every non-final round -/
theorem loop_fix (f : List (DD Bool) → List (DD Bool)) (μ : List (DD Bool) → Nat) (N : Nat)
    (I : List (DD Bool) → Prop) (hf : ∀ cs, I cs → I (f cs)) (hB : ∀ cs, I cs → μ cs ≤ N)
    (hG : ∀ cs, I cs → f cs ≠ cs → μ cs < μ (f cs)) :
    ∀ n cs, I cs → N < n + μ cs → f (loop f n cs) = loop f n cs := by
  intro n
  induction n with
  | zero =>
    intro cs h hn
    have := hB cs h
    omega
  | succ n ih =>
    intro cs h hn
    unfold loop
    by_cases he : f cs = cs
    · rw [if_pos he]; exact he
    · rw [if_neg he]
      have := hG cs h he
      exact ih _ (hf cs h) (by omega)

end Lists

/-! ## Counting states -/

section Count
variable {S : Shape}

theorem enum_spec (hS : S.WF) : ∀ k, k ≤ S.top → ∀ x, x ∈ enum S k →
    Assign.Valid S x ∧ ∀ p, k < p → x p = 0 := by
  intro k
  induction k with
  | zero =>
    intro _ x hx
    have : x = zeroA := by simpa [enum] using hx
    subst this
    exact ⟨Assign.valid_const_zero hS, fun _ _ => rfl⟩
  | succ k ih =>
    intro hk x hx
    obtain ⟨i, hi, hx⟩ := List.mem_flatMap.mp hx
    obtain ⟨x0, hx0, rfl⟩ := List.mem_map.mp hx
    obtain ⟨hv, hz⟩ := ih (by omega) x0 hx0
    refine ⟨hv.upd (List.mem_range.mp hi), ?_⟩
    intro p hp
    rw [Assign.upd_other _ _ (by omega)]
    exact hz p (by omega)

theorem mem_enum {a : Assign} (ha : Assign.Valid S a) : ∀ k, k ≤ S.top → trunc k a ∈ enum S k := by
  intro k
  induction k with
  | zero => intro _; rw [trunc_zero]; simp [enum]
  | succ k ih =>
    intro hk
    rw [← trunc_succ]
    exact List.mem_flatMap.mpr ⟨a (k+1), List.mem_range.mpr (ha (k+1) (by omega) hk),
      List.mem_map.mpr ⟨trunc k a, ih (by omega), rfl⟩⟩

theorem length_flatMap_const {α β : Type} (c : Nat) (f : α → List β) :
    ∀ (l : List α), (∀ a, a ∈ l → (f a).length = c) → (l.flatMap f).length = l.length * c := by
  intro l
  induction l with
  | nil => intro _; simp
  | cons a l ih =>
    intro h
    rw [List.flatMap_cons, List.length_append, h a List.mem_cons_self,
      ih (fun b hb => h b (List.mem_cons_of_mem _ hb)), List.length_cons, Nat.succ_mul, Nat.add_comm]

theorem enum_length : ∀ k, (enum S k).length = numStates S k := by
  intro k
  induction k with
  | zero => rfl
  | succ k ih =>
    show (List.flatMap _ _).length = S.size (k+1) * numStates S k
    rw [length_flatMap_const (numStates S k) _ _ (fun i _ => by rw [List.length_map, ih]),
      List.length_range]

theorem filter_length_le' {α : Type} {p q : α → Bool} : ∀ (l : List α),
    (∀ x, x ∈ l → p x = true → q x = true) → (l.filter p).length ≤ (l.filter q).length := by
  intro l
  induction l with
  | nil => intro _; exact Nat.le_refl _
  | cons a l ih =>
    intro hsub
    have h' := ih (fun x hx => hsub x (List.mem_cons_of_mem _ hx))
    have ha := hsub a List.mem_cons_self
    rw [List.filter_cons, List.filter_cons]
    cases hp : p a with
    | true => rw [ha hp]; simp only [if_true, List.length_cons]; omega
    | false =>
      cases hq : q a with
      | true => simp only [if_true, List.length_cons, Bool.false_eq_true, if_false]; omega
      | false => simp only [Bool.false_eq_true, if_false]; exact h'

theorem filter_length_lt' {α : Type} {p q : α → Bool} : ∀ (l : List α),
    (∀ x, x ∈ l → p x = true → q x = true) →
    (∃ x, x ∈ l ∧ q x = true ∧ p x = false) →
    (l.filter p).length < (l.filter q).length := by
  intro l
  induction l with
  | nil => rintro _ ⟨x, hx, _⟩; cases hx
  | cons a l ih =>
    intro hsub hne
    have hsub' : ∀ x, x ∈ l → p x = true → q x = true :=
      fun x hx => hsub x (List.mem_cons_of_mem _ hx)
    have hle := filter_length_le' l hsub'
    have ha := hsub a List.mem_cons_self
    obtain ⟨x, hx, hqx, hpx⟩ := hne
    rw [List.filter_cons, List.filter_cons]
    rcases List.mem_cons.mp hx with rfl | hxl
    · rw [hqx, hpx]
      simp only [if_true, List.length_cons, Bool.false_eq_true, if_false]; omega
    · have hlt := ih hsub' ⟨x, hxl, hqx, hpx⟩
      cases hp : p a with
      | true => rw [ha hp]; simp only [if_true, List.length_cons]; omega
      | false =>
        cases hq : q a with
        | true => simp only [if_true, List.length_cons, Bool.false_eq_true, if_false]; omega
        | false => simp only [Bool.false_eq_true, if_false]; exact hlt

end Count

/-! ## One level: the sweep of `saturateHelper` and its stop-test loop -/

section Level
variable {S : Shape} {ev : Nat → Nat → Nat → Rel}

/-- specification of the firing function of level `k` used by the loop of level `k+1`:
    `fire n r` denotes the `≤ k`-saturated image of `n` under `r` -/
def FireSpec (S : Shape) (ev : Nat → Nat → Nat → Rel) (k : Nat)
    (fire : DD Bool → Rel → DD Bool) : Prop :=
  ∀ n r y, Assign.Valid S y →
    (eval S false k (fire n r) y = true ↔
      Reach S ev k (img S k r (fun x => eval S false k n x = true)) y)

theorem FireSpec.mono {k : Nat} {fire : DD Bool → Rel → DD Bool} (hf : FireSpec S ev k fire)
    {n n' : DD Bool}
    (h : ∀ x, Assign.Valid S x → eval S false k n x = true → eval S false k n' x = true)
    (r : Rel) {y : Assign} (hy : Assign.Valid S y) :
    eval S false k (fire n r) y = true → eval S false k (fire n' r) y = true := by
  intro h1
  rw [hf n' r y hy]
  refine ((hf n r y hy).mp h1).mono ?_
  rintro x hx ⟨x0, hx0, ha, hr, hu⟩
  exact ⟨x0, hx0, h x0 hx0 ha, hr, hu⟩

theorem FireSpec.closed {k : Nat} {fire : DD Bool → Rel → DD Bool} (hf : FireSpec S ev k fire)
    (n : DD Bool) (r : Rel) : ClosedT S ev k (fire n r) := by
  intro x y hx hy h hs
  rw [hf n r y hy]
  exact .step ((hf n r x hx).mp h) hy hs

theorem closedT_union (hred : ∀ p, S.mode p = .red) {k : Nat} (hk : k ≤ S.top) {a b : DD Bool}
    (ha : ClosedT S ev k a) (hb : ClosedT S ev k b) : ClosedT S ev k (unionAt S k a b) := by
  intro x y hx hy h hs
  rw [unionAt_eval hred hk _ _ hx, Bool.or_eq_true] at h
  rw [unionAt_eval hred hk _ _ hy, Bool.or_eq_true]
  rcases h with h | h
  · exact Or.inl (ha x y hx hy h hs)
  · exact Or.inr (hb x y hx hy h hs)

theorem closedT_bot (k : Nat) : ClosedT S ev k bot := by
  intro x y _ _ h _
  rw [eval_bot] at h; cases h

/-- invariant of child `j` of the node under construction: reduced, closed under the events
    of the levels below, inside the target set `T j` -/
def ChildP (S : Shape) (ev : Nat → Nat → Nat → Rel) (k : Nat) (T : Nat → Assign → Prop)
    (j : Nat) (t : DD Bool) : Prop :=
  Red S false k none t = true ∧ ClosedT S ev k t ∧
    ∀ x, Assign.Valid S x → eval S false k t x = true → T j x

theorem sweep_inv (hS : S.WF) (hred : ∀ p, S.mode p = .red) {k : Nat} (hk : k+1 ≤ S.top)
    {fire : DD Bool → Rel → DD Bool} (hf : FireSpec S ev k fire) (T : Nat → Assign → Prop)
    (hT : ∀ i j, i < S.size (k+1) → j < S.size (k+1) → ∀ n,
      (∀ x, Assign.Valid S x → eval S false k n x = true → T i x) →
      ∀ y, Assign.Valid S y → eval S false k (fire n (ev (k+1) i j)) y = true → T j y)
    (cs : List (DD Bool)) (h : AllP (S.size (k+1)) (ChildP S ev k T) cs) :
    AllP (S.size (k+1)) (ChildP S ev k T) (sweep S ev fire k cs) := by
  unfold sweep
  apply fold_inv k _ _ (fun cs p => fire (cs.getD p.1 bot) (ev (k+1) p.1 p.2)) _ _ cs h
  intro cs p hp hc hp2
  obtain ⟨hp1, _⟩ := mem_pairs.mp hp
  obtain ⟨hr, hcl, ht⟩ := hc.2 p.2 hp2
  refine ⟨unionAt_red hS hred k none _ _, closedT_union hred (by omega) hcl (hf.closed _ _), ?_⟩
  intro x hx he
  rw [unionAt_eval hred (by omega) _ _ hx, Bool.or_eq_true] at he
  rcases he with he | he
  · exact ht x hx he
  · exact hT p.1 p.2 hp1 hp2 _ (hc.2 p.1 hp1).2.2 x hx he

theorem sweep_mono (hred : ∀ p, S.mode p = .red) {k : Nat} (hk : k+1 ≤ S.top)
    (fire : DD Bool → Rel → DD Bool) (cs : List (DD Bool)) :
    LeL S k cs (sweep S ev fire k cs) := by
  intro j x hx h
  exact fold_mono hred (by omega) _ _ cs j x hx h

theorem sweep_contains (hred : ∀ p, S.mode p = .red) {k : Nat} (hk : k+1 ≤ S.top)
    {fire : DD Bool → Rel → DD Bool} (hf : FireSpec S ev k fire) (cs : List (DD Bool))
    (hlen : cs.length = S.size (k+1)) {i j : Nat} (hi : i < S.size (k+1)) (hj : j < S.size (k+1))
    {y : Assign} (hy : Assign.Valid S y)
    (h : eval S false k (fire (cs.getD i bot) (ev (k+1) i j)) y = true) :
    eval S false k ((sweep S ev fire k cs).getD j bot) y = true := by
  have := fold_contains hred (k := k) (by omega) (S.size (k+1))
    (fun cs p => fire (cs.getD p.1 bot) (ev (k+1) p.1 p.2))
    (fun cs cs' p x hle hx he => hf.mono (fun z hz => hle p.1 z hz) _ hx he)
    (pairs (S.size (k+1))) cs hlen (i, j) (mem_pairs.mpr ⟨hi, hj⟩) hj y hy h
  exact this

/-- the measure: number of states of level `k+1` in the node with children `cs` -/
def mu (S : Shape) (k : Nat) (cs : List (DD Bool)) : Nat :=
  ((enum S (k+1)).filter (fun x => eval S false k (cs.getD (x (k+1)) bot) x)).length

theorem mu_le (k : Nat) (cs : List (DD Bool)) : mu S k cs ≤ numStates S (k+1) := by
  unfold mu
  rw [← enum_length]
  exact List.length_filter_le _ _

/-- canonicity at work: a sweep that changes some child (as a tree) adds a state -/
theorem sweep_grows (hS : S.WF) (hred : ∀ p, S.mode p = .red) {k : Nat} (hk : k+1 ≤ S.top)
    {fire : DD Bool → Rel → DD Bool} (hf : FireSpec S ev k fire)
    (cs : List (DD Bool)) (h : AllP (S.size (k+1)) (ChildP S ev k (fun _ _ => True)) cs)
    (hne : sweep S ev fire k cs ≠ cs) : mu S k cs < mu S k (sweep S ev fire k cs) := by
  have h' := sweep_inv hS hred hk hf (fun _ _ => True) (fun _ _ _ _ _ _ _ _ _ => trivial) cs h
  have hmono := sweep_mono (ev := ev) hred hk fire cs
  by_cases hex : ∃ j a, j < S.size (k+1) ∧ Assign.Valid S a ∧
      eval S false k ((sweep S ev fire k cs).getD j bot) a = true ∧
      eval S false k (cs.getD j bot) a = false
  · obtain ⟨j, a, hj, ha, h1, h2⟩ := hex
    unfold mu
    apply filter_length_lt' (enum S (k+1))
    · intro x hx hp
      exact hmono _ x (enum_spec hS (k+1) hk x hx).1 hp
    · refine ⟨Assign.upd (trunc k a) (k+1) j, ?_, ?_, ?_⟩
      · exact List.mem_flatMap.mpr ⟨j, List.mem_range.mpr hj,
          List.mem_map.mpr ⟨trunc k a, mem_enum ha k (by omega), rfl⟩⟩
      · show eval S false k ((sweep S ev fire k cs).getD (Assign.upd (trunc k a) (k+1) j (k+1)) bot)
            (Assign.upd (trunc k a) (k+1) j) = true
        rw [Assign.upd_same, eval_upd_above hred (Nat.lt_succ_self k), eval_trunc hred]; exact h1
      · show eval S false k (cs.getD (Assign.upd (trunc k a) (k+1) j (k+1)) bot)
            (Assign.upd (trunc k a) (k+1) j) = false
        rw [Assign.upd_same, eval_upd_above hred (Nat.lt_succ_self k), eval_trunc hred]; exact h2
  · exfalso
    apply hne
    apply list_ext_getD _ _ bot (by rw [h'.1, h.1])
    intro j hj
    rw [h'.1] at hj
    apply canon_gen S false hS k (by omega) none _ _ (fun i hi => nomatch hi)
      (h'.2 j hj).1 (h.2 j hj).1
    intro a ha _
    cases h2 : eval S false k (cs.getD j bot) a with
    | true => exact hmono j a ha h2
    | false =>
      cases h1 : eval S false k ((sweep S ev fire k cs).getD j bot) a with
      | false => rfl
      | true => exact absurd ⟨j, a, hj, ha, h1, h2⟩ hex

theorem satLoop_inv (hS : S.WF) (hred : ∀ p, S.mode p = .red) {k : Nat} (hk : k+1 ≤ S.top)
    {fire : DD Bool → Rel → DD Bool} (hf : FireSpec S ev k fire) (T : Nat → Assign → Prop)
    (hT : ∀ i j, i < S.size (k+1) → j < S.size (k+1) → ∀ n,
      (∀ x, Assign.Valid S x → eval S false k n x = true → T i x) →
      ∀ y, Assign.Valid S y → eval S false k (fire n (ev (k+1) i j)) y = true → T j y)
    (cs : List (DD Bool)) (h : AllP (S.size (k+1)) (ChildP S ev k T) cs) :
    AllP (S.size (k+1)) (ChildP S ev k T) (satLoop S ev fire k cs) :=
  loop_inv _ _ (sweep_inv hS hred hk hf T hT) _ cs h

theorem satLoop_mono (hred : ∀ p, S.mode p = .red) {k : Nat} (hk : k+1 ≤ S.top)
    (fire : DD Bool → Rel → DD Bool) (cs : List (DD Bool)) :
    LeL S k cs (satLoop S ev fire k cs) :=
  loop_inv _ (fun cs' => LeL S k cs cs')
    (fun cs' h j x hx he => sweep_mono hred hk fire cs' j x hx (h j x hx he)) _ cs
    (fun j x hx he => he)

/-- the loop of `saturateHelper` stops by its own test: its result is a fixed point of the sweep -/
theorem satLoop_fix (hS : S.WF) (hred : ∀ p, S.mode p = .red) {k : Nat} (hk : k+1 ≤ S.top)
    {fire : DD Bool → Rel → DD Bool} (hf : FireSpec S ev k fire)
    (cs : List (DD Bool)) (h : AllP (S.size (k+1)) (ChildP S ev k (fun _ _ => True)) cs) :
    sweep S ev fire k (satLoop S ev fire k cs) = satLoop S ev fire k cs := by
  unfold satLoop
  apply loop_fix _ (mu S k) (numStates S (k+1)) _
    (sweep_inv hS hred hk hf (fun _ _ => True) (fun _ _ _ _ _ _ _ _ _ => trivial))
    (fun cs _ => mu_le k cs) (fun cs hc hne => sweep_grows hS hred hk hf cs hc hne) _ cs h
  omega

theorem mem_getD {cs : List (DD Bool)} {c : DD Bool} (h : c ∈ cs) :
    ∃ j, j < cs.length ∧ cs.getD j bot = c := by
  obtain ⟨j, hj, rfl⟩ := List.getElem_of_mem h
  exact ⟨j, hj, by simp [List.getD_eq_getElem?_getD, hj]⟩

theorem node_eval (hred : ∀ p, S.mode p = .red) {k : Nat} (hk : k+1 ≤ S.top)
    (T : Nat → Assign → Prop) (cs : List (DD Bool))
    (h : AllP (S.size (k+1)) (ChildP S ev k T) cs) {y : Assign} (hy : Assign.Valid S y) :
    eval S false (k+1) (mkNode S false (k+1) none cs) y
      = eval S false k (cs.getD (y (k+1)) bot) y := by
  apply mkNode_eval S false k none cs y hk h.1 hy
  · intro c hc
    obtain ⟨j, hj, rfl⟩ := mem_getD hc
    exact (Red_WFTree S false k none _ (h.2 j (by rw [← h.1]; exact hj)).1).1
  · intro hm; exact absurd hm (not_ident hred _)

theorem node_red (hS : S.WF) (hred : ∀ p, S.mode p = .red) {k : Nat}
    (T : Nat → Assign → Prop) (cs : List (DD Bool))
    (h : AllP (S.size (k+1)) (ChildP S ev k T) cs) (fi : Option Nat) :
    Red S false (k+1) fi (mkNode S false (k+1) none cs) = true := by
  rw [Red_fi_irrel S false (k+1) fi none _ (not_ident hred _)]
  apply mkNode_red S false hS k none cs h.1
  · intro i hi
    rw [Red_fi_irrel S false k (some i) none _ (not_ident hred _)]
    exact (h.2 i (by rw [← h.1]; exact hi)).1
  · intro _; exact not_ident hred _

/-- The node built by the loop of level `k+1` from children that are closed under the events
    of the levels below denotes exactly the states reachable, by events of level `≤ k+1`,
    from the states of the initial children. -/
theorem satLoop_spec (hS : S.WF) (hred : ∀ p, S.mode p = .red) {k : Nat} (hk : k+1 ≤ S.top)
    {fire : DD Bool → Rel → DD Bool} (hf : FireSpec S ev k fire) (cs0 : List (DD Bool))
    (h0 : AllP (S.size (k+1)) (ChildP S ev k (fun _ _ => True)) cs0)
    {y : Assign} (hy : Assign.Valid S y) :
    eval S false (k+1) (mkNode S false (k+1) none (satLoop S ev fire k cs0)) y = true ↔
      Reach S ev (k+1) (fun x => eval S false k (cs0.getD (x (k+1)) bot) x = true) y := by
  have hT : ∀ i j, i < S.size (k+1) → j < S.size (k+1) → ∀ n,
      (∀ x, Assign.Valid S x → eval S false k n x = true →
        Reach S ev (k+1) (fun x => eval S false k (cs0.getD (x (k+1)) bot) x = true)
          (Assign.upd x (k+1) i)) →
      ∀ y, Assign.Valid S y → eval S false k (fire n (ev (k+1) i j)) y = true →
        Reach S ev (k+1) (fun x => eval S false k (cs0.getD (x (k+1)) bot) x = true)
          (Assign.upd y (k+1) j) := by
    intro i j hi hj n hn y hy he
    have hr := (hf n _ y hy).mp he
    refine Reach.induct (fun y => Reach S ev (k+1)
      (fun x => eval S false k (cs0.getD (x (k+1)) bot) x = true) (Assign.upd y (k+1) j)) ?_ ?_ hr
    · rintro y hy ⟨x, hx, hnx, hrel, hup⟩
      refine .step (hn x hx hnx) (hy.upd hj) ⟨k, Nat.lt_succ_self k, ?_, ?_⟩
      · rw [Assign.upd_same, Assign.upd_same, relAt_upd (Nat.lt_succ_self k)]; exact hrel
      · intro p hp
        rw [Assign.upd_other _ _ (by omega), Assign.upd_other _ _ (by omega)]
        exact hup p (by omega)
    · intro x y hx hy hTx hs
      exact .step hTx (hy.upd hj) (hs.upd j)
  have h0T : AllP (S.size (k+1)) (ChildP S ev k (fun j x => Reach S ev (k+1)
      (fun x => eval S false k (cs0.getD (x (k+1)) bot) x = true) (Assign.upd x (k+1) j))) cs0 := by
    refine ⟨h0.1, fun j hj => ⟨(h0.2 j hj).1, (h0.2 j hj).2.1, fun x hx he => ?_⟩⟩
    refine .base (hx.upd hj) ?_
    show eval S false k (cs0.getD (Assign.upd x (k+1) j (k+1)) bot) (Assign.upd x (k+1) j) = true
    rw [Assign.upd_same, eval_upd_above hred (Nat.lt_succ_self k)]; exact he
  have hr := satLoop_inv hS hred hk hf _ hT cs0 h0T
  have hfix := satLoop_fix hS hred hk hf cs0 h0
  have hjy : y (k+1) < S.size (k+1) := hy (k+1) (by omega) hk
  rw [node_eval hred hk _ _ hr hy]
  constructor
  · intro he
    have := (hr.2 _ hjy).2.2 y hy he
    simp only [upd_self] at this
    exact this
  · intro hreach
    refine Reach.induct
      (fun y => eval S false k ((satLoop S ev fire k cs0).getD (y (k+1)) bot) y = true) ?_ ?_ hreach
    · intro x hx hb; exact satLoop_mono hred hk fire cs0 _ x hx hb
    · intro x y hx hy hD hs
      obtain ⟨m, hm, hfire⟩ := hs
      by_cases hmk : m < k
      · have hxy : x (k+1) = y (k+1) := hfire.2 (k+1) (by omega)
        show eval S false k ((satLoop S ev fire k cs0).getD (y (k+1)) bot) y = true
        rw [← hxy]
        exact (hr.2 _ (hx (k+1) (by omega) hk)).2.1 x y hx hy hD ⟨m, hmk, hfire⟩
      · have hmk' : m = k := by omega
        subst hmk'
        have hj := hy (m+1) (by omega) hk
        have hi := hx (m+1) (by omega) hk
        show eval S false m ((satLoop S ev fire m cs0).getD (y (m+1)) bot) y = true
        rw [← hfix]
        apply sweep_contains hred hk hf _ hr.1 hi hj hy
        rw [hf _ _ y hy]
        refine .base hy ⟨Assign.upd x (m+1) (y (m+1)), hx.upd hj, ?_, ?_, ?_⟩
        · show eval S false m _ (Assign.upd x (m+1) (y (m+1))) = true
          rw [eval_upd_above hred (Nat.lt_succ_self m)]; exact hD
        · rw [relAt_upd_left (Nat.lt_succ_self m)]; exact hfire.1
        · intro p hp
          by_cases hpm : p = m+1
          · subst hpm; rw [Assign.upd_same]
          · rw [Assign.upd_other _ _ hpm]; exact hfire.2 p (by omega)

end Level

/-! ## `recFire` -/

section RecFire
variable {S : Shape} {ev : Nat → Nat → Nat → Rel}

theorem getD_replicate_bot (n j : Nat) : (List.replicate n bot).getD j bot = bot := by
  rw [List.getD_eq_getElem?_getD, List.getElem?_replicate]
  split <;> rfl

/-- the first pass of `recFire` (`nb[j] ∪= recFire(A[i], R[i][j])` over all `i`, `j`) -/
theorem firstPass_spec (hS : S.WF) (hred : ∀ p, S.mode p = .red) {k : Nat} (hk : k+1 ≤ S.top)
    {fire : DD Bool → Rel → DD Bool} (hf : FireSpec S ev k fire) (n : DD Bool) (r : Rel) :
    AllP (S.size (k+1)) (ChildP S ev k (fun _ _ => True)) (firstPass S fire k n r) ∧
    ∀ j, j < S.size (k+1) → ∀ y, Assign.Valid S y →
      (eval S false k ((firstPass S fire k n r).getD j bot) y = true ↔
        ∃ i, i < S.size (k+1) ∧
          eval S false k (fire (cofactor S false (k+1) none n i) (sub r (k+1) i j)) y = true) := by
  have h0 : AllP (S.size (k+1)) (ChildP S ev k (fun j y => ∃ i, i < S.size (k+1) ∧
      eval S false k (fire (cofactor S false (k+1) none n i) (sub r (k+1) i j)) y = true))
      (List.replicate (S.size (k+1)) bot) := by
    refine ⟨List.length_replicate, fun j _ => ?_⟩
    rw [getD_replicate_bot]
    exact ⟨red_bot _ _, closedT_bot _, fun x _ h => by rw [eval_bot] at h; cases h⟩
  have h1 := fold_inv (S := S) k _ _
    (fun _ p => fire (cofactor S false (k+1) none n p.1) (sub r (k+1) p.1 p.2))
    (pairs (S.size (k+1))) (by
      intro cs p hp hc hp2
      obtain ⟨hp1, _⟩ := mem_pairs.mp hp
      obtain ⟨hr, hcl, ht⟩ := hc.2 p.2 hp2
      refine ⟨unionAt_red hS hred k none _ _,
        closedT_union hred (by omega) hcl (hf.closed _ _), ?_⟩
      intro x hx he
      rw [unionAt_eval hred (by omega) _ _ hx, Bool.or_eq_true] at he
      rcases he with he | he
      · exact ht x hx he
      · exact ⟨p.1, hp1, he⟩) _ h0
  refine ⟨⟨h1.1, fun j hj => ⟨(h1.2 j hj).1, (h1.2 j hj).2.1, fun _ _ _ => trivial⟩⟩, ?_⟩
  intro j hj y hy
  constructor
  · exact (h1.2 j hj).2.2 y hy
  · rintro ⟨i, hi, he⟩
    exact fold_contains hred (k := k) (by omega) (S.size (k+1))
      (fun _ p => fire (cofactor S false (k+1) none n p.1) (sub r (k+1) p.1 p.2))
      (fun _ _ _ _ _ _ h => h) (pairs (S.size (k+1))) _ List.length_replicate (i, j)
      (mem_pairs.mpr ⟨hi, hj⟩) hj y hy he

theorem recFire_zero (n : DD Bool) (r : Rel) :
    recFire S ev 0 n r = .leaf (leafVal false n && r zeroA zeroA) := by
  rw [recFire]

theorem recFire_succ (k : Nat) (n : DD Bool) (r : Rel) :
    recFire S ev (k+1) n r =
      if n = bot then bot else
      mkNode S false (k+1) none
        (satLoop S ev (recFire S ev k) k (firstPass S (recFire S ev k) k n r)) := by
  rw [recFire]

/-- `recFire k n r` denotes exactly the states reachable by events of level `≤ k` from the image
    of `n` under `r` -/
theorem recFire_spec (hS : S.WF) (hred : ∀ p, S.mode p = .red) :
    ∀ k, k ≤ S.top → FireSpec S ev k (recFire S ev k) := by
  intro k
  induction k with
  | zero =>
    intro _ n r y hy
    rw [recFire_zero, eval_zero_leaf, Reach_zero]
    constructor
    · intro h
      rw [Bool.and_eq_true] at h
      refine ⟨hy, y, hy, ?_, ?_, fun _ _ => rfl⟩
      · show eval S false 0 n y = true
        rw [eval_zero_eq_leafVal]; exact h.1
      · unfold relAt; rw [trunc_zero]; exact h.2
    · rintro ⟨_, x, _, h1, h2, _⟩
      rw [eval_zero_eq_leafVal] at h1
      unfold relAt at h2
      rw [trunc_zero, trunc_zero] at h2
      rw [h1, h2]; rfl
  | succ k ih =>
    intro hk n r y hy
    have hf := ih (by omega)
    rw [recFire_succ]
    by_cases hn : n = bot
    · rw [if_pos hn, eval_bot]
      constructor
      · intro h; cases h
      · intro h
        exfalso
        refine Reach_empty (fun x => ?_) h
        rintro ⟨x0, _, h1, _⟩
        rw [hn, eval_bot] at h1; cases h1
    · rw [if_neg hn]
      obtain ⟨hA, hB⟩ := firstPass_spec hS hred hk hf n r
      rw [satLoop_spec hS hred hk hf _ hA hy]
      constructor
      · intro h
        refine h.mono_reach (Nat.le_refl _) ?_
        intro x hx hb
        have hjx : x (k+1) < S.size (k+1) := hx (k+1) (by omega) hk
        obtain ⟨i, hi, he⟩ := (hB _ hjx x hx).mp hb
        refine Reach.lift (x (k+1)) ?_ ((hf _ _ x hx).mp he) rfl
        rintro x' hx' ⟨x0, hx0, h1, h2, h3⟩ hj'
        refine .base hx' ⟨Assign.upd x0 (k+1) i, hx0.upd hi, ?_, ?_, ?_⟩
        · show eval S false (k+1) n (Assign.upd x0 (k+1) i) = true
          rw [cofactor_eval' hred, Assign.upd_same, eval_upd_above hred (Nat.lt_succ_self k)]
          exact h1
        · rw [relAt_succ, Assign.upd_same, relAt_upd_left (Nat.lt_succ_self k), hj']; exact h2
        · intro p hp
          rw [Assign.upd_other _ _ (by omega)]; exact h3 p (by omega)
      · intro h
        refine h.mono ?_
        rintro x hx ⟨x0, hx0, h1, h2, h3⟩
        have hjx : x (k+1) < S.size (k+1) := hx (k+1) (by omega) hk
        have hi0 : x0 (k+1) < S.size (k+1) := hx0 (k+1) (by omega) hk
        show eval S false k ((firstPass S (recFire S ev k) k n r).getD (x (k+1)) bot) x = true
        rw [hB _ hjx x hx]
        refine ⟨x0 (k+1), hi0, ?_⟩
        rw [hf _ _ x hx]
        refine .base hx ⟨Assign.upd x0 (k+1) (x (k+1)), hx0.upd hjx, ?_, ?_, ?_⟩
        · show eval S false k _ (Assign.upd x0 (k+1) (x (k+1))) = true
          rw [eval_upd_above hred (Nat.lt_succ_self k), ← cofactor_eval' hred]; exact h1
        · rw [relAt_upd_left (Nat.lt_succ_self k), ← relAt_succ]; exact h2
        · intro p hp
          by_cases hpk : p = k+1
          · subst hpk; rw [Assign.upd_same]
          · rw [Assign.upd_other _ _ hpk]; exact h3 p (by omega)

theorem recFire_red (hS : S.WF) (hred : ∀ p, S.mode p = .red) (k : Nat) (hk : k ≤ S.top)
    (fi : Option Nat) (n : DD Bool) (r : Rel) : Red S false k fi (recFire S ev k n r) = true := by
  cases k with
  | zero => rw [recFire_zero]; rfl
  | succ k =>
    rw [recFire_succ]
    by_cases hn : n = bot
    · rw [if_pos hn]; exact red_bot _ _
    · rw [if_neg hn]
      have hf := recFire_spec (ev := ev) hS hred k (by omega)
      obtain ⟨hA, _⟩ := firstPass_spec hS hred hk hf n r
      exact node_red hS hred _ _
        (satLoop_inv hS hred hk hf _ (fun _ _ _ _ _ _ _ _ _ => trivial) _ hA) fi

end RecFire

/-! ## `saturate` -/

section Saturate
variable {S : Shape} {ev : Nat → Nat → Nat → Rel}

theorem saturate_zero (n : DD Bool) : saturate S ev 0 n = .leaf (leafVal false n) := by
  rw [saturate]

theorem saturate_succ (k : Nat) (n : DD Bool) :
    saturate S ev (k+1) n = mkNode S false (k+1) none (satLoop S ev (recFire S ev k) k
      ((List.range (S.size (k+1))).map fun i =>
        saturate S ev k (cofactor S false (k+1) none n i))) := by
  rw [saturate]

/-- the induction statement: reduced, and exactly the `≤ k`-reachable states -/
theorem saturate_main (hS : S.WF) (hred : ∀ p, S.mode p = .red) :
    ∀ k, k ≤ S.top → ∀ n,
      Red S false k none (saturate S ev k n) = true ∧
      ∀ y, Assign.Valid S y →
        (eval S false k (saturate S ev k n) y = true ↔
          Reach S ev k (fun x => eval S false k n x = true) y) := by
  intro k
  induction k with
  | zero =>
    intro _ n
    rw [saturate_zero]
    refine ⟨rfl, fun y hy => ?_⟩
    rw [eval_zero_leaf, Reach_zero, eval_zero_eq_leafVal]
    exact ⟨fun h => ⟨hy, h⟩, fun h => h.2⟩
  | succ k ih =>
    intro hk n
    have hf := recFire_spec (ev := ev) hS hred k (by omega)
    have hA : AllP (S.size (k+1)) (ChildP S ev k (fun _ _ => True))
        ((List.range (S.size (k+1))).map fun i =>
          saturate S ev k (cofactor S false (k+1) none n i)) := by
      refine ⟨length_map_range _ _, fun j hj => ?_⟩
      rw [getD_map_range _ _ _ hj]
      obtain ⟨hr, hsp⟩ := ih (by omega) (cofactor S false (k+1) none n j)
      refine ⟨hr, ?_, fun _ _ _ => trivial⟩
      intro x y hx hy h hs
      rw [hsp y hy]
      exact .step ((hsp x hx).mp h) hy hs
    rw [saturate_succ]
    refine ⟨node_red hS hred _ _
      (satLoop_inv hS hred hk hf _ (fun _ _ _ _ _ _ _ _ _ => trivial) _ hA) none, ?_⟩
    intro y hy
    rw [satLoop_spec hS hred hk hf _ hA hy]
    constructor
    · intro h
      refine h.mono_reach (Nat.le_refl _) ?_
      intro x hx hb
      have hjx : x (k+1) < S.size (k+1) := hx (k+1) (by omega) hk
      rw [getD_map_range _ _ _ hjx, (ih (by omega) _).2 x hx] at hb
      refine Reach.lift (x (k+1)) ?_ hb rfl
      intro x' hx' h1 hj'
      refine .base hx' ?_
      show eval S false (k+1) n x' = true
      rw [cofactor_eval' hred, hj']; exact h1
    · intro h
      refine h.mono ?_
      intro x hx h1
      have hjx : x (k+1) < S.size (k+1) := hx (k+1) (by omega) hk
      show eval S false k (List.getD _ (x (k+1)) bot) x = true
      rw [getD_map_range _ _ _ hjx, (ih (by omega) _).2 x hx]
      refine .base hx ?_
      show eval S false k _ x = true
      rw [← cofactor_eval' hred]; exact h1

end Saturate

/-! ## Explicit states: the bridge to `Pregen.Reach` / `Pregen.reachFix` -/

section Bridge
variable {S : Shape} {ev : Nat → Nat → Nat → Rel}

theorem ofList_toList (K : Nat) (x : Assign) : ofList (toList K x) = trunc K x := by
  funext p
  unfold ofList toList trunc
  cases p with
  | zero => rw [if_pos rfl, if_neg (by omega)]
  | succ q =>
    rw [if_neg (by omega)]
    show List.getD _ q 0 = _
    by_cases hq : q < K
    · rw [getD_map_range _ _ _ hq, if_pos (by omega)]
    · rw [if_neg (by omega), List.getD_eq_getElem?_getD,
        List.getElem?_eq_none (by rw [length_map_range]; omega)]
      rfl

theorem toList_trunc (K : Nat) (x : Assign) : toList K (trunc K x) = toList K x := by
  unfold toList
  apply List.map_congr_left
  intro i hi
  have := List.mem_range.mp hi
  unfold trunc
  rw [if_pos (by omega)]

theorem valid_trunc {x : Assign} (hx : Assign.Valid S x) : Assign.Valid S (trunc S.top x) := by
  intro p h1 h2
  unfold trunc
  rw [if_pos ⟨h1, h2⟩]; exact hx p h1 h2

theorem trunc_trunc {m K : Nat} (h : m ≤ K) (x : Assign) : trunc m (trunc K x) = trunc m x := by
  funext q
  unfold trunc
  by_cases hq : 1 ≤ q ∧ q ≤ m
  · rw [if_pos hq, if_pos hq, if_pos (by omega)]
  · rw [if_neg hq, if_neg hq]

theorem mem_dom_iff (hS : S.WF) {u : List Nat} :
    u ∈ dom S ↔ ∃ x, Assign.Valid S x ∧ u = toList S.top x := by
  unfold dom
  constructor
  · intro h
    obtain ⟨x, hx, rfl⟩ := List.mem_map.mp h
    exact ⟨x, (enum_spec hS _ (Nat.le_refl _) x hx).1, rfl⟩
  · rintro ⟨x, hx, rfl⟩
    rw [← toList_trunc]
    exact List.mem_map.mpr ⟨_, mem_enum hx _ (Nat.le_refl _), rfl⟩

theorem StepLe.trunc {K : Nat} {x y : Assign} (h : StepLe ev K x y) :
    StepLe ev K (trunc K x) (trunc K y) := by
  obtain ⟨m, hm, h1, h2⟩ := h
  refine ⟨m, hm, ?_, ?_⟩
  · have e1 : Satur.trunc K x (m+1) = x (m+1) := by unfold Satur.trunc; rw [if_pos (by omega)]
    have e2 : Satur.trunc K y (m+1) = y (m+1) := by unfold Satur.trunc; rw [if_pos (by omega)]
    rw [e1, e2]
    unfold relAt at h1 ⊢
    rw [trunc_trunc (by omega), trunc_trunc (by omega)]; exact h1
  · intro p hp
    unfold Satur.trunc
    by_cases hq : 1 ≤ p ∧ p ≤ K
    · rw [if_pos hq, if_pos hq]; exact h2 p hp
    · rw [if_neg hq, if_neg hq]

theorem stepRel_iff (x y : Assign) :
    stepRel S ev (toList S.top x) (toList S.top y) = true ↔
      StepLe ev S.top (trunc S.top x) (trunc S.top y) := by
  unfold stepRel StepLe Fires
  rw [ofList_toList, ofList_toList]
  simp only [List.any_eq_true, List.mem_range, Bool.and_eq_true, List.all_eq_true,
    Bool.or_eq_true, decide_eq_true_eq, beq_iff_eq]
  constructor
  · rintro ⟨m, hm, h1, h2⟩
    refine ⟨m, hm, h1, ?_⟩
    intro p hp
    by_cases hpK : p ≤ S.top
    · rcases h2 (p-1) (by omega) with h | h
      · omega
      · rw [show p - 1 + 1 = p by omega] at h; exact h
    · unfold trunc
      rw [if_neg (by omega), if_neg (by omega)]
  · rintro ⟨m, hm, h1, h2⟩
    refine ⟨m, hm, h1, ?_⟩
    intro p hp
    by_cases hpm : p ≤ m
    · exact Or.inl hpm
    · exact Or.inr (h2 (p+1) (by omega))

/-- reachability on tuples (the notion `Pregen.reachFix` computes) is reachability on assignments -/
theorem reach_bridge (hS : S.WF) (hred : ∀ p, S.mode p = .red) (init : DD Bool)
    {u : List Nat} (hu : u ∈ dom S) :
    Pregen.Reach (dom S) (setOf S init) (stepRel S ev) u ↔
      Reach S ev S.top (fun x => eval S false S.top init x = true) (ofList u) := by
  constructor
  · intro h
    induction h with
    | @base s hd hi =>
      obtain ⟨x, hx, rfl⟩ := (mem_dom_iff hS).mp hd
      rw [ofList_toList]
      refine .base (valid_trunc hx) ?_
      have : eval S false S.top init (ofList (toList S.top x)) = true := hi
      rw [ofList_toList] at this; exact this
    | @step s t hs hd hr ih =>
      obtain ⟨x, hx, rfl⟩ := (mem_dom_iff hS).mp hs.mem_dom
      obtain ⟨y, hy, rfl⟩ := (mem_dom_iff hS).mp hd
      have ih' := ih hs.mem_dom
      rw [ofList_toList] at ih' ⊢
      exact .step ih' (valid_trunc hy) ((stepRel_iff x y).mp hr)
  · intro h
    have key : ∀ x, Reach S ev S.top (fun x => eval S false S.top init x = true) x →
        Pregen.Reach (dom S) (setOf S init) (stepRel S ev) (toList S.top x) := by
      intro x hx
      induction hx with
      | @base x hv ha =>
        refine .base ((mem_dom_iff hS).mpr ⟨x, hv, rfl⟩) ?_
        show eval S false S.top init (ofList (toList S.top x)) = true
        rw [ofList_toList, eval_trunc hred]; exact ha
      | @step x y hr hv hs ih =>
        exact .step ih ((mem_dom_iff hS).mpr ⟨y, hv, rfl⟩) ((stepRel_iff x y).mpr hs.trunc)
    obtain ⟨x, hx, rfl⟩ := (mem_dom_iff hS).mp hu
    have := key _ h
    rw [ofList_toList, toList_trunc] at this
    exact this

end Bridge

/-! ## Property theorems -/

section Properties
variable {S : Shape} {ev : Nat → Nat → Nat → Rel}

/-- SOUNDNESS of `recFire`: every state of `recFire k n r` is reachable, by events of level `≤ k`
    (acting below the unchanged upper part), from a state of the image of `n` under `r`. -/
theorem recFire_sound (hS : S.WF) (hred : ∀ p, S.mode p = .red) {k : Nat} (hk : k ≤ S.top)
    (n : DD Bool) (r : Rel) {y : Assign} (hy : Assign.Valid S y)
    (h : eval S false k (recFire S ev k n r) y = true) :
    Reach S ev k (img S k r (fun x => eval S false k n x = true)) y :=
  (recFire_spec hS hred k hk n r y hy).mp h

/-- COMPLETENESS of `recFire`: the result contains the image of `n` under `r` and is closed under
    every event of level `≤ k` ("saturated"). -/
theorem recFire_closed (hS : S.WF) (hred : ∀ p, S.mode p = .red) {k : Nat} (hk : k ≤ S.top)
    (n : DD Bool) (r : Rel) :
    (∀ x y, Assign.Valid S x → Assign.Valid S y → eval S false k n x = true →
      relAt k r x y = true → (∀ p, k < p → x p = y p) →
      eval S false k (recFire S ev k n r) y = true) ∧
    ClosedT S ev k (recFire S ev k n r) := by
  refine ⟨?_, (recFire_spec hS hred k hk).closed n r⟩
  intro x y hx hy h1 h2 h3
  rw [recFire_spec hS hred k hk n r y hy]
  exact .base hy ⟨x, hx, h1, h2, h3⟩

/-- SOUNDNESS of `saturate`: every state of `saturate k n` is reachable from a state of `n` by
    events of level `≤ k`. -/
theorem saturate_sound (hS : S.WF) (hred : ∀ p, S.mode p = .red) {k : Nat} (hk : k ≤ S.top)
    (n : DD Bool) {y : Assign} (hy : Assign.Valid S y)
    (h : eval S false k (saturate S ev k n) y = true) :
    Reach S ev k (fun x => eval S false k n x = true) y :=
  ((saturate_main hS hred k hk n).2 y hy).mp h

/-- CLOSEDNESS of `saturate`: the result contains `n` and is closed under every (lifted) event of
    level `≤ k`: the fixed-point loops really reached their fixed points. -/
theorem saturate_closed (hS : S.WF) (hred : ∀ p, S.mode p = .red) {k : Nat} (hk : k ≤ S.top)
    (n : DD Bool) :
    (∀ x, Assign.Valid S x → eval S false k n x = true →
      eval S false k (saturate S ev k n) x = true) ∧
    ClosedT S ev k (saturate S ev k n) := by
  have hsp := (saturate_main (ev := ev) hS hred k hk n).2
  refine ⟨fun x hx h => (hsp x hx).mpr (.base hx h), ?_⟩
  intro x y hx hy h hs
  rw [hsp y hy]
  exact .step ((hsp x hx).mp h) hy hs

/-- TERMINATION by the loop's own test: the result of `saturateHelper`'s loop is a fixed point of a
    whole sweep (no child changes any more) — the fuel `numStates + 1` is never what stops it,
    because every non-final sweep adds a state (children are reduced, so a changed child is a
    changed set: canonicity) and there are only `numStates` states. -/
theorem satLoop_stops (hS : S.WF) (hred : ∀ p, S.mode p = .red) {k : Nat} (hk : k+1 ≤ S.top)
    (cs : List (DD Bool)) (hlen : cs.length = S.size (k+1))
    (hcs : ∀ j, j < S.size (k+1) →
      Red S false k none (cs.getD j bot) = true ∧ ClosedT S ev k (cs.getD j bot)) :
    sweep S ev (recFire S ev k) k (satLoop S ev (recFire S ev k) k cs)
      = satLoop S ev (recFire S ev k) k cs :=
  satLoop_fix hS hred hk (recFire_spec hS hred k (by omega)) cs
    ⟨hlen, fun j hj => ⟨(hcs j hj).1, (hcs j hj).2, fun _ _ _ => trivial⟩⟩

/-- `satur_eq_lfp`: the tree returned by saturation denotes exactly the least fixed point — a
    valid state is in `saturate K init` iff it is reachable from a state of `init` under the
    union of all lifted events. -/
theorem satur_eq_lfp (hS : S.WF) (hred : ∀ p, S.mode p = .red) (init : DD Bool)
    {x : Assign} (hx : Assign.Valid S x) :
    eval S false S.top (saturate S ev S.top init) x = true ↔
      Reach S ev S.top (fun s => eval S false S.top init s = true) x :=
  (saturate_main hS hred S.top (Nat.le_refl _) init).2 x hx

/-- minimality (the `chaotic_eq_lfp` argument): any set that contains `init` and is closed under
    all events contains the result of saturation -/
theorem saturate_least (hS : S.WF) (hred : ∀ p, S.mode p = .red) (init : DD Bool)
    (D : Assign → Prop)
    (hinit : ∀ x, Assign.Valid S x → eval S false S.top init x = true → D x)
    (hD : ∀ x y, Assign.Valid S x → Assign.Valid S y → D x → StepLe ev S.top x y → D y)
    {x : Assign} (hx : Assign.Valid S x)
    (h : eval S false S.top (saturate S ev S.top init) x = true) : D x :=
  Reach.induct D hinit hD ((satur_eq_lfp hS hred init hx).mp h)

/-- `satur_eq_lfp` against the executable specification of the project (`Pregen.reachFix`, the
    naive breadth-first least fixed point on explicit tuples, `Pregen.reachFix_eq_lfp`): on the
    state space, the tuples of `saturate K init` are exactly the tuples of the least fixed point
    of the union of all lifted events from the tuples of `init`. -/
theorem satur_eq_reachFix (hS : S.WF) (hred : ∀ p, S.mode p = .red) (init : DD Bool)
    {u : List Nat} (hu : u ∈ dom S) :
    setOf S (saturate S ev S.top init) u = true ↔
      u ∈ Pregen.reachFix (dom S) (setOf S init) (stepRel S ev) := by
  rw [Pregen.reachFix_eq_lfp, reach_bridge hS hred init hu]
  obtain ⟨x, hx, rfl⟩ := (mem_dom_iff hS).mp hu
  have hv : Assign.Valid S (ofList (toList S.top x)) := by
    rw [ofList_toList]; exact valid_trunc hx
  exact satur_eq_lfp hS hred init hv

/-- The result of `saturate` is a reduced tree of the forest. -/
theorem saturate_red (hS : S.WF) (hred : ∀ p, S.mode p = .red) {k : Nat} (hk : k ≤ S.top)
    (n : DD Bool) : Red S false k none (saturate S ev k n) = true :=
  (saturate_main hS hred k hk n).1

/-- `satur_eq_bfs`: by canonicity, `saturate K init` is THE reduced tree of the reachable set: any
    reduced tree that denotes the reachable set — in particular the edge a breadth-first search
    built from `union` and image operations returns (`union_red`) — is the same tree. -/
theorem satur_eq_bfs (hS : S.WF) (hred : ∀ p, S.mode p = .red) (init b : DD Bool)
    (hb : Red S false S.top none b = true)
    (hden : ∀ x, Assign.Valid S x →
      (eval S false S.top b x = true ↔
        Reach S ev S.top (fun s => eval S false S.top init s = true) x)) :
    saturate S ev S.top init = b := by
  apply (canon S false hS _ _ (saturate_red hS hred (Nat.le_refl _) init) hb).mp
  intro a ha
  cases hb' : eval S false S.top b a with
  | true => exact (satur_eq_lfp hS hred init ha).mpr ((hden a ha).mp hb')
  | false =>
    cases hs : eval S false S.top (saturate S ev S.top init) a with
    | false => rfl
    | true =>
      have := (hden a ha).mpr ((satur_eq_lfp hS hred init ha).mp hs)
      rw [hb'] at this; cases this

/-- the shortcut `if (isTerminalNode(mdd)) return mdd` of `saturate` is transparent: the
    recursion returns the terminal itself (the empty set and the full set are closed) -/
theorem saturate_terminal (hS : S.WF) (hred : ∀ p, S.mode p = .red) {k : Nat} (hk : k ≤ S.top)
    (b : Bool) : saturate S ev k (.leaf b) = .leaf b := by
  apply canon_gen S false hS k hk none _ _ (fun i hi => nomatch hi)
    (saturate_red hS hred hk _) (red_leaf hred b k none)
  intro a ha _
  rw [eval_leaf hred]
  cases b with
  | true =>
    exact ((saturate_main hS hred k hk _).2 a ha).mpr (.base ha (eval_leaf hred true a k))
  | false =>
    cases hs : eval S false k (saturate S ev k (.leaf false)) a with
    | false => rfl
    | true =>
      exfalso
      refine Reach_empty (fun x hx => ?_) (((saturate_main hS hred k hk _).2 a ha).mp hs)
      rw [eval_leaf hred] at hx; cases hx

/-- the shortcut "the relation is the identity → return the set node" of `recFire` is transparent
    for the nodes it is applied to (reduced and already saturated below): the recursion returns
    the very same tree -/
theorem recFire_identity (hS : S.WF) (hred : ∀ p, S.mode p = .red) {k : Nat} (hk : k ≤ S.top)
    (n : DD Bool) (hn : Red S false k none n = true) (hcl : ClosedT S ev k n) (r : Rel)
    (hr : ∀ x y, relAt k r x y = true ↔ ∀ p, 1 ≤ p → p ≤ k → x p = y p) :
    recFire S ev k n r = n := by
  apply canon_gen S false hS k hk none _ _ (fun i hi => nomatch hi)
    (recFire_red hS hred k hk none n r) hn
  intro a ha _
  have himg : ∀ y, img S k r (fun x => eval S false k n x = true) y →
      eval S false k n y = true := by
    rintro y ⟨x, _, h1, h2, _⟩
    rw [← eval_congr_pos hred k n x y ((hr x y).mp h2)]; exact h1
  cases hb : eval S false k n a with
  | true =>
    exact (recFire_spec hS hred k hk n r a ha).mpr
      (.base ha ⟨a, ha, hb, (hr a a).mpr (fun _ _ _ => rfl), fun _ _ => rfl⟩)
  | false =>
    cases hs : eval S false k (recFire S ev k n r) a with
    | false => rfl
    | true =>
      have := Reach.induct (fun y => eval S false k n y = true) (fun y _ h => himg y h)
        hcl ((recFire_spec hS hred k hk n r a ha).mp hs)
      rw [hb] at this; cases this

/-! ### against `Reach.lfp` (Ops/Reach.lean): the state type is the finite type of the tuples of
    the domain, the relation is the union of all lifted events -/

/-- the finite state type -/
abbrev St (S : Shape) := {u : List Nat // u ∈ dom S}

def states (S : Shape) : List (St S) := (dom S).attach

def stepSt (S : Shape) (ev : Nat → Nat → Nat → Rel) : St S → St S → Bool :=
  fun a b => stepRel S ev a.val b.val

def initSt (S : Shape) (init : DD Bool) : List (St S) :=
  (states S).filter fun a => setOf S init a.val

theorem states_complete : Meddly.Reach.Complete (states S) := fun s => List.mem_attach _ s

theorem reachable_bridge (init : DD Bool) (s : St S) :
    Meddly.Reach.Reachable (stepSt S ev) (initSt S init) s ↔
      Pregen.Reach (dom S) (setOf S init) (stepRel S ev) s.val := by
  constructor
  · intro h
    induction h with
    | @base s hs => exact .base s.property (List.mem_filter.mp hs).2
    | @step s t _ hr ih => exact .step ih t.property hr
  · intro h
    have key : ∀ u, Pregen.Reach (dom S) (setOf S init) (stepRel S ev) u → ∀ (hu : u ∈ dom S),
        Meddly.Reach.Reachable (stepSt S ev) (initSt S init) ⟨u, hu⟩ := by
      intro u hu
      induction hu with
      | @base s hd hi =>
        intro hu
        exact .base (List.mem_filter.mpr ⟨List.mem_attach _ _, hi⟩)
      | @step s t hs hd hr ih =>
        intro hu
        exact .step (ih hs.mem_dom) hr
    exact key s.val h s.property

/-- `satur_eq_lfp` in the form announced in Ops/Reach.lean: the states of `saturate K init` are
    exactly the members of `Reach.lfp` (the set every breadth-first reachability operation is
    proved to return: `bfs_frontier_eq_lfp`, `bfs_nofrontier_eq_lfp`) for the union of all lifted
    events, from the states of `init`. -/
theorem satur_eq_reach_lfp (hS : S.WF) (hred : ∀ p, S.mode p = .red) (init : DD Bool)
    (s : St S) :
    setOf S (saturate S ev S.top init) s.val = true ↔
      s ∈ Meddly.Reach.lfp (states S) (stepSt S ev) (initSt S init) := by
  rw [Meddly.Reach.lfpIter_spec states_complete, reachable_bridge, ← Pregen.reachFix_eq_lfp]
  exact satur_eq_reachFix hS hred init s.property

/-- … hence saturation and both breadth-first loops of reach_trad.cc compute the same set -/
theorem satur_eq_bfs_set (hS : S.WF) (hred : ∀ p, S.mode p = .red) (init : DD Bool)
    (s : St S) :
    setOf S (saturate S ev S.top init) s.val = true ↔
      s ∈ (Meddly.Reach.bfsFrontier (states S) (stepSt S ev) (initSt S init)).1 := by
  rw [Meddly.Reach.bfs_frontier_eq_lfp states_complete]
  exact satur_eq_reach_lfp hS hred init s

end Properties

/-! ## Non-vacuity: concrete instances, evaluated and compared with the least fixed point -/

namespace Ex

/-- two variables of size 3 -/
def S2 : Shape := { top := 2, size := fun _ => 3, mode := fun _ => .red }

theorem S2_WF : S2.WF where
  size_ge := by intro p _ _; show 2 ≤ 3; omega
  ident_below_red := by intro p h; cases h

/-- level 1: `x₁ : 0 → 1`;  level 2: `x₂ : i → i+1` when `x₁ = 1`, resetting `x₁` to `0` -/
def ev2 : Nat → Nat → Nat → Rel
  | 1, i, j => fun _ _ => i == 0 && j == 1
  | 2, i, j => fun x y => j == i + 1 && x 1 == 1 && y 1 == 0
  | _, _, _ => fun _ _ => false

/-- the initial state `(x₂, x₁) = (0, 0)` -/
def init2 : DD Bool :=
  .node 2 [.node 1 [.leaf true, .leaf false, .leaf false], .leaf false, .leaf false]

/-- reachable: `x₁ ∈ {0, 1}`, any `x₂` — the node at position 2 is redundant and eliminated -/
def result2 : DD Bool := .node 1 [.leaf true, .leaf true, .leaf false]

set_option maxRecDepth 100000 in
example : saturate S2 ev2 2 init2 = result2 := by decide

example : Red S2 false 2 none result2 = true := by decide

/-- `recFire` alone: firing the level-2 entry `0 → 1` from `{x₁ = 1}` and saturating below gives
    `x₁ ∈ {0, 1}` -/
example : recFire S2 ev2 1 (.node 1 [.leaf false, .leaf true, .leaf false]) (ev2 2 0 1)
    = .node 1 [.leaf true, .leaf true, .leaf false] := by decide

example : dom S2 = [[0,0],[1,0],[2,0],[0,1],[1,1],[2,1],[0,2],[1,2],[2,2]] := by decide

/-- the executable least fixed point on explicit tuples (index 0 = variable 1) -/
example : Pregen.reachFix (dom S2) (setOf S2 init2) (stepRel S2 ev2)
    = [[0,0],[1,0],[0,1],[1,1],[0,2],[1,2]] := by decide

set_option maxRecDepth 100000 in
/-- the evaluated result of `saturate` has exactly the tuples of the least fixed point -/
example : (dom S2).filter (setOf S2 (saturate S2 ev2 2 init2))
    = [[0,0],[1,0],[0,1],[1,1],[0,2],[1,2]] := by decide

/-- the general theorem applies to the concrete instance -/
example (u : List Nat) (hu : u ∈ dom S2) :
    setOf S2 (saturate S2 ev2 S2.top init2) u = true ↔
      u ∈ Pregen.reachFix (dom S2) (setOf S2 init2) (stepRel S2 ev2) :=
  satur_eq_reachFix S2_WF (fun _ => rfl) init2 hu

example : saturate S2 ev2 2 (.leaf true) = .leaf true := by decide

set_option maxRecDepth 100000 in
/-- compared with `Reach.lfp` on the finite state type -/
example : (Meddly.Reach.lfp (states S2) (stepSt S2 ev2) (initSt S2 init2)).map (·.val)
    = (dom S2).filter (setOf S2 (saturate S2 ev2 2 init2)) := by decide

/-- three binary variables -/
def S3 : Shape := { top := 3, size := fun _ => 2, mode := fun _ => .red }

theorem S3_WF : S3.WF where
  size_ge := by intro p _ _; show 2 ≤ 2; omega
  ident_below_red := by intro p h; cases h

/-- level 1: `x₁ : 0 → 1`;  level 2: `x₂ : 0 → 1` when `x₁ = 1` (kept);
    level 3: `x₃ : 0 → 1` when `x₂ = 1`, resetting `x₂` and `x₁` to `0` -/
def ev3 : Nat → Nat → Nat → Rel
  | 1, i, j => fun _ _ => i == 0 && j == 1
  | 2, i, j => fun x y => i == 0 && j == 1 && x 1 == 1 && y 1 == 1
  | 3, i, j => fun x y => i == 0 && j == 1 && x 2 == 1 && y 2 == 0 && y 1 == 0
  | _, _, _ => fun _ _ => false

def init3 : DD Bool :=
  .node 3 [.node 2 [.node 1 [.leaf true, .leaf false], .leaf false], .leaf false]

/-- reachable: `x₂ = 1 → x₁ = 1`, any `x₃` -/
def result3 : DD Bool := .node 2 [.leaf true, .node 1 [.leaf false, .leaf true]]

set_option maxRecDepth 100000 in
example : saturate S3 ev3 3 init3 = result3 := by decide

example : Pregen.reachFix (dom S3) (setOf S3 init3) (stepRel S3 ev3)
    = [[0,0,0],[1,0,0],[1,1,0],[0,0,1],[1,0,1],[1,1,1]] := by decide

set_option maxRecDepth 100000 in
example : (dom S3).filter (setOf S3 (saturate S3 ev3 3 init3))
    = [[0,0,0],[1,0,0],[1,1,0],[0,0,1],[1,0,1],[1,1,1]] := by decide

/-- canonicity on the instance: a reduced tree with the reachable set as denotation IS the result -/
example (b : DD Bool) (hb : Red S3 false 3 none b = true)
    (hden : ∀ x, Assign.Valid S3 x → (eval S3 false 3 b x = true ↔
      Reach S3 ev3 3 (fun s => eval S3 false 3 init3 s = true) x)) :
    saturate S3 ev3 3 init3 = b :=
  satur_eq_bfs S3_WF (fun _ => rfl) init3 b hb hden

end Ex

end Satur
end Meddly

#print axioms Meddly.Satur.recFire_sound
#print axioms Meddly.Satur.recFire_closed
#print axioms Meddly.Satur.saturate_sound
#print axioms Meddly.Satur.saturate_closed
#print axioms Meddly.Satur.satLoop_stops
#print axioms Meddly.Satur.satur_eq_lfp
#print axioms Meddly.Satur.saturate_least
#print axioms Meddly.Satur.satur_eq_reachFix
#print axioms Meddly.Satur.saturate_red
#print axioms Meddly.Satur.satur_eq_bfs
#print axioms Meddly.Satur.saturate_terminal
#print axioms Meddly.Satur.recFire_identity
#print axioms Meddly.Satur.satur_eq_reach_lfp
#print axioms Meddly.Satur.satur_eq_bfs_set
/- Output (Lean 4.33.0):
'Meddly.Satur.recFire_sound' depends on axioms: [propext, Classical.choice, Quot.sound]
'Meddly.Satur.recFire_closed' depends on axioms: [propext, Classical.choice, Quot.sound]
'Meddly.Satur.saturate_sound' depends on axioms: [propext, Classical.choice, Quot.sound]
'Meddly.Satur.saturate_closed' depends on axioms: [propext, Classical.choice, Quot.sound]
'Meddly.Satur.satLoop_stops' depends on axioms: [propext, Classical.choice, Quot.sound]
'Meddly.Satur.satur_eq_lfp' depends on axioms: [propext, Classical.choice, Quot.sound]
'Meddly.Satur.saturate_least' depends on axioms: [propext, Classical.choice, Quot.sound]
'Meddly.Satur.satur_eq_reachFix' depends on axioms: [propext, Classical.choice, Quot.sound]
'Meddly.Satur.saturate_red' depends on axioms: [propext, Classical.choice, Quot.sound]
'Meddly.Satur.satur_eq_bfs' depends on axioms: [propext, Classical.choice, Quot.sound]
'Meddly.Satur.saturate_terminal' depends on axioms: [propext, Classical.choice, Quot.sound]
'Meddly.Satur.recFire_identity' depends on axioms: [propext, Classical.choice, Quot.sound]
'Meddly.Satur.satur_eq_reach_lfp' depends on axioms: [propext, Classical.choice, Quot.sound]
'Meddly.Satur.satur_eq_bfs_set' depends on axioms: [propext, Classical.choice, Quot.sound]
-/
