/-
  C16 — misuse is rejected with the documented error and leaves all functions intact.

  Part 1 (`MeddlyModel/Ops/ErrorsTable.lean`).  `precheck`: the DECISION TABLE of the library's operation
  constructors and factories, transcribed from `/repo/src/operations/*.cc` in the ORDER in which the code
  performs its tests; `compatible`: an independent, declarative statement of each operation's documented
  requirements; `lax`: the documented requirements the code does not enforce.  The table is finite; it is
  evaluated in the kernel over ALL rows and lifted here to every legal forest kind.  (An earlier revision
  also carried `crashTag`, the rows on which the library crashed instead of raising an error — findings
  F1..F6 of docs/NOTES_errors.md.  All of them are repaired in the library; the model has no crash outcome
  and no row is withheld from execution any more.)

  Part 2 (this file).  Why an operation that is aborted by an error raised at ANY depth of its recursion
  cannot change a function that somebody holds: operations only ADD nodes (fresh handles) to the node
  store; `insert_monotone` shows that adding nodes never changes the unfolding (hence the denotation) of
  an existing handle, and that a store accepted by the canonical-form checker stays accepted for the
  old roots.

  Part 3 (this file).  `apply2E`: the model's apply in the `Except` monad: an error met anywhere below
  the root aborts the whole operation with that error (no partial result exists in the tree model), and a
  run without error is exactly `DD.apply2`.
-/
import MeddlyModel.Core.Dump
import MeddlyModel.Ops.Apply
import MeddlyModel.Ops.ErrorsTable
import MeddlyModel.Props.C19

namespace Meddly
namespace Errors

/-! ## Values that fit an integer terminal, scripted misuse -/

/-- documented range of integer terminals (terminal.h: 31 bits, signed; error.h VALUE_OVERFLOW) -/
def fitsInt (x : Int) : Bool := decide (-1073741824 ≤ x) && decide (x ≤ 1073741823)

/-- Documented outcome of each scripted misuse of the API around edges, minterms, iterators and forests
    (forest.h `createConstant`, forest.cc `createEdgeForVar` / `getEdgeForValue`, minterms.cc
    `buildFunctionMax`, dd_edge.cc `evaluate` / `getElemLong` / `iterator::restart`, dd_edge.h
    `iterator::operator*` / `getElement`, oper_binary.h / oper_unary.h `apply` with a null forest). -/
def misuseExpect : String → Option String
  | "const-wrong-forest" => some "err FOREST_MISMATCH"
  | "const-detached-edge" => some "err FOREST_MISMATCH"
  | "const-wrong-type" => some "err TYPE_MISMATCH"
  | "var-wrong-forest" => some "err INVALID_OPERATION"
  | "var-bad-index" => some "err INVALID_VARIABLE"
  | "var-negative-index" => some "err INVALID_VARIABLE"
  | "var-primed-in-set" => some "err INVALID_ASSIGNMENT"
  | "var-wrong-type" => some "err TYPE_MISMATCH"
  | "coll-detached-edge" => some "err FOREST_MISMATCH"
  | "coll-wrong-domain" => some "err DOMAIN_MISMATCH"
  | "coll-wrong-shape" => some "err DOMAIN_MISMATCH"
  | "eval-wrong-shape" => some "err DOMAIN_MISMATCH"
  | "eval-wrong-domain" => some "err DOMAIN_MISMATCH"
  | "eval-detached-edge" => some "err FOREST_MISMATCH"
  | "iter-exhausted" => some "err INVALID_ITERATOR"
  | "iter-end" => some "err INVALID_ITERATOR"
  | "iter-restart-wrong-forest" => some "err FOREST_MISMATCH"
  | "getelement-not-index-set" => some "err INVALID_OPERATION"
  | "getelement-evplus" => some "err INVALID_OPERATION"
  -- an edge of a destroyed forest has no forest any more: the factories refuse to build an operation
  | "destroyed-operand" => some "err NOT_IMPLEMENTED"
  | "destroyed-result" => some "err NOT_IMPLEMENTED"
  | "destroyed-copy" => some "err NOT_IMPLEMENTED"
  | "destroyed-evaluate" => some "err FOREST_MISMATCH"
  -- an operation object applied to an edge of another forest than the one it was built for; error.h documents
  -- FOREST_MISMATCH for "requires same forest".  Former finding F8 (no test at all, SIGSEGV): the result edge
  -- of a binary operation and both edges of a unary operation are tested since the repair ...
  | "compute-foreign-result" => some "err FOREST_MISMATCH"
  | "compute-foreign-unary-result" => some "err FOREST_MISMATCH"
  | "compute-foreign-unary-operand" => some "err FOREST_MISMATCH"
  -- ... the OPERAND edges of a binary operation still are not (KNOWN FINDING F8b, reproduced once per run by
  -- case 99 of the harness; the expectation stays the documented one, so the DIFF line ends when the library
  -- tests them)
  | "compute-foreign-operand" => some "err FOREST_MISMATCH"
  | _ => none


/-! ## Part 2: adding nodes to the store never changes what an existing handle denotes -/

end Errors

namespace Dump
variable {α : Type} [DecidableEq α]

/-- a node found in `D` is found (as the same node) in every store with distinct handles that contains `D` -/
theorem find_of_subset {D D' : Dump α} (hd : D'.distinctOK = true) (hsub : ∀ n ∈ D, n ∈ D')
    {h : Nat} {m : DNode α} (e : D.find h = some m) : D'.find h = some m := by
  obtain ⟨hm, hh⟩ := find_some e
  have := distinctOK_find hd (hsub m hm)
  rw [hh] at this
  exact this

theorem childOK_of_subset {D D' : Dump α} (hd : D'.distinctOK = true) (hsub : ∀ n ∈ D, n ∈ D')
    {b : Nat} {c : Child α} (v : D.childOK b c = true) : D'.childOK b c = true := by
  cases c with
  | tm x => rfl
  | nd h =>
    obtain ⟨m, hm, hp⟩ := childOK_nd v
    simp only [childOK, find_of_subset hd hsub hm, decide_eq_true_eq]
    exact hp

/-- unfolding a handle that is valid in `D` gives the same tree in any larger store `D'` -/
theorem unfold_of_subset {D D' : Dump α} (zero : α) (hs : D.storeOK = true)
    (hd : D'.distinctOK = true) (hsub : ∀ n ∈ D, n ∈ D') :
    ∀ (f : Nat) (c : Child α), D.childOK f c = true → D'.unfold zero f c = D.unfold zero f c := by
  intro f
  induction f with
  | zero =>
    intro c v
    cases c with
    | tm x => simp
    | nd h =>
      obtain ⟨m, g, _, hf, _⟩ := unfold_nd zero hs v
      omega
  | succ g ih =>
    intro c v
    cases c with
    | tm x => simp
    | nd h =>
      obtain ⟨m, g0, hm, hf, _, hc, hu⟩ := unfold_nd zero hs v
      have hg : g0 = g := by omega
      subst hg
      rw [hu, unfold_nd_succ zero g0 (find_of_subset hd hsub hm)]
      congr 1
      apply List.map_congr_left
      intro c' hc'
      exact ih c' (hc c' hc')

end Dump

namespace Errors
open Dump
variable {α : Type} [DecidableEq α]

/-- handles of `N` are fresh with respect to `D` and pairwise distinct -/
def freshFor (D N : Dump α) : Prop :=
  (∀ n ∈ N, ∀ m ∈ D, n.handle ≠ m.handle) ∧ (D ++ N).distinctOK = true

/-! ## Part 3: `apply` in the `Except` monad -/

section applyE
open DD
variable {β γ ε : Type} [DecidableEq β] [DecidableEq γ]

/-- `List.mapM` for `Except`, written out (first error wins, left to right) -/
def mapE {ι δ : Type} (F : ι → Except ε δ) : List ι → Except ε (List δ)
  | [] => .ok []
  | i :: is =>
    match F i with
    | .error e => .error e
    | .ok d =>
      match mapE F is with
      | .error e => .error e
      | .ok ds => .ok (d :: ds)

/-- the model's binary apply where the scalar operation may fail (division by zero, subtraction of
    infinity, a value that does not fit a terminal): the recursion of `DD.apply2`, children computed left to
    right, the first error aborts everything -/
def apply2E (Sa Sb Sc : Shape) (za : α) (zb : β) (zc : γ) (f : α → β → Except ε γ) :
    Nat → Option Nat → DD α → DD β → Except ε (DD γ)
  | 0, _, a, b =>
    match f (leafVal za a) (leafVal zb b) with
    | .ok v => .ok (.leaf v)
    | .error e => .error e
  | k+1, fi, a, b =>
    match mapE (fun i => apply2E Sa Sb Sc za zb zc f k (some i)
                  (cofactor Sa za (k+1) fi a i) (cofactor Sb zb (k+1) fi b i))
               (List.range (Sc.size (k+1))) with
    | .ok cs => .ok (mkNode Sc zc (k+1) fi cs)
    | .error e => .error e

theorem mapE_ok {ι δ : Type} {F : ι → Except ε δ} {G : ι → δ} :
    ∀ (l : List ι) (rs : List δ), mapE F l = .ok rs → (∀ i ∈ l, ∀ d, F i = .ok d → d = G i) → rs = l.map G
  | [], rs, h, _ => by simp [mapE] at h; simp [h]
  | i :: is, rs, h, hG => by
    simp only [mapE] at h
    cases hF : F i with
    | error e => simp [hF] at h
    | ok d =>
      simp only [hF] at h
      cases hr : mapE F is with
      | error e => simp [hr] at h
      | ok ds =>
        simp only [hr, Except.ok.injEq] at h
        rw [← h, List.map_cons, hG i (List.mem_cons_self) d hF,
          mapE_ok is ds hr (fun j hj => hG j (List.mem_cons_of_mem _ hj))]

theorem mapE_error {ι δ : Type} {F : ι → Except ε δ} :
    ∀ (l : List ι) (e : ε), mapE F l = .error e → ∃ i ∈ l, F i = .error e
  | [], e, h => by simp [mapE] at h
  | i :: is, e, h => by
    simp only [mapE] at h
    cases hF : F i with
    | error e' =>
      simp only [hF, Except.error.injEq] at h
      exact ⟨i, List.mem_cons_self, by rw [hF, h]⟩
    | ok d =>
      simp only [hF] at h
      cases hr : mapE F is with
      | error e' =>
        simp only [hr, Except.error.injEq] at h
        obtain ⟨j, hj, hjF⟩ := mapE_error is e' hr
        exact ⟨j, List.mem_cons_of_mem _ hj, by rw [hjF, h]⟩
      | ok ds => simp [hr] at h

end applyE


section applyE2
open DD
set_option linter.unusedSectionVars false
variable {β γ ε : Type} [DecidableEq β] [DecidableEq γ]

/-- total completion of a partial scalar operation (only used to name the result of an error-free run) -/
def orElse (zc : γ) (f : α → β → Except ε γ) (x : α) (y : β) : γ :=
  match f x y with
  | .ok v => v
  | .error _ => zc

theorem apply2E_ok_aux (Sa Sb Sc : Shape) (za : α) (zb : β) (zc : γ) (f : α → β → Except ε γ) :
    ∀ (k : Nat) (fi : Option Nat) (a : DD α) (b : DD β) (r : DD γ),
      apply2E Sa Sb Sc za zb zc f k fi a b = .ok r →
      r = apply2 Sa Sb Sc za zb zc (orElse zc f) k fi a b := by
  intro k
  induction k with
  | zero =>
    intro fi a b r h
    simp only [apply2E] at h
    cases hf : f (leafVal za a) (leafVal zb b) with
    | error e => simp [hf] at h
    | ok v =>
      simp only [hf, Except.ok.injEq] at h
      simp [apply2, orElse, hf, ← h]
  | succ k ih =>
    intro fi a b r h
    simp only [apply2E] at h
    cases hm : mapE (fun i => apply2E Sa Sb Sc za zb zc f k (some i)
                  (cofactor Sa za (k+1) fi a i) (cofactor Sb zb (k+1) fi b i))
               (List.range (Sc.size (k+1))) with
    | error e => simp [hm] at h
    | ok cs =>
      simp only [hm, Except.ok.injEq] at h
      have := mapE_ok (G := fun i => apply2 Sa Sb Sc za zb zc (orElse zc f) k (some i)
                  (cofactor Sa za (k+1) fi a i) (cofactor Sb zb (k+1) fi b i)) _ cs hm
        (fun i _ d hd => ih (some i) _ _ d hd)
      rw [← h, this]
      simp [apply2]

theorem apply2E_error_aux (Sa Sb Sc : Shape) (za : α) (zb : β) (zc : γ) (f : α → β → Except ε γ) :
    ∀ (k : Nat) (fi : Option Nat) (a : DD α) (b : DD β) (e : ε),
      apply2E Sa Sb Sc za zb zc f k fi a b = .error e → ∃ x y, f x y = .error e := by
  intro k
  induction k with
  | zero =>
    intro fi a b e h
    simp only [apply2E] at h
    cases hf : f (leafVal za a) (leafVal zb b) with
    | error e' =>
      simp only [hf, Except.error.injEq] at h
      exact ⟨_, _, by rw [hf, h]⟩
    | ok v => simp [hf] at h
  | succ k ih =>
    intro fi a b e h
    simp only [apply2E] at h
    cases hm : mapE (fun i => apply2E Sa Sb Sc za zb zc f k (some i)
                  (cofactor Sa za (k+1) fi a i) (cofactor Sb zb (k+1) fi b i))
               (List.range (Sc.size (k+1))) with
    | ok cs => simp [hm] at h
    | error e' =>
      simp only [hm, Except.error.injEq] at h
      obtain ⟨i, _, hi⟩ := mapE_error _ e' hm
      exact ih (some i) _ _ e (by rw [hi, h])

end applyE2

/-! ## Property theorems -/

section table

variable (op : OpKind) (ka kb kc : ForestKind) (dp : Doms)

/-- every row of the table over legal forest kinds satisfies the five facts of `goodCore` -/
theorem row_good (ha : ka.legal = true) (hb : kb.legal = true) (hc : kc.legal = true) :
    goodCore (precheck op ka kb kc dp) (compatibleA op ka.abs kb.abs kc.abs dp.allSame (ka == kc))
      (lax op ka kb kc dp.allSame) (compatibleA op ka.abs kb.abs kc.abs true (ka == kc))
      (decide (2 ≤ op.forests)) dp.allSame = true :=
  goodA_all op ka.abs kb.abs kc.abs (abs_legal ha) (abs_legal hb) (abs_legal hc) dp (ka == kc)

/-
  Full-strength statement asked for, NOT true of the code that exists:

      theorem precheck_total : ¬ compatible op ka kb kc dp.allSame → precheck op ka kb kc dp ≠ none

  It fails exactly on the calls described by `lax` (`lax_exact` below): documented requirements that no
  constructor tests — arithmetic on Boolean forests, comparison of index sets, a non-Boolean relation
  handed to an image / reachability operation, a reachability result outside the first operand's forest,
  vector-matrix products over mixed ranges.  What is missing for the full statement is the corresponding
  tests in the library (see NOTES.md).  None of these accepted calls crashes the library (every accepted
  row is computed by the harness).

  `dp : Doms` says how the forests of the call are spread over domains (`dp.allSame`: one domain); the
  documented requirements (`compatible`, `lax`) only ask whether it is one domain.
-/

/-- C16 (partial): a call that violates a documented requirement on the forests is refused by the
    constructor or factory with an error code — unless it belongs to the exactly characterised class `lax`
    of requirements the code never tests. -/
theorem precheck_total_partial (ha : ka.legal = true) (hb : kb.legal = true) (hc : kc.legal = true)
    (h : ¬ compatible op ka kb kc dp.allSame) (hl : lax op ka kb kc dp.allSame = false) :
    precheck op ka kb kc dp ≠ none := by
  have g := row_good op ka kb kc dp ha hb hc
  unfold compatible at h
  intro hp
  rw [hp, hl] at g
  simp [goodCore] at g
  exact h g.1

example : precheck .UNION ⟨false, .bool, .mt, .fully⟩ ⟨true, .bool, .mt, .ident⟩ ⟨false, .bool, .mt, .fully⟩ .same
    = some .TYPE_MISMATCH := by decide

/-- C16: every call the constructors accept either satisfies the documented requirements or belongs to
    `lax` (the contrapositive reading of `precheck_total_partial`). -/
theorem precheck_sound_partial (ha : ka.legal = true) (hb : kb.legal = true) (hc : kc.legal = true)
    (h : precheck op ka kb kc dp = none) (hl : lax op ka kb kc dp.allSame = false) :
    compatible op ka kb kc dp.allSame :=
  Classical.byContradiction fun hn => precheck_total_partial op ka kb kc dp ha hb hc hn hl h

example : precheck .PLUS ⟨false, .int, .evp, .fully⟩ ⟨false, .int, .evp, .quasi⟩ ⟨false, .int, .evp, .fully⟩ .same
    = none := by decide

/-- C16: `lax` is EXACTLY the set of calls that violate a documented requirement and are accepted all the
    same — the complete list of unenforced preconditions of the catalogue. -/
theorem lax_exact (ha : ka.legal = true) (hb : kb.legal = true) (hc : kc.legal = true) :
    lax op ka kb kc dp.allSame = true ↔
      (¬ compatible op ka kb kc dp.allSame ∧ precheck op ka kb kc dp = none) := by
  have g := row_good op ka kb kc dp ha hb hc
  unfold compatible
  cases hp : precheck op ka kb kc dp with
  | none =>
    rw [hp] at g
    simp [goodCore] at g
    cases hcp : compatibleA op ka.abs kb.abs kc.abs dp.allSame (ka == kc) <;> simp [hcp] at g ⊢ <;> exact g.1
  | some e =>
    rw [hp] at g
    have hl : lax op ka kb kc dp.allSame = false := by
      cases e <;> simp [goodCore] at g <;> first | exact g.1.1 | exact g.1
    simp [hl]

example : lax .PLUS ⟨false, .bool, .mt, .fully⟩ ⟨false, .bool, .mt, .fully⟩ ⟨false, .bool, .mt, .fully⟩ true
    = true := by decide

/-- C16 (converse direction): every call that satisfies the documented requirements is accepted: the
    constructors never refuse a legitimate call. -/
theorem precheck_complete (ha : ka.legal = true) (hb : kb.legal = true) (hc : kc.legal = true)
    (h : compatible op ka kb kc dp.allSame) : precheck op ka kb kc dp = none := by
  have g := row_good op ka kb kc dp ha hb hc
  unfold compatible at h
  rw [h] at g
  cases hp : precheck op ka kb kc dp with
  | none => rfl
  | some e => rw [hp] at g; cases e <;> simp [goodCore] at g

example : compatible .PRE_IMAGE ⟨false, .int, .mt, .fully⟩ ⟨true, .bool, .mt, .ident⟩ ⟨false, .int, .mt, .fully⟩ true := by
  decide

/-- C16 (former finding F1, repaired): the call on which the REACHABLE_TRAD_NOFS factory used to dereference
    a null image operation is refused with NOT_IMPLEMENTED, like every other combination no image operation
    exists for. -/
example : precheck .REACHABLE_TRAD_NOFS_FWD ⟨false, .int, .idx, .fully⟩ ⟨true, .bool, .mt, .ident⟩
    ⟨false, .int, .mt, .quasi⟩ .same = some .NOT_IMPLEMENTED := by decide

/-- C16 (former finding F2, repaired): a reachability result in another forest than the initial set is
    accepted (and computed); it stays listed in `lax` because ops_builtin.h still asks for the same forest. -/
example : precheck .REACHABLE_TRAD_FS_FWD ⟨false, .bool, .mt, .fully⟩ ⟨true, .bool, .mt, .ident⟩
    ⟨false, .bool, .mt, .quasi⟩ .same = none ∧
    lax .REACHABLE_TRAD_FS_FWD ⟨false, .bool, .mt, .fully⟩ ⟨true, .bool, .mt, .ident⟩
    ⟨false, .bool, .mt, .quasi⟩ true = true := by decide

/-- the order of the tests is observable: with only the first operand in another domain the traditional
    reachability factories meet the shape of the relation before the first operand's domain -/
example : precheck .REACHABLE_TRAD_NOFS_BWD ⟨false, .bool, .mt, .fully⟩ ⟨false, .bool, .mt, .fully⟩
    ⟨false, .bool, .mt, .fully⟩ .firstOnly = some .TYPE_MISMATCH ∧
    precheck .REACHABLE_TRAD_NOFS_BWD ⟨false, .bool, .mt, .fully⟩ ⟨false, .bool, .mt, .fully⟩
    ⟨false, .bool, .mt, .fully⟩ .split = some .DOMAIN_MISMATCH := by decide

/-- C16: the constructors report DOMAIN_MISMATCH only when the forests really live in different domains,
    and raise no code other than DOMAIN_MISMATCH, TYPE_MISMATCH and NOT_IMPLEMENTED (in particular, no
    outcome of the table is a crash). -/
theorem codes_documented (ha : ka.legal = true) (hb : kb.legal = true) (hc : kc.legal = true)
    (e : ErrCode) (h : precheck op ka kb kc dp = some e) :
    (e = .DOMAIN_MISMATCH → dp.allSame = false) ∧
    (e = .DOMAIN_MISMATCH ∨ e = .TYPE_MISMATCH ∨ e = .NOT_IMPLEMENTED) := by
  have g := row_good op ka kb kc dp ha hb hc
  rw [h] at g
  cases e <;> simp [goodCore] at g <;> simp [g]

example : precheck .COPY ⟨false, .int, .mt, .fully⟩ ⟨false, .int, .mt, .fully⟩ ⟨true, .int, .mt, .ident⟩ .split
    = some .TYPE_MISMATCH := by decide

/-- C16: a call whose ONLY defect is that the forests belong to different domains — however they are
    spread — is reported as DOMAIN_MISMATCH (not as some other code, and not accepted). -/
theorem domain_only (ha : ka.legal = true) (hb : kb.legal = true) (hc : kc.legal = true)
    (h2 : 2 ≤ op.forests) (h : compatible op ka kb kc true) (hd : dp.allSame = false) :
    precheck op ka kb kc dp = some .DOMAIN_MISMATCH := by
  have g := row_good op ka kb kc dp ha hb hc
  unfold compatible at h
  rw [h, hd] at g
  cases hp : precheck op ka kb kc dp with
  | none => rw [hp] at g; simp [goodCore, h2] at g
  | some e => rw [hp] at g; cases e <;> simp [goodCore, h2] at g <;> rfl

example : precheck .DIVIDE ⟨true, .real, .evt, .ident⟩ ⟨true, .real, .evt, .ident⟩ ⟨true, .real, .evt, .ident⟩ .split
    = some .DOMAIN_MISMATCH := by decide

end table

section values

/-- C16: the documented range of integer terminals (`fitsInt`, the oracle of the `fit` records) is exactly
    the range on which the REGENERATED encoder of terminal.h succeeds: a value outside raises
    VALUE_OVERFLOW (the only `throw` of `getIntegerHandle`), a value inside is encoded. -/
theorem value_overflow_documented (v : BitVec 64) :
    (fitsInt v.toInt = false → Gen.Terminal.encInt v = .error ()) ∧
    (fitsInt v.toInt = true → ∃ h, Gen.Terminal.encInt v = .ok h) := by
  have hiff : fitsInt v.toInt = true ↔ C19.inRange v := by
    simp [fitsInt, C19.inRange]
  constructor
  · intro h
    exact C19.int_overflow (fun hr => by rw [hiff.2 hr] at h; cases h)
  · intro h
    have := C19.int_roundtrip (hiff.1 h)
    cases he : Gen.Terminal.encInt v with
    | ok x => exact ⟨x, rfl⟩
    | error u => rw [he] at this; cases this

example : fitsInt 1073741823 = true ∧ fitsInt 1073741824 = false ∧ fitsInt (-1073741824) = true ∧
    fitsInt (-1073741825) = false := by decide

end values

section store
open Dump

/-- C16 (any depth): whatever an aborted operation leaves behind in the node store — nodes with fresh
    handles, referenced by nobody — a handle obtained before still unfolds to the same tree. -/
theorem insert_monotone {D D' : Dump α} (zero : α) (hs : D.storeOK = true)
    (hd : D'.distinctOK = true) (hsub : ∀ n ∈ D, n ∈ D') (f : Nat) (c : Child α)
    (v : D.childOK f c = true) : D'.unfold zero f c = D.unfold zero f c :=
  unfold_of_subset zero hs hd hsub f c v

example :
    let D : Dump Nat := [⟨1, 1, [.tm 0, .tm 1]⟩, ⟨2, 2, [.nd 1, .tm 0, .tm 1]⟩]
    let D' : Dump Nat := ⟨7, 2, [.tm 5, .nd 1, .tm 0]⟩ :: D ++ [⟨9, 1, [.tm 2, .tm 2]⟩]
    D'.unfold 0 2 (.nd 2) = D.unfold 0 2 (.nd 2) ∧ D.unfold 0 2 (.nd 2) ≠ .leaf 0 := by decide

/-- C16: after an error every previously obtained edge still denotes the same function (evaluation of the
    handle in the grown store equals evaluation in the old store, at every assignment), and stays in
    canonical form; hence two old edges are still equal iff they denote the same function. -/
theorem error_keeps_state (S : Shape) (zero : α) {D D' : Dump α} (roots : List (Child α))
    (hchk : Dump.check S zero D roots = true)
    (hd : D'.distinctOK = true) (hsub : ∀ n ∈ D, n ∈ D') :
    ∀ r ∈ roots,
      D'.unfold zero S.top r = D.unfold zero S.top r ∧
      (∀ a, evalChild S zero D' r a = evalChild S zero D r a) ∧
      DD.Red S zero S.top none (D'.unfold zero S.top r) = true := by
  intro r hr
  have hred := check_sound S zero D roots hchk r hr
  simp only [check, Bool.and_eq_true] at hchk
  obtain ⟨⟨hs, _⟩, hroots⟩ := hchk
  have hv : D.childOK S.top r = true := by
    have := List.all_eq_true.1 hroots r hr
    simp only [rootOK, Bool.and_eq_true] at this
    exact this.1
  have hu := insert_monotone zero hs hd hsub S.top r hv
  refine ⟨hu, ?_, ?_⟩
  · intro a; simp only [evalChild, hu]
  · rw [hu]; exact hred

example :
    let S : Shape := { top := 2, size := fun p => if p = 2 then 3 else 2, mode := fun _ => .red }
    let D : Dump Nat := [⟨1, 1, [.tm 0, .tm 1]⟩, ⟨2, 2, [.nd 1, .tm 0, .tm 1]⟩]
    Dump.check S 0 D [.nd 2, .nd 1] = true := by decide

end store

section applyEprops
open DD
variable {β γ ε : Type} [DecidableEq β] [DecidableEq γ]

/-- C16 (any depth): an operation whose scalar function fails somewhere either fails as a whole with an
    error that the scalar function really raised on some pair of operand values, or — if the failing
    pair is never reached — returns exactly the result of the total operation; there is no third
    outcome (no partially built or wrong result). -/
theorem apply2E_sound (Sa Sb Sc : Shape) (za : α) (zb : β) (zc : γ) (f : α → β → Except ε γ)
    (k : Nat) (fi : Option Nat) (a : DD α) (b : DD β) :
    (∃ e, apply2E Sa Sb Sc za zb zc f k fi a b = .error e ∧ ∃ x y, f x y = .error e) ∨
    apply2E Sa Sb Sc za zb zc f k fi a b = .ok (apply2 Sa Sb Sc za zb zc (orElse zc f) k fi a b) := by
  cases h : apply2E Sa Sb Sc za zb zc f k fi a b with
  | error e => exact .inl ⟨e, rfl, apply2E_error_aux Sa Sb Sc za zb zc f k fi a b e h⟩
  | ok r => exact .inr (by rw [apply2E_ok_aux Sa Sb Sc za zb zc f k fi a b r h])

example :
    let S : Shape := { top := 2, size := fun _ => 2, mode := fun _ => .red }
    let dv : Int → Int → Except String Int := fun x y => if y = 0 then .error "DIVIDE_BY_ZERO" else .ok (x / y)
    let a : DD Int := .node 2 [.node 1 [.leaf 6, .leaf 8], .leaf 9]
    let b : DD Int := .node 2 [.leaf 2, .node 1 [.leaf 3, .leaf 0]]
    (match apply2E S S S 0 0 0 dv 2 none a b with | .error e => e | .ok _ => "ok") = "DIVIDE_BY_ZERO" := by
  decide

end applyEprops

/-
#print axioms (Lean 4.33, core only; `decide +kernel` adds no axiom):

'Meddly.Errors.precheck_total_partial' depends on axioms: [propext, Quot.sound]
'Meddly.Errors.precheck_sound_partial' depends on axioms: [propext, Classical.choice, Quot.sound]
'Meddly.Errors.lax_exact' depends on axioms: [propext, Quot.sound]
'Meddly.Errors.precheck_complete' depends on axioms: [propext, Quot.sound]
'Meddly.Errors.codes_documented' depends on axioms: [propext, Quot.sound]
'Meddly.Errors.domain_only' depends on axioms: [propext, Quot.sound]
'Meddly.Errors.insert_monotone' depends on axioms: [propext, Classical.choice, Quot.sound]
'Meddly.Errors.error_keeps_state' depends on axioms: [propext, Classical.choice, Quot.sound]
'Meddly.Errors.apply2E_sound' depends on axioms: [propext]
'Meddly.Errors.goodA_all' depends on axioms: [propext, Quot.sound]
-/
end Errors
end Meddly
