/-
  C13 — variable reordering.

  MEDDLY reorders a forest by a *schedule of adjacent swaps*
  (`forest::reorderVariables` → `reordering_factory::create(policy)` →
  `swapAdjacentVariables(level)` repeatedly; src/reordering/*.h).  The eight
  heuristics differ only in WHICH adjacent inversion (w.r.t. the target order)
  they swap next.

  Part A (orders).  `Order = List Nat` (level ↦ variable, level 1 first),
  `swapAdj`, `inversions` w.r.t. a key (`var2level` of the target, as computed
  by the heuristics), schedules of adjacent inversions: every swap of an
  adjacent inversion removes exactly one inversion, an order without adjacent
  inversion IS the target, hence every heuristic that only swaps adjacent
  inversions ends at the target after exactly `inversions` swaps — whatever it
  picks.

  Part B (functions and trees).  `swapA k` exchanges the values of positions
  `k` and `k+1` of an assignment.  `swapAdjDD S S' zero k` is the adjacent swap
  on decision-diagram trees for forests without identity-reduced positions
  (fully-reduced and quasi-reduced multi-terminal SETS): nodes above `k+1` are
  rebuilt over their swapped children, the two levels `k+1, k` are rebuilt with
  `mkNode` (the model of `createReducedNode`) from the cofactors
  `d[i][j] ↦ [j][i]`, everything below `k` is left untouched.  This covers the
  three classes of nodes of `mtmdd_forest::swapAdjacentVariables`: upper nodes
  independent of the lower variable (they are only relabelled: `mkNode` at a
  `red` position eliminates the redundant new upper node), lower nodes
  (relabelled upwards: the rebuilt lower nodes are redundant), dependent upper
  nodes (rebuilt; the code overwrites them IN PLACE without looking for
  duplicates — `swap_canonical` is the semantic argument that none can arise).

  Part C ties A and B: the function OF THE VARIABLES denoted by a tree under an
  order (`varAssign`) is unchanged by every adjacent swap, hence by every
  schedule — inversions or not (the `lowest_memory` heuristic swaps
  tentatively and undoes).

  Relations (variable swap of four levels, identity-reduced skipping) and EV+
  edge values are covered at the function level only (`swapVars`, part A and
  the differential run); see the `_partial` remarks at the end.
-/
import MeddlyModel.Core.DD
import MeddlyModel.Core.Canon
import MeddlyModel.Ops.Apply
import MeddlyModel.Ops.ApplyProofs

namespace Meddly

set_option linter.unusedSectionVars false
set_option linter.unusedVariables false

namespace Reorder

/-! ## Part A — orders, inversions, schedules -/

/-- level ↦ variable, level 1 first (`getVariableOrder` without the leading 0) -/
abbrev Order := List Nat

/-- exchange the entries at (0-based) indices `i` and `i+1`, i.e. the variables
    at levels `i+1` and `i+2` (`variable_order::exchange`) -/
def swapAdj : Nat → List Nat → List Nat
  | 0, x :: y :: r => y :: x :: r
  | i+1, x :: r => x :: swapAdj i r
  | _, l => l

/-- number of entries of `l` whose key is smaller than the key of `x` -/
def below (key : Nat → Nat) (x : Nat) (l : List Nat) : Nat :=
  (l.filter (fun y => decide (key y < key x))).length

/-- number of inversions of `l` w.r.t. `key` (pairs in the wrong order) -/
def inversions (key : Nat → Nat) : List Nat → Nat
  | [] => 0
  | x :: r => below key x r + inversions key r

/-- is there an inversion between indices `i` and `i+1`?  (the test
    `var2level[getVarByLevel(level)] > var2level[getVarByLevel(level+1)]` of the heuristics) -/
def adjInv (key : Nat → Nat) : List Nat → Nat → Bool
  | x :: y :: _, 0 => decide (key y < key x)
  | _ :: r, i+1 => adjInv key r i
  | _, _ => false

theorem swapAdj_length : ∀ (i : Nat) (l : List Nat), (swapAdj i l).length = l.length
  | 0, [] => rfl
  | 0, [_] => rfl
  | 0, _ :: _ :: _ => rfl
  | _+1, [] => rfl
  | i+1, x :: r => by
    show (x :: swapAdj i r).length = (x :: r).length
    rw [List.length_cons, List.length_cons, swapAdj_length i r]

theorem swapAdj_perm : ∀ (i : Nat) (l : List Nat), (swapAdj i l).Perm l
  | 0, [] => List.Perm.refl _
  | 0, [_] => List.Perm.refl _
  | 0, x :: y :: r => List.Perm.swap x y r
  | _+1, [] => List.Perm.refl _
  | i+1, x :: r => List.Perm.cons x (swapAdj_perm i r)

theorem below_cons (key : Nat → Nat) (x y : Nat) (l : List Nat) :
    below key x (y :: l) = (if key y < key x then 1 else 0) + below key x l := by
  unfold below
  rw [List.filter_cons]
  by_cases h : key y < key x
  · simp [h]; omega
  · simp [h]

theorem below_swapAdj (key : Nat → Nat) (x : Nat) :
    ∀ (i : Nat) (l : List Nat), below key x (swapAdj i l) = below key x l
  | 0, [] => rfl
  | 0, [_] => rfl
  | 0, a :: b :: r => by
    show below key x (b :: a :: r) = below key x (a :: b :: r)
    rw [below_cons, below_cons, below_cons, below_cons]; omega
  | _+1, [] => rfl
  | i+1, a :: r => by
    show below key x (a :: swapAdj i r) = below key x (a :: r)
    rw [below_cons, below_cons, below_swapAdj key x i r]

/-- Swapping an adjacent inversion removes exactly one inversion. -/
theorem swap_removes_one (key : Nat → Nat) :
    ∀ (i : Nat) (l : List Nat), adjInv key l i = true →
      inversions key (swapAdj i l) + 1 = inversions key l
  | 0, [], h => by cases h
  | 0, [_], h => by cases h
  | 0, x :: y :: r, h => by
    have hyx : key y < key x := by simpa [adjInv] using h
    show inversions key (y :: x :: r) + 1 = inversions key (x :: y :: r)
    simp only [inversions]
    rw [below_cons, below_cons]
    have h1 : ¬ key x < key y := by omega
    simp only [h1, hyx, if_true, if_false]
    omega
  | _+1, [], h => by cases h
  | i+1, x :: r, h => by
    have h' : adjInv key r i = true := by
      cases r with
      | nil => cases i <;> cases h
      | cons y r' => simpa [adjInv] using h
    show inversions key (x :: swapAdj i r) + 1 = inversions key (x :: r)
    simp only [inversions]
    rw [below_swapAdj key x i r]
    have := swap_removes_one key i r h'
    omega

/-- no adjacent inversion ⇒ sorted by key -/
theorem pairwise_of_no_adjInv (key : Nat → Nat) :
    ∀ (l : List Nat), (∀ i, adjInv key l i = false) → l.Pairwise (fun a b => key a ≤ key b)
  | [], _ => List.Pairwise.nil
  | [x], _ => by simp
  | x :: y :: r, h => by
    have h0 : ¬ key y < key x := by
      have := h 0
      simpa [adjInv] using this
    have hr : ∀ i, adjInv key (y :: r) i = false := fun i => by
      have := h (i+1)
      simpa [adjInv] using this
    have ih := pairwise_of_no_adjInv key (y :: r) hr
    rw [List.pairwise_cons]
    refine ⟨?_, ih⟩
    intro b hb
    rw [List.mem_cons] at hb
    rcases hb with rfl | hb
    · omega
    · have := (List.pairwise_cons.mp ih).1 b hb
      omega

theorem inversions_pos_of_adjInv (key : Nat → Nat) (i : Nat) (l : List Nat)
    (h : adjInv key l i = true) : 0 < inversions key l := by
  have := swap_removes_one key i l h
  omega

/-- the key the heuristics compute from the target: `var2level[level2var[i]] = i` -/
def rank (target : Order) (v : Nat) : Nat := target.idxOf v

theorem target_sorted (target : Order) (hn : target.Nodup) :
    target.Pairwise (fun a b => rank target a ≤ rank target b) := by
  rw [List.pairwise_iff_getElem]
  intro i j hi hj hij
  show target.idxOf target[i] ≤ target.idxOf target[j]
  rw [hn.idxOf_getElem i hi, hn.idxOf_getElem j hj]
  omega

theorem rank_inj (target : Order) {a b : Nat} (ha : a ∈ target) (hb : b ∈ target)
    (h : rank target a = rank target b) : a = b := by
  have h1 : target.idxOf a < target.length := List.idxOf_lt_length_of_mem ha
  have h2 : target.idxOf b < target.length := List.idxOf_lt_length_of_mem hb
  have e1 := List.getElem_idxOf h1
  have e2 := List.getElem_idxOf h2
  unfold rank at h
  rw [← e1, ← e2]
  congr 1

/-- An order over the target's variables without adjacent inversion IS the target. -/
theorem no_adjInv_is_target (target o : Order) (hn : target.Nodup) (hp : o.Perm target)
    (h : ∀ i, adjInv (rank target) o i = false) : o = target := by
  apply List.Perm.eq_of_pairwise (le := fun a b => rank target a ≤ rank target b) _
    (pairwise_of_no_adjInv _ o h) (target_sorted target hn) hp
  intro a b ha hb h1 h2
  exact rank_inj target (hp.subset ha) hb (Nat.le_antisymm h1 h2)

/-- a schedule: the list of (0-based) indices swapped, in order -/
def applySchedule : List Nat → Order → Order
  | [], o => o
  | i :: is, o => applySchedule is (swapAdj i o)

/-- every swap of the schedule is an adjacent inversion at the time it is done -/
def ValidSchedule (key : Nat → Nat) : List Nat → Order → Prop
  | [], _ => True
  | i :: is, o => adjInv key o i = true ∧ ValidSchedule key is (swapAdj i o)

instance decValidSchedule (key : Nat → Nat) : ∀ (is : List Nat) (o : Order),
    Decidable (ValidSchedule key is o)
  | [], _ => isTrue trivial
  | i :: is, o =>
    match decEq (adjInv key o i) true, decValidSchedule key is (swapAdj i o) with
    | isTrue h1, isTrue h2 => isTrue ⟨h1, h2⟩
    | isFalse h1, _ => isFalse (fun h => h1 h.1)
    | _, isFalse h2 => isFalse (fun h => h2 h.2)

theorem applySchedule_perm : ∀ (is : List Nat) (o : Order), (applySchedule is o).Perm o
  | [], o => List.Perm.refl _
  | i :: is, o => (applySchedule_perm is (swapAdj i o)).trans (swapAdj_perm i o)

/-- A schedule of adjacent inversions of length `n` removes exactly `n` inversions. -/
theorem schedule_length (key : Nat → Nat) :
    ∀ (is : List Nat) (o : Order), ValidSchedule key is o →
      inversions key (applySchedule is o) + is.length = inversions key o
  | [], o, _ => by simp [applySchedule]
  | i :: is, o, h => by
    have h1 := swap_removes_one key i o h.1
    have h2 := schedule_length key is (swapAdj i o) h.2
    simp only [applySchedule, List.length_cons]
    omega

/-- a heuristic: given the current order, which index to swap next (`none` = stop) -/
def run (pick : Order → Option Nat) : Nat → Order → Order
  | 0, o => o
  | n+1, o =>
    match pick o with
    | none => o
    | some i => run pick n (swapAdj i o)

theorem run_perm (pick : Order → Option Nat) : ∀ (n : Nat) (o : Order), (run pick n o).Perm o
  | 0, o => List.Perm.refl _
  | n+1, o => by
    unfold run
    cases pick o with
    | none => exact List.Perm.refl _
    | some i => exact (run_perm pick n (swapAdj i o)).trans (swapAdj_perm i o)

theorem run_no_adjInv (key : Nat → Nat) (pick : Order → Option Nat)
    (hsound : ∀ o i, pick o = some i → adjInv key o i = true)
    (hcomplete : ∀ o, pick o = none → ∀ i, adjInv key o i = false) :
    ∀ (n : Nat) (o : Order), inversions key o ≤ n → ∀ i, adjInv key (run pick n o) i = false
  | 0, o, hn, i => by
    show adjInv key o i = false
    cases h : adjInv key o i with
    | false => rfl
    | true => have := inversions_pos_of_adjInv key i o h; omega
  | n+1, o, hn, i => by
    unfold run
    cases hp : pick o with
    | none => exact hcomplete o hp i
    | some j =>
      have h1 := swap_removes_one key j o (hsound o j hp)
      exact run_no_adjInv key pick hsound hcomplete n (swapAdj j o) (by omega) i

end Reorder

/-! ## Part B — the adjacent swap on functions and on trees -/

namespace DD
variable {α : Type} [DecidableEq α]

/-- exchange the values of positions `k` and `k+1` -/
def swapA (k : Nat) (a : Assign) : Assign :=
  fun p => if p = k then a (k+1) else if p = k+1 then a k else a p

/-- the function with the roles of positions `k` and `k+1` exchanged -/
def swapVars (k : Nat) (f : Assign → α) : Assign → α := fun a => f (swapA k a)

theorem swapA_lo (k : Nat) (a : Assign) : swapA k a k = a (k+1) := by simp [swapA]
theorem swapA_hi (k : Nat) (a : Assign) : swapA k a (k+1) = a k := by simp [swapA]
theorem swapA_other (k : Nat) (a : Assign) {p : Nat} (h1 : p ≠ k) (h2 : p ≠ k+1) :
    swapA k a p = a p := by simp [swapA, h1, h2]
theorem swapA_swapA (k : Nat) (a : Assign) : swapA k (swapA k a) = a := by
  funext p
  by_cases h1 : p = k
  · subst h1; rw [swapA_lo, swapA_hi]
  · by_cases h2 : p = k+1
    · subst h2; rw [swapA_hi, swapA_lo]
    · rw [swapA_other k _ h1 h2, swapA_other k _ h1 h2]

/-- `S'` is `S` with the variables at positions `k` and `k+1` exchanged: same
    number of positions, same skipping modes, sizes of `k` and `k+1` exchanged. -/
structure SwapShape (S S' : Shape) (k : Nat) : Prop where
  top : S'.top = S.top
  mode : ∀ p, S'.mode p = S.mode p
  size_lo : S'.size k = S.size (k+1)
  size_hi : S'.size (k+1) = S.size k
  size_other : ∀ p, p ≠ k → p ≠ k+1 → S'.size p = S.size p

/-- no identity-reduced position: fully-reduced or quasi-reduced forests (all set forests) -/
def NoIdent (S : Shape) : Prop := ∀ p, S.mode p ≠ .ident

theorem SwapShape.symm {S S' : Shape} {k : Nat} (h : SwapShape S S' k) : SwapShape S' S k where
  top := h.top.symm
  mode := fun p => (h.mode p).symm
  size_lo := h.size_hi.symm
  size_hi := h.size_lo.symm
  size_other := fun p h1 h2 => (h.size_other p h1 h2).symm

theorem SwapShape.noIdent {S S' : Shape} {k : Nat} (h : SwapShape S S' k) (hn : NoIdent S) :
    NoIdent S' := fun p => by rw [h.mode p]; exact hn p

theorem SwapShape.wf {S S' : Shape} {k : Nat} (h : SwapShape S S' k) (hS : S.WF) (hn : NoIdent S)
    (hk : 1 ≤ k) (hk1 : k + 1 ≤ S.top) : S'.WF where
  size_ge := by
    intro p h1 h2
    rw [h.top] at h2
    by_cases e1 : p = k
    · subst e1; rw [h.size_lo]; exact hS.size_ge _ (by omega) hk1
    · by_cases e2 : p = k+1
      · subst e2; rw [h.size_hi]; exact hS.size_ge _ hk (by omega)
      · rw [h.size_other p e1 e2]; exact hS.size_ge p h1 h2
  ident_below_red := by
    intro p hp
    exact absurd hp (h.noIdent hn p)

theorem SwapShape.valid {S S' : Shape} {k : Nat} (h : SwapShape S S' k) (hk : 1 ≤ k)
    (hk1 : k + 1 ≤ S.top) {a : Assign} (ha : Assign.Valid S' a) : Assign.Valid S (swapA k a) := by
  intro p h1 h2
  by_cases e1 : p = k
  · subst e1; rw [swapA_lo, ← h.size_hi]; exact ha _ (by omega) (by rw [h.top]; exact hk1)
  · by_cases e2 : p = k+1
    · subst e2; rw [swapA_hi, ← h.size_lo]; exact ha _ hk (by rw [h.top]; omega)
    · rw [swapA_other k a e1 e2, ← h.size_other p e1 e2]; exact ha p h1 (by rw [h.top]; exact h2)

/-- `eval` depends on the shape only through the skipping modes -/
theorem swapEval_mode_congr (S S' : Shape) (zero : α) (hm : ∀ p, S'.mode p = S.mode p) :
    ∀ (p : Nat) (d : DD α) (a : Assign), eval S' zero p d a = eval S zero p d a := by
  intro p
  induction p with
  | zero => intro d a; cases d <;> rfl
  | succ p ih =>
    intro d a
    rcases storedAt_cases (p+1) d with ⟨cs, rfl⟩ | hd
    · rw [eval_succ_node, eval_succ_node, ih]
    · rw [eval_succ_skip S' zero p a hd, eval_succ_skip S zero p a hd, hm (p+1), ih]

/-- The adjacent swap on trees, read from position `p` downwards. -/
def swapAdjDD (S S' : Shape) (zero : α) (k : Nat) : Nat → DD α → DD α
  | 0, d => d
  | p+1, d =>
    if p + 1 ≤ k then d
    else if p = k then
      mkNode S' zero (k+1) none ((List.range (S.size k)).map fun j =>
        mkNode S' zero k none ((List.range (S.size (k+1))).map fun i =>
          cofactor S zero k none (cofactor S zero (k+1) none d i) j))
    else
      mkNode S' zero (p+1) none ((List.range (S.size (p+1))).map fun i =>
        swapAdjDD S S' zero k p (cofactor S zero (p+1) none d i))

theorem swapAdjDD_below (S S' : Shape) (zero : α) (k : Nat) {p : Nat} (h : p ≤ k) (d : DD α) :
    swapAdjDD S S' zero k p d = d := by
  cases p with
  | zero => rfl
  | succ p => rw [swapAdjDD, if_pos h]

theorem swapAdjDD_at (S S' : Shape) (zero : α) (k : Nat) (d : DD α) :
    swapAdjDD S S' zero k (k+1) d =
      mkNode S' zero (k+1) none ((List.range (S.size k)).map fun j =>
        mkNode S' zero k none ((List.range (S.size (k+1))).map fun i =>
          cofactor S zero k none (cofactor S zero (k+1) none d i) j)) := by
  rw [swapAdjDD, if_neg (by omega), if_pos rfl]

theorem swapAdjDD_above (S S' : Shape) (zero : α) (k : Nat) {p : Nat} (h : k + 1 ≤ p) (d : DD α) :
    swapAdjDD S S' zero k (p+1) d =
      mkNode S' zero (p+1) none ((List.range (S.size (p+1))).map fun i =>
        swapAdjDD S S' zero k p (cofactor S zero (p+1) none d i)) := by
  rw [swapAdjDD, if_neg (by omega), if_neg (by omega)]

/-- the inner list of the rebuilt pair: children are below `k-1` and well shaped -/
theorem swap_inner_ok (S : Shape) (zero : α) (k' : Nat) (d : DD α) (hw : WFTree d)
    (hb : Below (k'+1+1) d) (i j : Nat) :
    Below k' (cofactor S zero (k'+1) none (cofactor S zero (k'+1+1) none d i) j) ∧
    WFTree (cofactor S zero (k'+1) none (cofactor S zero (k'+1+1) none d i) j) := by
  have hw1 := cofactor_WFTree S zero (k'+1+1) none d i hw
  have hb1 := cofactor_Below S zero (k'+1) none d i hw hb
  exact ⟨cofactor_Below S zero k' none _ j hw1 hb1, cofactor_WFTree S zero (k'+1) none _ j hw1⟩

/-- The swapped tree is well shaped and stays below its position. -/
theorem swapAdjDD_Below_WFTree (S S' : Shape) (zero : α) (k : Nat) (hk : 1 ≤ k) :
    ∀ (p : Nat) (d : DD α), WFTree d → Below p d →
      Below p (swapAdjDD S S' zero k p d) ∧ WFTree (swapAdjDD S S' zero k p d) := by
  intro p
  induction p with
  | zero => intro d hw hb; exact ⟨hb, hw⟩
  | succ p ih =>
    intro d hw hb
    by_cases h1 : p + 1 ≤ k
    · rw [swapAdjDD_below S S' zero k h1]; exact ⟨hb, hw⟩
    · by_cases h2 : p = k
      · subst h2
        obtain ⟨k', rfl⟩ : ∃ k', p = k'+1 := ⟨p-1, by omega⟩
        rw [swapAdjDD_at]
        have hin : ∀ c, c ∈ ((List.range (S.size (k'+1))).map fun j =>
            mkNode S' zero (k'+1) none ((List.range (S.size (k'+1+1))).map fun i =>
              cofactor S zero (k'+1) none (cofactor S zero (k'+1+1) none d i) j)) →
            Below (k'+1) c ∧ WFTree c := by
          intro c hc
          obtain ⟨j, _, rfl⟩ := List.mem_map.mp hc
          have hc2 : ∀ c, c ∈ ((List.range (S.size (k'+1+1))).map fun i =>
              cofactor S zero (k'+1) none (cofactor S zero (k'+1+1) none d i) j) →
              Below k' c ∧ WFTree c := by
            intro c hc
            obtain ⟨i, _, rfl⟩ := List.mem_map.mp hc
            exact swap_inner_ok S zero k' d hw hb i j
          exact ⟨mkNode_Below S' zero k' none _ (fun c h => (hc2 c h).1),
            mkNode_WFTree S' zero k' none _ (fun c h => (hc2 c h).1) (fun c h => (hc2 c h).2)⟩
        exact ⟨mkNode_Below S' zero (k'+1) none _ (fun c h => (hin c h).1),
          mkNode_WFTree S' zero (k'+1) none _ (fun c h => (hin c h).1) (fun c h => (hin c h).2)⟩
      · rw [swapAdjDD_above S S' zero k (by omega)]
        have hc : ∀ c, c ∈ ((List.range (S.size (p+1))).map fun i =>
            swapAdjDD S S' zero k p (cofactor S zero (p+1) none d i)) → Below p c ∧ WFTree c := by
          intro c hc
          obtain ⟨i, _, rfl⟩ := List.mem_map.mp hc
          exact ih _ (cofactor_WFTree S zero (p+1) none d i hw) (cofactor_Below S zero p none d i hw hb)
        exact ⟨mkNode_Below S' zero p none _ (fun c h => (hc c h).1),
          mkNode_WFTree S' zero p none _ (fun c h => (hc c h).1) (fun c h => (hc c h).2)⟩

/-- The rebuilt pair of levels denotes the function with the two positions exchanged. -/
theorem swapAdjDD_eval_at (S S' : Shape) (zero : α) (k : Nat) (h : SwapShape S S' k)
    (hn : NoIdent S) (hk : 1 ≤ k) (hk1 : k + 1 ≤ S.top) (d : DD α) (hw : WFTree d)
    (hb : Below (k+1) d) (a : Assign) (ha : Assign.Valid S' a) :
    eval S' zero (k+1) (swapAdjDD S S' zero k (k+1) d) a = eval S zero (k+1) d (swapA k a) := by
  obtain ⟨k', rfl⟩ : ∃ k', k = k'+1 := ⟨k-1, by omega⟩
  have hn' := h.noIdent hn
  have ha1 : a (k'+1+1) < S.size (k'+1) := by
    rw [← h.size_hi]; exact ha _ (by omega) (by rw [h.top]; exact hk1)
  have ha0 : a (k'+1) < S.size (k'+1+1) := by
    rw [← h.size_lo]; exact ha _ (by omega) (by rw [h.top]; omega)
  rw [swapAdjDD_at]
  -- upper rebuilt level
  rw [mkNode_eval_lt S' zero (k'+1) none _ a (by rw [length_map_range, h.size_hi])
      (by rw [h.size_hi]; exact ha1)
      (fun c hc => by
        obtain ⟨j, _, rfl⟩ := List.mem_map.mp hc
        exact mkNode_Below S' zero k' none _ (fun c hc => by
          obtain ⟨i, _, rfl⟩ := List.mem_map.mp hc
          exact (swap_inner_ok S zero k' d hw hb i j).1))
      (fun hm => absurd hm (hn' _)),
    getD_map_range _ _ _ ha1]
  -- lower rebuilt level
  rw [mkNode_eval_lt S' zero k' none _ a (by rw [length_map_range, h.size_lo])
      (by rw [h.size_lo]; exact ha0)
      (fun c hc => by
        obtain ⟨i, _, rfl⟩ := List.mem_map.mp hc
        exact (swap_inner_ok S zero k' d hw hb i _).1)
      (fun hm => absurd hm (hn' _)),
    getD_map_range _ _ _ ha0]
  -- the untouched part below reads neither position
  rw [swapEval_mode_congr S S' zero h.mode]
  rw [eval_congr S zero k' _ a (swapA (k'+1) a)
      (fun p hp => (swapA_other (k'+1) a (by omega) (by omega)).symm)
      (fun hm => absurd hm (hn _))]
  -- and this is the double cofactor of `d` at the exchanged values
  rw [cofactor_eval S zero (k'+1) none d (swapA (k'+1) a) (fun hm => absurd hm (hn _)),
    cofactor_eval S zero k' none _ (swapA (k'+1) a) (fun hm => absurd hm (hn _)),
    swapA_hi, swapA_lo]

/-- `swapAdjDD` denotes the function with positions `k`, `k+1` exchanged (from any position
    above the pair). -/
theorem swapAdjDD_eval_above (S S' : Shape) (zero : α) (k : Nat) (h : SwapShape S S' k)
    (hn : NoIdent S) (hk : 1 ≤ k) :
    ∀ (n : Nat) (d : DD α), k + 1 + n ≤ S.top → WFTree d → Below (k+1+n) d →
      ∀ (a : Assign), Assign.Valid S' a →
      eval S' zero (k+1+n) (swapAdjDD S S' zero k (k+1+n) d) a
        = eval S zero (k+1+n) d (swapA k a) := by
  intro n
  induction n with
  | zero =>
    intro d ht hw hb a ha
    exact swapAdjDD_eval_at S S' zero k h hn hk ht d hw hb a ha
  | succ n ih =>
    intro d ht hw hb a ha
    have hn' := h.noIdent hn
    have hp : k + 1 + (n + 1) = (k + 1 + n) + 1 := by omega
    rw [hp] at hb ⊢
    have hsz : S'.size (k+1+n+1) = S.size (k+1+n+1) := h.size_other _ (by omega) (by omega)
    have hax : a (k+1+n+1) < S.size (k+1+n+1) := by
      rw [← hsz]; exact ha _ (by omega) (by rw [h.top]; omega)
    rw [swapAdjDD_above S S' zero k (by omega)]
    rw [mkNode_eval_lt S' zero (k+1+n) none _ a (by rw [length_map_range, hsz])
        (by rw [hsz]; exact hax)
        (fun c hc => by
          obtain ⟨i, _, rfl⟩ := List.mem_map.mp hc
          exact (swapAdjDD_Below_WFTree S S' zero k hk _ _
            (cofactor_WFTree S zero _ none d i hw) (cofactor_Below S zero _ none d i hw hb)).1)
        (fun hm => absurd hm (hn' _)),
      getD_map_range _ _ _ hax]
    rw [ih _ (by omega) (cofactor_WFTree S zero _ none d _ hw)
        (cofactor_Below S zero _ none d _ hw hb) a ha]
    rw [cofactor_eval S zero (k+1+n) none d (swapA k a) (fun hm => absurd hm (hn _)),
      swapA_other k a (by omega) (by omega)]

/-! ### Reducedness -/

/-- the cofactors of a reduced tree are reduced one position lower -/
theorem swapRed_cofactor (S : Shape) (zero : α) (hn : NoIdent S) (p : Nat) (fi fj : Option Nat)
    (d : DD α) (hr : Red S zero (p+1) fi d = true) (i : Nat) (hi : i < S.size (p+1)) :
    Red S zero p (some i) (cofactor S zero (p+1) fj d i) = true := by
  rcases storedAt_cases (p+1) d with ⟨cs, rfl⟩ | hd
  · obtain ⟨_, hlen, _, _, hch⟩ := (Red_succ_node S zero p fi cs).mp hr
    rw [cofactor_node]
    exact hch i (by rw [hlen]; exact hi)
  · obtain ⟨_, h2⟩ := Red_succ_skip S zero p fi hd hr
    rw [cofactor_skip S zero (p+1) fj i hd, if_neg (hn _)]
    rw [Red_fi_irrel S zero p (some i) none d (hn p)]
    exact h2

theorem swapEdgeOK_mode_congr (S S' : Shape) (zero : α) (k : Nat) (fi : Option Nat) (d : DD α)
    (hm : S'.mode k = S.mode k) : edgeOK S' zero k fi d = edgeOK S zero k fi d := by
  unfold edgeOK
  rw [hm]

/-- `Red … p` only looks at the sizes and modes of the positions `≤ p` -/
theorem swapRed_shape_congr (S S' : Shape) (zero : α) :
    ∀ (p : Nat), (∀ q, q ≤ p → S'.size q = S.size q ∧ S'.mode q = S.mode q) →
      ∀ (fi : Option Nat) (d : DD α), Red S zero p fi d = true → Red S' zero p fi d = true := by
  intro p
  induction p with
  | zero =>
    intro _ fi d hr
    exact (Red_zero_iff S' zero fi d).mpr ((Red_zero_iff S zero fi d).mp hr)
  | succ p ih =>
    intro hq fi d hr
    have hq' : ∀ q, q ≤ p → S'.size q = S.size q ∧ S'.mode q = S.mode q :=
      fun q h => hq q (Nat.le_succ_of_le h)
    obtain ⟨hsz, hmd⟩ := hq (p+1) (Nat.le_refl _)
    rcases storedAt_cases (p+1) d with ⟨cs, rfl⟩ | hd
    · obtain ⟨h1, h2, h3, h4, h5⟩ := (Red_succ_node S zero p fi cs).mp hr
      refine (Red_succ_node S' zero p fi cs).mpr ⟨?_, ?_, h3, ?_, ?_⟩
      · rw [swapEdgeOK_mode_congr S S' zero (p+1) fi _ hmd]; exact h1
      · rw [hsz]; exact h2
      · intro hm; exact h4 (by rw [← hmd]; exact hm)
      · intro i hi; exact ih hq' (some i) _ (h5 i hi)
    · obtain ⟨h1, h2⟩ := Red_succ_skip S zero p fi hd hr
      have hb : Below p d := (Red_WFTree S zero p none d h2).1
      exact Red_skip_intro S' zero p fi hb
        (by rw [swapEdgeOK_mode_congr S S' zero (p+1) fi _ hmd]; exact h1) (ih hq' none d h2)

/-- The swapped tree is reduced for the swapped shape. -/
theorem swapAdjDD_red_above (S S' : Shape) (zero : α) (k : Nat) (h : SwapShape S S' k)
    (hS : S.WF) (hn : NoIdent S) (hk : 1 ≤ k) (hk1 : k + 1 ≤ S.top) :
    ∀ (n : Nat) (fi : Option Nat) (d : DD α), Red S zero (k+1+n) fi d = true →
      Red S' zero (k+1+n) fi (swapAdjDD S S' zero k (k+1+n) d) = true := by
  have hn' := h.noIdent hn
  have hS' : S'.WF := h.wf hS hn hk hk1
  intro n
  induction n with
  | zero =>
    intro fi d hr
    obtain ⟨k', rfl⟩ : ∃ k', k = k'+1 := ⟨k-1, by omega⟩
    show Red S' zero (k'+1+1) fi (swapAdjDD S S' zero (k'+1) (k'+1+1) d) = true
    rw [swapAdjDD_at]
    rw [Red_fi_irrel S' zero (k'+1+1) fi none _ (hn' _)]
    apply mkNode_red S' zero hS' (k'+1) none _ (by rw [length_map_range, h.size_hi])
      _ (fun _ => hn' _)
    intro j hj
    rw [length_map_range] at hj
    rw [getD_map_range _ _ _ hj]
    rw [Red_fi_irrel S' zero (k'+1) (some j) none _ (hn' _)]
    apply mkNode_red S' zero hS' k' none _ (by rw [length_map_range, h.size_lo])
      _ (fun _ => hn' _)
    intro i hi
    rw [length_map_range] at hi
    rw [getD_map_range _ _ _ hi]
    -- the grandchildren are cofactors of the reduced input; below `k` the shapes agree
    apply swapRed_shape_congr S S' zero k'
      (fun q hq => ⟨h.size_other q (by omega) (by omega), h.mode q⟩)
    have h1 : Red S zero (k'+1) (some i) (cofactor S zero (k'+1+1) none d i) = true :=
      swapRed_cofactor S zero hn (k'+1) fi none d hr i hi
    have h2 := swapRed_cofactor S zero hn k' (some i) none _ h1 j hj
    rw [Red_fi_irrel S zero k' (some i) (some j) _ (hn _)]
    exact h2
  | succ n ih =>
    intro fi d hr
    have hp : k + 1 + (n + 1) = (k + 1 + n) + 1 := by omega
    rw [hp] at hr ⊢
    have hsz : S'.size (k+1+n+1) = S.size (k+1+n+1) := h.size_other _ (by omega) (by omega)
    rw [swapAdjDD_above S S' zero k (by omega)]
    rw [Red_fi_irrel S' zero (k+1+n+1) fi none _ (hn' _)]
    apply mkNode_red S' zero hS' (k+1+n) none _ (by rw [length_map_range, hsz]) _ (fun _ => hn' _)
    intro i hi
    rw [length_map_range] at hi
    rw [getD_map_range _ _ _ hi]
    exact ih (some i) _ (swapRed_cofactor S zero hn (k+1+n) fi none d hr i hi)

/-- the relation variable swap at the function level: variables `x` (positions `b+3` unprimed,
    `b+2` primed) and `y` (positions `b+1`, `b`) change places -/
def relSwapA (b : Nat) (a : Assign) : Assign :=
  fun p => if p = b then a (b+1+1) else if p = b+1 then a (b+1+1+1) else if p = b+1+1 then a b
           else if p = b+1+1+1 then a (b+1) else a p

end DD

/-! ## Part C — orders and trees together: the function of the VARIABLES -/

namespace Reorder
open DD
variable {α : Type} [DecidableEq α]

/-- shape of a set forest over variables with sizes `dom`, whose level `i+1` holds variable `o[i]`;
    all positions follow the same rule `m` (`red` = fully reduced, `none` = quasi reduced) -/
def shapeOf (dom : Nat → Nat) (m : Mode) (o : Order) : Shape where
  top := o.length
  size := fun p => if p = 0 then 1 else dom (o.getD (p-1) 0)
  mode := fun _ => m

/-- the assignment of positions induced by an assignment `v` of VARIABLES under order `o`
    (what the harness does: the minterm slot of variable `x` is its level) -/
def varAssign (o : Order) (v : Nat → Nat) : Assign :=
  fun p => if p = 0 then 0 else v (o.getD (p-1) 0)

theorem swapAdj_getD_lo : ∀ (i : Nat) (l : List Nat) (dflt : Nat), i + 1 < l.length →
    (swapAdj i l).getD i dflt = l.getD (i+1) dflt
  | 0, [], _, h => by simp at h
  | 0, [_], _, h => by simp at h
  | 0, x :: y :: r, _, _ => by simp [swapAdj]
  | i+1, [], _, h => by simp at h
  | i+1, x :: r, dflt, h => by
    show (x :: swapAdj i r).getD (i+1) dflt = (x :: r).getD (i+1+1) dflt
    rw [List.getD_cons_succ, List.getD_cons_succ]
    exact swapAdj_getD_lo i r dflt (by simpa using h)

theorem swapAdj_getD_hi : ∀ (i : Nat) (l : List Nat) (dflt : Nat), i + 1 < l.length →
    (swapAdj i l).getD (i+1) dflt = l.getD i dflt
  | 0, [], _, h => by simp at h
  | 0, [_], _, h => by simp at h
  | 0, x :: y :: r, _, _ => by simp [swapAdj]
  | i+1, [], _, h => by simp at h
  | i+1, x :: r, dflt, h => by
    show (x :: swapAdj i r).getD (i+1+1) dflt = (x :: r).getD (i+1) dflt
    rw [List.getD_cons_succ, List.getD_cons_succ]
    exact swapAdj_getD_hi i r dflt (by simpa using h)

theorem swapAdj_getD_other : ∀ (i : Nat) (l : List Nat) (dflt j : Nat), j ≠ i → j ≠ i + 1 →
    (swapAdj i l).getD j dflt = l.getD j dflt
  | 0, [], _, _, _, _ => rfl
  | 0, [_], _, _, _, _ => rfl
  | 0, x :: y :: r, dflt, j, h1, h2 => by
    obtain ⟨j', rfl⟩ : ∃ j', j = j'+1+1 := ⟨j-2, by omega⟩
    show (y :: x :: r).getD (j'+1+1) dflt = (x :: y :: r).getD (j'+1+1) dflt
    simp only [List.getD_cons_succ]
  | _+1, [], _, _, _, _ => rfl
  | i+1, x :: r, dflt, j, h1, h2 => by
    show (x :: swapAdj i r).getD j dflt = (x :: r).getD j dflt
    cases j with
    | zero => rfl
    | succ j =>
      rw [List.getD_cons_succ, List.getD_cons_succ]
      exact swapAdj_getD_other i r dflt j (by omega) (by omega)

/-- exchanging the variables at levels `i+1`, `i+2` exchanges the sizes of these positions -/
theorem shapeOf_swap (dom : Nat → Nat) (m : Mode) (o : Order) (i : Nat) (hi : i + 1 < o.length) :
    SwapShape (shapeOf dom m o) (shapeOf dom m (swapAdj i o)) (i+1) where
  top := swapAdj_length i o
  mode := fun _ => rfl
  size_lo := by
    show (if i + 1 = 0 then 1 else dom ((swapAdj i o).getD (i+1-1) 0))
      = (if i + 1 + 1 = 0 then 1 else dom (o.getD (i+1+1-1) 0))
    rw [if_neg (by omega), if_neg (by omega)]
    show dom ((swapAdj i o).getD i 0) = dom (o.getD (i+1) 0)
    rw [swapAdj_getD_lo i o 0 hi]
  size_hi := by
    show (if i + 1 + 1 = 0 then 1 else dom ((swapAdj i o).getD (i+1+1-1) 0))
      = (if i + 1 = 0 then 1 else dom (o.getD (i+1-1) 0))
    rw [if_neg (by omega), if_neg (by omega)]
    show dom ((swapAdj i o).getD (i+1) 0) = dom (o.getD i 0)
    rw [swapAdj_getD_hi i o 0 hi]
  size_other := by
    intro p h1 h2
    show (if p = 0 then 1 else dom ((swapAdj i o).getD (p-1) 0))
      = (if p = 0 then 1 else dom (o.getD (p-1) 0))
    by_cases hp : p = 0
    · rw [if_pos hp, if_pos hp]
    · rw [if_neg hp, if_neg hp, swapAdj_getD_other i o 0 (p-1) (by omega) (by omega)]

theorem varAssign_swap (o : Order) (v : Nat → Nat) (i : Nat) (hi : i + 1 < o.length) :
    swapA (i+1) (varAssign (swapAdj i o) v) = varAssign o v := by
  funext p
  by_cases h1 : p = i + 1
  · subst h1
    rw [swapA_lo]
    show (if i + 1 + 1 = 0 then 0 else v ((swapAdj i o).getD (i+1+1-1) 0))
      = (if i + 1 = 0 then 0 else v (o.getD (i+1-1) 0))
    rw [if_neg (by omega), if_neg (by omega)]
    show v ((swapAdj i o).getD (i+1) 0) = v (o.getD i 0)
    rw [swapAdj_getD_hi i o 0 hi]
  · by_cases h2 : p = i + 1 + 1
    · subst h2
      rw [swapA_hi]
      show (if i + 1 = 0 then 0 else v ((swapAdj i o).getD (i+1-1) 0))
        = (if i + 1 + 1 = 0 then 0 else v (o.getD (i+1+1-1) 0))
      rw [if_neg (by omega), if_neg (by omega)]
      show v ((swapAdj i o).getD i 0) = v (o.getD (i+1) 0)
      rw [swapAdj_getD_lo i o 0 hi]
    · rw [swapA_other (i+1) _ h1 h2]
      show (if p = 0 then 0 else v ((swapAdj i o).getD (p-1) 0))
        = (if p = 0 then 0 else v (o.getD (p-1) 0))
      by_cases hp : p = 0
      · rw [if_pos hp, if_pos hp]
      · rw [if_neg hp, if_neg hp, swapAdj_getD_other i o 0 (p-1) (by omega) (by omega)]

theorem varAssign_valid (dom : Nat → Nat) (m : Mode) (o : Order) (v : Nat → Nat)
    (hv : ∀ x, v x < dom x) : Assign.Valid (shapeOf dom m o) (varAssign o v) := by
  intro p h1 _
  show (if p = 0 then 0 else v (o.getD (p-1) 0)) < (if p = 0 then 1 else dom (o.getD (p-1) 0))
  rw [if_neg (by omega), if_neg (by omega)]
  exact hv _

theorem shapeOf_noIdent (dom : Nat → Nat) (m : Mode) (o : Order) (hm : m ≠ .ident) :
    NoIdent (shapeOf dom m o) := fun _ => hm

theorem shapeOf_wf (dom : Nat → Nat) (m : Mode) (o : Order) (hm : m ≠ .ident)
    (hd : ∀ x, 2 ≤ dom x) : (shapeOf dom m o).WF where
  size_ge := by
    intro p h1 _
    show 2 ≤ (if p = 0 then 1 else dom (o.getD (p-1) 0))
    rw [if_neg (by omega)]
    exact hd _
  ident_below_red := fun _ h => absurd h hm

/-- one library swap on the pair (order, tree) -/
def swapStep (dom : Nat → Nat) (m : Mode) (zero : α) (i : Nat) (o : Order) (d : DD α) : Order × DD α :=
  (swapAdj i o,
   swapAdjDD (shapeOf dom m o) (shapeOf dom m (swapAdj i o)) zero (i+1) o.length d)

/-- a whole reordering: any list of adjacent swaps, applied left to right -/
def reorderDD (dom : Nat → Nat) (m : Mode) (zero : α) : List Nat → Order → DD α → Order × DD α
  | [], o, d => (o, d)
  | i :: is, o, d =>
    reorderDD dom m zero is (swapStep dom m zero i o d).1 (swapStep dom m zero i o d).2

theorem reorderDD_order (dom : Nat → Nat) (m : Mode) (zero : α) :
    ∀ (is : List Nat) (o : Order) (d : DD α), (reorderDD dom m zero is o d).1 = applySchedule is o
  | [], _, _ => rfl
  | i :: is, o, d => reorderDD_order dom m zero is _ _

end Reorder

/-! ## Property theorems -/

namespace Reorder

/-- C13/schedule: every swap a heuristic performs on an adjacent inversion (the test
    `var2level[var(level)] > var2level[var(level+1)]` in src/reordering/*.h) strictly decreases
    the number of inversions w.r.t. the target — by exactly one. -/
theorem swap_reduces_inversions (key : Nat → Nat) (i : Nat) (l : Order)
    (h : adjInv key l i = true) : inversions key (swapAdj i l) < inversions key l := by
  have := swap_removes_one key i l h
  omega

-- order [1,2,3], target [3,1,2]: levels 2/3 hold an inversion (3 must go below 2), swapping removes it
example : adjInv (rank [3, 1, 2]) [1, 2, 3] 1 = true := by decide
example : inversions (rank [3, 1, 2]) [1, 2, 3] = 2 := by decide
example : inversions (rank [3, 1, 2]) (swapAdj 1 [1, 2, 3]) = 1 := by decide

/-- C13/schedule: a schedule that only swaps adjacent inversions has at most `inversions` swaps
    (termination bound of every such heuristic). -/
theorem schedule_bound (key : Nat → Nat) (is : List Nat) (o : Order)
    (h : ValidSchedule key is o) : is.length ≤ inversions key o := by
  have := schedule_length key is o h
  omega

example : ValidSchedule (rank [3, 1, 2]) [1, 0] [1, 2, 3] := by decide

/-- C13/schedule: a schedule of adjacent inversions that cannot be continued has reached the
    target order, and it has exactly `inversions` swaps — whichever inversions were picked
    (lowest / highest inversion, sink down, bring up, lowest cost, random, LARC). -/
theorem maximal_schedule_reaches_target (target o : Order) (hn : target.Nodup)
    (hp : o.Perm target) (is : List Nat) (hv : ValidSchedule (rank target) is o)
    (hmax : ∀ i, adjInv (rank target) (applySchedule is o) i = false) :
    applySchedule is o = target ∧ is.length = inversions (rank target) o := by
  have h1 := no_adjInv_is_target target _ hn ((applySchedule_perm is o).trans hp) hmax
  refine ⟨h1, ?_⟩
  have h2 := schedule_length (rank target) is o hv
  have h3 : inversions (rank target) (applySchedule is o) = 0 := by
    cases hz : inversions (rank target) (applySchedule is o) with
    | zero => rfl
    | succ n =>
      -- a positive number of inversions forces an adjacent one
      exfalso
      have hs := pairwise_of_no_adjInv (rank target) _ hmax
      rw [h1] at hz
      -- the target itself has no inversion
      have : ∀ (l : Order), l.Pairwise (fun a b => rank target a ≤ rank target b) →
          inversions (rank target) l = 0 := by
        intro l
        induction l with
        | nil => intro _; rfl
        | cons x r ih =>
          intro hpw
          rw [List.pairwise_cons] at hpw
          simp only [inversions, ih hpw.2, Nat.add_zero]
          unfold below
          rw [List.length_eq_zero_iff, List.filter_eq_nil_iff]
          intro y hy
          have := hpw.1 y hy
          simp only [decide_eq_true_eq]
          omega
      rw [this target (target_sorted target hn)] at hz
      cases hz
  omega

example : applySchedule [1, 0] [1, 2, 3] = [3, 1, 2] := by decide

/-- C13/schedule: ANY heuristic that (a) only swaps adjacent inversions and (b) stops only when
    there is none, run for `inversions` steps, ends exactly at the target order. -/
theorem schedule_terminates_at_target (target o : Order) (hn : target.Nodup) (hp : o.Perm target)
    (pick : Order → Option Nat)
    (hsound : ∀ o i, pick o = some i → adjInv (rank target) o i = true)
    (hcomplete : ∀ o, pick o = none → ∀ i, adjInv (rank target) o i = false) :
    run pick (inversions (rank target) o) o = target :=
  no_adjInv_is_target target _ hn ((run_perm pick _ o).trans hp)
    (run_no_adjInv (rank target) pick hsound hcomplete _ o (Nat.le_refl _))

/-- the `lowest_inversion` / `highest_inversion` choice functions as pickers -/
def pickLowest (key : Nat → Nat) (o : Order) : Option Nat :=
  (List.range o.length).find? (fun i => adjInv key o i)
def pickHighest (key : Nat → Nat) (o : Order) : Option Nat :=
  (List.range o.length).reverse.find? (fun i => adjInv key o i)

example : run (pickLowest (rank [4, 2, 1, 3])) (inversions (rank [4, 2, 1, 3]) [1, 2, 3, 4]) [1, 2, 3, 4]
    = [4, 2, 1, 3] := by decide
example : run (pickHighest (rank [4, 2, 1, 3])) (inversions (rank [4, 2, 1, 3]) [1, 2, 3, 4]) [1, 2, 3, 4]
    = [4, 2, 1, 3] := by decide
example : inversions (rank [4, 2, 1, 3]) [1, 2, 3, 4] = 4 := by decide

end Reorder

namespace DD
variable {α : Type} [DecidableEq α]

/-- C13/function (`swap_den`): after `swapAdjacentVariables(k)` in a fully- or quasi-reduced
    multi-terminal set forest, every tree denotes the old function with the values of positions
    `k` and `k+1` exchanged (the variables have changed places, the function of the variables is
    the same). -/
theorem swapAdjDD_eval (S S' : Shape) (zero : α) (k : Nat) (h : SwapShape S S' k)
    (hn : NoIdent S) (hk : 1 ≤ k) (hk1 : k + 1 ≤ S.top) (d : DD α) (hw : WFTree d)
    (hb : Below S.top d) (a : Assign) (ha : Assign.Valid S' a) :
    eval S' zero S'.top (swapAdjDD S S' zero k S.top d) a = eval S zero S.top d (swapA k a) := by
  obtain ⟨n, hn'⟩ : ∃ n, S.top = k + 1 + n := ⟨S.top - (k+1), by omega⟩
  have := swapAdjDD_eval_above S S' zero k h hn hk n d (by omega) hw (by rw [← hn']; exact hb) a ha
  rw [h.top, hn']
  exact this

/-- C13/canonical form: the swapped tree of a reduced tree is reduced for the swapped shape
    (`Canonical F → Canonical (swapAdjacent F k)`). -/
theorem swapAdjDD_red (S S' : Shape) (zero : α) (k : Nat) (h : SwapShape S S' k) (hS : S.WF)
    (hn : NoIdent S) (hk : 1 ≤ k) (hk1 : k + 1 ≤ S.top) (d : DD α)
    (hr : Red S zero S.top none d = true) :
    Red S' zero S'.top none (swapAdjDD S S' zero k S.top d) = true := by
  obtain ⟨n, hn'⟩ : ∃ n, S.top = k + 1 + n := ⟨S.top - (k+1), by omega⟩
  have := swapAdjDD_red_above S S' zero k h hS hn hk hk1 n none d (by rw [← hn']; exact hr)
  rw [h.top, hn']
  exact this

/-- C13/canonical form (`swap_canonical`): the swapped tree is THE reduced tree of the swapped
    function — whatever the library builds (in place, without duplicate detection), if it is
    reduced and denotes the swapped function it is this tree; two held edges are equal after the
    swap iff they were equal before. -/
theorem swap_canonical (S S' : Shape) (zero : α) (k : Nat) (h : SwapShape S S' k) (hS : S.WF)
    (hn : NoIdent S) (hk : 1 ≤ k) (hk1 : k + 1 ≤ S.top) (d : DD α)
    (hr : Red S zero S.top none d = true) (r : DD α) (hr' : Red S' zero S'.top none r = true)
    (hd : ∀ a, Assign.Valid S' a → eval S' zero S'.top r a = eval S zero S.top d (swapA k a)) :
    r = swapAdjDD S S' zero k S.top d := by
  have hS' : S'.WF := h.wf hS hn hk hk1
  obtain ⟨hb, hw⟩ := Red_WFTree S zero S.top none d hr
  apply (canon S' zero hS' r _ hr' (swapAdjDD_red S S' zero k h hS hn hk hk1 d hr)).mp
  intro a ha
  rw [hd a ha, swapAdjDD_eval S S' zero k h hn hk hk1 d hw hb a ha]

/-- C13: swapping the same pair twice restores exactly the original tree (the undo steps of the
    `lowest_memory` heuristic). -/
theorem swap_swap (S S' : Shape) (zero : α) (k : Nat) (h : SwapShape S S' k) (hS : S.WF)
    (hn : NoIdent S) (hk : 1 ≤ k) (hk1 : k + 1 ≤ S.top) (d : DD α)
    (hr : Red S zero S.top none d = true) :
    swapAdjDD S' S zero k S'.top (swapAdjDD S S' zero k S.top d) = d := by
  have hS' : S'.WF := h.wf hS hn hk hk1
  have hn' := h.noIdent hn
  obtain ⟨hb, hw⟩ := Red_WFTree S zero S.top none d hr
  have hk1' : k + 1 ≤ S'.top := by rw [h.top]; exact hk1
  symm
  apply swap_canonical S' S zero k h.symm hS' hn' hk hk1' _
    (swapAdjDD_red S S' zero k h hS hn hk hk1 d hr) d hr
  intro a ha
  have ha' : Assign.Valid S' (swapA k a) := h.symm.valid hk hk1' ha
  rw [swapAdjDD_eval S S' zero k h hn hk hk1 d hw hb (swapA k a) ha', swapA_swapA]

/-- C13/relations, function level only (`_partial`): exchanging two adjacent relation variables
    (four positions `x x' y y'` ↦ `y y' x x'`) is the composition of the four adjacent level swaps
    of `swapAdjacentVariablesByLevelSwap` (middle, top, bottom, middle).  The tree-level theorems
    above are NOT proved for relation forests: `mtmxd_forest::swapAdjacentVariablesByVarSwap`
    (identity-reduced skipping, `swapNodes`, duplicate resolution) is tied to the specification
    only by the differential run. -/
theorem relSwap_four_level_swaps_partial (b : Nat) (a : Assign) :
    swapA (b+1) (swapA (b+1+1) (swapA b (swapA (b+1) a))) = relSwapA b a := by
  funext p
  unfold relSwapA
  by_cases h0 : p = b
  · subst h0
    rw [if_pos rfl, swapA_other (p+1) _ (by omega) (by omega),
      swapA_other (p+1+1) _ (by omega) (by omega), swapA_lo, swapA_lo]
  · by_cases h1 : p = b + 1
    · subst h1
      rw [if_neg h0, if_pos rfl, swapA_lo, swapA_lo, swapA_other b _ (by omega) (by omega),
        swapA_other (b+1) _ (by omega) (by omega)]
    · by_cases h2 : p = b + 1 + 1
      · subst h2
        rw [if_neg h0, if_neg h1, if_pos rfl, swapA_hi,
          swapA_other (b+1+1) _ (by omega) (by omega), swapA_hi,
          swapA_other (b+1) _ (by omega) (by omega)]
      · by_cases h3 : p = b + 1 + 1 + 1
        · subst h3
          rw [if_neg h0, if_neg h1, if_neg h2, if_pos rfl,
            swapA_other (b+1) _ (by omega) (by omega), swapA_hi,
            swapA_other b _ (by omega) (by omega), swapA_hi]
        · rw [if_neg h0, if_neg h1, if_neg h2, if_neg h3,
            swapA_other (b+1) _ h1 h2, swapA_other (b+1+1) _ h2 h3,
            swapA_other b _ h0 h1, swapA_other (b+1) _ h1 h2]

end DD

namespace Reorder
open DD
variable {α : Type} [DecidableEq α]

/-- C13/held edges: one adjacent swap leaves the function OF THE VARIABLES unchanged: evaluating
    the swapped tree under the new order at a variable assignment `v` gives what the old tree gave
    under the old order (this is the by-variable table the harness compares before/after). -/
theorem swap_preserves_varfunction (dom : Nat → Nat) (m : Mode) (hm : m ≠ .ident) (zero : α)
    (o : Order) (i : Nat) (hi : i + 1 < o.length) (d : DD α) (hw : WFTree d)
    (hb : Below o.length d) (v : Nat → Nat) (hv : ∀ x, v x < dom x) :
    eval (shapeOf dom m (swapStep dom m zero i o d).1) zero (swapStep dom m zero i o d).1.length
        (swapStep dom m zero i o d).2 (varAssign (swapStep dom m zero i o d).1 v)
      = eval (shapeOf dom m o) zero o.length d (varAssign o v) := by
  have h := swapAdjDD_eval (shapeOf dom m o) (shapeOf dom m (swapAdj i o)) zero (i+1)
    (shapeOf_swap dom m o i hi) (shapeOf_noIdent dom m o hm) (by omega) hi d hw hb
    (varAssign (swapAdj i o) v) (varAssign_valid dom m _ v hv)
  rw [varAssign_swap o v i hi] at h
  exact h

/-- C13/held edges, whole reordering: ANY sequence of adjacent swaps (the schedule of any of the
    eight heuristics, including the tentative swaps `lowest_memory` undoes) leaves the function of
    the variables denoted by every tree unchanged. -/
theorem reorder_preserves_function (dom : Nat → Nat) (m : Mode) (hm : m ≠ .ident) (zero : α) :
    ∀ (is : List Nat) (o : Order) (d : DD α), (∀ i, i ∈ is → i + 1 < o.length) →
      WFTree d → Below o.length d → ∀ (v : Nat → Nat), (∀ x, v x < dom x) →
      eval (shapeOf dom m (reorderDD dom m zero is o d).1) zero
          (reorderDD dom m zero is o d).1.length (reorderDD dom m zero is o d).2
          (varAssign (reorderDD dom m zero is o d).1 v)
        = eval (shapeOf dom m o) zero o.length d (varAssign o v) := by
  intro is
  induction is with
  | nil => intro o d _ _ _ v _; rfl
  | cons i is ih =>
    intro o d hi hw hb v hv
    have hi0 : i + 1 < o.length := hi i List.mem_cons_self
    have hlen : (swapStep dom m zero i o d).1.length = o.length := swapAdj_length i o
    have hwb := swapAdjDD_Below_WFTree (shapeOf dom m o) (shapeOf dom m (swapAdj i o)) zero (i+1)
      (by omega) o.length d hw hb
    simp only [reorderDD]
    rw [ih (swapStep dom m zero i o d).1 (swapStep dom m zero i o d).2
      (fun j hj => by rw [hlen]; exact hi j (List.mem_cons_of_mem _ hj))
      hwb.2 (by rw [hlen]; exact hwb.1) v hv]
    exact swap_preserves_varfunction dom m hm zero o i hi0 d hw hb v hv

/-- C13/canonical form, whole reordering: every sequence of adjacent swaps keeps the tree reduced
    for the shape of the current order. -/
theorem reorder_preserves_reduced (dom : Nat → Nat) (m : Mode) (hm : m ≠ .ident)
    (hd : ∀ x, 2 ≤ dom x) (zero : α) :
    ∀ (is : List Nat) (o : Order) (d : DD α), (∀ i, i ∈ is → i + 1 < o.length) →
      Red (shapeOf dom m o) zero o.length none d = true →
      Red (shapeOf dom m (reorderDD dom m zero is o d).1) zero
        (reorderDD dom m zero is o d).1.length none (reorderDD dom m zero is o d).2 = true := by
  intro is
  induction is with
  | nil => intro o d _ hr; exact hr
  | cons i is ih =>
    intro o d hi hr
    have hi0 : i + 1 < o.length := hi i List.mem_cons_self
    have hlen : (swapStep dom m zero i o d).1.length = o.length := swapAdj_length i o
    have h1 := swapAdjDD_red (shapeOf dom m o) (shapeOf dom m (swapAdj i o)) zero (i+1)
      (shapeOf_swap dom m o i hi0) (shapeOf_wf dom m o hm hd) (shapeOf_noIdent dom m o hm)
      (by omega) hi0 d hr
    exact ih (swapStep dom m zero i o d).1 (swapStep dom m zero i o d).2
      (fun j hj => by rw [hlen]; exact hi j (List.mem_cons_of_mem _ hj)) h1

end Reorder

/-! ### Non-vacuity on trees: `CanonExamples.SA` (fully reduced, sizes 2,3,2) -/

namespace ReorderExamples
open DD CanonExamples Reorder

/-- `SA` with positions 2 and 3 exchanged: sizes 2, 2, 3 -/
def SA23 : Shape where
  top := 3
  size := fun p => if p = 3 then 3 else 2
  mode := fun _ => .red

theorem SA_SA23 : SwapShape SA SA23 2 where
  top := rfl
  mode := fun _ => rfl
  size_lo := rfl
  size_hi := rfl
  size_other := by
    intro p h1 h2
    show (if p = 3 then 3 else 2) = (if p = 2 then 3 else 2)
    rw [if_neg h2, if_neg h1]

theorem SA_noIdent : NoIdent SA := fun _ h => by cases h

/-- the dependent upper node `tA1 = node 3 [mA, nA]` is rebuilt: new top variable has 3 values -/
example : swapAdjDD SA SA23 0 2 3 tA1 =
    .node 3 [xA, .node 2 [yA, xA], .node 2 [.leaf 1, yA]] := by decide
example : Red SA23 0 3 none (swapAdjDD SA SA23 0 2 3 tA1) = true := by decide
/-- a lower node that the upper level skips is only relabelled upwards … -/
example : swapAdjDD SA SA23 0 2 3 mA = .node 3 [xA, yA, .leaf 1] := by decide
example : swapAdjDD SA SA23 0 2 3 tA2 = .node 3 [xA, .node 2 [xA, yA], .node 2 [xA, .leaf 1]] := by
  decide
/-- … and an upper node independent of the lower variable is only relabelled downwards -/
example : swapAdjDD SA SA23 0 2 3 (.node 3 [xA, yA]) = (.node 2 [xA, yA] : DD Nat) := by decide
/-- swapping back restores the tree (instance of `swap_swap`) -/
example : swapAdjDD SA23 SA 0 2 3 (swapAdjDD SA SA23 0 2 3 tA1) = tA1 := by decide
/-- the hypotheses of the theorems are satisfiable: `swap_canonical` applies to `tA1` -/
example (r : DD Nat) (hr : Red SA23 0 3 none r = true)
    (hd : ∀ a, Assign.Valid SA23 a → eval SA23 0 3 r a = eval SA 0 3 tA1 (swapA 2 a)) :
    r = swapAdjDD SA SA23 0 2 3 tA1 :=
  swap_canonical SA SA23 0 2 SA_SA23 SA_WF SA_noIdent (by decide) (by decide) tA1 (by decide) r hr hd

/-- quasi reduced (`none`), sizes 2,3: redundant nodes are kept, the swap keeps the form -/
def SQ : Shape := shapeOf (fun x => if x = 2 then 3 else 2) .none [1, 2]
def SQ' : Shape := shapeOf (fun x => if x = 2 then 3 else 2) .none [2, 1]
def qT : DD Nat := .node 2 [.node 1 [.leaf 1, .leaf 1], .leaf 0, .node 1 [.leaf 0, .leaf 2]]
example : Red SQ 0 2 none qT = true := by decide
example : swapAdjDD SQ SQ' 0 1 2 qT
    = .node 2 [.node 1 [.leaf 1, .leaf 0, .leaf 0], .node 1 [.leaf 1, .leaf 0, .leaf 2]] := by decide
example : Red SQ' 0 2 none (swapAdjDD SQ SQ' 0 1 2 qT) = true := by decide

/-- function level: positions (x', x, y', y) = (1,2,3,4) hold (10,20,30,40) ↦ (30,40,10,20) -/
example : (List.range 6).map (relSwapA 1 (fun p => 10 * p)) = [0, 30, 40, 10, 20, 50] := by decide
example : (List.range 5).map (swapA 2 (fun p => 10 * p)) = [0, 10, 30, 20, 40] := by decide

/-- a whole reordering on (order, tree): [1,2,3] → [3,1,2] by the schedule [1,0] -/
example : (reorderDD (fun x => if x = 2 then 3 else 2) .red 0 [1, 0] [1, 2, 3] tA1).1 = [3, 1, 2] := by
  decide
example : Red (shapeOf (fun x => if x = 2 then 3 else 2) .red [3, 1, 2]) 0 3 none
    (reorderDD (fun x => if x = 2 then 3 else 2) .red 0 [1, 0] [1, 2, 3] tA1).2 = true := by decide

end ReorderExamples

#print axioms Reorder.swap_reduces_inversions
#print axioms Reorder.schedule_bound
#print axioms Reorder.maximal_schedule_reaches_target
#print axioms Reorder.schedule_terminates_at_target
#print axioms DD.swapAdjDD_eval
#print axioms DD.swapAdjDD_red
#print axioms DD.swap_canonical
#print axioms DD.swap_swap
#print axioms DD.relSwap_four_level_swaps_partial
#print axioms Reorder.swap_preserves_varfunction
#print axioms Reorder.reorder_preserves_function
#print axioms Reorder.reorder_preserves_reduced
/- Output (Lean 4.33.0):
'Meddly.Reorder.swap_reduces_inversions' depends on axioms: [propext, Quot.sound]
'Meddly.Reorder.schedule_bound' depends on axioms: [propext, Quot.sound]
'Meddly.Reorder.maximal_schedule_reaches_target' depends on axioms: [propext, Classical.choice, Quot.sound]
'Meddly.Reorder.schedule_terminates_at_target' depends on axioms: [propext, Classical.choice, Quot.sound]
'Meddly.DD.swapAdjDD_eval' depends on axioms: [propext, Classical.choice, Quot.sound]
'Meddly.DD.swapAdjDD_red' depends on axioms: [propext, Classical.choice, Quot.sound]
'Meddly.DD.swap_canonical' depends on axioms: [propext, Classical.choice, Quot.sound]
'Meddly.DD.swap_swap' depends on axioms: [propext, Classical.choice, Quot.sound]
'Meddly.DD.relSwap_four_level_swaps_partial' depends on axioms: [propext, Classical.choice, Quot.sound]
'Meddly.Reorder.swap_preserves_varfunction' depends on axioms: [propext, Classical.choice, Quot.sound]
'Meddly.Reorder.reorder_preserves_function' depends on axioms: [propext, Classical.choice, Quot.sound]
'Meddly.Reorder.reorder_preserves_reduced' depends on axioms: [propext, Classical.choice, Quot.sound]

  NOT proved here (kept visible):
    * the tree-level swap for RELATION forests (`mtmxd_forest::swapAdjacentVariablesByVarSwap`): the
      statement would be `eval S' (relSwapDD d) a = eval S d (relSwapA b a)` + `Red` for shapes with
      `ident` positions; only the function-level decomposition `relSwap_four_level_swaps_partial` is
      proved, the code is tied to the specification by the differential run (which found the
      identity-reduced / unequal-sizes defect, see NOTES.md);
    * EV+ forests: the same statements over edge-valued trees (the model has no EV tree type);
      function preservation is checked differentially, structure by recount + model evaluation;
    * `lowest_memory` is not a schedule of inversions only (it swaps tentatively and undoes):
      `reorder_preserves_function` / `reorder_preserves_reduced` / `swap_swap` cover its swaps, its
      final order is checked by the run, not derived from `schedule_terminates_at_target`.
-/

end Meddly
