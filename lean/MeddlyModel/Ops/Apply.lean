/-
  Layer 2: the generic element-wise "apply" on decision-diagram trees, with the
  node-reduction step of `forest::createReducedNode` (`mkNode`).

  `apply2 f` walks both operands position by position (operands and result may
  live in forests with *different* reduction rules — three shapes with the same
  positions and sizes), expands skipped positions of an operand according to
  that operand's own rule (`cofactor`), and rebuilds the result bottom-up
  through `mkNode`, which applies the result forest's rule.  All of MEDDLY's
  element-wise operations (union, intersection, difference, complement, copy,
  arithmetic, comparisons, min/max) are instances; their compute tables and
  terminal shortcuts are optimisations of this recursion (see Ops/Shortcuts).
-/
import MeddlyModel.Core.DD
import MeddlyModel.Core.Canon

namespace Meddly
namespace DD
variable {α β γ : Type} [DecidableEq α] [DecidableEq β] [DecidableEq γ]

def leafVal (zero : α) : DD α → α
  | .leaf v => v
  | .node _ _ => zero

/-- child `i` of `d` seen from position `k`, when the edge to `d` arrived
    through index `fi` of position `k+1` (only relevant when `k` is an `ident`
    position that `d` skips). -/
def cofactor (S : Shape) (zero : α) (k : Nat) (fi : Option Nat) (d : DD α) (i : Nat) : DD α :=
  match d with
  | .node p cs =>
    if p = k then cs.getD i (.leaf zero)
    else if S.mode k = .ident then
      (match fi with
       | some j => if i = j then d else .leaf zero
       | none => d)
    else d
  | .leaf _ =>
    if S.mode k = .ident then
      (match fi with
       | some j => if i = j then d else .leaf zero
       | none => d)
    else d

/-- are all children except `i` the transparent leaf, and child `i` not? -/
def isSingletonList (zero : α) (i : Nat) (cs : List (DD α)) : Bool :=
  decide (i < cs.length) &&
  (List.range cs.length).all (fun j => j == i || cs.getD j (.leaf zero) == .leaf zero) &&
  cs.getD i (.leaf zero) != .leaf zero

/-- `forest::createReducedNode` on trees: transparent node → transparent leaf;
    redundant node eliminated at `red` positions; identity pattern eliminated at
    `ident` positions when the incoming index is known; otherwise store. -/
def mkNode (S : Shape) (zero : α) (k : Nat) (fi : Option Nat) (cs : List (DD α)) : DD α :=
  if cs.all (fun c => c == .leaf zero) then .leaf zero
  else match S.mode k with
    | .red => if cs.all (fun c => c == cs.headD (.leaf zero)) then cs.headD (.leaf zero) else .node k cs
    | .none => .node k cs
    | .ident =>
      match fi with
      | some i => if isSingletonList zero i cs then cs.getD i (.leaf zero) else .node k cs
      | none => .node k cs

/-- binary element-wise apply, read from position `k` downwards -/
def apply2 (Sa Sb Sc : Shape) (za : α) (zb : β) (zc : γ) (f : α → β → γ) :
    Nat → Option Nat → DD α → DD β → DD γ
  | 0, _, a, b => .leaf (f (leafVal za a) (leafVal zb b))
  | k+1, fi, a, b =>
    mkNode Sc zc (k+1) fi
      ((List.range (Sc.size (k+1))).map fun i =>
        apply2 Sa Sb Sc za zb zc f k (some i)
          (cofactor Sa za (k+1) fi a i) (cofactor Sb zb (k+1) fi b i))

/-- unary element-wise apply (copy with value conversion, complement, user maps) -/
def apply1 (Sa Sc : Shape) (za : α) (zc : γ) (f : α → γ) :
    Nat → Option Nat → DD α → DD γ
  | 0, _, a => .leaf (f (leafVal za a))
  | k+1, fi, a =>
    mkNode Sc zc (k+1) fi
      ((List.range (Sc.size (k+1))).map fun i =>
        apply1 Sa Sc za zc f k (some i) (cofactor Sa za (k+1) fi a i))

/-- Shapes over the same variables: same number of positions, same sizes. -/
structure SameVars (S T : Shape) : Prop where
  top : S.top = T.top
  size : ∀ p, S.size p = T.size p

end DD
end Meddly
