/-
  C10, Layer 2: `COPY` between multi-terminal forests as an instance of the
  generic unary apply (`Ops/Apply.lean`):

      copy Sa Sc za zc f e  =  apply1 Sa Sc za zc f Sc.top none e

  `Sa`/`Sc` are the shapes of the source and target forest (same variables, any
  of the three reduction rules on either side), `za`/`zc` their transparent
  values and `f` the scalar conversion (`Spec.conv ka kb` for the instance
  `copyMT`).  `copy_MT::_compute` (src/operations/copy.cc) is an optimisation of
  this recursion: it walks the STORED nodes of the source only and rebuilds the
  skipped positions afterwards (`makeRedundantsTo`, `makeIdentitiesTo`,
  `redirectSingleton`; for relations with the same rule on both sides through
  `rel_node` rows), with a compute table keyed by the source node.  By
  `copy_unique` ANY procedure whose result is reduced for the target forest and
  denotes `f ∘ ⟦e⟧` returns exactly this tree — and a reduced result with the
  right denotation is what the correspondence run observes (Dump.check on the
  target forest's node store + the result's table).

  MT ↔ EV+/EV*/index-set pairs are NOT modelled as trees here (the project has
  no edge-valued tree model yet); for them the property is stated at the
  table level only: `Spec.conv`, `Spec.copyImpl`, `Spec.convExact`
  (Spec/Conv.lean) are the oracle of the differential run (Driver/P_Copy.lean).
-/
import MeddlyModel.Ops.ApplyProofs
import MeddlyModel.Spec.Conv

namespace Meddly

set_option linter.unusedSectionVars false

namespace DD
variable {α γ : Type} [DecidableEq α] [DecidableEq γ]

/-- `COPY` of `e` from a forest of shape `Sa` into a forest of shape `Sc`,
    converting every value with `f`. -/
def copy (Sa Sc : Shape) (za : α) (zc : γ) (f : α → γ) (e : DD α) : DD γ :=
  apply1 Sa Sc za zc f Sc.top none e

theorem SameVars.symm {S T : Shape} (h : SameVars S T) : SameVars T S :=
  ⟨h.top.symm, fun p => (h.size p).symm⟩

theorem SameVars.valid {S T : Shape} (h : SameVars S T) (x : Assign) :
    Assign.Valid S x ↔ Assign.Valid T x := by
  constructor
  · intro hx p h1 h2
    have := hx p h1 (by rw [h.top]; exact h2)
    rw [← h.size p]; exact this
  · intro hx p h1 h2
    have := hx p h1 (by rw [← h.top]; exact h2)
    rw [h.size p]; exact this

end DD

/-! ## Non-vacuity material: concrete shapes and edges -/

namespace CopyExamples
open DD CanonExamples ApplyExamples Spec

/-- quasi reduced relation over two variables (positions 4..1, sizes 2) -/
def SQ : Shape where
  top := 4
  size := fun _ => 2
  mode := fun _ => .none

theorem SQ_WF : SQ.WF where
  size_ge := by intro p _ _; exact Nat.le_refl 2
  ident_below_red := by intro p h; cases h

theorem SB_SQ : SameVars SB SQ := ⟨rfl, fun _ => rfl⟩

def kIntI : Kind := ⟨true, .int, .mt, .ident⟩
def kRealF : Kind := ⟨true, .real, .mt, .fully⟩
def kRealQ : Kind := ⟨true, .real, .mt, .quasi⟩
def kBoolQ : Kind := ⟨true, .bool, .mt, .quasi⟩

/-- identity-reduced integer relation: `x₂=0 ∧ x₂'=1 ∧ x₁'=x₁ ↦ 3`, `x₂=1 ∧ x₂'=1 ∧ x₁'=x₁ ↦ 2`
    (child 1 of the root skips the `ident` position 3 below index 1, and both skip variable 1) -/
def eI : DD Val := .node 4 [.node 3 [.leaf (.i 0), .leaf (.i 3)], .leaf (.i 2)]

/-- the identity on variable 1 with value `v`, spelled out -/
def idv (v z : Val) : DD Val := .node 2 [.node 1 [.leaf v, .leaf z], .node 1 [.leaf z, .leaf v]]

/-- a real-valued function that is not integral: 3/2 at one place -/
def eR : DD Val := .node 4 [.leaf (.r 3 1), .leaf (.r 1 0)]

end CopyExamples

/-! ## Property theorems -/

namespace DD
variable {α γ : Type} [DecidableEq α] [DecidableEq γ]

/-- C10 (evaluation): the copy evaluates, at every assignment, to the converted source value —
    whatever the reduction rules of the two forests are. -/
theorem copy_eval (Sa Sc : Shape) (za : α) (zc : γ) (f : α → γ)
    (hSa : Sa.WF) (hSc : Sc.WF) (hac : SameVars Sa Sc) (e : DD α) (x : Assign)
    (hx : Assign.Valid Sc x) :
    eval Sc zc Sc.top (copy Sa Sc za zc f e) x = f (eval Sa za Sa.top e x) :=
  apply1_eval_top Sa Sc za zc f hSa hSc hac e x hx

open CopyExamples CanonExamples ApplyExamples in
/-- instance: identity-reduced integer relation `eI` into a fully reduced real forest -/
example (x : Assign) (hx : Assign.Valid SF x) :
    eval SF (Val.r 0 0) 4 (copy SB SF (Val.i 0) (Val.r 0 0) Spec.toRealC eI) x
      = Spec.toRealC (eval SB (Val.i 0) 4 eI x) :=
  copy_eval SB SF (Val.i 0) (Val.r 0 0) Spec.toRealC SB_WF SF_WF SB_SF eI x hx

/-- The copy is in the reduced form of the TARGET forest (so it is a legal, canonical edge there). -/
theorem copy_red (Sa Sc : Shape) (za : α) (zc : γ) (f : α → γ) (hSc : Sc.WF) (e : DD α) :
    Red Sc zc Sc.top none (copy Sa Sc za zc f e) = true :=
  apply1_red_top Sa Sc za zc f hSc e

open CopyExamples CanonExamples ApplyExamples in
example : Red SF (Val.r 0 0) 4 none (copy SB SF (Val.i 0) (Val.r 0 0) Spec.toRealC eI) = true ∧
    copy SB SF (Val.i 0) (Val.r 0 0) Spec.toRealC eI ≠ .leaf (Val.r 0 0) := by decide

/-- Whatever traversal the code uses: a result that is reduced for the target forest and denotes
    the converted function IS the model's copy (so e.g. the relation-node path and the plain path
    of `copy_MT`, cold or warm caches, must return the same edge). -/
theorem copy_unique (Sa Sc : Shape) (za : α) (zc : γ) (f : α → γ)
    (hSa : Sa.WF) (hSc : Sc.WF) (hac : SameVars Sa Sc) (e : DD α) (r : DD γ)
    (hr : Red Sc zc Sc.top none r = true)
    (hd : ∀ x, Assign.Valid Sc x → eval Sc zc Sc.top r x = f (eval Sa za Sa.top e x)) :
    r = copy Sa Sc za zc f e :=
  apply1_unique Sa Sc za zc f hSa hSc hac e r hr hd

open CopyExamples CanonExamples ApplyExamples in
/-- the hypotheses are satisfiable: the explicit tree below is reduced for the fully reduced target
    and (being the model's copy) denotes the converted function, so it is THE copy -/
example : (.node 4 [.node 3 [.leaf (.r 0 0), idv (.r 3 0) (.r 0 0)],
                    .node 3 [.leaf (.r 0 0), idv (.r 2 0) (.r 0 0)]] : DD Val)
    = copy SB SF (Val.i 0) (Val.r 0 0) Spec.toRealC eI := by
  have e : copy SB SF (Val.i 0) (Val.r 0 0) Spec.toRealC eI =
      .node 4 [.node 3 [.leaf (.r 0 0), idv (.r 3 0) (.r 0 0)],
               .node 3 [.leaf (.r 0 0), idv (.r 2 0) (.r 0 0)]] := by decide
  apply copy_unique SB SF (Val.i 0) (Val.r 0 0) Spec.toRealC SB_WF SF_WF SB_SF eI _ (by decide)
  intro x hx
  rw [← e]
  exact copy_eval SB SF (Val.i 0) (Val.r 0 0) Spec.toRealC SB_WF SF_WF SB_SF eI x hx

/-- C10 (round trip): copying a reduced edge there (`f`) and back (`g`) returns the IDENTICAL
    edge iff no value in the range of its function is changed by `g ∘ f` — in particular it does
    when the conversion is injective on that range.  (Identical tree; by `Dump.unfold_inj` two
    edges of a certified node store with the same tree are the same node handle.) -/
theorem copy_roundtrip_iff (Sa Sc : Shape) (za : α) (zc : γ) (f : α → γ) (g : γ → α)
    (hSa : Sa.WF) (hSc : Sc.WF) (hac : SameVars Sa Sc) (e : DD α)
    (he : Red Sa za Sa.top none e = true) :
    copy Sc Sa zc za g (copy Sa Sc za zc f e) = e ↔
      ∀ x, Assign.Valid Sa x → g (f (eval Sa za Sa.top e x)) = eval Sa za Sa.top e x := by
  rw [← canon Sa za hSa _ e (copy_red Sc Sa zc za g hSa _) he]
  constructor
  · intro h x hx
    have := h x hx
    rwa [copy_eval Sc Sa zc za g hSc hSa hac.symm _ x hx,
      copy_eval Sa Sc za zc f hSa hSc hac e x ((hac.valid x).mp hx)] at this
  · intro h x hx
    rw [copy_eval Sc Sa zc za g hSc hSa hac.symm _ x hx,
      copy_eval Sa Sc za zc f hSa hSc hac e x ((hac.valid x).mp hx), h x hx]

open CopyExamples CanonExamples ApplyExamples in
/-- both sides of the equivalence occur: int→real→int is the identical edge, int→bool→int is not -/
example : copy SF SB (Val.r 0 0) (Val.i 0) Spec.toIntC (copy SB SF (Val.i 0) (Val.r 0 0) Spec.toRealC eI) = eI ∧
    copy SQ SB (Val.b false) (Val.i 0) Spec.toIntC (copy SB SQ (Val.i 0) (Val.b false) Spec.toBoolC eI) ≠ eI := by
  decide

/-- C10 (round trip, the direction stated in the property). -/
theorem copy_roundtrip (Sa Sc : Shape) (za : α) (zc : γ) (f : α → γ) (g : γ → α)
    (hSa : Sa.WF) (hSc : Sc.WF) (hac : SameVars Sa Sc) (e : DD α)
    (he : Red Sa za Sa.top none e = true)
    (hfg : ∀ x, Assign.Valid Sa x → g (f (eval Sa za Sa.top e x)) = eval Sa za Sa.top e x) :
    copy Sc Sa zc za g (copy Sa Sc za zc f e) = e :=
  (copy_roundtrip_iff Sa Sc za zc f g hSa hSc hac e he).mpr hfg

open CopyExamples CanonExamples ApplyExamples in
/-- instance with an injective conversion (`toRealC` on integers, undone by `toIntC`): the
    hypothesis holds for `eI` (obtained here from the computed equality through the equivalence) -/
example : copy SF SB (Val.r 0 0) (Val.i 0) Spec.toIntC (copy SB SF (Val.i 0) (Val.r 0 0) Spec.toRealC eI) = eI :=
  copy_roundtrip SB SF (Val.i 0) (Val.r 0 0) Spec.toRealC Spec.toIntC SB_WF SF_WF SB_SF eI (by decide)
    ((copy_roundtrip_iff SB SF (Val.i 0) (Val.r 0 0) Spec.toRealC Spec.toIntC SB_WF SF_WF SB_SF eI
      (by decide)).mp (by decide))

end DD

namespace Copy
open DD Spec

/-- `COPY` between two multi-terminal forests of kinds `ka`, `kb` (shapes `Sa`, `Sc`). -/
def copyMT (ka kb : Kind) (Sa Sc : Shape) (e : DD Val) : DD Val :=
  DD.copy Sa Sc ka.zero kb.zero (conv ka kb) e

/-- C10 for multi-terminal forests: the copy evaluates to `Spec.conv ka kb` of the source value at
    every assignment (bool→0/1, int→real, real→int truncated, non-zero→true). -/
theorem copyMT_eval (ka kb : Kind) (Sa Sc : Shape) (hSa : Sa.WF) (hSc : Sc.WF)
    (hac : SameVars Sa Sc) (e : DD Val) (x : Assign) (hx : Assign.Valid Sc x) :
    eval Sc kb.zero Sc.top (copyMT ka kb Sa Sc e) x = conv ka kb (eval Sa ka.zero Sa.top e x) :=
  copy_eval Sa Sc ka.zero kb.zero (conv ka kb) hSa hSc hac e x hx

open CopyExamples CanonExamples ApplyExamples in
/-- identity-reduced integer relation → fully reduced real relation: identities are spelled out -/
example : copyMT kIntI kRealF SB SF eI =
    .node 4 [.node 3 [.leaf (.r 0 0), idv (.r 3 0) (.r 0 0)], .node 3 [.leaf (.r 0 0), idv (.r 2 0) (.r 0 0)]] := by
  decide

theorem copyMT_red (ka kb : Kind) (Sa Sc : Shape) (hSc : Sc.WF) (e : DD Val) :
    Red Sc kb.zero Sc.top none (copyMT ka kb Sa Sc e) = true :=
  copy_red Sa Sc ka.zero kb.zero (conv ka kb) hSc e

open CopyExamples CanonExamples in
example : Red SQ (Kind.zero kRealQ) 4 none (copyMT kIntI kRealQ SB SQ eI) = true := by decide

theorem copyMT_unique (ka kb : Kind) (Sa Sc : Shape) (hSa : Sa.WF) (hSc : Sc.WF)
    (hac : SameVars Sa Sc) (e r : DD Val)
    (hr : Red Sc kb.zero Sc.top none r = true)
    (hd : ∀ x, Assign.Valid Sc x →
      eval Sc kb.zero Sc.top r x = conv ka kb (eval Sa ka.zero Sa.top e x)) :
    r = copyMT ka kb Sa Sc e :=
  copy_unique Sa Sc ka.zero kb.zero (conv ka kb) hSa hSc hac e r hr hd

/-- C10 round trip for multi-terminal forests: there and back is the identical edge iff
    `conv kb ka ∘ conv ka kb` fixes every value the function takes. -/
theorem copyMT_roundtrip_iff (ka kb : Kind) (Sa Sc : Shape) (hSa : Sa.WF) (hSc : Sc.WF)
    (hac : SameVars Sa Sc) (e : DD Val) (he : Red Sa ka.zero Sa.top none e = true) :
    copyMT kb ka Sc Sa (copyMT ka kb Sa Sc e) = e ↔
      ∀ x, Assign.Valid Sa x →
        conv kb ka (conv ka kb (eval Sa ka.zero Sa.top e x)) = eval Sa ka.zero Sa.top e x :=
  copy_roundtrip_iff Sa Sc ka.zero kb.zero (conv ka kb) (conv kb ka) hSa hSc hac e he

/-- C10 round trip, lossless pairs (bool→anything, int→int/real, real→real; any rules): for a
    reduced edge whose values have the source's range type, copy there and back is the identical edge. -/
theorem copyMT_roundtrip (ka kb : Kind) (hl : lossless ka kb = true) (Sa Sc : Shape)
    (hSa : Sa.WF) (hSc : Sc.WF) (hac : SameVars Sa Sc) (e : DD Val)
    (he : Red Sa ka.zero Sa.top none e = true)
    (ht : ∀ x, Assign.Valid Sa x → hasKind ka (eval Sa ka.zero Sa.top e x) = true) :
    copyMT kb ka Sc Sa (copyMT ka kb Sa Sc e) = e :=
  (copyMT_roundtrip_iff ka kb Sa Sc hSa hSc hac e he).mpr
    (fun x hx => conv_roundtrip ka kb hl _ (ht x hx))

open CopyExamples CanonExamples ApplyExamples in
/-- int (identity reduced) → real (fully reduced) → back: the identical edge -/
example : Red SB (Kind.zero kIntI) 4 none eI = true ∧
    copyMT kRealF kIntI SF SB (copyMT kIntI kRealF SB SF eI) = eI := by decide

open CopyExamples CanonExamples ApplyExamples in
/-- int (identity reduced) → bool (quasi reduced) → back is lossy: 3 and 2 come back as 1 -/
example : copyMT kBoolQ kIntI SQ SB (copyMT kIntI kBoolQ SB SQ eI) =
    .node 4 [.node 3 [.leaf (.i 0), .leaf (.i 1)], .leaf (.i 1)] := by decide

open CopyExamples CanonExamples ApplyExamples in
/-- real → int → real is lossy at 3/2 (truncated to 1) -/
example : copyMT kIntI kRealF SB SF (copyMT kRealF kIntI SF SB eR) ≠ eR := by decide

end Copy

#print axioms Meddly.DD.copy_eval
#print axioms Meddly.DD.copy_red
#print axioms Meddly.DD.copy_unique
#print axioms Meddly.DD.copy_roundtrip_iff
#print axioms Meddly.DD.copy_roundtrip
#print axioms Meddly.Copy.copyMT_eval
#print axioms Meddly.Copy.copyMT_red
#print axioms Meddly.Copy.copyMT_unique
#print axioms Meddly.Copy.copyMT_roundtrip_iff
#print axioms Meddly.Copy.copyMT_roundtrip
/- Output (Lean 4.33.0):
'Meddly.DD.copy_eval' depends on axioms: [propext, Classical.choice, Quot.sound]
'Meddly.DD.copy_red' depends on axioms: [propext, Classical.choice, Quot.sound]
'Meddly.DD.copy_unique' depends on axioms: [propext, Classical.choice, Quot.sound]
'Meddly.DD.copy_roundtrip_iff' depends on axioms: [propext, Classical.choice, Quot.sound]
'Meddly.DD.copy_roundtrip' depends on axioms: [propext, Classical.choice, Quot.sound]
'Meddly.Copy.copyMT_eval' depends on axioms: [propext, Classical.choice, Quot.sound]
'Meddly.Copy.copyMT_red' depends on axioms: [propext, Classical.choice, Quot.sound]
'Meddly.Copy.copyMT_unique' depends on axioms: [propext, Classical.choice, Quot.sound]
'Meddly.Copy.copyMT_roundtrip_iff' depends on axioms: [propext, Classical.choice, Quot.sound]
'Meddly.Copy.copyMT_roundtrip' depends on axioms: [propext, Classical.choice, Quot.sound]
-/

end Meddly
