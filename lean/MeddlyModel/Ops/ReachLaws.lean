/-
  C08 — algebraic laws of the reachable set, as identities between the canonical
  lists the loops of `reach_trad.cc` (and, by `Satur.satur_eq_reach_lfp`,
  saturation) return.

  A user of REACHABLE_STATES_* relies on these without ever checking them: asking
  again from the answer changes nothing (`lfp_idem`), a larger initial set or a
  larger relation never loses states (`lfp_mono_init`, `lfp_mono_rel`), the answer
  from a union is the union of the answers (`lfp_union`), and the answer is closed
  under one more POST_IMAGE (`post_lfp_sub`).  Because a set is the canonical list
  `states.filter p`, equal membership is list equality — the analogue of two
  dd_edges being the same node (`canon_ext`).

  Nothing new is modelled here: every statement is a corollary of
  `Reach.lfp_mem_iff` (the list `lfp` holds exactly the reflexive-transitive
  closure) and of `Reach.lfpIter_eq_filter` (every iterate is a filter of `states`).
-/
import MeddlyModel.Ops.Reach

set_option linter.unusedSectionVars false

namespace Meddly
namespace Reach

variable {σ : Type} [DecidableEq σ]

section
variable {states : List σ} {R R' : σ → σ → Bool} {init init' : List σ}

/-- the closure is monotone in the initial set -/
theorem Reachable.mono_init (h : ∀ s, s ∈ init → s ∈ init') {s : σ}
    (hr : Reachable R init s) : Reachable R init' s := by
  induction hr with
  | base hs => exact .base (h _ hs)
  | step _ hst ih => exact .step ih hst

/-- the closure is monotone in the relation -/
theorem Reachable.mono_rel (h : ∀ a b, R a b = true → R' a b = true) {s : σ}
    (hr : Reachable R init s) : Reachable R' init s := by
  induction hr with
  | base hs => exact .base hs
  | step _ hst ih => exact .step ih (h _ _ hst)

/-- closing a closed set adds nothing -/
theorem Reachable.idem {S : List σ} (hS : ∀ s, s ∈ S ↔ Reachable R init s) {s : σ}
    (hr : Reachable R S s) : Reachable R init s := by
  induction hr with
  | base hs => exact (hS _).mp hs
  | step _ hst ih => exact .step ih hst

/-- a path from a union starts in one of the two parts -/
theorem Reachable.of_append {s : σ} (hr : Reachable R (init ++ init') s) :
    Reachable R init s ∨ Reachable R init' s := by
  induction hr with
  | base hs =>
    rcases List.mem_append.mp hs with h | h
    · exact .inl (.base h)
    · exact .inr (.base h)
  | step _ hst ih =>
    rcases ih with h | h
    · exact .inl (.step h hst)
    · exact .inr (.step h hst)

/-- every result of the loops is a filter of `states` -/
theorem lfp_is_filter : ∃ p : σ → Bool, lfp states R init = states.filter p :=
  ⟨_, lfpIter_eq_filter (states := states) (R := R) (init := init) states.length⟩

/-- canonical lists with the same members are the same list (two dd_edges for the
    same set are the same node) -/
theorem canon_ext {p q : σ → Bool} (h : ∀ s, s ∈ states → (p s = true ↔ q s = true)) :
    states.filter p = states.filter q := by
  apply List.filter_congr
  intro s hs
  have := h s hs
  cases hp : p s <;> cases hq : q s <;> simp_all

/-- two results with the same members are equal lists -/
theorem lfp_ext {R₁ R₂ : σ → σ → Bool} {i₁ i₂ : List σ}
    (h : ∀ s, s ∈ lfp states R₁ i₁ ↔ s ∈ lfp states R₂ i₂) :
    lfp states R₁ i₁ = lfp states R₂ i₂ := by
  obtain ⟨p, hp⟩ := lfp_is_filter (states := states) (R := R₁) (init := i₁)
  obtain ⟨q, hq⟩ := lfp_is_filter (states := states) (R := R₂) (init := i₂)
  rw [hp, hq]
  apply canon_ext
  intro s hs
  have := h s
  rw [hp, hq] at this
  simpa [List.mem_filter, hs] using this

/-- extensive: the initial states are in the answer -/
theorem init_sub_lfp (hc : Complete states) {s : σ} (h : s ∈ init) : s ∈ lfp states R init :=
  (lfp_mem_iff hc s).mpr (.base h)

/-- closed: one more POST_IMAGE of the answer stays inside the answer -/
theorem post_lfp_sub (hc : Complete states) {t : σ}
    (h : t ∈ post states R (lfp states R init)) : t ∈ lfp states R init := by
  obtain ⟨_, s, hs, hst⟩ := mem_post.mp h
  exact (lfp_mem_iff hc t).mpr (.step ((lfp_mem_iff hc s).mp hs) hst)

/-- the answer is the LEAST set containing `init` and closed under the relation -/
theorem lfp_least (hc : Complete states) {S : List σ} (hi : ∀ s, s ∈ init → s ∈ S)
    (hcl : ∀ s t, s ∈ S → R s t = true → t ∈ S) {s : σ} (h : s ∈ lfp states R init) : s ∈ S := by
  have hr := (lfp_mem_iff hc s).mp h
  clear h
  induction hr with
  | base hs => exact hi _ hs
  | step _ hst ih => exact hcl _ _ ih hst

/-- monotone in the initial set -/
theorem lfp_mono_init (hc : Complete states) (h : ∀ s, s ∈ init → s ∈ init') {s : σ}
    (hs : s ∈ lfp states R init) : s ∈ lfp states R init' :=
  (lfp_mem_iff hc s).mpr (((lfp_mem_iff hc s).mp hs).mono_init h)

/-- monotone in the relation: adding transitions never loses states -/
theorem lfp_mono_rel (hc : Complete states) (h : ∀ a b, R a b = true → R' a b = true) {s : σ}
    (hs : s ∈ lfp states R init) : s ∈ lfp states R' init :=
  (lfp_mem_iff hc s).mpr (((lfp_mem_iff hc s).mp hs).mono_rel h)

/-- idempotent: reachability from the answer returns the same edge -/
theorem lfp_idem (hc : Complete states) :
    lfp states R (lfp states R init) = lfp states R init := by
  apply lfp_ext
  intro s
  rw [lfp_mem_iff hc, lfp_mem_iff hc]
  exact ⟨fun h => h.idem (fun x => lfp_mem_iff hc x), fun h => .base ((lfp_mem_iff hc s).mpr h)⟩

/-- the answer depends on the initial set only through its members (any two edges
    for the same initial set give the same answer) -/
theorem lfp_congr_init (hc : Complete states) (h : ∀ s, s ∈ init ↔ s ∈ init') :
    lfp states R init = lfp states R init' := by
  apply lfp_ext
  intro s
  rw [lfp_mem_iff hc, lfp_mem_iff hc]
  exact ⟨fun hr => hr.mono_init (fun x hx => (h x).mp hx),
         fun hr => hr.mono_init (fun x hx => (h x).mpr hx)⟩

/-- distributes over UNION of the initial sets -/
theorem lfp_union (hc : Complete states) :
    lfp states R (union states init init')
      = union states (lfp states R init) (lfp states R init') := by
  obtain ⟨p, hp⟩ := lfp_is_filter (states := states) (R := R) (init := union states init init')
  have hmem : ∀ s, s ∈ lfp states R (union states init init')
      ↔ s ∈ union states (lfp states R init) (lfp states R init') := by
    intro s
    rw [lfp_mem_iff hc, mem_union, lfp_mem_iff hc, lfp_mem_iff hc]
    constructor
    · intro hr
      have : Reachable R (init ++ init') s :=
        hr.mono_init (fun x hx => by
          rcases mem_union.mp hx with ⟨_, h | h⟩
          · exact List.mem_append.mpr (.inl h)
          · exact List.mem_append.mpr (.inr h))
      exact ⟨hc s, this.of_append⟩
    · rintro ⟨_, h | h⟩
      · exact h.mono_init (fun x hx => mem_union.mpr ⟨hc x, .inl hx⟩)
      · exact h.mono_init (fun x hx => mem_union.mpr ⟨hc x, .inr hx⟩)
  rw [hp]
  unfold union
  apply canon_ext
  intro s hs
  have := hmem s
  rw [hp] at this
  unfold union at this
  simpa [List.mem_filter, hs] using this

/-- forward and backward agree on symmetric relations -/
theorem lfp_conv_of_symm (hsym : ∀ a b, R a b = R b a) :
    lfp states (conv R) init = lfp states R init := by
  have : conv R = R := by funext a b; exact (hsym b a)
  rw [this]

/-! ### The distance variants against the boolean answer -/

/-- a finite distance exactly on the boolean answer: the support of the distance
    function returned by the distance variants IS the set the boolean variants return -/
theorem dist_isSome_iff_mem_lfp (hc : Complete states) (s : σ) :
    (dist states R init s).isSome = true ↔ s ∈ lfp states R init := by
  rw [lfp_mem_iff hc]
  constructor
  · intro h
    cases hd : dist states R init s with
    | none => rw [hd] at h; exact absurd h (by simp)
    | some n => exact (((dist_eq_shortest hc s n).mp hd).1).reachable
  · intro h
    cases hd : dist states R init s with
    | none => exact absurd h ((dist_none_iff hc s).mp hd)
    | some n => rfl

/-- distance 0 exactly on the initial set -/
theorem dist_zero_iff (hc : Complete states) (s : σ) :
    dist states R init s = some 0 ↔ s ∈ init := by
  rw [dist_eq_shortest hc]
  constructor
  · rintro ⟨hp, _⟩
    cases hp with
    | base h => exact h
  · intro h
    exact ⟨.base h, fun m _ => Nat.zero_le m⟩

/-- a larger initial set never increases a distance -/
theorem dist_mono_init (hc : Complete states) (h : ∀ s, s ∈ init → s ∈ init') {s : σ} {n : Nat}
    (hd : dist states R init s = some n) : ∃ m, m ≤ n ∧ dist states R init' s = some m := by
  have hp := ((dist_eq_shortest hc s n).mp hd).1
  have hp' : PathLen R init' n s := by
    clear hd
    induction hp with
    | base hs => exact .base (h _ hs)
    | step _ hst ih => exact .step ih hst
  cases hd' : dist states R init' s with
  | none => exact absurd hp'.reachable ((dist_none_iff hc s).mp hd')
  | some m => exact ⟨m, ((dist_eq_shortest hc s m).mp hd').2 n hp', rfl⟩

end

/-! ## Non-vacuity: a concrete three-state space meets every hypothesis -/

example : Complete [(0 : Fin 3), 1, 2] := by intro s; revert s; decide
example : lfp [(0 : Fin 3), 1, 2] (fun a b => decide (a.val + 1 = b.val)) [1] = [1, 2] := by decide
example : lfp [(0 : Fin 3), 1, 2] (fun a b => decide (a.val + 1 = b.val))
    (lfp [(0 : Fin 3), 1, 2] (fun a b => decide (a.val + 1 = b.val)) [1]) = [1, 2] := by decide

end Reach
end Meddly
