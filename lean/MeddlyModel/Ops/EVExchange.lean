/-
  C14 (EV+ part) — the exchange file for EV+ forests, at the TREE level (no node store).

  `Ops/ExchangeFile.lean` models `mdd_writer` / `mdd_reader` (src/io_mdds.cc) for multi-terminal
  forests on the node store and leaves "edge values (EV+/EV*)" as not modelled.  This file adds the
  edge-valued part of the format on trees:

  * `FileE`   — what a file says: one record per written node (position and the FULL vector of
    (edge value, child) entries; a child is the terminal `w 0` = `OMEGA_INFINITY`, the terminal
    `w -1` = `OMEGA_NORMAL`, or `n i` = the 1-based index of an EARLIER record), and the root
    edge `(value, child)` (`dd_edge::write`: `edgeval.write(s)` then the node).
  * `writeFE` — the writer on a tree: the distinct stored nodes below the root are numbered
    children-first (`emit`: a node already written is not written again — the tree-level image of
    `node_marker` on a store with a unique table, so SHARED sub-trees are written once), each is
    emitted with its children renumbered, then the root edge.  (`mdd_writer::finish` orders by
    level, bottom-up; the reader only needs "children before parents", which both orders have.)
  * `encodeE / decodeE` — tokens: `dd n`, per record `pos ±size [indexes…] children… values…`
    (`unpacked_node::write`: down pointers first, THEN the edge values; negative size: sparse =
    only the non-transparent entries, preceded by their indexes; non-negative: truncated full =
    the vector without its trailing transparent entries; transparent entry = `(0, ∞)`), `dd/`,
    `ptrs 1`, the root `value child`, `srtp`.  The form of each record is the storage policy of
    the writing forest: an arbitrary function `sp`.
  * `readFE`  — `mdd_reader::readAfterForest`: every record is rebuilt through
    `createReducedNode(nb, ev, map[i])` = `mkNodeEV … none` (no incoming index) and the returned
    edge value `ev` is DROPPED (the code only asserts `0 == ev`): only the target goes into `map`.
    The root edge is read as written (`dd_edge::read`: no normalisation).

  Theorem `readTE_writeTE`: for a reduced edge `e` (any reduction rule, any storage policy),
  `readTE S (writeTE sp e) = some e` — root edge value, edge values, ∞ children included.
-/
import MeddlyModel.Ops.EVApply

namespace Meddly

set_option linter.unusedSectionVars false
set_option linter.unusedVariables false

namespace EVX
open EDD

/-! ## The file -/

/-- a child as written in a file -/
inductive FChildE where
  | inf                -- `w 0`
  | omega              -- `w -1`
  | ref (i : Nat)      -- `n i`, 1-based index of an earlier record
  deriving DecidableEq, Repr, Inhabited

/-- an entry of a record: (edge value, child) -/
abbrev FEnt := Int × FChildE

/-- the transparent entry -/
abbrev tz : FEnt := (0, .inf)

structure FRecE where
  pos  : Nat
  ents : List FEnt      -- full vector
  deriving DecidableEq, Repr, Inhabited

structure FileE where
  recs : List FRecE
  root : FEnt
  deriving DecidableEq, Repr, Inhabited

/-! ## Writer (tree level) -/

def isNode : EDD → Bool
  | .node _ _ => true
  | _ => false

/-- targets of the entries of a stored node -/
def kids : EDD → List EDD
  | .node _ cs => cs.map (·.2)
  | _ => []

mutual
/-- `emit d ord`: `ord` extended by the stored nodes below `d` that are not yet in it,
    children before parents -/
def emit : EDD → List EDD → List EDD
  | .inf, ord => ord
  | .omega, ord => ord
  | .node p cs, ord =>
    if ord.contains (.node p cs) then ord else emitL cs ord ++ [.node p cs]
def emitL : List (Int × EDD) → List EDD → List EDD
  | [], ord => ord
  | c :: cs, ord => emitL cs (emitP c ord)
def emitP : Int × EDD → List EDD → List EDD
  | (_, d), ord => emit d ord
end

/-- position of the first occurrence of `d` in `l` (`l.length` if absent) -/
def indexOfE : List EDD → EDD → Nat
  | [], _ => 0
  | x :: xs, d => if x = d then 0 else indexOfE xs d + 1

def encChildE (ord : List EDD) : EDD → FChildE
  | .inf => .inf
  | .omega => .omega
  | .node p cs => .ref (indexOfE ord (.node p cs) + 1)

def encRecE (ord : List EDD) : EDD → FRecE
  | .node p cs => ⟨p, cs.map (fun c => (c.1, encChildE ord c.2))⟩
  | _ => ⟨0, []⟩

/-- the writer down to the file -/
def writeFE (e : Int × EDD) : FileE :=
  let ord := emit e.2 []
  { recs := ord.map (encRecE ord), root := (e.1, encChildE ord e.2) }

/-! ## Reader -/

/-- the reader's `map[i]` (targets only: the edge value returned by `createReducedNode` is not
    kept) -/
def resolveE (map : List EDD) : FChildE → Option EDD
  | .inf => some .inf
  | .omega => some .omega
  | .ref i => if i = 0 then none else map[i-1]?

def resolveEnts (map : List EDD) : List FEnt → Option (List (Int × EDD))
  | [] => some []
  | c :: cs =>
    match resolveE map c.2, resolveEnts map cs with
    | some d, some cs' => some ((c.1, d) :: cs')
    | _, _ => none

def readRecsE (S : Shape) : List FRecE → List EDD → Option (List EDD)
  | [], map => some map
  | r :: rs, map =>
    if r.pos = 0 ∨ S.top < r.pos then none      -- `isValidLevel`
    else match resolveEnts map r.ents with
      | none => none
      | some cs => readRecsE S rs (map ++ [(mkNodeEV S r.pos none cs).2])

/-- `mdd_reader::readAfterForest` + `dd_edge::read` -/
def readFE (S : Shape) (f : FileE) : Option (Int × EDD) :=
  match readRecsE S f.recs [] with
  | none => none
  | some map =>
    match resolveE map f.root.2 with
    | none => none
    | some d => some (f.root.1, d)

/-! ## Tokens -/

inductive TokE where
  | kw (s : String)
  | int (z : Int)       -- a plain integer (count, position, size, index)
  | ref (i : Nat)       -- `n i`
  | term (z : Int)      -- `w z`: 0 = `OMEGA_INFINITY`, -1 = `OMEGA_NORMAL`
  | val (v : Int)       -- `i v` / `l v`: an edge value
  deriving DecidableEq, Repr, Inhabited

def encKid : FChildE → TokE
  | .inf => .term 0
  | .omega => .term (-1)
  | .ref i => .ref i

section generic
variable {β : Type} [DecidableEq β]

/-- drop the trailing transparent entries (truncated-full storage) -/
def dropTrail (z : β) : List β → List β
  | [] => []
  | c :: cs =>
    match dropTrail z cs with
    | [] => if c = z then [] else [c]
    | r => c :: r

/-- (index, entry) for the non-transparent entries, indexes counted from `i` -/
def sparsifyG (z : β) : Nat → List β → List (Nat × β)
  | _, [] => []
  | i, c :: cs => if c = z then sparsifyG z (i+1) cs else (i, c) :: sparsifyG z (i+1) cs

def lookupG (i : Nat) : List (Nat × β) → Option β
  | [] => none
  | (j, c) :: ps => if j = i then some c else lookupG i ps

/-- entries `i, i+1, …, i+n-1` of the sparse vector `ps` -/
def expandFromG (z : β) (ps : List (Nat × β)) : Nat → Nat → List β
  | _, 0 => []
  | i, n+1 => (lookupG i ps).getD z :: expandFromG z ps (i+1) n

/-- truncated full → full -/
def padG (z : β) (size : Nat) (cs : List β) : List β :=
  cs ++ List.replicate (size - cs.length) z

end generic

/-- one record: `pos size children… values…` or `pos -nnz indexes… children… values…` -/
def encodeRecE (sp : FRecE → Bool) (r : FRecE) : List TokE :=
  if sp r then
    let ps := sparsifyG tz 0 r.ents
    [.int r.pos, .int (-(ps.length : Int))] ++ ps.map (fun p => TokE.int p.1) ++
      ps.map (fun p => encKid p.2.2) ++ ps.map (fun p => TokE.val p.2.1)
  else
    let cs := dropTrail tz r.ents
    [.int r.pos, .int cs.length] ++ cs.map (fun c => encKid c.2) ++ cs.map (fun c => TokE.val c.1)

def encodeE (sp : FRecE → Bool) (f : FileE) : List TokE :=
  [.kw "dd", .int f.recs.length] ++ f.recs.flatMap (encodeRecE sp) ++
  [.kw "dd/", .kw "ptrs", .int 1, .val f.root.1, encKid f.root.2, .kw "srtp"]

def takeKids : Nat → List TokE → Option (List FChildE × List TokE)
  | 0, ts => some ([], ts)
  | n+1, .ref i :: ts => (takeKids n ts).map (fun p => (.ref i :: p.1, p.2))
  | n+1, .term z :: ts =>
    if z = 0 then (takeKids n ts).map (fun p => (.inf :: p.1, p.2))
    else if z = -1 then (takeKids n ts).map (fun p => (.omega :: p.1, p.2))
    else none
  | _+1, _ => none

def takeVals : Nat → List TokE → Option (List Int × List TokE)
  | 0, ts => some ([], ts)
  | n+1, .val v :: ts => (takeVals n ts).map (fun p => (v :: p.1, p.2))
  | _+1, _ => none

def takeNatsE : Nat → List TokE → Option (List Nat × List TokE)
  | 0, ts => some ([], ts)
  | n+1, .int z :: ts => if z < 0 then none else (takeNatsE n ts).map (fun p => (z.toNat :: p.1, p.2))
  | _+1, _ => none

def decodeRecE (S : Shape) : List TokE → Option (FRecE × List TokE)
  | .int p :: .int z :: ts =>
    if p < 0 then none
    else if z < 0 then
      match takeNatsE z.natAbs ts with
      | none => none
      | some (idx, ts1) =>
        match takeKids z.natAbs ts1 with
        | none => none
        | some (ks, ts2) =>
          match takeVals z.natAbs ts2 with
          | none => none
          | some (vs, ts3) =>
            some (⟨p.toNat, expandFromG tz (idx.zip (vs.zip ks)) 0 (S.size p.toNat)⟩, ts3)
    else
      match takeKids z.toNat ts with
      | none => none
      | some (ks, ts1) =>
        match takeVals z.toNat ts1 with
        | none => none
        | some (vs, ts2) => some (⟨p.toNat, padG tz (S.size p.toNat) (vs.zip ks)⟩, ts2)
  | _ => none

def decodeRecsE (S : Shape) : Nat → List TokE → Option (List FRecE × List TokE)
  | 0, ts => some ([], ts)
  | n+1, ts =>
    match decodeRecE S ts with
    | none => none
    | some (r, ts1) => (decodeRecsE S n ts1).map (fun p => (r :: p.1, p.2))

def decodeE (S : Shape) : List TokE → Option FileE
  | .kw "dd" :: .int n :: ts =>
    if n < 0 then none
    else match decodeRecsE S n.toNat ts with
      | some (recs, [.kw "dd/", .kw "ptrs", .int 1, .val v, c, .kw "srtp"]) =>
        match takeKids 1 [c] with
        | some ([k], []) => some ⟨recs, (v, k)⟩
        | _ => none
      | _ => none
  | _ => none

/-- writer: an EV+ edge down to tokens.  `sp` = the writing forest's storage policy. -/
def writeTE (sp : FRecE → Bool) (e : Int × EDD) : List TokE := encodeE sp (writeFE e)

/-- reader: tokens → the edge, rebuilt in the forest of shape `S` -/
def readTE (S : Shape) (toks : List TokE) : Option (Int × EDD) :=
  match decodeE S toks with
  | none => none
  | some f => readFE S f

/-! ## Part 1 — the writer's numbering: children before parents -/

mutual
/-- the stored nodes below `d` (with repetitions), post-order -/
def nodesOf : EDD → List EDD
  | .inf => []
  | .omega => []
  | .node p cs => nodesOfL cs ++ [.node p cs]
def nodesOfL : List (Int × EDD) → List EDD
  | [] => []
  | c :: cs => nodesOfP c ++ nodesOfL cs
def nodesOfP : Int × EDD → List EDD
  | (_, d) => nodesOf d
end

/-- a list of nodes in which every node comes after its stored children -/
inductive ClosedL : List EDD → Prop where
  | nil : ClosedL []
  | snoc (l : List EDD) (d : EDD) : ClosedL l →
      (∀ c, c ∈ kids d → isNode c = true → c ∈ l) → ClosedL (l ++ [d])

/-- the facts about `emit` proved together by structural recursion -/
def EmitOK (F : List EDD → List EDD) (sub : List EDD) : Prop :=
  ∀ ord, (∀ x, x ∈ ord → x ∈ F ord) ∧
         (∀ x, x ∈ F ord → x ∈ ord ∨ x ∈ sub) ∧
         (ClosedL ord → ClosedL (F ord)) ∧
         ((∀ x, x ∈ ord → isNode x = true) → ∀ x, x ∈ F ord → isNode x = true)

mutual
theorem emit_ok : ∀ d : EDD, EmitOK (emit d) (nodesOf d) ∧ (isNode d = true → ∀ ord, d ∈ emit d ord)
  | .inf => by
    refine ⟨fun ord => ?_, fun h => nomatch h⟩
    simp only [emit]
    exact ⟨fun x h => h, fun x h => Or.inl h, fun h => h, fun h => h⟩
  | .omega => by
    refine ⟨fun ord => ?_, fun h => nomatch h⟩
    simp only [emit]
    exact ⟨fun x h => h, fun x h => Or.inl h, fun h => h, fun h => h⟩
  | .node p cs => by
    obtain ⟨hL, hLk⟩ := emitL_ok cs
    refine ⟨fun ord => ?_, fun _ ord => ?_⟩
    · obtain ⟨h1, h2, h3, h4⟩ := hL ord
      simp only [emit, nodesOf]
      by_cases hc : ord.contains (EDD.node p cs) = true
      · rw [if_pos hc]
        exact ⟨fun x h => h, fun x h => Or.inl h, fun h => h, fun h => h⟩
      · rw [if_neg hc]
        refine ⟨?_, ?_, ?_, ?_⟩
        · intro x hx; exact List.mem_append_left _ (h1 x hx)
        · intro x hx
          rcases List.mem_append.mp hx with hx | hx
          · rcases h2 x hx with h | h
            · exact Or.inl h
            · exact Or.inr (List.mem_append_left _ h)
          · exact Or.inr (List.mem_append_right _ hx)
        · intro hcl
          refine ClosedL.snoc _ _ (h3 hcl) ?_
          intro c hc' hn
          obtain ⟨e, he, rfl⟩ := List.mem_map.mp hc'
          exact hLk e he hn ord
        · intro hall x hx
          rcases List.mem_append.mp hx with hx | hx
          · exact h4 hall x hx
          · rw [List.mem_singleton.mp hx]; rfl
    · simp only [emit]
      by_cases hc : ord.contains (EDD.node p cs) = true
      · rw [if_pos hc]; exact List.contains_iff_mem.mp hc
      · rw [if_neg hc]; exact List.mem_append_right _ (List.mem_singleton.mpr rfl)
theorem emitL_ok : ∀ cs : List (Int × EDD), EmitOK (emitL cs) (nodesOfL cs) ∧
    (∀ c, c ∈ cs → isNode c.2 = true → ∀ ord, c.2 ∈ emitL cs ord)
  | [] => by
    refine ⟨fun ord => ?_, fun c h => nomatch h⟩
    simp only [emitL]
    exact ⟨fun x h => h, fun x h => Or.inl h, fun h => h, fun h => h⟩
  | c :: cs => by
    obtain ⟨hP, hPk⟩ := emitP_ok c
    obtain ⟨hL, hLk⟩ := emitL_ok cs
    refine ⟨fun ord => ?_, fun c' hc' hn ord => ?_⟩
    · obtain ⟨p1, p2, p3, p4⟩ := hP ord
      obtain ⟨l1, l2, l3, l4⟩ := hL (emitP c ord)
      simp only [emitL, nodesOfL]
      refine ⟨fun x hx => l1 x (p1 x hx), ?_, fun h => l3 (p3 h), fun h => l4 (p4 h)⟩
      intro x hx
      rcases l2 x hx with h | h
      · rcases p2 x h with h | h
        · exact Or.inl h
        · exact Or.inr (List.mem_append_left _ h)
      · exact Or.inr (List.mem_append_right _ h)
    · simp only [emitL]
      rcases List.mem_cons.mp hc' with rfl | hc'
      · exact (hL (emitP c' ord)).1 _ (hPk hn ord)
      · exact hLk c' hc' hn _
theorem emitP_ok : ∀ c : Int × EDD, EmitOK (emitP c) (nodesOfP c) ∧
    (isNode c.2 = true → ∀ ord, c.2 ∈ emitP c ord)
  | (v, d) => by
    have h := emit_ok d
    simp only [emitP, nodesOfP]
    exact h
end

theorem mem_nodesOf_self (p : Nat) (cs : List (Int × EDD)) : EDD.node p cs ∈ nodesOf (.node p cs) := by
  simp only [nodesOf]
  exact List.mem_append_right _ (List.mem_singleton.mpr rfl)

theorem mem_nodesOfL {x : EDD} : ∀ {cs : List (Int × EDD)}, x ∈ nodesOfL cs →
    ∃ c, c ∈ cs ∧ x ∈ nodesOf c.2
  | [], h => by simp [nodesOfL] at h
  | (v, d) :: cs, h => by
    simp only [nodesOfL, nodesOfP] at h
    rcases List.mem_append.mp h with h | h
    · exact ⟨(v, d), List.mem_cons_self .., h⟩
    · obtain ⟨c, hc, hx⟩ := mem_nodesOfL h
      exact ⟨c, List.mem_cons_of_mem _ hc, hx⟩

/-! ### sharing: every distinct stored node is written exactly once -/

mutual
theorem size_nodesOf : ∀ (d x : EDD), x ∈ nodesOf d → sizeOf x ≤ sizeOf d
  | .inf, x, h => by simp [nodesOf] at h
  | .omega, x, h => by simp [nodesOf] at h
  | .node p cs, x, h => by
    simp only [nodesOf] at h
    rcases List.mem_append.mp h with h | h
    · have := size_nodesOfL cs x h
      simp only [EDD.node.sizeOf_spec]
      omega
    · rw [List.mem_singleton.mp h]; exact Nat.le_refl _
theorem size_nodesOfL : ∀ (cs : List (Int × EDD)) (x : EDD), x ∈ nodesOfL cs →
    sizeOf x ≤ sizeOf cs
  | [], x, h => by simp [nodesOfL] at h
  | c :: cs, x, h => by
    simp only [nodesOfL] at h
    simp only [List.cons.sizeOf_spec]
    rcases List.mem_append.mp h with h | h
    · have := size_nodesOfP c x h; omega
    · have := size_nodesOfL cs x h; omega
theorem size_nodesOfP : ∀ (c : Int × EDD) (x : EDD), x ∈ nodesOfP c → sizeOf x ≤ sizeOf c
  | (v, d), x, h => by
    simp only [nodesOfP] at h
    have := size_nodesOf d x h
    simp only [Prod.mk.sizeOf_spec]
    omega
end

/-- a node is not one of its own proper sub-nodes -/
theorem not_mem_nodesOfL_self (p : Nat) (cs : List (Int × EDD)) : EDD.node p cs ∉ nodesOfL cs := by
  intro h
  have := size_nodesOfL cs _ h
  simp only [EDD.node.sizeOf_spec] at this
  omega

/-- `ord` contains, with every node, all stored nodes below it -/
def SubClosed (ord : List EDD) : Prop := ∀ y, y ∈ ord → ∀ x, x ∈ nodesOf y → x ∈ ord

def EmitOK2 (F : List EDD → List EDD) (sub : List EDD) : Prop :=
  ∀ ord, (ord.Nodup → (F ord).Nodup) ∧
         (SubClosed ord → SubClosed (F ord) ∧ ∀ x, x ∈ sub → x ∈ F ord)

mutual
theorem emit_ok2 : ∀ d : EDD, EmitOK2 (emit d) (nodesOf d)
  | .inf => by
    intro ord
    simp only [emit, nodesOf]
    exact ⟨fun h => h, fun h => ⟨h, fun x hx => nomatch hx⟩⟩
  | .omega => by
    intro ord
    simp only [emit, nodesOf]
    exact ⟨fun h => h, fun h => ⟨h, fun x hx => nomatch hx⟩⟩
  | .node p cs => by
    intro ord
    obtain ⟨l1, l2⟩ := emitL_ok2 cs ord
    obtain ⟨_, m2, _, _⟩ := (emitL_ok cs).1 ord
    simp only [emit, nodesOf]
    by_cases hc : ord.contains (EDD.node p cs) = true
    · rw [if_pos hc]
      refine ⟨fun h => h, fun h => ⟨h, fun x hx => ?_⟩⟩
      have := h _ (List.contains_iff_mem.mp hc) x
      simp only [nodesOf] at this
      exact this hx
    · rw [if_neg hc]
      have hnot : EDD.node p cs ∉ emitL cs ord := by
        intro hm
        rcases m2 _ hm with h | h
        · exact hc (List.contains_iff_mem.mpr h)
        · exact not_mem_nodesOfL_self p cs h
      refine ⟨?_, ?_⟩
      · intro hnd
        rw [List.Nodup, List.pairwise_append]
        refine ⟨l1 hnd, List.pairwise_singleton _ _, ?_⟩
        intro a ha b hb hab
        rw [List.mem_singleton.mp hb] at hab
        rw [hab] at ha
        exact hnot ha
      · intro hsc
        obtain ⟨s1, s2⟩ := l2 hsc
        have hall : ∀ x, x ∈ nodesOfL cs ++ [EDD.node p cs] →
            x ∈ emitL cs ord ++ [EDD.node p cs] := by
          intro x hx
          rcases List.mem_append.mp hx with hx | hx
          · exact List.mem_append_left _ (s2 x hx)
          · exact List.mem_append_right _ hx
        refine ⟨?_, hall⟩
        intro y hy x hx
        rcases List.mem_append.mp hy with hy | hy
        · exact List.mem_append_left _ (s1 y hy x hx)
        · rw [List.mem_singleton.mp hy] at hx
          simp only [nodesOf] at hx
          exact hall x hx
theorem emitL_ok2 : ∀ cs : List (Int × EDD), EmitOK2 (emitL cs) (nodesOfL cs)
  | [] => by
    intro ord
    simp only [emitL, nodesOfL]
    exact ⟨fun h => h, fun h => ⟨h, fun x hx => nomatch hx⟩⟩
  | c :: cs => by
    intro ord
    obtain ⟨p1, p2⟩ := emitP_ok2 c ord
    obtain ⟨l1, l2⟩ := emitL_ok2 cs (emitP c ord)
    obtain ⟨m1, _, _, _⟩ := (emitL_ok cs).1 (emitP c ord)
    simp only [emitL, nodesOfL]
    refine ⟨fun h => l1 (p1 h), ?_⟩
    intro hsc
    obtain ⟨s1, s2⟩ := p2 hsc
    obtain ⟨t1, t2⟩ := l2 s1
    refine ⟨t1, ?_⟩
    intro x hx
    rcases List.mem_append.mp hx with hx | hx
    · exact m1 x (s2 x hx)
    · exact t2 x hx
theorem emitP_ok2 : ∀ c : Int × EDD, EmitOK2 (emitP c) (nodesOfP c)
  | (v, d) => by
    have h := emit_ok2 d
    simp only [emitP, nodesOfP]
    exact h
end

/-! ## Part 2 — reading back what was written (file level) -/

/-- what the round trip needs of a stored node: a legal position and the node-local normal form
    (`normalize_evplus` leaves it alone, it is not redundant) -/
def NodeOK (S : Shape) : EDD → Prop
  | .node p cs => 1 ≤ p ∧ p ≤ S.top ∧
      evLocalOK isInf dflt (S.size p) (S.mode p == .red) cs = true
  | _ => False

/-- `createReducedNode` without an incoming index stores a locally normal vector unchanged and
    returns the edge value 0 -/
theorem mkNodeEV_local (S : Shape) (k : Nat) (cs : List (Int × EDD))
    (h : evLocalOK isInf dflt (S.size k) (S.mode k == .red) cs = true) :
    mkNodeEV S k none cs = (0, .node k cs) := by
  obtain ⟨_, hloc, ⟨e0, he0, hi0, hv0⟩, hred⟩ := (evLocalOK_iff _ _ _ _ _).mp h
  rcases mkNodeEV_cases S k none cs with ⟨hz, _⟩ | ⟨m, hm, hcase⟩
  · have := List.all_eq_true.mp hz e0 he0
    rw [hi0] at this; cases this
  · obtain ⟨⟨e1, he1, hi1, hv1⟩, hlb⟩ := evMin_some cs m hm
    have hm0 : m = 0 := by
      have h1 := (hloc e1 he1).2 hi1
      have h2 := hlb e0 he0 hi0
      omega
    subst hm0
    have hnorm : evNorm 0 cs = cs := by
      unfold evNorm
      conv => rhs; rw [← List.map_id cs]
      apply List.map_congr_left
      intro e he
      unfold normE
      cases hi : isInf e.2 with
      | true =>
        have hv := (hloc e he).1 hi
        have hd := (isInf_iff _).mp hi
        obtain ⟨v, d⟩ := e
        simp only at hv hd
        simp only [if_true, id, hv, hd]
      | false => simp
    rw [hnorm] at hcase
    rcases hcase with ⟨hmode, hh, _⟩ | ⟨_, i, hi, _, _⟩ | ⟨hr, _, _⟩
    · exfalso
      apply hred (by rw [hmode]; rfl)
      intro e he
      exact beq_iff_eq.mp (List.all_eq_true.mp hh e he)
    · cases hi
    · exact hr

theorem indexOfE_lt {l : List EDD} {d : EDD} (h : d ∈ l) : indexOfE l d < l.length := by
  induction l with
  | nil => cases h
  | cons x xs ih =>
    unfold indexOfE
    by_cases hx : x = d
    · rw [if_pos hx]; simp
    · rw [if_neg hx]
      rcases List.mem_cons.mp h with rfl | h
      · exact absurd rfl hx
      · have := ih h
        simp only [List.length_cons]; omega

theorem indexOfE_get {l : List EDD} {d : EDD} (h : d ∈ l) : l[indexOfE l d]? = some d := by
  induction l with
  | nil => cases h
  | cons x xs ih =>
    unfold indexOfE
    by_cases hx : x = d
    · rw [if_pos hx, hx]; rfl
    · rw [if_neg hx]
      rcases List.mem_cons.mp h with rfl | h
      · exact absurd rfl hx
      · simpa using ih h

theorem indexOfE_append {l : List EDD} (l2 : List EDD) {d : EDD} (h : d ∈ l) :
    indexOfE (l ++ l2) d = indexOfE l d := by
  induction l with
  | nil => cases h
  | cons x xs ih =>
    simp only [List.cons_append, indexOfE]
    by_cases hx : x = d
    · rw [if_pos hx, if_pos hx]
    · rw [if_neg hx, if_neg hx]
      rcases List.mem_cons.mp h with rfl | h
      · exact absurd rfl hx
      · rw [ih h]

/-- a child that is a terminal, or a node already in the map, is resolved to itself -/
theorem resolveE_enc (l ext : List EDD) (d : EDD) (h : isNode d = true → d ∈ l) :
    resolveE l (encChildE (l ++ ext) d) = some d := by
  cases d with
  | inf => rfl
  | omega => rfl
  | node p cs =>
    have hm := h rfl
    simp only [encChildE, resolveE]
    rw [if_neg (by omega), indexOfE_append ext hm]
    simpa using indexOfE_get hm

theorem resolveEnts_enc (l ext : List EDD) : ∀ (cs : List (Int × EDD)),
    (∀ c, c ∈ cs → isNode c.2 = true → c.2 ∈ l) →
    resolveEnts l (cs.map (fun c => (c.1, encChildE (l ++ ext) c.2))) = some cs
  | [], _ => rfl
  | c :: cs, h => by
    simp only [List.map_cons, resolveEnts]
    rw [resolveE_enc l ext c.2 (h c (List.mem_cons_self ..)),
      resolveEnts_enc l ext cs (fun c' hc' => h c' (List.mem_cons_of_mem _ hc'))]

/-- reading the records of a closed list of locally normal nodes rebuilds exactly these nodes -/
theorem readRecsE_closed (S : Shape) : ∀ (l : List EDD), ClosedL l → (∀ d, d ∈ l → NodeOK S d) →
    ∀ (ext : List EDD) (rest : List FRecE),
      readRecsE S (l.map (encRecE (l ++ ext)) ++ rest) [] = readRecsE S rest l := by
  intro l hcl
  induction hcl with
  | nil => intro _ ext rest; rfl
  | snoc l d _ hk ih =>
    intro hok ext rest
    have hokl : ∀ x, x ∈ l → NodeOK S x := fun x hx => hok x (List.mem_append_left _ hx)
    have hd := hok d (List.mem_append_right _ (List.mem_singleton.mpr rfl))
    rw [List.map_append, List.append_assoc, List.append_assoc,
      ih hokl ([d] ++ ext) ([d].map (encRecE (l ++ ([d] ++ ext))) ++ rest)]
    cases d with
    | inf => exact absurd hd (fun h => h)
    | omega => exact absurd hd (fun h => h)
    | node p cs =>
      obtain ⟨hp1, hp2, hloc⟩ := hd
      have hpos : ¬ (p = 0 ∨ S.top < p) := by omega
      have hres : resolveEnts l (cs.map (fun c => (c.1, encChildE (l ++ EDD.node p cs :: ext) c.2)))
          = some cs := by
        apply resolveEnts_enc l (EDD.node p cs :: ext)
        intro c hc hn
        exact hk c.2 (List.mem_map.mpr ⟨c, hc, rfl⟩) hn
      simp only [List.map_cons, List.map_nil, List.cons_append, List.nil_append, encRecE, readRecsE]
      rw [if_neg hpos, hres]
      simp only
      rw [mkNodeEV_local S p cs hloc]

/-- the file level round trip -/
theorem readFE_writeFE (S : Shape) (e : Int × EDD)
    (hok : ∀ d, d ∈ nodesOf e.2 → NodeOK S d) : readFE S (writeFE e) = some e := by
  obtain ⟨hE, hself⟩ := emit_ok e.2
  obtain ⟨_, h2, h3, _⟩ := hE []
  have hcl : ClosedL (emit e.2 []) := h3 ClosedL.nil
  have hokl : ∀ d, d ∈ emit e.2 [] → NodeOK S d := by
    intro d hd
    rcases h2 d hd with h | h
    · cases h
    · exact hok d h
  have hrd := readRecsE_closed S (emit e.2 []) hcl hokl [] []
  rw [List.append_nil, List.append_nil] at hrd
  unfold readFE writeFE
  simp only [hrd, readRecsE]
  have hres := resolveE_enc (emit e.2 []) [] e.2 (fun hn => hself hn [])
  rw [List.append_nil] at hres
  rw [hres]

/-! ## Part 3 — the token level -/

theorem takeKids_enc : ∀ (cs : List FChildE) (rest : List TokE),
    takeKids cs.length (cs.map encKid ++ rest) = some (cs, rest)
  | [], _ => rfl
  | .ref i :: cs, rest => by
    simp only [List.length_cons, List.map_cons, encKid, List.cons_append, takeKids,
      takeKids_enc cs rest, Option.map_some]
  | .inf :: cs, rest => by
    simp only [List.length_cons, List.map_cons, encKid, List.cons_append, takeKids, if_true,
      takeKids_enc cs rest, Option.map_some]
  | .omega :: cs, rest => by
    have h1 : ¬ ((-1 : Int) = 0) := by omega
    simp only [List.length_cons, List.map_cons, encKid, List.cons_append, takeKids, if_neg h1,
      if_true, takeKids_enc cs rest, Option.map_some]

theorem takeVals_enc : ∀ (vs : List Int) (rest : List TokE),
    takeVals vs.length (vs.map TokE.val ++ rest) = some (vs, rest)
  | [], _ => rfl
  | v :: vs, rest => by
    simp only [List.length_cons, List.map_cons, List.cons_append, takeVals, takeVals_enc vs rest,
      Option.map_some]

theorem takeNatsE_enc : ∀ (ns : List Nat) (rest : List TokE),
    takeNatsE ns.length (ns.map (fun (n : Nat) => TokE.int (n : Int)) ++ rest) = some (ns, rest)
  | [], _ => rfl
  | n :: ns, rest => by
    have hn : ¬ ((n : Int) < 0) := by omega
    simp only [List.length_cons, List.map_cons, List.cons_append, takeNatsE, if_neg hn,
      takeNatsE_enc ns rest, Option.map_some, Int.toNat_natCast]

section generic
variable {β : Type} [DecidableEq β]

theorem pad_dropTrail (z : β) : ∀ (cs : List β),
    dropTrail z cs ++ List.replicate (cs.length - (dropTrail z cs).length) z = cs
  | [] => rfl
  | c :: cs => by
    have ih := pad_dropTrail z cs
    unfold dropTrail
    cases hr : dropTrail z cs with
    | nil =>
      rw [hr] at ih
      simp only [List.nil_append, List.length_nil, Nat.sub_zero] at ih
      by_cases hc : c = z
      · simp only [if_pos hc, List.nil_append, List.length_nil, List.length_cons, Nat.sub_zero,
          List.replicate_succ]
        rw [ih, hc]
      · simp only [if_neg hc, List.length_cons, List.length_nil, List.cons_append, List.nil_append]
        have e : cs.length + 1 - (0 + 1) = cs.length := by omega
        rw [e, ih]
    | cons x r =>
      rw [hr] at ih
      simp only [List.length_cons, List.cons_append] at ih ⊢
      have e : cs.length + 1 - (r.length + 1 + 1) = cs.length - (r.length + 1) := by omega
      rw [e, ih]

theorem lookupG_lt (z : β) : ∀ (cs : List β) (i j : Nat), j < i →
    lookupG j (sparsifyG z i cs) = none
  | [], _, _, _ => rfl
  | c :: cs, i, j, hj => by
    unfold sparsifyG
    by_cases hc : c = z
    · rw [if_pos hc]; exact lookupG_lt z cs (i+1) j (by omega)
    · rw [if_neg hc]
      simp only [lookupG]
      rw [if_neg (by omega)]
      exact lookupG_lt z cs (i+1) j (by omega)

theorem expandFromG_skip (z : β) (i : Nat) (c : β) (ps : List (Nat × β)) :
    ∀ (n k : Nat), i < k → expandFromG z ((i, c) :: ps) k n = expandFromG z ps k n
  | 0, _, _ => rfl
  | n+1, k, hk => by
    simp only [expandFromG, lookupG]
    rw [if_neg (by omega), expandFromG_skip z i c ps n (k+1) (by omega)]

theorem expand_sparsifyG (z : β) : ∀ (cs : List β) (i : Nat),
    expandFromG z (sparsifyG z i cs) i cs.length = cs
  | [], _ => rfl
  | c :: cs, i => by
    unfold sparsifyG
    by_cases hc : c = z
    · rw [if_pos hc]
      simp only [List.length_cons, expandFromG, lookupG_lt z cs (i+1) i (by omega),
        Option.getD_none, expand_sparsifyG z cs (i+1)]
      rw [hc]
    · rw [if_neg hc]
      simp only [List.length_cons, expandFromG, lookupG, if_true, Option.getD_some]
      rw [expandFromG_skip z i c _ cs.length (i+1) (by omega), expand_sparsifyG z cs (i+1)]

theorem sparsifyG_nil (z : β) : ∀ (cs : List β) (i : Nat), sparsifyG z i cs = [] →
    cs = List.replicate cs.length z
  | [], _, _ => rfl
  | c :: cs, i, h => by
    unfold sparsifyG at h
    by_cases hc : c = z
    · rw [if_pos hc] at h
      rw [List.length_cons, List.replicate_succ, ← sparsifyG_nil z cs (i+1) h, hc]
    · rw [if_neg hc] at h; cases h

end generic

theorem zip_fst_snd' {A B : Type} : ∀ (ps : List (A × B)),
    (ps.map Prod.fst).zip (ps.map Prod.snd) = ps
  | [] => rfl
  | p :: ps => by simp [zip_fst_snd' ps]

/-- one record survives encoding, whatever form the writer's storage policy picks -/
theorem decodeRecE_encodeRecE (S : Shape) (sp : FRecE → Bool) (r : FRecE)
    (hlen : r.ents.length = S.size r.pos) (rest : List TokE) :
    decodeRecE S (encodeRecE sp r ++ rest) = some (r, rest) := by
  have hp : ¬ ((r.pos : Int) < 0) := by omega
  unfold encodeRecE
  cases hsp : sp r with
  | true =>
    simp only [if_true]
    cases hps : sparsifyG tz 0 r.ents with
    | nil =>
      -- `-0`: read as a full node of size 0
      have hz := sparsifyG_nil tz r.ents 0 hps
      simp only [List.length_nil, List.map_nil, List.append_nil, List.cons_append, List.nil_append,
        decodeRecE, if_neg hp, Int.toNat_natCast]
      have : ¬ (-((0 : Nat) : Int) < 0) := by omega
      rw [if_neg this]
      simp only [Int.natCast_zero, Int.neg_zero, Int.toNat_zero, takeKids, takeVals, padG,
        List.zip_nil_left, List.length_nil, Nat.sub_zero, List.nil_append, ← hlen, ← hz]
    | cons q ps =>
      have hneg : -(((q :: ps).length : Nat) : Int) < 0 := by simp only [List.length_cons]; omega
      have hexp := expand_sparsifyG tz r.ents 0
      rw [hps] at hexp
      simp only [List.cons_append, List.nil_append, List.append_assoc, decodeRecE, if_neg hp,
        if_pos hneg, Int.natAbs_neg, Int.natAbs_natCast, Int.toNat_natCast]
      have h1 := takeNatsE_enc ((q :: ps).map Prod.fst)
        ((q :: ps).map (fun p => encKid p.2.2) ++
          ((q :: ps).map (fun p => TokE.val p.2.1) ++ rest))
      simp only [List.length_map, List.map_map] at h1
      have e1 : (fun p : Nat × FEnt => TokE.int (p.1 : Int)) =
          ((fun (n : Nat) => TokE.int (n : Int)) ∘ Prod.fst) := rfl
      rw [e1, h1]
      have h2 := takeKids_enc ((q :: ps).map (fun p => p.2.2))
        ((q :: ps).map (fun p => TokE.val p.2.1) ++ rest)
      simp only [List.length_map, List.map_map] at h2
      have e2 : (fun p : Nat × FEnt => encKid p.2.2) = (encKid ∘ fun p : Nat × FEnt => p.2.2) := rfl
      rw [e2]
      simp only
      rw [h2]
      have h3 := takeVals_enc ((q :: ps).map (fun p => p.2.1)) rest
      simp only [List.length_map, List.map_map] at h3
      have e3 : (fun p : Nat × FEnt => TokE.val p.2.1) = (TokE.val ∘ fun p : Nat × FEnt => p.2.1) := rfl
      rw [e3]
      simp only
      rw [h3]
      have hz : (List.map Prod.fst (q :: ps)).zip
          ((List.map (fun p : Nat × FEnt => p.2.1) (q :: ps)).zip
            (List.map (fun p : Nat × FEnt => p.2.2) (q :: ps))) = q :: ps := by
        have hin : (List.map (fun p : Nat × FEnt => p.2.1) (q :: ps)).zip
            (List.map (fun p : Nat × FEnt => p.2.2) (q :: ps)) = List.map Prod.snd (q :: ps) := by
          have := zip_fst_snd' ((q :: ps).map Prod.snd)
          simp only [List.map_map] at this
          exact this
        rw [hin, zip_fst_snd']
      simp only [hz, ← hlen, hexp]
  | false =>
    simp only [Bool.false_eq_true, if_false, List.cons_append, List.nil_append, List.append_assoc,
      decodeRecE, if_neg hp, Int.toNat_natCast]
    have hz : ¬ (((dropTrail tz r.ents).length : Int) < 0) := by omega
    rw [if_neg hz]
    have h2 := takeKids_enc ((dropTrail tz r.ents).map Prod.snd)
      ((dropTrail tz r.ents).map (fun c => TokE.val c.1) ++ rest)
    simp only [List.length_map, List.map_map] at h2
    have e2 : (fun c : FEnt => encKid c.2) = (encKid ∘ Prod.snd) := rfl
    rw [e2, h2]
    have h3 := takeVals_enc ((dropTrail tz r.ents).map Prod.fst) rest
    simp only [List.length_map, List.map_map] at h3
    have e3 : (fun c : FEnt => TokE.val c.1) = (TokE.val ∘ Prod.fst) := rfl
    simp only
    rw [e3, h3]
    simp only [zip_fst_snd', padG, ← hlen, pad_dropTrail]

theorem decodeRecsE_encode (S : Shape) (sp : FRecE → Bool) :
    ∀ (recs : List FRecE), (∀ r ∈ recs, r.ents.length = S.size r.pos) → ∀ (rest : List TokE),
      decodeRecsE S recs.length (recs.flatMap (encodeRecE sp) ++ rest) = some (recs, rest)
  | [], _, _ => rfl
  | r :: recs, h, rest => by
    simp only [List.length_cons, List.flatMap_cons, List.append_assoc, decodeRecsE]
    rw [decodeRecE_encodeRecE S sp r (h r (List.mem_cons_self ..))]
    simp only
    rw [decodeRecsE_encode S sp recs (fun x hx => h x (List.mem_cons_of_mem _ hx))]
    rfl

/-- the token level is lossless for files whose records have the reader's variable sizes -/
theorem decodeE_encodeE (S : Shape) (sp : FRecE → Bool) (f : FileE)
    (h : ∀ r ∈ f.recs, r.ents.length = S.size r.pos) :
    decodeE S (encodeE sp f) = some f := by
  have h1 : ¬ ((f.recs.length : Int) < 0) := by omega
  simp only [encodeE, List.cons_append, List.nil_append, decodeE, if_neg h1,
    Int.toNat_natCast]
  rw [decodeRecsE_encode S sp f.recs h]
  simp only
  have hk := takeKids_enc [f.root.2] []
  simp only [List.length_cons, List.length_nil, List.map_cons, List.map_nil, List.append_nil] at hk
  rw [hk]

/-! ## Part 4 — reduced edges -/

/-- every stored node of a reduced target is locally normal and sits at a legal position -/
theorem Red_nodesOf (S : Shape) :
    ∀ (k : Nat) (fi : Option Nat) (d : EDD), k ≤ S.top → Red S k fi d = true →
      ∀ x, x ∈ nodesOf d → NodeOK S x := by
  intro k
  induction k with
  | zero =>
    intro fi d _ hr x hx
    rcases (Red_zero_iff S fi d).mp hr with rfl | rfl <;> simp [nodesOf] at hx
  | succ k ih =>
    intro fi d hk hr x hx
    rcases storedAt_cases (k+1) d with ⟨cs, rfl⟩ | hd
    · obtain ⟨_, hloc, hch⟩ := (Red_succ_node S k fi cs).mp hr
      simp only [nodesOf] at hx
      rcases List.mem_append.mp hx with hx | hx
      · obtain ⟨c, hc, hxc⟩ := mem_nodesOfL hx
        obtain ⟨j, hj, rfl⟩ := List.getElem_of_mem hc
        have hget : cs.getD j dflt = cs[j] := by
          rw [List.getD_eq_getElem?_getD, List.getElem?_eq_getElem hj]; rfl
        have := hch j hj
        rw [hget] at this
        exact ih (some j) _ (by omega) this x hxc
      · rw [List.mem_singleton.mp hx]
        exact ⟨by omega, hk, hloc⟩
    · exact ih none d (by omega) (Red_succ_skip S k fi hd hr).2 x hx

end EVX

/-! ## Concrete instances (non-vacuity) -/

namespace EVXExamples
open EDD EVX CanonExamples ApplyExamples EVApplyExamples

/-- `aE` (3 positions, the sub-tree `xE` used twice, an ∞ entry, root value 1): FOUR records —
    `xE` is written once and referenced twice (`n 1`), the ∞ entry is `w 0` with value 0 -/
def aE_file : FileE :=
  { recs := [⟨1, [(0, .omega), (2, .omega)]⟩,              -- 1: xE
             ⟨1, [(3, .omega), (0, .omega)]⟩,              -- 2: yE
             ⟨2, [(0, .ref 1), (1, .ref 2), (0, .inf)]⟩,   -- 3
             ⟨3, [(0, .ref 3), (2, .ref 1)]⟩],             -- 4: the root node
    root := (1, .ref 4) }

/-- the tokens with the records at position 2 written sparse, the others truncated full:
    record 3 is `2 -2  0 1  n 1 n 2  i 0 i 1` (the ∞ entry is not written at all) -/
def aE_toks : List TokE :=
  [.kw "dd", .int 4,
   .int 1, .int 2, .term (-1), .term (-1), .val 0, .val 2,
   .int 1, .int 2, .term (-1), .term (-1), .val 3, .val 0,
   .int 2, .int (-2), .int 0, .int 1, .ref 1, .ref 2, .val 0, .val 1,
   .int 3, .int 2, .ref 3, .ref 1, .val 0, .val 2,
   .kw "dd/", .kw "ptrs", .int 1, .val 1, .ref 4, .kw "srtp"]

end EVXExamples

namespace EVX
open EDD

/-! ## Property theorems -/

/-- File level: for every tree whose stored nodes are locally normal (value normalisation and no
    redundant node where the rule forbids one) and at legal positions, reading the written file
    gives the edge back — the root edge value and every edge value included.  The reader's
    `createReducedNode` finds nothing to normalise, so dropping its returned edge value (as
    `mdd_reader` does) loses nothing. -/
theorem read_write_file (S : Shape) (e : Int × EDD)
    (hok : ∀ d, d ∈ nodesOf e.2 → NodeOK S d) : readFE S (writeFE e) = some e :=
  readFE_writeFE S e hok

/-- Token level, general position: a target reduced for position `k ≤ top` (arriving through any
    index), any root value, any storage policy (sparse / truncated full per record). -/
theorem readTE_writeTE_gen (S : Shape) (sp : FRecE → Bool) (e : Int × EDD) (k : Nat)
    (fi : Option Nat) (hk : k ≤ S.top) (h : Red S k fi e.2 = true) :
    readTE S (writeTE sp e) = some e := by
  have hok := Red_nodesOf S k fi e.2 hk h
  unfold readTE writeTE
  rw [decodeE_encodeE S sp (writeFE e)]
  · exact readFE_writeFE S e hok
  · intro r hr
    obtain ⟨hE, _⟩ := emit_ok e.2
    obtain ⟨_, h2, _, _⟩ := hE []
    obtain ⟨d, hd, rfl⟩ := List.mem_map.mp hr
    have hnd : d ∈ nodesOf e.2 := by
      rcases h2 d hd with h | h
      · cases h
      · exact h
    have := hok d hnd
    cases d with
    | inf => exact absurd this (fun h => h)
    | omega => exact absurd this (fun h => h)
    | node p cs =>
      obtain ⟨_, _, hloc⟩ := this
      simp only [encRecE, List.length_map]
      exact ((evLocalOK_iff _ _ _ _ _).mp hloc).1

/-- C14 for EV+ (tree level).  Writing a reduced EV+ edge and reading the tokens back into a
    forest of the same shape returns exactly that edge: `readTE (writeTE e) = some e` — for every
    reduction rule (fully / quasi / identity reduced), every storage policy of the writer,
    including the root edge value, all edge values, and ∞ children (written as `w 0` with value
    0 in full records, not written at all in sparse records). -/
theorem readTE_writeTE (S : Shape) (sp : FRecE → Bool) (e : Int × EDD)
    (h : RedEdge S S.top none e = true) : readTE S (writeTE sp e) = some e :=
  readTE_writeTE_gen S sp e S.top none (Nat.le_refl _) ((RedEdge_iff _ _ _ _).mp h).1

/-- Every written record refers only to EARLIER records (the reader never meets an unresolved
    index), and the file contains exactly the stored nodes below the root. -/
theorem writeFE_closed (e : Int × EDD) :
    ClosedL (emit e.2 []) ∧ (∀ d, d ∈ emit e.2 [] → d ∈ nodesOf e.2) ∧
    (isNode e.2 = true → e.2 ∈ emit e.2 []) := by
  obtain ⟨hE, hself⟩ := emit_ok e.2
  obtain ⟨_, h2, h3, _⟩ := hE []
  refine ⟨h3 ClosedL.nil, ?_, fun hn => hself hn []⟩
  intro d hd
  rcases h2 d hd with h | h
  · cases h
  · exact h

/-- Sharing.  The file contains EXACTLY the distinct stored nodes below the root, each ONCE
    (however often a sub-tree is used): what `node_marker` + the unique table give the real
    writer. -/
theorem writeFE_shared (e : Int × EDD) :
    (emit e.2 []).Nodup ∧ (∀ d, d ∈ emit e.2 [] ↔ d ∈ nodesOf e.2) ∧
    (writeFE e).recs.length = (emit e.2 []).length := by
  obtain ⟨h1, h2⟩ := emit_ok2 e.2 []
  obtain ⟨_, hall⟩ := h2 (fun y hy => nomatch hy)
  refine ⟨h1 List.nodup_nil, fun d => ⟨(writeFE_closed e).2.1 d, hall d⟩, ?_⟩
  simp only [writeFE, List.length_map]

section Examples
open EVXExamples CanonExamples ApplyExamples EVApplyExamples

/-- sharing: `xE` occurs twice in `aE` and once in the file -/
example : writeFE aE = aE_file := by decide
example : (nodesOf aE.2).length = 5 ∧ (writeFE aE).recs.length = 4 := by decide
example : writeTE (fun r => r.pos == 2) aE = aE_toks := by decide
example : readTE SA aE_toks = some aE := by decide
/-- all records sparse / all truncated full -/
example : readTE SA (writeTE (fun _ => true) aE) = some aE := by decide
example : readTE SA (writeTE (fun _ => false) aE) = some aE := by decide
/-- negative root value, an ∞ entry in the LAST slot of `zE` (dropped by the truncated-full form
    and restored by the reader's padding) -/
example : readTE SA (writeTE (fun _ => false) bE) = some bE := by decide
/-- terminal edges: no records at all -/
example : writeTE (fun _ => false) (0, .inf) =
    [.kw "dd", .int 0, .kw "dd/", .kw "ptrs", .int 1, .val 0, .term 0, .kw "srtp"] := by decide
example : readTE SA (writeTE (fun _ => false) (7, .omega)) = some (7, .omega) := by decide
/-- identity-reduced relation forest -/
example : readTE SB (writeTE (fun r => r.pos == 3) bI) = some bI := by decide
/-- the general theorem on a concrete edge -/
example : readTE SA (writeTE (fun r => r.pos == 2) aE) = some aE :=
  readTE_writeTE SA _ aE (by decide)
/-- NOT a round trip for an un-normalised node: the reader's `createReducedNode` normalises the
    vector `[1, 3]` to `[0, 2]` and the pulled-up value 1 is dropped (the C++ code asserts it
    is 0): the hypothesis "reduced" is necessary -/
example : readTE SA (writeTE (fun _ => false) (0, .node 1 [(1, .omega), (3, .omega)]))
    = some (0, .node 1 [(0, .omega), (2, .omega)]) := by decide
/-- a malformed file (forward reference) is rejected -/
example : readFE SA ⟨[⟨1, [(0, .ref 1), (0, .omega)]⟩], (0, .ref 1)⟩ = none := by decide

end Examples

end EVX

#print axioms EVX.emit_ok
#print axioms EVX.mkNodeEV_local
#print axioms EVX.readFE_writeFE
#print axioms EVX.decodeE_encodeE
#print axioms EVX.Red_nodesOf
#print axioms EVX.read_write_file
#print axioms EVX.readTE_writeTE_gen
#print axioms EVX.readTE_writeTE
#print axioms EVX.writeFE_closed
#print axioms EVX.writeFE_shared

/- Output (Lean 4.33.0):
'Meddly.EVX.emit_ok' depends on axioms: [propext, Quot.sound]
'Meddly.EVX.mkNodeEV_local' depends on axioms: [propext, Classical.choice, Quot.sound]
'Meddly.EVX.readFE_writeFE' depends on axioms: [propext, Classical.choice, Quot.sound]
'Meddly.EVX.decodeE_encodeE' depends on axioms: [propext, Quot.sound]
'Meddly.EVX.Red_nodesOf' depends on axioms: [propext, Quot.sound]
'Meddly.EVX.read_write_file' depends on axioms: [propext, Classical.choice, Quot.sound]
'Meddly.EVX.readTE_writeTE_gen' depends on axioms: [propext, Classical.choice, Quot.sound]
'Meddly.EVX.readTE_writeTE' depends on axioms: [propext, Classical.choice, Quot.sound]
'Meddly.EVX.writeFE_closed' depends on axioms: [propext, Quot.sound]
'Meddly.EVX.writeFE_shared' depends on axioms: [propext, Quot.sound]
-/

end Meddly
