/-
  C20 — saturation over a partitioned transition relation (`pregen_relation`,
  `SATURATION_FORWARD`; src/sat_relations.{h,cc}, src/operations/sat_pregen.cc).

  Layers of this file

  * Generic part (any state type `σ`, finite domain list `dom`): relations as
    `σ → σ → Bool`, `unionRel`, reachability inside the domain (`Reach`), the
    chaotic-iteration lemma (soundness: firing only adds reachable states;
    completeness: a set that contains the initial states and is closed under
    every event contains every reachable state), `saturEvents` = an ARBITRARY
    firing schedule over a list of event relations, and `reachFix`, the naive
    executable least fixed point the acceptor uses as the specification.

  * Level part (states are tuples `List Nat`, index 0 = variable 1): what
    `pregen_relation` does with the relations it is given, on the level of sets
    of pairs, exactly as coded:
      - `topOf`      the level `ABS(r.getLevel())` of the relation's root node in an
                     identity-reduced forest, characterised semantically (least m such
                     that r = identity above m × something below; canonicity makes this
                     the root level);
      - `finalizeByEvents`  the bucket sort of `finalize()` for "by events"
                     (`level_index` / `next` linked lists: level K first, inside a level
                     the most recently added event first; level-0 events are dropped by
                     `addToRelation`);
      - `mergeByLevels`     `addToRelation` for "by levels" (`events[k] ∪= r`);
      - `commonDiag`        the `maxDiag` of `splitMxd` (intersection over i of the
                     (i,i) entries of the level-k matrix);
      - `splitLevels`       the main loop of `splitMxd` for SplitOnly / SplitSubtract /
                     SplitSubtractAll (k = K … 2; the `continue` when `maxDiag` is empty
                     is kept because SplitSubtract would otherwise subtract level 0);
      - `subtractAll`       the closing double loop of SplitSubtractAll;
      - `unionLevels`       the first phase of MonolithicSplit;
      - `finalizeLevels`    `finalize(opt)` for "by levels".

  NOT modelled (partial): the decision-diagram recursion `saturateHelper` /
  `recFire` of sat_pregen.cc (which sub-node is fired when, the compute tables,
  the in-place update of `nb`).  It is covered only as "some firing schedule":
  `saturEvents_eq_lfp` holds for EVERY schedule that ends closed, and the
  correspondence run checks that the real code's result is that fixed point.
  The reading of skipped levels as identity is the identity-reduced rule; the
  model describes the code with the repairs of findings F1 and F8 applied (see
  NOTES.md): `unionLevels` stores at `ABS(level)`.
-/

import MeddlyModel.Core.Canon

namespace Meddly
namespace Pregen

/-! ## Generic part: sets, relations, reachability, chaotic iteration -/

section Generic
variable {σ : Type}

abbrev SSet (σ : Type) := σ → Bool
abbrev Rel (σ : Type) := σ → σ → Bool

def emptyRel : Rel σ := fun _ _ => false
def runion (a b : Rel σ) : Rel σ := fun s t => a s t || b s t
def rinter (a b : Rel σ) : Rel σ := fun s t => a s t && b s t
def rdiff (a b : Rel σ) : Rel σ := fun s t => a s t && !b s t

/-- union of a list of event relations -/
def unionRel (evs : List (Rel σ)) : Rel σ := fun s t => evs.any (fun r => r s t)

/-- states reachable from `init` under `R`, all inside the finite domain `dom` -/
inductive Reach (dom : List σ) (init : SSet σ) (R : Rel σ) : σ → Prop
  | base {s : σ} : s ∈ dom → init s = true → Reach dom init R s
  | step {s t : σ} : Reach dom init R s → t ∈ dom → R s t = true → Reach dom init R t

theorem Reach.mem_dom {dom : List σ} {init : SSet σ} {R : Rel σ} {s : σ}
    (h : Reach dom init R s) : s ∈ dom := by
  cases h with
  | base hd _ => exact hd
  | step _ hd _ => exact hd

/-- reachability only looks at the relation on `dom × dom` -/
theorem Reach.congr {dom : List σ} {init : SSet σ} {R R' : Rel σ}
    (h : ∀ s t, s ∈ dom → t ∈ dom → R s t = true → R' s t = true) {u : σ}
    (hu : Reach dom init R u) : Reach dom init R' u := by
  induction hu with
  | base hd hi => exact .base hd hi
  | step hs hd hr ih => exact .step ih hd (h _ _ hs.mem_dom hd hr)

/-- `X` is closed under `R` inside `dom` -/
def ClosedIn (dom : List σ) (R : Rel σ) (X : SSet σ) : Prop :=
  ∀ s t, s ∈ dom → t ∈ dom → X s = true → R s t = true → X t = true

/-- completeness half of the chaotic-iteration lemma -/
theorem closed_superset_reach {dom : List σ} {init : SSet σ} {R : Rel σ} {X : SSet σ}
    (h0 : ∀ s, s ∈ dom → init s = true → X s = true) (hc : ClosedIn dom R X) :
    ∀ u, Reach dom init R u → X u = true := by
  intro u hu
  induction hu with
  | base hd hi => exact h0 _ hd hi
  | step hs hd hr ih => exact hc _ _ hs.mem_dom hd ih hr

/-- self-loops never matter: removing pairs `(s,s)` from a relation keeps the reachable set -/
theorem reach_ignores_selfloops {dom : List σ} {init : SSet σ} {R R' : Rel σ}
    (h : ∀ s t, s ∈ dom → t ∈ dom → R s t = true → R' s t = true ∨ s = t) {u : σ}
    (hu : Reach dom init R u) : Reach dom init R' u := by
  induction hu with
  | base hd hi => exact .base hd hi
  | step hs hd hr ih =>
    cases h _ _ hs.mem_dom hd hr with
    | inl h' => exact .step ih hd h'
    | inr e => exact e ▸ ih

/-- executable closedness test -/
def closedB (dom : List σ) (evs : List (Rel σ)) (X : SSet σ) : Bool :=
  dom.all fun s => dom.all fun t => evs.all fun r => !(X s && r s t) || X t

theorem closedB_iff (dom : List σ) (evs : List (Rel σ)) (X : SSet σ) :
    closedB dom evs X = true ↔ ClosedIn dom (unionRel evs) X := by
  unfold closedB ClosedIn unionRel
  simp only [List.all_eq_true, List.any_eq_true, Bool.or_eq_true, Bool.not_eq_true', Bool.and_eq_false_iff]
  constructor
  · intro h s t hs ht hx ⟨r, hr, hrst⟩
    rcases h s hs t ht r hr with h' | h'
    · rcases h' with h' | h'
      · rw [hx] at h'; cases h'
      · rw [hrst] at h'; cases h'
    · exact h'
  · intro h s hs t ht r hr
    cases hx : X s with
    | false => exact .inl (.inl rfl)
    | true =>
      cases hrst : r s t with
      | false => exact .inl (.inr rfl)
      | true => exact .inr (h s t hs ht hx ⟨r, hr, hrst⟩)

theorem filter_length_lt (l : List σ) (p q : σ → Bool) (hqp : ∀ x, q x = true → p x = true)
    (a : σ) (ha : a ∈ l) (hpa : p a = true) (hqa : q a = false) :
    (l.filter q).length < (l.filter p).length := by
  induction l with
  | nil => cases ha
  | cons x rest ih =>
    have hle : (rest.filter q).length ≤ (rest.filter p).length := by
      clear ih ha
      induction rest with
      | nil => exact Nat.le_refl _
      | cons y r ih2 =>
        simp only [List.filter_cons]
        cases hq : q y with
        | true => simp [hqp y hq]; exact ih2
        | false =>
          cases p y with
          | true => simp; exact Nat.le_succ_of_le ih2
          | false => simp; exact ih2
    rw [List.mem_cons] at ha
    simp only [List.filter_cons]
    rcases ha with e | hin
    · subst e
      simp [hpa, hqa]
      exact Nat.lt_succ_of_le hle
    · have := ih hin
      cases hq : q x with
      | true => simp [hqp x hq]; exact this
      | false =>
        cases p x with
        | true => simp; exact Nat.lt_succ_of_lt this
        | false => simp; exact this

variable [DecidableEq σ]

/-- one attempted firing: event number `i`, from `s` to `t` -/
abbrev Firing (σ : Type) := Nat × σ × σ

/-- fire one step: `t` is added iff `s` is already in the set, event `i` has the pair `(s,t)` and `t`
    is a state of the domain; otherwise nothing happens -/
def fireStep (dom : List σ) (evs : List (Rel σ)) (X : SSet σ) (f : Firing σ) : SSet σ :=
  if X f.2.1 && (evs.getD f.1 emptyRel) f.2.1 f.2.2 && dom.contains f.2.2 then
    (fun u => u == f.2.2 || X u)
  else X

/-- saturation as chaotic iteration: ANY schedule of firings of the (per-level) event relations -/
def saturEvents (dom : List σ) (evs : List (Rel σ)) (sched : List (Firing σ)) (init : SSet σ) : SSet σ :=
  sched.foldl (fireStep dom evs) init

omit [DecidableEq σ] in
theorem getD_mem_or_empty (evs : List (Rel σ)) (i : Nat) :
    evs.getD i emptyRel ∈ evs ∨ evs.getD i emptyRel = emptyRel := by
  rw [List.getD_eq_getElem?_getD]
  cases h : evs[i]? with
  | none => right; rfl
  | some r => left; exact List.mem_of_getElem? h

/-- soundness of one firing -/
theorem fireStep_sound (dom : List σ) (evs : List (Rel σ)) (init : SSet σ) (X : SSet σ) (f : Firing σ)
    (hX : ∀ u, X u = true → Reach dom init (unionRel evs) u) :
    ∀ u, fireStep dom evs X f u = true → Reach dom init (unionRel evs) u := by
  intro u hu
  unfold fireStep at hu
  split at hu
  · rename_i hc
    simp only [Bool.and_eq_true, List.contains_eq_mem, decide_eq_true_eq] at hc
    obtain ⟨⟨hs, hr⟩, hd⟩ := hc
    simp only [Bool.or_eq_true, beq_iff_eq] at hu
    rcases hu with hu | hu
    · subst hu
      refine .step (hX _ hs) hd ?_
      unfold unionRel
      rw [List.any_eq_true]
      rcases getD_mem_or_empty evs f.1 with hm | he
      · exact ⟨_, hm, hr⟩
      · rw [he] at hr; cases hr
    · exact hX _ hu
  · exact hX _ hu

theorem fireStep_mono (dom : List σ) (evs : List (Rel σ)) (X : SSet σ) (f : Firing σ) (u : σ)
    (hu : X u = true) : fireStep dom evs X f u = true := by
  unfold fireStep
  split
  · simp [hu]
  · exact hu

theorem saturEvents_mono (dom : List σ) (evs : List (Rel σ)) (sched : List (Firing σ)) (X : SSet σ) (u : σ)
    (hu : X u = true) : saturEvents dom evs sched X u = true := by
  unfold saturEvents
  induction sched generalizing X with
  | nil => exact hu
  | cons f rest ih => exact ih (fireStep dom evs X f) (fireStep_mono dom evs X f u hu)

/-- soundness half of the chaotic-iteration lemma: whatever the schedule, only reachable states are added -/
theorem saturEvents_sound (dom : List σ) (evs : List (Rel σ)) (sched : List (Firing σ)) (init : SSet σ)
    (hinit : ∀ s, init s = true → s ∈ dom) :
    ∀ u, saturEvents dom evs sched init u = true → Reach dom init (unionRel evs) u := by
  have gen : ∀ (sched : List (Firing σ)) (X : SSet σ),
      (∀ u, X u = true → Reach dom init (unionRel evs) u) →
      ∀ u, sched.foldl (fireStep dom evs) X u = true → Reach dom init (unionRel evs) u := by
    intro sched
    induction sched with
    | nil => intro X hX u hu; exact hX u hu
    | cons f rest ih =>
      intro X hX u hu
      exact ih (fireStep dom evs X f) (fireStep_sound dom evs init X f hX) u hu
  exact gen sched init (fun u hu => .base (hinit u hu) hu)

/-! ### the executable least fixed point (specification used by the acceptor) -/

/-- one breadth-first round on member lists -/
def grow (dom : List σ) (R : Rel σ) (X : List σ) : List σ :=
  X ++ dom.filter (fun t => !X.contains t && X.any (fun s => R s t))

def reachIter (dom : List σ) (R : Rel σ) : Nat → List σ → List σ
  | 0, X => X
  | n+1, X => reachIter dom R n (grow dom R X)

/-- naive least fixed point: `|dom|` breadth-first rounds from the initial states -/
def reachFix (dom : List σ) (init : SSet σ) (R : Rel σ) : List σ :=
  reachIter dom R dom.length (dom.filter init)

theorem grow_sound (dom : List σ) (init : SSet σ) (R : Rel σ) (X : List σ)
    (hX : ∀ u, u ∈ X → Reach dom init R u) : ∀ u, u ∈ grow dom R X → Reach dom init R u := by
  intro u hu
  unfold grow at hu
  rw [List.mem_append] at hu
  rcases hu with hu | hu
  · exact hX u hu
  · rw [List.mem_filter] at hu
    obtain ⟨hd, hc⟩ := hu
    simp only [Bool.and_eq_true, List.any_eq_true] at hc
    obtain ⟨_, s, hs, hr⟩ := hc
    exact .step (hX s hs) hd hr

theorem reachIter_sound (dom : List σ) (init : SSet σ) (R : Rel σ) (n : Nat) (X : List σ)
    (hX : ∀ u, u ∈ X → Reach dom init R u) : ∀ u, u ∈ reachIter dom R n X → Reach dom init R u := by
  induction n generalizing X with
  | zero => exact hX
  | succ n ih => exact ih (grow dom R X) (grow_sound dom init R X hX)

theorem reachFix_sound (dom : List σ) (init : SSet σ) (R : Rel σ) :
    ∀ u, u ∈ reachFix dom init R → Reach dom init R u := by
  apply reachIter_sound
  intro u hu
  rw [List.mem_filter] at hu
  exact .base hu.1 hu.2

theorem subset_grow (dom : List σ) (R : Rel σ) (X : List σ) : ∀ u, u ∈ X → u ∈ grow dom R X := by
  intro u hu; unfold grow; exact List.mem_append_left _ hu

theorem subset_reachIter (dom : List σ) (R : Rel σ) (n : Nat) (X : List σ) :
    ∀ u, u ∈ X → u ∈ reachIter dom R n X := by
  induction n generalizing X with
  | zero => intro u hu; exact hu
  | succ n ih => intro u hu; exact ih (grow dom R X) u (subset_grow dom R X u hu)

/-- a round that adds nothing: the list is closed -/
def stable (dom : List σ) (R : Rel σ) (X : List σ) : Bool :=
  (dom.filter (fun t => !X.contains t && X.any (fun s => R s t))).isEmpty

theorem stable_closed (dom : List σ) (R : Rel σ) (X : List σ) (h : stable dom R X = true) :
    ClosedIn dom R (fun u => X.contains u) := by
  intro s t _ ht hs hr
  unfold stable at h
  rw [List.isEmpty_iff] at h
  show X.contains t = true
  cases hc : X.contains t with
  | true => rfl
  | false =>
    have : t ∈ dom.filter (fun t => !X.contains t && X.any (fun s => R s t)) := by
      rw [List.mem_filter]
      refine ⟨ht, ?_⟩
      simp only [Bool.and_eq_true, Bool.not_eq_true', List.any_eq_true]
      refine ⟨hc, s, ?_, hr⟩
      simpa using hs
    rw [h] at this
    cases this

theorem stable_grow (dom : List σ) (R : Rel σ) (X : List σ) (h : stable dom R X = true) :
    grow dom R X = X := by
  unfold stable at h
  rw [List.isEmpty_iff] at h
  unfold grow
  rw [h, List.append_nil]

theorem stable_reachIter (dom : List σ) (R : Rel σ) (n : Nat) (X : List σ) (h : stable dom R X = true) :
    reachIter dom R n X = X := by
  induction n with
  | zero => rfl
  | succ n ih => unfold reachIter; rw [stable_grow dom R X h]; exact ih

/-- number of domain states not yet in the list -/
def missing (dom : List σ) (X : List σ) : Nat := (dom.filter (fun t => !X.contains t)).length

theorem missing_grow_lt (dom : List σ) (R : Rel σ) (X : List σ) (h : stable dom R X = false) :
    missing dom (grow dom R X) < missing dom X := by
  unfold stable at h
  have hne : dom.filter (fun t => !X.contains t && X.any (fun s => R s t)) ≠ [] := by
    intro e; rw [e] at h; cases h
  obtain ⟨a, ha⟩ := List.exists_mem_of_ne_nil _ hne
  have ha' := ha
  rw [List.mem_filter] at ha'
  obtain ⟨had, hac⟩ := ha'
  simp only [Bool.and_eq_true, Bool.not_eq_true'] at hac
  unfold missing
  apply filter_length_lt dom _ _ _ a had
  · simp only [Bool.not_eq_true']; exact hac.1
  · simp only [Bool.not_eq_false']
    rw [List.contains_eq_mem]; simp only [decide_eq_true_eq]
    unfold grow
    exact List.mem_append_right _ ha
  · intro x hx
    simp only [Bool.not_eq_true'] at hx ⊢
    cases hc : X.contains x with
    | false => rfl
    | true =>
      have : (grow dom R X).contains x = true := by
        rw [List.contains_eq_mem] at hc ⊢
        simp only [decide_eq_true_eq] at hc ⊢
        exact subset_grow dom R X x hc
      rw [this] at hx; cases hx

theorem missing_zero_closed (dom : List σ) (R : Rel σ) (X : List σ) (h : missing dom X = 0) :
    ClosedIn dom R (fun u => X.contains u) := by
  intro s t _ ht _ _
  unfold missing at h
  have hnil : dom.filter (fun t => !X.contains t) = [] := List.eq_nil_of_length_eq_zero h
  show X.contains t = true
  cases hc : X.contains t with
  | true => rfl
  | false =>
    have : t ∈ dom.filter (fun t => !X.contains t) := by
      rw [List.mem_filter]; exact ⟨ht, by rw [hc]; rfl⟩
    rw [hnil] at this; cases this

theorem reachIter_closed (dom : List σ) (R : Rel σ) (n : Nat) (X : List σ) (h : missing dom X ≤ n) :
    ClosedIn dom R (fun u => (reachIter dom R n X).contains u) := by
  induction n generalizing X with
  | zero => exact missing_zero_closed dom R X (Nat.le_zero.mp h)
  | succ n ih =>
    unfold reachIter
    cases hs : stable dom R X with
    | true =>
      rw [stable_grow dom R X hs, stable_reachIter dom R n X hs]
      exact stable_closed dom R X hs
    | false =>
      apply ih
      have := missing_grow_lt dom R X hs
      omega

theorem missing_le (dom : List σ) (X : List σ) : missing dom X ≤ dom.length := by
  unfold missing; exact List.length_filter_le _ _

/-- the executable least fixed point is closed: `|dom|` rounds always suffice -/
theorem reachFix_closed (dom : List σ) (init : SSet σ) (R : Rel σ) :
    ClosedIn dom R (fun u => (reachFix dom init R).contains u) :=
  reachIter_closed dom R dom.length _ (missing_le dom _)

end Generic

/-! ## Level part: states are tuples, index 0 = variable 1 (level k = index k-1) -/

abbrev State := List Nat
abbrev LRel := Rel State

/-- every state of the domain with the given variable sizes (bottom-up); variable 1 varies fastest,
    so position in this list = index in the library's set table -/
def allStates : List Nat → List State
  | [] => [[]]
  | n :: rest => (allStates rest).flatMap (fun s => (List.range n).map (fun x => x :: s))

def InDom : List Nat → State → Prop
  | [], [] => True
  | n :: rest, x :: s => x < n ∧ InDom rest s
  | _, _ => False

theorem mem_allStates (sizes : List Nat) (s : State) : s ∈ allStates sizes ↔ InDom sizes s := by
  induction sizes generalizing s with
  | nil =>
    cases s with
    | nil => simp [allStates, InDom]
    | cons x r => simp [allStates, InDom]
  | cons n rest ih =>
    cases s with
    | nil => simp [allStates, InDom]
    | cons x r =>
      simp only [allStates, InDom, List.mem_flatMap, List.mem_map, List.mem_range, List.cons.injEq]
      constructor
      · rintro ⟨s', hs', y, hy, e1, e2⟩
        subst e1; subst e2
        exact ⟨hy, (ih _).mp hs'⟩
      · rintro ⟨hx, hr⟩
        exact ⟨r, (ih _).mpr hr, x, hx, rfl, rfl⟩

theorem InDom.length {sizes : List Nat} {s : State} (h : InDom sizes s) : s.length = sizes.length := by
  induction sizes generalizing s with
  | nil => cases s with
    | nil => rfl
    | cons x r => exact h.elim
  | cons n rest ih => cases s with
    | nil => exact h.elim
    | cons x r => simp [ih h.2]

theorem InDom.lt {sizes : List Nat} {s : State} (h : InDom sizes s) (i : Nat) (hi : i < sizes.length) :
    s.getD i 0 < sizes.getD i 0 := by
  induction sizes generalizing s i with
  | nil => cases hi
  | cons n rest ih => cases s with
    | nil => exact h.elim
    | cons x r => cases i with
      | zero => exact h.1
      | succ i => simpa using ih h.2 i (Nat.lt_of_succ_lt_succ hi)

theorem InDom.set {sizes : List Nat} {s : State} (h : InDom sizes s) (i x : Nat)
    (hx : x < sizes.getD i 0) : InDom sizes (s.set i x) := by
  induction sizes generalizing s i with
  | nil => cases s with
    | nil => exact h
    | cons y r => exact h.elim
  | cons n rest ih => cases s with
    | nil => exact h.elim
    | cons y r => cases i with
      | zero => exact ⟨hx, h.2⟩
      | succ i => exact ⟨h.1, ih h.2 i (by simpa using hx)⟩

theorem getD_set_eq (s : State) (i x : Nat) (h : i < s.length) : (s.set i x).getD i 0 = x := by
  simp [List.getD_eq_getElem?_getD, h]

theorem getD_set_ne (s : State) (i j x : Nat) (h : i ≠ j) : (s.set i x).getD j 0 = s.getD j 0 := by
  simp [List.getD_eq_getElem?_getD, List.getElem?_set_ne h]

theorem set_getD_self (s : State) (i : Nat) : s.set i (s.getD i 0) = s := by
  induction s generalizing i with
  | nil => rfl
  | cons a r ih => cases i with
    | zero => rfl
    | succ i => simp [List.set, List.getD_eq_getElem?_getD]; simpa [List.getD_eq_getElem?_getD] using ih i

theorem getD_of_le (s : State) (i : Nat) (h : s.length ≤ i) : s.getD i 0 = 0 := by
  simp [List.getD_eq_getElem?_getD, h]

theorem ext_getD (s t : State) (h : s.length = t.length) (h2 : ∀ i, s.getD i 0 = t.getD i 0) : s = t := by
  apply List.ext_getElem h
  intro i h1 h2'
  have := h2 i
  simpa [List.getD_eq_getElem?_getD, h1, h2'] using this

/-- relations agree on the domain -/
def REq (sizes : List Nat) (a b : LRel) : Prop :=
  ∀ s t, s ∈ allStates sizes → t ∈ allStates sizes → a s t = b s t

/-- every pair of `r` is the identity on the variables with index ≥ m (levels above m) -/
def IdAbove (sizes : List Nat) (m : Nat) (r : LRel) : Prop :=
  ∀ s t, s ∈ allStates sizes → t ∈ allStates sizes → r s t = true → ∀ j, m ≤ j → s.getD j 0 = t.getD j 0

/-- membership in `r` does not depend on the (common) value of a variable with index ≥ m -/
def IndepAbove (sizes : List Nat) (m : Nat) (r : LRel) : Prop :=
  ∀ s t, s ∈ allStates sizes → t ∈ allStates sizes → r s t = true →
    ∀ j, m ≤ j → ∀ x, x < sizes.getD j 0 → r (s.set j x) (t.set j x) = true

/-- `r` = (identity on the levels above m) × (a relation on the levels 1..m): exactly the relations an
    identity-reduced forest can represent with a root node at level ≤ m -/
def Fits (sizes : List Nat) (m : Nat) (r : LRel) : Prop := IdAbove sizes m r ∧ IndepAbove sizes m r

theorem Fits.mono {sizes : List Nat} {m m' : Nat} {r : LRel} (h : Fits sizes m r) (hm : m ≤ m') :
    Fits sizes m' r :=
  ⟨fun s t hs ht hr j hj => h.1 s t hs ht hr j (Nat.le_trans hm hj),
   fun s t hs ht hr j hj x hx => h.2 s t hs ht hr j (Nat.le_trans hm hj) x hx⟩

theorem fits_empty (sizes : List Nat) (m : Nat) : Fits sizes m emptyRel := by
  constructor
  · intro s t _ _ hr; simp [emptyRel] at hr
  · intro s t _ _ hr; simp [emptyRel] at hr

theorem fits_of_empty (sizes : List Nat) (m : Nat) (r : LRel) (h : REq sizes r emptyRel) : Fits sizes m r := by
  constructor
  · intro s t hs ht hr; rw [h s t hs ht] at hr; simp [emptyRel] at hr
  · intro s t hs ht hr; rw [h s t hs ht] at hr; simp [emptyRel] at hr

theorem Fits.union {sizes : List Nat} {m : Nat} {a b : LRel} (ha : Fits sizes m a) (hb : Fits sizes m b) :
    Fits sizes m (runion a b) := by
  constructor
  · intro s t hs ht hr j hj
    simp only [runion, Bool.or_eq_true] at hr
    rcases hr with hr | hr
    · exact ha.1 s t hs ht hr j hj
    · exact hb.1 s t hs ht hr j hj
  · intro s t hs ht hr j hj x hx
    simp only [runion, Bool.or_eq_true] at hr ⊢
    rcases hr with hr | hr
    · exact .inl (ha.2 s t hs ht hr j hj x hx)
    · exact .inr (hb.2 s t hs ht hr j hj x hx)

theorem Fits.inter {sizes : List Nat} {m : Nat} {a b : LRel} (ha : Fits sizes m a) (hb : Fits sizes m b) :
    Fits sizes m (rinter a b) := by
  constructor
  · intro s t hs ht hr j hj
    simp only [rinter, Bool.and_eq_true] at hr
    exact ha.1 s t hs ht hr.1 j hj
  · intro s t hs ht hr j hj x hx
    simp only [rinter, Bool.and_eq_true] at hr ⊢
    exact ⟨ha.2 s t hs ht hr.1 j hj x hx, hb.2 s t hs ht hr.2 j hj x hx⟩

/-- set difference keeps the level: needs the independence of the subtrahend in BOTH directions -/
theorem Fits.diff {sizes : List Nat} {m : Nat} {a b : LRel} (ha : Fits sizes m a) (hb : Fits sizes m b) :
    Fits sizes m (rdiff a b) := by
  constructor
  · intro s t hs ht hr j hj
    simp only [rdiff, Bool.and_eq_true] at hr
    exact ha.1 s t hs ht hr.1 j hj
  · intro s t hs ht hr j hj x hx
    simp only [rdiff, Bool.and_eq_true, Bool.not_eq_true'] at hr ⊢
    refine ⟨ha.2 s t hs ht hr.1 j hj x hx, ?_⟩
    cases hb' : b (s.set j x) (t.set j x) with
    | false => rfl
    | true =>
      exfalso
      have hsd := (mem_allStates sizes s).mp hs
      have htd := (mem_allStates sizes t).mp ht
      have hjlt : j < sizes.length := by
        apply Nat.lt_of_not_le
        intro hle
        rw [List.getD_eq_getElem?_getD, List.getElem?_eq_none hle] at hx
        exact Nat.not_lt_zero _ hx
      have hs' : s.set j x ∈ allStates sizes := (mem_allStates _ _).mpr (hsd.set j x hx)
      have ht' : t.set j x ∈ allStates sizes := (mem_allStates _ _).mpr (htd.set j x hx)
      have hback := hb.2 _ _ hs' ht' hb' j hj (s.getD j 0) (hsd.lt j hjlt)
      rw [List.set_set, List.set_set, set_getD_self] at hback
      have hst : s.getD j 0 = t.getD j 0 := ha.1 s t hs ht hr.1 j hj
      rw [hst, set_getD_self, hr.2] at hback
      cases hback

/-- every relation fits the top level K -/
theorem fits_top (sizes : List Nat) (r : LRel) : Fits sizes sizes.length r := by
  constructor
  · intro s t hs ht _ j hj
    have h1 := ((mem_allStates sizes s).mp hs).length
    have h2 := ((mem_allStates sizes t).mp ht).length
    rw [getD_of_le s j (by omega), getD_of_le t j (by omega)]
  · intro s t hs ht hr j hj x _
    have h1 := ((mem_allStates sizes s).mp hs).length
    have h2 := ((mem_allStates sizes t).mp ht).length
    rw [List.set_eq_of_length_le (by omega), List.set_eq_of_length_le (by omega)]
    exact hr

/-- a relation that fits level 0 has only self-loops -/
theorem fits_zero_selfloops {sizes : List Nat} {r : LRel} (h : Fits sizes 0 r) :
    ∀ s t, s ∈ allStates sizes → t ∈ allStates sizes → r s t = true → s = t := by
  intro s t hs ht hr
  have h1 := ((mem_allStates sizes s).mp hs).length
  have h2 := ((mem_allStates sizes t).mp ht).length
  exact ext_getD s t (by omega) (fun i => h.1 s t hs ht hr i (Nat.zero_le _))

/-! ### the root level of a relation, semantically -/

/-- executable `Fits` -/
def fitsB (sizes : List Nat) (m : Nat) (r : LRel) : Bool :=
  (allStates sizes).all fun s => (allStates sizes).all fun t =>
    !r s t || (List.range sizes.length).all fun j =>
      decide (j < m) || (s.getD j 0 == t.getD j 0 &&
        (List.range (sizes.getD j 0)).all fun x => r (s.set j x) (t.set j x))

theorem fitsB_iff (sizes : List Nat) (m : Nat) (r : LRel) : fitsB sizes m r = true ↔ Fits sizes m r := by
  unfold fitsB
  simp only [List.all_eq_true, Bool.or_eq_true, Bool.not_eq_true', Bool.and_eq_true, beq_iff_eq,
    decide_eq_true_eq, List.mem_range]
  constructor
  · intro h
    constructor
    · intro s t hs ht hr j hj
      by_cases hjl : j < sizes.length
      · rcases h s hs t ht with h' | h'
        · rw [hr] at h'; cases h'
        · rcases h' j hjl with h'' | h''
          · omega
          · exact h''.1
      · have h1 := ((mem_allStates sizes s).mp hs).length
        have h2 := ((mem_allStates sizes t).mp ht).length
        rw [getD_of_le s j (by omega), getD_of_le t j (by omega)]
    · intro s t hs ht hr j hj x hx
      by_cases hjl : j < sizes.length
      · rcases h s hs t ht with h' | h'
        · rw [hr] at h'; cases h'
        · rcases h' j hjl with h'' | h''
          · omega
          · exact h''.2 x hx
      · rw [List.getD_eq_getElem?_getD, List.getElem?_eq_none (by omega)] at hx
        exact absurd hx (Nat.not_lt_zero _)
  · intro h s hs t ht
    cases hr : r s t with
    | false => exact .inl rfl
    | true =>
      right
      intro j _
      by_cases hjm : j < m
      · exact .inl hjm
      · exact .inr ⟨h.1 s t hs ht hr j (by omega), fun x hx => h.2 s t hs ht hr j (by omega) x hx⟩

/-- least `i` in `start .. start+fuel` with `p i`, else `start+fuel` -/
def leastFrom (p : Nat → Bool) : Nat → Nat → Nat
  | 0, start => start
  | fuel+1, start => if p start then start else leastFrom p fuel (start+1)

theorem leastFrom_le (p : Nat → Bool) (fuel start : Nat) : leastFrom p fuel start ≤ start + fuel := by
  induction fuel generalizing start with
  | zero => exact Nat.le_refl _
  | succ f ih =>
    unfold leastFrom
    split
    · omega
    · have := ih (start+1); omega

theorem leastFrom_ge (p : Nat → Bool) (fuel start : Nat) : start ≤ leastFrom p fuel start := by
  induction fuel generalizing start with
  | zero => exact Nat.le_refl _
  | succ f ih =>
    unfold leastFrom
    split
    · omega
    · have := ih (start+1); omega

theorem leastFrom_spec (p : Nat → Bool) (fuel start : Nat) (h : p (start + fuel) = true) :
    p (leastFrom p fuel start) = true := by
  induction fuel generalizing start with
  | zero => exact h
  | succ f ih =>
    unfold leastFrom
    split
    · assumption
    · apply ih; rw [← h]; congr 1; omega

theorem leastFrom_min (p : Nat → Bool) (fuel start m : Nat) (hm : p m = true) (h1 : start ≤ m) :
    leastFrom p fuel start ≤ m := by
  induction fuel generalizing start with
  | zero => exact h1
  | succ f ih =>
    unfold leastFrom
    split
    · exact h1
    · rename_i hp
      apply ih
      cases Nat.eq_or_lt_of_le h1 with
      | inl e => subst e; exact absurd hm hp
      | inr h => exact h

/-- the level `ABS(r.getLevel())` of the root node of `r` in an identity-reduced forest: the least m such
    that `r` fits level m (0 for the empty relation and for the identity) -/
def topOf (sizes : List Nat) (r : LRel) : Nat := leastFrom (fun m => fitsB sizes m r) sizes.length 0

theorem topOf_le (sizes : List Nat) (r : LRel) : topOf sizes r ≤ sizes.length := by
  have := leastFrom_le (fun m => fitsB sizes m r) sizes.length 0; unfold topOf; omega

theorem topOf_fits (sizes : List Nat) (r : LRel) : Fits sizes (topOf sizes r) r := by
  rw [← fitsB_iff]
  unfold topOf
  apply leastFrom_spec (fun m => fitsB sizes m r)
  rw [Nat.zero_add, fitsB_iff]
  exact fits_top sizes r

theorem topOf_min (sizes : List Nat) (r : LRel) (m : Nat) (h : Fits sizes m r) : topOf sizes r ≤ m := by
  unfold topOf
  exact leastFrom_min (fun m => fitsB sizes m r) _ 0 m ((fitsB_iff sizes m r).mpr h) (Nat.zero_le _)

/-! ### by events: the bucket sort of `finalize()` -/

/-- `arrayForLevel(k)` after `finalize()` of a "by events" relation: the events whose root is at level k,
    most recently added first; `addToRelation` drops events whose root is a terminal (level 0) -/
def finalizeByEvents (sizes : List Nat) (evs : List LRel) (k : Nat) : List LRel :=
  if k = 0 then [] else (evs.filter (fun r => topOf sizes r == k)).reverse

/-- the levels in the order the saturation visits the buckets of the sorted array: K, K-1, …, 1 -/
def levelsDownTo1 (K : Nat) : List Nat := ((List.range K).map (· + 1)).reverse

theorem mem_levelsDownTo1 (K k : Nat) : k ∈ levelsDownTo1 K ↔ 1 ≤ k ∧ k ≤ K := by
  unfold levelsDownTo1
  simp only [List.mem_reverse, List.mem_map, List.mem_range]
  constructor
  · rintro ⟨a, ha, rfl⟩; omega
  · intro h; exact ⟨k-1, by omega, by omega⟩

/-- everything the saturation gets to see of a "by events" relation -/
def eventsInput (sizes : List Nat) (evs : List LRel) : List LRel :=
  (levelsDownTo1 sizes.length).flatMap (finalizeByEvents sizes evs)

theorem mem_eventsInput (sizes : List Nat) (evs : List LRel) (r : LRel) :
    r ∈ eventsInput sizes evs ↔ r ∈ evs ∧ topOf sizes r ≠ 0 := by
  unfold eventsInput finalizeByEvents
  simp only [List.mem_flatMap, mem_levelsDownTo1]
  constructor
  · rintro ⟨k, ⟨hk1, _⟩, hr⟩
    rw [if_neg (by omega)] at hr
    simp only [List.mem_reverse, List.mem_filter, beq_iff_eq] at hr
    exact ⟨hr.1, by omega⟩
  · rintro ⟨hr, hne⟩
    refine ⟨topOf sizes r, ⟨by omega, topOf_le sizes r⟩, ?_⟩
    rw [if_neg hne]
    simp only [List.mem_reverse, List.mem_filter, beq_iff_eq]
    exact ⟨hr, trivial⟩

/-! ### by levels: `addToRelation`, `splitMxd`, `unionLevels`, `finalize(option)` -/

/-- the `events[0..K]` array of a "by levels" relation -/
abbrev Lv := Nat → LRel

def upd (L : Lv) (k : Nat) (r : LRel) : Lv := fun j => if j = k then r else L j

/-- `addToRelation` by levels: `events[k] = events[k] ∪ r` with k the root level; k = 0 is dropped -/
def mergeByLevels (sizes : List Nat) (evs : List LRel) : Lv :=
  fun k => if k = 0 then emptyRel else unionRel (evs.filter (fun r => topOf sizes r == k))

/-- union of the levels 0..K -/
def unionLv (K : Nat) (L : Lv) : LRel := fun s t => (List.range (K+1)).any (fun k => L k s t)

theorem unionLv_iff (K : Nat) (L : Lv) (s t : State) :
    unionLv K L s t = true ↔ ∃ k, k ≤ K ∧ L k s t = true := by
  unfold unionLv
  simp only [List.any_eq_true, List.mem_range]
  constructor
  · rintro ⟨k, hk, h⟩; exact ⟨k, by omega, h⟩
  · rintro ⟨k, hk, h⟩; exact ⟨k, by omega, h⟩

/-- the relations of levels 1..K, as handed to the saturation (`arrayForLevel`, `lengthForLevel`) -/
def levelsInput (K : Nat) (L : Lv) : List LRel := (levelsDownTo1 K).map L

/-- `maxDiag` of `splitMxd` at the variable with index i (level i+1): the intersection over all values x of
    the (x,x) entry of the matrix, read as a relation that leaves the variable unchanged -/
def commonDiagAt (sizes : List Nat) (i : Nat) (r : LRel) : LRel :=
  fun s t => s.getD i 0 == t.getD i 0 &&
    (List.range (sizes.getD i 0)).all fun x => r (s.set i x) (t.set i x)

def isEmptyB (sizes : List Nat) (r : LRel) : Bool :=
  (allStates sizes).all fun s => (allStates sizes).all fun t => !r s t

inductive SplitOpt where
  | None | SplitOnly | SplitSubtract | SplitSubtractAll | MonolithicSplit
  deriving DecidableEq, Repr

/-- one round of the main loop of `splitMxd` at level k (2 ≤ k ≤ K) -/
def splitStep (sizes : List Nat) (opt : SplitOpt) (L : Lv) (k : Nat) : Lv :=
  let d := commonDiagAt sizes (k-1) (L k)
  if isEmptyB sizes d then L                       -- `if (0 == maxDiag.getNode()) continue;`
  else
    let L1 := if opt = .SplitOnly then upd L k (rdiff (L k) d) else L
    let m := topOf sizes d                         -- `ABS(maxDiag.getLevel())`
    let L2 := upd L1 m (runion d (L1 m))
    if opt = .SplitSubtract then upd L2 k (rdiff (L2 k) (L2 m)) else L2

/-- K, K-1, …, 2 -/
def levelsDownTo2 (K : Nat) : List Nat := ((List.range (K-1)).map (· + 2)).reverse

theorem mem_levelsDownTo2 (K k : Nat) : k ∈ levelsDownTo2 K ↔ 2 ≤ k ∧ k ≤ K := by
  unfold levelsDownTo2
  simp only [List.mem_reverse, List.mem_map, List.mem_range]
  constructor
  · rintro ⟨a, ha, rfl⟩; omega
  · intro h; exact ⟨k-2, by omega, by omega⟩

def splitLoop (sizes : List Nat) (opt : SplitOpt) (L : Lv) : Lv :=
  (levelsDownTo2 sizes.length).foldl (splitStep sizes opt) L

/-- the closing double loop of SplitSubtractAll: for i = 1..K-1, for j = i+1..K: events[j] -= events[i] -/
def subtractAll (K : Nat) (L : Lv) : Lv :=
  (List.range (K-1)).foldl (fun L i0 =>
    (List.range (K - (i0+1))).foldl (fun L j0 => upd L (i0+2+j0) (rdiff (L (i0+2+j0)) (L (i0+1)))) L) L

/-- `unionLevels`: u = events[1] ∪ … ∪ events[K]; all cleared; events[ABS(level u)] = u -/
def unionLevels (sizes : List Nat) (L : Lv) : Lv :=
  let K := sizes.length
  let u : LRel := fun s t => (List.range K).any (fun k0 => L (k0+1) s t)
  let cleared : Lv := fun k => if 1 ≤ k ∧ k ≤ K then emptyRel else L k
  upd cleared (topOf sizes u) u

/-- `finalize(opt)` of a "by levels" relation -/
def finalizeLevels (sizes : List Nat) (opt : SplitOpt) (L : Lv) : Lv :=
  match opt with
  | .None => L
  | .SplitOnly => splitLoop sizes .SplitOnly L
  | .SplitSubtract => splitLoop sizes .SplitSubtract L
  | .SplitSubtractAll => subtractAll sizes.length (splitLoop sizes .SplitSubtractAll L)
  | .MonolithicSplit => splitLoop sizes .SplitOnly (unionLevels sizes L)

/-- well-formed level array: what is stored at level k fits level k -/
def WF (sizes : List Nat) (L : Lv) : Prop := ∀ k, k ≤ sizes.length → Fits sizes k (L k)

/-- the unions over the levels agree on the domain -/
def SameUnion (sizes : List Nat) (L L' : Lv) : Prop :=
  ∀ s t, s ∈ allStates sizes → t ∈ allStates sizes →
    (unionLv sizes.length L s t = unionLv sizes.length L' s t)

theorem SameUnion.refl (sizes : List Nat) (L : Lv) : SameUnion sizes L L := fun _ _ _ _ => rfl
theorem SameUnion.trans {sizes : List Nat} {A B C : Lv} (h1 : SameUnion sizes A B) (h2 : SameUnion sizes B C) :
    SameUnion sizes A C := fun s t hs ht => (h1 s t hs ht).trans (h2 s t hs ht)

theorem bool_eq_of_iff {a b : Bool} (h : a = true ↔ b = true) : a = b := by
  cases a <;> cases b <;> simp_all

/-- two levels exchange pairs, the rest is untouched: the union is unchanged -/
theorem sameUnion_two (sizes : List Nat) (L L' : Lv) (k m : Nat) (hk : k ≤ sizes.length) (hm : m ≤ sizes.length)
    (hother : ∀ j, j ≠ k → j ≠ m → L' j = L j)
    (h : ∀ s t, s ∈ allStates sizes → t ∈ allStates sizes → (L' k s t || L' m s t) = (L k s t || L m s t)) :
    SameUnion sizes L' L := by
  intro s t hs ht
  apply bool_eq_of_iff
  rw [unionLv_iff, unionLv_iff]
  have hh := h s t hs ht
  constructor
  · rintro ⟨j, hj, hr⟩
    by_cases e1 : j = k
    · subst e1
      have : (L j s t || L m s t) = true := by rw [← hh, hr]; rfl
      rcases Bool.or_eq_true _ _ ▸ this with h' | h'
      · exact ⟨j, hj, h'⟩
      · exact ⟨m, hm, h'⟩
    · by_cases e2 : j = m
      · subst e2
        have : (L k s t || L j s t) = true := by rw [← hh, hr]; simp
        rcases Bool.or_eq_true _ _ ▸ this with h' | h'
        · exact ⟨k, hk, h'⟩
        · exact ⟨j, hj, h'⟩
      · rw [hother j e1 e2] at hr; exact ⟨j, hj, hr⟩
  · rintro ⟨j, hj, hr⟩
    by_cases e1 : j = k
    · subst e1
      have : (L' j s t || L' m s t) = true := by rw [hh, hr]; rfl
      rcases Bool.or_eq_true _ _ ▸ this with h' | h'
      · exact ⟨j, hj, h'⟩
      · exact ⟨m, hm, h'⟩
    · by_cases e2 : j = m
      · subst e2
        have : (L' k s t || L' j s t) = true := by rw [hh, hr]; simp
        rcases Bool.or_eq_true _ _ ▸ this with h' | h'
        · exact ⟨k, hk, h'⟩
        · exact ⟨j, hj, h'⟩
      · rw [← hother j e1 e2] at hr; exact ⟨j, hj, hr⟩

/-- the common diagonal is part of the relation it was taken from -/
theorem commonDiag_sub (sizes : List Nat) (i : Nat) (hi : i < sizes.length) (r : LRel) (s t : State)
    (hs : s ∈ allStates sizes) (h : commonDiagAt sizes i r s t = true) : r s t = true := by
  unfold commonDiagAt at h
  simp only [Bool.and_eq_true, beq_iff_eq, List.all_eq_true, List.mem_range] at h
  have hsd := (mem_allStates sizes s).mp hs
  have := h.2 (s.getD i 0) (hsd.lt i hi)
  rw [set_getD_self] at this
  rw [h.1, set_getD_self] at this
  exact this

/-- the common diagonal of a level-(i+1) relation fits level i -/
theorem commonDiag_fits (sizes : List Nat) (i : Nat) (hi : i < sizes.length) (r : LRel)
    (hr : Fits sizes (i+1) r) : Fits sizes i (commonDiagAt sizes i r) := by
  constructor
  · intro s t hs ht hd j hj
    have hrst := commonDiag_sub sizes i hi r s t hs hd
    by_cases e : j = i
    · subst e
      unfold commonDiagAt at hd
      simp only [Bool.and_eq_true, beq_iff_eq] at hd
      exact hd.1
    · exact hr.1 s t hs ht hrst j (by omega)
  · intro s t hs ht hd j hj x hx
    have hsd := (mem_allStates sizes s).mp hs
    have htd := (mem_allStates sizes t).mp ht
    have hd' := hd
    unfold commonDiagAt at hd' ⊢
    simp only [Bool.and_eq_true, beq_iff_eq, List.all_eq_true, List.mem_range] at hd' ⊢
    by_cases e : j = i
    · subst e
      refine ⟨?_, ?_⟩
      · rw [getD_set_eq s j x (by rw [hsd.length]; exact hi), getD_set_eq t j x (by rw [htd.length]; exact hi)]
      · intro y hy
        rw [List.set_set, List.set_set]
        exact hd'.2 y hy
    · refine ⟨?_, ?_⟩
      · rw [getD_set_ne s j i x e, getD_set_ne t j i x e]; exact hd'.1
      · intro y hy
        rw [List.set_comm x y e, List.set_comm x y e]
        have hs' : s.set i y ∈ allStates sizes := (mem_allStates _ _).mpr (hsd.set i y hy)
        have ht' : t.set i y ∈ allStates sizes := (mem_allStates _ _).mpr (htd.set i y hy)
        exact hr.2 _ _ hs' ht' (hd'.2 y hy) j (by omega) x hx

theorem isEmptyB_iff (sizes : List Nat) (r : LRel) : isEmptyB sizes r = true ↔ REq sizes r emptyRel := by
  unfold isEmptyB REq emptyRel
  simp only [List.all_eq_true, Bool.not_eq_true']
  constructor
  · intro h s t hs ht; exact h s hs t ht
  · intro h s hs t ht; exact h s t hs ht

theorem upd_same (L : Lv) (k : Nat) (r : LRel) : upd L k r k = r := by simp [upd]
theorem upd_other (L : Lv) (k j : Nat) (r : LRel) (h : j ≠ k) : upd L k r j = L j := by simp [upd, h]

theorem WF.upd {sizes : List Nat} {L : Lv} (h : WF sizes L) (k : Nat) (r : LRel) (hr : Fits sizes k r) :
    WF sizes (upd L k r) := by
  intro j hj
  by_cases e : j = k
  · subst e; rw [upd_same]; exact hr
  · rw [upd_other _ _ _ _ e]; exact h j hj

/-- one round of `splitMxd` keeps the union of the levels and the level invariant -/
theorem splitStep_ok (sizes : List Nat) (opt : SplitOpt) (L : Lv) (k : Nat) (hk2 : 2 ≤ k) (hkK : k ≤ sizes.length)
    (hwf : WF sizes L) : SameUnion sizes (splitStep sizes opt L k) L ∧ WF sizes (splitStep sizes opt L k) := by
  unfold splitStep
  simp only
  split
  · exact ⟨SameUnion.refl _ _, hwf⟩
  · -- the diagonal d is non-empty
    have hi : k - 1 < sizes.length := by omega
    have hfitk : Fits sizes (k-1+1) (L k) := by
      have : k - 1 + 1 = k := by omega
      rw [this]; exact hwf k hkK
    have hdfit := commonDiag_fits sizes (k-1) hi (L k) hfitk
    have hmle : topOf sizes (commonDiagAt sizes (k-1) (L k)) ≤ k - 1 := topOf_min _ _ _ hdfit
    have hmfit := topOf_fits sizes (commonDiagAt sizes (k-1) (L k))
    have hsub := commonDiag_sub sizes (k-1) hi (L k)
    generalize hd : commonDiagAt sizes (k-1) (L k) = d at *
    generalize hm : topOf sizes d = m at *
    have hmk : m ≠ k := by omega
    have hkm : k ≠ m := by omega
    have hmK : m ≤ sizes.length := by omega
    have hdk : Fits sizes k d := hdfit.mono (by omega)
    have hLm : Fits sizes m (L m) := hwf m hmK
    have hLmk : Fits sizes k (L m) := hLm.mono (by omega)
    have key : ∀ (a b c : Bool), (c = true → a = true) →
        ((a && !c) || (c || b)) = (a || b) ∧ ((a && !(c || b)) || (c || b)) = (a || b) ∧ (a || (c || b)) = (a || b) := by
      intro a b c h; cases a <;> cases b <;> cases c <;> simp_all
    cases opt with
    | SplitOnly =>
      simp only [if_true, reduceCtorEq, if_false]
      constructor
      · apply sameUnion_two sizes L _ k m hkK hmK
        · intro j h1 h2; rw [upd_other _ _ _ _ h2, upd_other _ _ _ _ h1]
        · intro s t hs ht
          rw [upd_other _ _ _ _ hkm, upd_same, upd_same, upd_other _ _ _ _ hmk]
          exact (key (L k s t) (L m s t) (d s t) (hsub s t hs)).1
      · apply WF.upd
        · exact hwf.upd k _ ((hwf k hkK).diff hdk)
        · rw [upd_other _ _ _ _ hmk]; exact hmfit.union hLm
    | SplitSubtract =>
      simp only [if_true, reduceCtorEq, if_false]
      constructor
      · apply sameUnion_two sizes L _ k m hkK hmK
        · intro j h1 h2; rw [upd_other _ _ _ _ h1, upd_other _ _ _ _ h2]
        · intro s t hs ht
          rw [upd_same, upd_other _ _ _ _ hmk, upd_same, upd_other _ _ _ _ hkm]
          exact (key (L k s t) (L m s t) (d s t) (hsub s t hs)).2.1
      · apply WF.upd
        · exact hwf.upd m _ (hmfit.union hLm)
        · rw [upd_other _ _ _ _ hkm, upd_same]
          exact (hwf k hkK).diff (hdk.union hLmk)
    | SplitSubtractAll =>
      simp only [reduceCtorEq, if_false]
      constructor
      · apply sameUnion_two sizes L _ k m hkK hmK
        · intro j _ h2; rw [upd_other _ _ _ _ h2]
        · intro s t hs ht
          rw [upd_other _ _ _ _ hkm, upd_same]
          exact (key (L k s t) (L m s t) (d s t) (hsub s t hs)).2.2
      · exact hwf.upd m _ (hmfit.union hLm)
    | None =>
      simp only [reduceCtorEq, if_false]
      constructor
      · apply sameUnion_two sizes L _ k m hkK hmK
        · intro j _ h2; rw [upd_other _ _ _ _ h2]
        · intro s t hs ht
          rw [upd_other _ _ _ _ hkm, upd_same]
          exact (key (L k s t) (L m s t) (d s t) (hsub s t hs)).2.2
      · exact hwf.upd m _ (hmfit.union hLm)
    | MonolithicSplit =>
      simp only [reduceCtorEq, if_false]
      constructor
      · apply sameUnion_two sizes L _ k m hkK hmK
        · intro j _ h2; rw [upd_other _ _ _ _ h2]
        · intro s t hs ht
          rw [upd_other _ _ _ _ hkm, upd_same]
          exact (key (L k s t) (L m s t) (d s t) (hsub s t hs)).2.2
      · exact hwf.upd m _ (hmfit.union hLm)

/-- invariants carried through a `foldl` whose steps are justified by membership in the list -/
theorem foldl_inv {α β : Type} (P : β → Prop) (f : β → α → β) (l : List α) (b : β) (h0 : P b)
    (hstep : ∀ acc x, x ∈ l → P acc → P (f acc x)) : P (l.foldl f b) := by
  induction l generalizing b with
  | nil => exact h0
  | cons x rest ih =>
    rw [List.foldl_cons]
    apply ih
    · exact hstep b x (List.mem_cons_self) h0
    · intro acc y hy hacc; exact hstep acc y (List.mem_cons_of_mem _ hy) hacc

theorem splitLoop_ok (sizes : List Nat) (opt : SplitOpt) (L : Lv) (hwf : WF sizes L) :
    SameUnion sizes (splitLoop sizes opt L) L ∧ WF sizes (splitLoop sizes opt L) := by
  unfold splitLoop
  apply foldl_inv (fun A => SameUnion sizes A L ∧ WF sizes A)
  · exact ⟨SameUnion.refl _ _, hwf⟩
  · intro acc k hk hacc
    rw [mem_levelsDownTo2] at hk
    have := splitStep_ok sizes opt acc k hk.1 hk.2 hacc.2
    exact ⟨this.1.trans hacc.1, this.2⟩

theorem subtractOne_ok (sizes : List Nat) (L : Lv) (i j : Nat) (hij : i < j) (hj : j ≤ sizes.length)
    (hwf : WF sizes L) :
    SameUnion sizes (upd L j (rdiff (L j) (L i))) L ∧ WF sizes (upd L j (rdiff (L j) (L i))) := by
  constructor
  · apply sameUnion_two sizes L _ j i hj (by omega)
    · intro x h1 _; rw [upd_other _ _ _ _ h1]
    · intro s t _ _
      rw [upd_same, upd_other _ _ _ _ (by omega : i ≠ j)]
      simp only [rdiff]
      cases L j s t <;> cases L i s t <;> rfl
  · exact hwf.upd j _ ((hwf j hj).diff ((hwf i (by omega)).mono (by omega)))

theorem subtractAll_ok (sizes : List Nat) (L : Lv) (hwf : WF sizes L) :
    SameUnion sizes (subtractAll sizes.length L) L ∧ WF sizes (subtractAll sizes.length L) := by
  unfold subtractAll
  apply foldl_inv (fun A => SameUnion sizes A L ∧ WF sizes A)
  · exact ⟨SameUnion.refl _ _, hwf⟩
  · intro acc i0 hi0 hacc
    rw [List.mem_range] at hi0
    apply foldl_inv (fun A => SameUnion sizes A L ∧ WF sizes A)
    · exact hacc
    · intro acc2 j0 hj0 hacc2
      rw [List.mem_range] at hj0
      have := subtractOne_ok sizes acc2 (i0+1) (i0+2+j0) (by omega) (by omega) hacc2.2
      exact ⟨this.1.trans hacc2.1, this.2⟩

/-- `unionLevels` keeps the union (level 0 must be empty: it is not part of `u` but may be overwritten) -/
theorem unionLevels_ok (sizes : List Nat) (L : Lv) (hwf : WF sizes L) (h0 : REq sizes (L 0) emptyRel) :
    SameUnion sizes (unionLevels sizes L) L ∧ WF sizes (unionLevels sizes L) := by
  unfold unionLevels
  simp only
  generalize hu : (fun s t => (List.range sizes.length).any (fun k0 => L (k0+1) s t) : LRel) = u
  have hu_iff : ∀ s t, u s t = true ↔ ∃ k, 1 ≤ k ∧ k ≤ sizes.length ∧ L k s t = true := by
    intro s t
    rw [← hu]
    simp only [List.any_eq_true, List.mem_range]
    constructor
    · rintro ⟨k0, hk0, h⟩; exact ⟨k0+1, by omega, by omega, h⟩
    · rintro ⟨k, h1, h2, h⟩
      refine ⟨k-1, by omega, ?_⟩
      have : k - 1 + 1 = k := by omega
      rw [this]; exact h
  have hm := topOf_le sizes u
  constructor
  · intro s t hs ht
    apply bool_eq_of_iff
    rw [unionLv_iff, unionLv_iff]
    constructor
    · rintro ⟨j, hj, hr⟩
      by_cases e : j = topOf sizes u
      · rw [e, upd_same] at hr
        obtain ⟨k, _, hk, h⟩ := (hu_iff s t).mp hr
        exact ⟨k, hk, h⟩
      · rw [upd_other _ _ _ _ e] at hr
        by_cases hj1 : 1 ≤ j ∧ j ≤ sizes.length
        · rw [if_pos hj1] at hr; cases hr
        · rw [if_neg hj1] at hr; exact ⟨j, hj, hr⟩
    · rintro ⟨j, hj, hr⟩
      by_cases hj0 : j = 0
      · subst hj0; rw [h0 s t hs ht] at hr; cases hr
      · refine ⟨topOf sizes u, hm, ?_⟩
        rw [upd_same]
        exact (hu_iff s t).mpr ⟨j, by omega, hj, hr⟩
  · intro j hj
    by_cases e : j = topOf sizes u
    · rw [e, upd_same]; exact topOf_fits sizes u
    · rw [upd_other _ _ _ _ e]
      by_cases hj1 : 1 ≤ j ∧ j ≤ sizes.length
      · rw [if_pos hj1]; exact fits_empty sizes j
      · rw [if_neg hj1]; exact hwf j hj

theorem finalizeLevels_ok (sizes : List Nat) (opt : SplitOpt) (L : Lv) (hwf : WF sizes L)
    (h0 : REq sizes (L 0) emptyRel) :
    SameUnion sizes (finalizeLevels sizes opt L) L ∧ WF sizes (finalizeLevels sizes opt L) := by
  cases opt with
  | None => exact ⟨SameUnion.refl _ _, hwf⟩
  | SplitOnly => exact splitLoop_ok sizes _ L hwf
  | SplitSubtract => exact splitLoop_ok sizes _ L hwf
  | SplitSubtractAll =>
    have h1 := splitLoop_ok sizes .SplitSubtractAll L hwf
    have h2 := subtractAll_ok sizes _ h1.2
    exact ⟨h2.1.trans h1.1, h2.2⟩
  | MonolithicSplit =>
    have h1 := unionLevels_ok sizes L hwf h0
    have h2 := splitLoop_ok sizes .SplitOnly _ h1.2
    exact ⟨h2.1.trans h1.1, h2.2⟩

/-! ### optional: the repair proposed for finding F11 (not in the library today)

`finalize()` by levels would end with: for k = K..1, if the root of `events[k]` is at a level m ≠ k, then
`events[m] ∪= events[k]; events[k] = ∅`.  The acceptor applies this step only when the harness announces
`cfg … renorm 1`. -/

def renormStep (sizes : List Nat) (L : Lv) (k : Nat) : Lv :=
  let m := topOf sizes (L k)
  if m = k then L else upd (upd L m (runion (L m) (L k))) k emptyRel

def renormLevels (sizes : List Nat) (L : Lv) : Lv :=
  (levelsDownTo1 sizes.length).foldl (renormStep sizes) L

theorem renormStep_ok (sizes : List Nat) (L : Lv) (k : Nat) (hkK : k ≤ sizes.length) (hwf : WF sizes L) :
    SameUnion sizes (renormStep sizes L k) L ∧ WF sizes (renormStep sizes L k) := by
  unfold renormStep
  simp only
  split
  · exact ⟨SameUnion.refl _ _, hwf⟩
  · rename_i hne
    have hmle : topOf sizes (L k) ≤ k := topOf_min _ _ _ (hwf k hkK)
    have hmfit := topOf_fits sizes (L k)
    generalize topOf sizes (L k) = m at *
    have hmK : m ≤ sizes.length := by omega
    have hkm : k ≠ m := fun e => hne e.symm
    constructor
    · apply sameUnion_two sizes L _ k m hkK hmK
      · intro j h1 h2; rw [upd_other _ _ _ _ h1, upd_other _ _ _ _ h2]
      · intro s t _ _
        rw [upd_same, upd_other _ _ _ _ hne, upd_same]
        simp only [emptyRel, runion]
        cases L k s t <;> cases L m s t <;> rfl
    · apply WF.upd
      · exact hwf.upd m _ ((hwf m hmK).union hmfit)
      · exact fits_empty sizes k

/-- The re-bucketing step proposed as the repair of finding F11 (move what is stored at level k to the level
    of its root) keeps the union of the levels and the level invariant. -/
theorem renormLevels_ok (sizes : List Nat) (L : Lv) (hwf : WF sizes L) :
    SameUnion sizes (renormLevels sizes L) L ∧ WF sizes (renormLevels sizes L) := by
  unfold renormLevels
  apply foldl_inv (fun A => SameUnion sizes A L ∧ WF sizes A)
  · exact ⟨SameUnion.refl _ _, hwf⟩
  · intro acc k hk hacc
    rw [mem_levelsDownTo1] at hk
    have := renormStep_ok sizes acc k hk.2 hacc.2
    exact ⟨this.1.trans hacc.1, this.2⟩

theorem mergeByLevels_wf (sizes : List Nat) (evs : List LRel) : WF sizes (mergeByLevels sizes evs) := by
  intro k _
  unfold mergeByLevels
  split
  · exact fits_empty sizes k
  · constructor
    · intro s t hs ht hr j hj
      simp only [unionRel, List.any_eq_true, List.mem_filter, beq_iff_eq] at hr
      obtain ⟨r, ⟨_, hk⟩, hrst⟩ := hr
      have := topOf_fits sizes r
      rw [hk] at this
      exact this.1 s t hs ht hrst j hj
    · intro s t hs ht hr j hj x hx
      simp only [unionRel, List.any_eq_true, List.mem_filter, beq_iff_eq] at hr ⊢
      obtain ⟨r, ⟨hin, hk⟩, hrst⟩ := hr
      have := topOf_fits sizes r
      rw [hk] at this
      exact ⟨r, ⟨hin, hk⟩, this.2 s t hs ht hrst j hj x hx⟩

theorem mergeByLevels_union_iff (sizes : List Nat) (evs : List LRel) (s t : State) :
    unionLv sizes.length (mergeByLevels sizes evs) s t = true ↔
      unionRel (evs.filter (fun r => topOf sizes r != 0)) s t = true := by
  rw [unionLv_iff]
  unfold mergeByLevels
  simp only [unionRel, List.any_eq_true, List.mem_filter, bne_iff_ne, ne_eq]
  constructor
  · rintro ⟨k, _, hr⟩
    by_cases hk0 : k = 0
    · rw [if_pos hk0] at hr; cases hr
    · rw [if_neg hk0] at hr
      simp only [unionRel, List.any_eq_true, List.mem_filter, beq_iff_eq] at hr
      obtain ⟨r, ⟨hin, hk⟩, hrst⟩ := hr
      exact ⟨r, ⟨hin, by omega⟩, hrst⟩
  · rintro ⟨r, ⟨hin, hne⟩, hrst⟩
    refine ⟨topOf sizes r, topOf_le sizes r, ?_⟩
    rw [if_neg hne]
    simp only [unionRel, List.any_eq_true, List.mem_filter, beq_iff_eq]
    exact ⟨r, ⟨hin, rfl⟩, hrst⟩

/-! ### glue lemmas for the composite theorems -/

theorem reach_iff_of_selfloops {σ : Type} {dom : List σ} {init : SSet σ} {R R' : Rel σ}
    (h1 : ∀ s t, s ∈ dom → t ∈ dom → R s t = true → R' s t = true ∨ s = t)
    (h2 : ∀ s t, s ∈ dom → t ∈ dom → R' s t = true → R s t = true ∨ s = t) (u : σ) :
    Reach dom init R u ↔ Reach dom init R' u :=
  ⟨reach_ignores_selfloops h1, reach_ignores_selfloops h2⟩

theorem unionRel_levelsInput_iff (K : Nat) (L : Lv) (s t : State) :
    unionRel (levelsInput K L) s t = true ↔ ∃ k, 1 ≤ k ∧ k ≤ K ∧ L k s t = true := by
  unfold unionRel levelsInput
  simp only [List.any_eq_true, List.mem_map, mem_levelsDownTo1]
  constructor
  · rintro ⟨r, ⟨k, ⟨h1, h2⟩, rfl⟩, h⟩; exact ⟨k, h1, h2, h⟩
  · rintro ⟨k, h1, h2, h⟩; exact ⟨L k, ⟨k, ⟨h1, h2⟩, rfl⟩, h⟩

/-- by levels, any option: the relations handed to the saturation generate the same reachable set as the
    events that were added -/
theorem levels_reach_iff (sizes : List Nat) (opt : SplitOpt) (evs : List LRel) (init : SSet State) (u : State) :
    Reach (allStates sizes) init
        (unionRel (levelsInput sizes.length (finalizeLevels sizes opt (mergeByLevels sizes evs)))) u ↔
      Reach (allStates sizes) init (unionRel evs) u := by
  have hwf := mergeByLevels_wf sizes evs
  have h0 : REq sizes (mergeByLevels sizes evs 0) emptyRel := by
    intro s t _ _; simp [mergeByLevels]
  have hok := finalizeLevels_ok sizes opt _ hwf h0
  apply reach_iff_of_selfloops
  · intro s t hs ht h
    left
    rw [unionRel_levelsInput_iff] at h
    obtain ⟨k, _, hk, hr⟩ := h
    have h1 : unionLv sizes.length (finalizeLevels sizes opt (mergeByLevels sizes evs)) s t = true :=
      (unionLv_iff _ _ _ _).mpr ⟨k, hk, hr⟩
    rw [hok.1 s t hs ht, mergeByLevels_union_iff] at h1
    simp only [unionRel, List.any_eq_true, List.mem_filter] at h1 ⊢
    obtain ⟨r, ⟨hin, _⟩, hrst⟩ := h1
    exact ⟨r, hin, hrst⟩
  · intro s t hs ht h
    simp only [unionRel, List.any_eq_true] at h
    obtain ⟨r, hin, hrst⟩ := h
    by_cases htop : topOf sizes r = 0
    · right
      have := topOf_fits sizes r
      rw [htop] at this
      exact fits_zero_selfloops this s t hs ht hrst
    · have h1 : unionLv sizes.length (mergeByLevels sizes evs) s t = true := by
        rw [mergeByLevels_union_iff]
        simp only [unionRel, List.any_eq_true, List.mem_filter, bne_iff_ne, ne_eq]
        exact ⟨r, ⟨hin, htop⟩, hrst⟩
      rw [← hok.1 s t hs ht, unionLv_iff] at h1
      obtain ⟨k, hk, hr⟩ := h1
      by_cases hk0 : k = 0
      · right
        subst hk0
        exact fits_zero_selfloops (hok.2 0 (Nat.zero_le _)) s t hs ht hr
      · left
        rw [unionRel_levelsInput_iff]
        exact ⟨k, by omega, hk, hr⟩

theorem events_reach_iff (sizes : List Nat) (evs : List LRel) (init : SSet State) (u : State) :
    Reach (allStates sizes) init (unionRel (eventsInput sizes evs)) u ↔
      Reach (allStates sizes) init (unionRel evs) u := by
  apply reach_iff_of_selfloops
  · intro s t _ _ h
    left
    simp only [unionRel, List.any_eq_true, mem_eventsInput] at h ⊢
    obtain ⟨r, ⟨hin, _⟩, hrst⟩ := h
    exact ⟨r, hin, hrst⟩
  · intro s t hs ht h
    simp only [unionRel, List.any_eq_true] at h
    obtain ⟨r, hin, hrst⟩ := h
    by_cases htop : topOf sizes r = 0
    · right
      have := topOf_fits sizes r
      rw [htop] at this
      exact fits_zero_selfloops this s t hs ht hrst
    · left
      simp only [unionRel, List.any_eq_true, mem_eventsInput]
      exact ⟨r, ⟨hin, htop⟩, hrst⟩

/-! ### example data for the non-vacuity checks: domain (2,2) -/

/-- x1: 0→1, x2 unchanged (root at level 1) -/
def exMove1 : LRel := fun s t => s.getD 0 0 == 0 && t.getD 0 0 == 1 && s.getD 1 0 == t.getD 1 0
/-- x2: 0→1, x1 unchanged (root at level 2) -/
def exMove2 : LRel := fun s t => s.getD 1 0 == 0 && t.getD 1 0 == 1 && s.getD 0 0 == t.getD 0 0
/-- both moves in one event: root at level 2, common diagonal = `exMove1` -/
def exBoth : LRel := runion exMove1 exMove2
/-- the single minterm x2:0→0, x1:0→1 of finding F1 (root at level 2, empty common diagonal) -/
def exF1 : LRel := fun s t => s == [0, 0] && t == [1, 0]
/-- all self-loops: the identity relation, root = terminal (level 0) -/
def exIdent : LRel := fun s t => s == t
/-- the initial set {(0,0)} -/
def exInit : SSet State := fun s => s == [0, 0]

/-! ## Property theorems -/

/-- Chaotic iteration: WHATEVER order `saturateHelper`/`recFire` fire the per-level relations in, if the set
    they end with is closed under every one of them, it is exactly the set of states reachable from the
    initial set under the union of those relations (soundness needs nothing, completeness needs closure). -/
theorem saturEvents_eq_lfp {σ : Type} [DecidableEq σ] (dom : List σ) (evs : List (Rel σ))
    (sched : List (Firing σ)) (init : SSet σ) (hinit : ∀ s, init s = true → s ∈ dom)
    (hclosed : closedB dom evs (saturEvents dom evs sched init) = true) (u : σ) :
    saturEvents dom evs sched init u = true ↔ Reach dom init (unionRel evs) u :=
  ⟨saturEvents_sound dom evs sched init hinit u,
   closed_superset_reach (fun s _ hs => saturEvents_mono dom evs sched init s hs)
     ((closedB_iff dom evs _).mp hclosed) u⟩

example :
    let dom := [0, 1, 2, 3]
    let evs : List (Rel Nat) := [fun s t => s == 0 && t == 1, fun s t => s == 1 && t == 2]
    let X := saturEvents dom evs [(1, 1, 2), (0, 0, 1), (1, 1, 2), (0, 3, 0)] (· == 0)
    closedB dom evs X = true ∧ X 2 = true ∧ X 3 = false := by decide

/-- The specification the acceptor computes (`|dom|` naive breadth-first rounds) IS the least fixed point:
    a state is in `reachFix` iff it is reachable from the initial set under the relation. -/
theorem reachFix_eq_lfp {σ : Type} [DecidableEq σ] (dom : List σ) (init : SSet σ) (R : Rel σ) (u : σ) :
    u ∈ reachFix dom init R ↔ Reach dom init R u := by
  constructor
  · exact reachFix_sound dom init R u
  · intro h
    have := closed_superset_reach (X := fun u => (reachFix dom init R).contains u)
      (fun s hs hi => by
        show (reachFix dom init R).contains s = true
        rw [List.contains_eq_mem]; simp only [decide_eq_true_eq]
        exact subset_reachIter dom R _ _ s (List.mem_filter.mpr ⟨hs, hi⟩))
      (reachFix_closed dom init R) u h
    simpa using this

example : reachFix [0, 1, 2, 3, 4] (· == 0) (fun s t => (t == s + 2 && s % 2 == 0) || (s == 4 && t == 1)) = [0, 2, 4, 1] := by decide

/-- `finalize()` of a "by events" relation only regroups: the union of everything the saturation is handed
    (levels K..1 of the sorted array) is the union of the added events whose root is not a terminal. -/
theorem finalize_events_union (sizes : List Nat) (evs : List LRel) (s t : State) :
    unionRel (eventsInput sizes evs) s t = unionRel (evs.filter (fun r => topOf sizes r != 0)) s t := by
  apply bool_eq_of_iff
  simp only [unionRel, List.any_eq_true, mem_eventsInput, List.mem_filter, bne_iff_ne, ne_eq]

example : topOf [2, 2] exMove1 = 1 ∧ topOf [2, 2] exMove2 = 2 ∧ topOf [2, 2] exBoth = 2 ∧
    topOf [2, 2] exF1 = 2 ∧ topOf [2, 2] exIdent = 0 ∧ topOf [2, 2] emptyRel = 0 := by decide
example : (finalizeByEvents [2, 2] [exMove2, exMove1, exIdent, exBoth] 2).length = 2 ∧
    (finalizeByEvents [2, 2] [exMove2, exMove1, exIdent, exBoth] 1).length = 1 ∧
    (eventsInput [2, 2] [exMove2, exMove1, exIdent, exBoth]).length = 3 ∧
    -- most recently added first inside a level
    ((finalizeByEvents [2, 2] [exMove2, exMove1, exIdent, exBoth] 2).head?.map (fun r => r [0, 0] [1, 0])) = some true
    := by decide

/-- By events, every relation filed under level k is the identity above k and does not depend on the
    variables above k (so firing it at a level-k node is legitimate). -/
theorem events_topLevel_ok (sizes : List Nat) (evs : List LRel) (k : Nat) (r : LRel)
    (h : r ∈ finalizeByEvents sizes evs k) : Fits sizes k r := by
  unfold finalizeByEvents at h
  split at h
  · cases h
  · simp only [List.mem_reverse, List.mem_filter, beq_iff_eq] at h
    rw [← h.2]; exact topOf_fits sizes r

example : fitsB [2, 2] 1 exMove1 = true ∧ fitsB [2, 2] 1 exMove2 = false ∧ fitsB [2, 2] 1 exF1 = false := by decide

/-- The events `addToRelation` silently drops (root = terminal, level 0) consist of self-loops only, so
    dropping them cannot change any reachable set. -/
theorem dropped_events_selfloops (sizes : List Nat) (r : LRel) (h : topOf sizes r = 0) (s t : State)
    (hs : s ∈ allStates sizes) (ht : t ∈ allStates sizes) (hr : r s t = true) : s = t := by
  have := topOf_fits sizes r
  rw [h] at this
  exact fits_zero_selfloops this s t hs ht hr

example : topOf [2, 2] exIdent = 0 ∧ exIdent [1, 0] [1, 0] = true ∧ exIdent [1, 0] [0, 0] = false := by decide

/-- `addToRelation` by levels only regroups: the union over the level array is the union of the added
    events whose root is not a terminal. -/
theorem mergeByLevels_union (sizes : List Nat) (evs : List LRel) (s t : State) :
    unionLv sizes.length (mergeByLevels sizes evs) s t =
      unionRel (evs.filter (fun r => topOf sizes r != 0)) s t :=
  bool_eq_of_iff (mergeByLevels_union_iff sizes evs s t)

example :
    let L := mergeByLevels [2, 2] [exMove2, exMove1, exIdent, exBoth]
    L 2 [0, 0] [1, 0] = true ∧ L 2 [0, 0] [0, 1] = true ∧ L 1 [0, 0] [1, 0] = true ∧ L 1 [0, 0] [0, 1] = false ∧
    L 0 [0, 0] [0, 0] = false := by decide

/-- `finalize(None)` leaves the union of the levels unchanged (it does nothing). -/
theorem finalize_None_union (sizes : List Nat) (L : Lv) : SameUnion sizes (finalizeLevels sizes .None L) L :=
  SameUnion.refl _ _

example : finalizeLevels [2, 2] .None (mergeByLevels [2, 2] [exBoth]) 2 [0, 0] [1, 0] = true := by decide

/-- `finalize(SplitOnly)`: moving the common diagonal of level k down to the level it really touches keeps
    the union of the levels (as sets of pairs over the domain). -/
theorem finalize_SplitOnly_union (sizes : List Nat) (L : Lv) (hwf : WF sizes L) :
    SameUnion sizes (finalizeLevels sizes .SplitOnly L) L :=
  (splitLoop_ok sizes _ L hwf).1

example :   -- the x1 move leaves level 2 and arrives at level 1
    let L := finalizeLevels [2, 2] .SplitOnly (mergeByLevels [2, 2] [exBoth])
    L 2 [0, 0] [1, 0] = false ∧ L 1 [0, 0] [1, 0] = true ∧ L 2 [0, 0] [0, 1] = true ∧ L 1 [0, 0] [0, 1] = false := by
  decide

/-- `finalize(SplitSubtract)`: additionally subtracting from level k what the receiving level contains
    keeps the union of the levels. -/
theorem finalize_SplitSubtract_union (sizes : List Nat) (L : Lv) (hwf : WF sizes L) :
    SameUnion sizes (finalizeLevels sizes .SplitSubtract L) L :=
  (splitLoop_ok sizes _ L hwf).1

example :   -- the diagonal is copied down, then level 2 loses everything level 1 holds
    let L := finalizeLevels [2, 2] .SplitSubtract (mergeByLevels [2, 2] [exBoth, exMove1])
    L 2 [0, 0] [1, 0] = false ∧ L 1 [0, 0] [1, 0] = true ∧ L 2 [0, 0] [0, 1] = true ∧ L 1 [0, 1] [1, 1] = true := by
  decide

/-- `finalize(SplitSubtractAll)`: copying the diagonals down and then subtracting every lower level from
    every higher one keeps the union of the levels. -/
theorem finalize_SplitSubtractAll_union (sizes : List Nat) (L : Lv) (hwf : WF sizes L) :
    SameUnion sizes (finalizeLevels sizes .SplitSubtractAll L) L := by
  have h1 := splitLoop_ok sizes .SplitSubtractAll L hwf
  have h2 := subtractAll_ok sizes _ h1.2
  exact h2.1.trans h1.1

example :
    let L0 := splitLoop [2, 2] .SplitSubtractAll (mergeByLevels [2, 2] [exBoth])
    let L := finalizeLevels [2, 2] .SplitSubtractAll (mergeByLevels [2, 2] [exBoth])
    -- after the main loop the x1 move is at both levels; the closing loop removes it from level 2
    L0 2 [0, 0] [1, 0] = true ∧ L0 1 [0, 0] [1, 0] = true ∧ L 2 [0, 0] [1, 0] = false ∧ L 1 [0, 0] [1, 0] = true ∧
    L 2 [0, 0] [0, 1] = true := by decide

/-- `finalize(MonolithicSplit)`: uniting all levels and splitting the union top-down keeps the union of the
    levels (level 0 is empty after `addToRelation`, which is what the hypothesis says). -/
theorem finalize_MonolithicSplit_union (sizes : List Nat) (L : Lv) (hwf : WF sizes L)
    (h0 : REq sizes (L 0) emptyRel) : SameUnion sizes (finalizeLevels sizes .MonolithicSplit L) L :=
  (finalizeLevels_ok sizes .MonolithicSplit L hwf h0).1

example :   -- two events at two levels are united (level 2) and split again
    let U := unionLevels [2, 2] (mergeByLevels [2, 2] [exMove1, exMove2])
    let L := finalizeLevels [2, 2] .MonolithicSplit (mergeByLevels [2, 2] [exMove1, exMove2])
    U 2 [0, 0] [1, 0] = true ∧ U 1 [0, 0] [1, 0] = false ∧
    L 2 [0, 0] [1, 0] = false ∧ L 1 [0, 0] [1, 0] = true ∧ L 2 [0, 0] [0, 1] = true := by decide

/-- After `finalize(opt)`, for every option, every pair stored at level k is the identity above k (and its
    membership does not depend on the variables above k): the invariant `saturateHelper` relies on when it
    fires `events[k]` at a level-k node. -/
theorem topLevel_ok (sizes : List Nat) (opt : SplitOpt) (evs : List LRel) :
    WF sizes (finalizeLevels sizes opt (mergeByLevels sizes evs)) :=
  (finalizeLevels_ok sizes opt _ (mergeByLevels_wf sizes evs) (fun _ _ _ _ => by simp [mergeByLevels])).2

example :
    let L := finalizeLevels [2, 2] .SplitOnly (mergeByLevels [2, 2] [exBoth, exF1])
    fitsB [2, 2] 1 (L 1) = true ∧ fitsB [2, 2] 2 (L 2) = true ∧ fitsB [2, 2] 1 (L 2) = false ∧
    isEmptyB [2, 2] (L 1) = false := by decide

/-- the two halves of `exMove1` (x2 = 0 / x2 = 1): each has its root at level 2, their union at level 1 -/
def exHalf (v : Nat) : LRel := fun s t => s.getD 1 0 == v && exMove1 s t

example :   -- finding F11 in the model: level 2 holds a relation whose root is at level 1; `renormLevels` moves it
    let M := mergeByLevels [2, 2] [exHalf 0, exHalf 1]
    let L := renormLevels [2, 2] M
    topOf [2, 2] (exHalf 0) = 2 ∧ topOf [2, 2] (M 2) = 1 ∧ isEmptyB [2, 2] (M 1) = true ∧
    isEmptyB [2, 2] (L 2) = true ∧ L 1 [0, 0] [1, 0] = true ∧ L 1 [0, 1] [1, 1] = true := by decide

/-- C20, by events: any firing schedule over the finalized array that ends closed yields exactly the states
    reachable from the initial set under the union of ALL events that were added. -/
theorem pregen_events_sat_eq_reach (sizes : List Nat) (evs : List LRel) (sched : List (Firing State))
    (init : SSet State) (hinit : ∀ s, init s = true → s ∈ allStates sizes)
    (hclosed : closedB (allStates sizes) (eventsInput sizes evs)
      (saturEvents (allStates sizes) (eventsInput sizes evs) sched init) = true) (u : State) :
    saturEvents (allStates sizes) (eventsInput sizes evs) sched init u = true ↔
      Reach (allStates sizes) init (unionRel evs) u :=
  (saturEvents_eq_lfp _ _ sched init hinit hclosed u).trans (events_reach_iff sizes evs init u)

example :
    let evs := eventsInput [2, 2] [exMove2, exIdent, exMove1]
    let X := saturEvents (allStates [2, 2]) evs
      [(1, [0, 0], [1, 0]), (0, [0, 0], [0, 1]), (0, [1, 0], [1, 1]), (1, [1, 1], [0, 0])] exInit
    closedB (allStates [2, 2]) evs X = true ∧ X [1, 1] = true ∧ X [0, 1] = true := by decide

/-- C20, by levels, EVERY splitting option: any firing schedule over `events[K..1]` after `finalize(opt)`
    that ends closed yields exactly the states reachable from the initial set under the union of ALL events
    that were added - the set the monolithic reachability operations compute for the union relation. -/
theorem pregen_levels_sat_eq_reach (sizes : List Nat) (opt : SplitOpt) (evs : List LRel)
    (sched : List (Firing State)) (init : SSet State) (hinit : ∀ s, init s = true → s ∈ allStates sizes)
    (hclosed : closedB (allStates sizes)
      (levelsInput sizes.length (finalizeLevels sizes opt (mergeByLevels sizes evs)))
      (saturEvents (allStates sizes)
        (levelsInput sizes.length (finalizeLevels sizes opt (mergeByLevels sizes evs))) sched init) = true)
    (u : State) :
    saturEvents (allStates sizes)
        (levelsInput sizes.length (finalizeLevels sizes opt (mergeByLevels sizes evs))) sched init u = true ↔
      Reach (allStates sizes) init (unionRel evs) u :=
  (saturEvents_eq_lfp _ _ sched init hinit hclosed u).trans (levels_reach_iff sizes opt evs init u)

example :
    let evs := levelsInput 2 (finalizeLevels [2, 2] .SplitSubtract (mergeByLevels [2, 2] [exBoth, exF1]))
    let X := saturEvents (allStates [2, 2]) evs
      [(1, [0, 0], [1, 0]), (0, [0, 0], [0, 1]), (0, [1, 0], [1, 1])] exInit
    let Y := saturEvents (allStates [2, 2]) evs [(1, [0, 0], [1, 0])] exInit
    closedB (allStates [2, 2]) evs X = true ∧ X [1, 1] = true ∧
    -- a schedule that stops too early is not closed: the hypothesis is not vacuous
    closedB (allStates [2, 2]) evs Y = false := by decide

/-- "The same edge as the monolithic operations": two reduced trees of one set forest that both denote the
    reachable set are the same tree (canonicity, `DD.canon`), so `SATURATION_FORWARD` and
    `REACHABLE_TRAD_NOFS` on the union must return equal `dd_edge`s. -/
theorem equals_monolithic (S : Shape) (hS : S.WF) (d1 d2 : DD Bool)
    (h1 : DD.Red S false S.top none d1 = true) (h2 : DD.Red S false S.top none d2 = true)
    (spec : Assign → Bool)
    (e1 : ∀ a, Assign.Valid S a → DD.eval S false S.top d1 a = spec a)
    (e2 : ∀ a, Assign.Valid S a → DD.eval S false S.top d2 a = spec a) : d1 = d2 :=
  (DD.canon S false hS d1 d2 h1 h2).mp (fun a ha => (e1 a ha).trans (e2 a ha).symm)

example :   -- a reduced one-variable set {1} (node at position 1 with children F, T)
    let S : Shape := { top := 1, size := fun _ => 2, mode := fun _ => .red }
    let d : DD Bool := .node 1 [.leaf false, .leaf true]
    DD.Red S false S.top none d = true ∧ DD.eval S false S.top d (fun _ => 1) = true ∧
    DD.eval S false S.top d (fun _ => 0) = false := by decide

/-
#print axioms of the property theorems (lake env lean, Lean 4.33.0):

'Meddly.Pregen.saturEvents_eq_lfp' depends on axioms: [propext, Quot.sound]
'Meddly.Pregen.reachFix_eq_lfp' depends on axioms: [propext, Quot.sound]
'Meddly.Pregen.closed_superset_reach' does not depend on any axioms
'Meddly.Pregen.saturEvents_sound' depends on axioms: [propext, Quot.sound]
'Meddly.Pregen.reach_ignores_selfloops' does not depend on any axioms
'Meddly.Pregen.finalize_events_union' depends on axioms: [propext, Classical.choice, Quot.sound]
'Meddly.Pregen.events_topLevel_ok' depends on axioms: [propext, Quot.sound]
'Meddly.Pregen.dropped_events_selfloops' depends on axioms: [propext, Quot.sound]
'Meddly.Pregen.mergeByLevels_union' depends on axioms: [propext, Quot.sound]
'Meddly.Pregen.finalize_None_union' depends on axioms: [propext]
'Meddly.Pregen.finalize_SplitOnly_union' depends on axioms: [propext, Classical.choice, Quot.sound]
'Meddly.Pregen.finalize_SplitSubtract_union' depends on axioms: [propext, Classical.choice, Quot.sound]
'Meddly.Pregen.finalize_SplitSubtractAll_union' depends on axioms: [propext, Classical.choice, Quot.sound]
'Meddly.Pregen.finalize_MonolithicSplit_union' depends on axioms: [propext, Classical.choice, Quot.sound]
'Meddly.Pregen.topLevel_ok' depends on axioms: [propext, Classical.choice, Quot.sound]
'Meddly.Pregen.pregen_events_sat_eq_reach' depends on axioms: [propext, Classical.choice, Quot.sound]
'Meddly.Pregen.pregen_levels_sat_eq_reach' depends on axioms: [propext, Classical.choice, Quot.sound]
'Meddly.Pregen.equals_monolithic' depends on axioms: [propext, Classical.choice, Quot.sound]
'Meddly.Pregen.renormLevels_ok' depends on axioms: [propext, Classical.choice, Quot.sound]
-/

end Pregen
end Meddly
