/-
  C09 (EV+ part) — one-step image of an EV+ DISTANCE function under a boolean relation:
  `prepost_set_mtrel<EdgeOp_plus<INT>, ev_prepost<INT>>` (operations/prepost_sets.cc,
  operations/prepost_common.h), the instantiation

        accumulate `add`   combine `mul`                unreachable `u`
    ev_prepost    min        r ∧ a < ∞ → a+1 | ∞           ∞

  that `Ops/Image.lean` (multi-terminal: `imageG`) left as "differential only".

  The operand is an EV+ edge `Int × EDD` of a set forest `Ss` (fully or quasi reduced), the
  relation a multi-terminal boolean tree `DD Bool` of a relation forest `Sr` of ANY rule (a
  skipped unprimed position 2k is expanded as redundant, a skipped primed position 2k-1 as
  redundant or as identity: `DD.cofactor` twice per variable, the tree-level
  `rel_node::outgoing`), the result an EV+ edge of the result forest `Sc`.

  `imageEVRec` follows the loop nest of `_compute` (`FORWD`: C[j] = min(C[j], A[i]·B[i][j]);
  backward: C[i] = min(C[i], B[i][j]·A[j])):
    * the incoming edge value is pushed down to the children (`cofactorE`;  the code keeps it
      outside and adds it back with `EOP::accumulateOp(cv, av)` — on trees the same function);
    * the terminal case is `ev_prepost::apply`: copy, and `cv.add(1)` unless the copy is ∞;
      a false relation terminal or an ∞ operand gives `setUnreachable` = the edge (0, ∞);
    * result entries start as `setAllUnreachable` = (0, ∞) and are accumulated with the EV+
      `MINIMUM` of the result forest (`accumE` = a fold of `applyE2 minO`);
    * the node is built by `createReducedNode` = `mkNodeEV` (`normalize_evplus`: the minimum is
      pulled up to the returned edge value; an all-∞ node is the edge (0, ∞)).

  Theorems
    `imageEVRec_fold`  the denotation at `y` is the `minO`-fold over all operand states `x` of
                       `stepE (d x) (R (x,y))`                      (analogue of `imageG_eval`)
    `imageEV_eval`     result y = 1 + min { d x | R x y }, ∞ if there is none
                                                                     (analogue of `distDD_eval`)
    `imageEV_red`      the result is a reduced edge (`RedEdge`) of the result forest
    `imageEV_unique`   any reduced edge with that denotation IS the model's result (`EDD.canon`)
    `imageEV_empty`    the image under the EMPTY relation is the canonical ∞ edge `(0, inf)`
                       (the known finding: not an edge `(v, inf)` with a stale value `v`)
-/
import MeddlyModel.Ops.EVApply
import MeddlyModel.Ops.Image

namespace Meddly

set_option linter.unusedSectionVars false
set_option linter.unusedVariables false

namespace EDD

/-! ## The model -/

/-- terminal case of `ev_prepost`: no edge of the relation, or an unreachable operand → ∞,
    otherwise the operand distance plus one (`ev_prepost::apply`: copy, then `cv.add(1)`) -/
def stepE (a : Option Int) (r : Bool) : Option Int :=
  if r = true then a.map (· + 1) else none

/-- the `MINIMUM`-accumulation of a list of result edges, starting from "unreachable"
    (`setAllUnreachable` = the edge (0, ∞), then one `addToCi` per operand index) -/
def accumE (Sc : Shape) (k : Nat) (l : List (Int × EDD)) : Int × EDD :=
  l.foldl (fun acc d => applyE2 Sc Sc Sc minO k none acc d) (0, .inf)

/-- `prepost_set_mtrel<EdgeOp_plus, ev_prepost>::_compute` on trees, read from variable `k`
    downwards.  `fwd = true`: post-image; `fwd = false`: pre-image.  Position `2k` of the relation
    is the unprimed, position `2k-1` the primed level of variable `k`. -/
def imageEVRec (Ss Sr Sc : Shape) (fwd : Bool) : Nat → (Int × EDD) → DD Bool → Int × EDD
  | 0, a, b => ofOpt (stepE (leafValE a) (DD.leafVal false b))
  | k+1, a, b =>
    mkNodeEV Sc (k+1) none
      ((List.range (Sc.size (k+1))).map fun res =>
        accumE Sc k
          ((List.range (Ss.size (k+1))).map fun opd =>
            imageEVRec Ss Sr Sc fwd k
              (cofactorE Ss (k+1) none a opd)
              (DD.cofactor Sr false (2*k+1) (some (if fwd then opd else res))
                (DD.cofactor Sr false (2*k+2) none b (if fwd then opd else res))
                (if fwd then res else opd))))

/-- EV+ `POST_IMAGE` (`fwd`) / `PRE_IMAGE` (`¬fwd`) of the distance edge `d` under the boolean
    relation `b`, on whole forest edges -/
def imageEV (Ss Sr Sc : Shape) (fwd : Bool) (d : Int × EDD) (b : DD Bool) : Int × EDD :=
  imageEVRec Ss Sr Sc fwd Sc.top d b

/-! ## `stepE`, `minO` -/

theorem stepE_some_iff (a : Option Int) (q : Bool) (r : Int) :
    stepE a q = some r ↔ q = true ∧ ∃ n, a = some n ∧ r = n + 1 := by
  unfold stepE
  cases q with
  | false => simp
  | true =>
    cases a with
    | none => simp
    | some n =>
      simp only [if_true, Option.map_some, Option.some.injEq, true_and]
      constructor
      · intro h; exact ⟨n, rfl, h.symm⟩
      · rintro ⟨m, hm, hr⟩; rw [hr, hm]

theorem stepE_true (n : Int) : stepE (some n) true = some (n + 1) := rfl

theorem minO_spec (a b : Option Int) :
    (minO a b = a ∨ minO a b = b) ∧
    (∀ n, a = some n → ∃ r, minO a b = some r ∧ r ≤ n) ∧
    (∀ n, b = some n → ∃ r, minO a b = some r ∧ r ≤ n) := by
  cases a with
  | none =>
    cases b with
    | none => exact ⟨Or.inl rfl, (fun n h => nomatch h), (fun n h => nomatch h)⟩
    | some q =>
      refine ⟨Or.inr rfl, (fun n h => nomatch h), ?_⟩
      intro n h; cases h; exact ⟨q, rfl, Int.le_refl _⟩
  | some p =>
    cases b with
    | none =>
      refine ⟨Or.inl rfl, ?_, (fun n h => nomatch h)⟩
      intro n h; cases h; exact ⟨p, rfl, Int.le_refl _⟩
    | some q =>
      refine ⟨?_, ?_, ?_⟩
      · show some (min p q) = some p ∨ some (min p q) = some q
        by_cases hpq : p ≤ q
        · left; rw [Int.min_eq_left hpq]
        · right; rw [Int.min_eq_right (by omega)]
      · intro n h; cases h; exact ⟨min p q, rfl, Int.min_le_left _ _⟩
      · intro n h; cases h; exact ⟨min p q, rfl, Int.min_le_right _ _⟩

theorem foldl_minO_spec {ε : Type} (l : List ε) (f : ε → Option Int) :
    ∀ a : Option Int,
      (l.foldl (fun acc i => minO acc (f i)) a = a ∨
        ∃ i, i ∈ l ∧ f i = l.foldl (fun acc i => minO acc (f i)) a) ∧
      (∀ n, a = some n → ∃ r, l.foldl (fun acc i => minO acc (f i)) a = some r ∧ r ≤ n) ∧
      (∀ i, i ∈ l → ∀ n, f i = some n →
        ∃ r, l.foldl (fun acc i => minO acc (f i)) a = some r ∧ r ≤ n) := by
  induction l with
  | nil =>
    intro a
    exact ⟨Or.inl rfl, fun n h => ⟨n, h, Int.le_refl _⟩, fun i hi => nomatch hi⟩
  | cons j l ih =>
    intro a
    simp only [List.foldl_cons]
    obtain ⟨hc, ha, hb⟩ := minO_spec a (f j)
    obtain ⟨i1, i2, i3⟩ := ih (minO a (f j))
    refine ⟨?_, ?_, ?_⟩
    · rcases i1 with e | ⟨i, hi, e⟩
      · rcases hc with c | c
        · left; rw [e, c]
        · right; exact ⟨j, List.mem_cons_self .., by rw [e, c]⟩
      · right; exact ⟨i, List.mem_cons_of_mem _ hi, e⟩
    · intro n hn
      obtain ⟨r, hr, hrn⟩ := ha n hn
      obtain ⟨r', hr', hrr⟩ := i2 r hr
      exact ⟨r', hr', by omega⟩
    · intro i hi n hn
      rcases List.mem_cons.mp hi with rfl | hi
      · obtain ⟨r, hr, hrn⟩ := hb n hn
        obtain ⟨r', hr', hrr⟩ := i2 r hr
        exact ⟨r', hr', by omega⟩
      · exact i3 i hi n hn

/-! ## the `minO`-fold over all operand assignments -/

theorem relFold_succ {γ : Type} [DecidableEq γ] (add : γ → γ → γ) (u : γ) (size : Nat → Nat)
    (k : Nat) (g : Assign → γ) (x : Assign) :
    DD.relFold add u size (k+1) g x =
      (List.range (size (k+1))).foldl
        (fun acc i => add acc (DD.relFold add u size k g (Assign.upd x (k+1) i))) u := by
  rw [DD.relFold]

/-- a finite `minO`-fold is attained -/
theorem relFold_min_attained (size : Nat → Nat) :
    ∀ (k : Nat) (g : Assign → Option Int) (x0 : Assign) (r : Int),
      DD.relFold minO none size k g x0 = some r →
      ∃ x, (∀ p, k < p → x p = x0 p) ∧ (∀ p, 1 ≤ p → p ≤ k → x p < size p) ∧ g x = some r := by
  intro k
  induction k with
  | zero => intro g x0 r h; exact ⟨x0, fun _ _ => rfl, fun p h1 h2 => by omega, h⟩
  | succ k ih =>
    intro g x0 r h0
    rw [relFold_succ] at h0
    have hs := (foldl_minO_spec (List.range (size (k+1)))
      (fun i => DD.relFold minO none size k g (Assign.upd x0 (k+1) i)) none).1
    rcases hs with e | ⟨i, hi, e⟩
    · rw [e] at h0; cases h0
    · have e' : DD.relFold minO none size k g (Assign.upd x0 (k+1) i) = some r := by
        rw [← h0]; exact e
      obtain ⟨x, hx1, hx2, hx3⟩ := ih g _ r e'
      refine ⟨x, ?_, ?_, hx3⟩
      · intro p hp
        rw [hx1 p (by omega), Assign.upd_other x0 i (by omega)]
      · intro p h1 h2
        by_cases hpk : p = k+1
        · subst hpk
          rw [hx1 (k+1) (Nat.lt_succ_self k), Assign.upd_same]
          exact List.mem_range.mp hi
        · exact hx2 p h1 (by omega)

/-- the `minO`-fold is finite and a lower bound of every finite candidate -/
theorem relFold_min_le (size : Nat → Nat) :
    ∀ (k : Nat) (g : Assign → Option Int) (x : Assign) (n : Int),
      (∀ p, 1 ≤ p → p ≤ k → x p < size p) → g x = some n →
      ∃ r, DD.relFold minO none size k g x = some r ∧ r ≤ n := by
  intro k
  induction k with
  | zero => intro g x n _ h0; exact ⟨n, h0, Int.le_refl _⟩
  | succ k ih =>
    intro g x n hv h0
    rw [relFold_succ]
    have hs := (foldl_minO_spec (List.range (size (k+1)))
      (fun i => DD.relFold minO none size k g (Assign.upd x (k+1) i)) none).2.2
      (x (k+1)) (List.mem_range.mpr (hv (k+1) (by omega) (Nat.le_refl _)))
    obtain ⟨r, hr, hrn⟩ := ih g x n (fun p h1 h2 => hv p h1 (by omega)) h0
    have e : DD.relFold minO none size k g (Assign.upd x (k+1) (x (k+1))) = some r := by
      rw [DD.upd_self]; exact hr
    obtain ⟨r', hr', hrr⟩ := hs r e
    exact ⟨r', hr', by omega⟩

/-! ## `accumE` -/

theorem RedEdge_fi_irrel (S : Shape) (k : Nat) (fi fj : Option Nat) (e : Int × EDD)
    (hm : S.mode k ≠ .ident) : RedEdge S k fi e = RedEdge S k fj e := by
  unfold RedEdge
  rw [Red_fi_irrel S k fi fj e.2 hm]

theorem accumE_fold_Below (Sc : Shape) (k : Nat) (l : List (Int × EDD)) :
    ∀ acc : Int × EDD, Below k acc.2 →
      Below k (l.foldl (fun acc d => applyE2 Sc Sc Sc minO k none acc d) acc).2 := by
  induction l with
  | nil => intro acc hb; exact hb
  | cons d l ih =>
    intro acc _
    simp only [List.foldl_cons]
    exact ih _ (applyE2_Below Sc Sc Sc minO k none acc d)

theorem accumE_Below (Sc : Shape) (k : Nat) (l : List (Int × EDD)) :
    Below k (accumE Sc k l).2 :=
  accumE_fold_Below Sc k l (0, .inf) (Below_inf k)

theorem accumE_fold_eval (Sc : Shape) (k : Nat) (hk : k ≤ Sc.top)
    (hni : ∀ p, Sc.mode p ≠ .ident) (y : Assign) (hy : Assign.Valid Sc y)
    (l : List (Int × EDD)) :
    ∀ acc : Int × EDD,
      evalEdge Sc k (l.foldl (fun acc d => applyE2 Sc Sc Sc minO k none acc d) acc) y
        = l.foldl (fun v d => minO v (evalEdge Sc k d y)) (evalEdge Sc k acc y) := by
  induction l with
  | nil => intro acc; rfl
  | cons d l ih =>
    intro acc
    simp only [List.foldl_cons]
    rw [ih, applyE2_eval Sc Sc Sc minO k none acc d y hk hy
      (fun h => absurd h (hni k)) (fun h => absurd h (hni k)) (fun h => absurd h (hni k))]

/-- the accumulated edge denotes the `minO`-fold of the denotations, starting from ∞ -/
theorem accumE_eval (Sc : Shape) (k : Nat) (hk : k ≤ Sc.top)
    (hni : ∀ p, Sc.mode p ≠ .ident) (y : Assign) (hy : Assign.Valid Sc y)
    (l : List (Int × EDD)) :
    evalEdge Sc k (accumE Sc k l) y = l.foldl (fun v d => minO v (evalEdge Sc k d y)) none := by
  unfold accumE
  rw [accumE_fold_eval Sc k hk hni y hy l, evalEdge_inf]

/-- the accumulated edge is reduced — also for an empty list: the start value `(0, ∞)` IS the
    canonical ∞ edge -/
theorem accumE_red (Sc : Shape) (hSc : Sc.WF) (k : Nat) (hni : ∀ p, Sc.mode p ≠ .ident)
    (l : List (Int × EDD)) (fi : Option Nat) :
    RedEdge Sc k fi (accumE Sc k l) = true := by
  rw [RedEdge_fi_irrel Sc k fi none _ (hni k)]
  have hall : ∀ (l : List (Int × EDD)) (acc : Int × EDD), RedEdge Sc k none acc = true →
      RedEdge Sc k none
        (l.foldl (fun acc d => applyE2 Sc Sc Sc minO k none acc d) acc) = true := by
    intro l
    induction l with
    | nil => intro acc h; exact h
    | cons d l ih =>
      intro acc _
      simp only [List.foldl_cons]
      exact ih _ (applyE2_red Sc Sc Sc minO hSc k none acc d (fun _ => hni k))
  exact hall l _ ((RedEdge_iff _ _ _ _).mpr ⟨Red_inf Sc k none, fun _ => rfl⟩)

/-! ## `imageEVRec` -/

section image
variable (Ss Sr Sc : Shape) (fwd : Bool)

theorem imageEVRec_zero (a : Int × EDD) (b : DD Bool) :
    imageEVRec Ss Sr Sc fwd 0 a b = ofOpt (stepE (leafValE a) (DD.leafVal false b)) := by
  rw [imageEVRec]

theorem imageEVRec_succ (k : Nat) (a : Int × EDD) (b : DD Bool) :
    imageEVRec Ss Sr Sc fwd (k+1) a b =
      mkNodeEV Sc (k+1) none
        ((List.range (Sc.size (k+1))).map fun res =>
          accumE Sc k
            ((List.range (Ss.size (k+1))).map fun opd =>
              imageEVRec Ss Sr Sc fwd k
                (cofactorE Ss (k+1) none a opd)
                (DD.cofactor Sr false (2*k+1) (some (if fwd then opd else res))
                  (DD.cofactor Sr false (2*k+2) none b (if fwd then opd else res))
                  (if fwd then res else opd)))) := by
  rw [imageEVRec]

theorem imageEVRec_Below (k : Nat) (a : Int × EDD) (b : DD Bool) :
    Below k (imageEVRec Ss Sr Sc fwd k a b).2 := by
  cases k with
  | zero => rw [imageEVRec_zero]; exact Below_ofOpt 0 _
  | succ k =>
    rw [imageEVRec_succ]
    apply mkNodeEV_Below
    intro e he
    obtain ⟨i, _, rfl⟩ := List.mem_map.mp he
    exact accumE_Below Sc k _

/-- MAIN LEMMA.  The denotation of `imageEVRec` at a result assignment `y` is the `minO`-fold
    over all operand assignments `x` (lexicographic order) of `stepE (d x) (R (x,y))` — for every
    operand edge, every relation rule, forward and backward. -/
theorem imageEVRec_fold (h : DD.ImgShapes Ss Sr Sc) :
    ∀ (k : Nat) (a : Int × EDD) (b : DD Bool) (y x0 : Assign), k ≤ Sc.top → Assign.Valid Sc y →
      evalEdge Sc k (imageEVRec Ss Sr Sc fwd k a b) y
        = DD.relFold minO none Ss.size k
            (fun x => stepE (evalEdge Ss k a x) (DD.eval Sr false (2*k) b (DD.pairD fwd x y))) x0 := by
  intro k
  induction k with
  | zero =>
    intro a b y x0 _ _
    rw [imageEVRec_zero, evalEdge_ofOpt]
    show _ = stepE (evalEdge Ss 0 a x0) (DD.eval Sr false 0 b (DD.pairD fwd x0 y))
    rw [evalEdge_zero_eq_leafValE, DD.eval_zero_eq_leafVal]
  | succ k ih =>
    intro a b y x0 hk hy
    have hyk : y (k+1) < Sc.size (k+1) := hy (k+1) (by omega) hk
    rw [imageEVRec_succ,
      mkNodeEV_eval_child Sc k none _ y hk (DD.length_map_range _ _) hy
        (fun e he => by
          obtain ⟨i, _, rfl⟩ := List.mem_map.mp he
          exact accumE_Below Sc k _)
        (fun hm => absurd hm (h.res_noident (k+1))),
      DD.getD_map_range _ _ _ hyk,
      accumE_eval Sc k (by omega) h.res_noident y hy, List.foldl_map, relFold_succ]
    apply DD.foldl_ext_mem
    intro acc opd _
    congr 1
    rw [ih _ _ y (Assign.upd x0 (k+1) opd) (by omega) hy]
    apply DD.relFold_congr
    intro x hx
    have hxk : x (k+1) = opd := by
      rw [hx (k+1) (Nat.lt_succ_self k), Assign.upd_same]
    have ha : evalEdge Ss (k+1) a x = evalEdge Ss k (cofactorE Ss (k+1) none a opd) x := by
      rw [cofactorE_eval Ss k none a x (fun hm => absurd hm (h.set_noident (k+1))), hxk]
    have hz2 : DD.pairD fwd x y (2*k+2) = if fwd then opd else y (k+1) := by
      have : 2*k+2 = 2*(k+1) := by omega
      rw [this, DD.pairD_even, hxk]
    have hz1 : DD.pairD fwd x y (2*k+1) = if fwd then y (k+1) else opd := by
      rw [DD.pairD_odd, hxk]
    show stepE _ _ = stepE (evalEdge Ss (k+1) a x) (DD.eval Sr false (2*(k+1)) b (DD.pairD fwd x y))
    rw [ha, DD.rel_two_steps Sr false h.rel_even k b (DD.pairD fwd x y), hz2, hz1]

/-- The result is a reduced edge of the result forest. -/
theorem imageEVRec_red (h : DD.ImgShapes Ss Sr Sc) (hSc : Sc.WF) :
    ∀ (k : Nat) (a : Int × EDD) (b : DD Bool),
      RedEdge Sc k none (imageEVRec Ss Sr Sc fwd k a b) = true := by
  intro k
  cases k with
  | zero => intro a b; rw [imageEVRec_zero]; exact RedEdge_ofOpt Sc none _
  | succ k =>
    intro a b
    rw [imageEVRec_succ]
    apply mkNodeEV_red Sc hSc k none _ (DD.length_map_range _ _) _ (fun _ => h.res_noident (k+1))
    intro i hi
    rw [DD.length_map_range] at hi
    rw [DD.getD_map_range _ _ _ hi]
    exact accumE_red Sc hSc k h.res_noident _ (some i)

end image

/-! ## The relational characterisation -/

/-- `v` is "one plus the minimum distance of a predecessor of `y`, ∞ if there is none":
    a lower bound of `d x + 1` over all `x` with `d x < ∞` and an edge to `y`, and attained
    when finite -/
def IsMinStep (Ss Sr : Shape) (fwd : Bool) (d : Int × EDD) (b : DD Bool) (y : Assign)
    (v : Option Int) : Prop :=
  (∀ x n, Assign.Valid Ss x → evalEdge Ss Ss.top d x = some n →
      DD.eval Sr false Sr.top b (DD.pairD fwd x y) = true → ∃ r, v = some r ∧ r ≤ n + 1) ∧
  (∀ r, v = some r → ∃ x n, Assign.Valid Ss x ∧ evalEdge Ss Ss.top d x = some n ∧
      DD.eval Sr false Sr.top b (DD.pairD fwd x y) = true ∧ r = n + 1)

/-- the characterisation determines the value -/
theorem IsMinStep.unique {Ss Sr : Shape} {fwd : Bool} {d : Int × EDD} {b : DD Bool} {y : Assign}
    {v w : Option Int} (hv : IsMinStep Ss Sr fwd d b y v) (hw : IsMinStep Ss Sr fwd d b y w) :
    v = w := by
  cases v with
  | none =>
    cases w with
    | none => rfl
    | some q =>
      obtain ⟨x, n, hx, hd, hr, _⟩ := hw.2 q rfl
      obtain ⟨r, hr', _⟩ := hv.1 x n hx hd hr
      cases hr'
  | some p =>
    cases w with
    | none =>
      obtain ⟨x, n, hx, hd, hr, _⟩ := hv.2 p rfl
      obtain ⟨r, hr', _⟩ := hw.1 x n hx hd hr
      cases hr'
    | some q =>
      obtain ⟨x, n, hx, hd, hr, hpn⟩ := hv.2 p rfl
      obtain ⟨r, hr', hle⟩ := hw.1 x n hx hd hr
      have hqr : q = r := Option.some.inj hr'
      obtain ⟨x', n', hx', hd', hr2, hqn⟩ := hw.2 q rfl
      obtain ⟨r', hr'', hle'⟩ := hv.1 x' n' hx' hd' hr2
      have hpr : p = r' := Option.some.inj hr''
      have : p = q := by omega
      rw [this]

theorem imageEV_isMinStep (Ss Sr Sc : Shape) (h : DD.ImgShapes Ss Sr Sc) (fwd : Bool)
    (d : Int × EDD) (b : DD Bool) (y : Assign) (hy : Assign.Valid Sc y) :
    IsMinStep Ss Sr fwd d b y (evalEdge Sc Sc.top (imageEV Ss Sr Sc fwd d b) y) := by
  unfold imageEV
  have key := fun x0 => imageEVRec_fold Ss Sr Sc fwd h Sc.top d b y x0 (Nat.le_refl _) hy
  constructor
  · intro x n hx hd hr
    rw [key x]
    apply relFold_min_le Ss.size Sc.top _ x (n+1)
      (fun p h1 h2 => hx p h1 (by rw [h.top_s]; exact h2))
    show stepE (evalEdge Ss Sc.top d x) (DD.eval Sr false (2 * Sc.top) b (DD.pairD fwd x y))
      = some (n+1)
    rw [← h.top_r, ← h.top_s, hd, hr]; rfl
  · intro r hr
    rw [key y] at hr
    obtain ⟨x, _, hx2, hx3⟩ := relFold_min_attained Ss.size Sc.top _ y r hr
    have hx3' : stepE (evalEdge Ss Sc.top d x)
        (DD.eval Sr false (2 * Sc.top) b (DD.pairD fwd x y)) = some r := hx3
    rw [← h.top_r, ← h.top_s] at hx3'
    obtain ⟨hq, n, hn, hrn⟩ := (stepE_some_iff _ _ _).mp hx3'
    exact ⟨x, n, fun p h1 h2 => hx2 p h1 (by rw [← h.top_s]; exact h2), hn, hq, hrn⟩

end EDD

/-! ## Concrete forests and edges (non-vacuity) -/

namespace EVImageExamples
open EDD CanonExamples ApplyExamples EVApplyExamples

/-! three variables of sizes 2, 3, 2 (`CanonExamples.SA`, fully reduced; `EVApplyExamples.aE`:
    shared sub-tree `xE`, non-zero edge values, an ∞ entry, root value 1).  Relation forests over
    the same variables: positions 6, 4, 2 unprimed, positions 5, 3, 1 primed. -/

/-- identity reduced: unprimed positions `red`, primed positions `ident` -/
def SR6 : Shape where
  top := 6
  size := fun p => if p = 4 ∨ p = 3 then 3 else 2
  mode := fun p => if p = 5 ∨ p = 3 ∨ p = 1 then .ident else .red

theorem SR6_WF : SR6.WF where
  size_ge := by
    intro p _ _
    show 2 ≤ (if p = 4 ∨ p = 3 then 3 else 2)
    split <;> omega
  ident_below_red := by
    intro p h
    have hp : p = 5 ∨ p = 3 ∨ p = 1 := by
      by_cases hp : p = 5 ∨ p = 3 ∨ p = 1
      · exact hp
      · have h' : (if p = 5 ∨ p = 3 ∨ p = 1 then Mode.ident else Mode.red) = Mode.ident := h
        rw [if_neg hp] at h'; cases h'
    rcases hp with rfl | rfl | rfl <;> decide

/-- fully reduced relation forest over the same variables -/
def SF6 : Shape where
  top := 6
  size := fun p => if p = 4 ∨ p = 3 then 3 else 2
  mode := fun _ => .red

/-- the same three variables, quasi reduced (set forest) -/
def SQ3 : Shape where
  top := 3
  size := fun p => if p = 2 then 3 else 2
  mode := fun _ => .none

theorem SQ3_WF : SQ3.WF where
  size_ge := by intro p _ _; show 2 ≤ (if p = 2 then 3 else 2); split <;> omega
  ident_below_red := by intro p h; cases h

theorem SR6_even (p : Nat) : SR6.mode (2*p) ≠ .ident := by
  intro hm
  have h' : (if 2*p = 5 ∨ 2*p = 3 ∨ 2*p = 1 then Mode.ident else Mode.red) = Mode.ident := hm
  have hp : ¬ (2*p = 5 ∨ 2*p = 3 ∨ 2*p = 1) := by omega
  rw [if_neg hp] at h'; cases h'

/-- set fully reduced, relation identity reduced, result fully reduced -/
theorem sh_FIF : DD.ImgShapes SA SR6 SA :=
  ⟨fun _ h => (by cases h), fun _ h => (by cases h), SR6_even, rfl, rfl, fun _ => rfl⟩
/-- set fully reduced, relation identity reduced, result quasi reduced -/
theorem sh_FIQ : DD.ImgShapes SA SR6 SQ3 :=
  ⟨fun _ h => (by cases h), fun _ h => (by cases h), SR6_even, rfl, rfl, fun _ => rfl⟩
/-- set quasi reduced, relation fully reduced, result fully reduced -/
theorem sh_QFF : DD.ImgShapes SQ3 SF6 SA :=
  ⟨fun _ h => (by cases h), fun _ h => (by cases h), fun _ h => (by cases h), rfl, rfl,
    fun _ => rfl⟩

/-- `x₂' = x₂ + 1 mod 3`, `x₃' = x₃`, `x₁' = x₁`, identity reduced: the root skips positions 6
    and 5 (identity on `x₃`), the `true` terminals skip positions 2 and 1 (identity on `x₁`) -/
def inc2 : DD Bool :=
  .node 4 [.node 3 [.leaf false, .leaf true, .leaf false],
           .node 3 [.leaf false, .leaf false, .leaf true],
           .node 3 [.leaf true, .leaf false, .leaf false]]
/-- "`x₃' = 1` from anywhere, `x₂`, `x₁` arbitrary → arbitrary", fully reduced: position 6 and
    both positions of the variables 2 and 1 are skipped as redundant -/
def set3 : DD Bool := .node 5 [.leaf false, .leaf true]

/-- post-image of `aE` under `inc2`: the entries of position 2 are rotated (the ∞ entry moves
    from index 2 to index 0, the shared `xE` stays shared), the root value becomes 1 + 1 -/
def postInc : Int × EDD :=
  (2, .node 3 [(0, .node 2 [(0, .inf), (0, xE), (1, yE)]), (2, xE)])
/-- pre-image: rotated the other way -/
def preInc : Int × EDD :=
  (2, .node 3 [(0, .node 2 [(1, yE), (0, .inf), (0, xE)]), (2, xE)])
/-- the post-image in the quasi-reduced result forest: the skipped position 2 below index 1 is
    spelled out -/
def postIncQ : Int × EDD :=
  (2, .node 3 [(0, .node 2 [(0, .inf), (0, xE), (1, yE)]), (2, .node 2 [(0, xE), (0, xE), (0, xE)])])
/-- the same operand in the quasi-reduced set forest -/
def aQ : Int × EDD :=
  (1, .node 3 [(0, .node 2 [(0, xE), (1, yE), (0, .inf)]), (2, .node 2 [(0, xE), (0, xE), (0, xE)])])

end EVImageExamples

namespace EDD

/-! ## Property theorems -/

/-- C09 (EV+ distances), evaluation.  With `r` the value at `y` of the model of
    `prepost_set_mtrel<EdgeOp_plus, ev_prepost>` — for every operand edge (fully or quasi reduced
    set forest), every relation tree of ANY reduction rule, every result forest, forward
    (`fwd`, neighbours `x → y`) and backward (`¬fwd`, neighbours `y → x`):
    `r` is finite and a lower bound of `d x + 1` over all neighbours `x` with `d x < ∞`; a finite
    `r` is attained; `r = ∞` iff every neighbour has `d x = ∞` (in particular when there is none).
    I.e. `r = 1 + min { d x | R x y }`, `+∞` if there is none.  (`distDD_eval` over `Option Int`,
    `none` = ∞.) -/
theorem imageEV_eval (Ss Sr Sc : Shape) (h : DD.ImgShapes Ss Sr Sc) (fwd : Bool)
    (d : Int × EDD) (b : DD Bool) (y : Assign) (hy : Assign.Valid Sc y) :
    (∀ x n, Assign.Valid Ss x → evalEdge Ss Ss.top d x = some n →
        DD.eval Sr false Sr.top b (DD.pairD fwd x y) = true →
        ∃ r, evalEdge Sc Sc.top (imageEV Ss Sr Sc fwd d b) y = some r ∧ r ≤ n + 1) ∧
    (∀ r, evalEdge Sc Sc.top (imageEV Ss Sr Sc fwd d b) y = some r →
        ∃ x n, Assign.Valid Ss x ∧ evalEdge Ss Ss.top d x = some n ∧
          DD.eval Sr false Sr.top b (DD.pairD fwd x y) = true ∧ r = n + 1) ∧
    (evalEdge Sc Sc.top (imageEV Ss Sr Sc fwd d b) y = none ↔
        ∀ x, Assign.Valid Ss x → DD.eval Sr false Sr.top b (DD.pairD fwd x y) = true →
          evalEdge Ss Ss.top d x = none) := by
  obtain ⟨h1, h2⟩ := imageEV_isMinStep Ss Sr Sc h fwd d b y hy
  refine ⟨h1, h2, ?_, ?_⟩
  · intro hn x hx hr
    cases hd : evalEdge Ss Ss.top d x with
    | none => rfl
    | some n =>
      obtain ⟨r, hr', _⟩ := h1 x n hx hd hr
      rw [hn] at hr'; cases hr'
  · intro hall
    cases hv : evalEdge Sc Sc.top (imageEV Ss Sr Sc fwd d b) y with
    | none => rfl
    | some r =>
      obtain ⟨x, n, hx, hd, hr, _⟩ := h2 r hv
      rw [hall x hx hr] at hd; cases hd

/-- The same as a fold: the value at `y` is the `minO`-fold (∞ neutral), in lexicographic order
    over all operand assignments `x`, of `d x + 1` where `R (x, y)` holds and `∞` elsewhere. -/
theorem imageEV_eval_fold (Ss Sr Sc : Shape) (h : DD.ImgShapes Ss Sr Sc) (fwd : Bool)
    (d : Int × EDD) (b : DD Bool) (y x0 : Assign) (hy : Assign.Valid Sc y) :
    evalEdge Sc Sc.top (imageEV Ss Sr Sc fwd d b) y
      = DD.relFold minO none Ss.size Ss.top
          (fun x => stepE (evalEdge Ss Ss.top d x)
            (DD.eval Sr false Sr.top b (DD.pairD fwd x y))) x0 := by
  unfold imageEV
  rw [imageEVRec_fold Ss Sr Sc fwd h Sc.top d b y x0 (Nat.le_refl _) hy, h.top_s, h.top_r]

/-- Normal form.  The image is a reduced edge of the RESULT forest: edge values normalised
    (minimum pulled up to the root edge, ∞ entries with value 0, an edge to ∞ has value 0) and
    the forest's reduction rule, whatever the rules of the operand forests. -/
theorem imageEV_red (Ss Sr Sc : Shape) (h : DD.ImgShapes Ss Sr Sc) (hSc : Sc.WF) (fwd : Bool)
    (d : Int × EDD) (b : DD Bool) :
    RedEdge Sc Sc.top none (imageEV Ss Sr Sc fwd d b) = true :=
  imageEVRec_red Ss Sr Sc fwd h hSc Sc.top d b

/-- Uniqueness.  ANY reduced edge of the result forest whose value at every `y` is "one plus the
    minimum distance of a neighbour, ∞ if there is none" (`IsMinStep`: lower bound + attained) is
    the edge computed by the model — the terminal shortcuts, the compute table (which stores the
    result for edge value 0 and adds `av` back), `makeRedundantsTo` and the order of the `MINIMUM`
    accumulations of the C++ code cannot produce anything else without breaking canonicity or the
    relational definition (`EDD.canon`). -/
theorem imageEV_unique (Ss Sr Sc : Shape) (h : DD.ImgShapes Ss Sr Sc) (hSc : Sc.WF) (fwd : Bool)
    (d : Int × EDD) (b : DD Bool) (r : Int × EDD) (hr : RedEdge Sc Sc.top none r = true)
    (hd : ∀ y, Assign.Valid Sc y → IsMinStep Ss Sr fwd d b y (evalEdge Sc Sc.top r y)) :
    r = imageEV Ss Sr Sc fwd d b := by
  apply (canon Sc hSc r _ hr (imageEV_red Ss Sr Sc h hSc fwd d b)).mp
  intro y hy
  exact (hd y hy).unique (imageEV_isMinStep Ss Sr Sc h fwd d b y hy)

/-- Uniqueness, fold form. -/
theorem imageEV_unique_fold (Ss Sr Sc : Shape) (h : DD.ImgShapes Ss Sr Sc) (hSc : Sc.WF)
    (fwd : Bool) (d : Int × EDD) (b : DD Bool) (r : Int × EDD)
    (hr : RedEdge Sc Sc.top none r = true)
    (hd : ∀ y, Assign.Valid Sc y →
      evalEdge Sc Sc.top r y = DD.relFold minO none Ss.size Ss.top
        (fun x => stepE (evalEdge Ss Ss.top d x)
          (DD.eval Sr false Sr.top b (DD.pairD fwd x y))) y) :
    r = imageEV Ss Sr Sc fwd d b := by
  apply (canon Sc hSc r _ hr (imageEV_red Ss Sr Sc h hSc fwd d b)).mp
  intro y hy
  rw [hd y hy, imageEV_eval_fold Ss Sr Sc h fwd d b y y hy]

/-- The image denotes ∞ everywhere iff it IS the canonical ∞ edge `(0, inf)`. -/
theorem imageEV_inf_iff (Ss Sr Sc : Shape) (h : DD.ImgShapes Ss Sr Sc) (hSc : Sc.WF) (fwd : Bool)
    (d : Int × EDD) (b : DD Bool) :
    imageEV Ss Sr Sc fwd d b = (0, .inf) ↔
      ∀ y, Assign.Valid Sc y → evalEdge Sc Sc.top (imageEV Ss Sr Sc fwd d b) y = none := by
  constructor
  · intro he y _; rw [he, evalEdge_inf]
  · intro hz
    exact inf_unique Sc hSc _ (imageEV_red Ss Sr Sc h hSc fwd d b) hz

/-- The known finding: the image under the EMPTY relation (`R ≡ false` on all pairs of valid
    states) is the canonical ∞ edge `(0, inf)` — target ∞ AND edge value 0, never an edge
    `(v, inf)` that keeps the operand's root value or the `+1`. -/
theorem imageEV_empty (Ss Sr Sc : Shape) (h : DD.ImgShapes Ss Sr Sc) (hSc : Sc.WF) (fwd : Bool)
    (d : Int × EDD) (b : DD Bool)
    (hb : ∀ x y, Assign.Valid Ss x → Assign.Valid Sc y →
      DD.eval Sr false Sr.top b (DD.pairD fwd x y) = false) :
    imageEV Ss Sr Sc fwd d b = (0, .inf) := by
  apply (imageEV_inf_iff Ss Sr Sc h hSc fwd d b).mpr
  intro y hy
  apply (imageEV_eval Ss Sr Sc h fwd d b y hy).2.2.mpr
  intro x hx hr
  rw [hb x y hx hy] at hr; cases hr

/-- … in particular for the relation edge `false` (the transparent terminal), in every relation
    forest. -/
theorem imageEV_empty_leaf (Ss Sr Sc : Shape) (h : DD.ImgShapes Ss Sr Sc) (hSc : Sc.WF)
    (fwd : Bool) (d : Int × EDD) : imageEV Ss Sr Sc fwd d (.leaf false) = (0, .inf) :=
  imageEV_empty Ss Sr Sc h hSc fwd d _ (fun x y _ _ => DD.eval_leaf_zero Sr false Sr.top _)

/-- Likewise the image of the EMPTY distance function (the edge `(v, inf)`, whatever `v`) is the
    canonical ∞ edge. -/
theorem imageEV_of_inf (Ss Sr Sc : Shape) (h : DD.ImgShapes Ss Sr Sc) (hSc : Sc.WF) (fwd : Bool)
    (v : Int) (b : DD Bool) : imageEV Ss Sr Sc fwd (v, .inf) b = (0, .inf) := by
  apply (imageEV_inf_iff Ss Sr Sc h hSc fwd _ b).mpr
  intro y hy
  apply (imageEV_eval Ss Sr Sc h fwd _ b y hy).2.2.mpr
  intro x _ _
  exact evalEdge_inf Ss Ss.top v x

section Examples
open EVImageExamples CanonExamples ApplyExamples EVApplyExamples

/-! computed instances: identity-reduced relation, fully reduced operand and result -/
example : DD.Red SR6 false 6 none inc2 = true := by decide
example : RedEdge SA 3 none aE = true := by decide
example : imageEV SA SR6 SA true aE inc2 = postInc := by decide
example : imageEV SA SR6 SA false aE inc2 = preInc := by decide
example : RedEdge SA 3 none postInc = true := by decide
/-- `inc2` is a bijection: the post-image of the pre-image is the operand, distance + 2 -/
example : imageEV SA SR6 SA true preInc inc2 = (3, aE.2) := by decide
/-- the identity relation (a terminal in the identity-reduced forest): distance + 1 -/
example : imageEV SA SR6 SA true aE (.leaf true) = (2, aE.2) := by decide
/-- quasi-reduced result forest: the redundant node is kept -/
example : imageEV SA SR6 SQ3 true aE inc2 = postIncQ := by decide
example : RedEdge SQ3 3 none postIncQ = true := by decide
/-- quasi-reduced operand, FULLY reduced relation `set3` (everything skipped as redundant but
    position 5): every state with `x₃ = 1` gets 1 + the global minimum 1, the others ∞ -/
example : RedEdge SQ3 3 none aQ = true := by decide
example : imageEV SQ3 SF6 SA true aQ set3 = (2, .node 3 [(0, .inf), (0, .omega)]) := by decide
/-- … and the pre-image under it: finite everywhere (every state has a successor with `x₃ = 1`
    at distance ≥ 3): 1 + min { aE x | x₃ = 1 } = 1 + 3 -/
example : imageEV SQ3 SF6 SA false aQ set3 = (4, .omega) := by decide
/-- an un-normalised operand (root value spread differently, stale value on an ∞ entry) gives
    the same result -/
example : imageEV SA SR6 SA true
    (0, .node 3 [(1, .node 2 [(0, xE), (1, yE), (5, .inf)]), (3, xE)]) inc2 = postInc := by decide
/-- empty relation, empty operand: the canonical ∞ edge, value 0 -/
example : imageEV SA SR6 SA true aE (.leaf false) = (0, .inf) := by decide
example : imageEV SA SR6 SA true (7, .inf) inc2 = (0, .inf) := by decide
/-- a non-canonical ∞ edge is NOT the model's result (and not reduced) -/
example : ((2, .inf) : Int × EDD) ≠ imageEV SA SR6 SA true aE (.leaf false) := by decide
example : RedEdge SA 3 none (2, .inf) = false := by decide
/-- values: `y = (y₃, y₂, y₁) = (0, 1, 1)` is reached from `x = (0, 0, 1)`: `aE x = 1+0+0+2 = 3` -/
example : evalEdge SA 3 aE (fun p => if p = 1 then 1 else 0) = some 3 := by decide
example : evalEdge SA 3 postInc (fun p => if p = 3 then 0 else 1) = some 4 := by decide
/-- `y₂ = 0` is reached from `x₂ = 2` only, where `aE` is ∞ (below `x₃ = 0`) -/
example : evalEdge SA 3 postInc (fun p => if p = 1 then 1 else 0) = none := by decide

/-- the general theorems apply to the written-out results -/
example (y : Assign) (hy : Assign.Valid SA y) :
    IsMinStep SA SR6 true aE inc2 y (evalEdge SA 3 postInc y) := by
  have h := imageEV_isMinStep SA SR6 SA sh_FIF true aE inc2 y hy
  have e : imageEV SA SR6 SA true aE inc2 = postInc := by decide
  rw [e] at h
  exact h

example : RedEdge SQ3 3 none (imageEV SA SR6 SQ3 true aE inc2) = true :=
  imageEV_red SA SR6 SQ3 sh_FIQ SQ3_WF true aE inc2

example (d : Int × EDD) : imageEV SQ3 SF6 SA false d (.leaf false) = (0, .inf) :=
  imageEV_empty_leaf SQ3 SF6 SA sh_QFF SA_WF false d

end Examples

end EDD

#print axioms EDD.imageEVRec_fold
#print axioms EDD.imageEVRec_red
#print axioms EDD.imageEV_isMinStep
#print axioms EDD.IsMinStep.unique
#print axioms EDD.imageEV_eval
#print axioms EDD.imageEV_eval_fold
#print axioms EDD.imageEV_red
#print axioms EDD.imageEV_unique
#print axioms EDD.imageEV_unique_fold
#print axioms EDD.imageEV_inf_iff
#print axioms EDD.imageEV_empty
#print axioms EDD.imageEV_empty_leaf
#print axioms EDD.imageEV_of_inf

/- Output (Lean 4.33.0):
'Meddly.EDD.imageEVRec_fold' depends on axioms: [propext, Classical.choice, Quot.sound]
'Meddly.EDD.imageEVRec_red' depends on axioms: [propext, Classical.choice, Quot.sound]
'Meddly.EDD.imageEV_isMinStep' depends on axioms: [propext, Classical.choice, Quot.sound]
'Meddly.EDD.IsMinStep.unique' depends on axioms: [propext, Quot.sound]
'Meddly.EDD.imageEV_eval' depends on axioms: [propext, Classical.choice, Quot.sound]
'Meddly.EDD.imageEV_eval_fold' depends on axioms: [propext, Classical.choice, Quot.sound]
'Meddly.EDD.imageEV_red' depends on axioms: [propext, Classical.choice, Quot.sound]
'Meddly.EDD.imageEV_unique' depends on axioms: [propext, Classical.choice, Quot.sound]
'Meddly.EDD.imageEV_unique_fold' depends on axioms: [propext, Classical.choice, Quot.sound]
'Meddly.EDD.imageEV_inf_iff' depends on axioms: [propext, Classical.choice, Quot.sound]
'Meddly.EDD.imageEV_empty' depends on axioms: [propext, Classical.choice, Quot.sound]
'Meddly.EDD.imageEV_empty_leaf' depends on axioms: [propext, Classical.choice, Quot.sound]
'Meddly.EDD.imageEV_of_inf' depends on axioms: [propext, Classical.choice, Quot.sound]
-/

end Meddly
