/-
  C15 — index sets.

  List level: a set over positions `k … 1` is a predicate on digit lists; its members in
  lexicographic order, `rank` (number of members lexicographically smaller), the specification of
  the index function (`indexSpec`) and of `getElement` (`getElementSpec`).

  Tree level: `toIndex` mirrors `mdd2index_operation::_compute` (src/operations/mdd2index.cc): the
  source is an MT-bool tree read at position `k` (a skipped position is unpacked as a redundant
  node, `newRedundant`), children are converted left to right, a child with a non-zero number of
  members gets the running total as its edge value (others 0), the total is stored in the
  unhashed header, an all-empty node reduces to the transparent terminal.  `getElem` mirrors
  `dd_edge::getElemLong` (src/dd_edge.cc): backward linear search over the sparse entries for
  the last edge value ≤ index.
-/
import MeddlyModel.Ops.Enumerate

namespace Meddly

set_option linter.unusedSectionVars false
set_option linter.unusedVariables false

namespace IndexSet

/-! ## List level -/

/-- the members of the set, in lexicographic order -/
def members (S : Shape) (k : Nat) (mem : List Nat → Bool) : List (List Nat) := (lexAll S k).filter mem

def count (S : Shape) (k : Nat) (mem : List Nat → Bool) : Nat := (members S k mem).length

/-- number of members lexicographically smaller than `ds` -/
def rank (S : Shape) (k : Nat) (mem : List Nat → Bool) (ds : List Nat) : Nat :=
  ((members S k mem).filter (fun m => lexLt m ds)).length

/-- the function an index set must denote: `none` = +infinity -/
def indexSpec (S : Shape) (k : Nat) (mem : List Nat → Bool) (ds : List Nat) : Option Nat :=
  if mem ds = true then some (rank S k mem ds) else none

/-- what `getElement(i)` must return: the member with index `i`, failure outside `0 … n-1` -/
def getElementSpec (S : Shape) (k : Nat) (mem : List Nat → Bool) (i : Int) : Option (List Nat) :=
  if i < 0 then none else (members S k mem)[i.toNat]?

theorem lexLt_asymm : ∀ x y : List Nat, lexLt x y = true → lexLt y x = false := by
  intro x
  induction x with
  | nil => intro y h; cases y <;> simp [lexLt] at h ⊢
  | cons a as ih =>
    intro y h
    cases y with
    | nil => simp [lexLt] at h
    | cons b bs =>
      simp only [lexLt, Bool.or_eq_true, decide_eq_true_eq, Bool.and_eq_true, beq_iff_eq] at h
      simp only [lexLt, Bool.or_eq_false_iff, decide_eq_false_iff_not, Bool.and_eq_false_iff]
      rcases h with h | ⟨h1, h2⟩
      · refine ⟨by omega, Or.inl ?_⟩
        simp; omega
      · subst h1
        exact ⟨by omega, Or.inr (ih bs h2)⟩

/-- in a strictly sorted list the number of elements smaller than a member is its position -/
theorem sorted_get_count : ∀ (l : List (List Nat)), l.Pairwise (fun x y => lexLt x y = true) →
    ∀ x ∈ l, l[(l.filter (fun m => lexLt m x)).length]? = some x := by
  intro l
  induction l with
  | nil => intro _ x hx; cases hx
  | cons y ys ih =>
    intro hp x hx
    obtain ⟨hy, hys⟩ := List.pairwise_cons.mp hp
    by_cases hxy : x = y
    · subst hxy
      have : (x :: ys).filter (fun m => lexLt m x) = [] := by
        rw [List.filter_eq_nil_iff]
        intro z hz
        rcases List.mem_cons.mp hz with rfl | hz
        · simp [lexLt_irrefl]
        · simp [lexLt_asymm _ _ (hy z hz)]
      rw [this]; rfl
    · have hx' : x ∈ ys := by
        rcases List.mem_cons.mp hx with h | h
        · exact absurd h hxy
        · exact h
      rw [List.filter_cons, if_pos (hy x hx')]
      simp only [List.length_cons, List.getElem?_cons_succ]
      exact ih hys x hx'

theorem sorted_count_of_get : ∀ (l : List (List Nat)), l.Pairwise (fun x y => lexLt x y = true) →
    ∀ (i : Nat) (x : List Nat), l[i]? = some x → (l.filter (fun m => lexLt m x)).length = i := by
  intro l
  induction l with
  | nil => intro _ i x h; simp at h
  | cons y ys ih =>
    intro hp i x h
    obtain ⟨hy, hys⟩ := List.pairwise_cons.mp hp
    cases i with
    | zero =>
      simp only [List.getElem?_cons_zero, Option.some.injEq] at h
      subst h
      have : (y :: ys).filter (fun m => lexLt m y) = [] := by
        rw [List.filter_eq_nil_iff]
        intro z hz
        rcases List.mem_cons.mp hz with rfl | hz
        · simp [lexLt_irrefl]
        · simp [lexLt_asymm _ _ (hy z hz)]
      rw [this]; rfl
    | succ j =>
      simp only [List.getElem?_cons_succ] at h
      have hx' : x ∈ ys := List.mem_of_getElem? h
      rw [List.filter_cons, if_pos (hy x hx')]
      simp only [List.length_cons]
      rw [ih hys j x h]

theorem members_pairwise (S : Shape) (k : Nat) (mem : List Nat → Bool) :
    (members S k mem).Pairwise (fun x y => lexLt x y = true) :=
  (lexAll_pairwise S k).sublist List.filter_sublist

/-! ### Decomposition by the top digit -/

/-- the set of the tails of the members that start with digit `j` -/
def consMem (mem : List Nat → Bool) (j : Nat) : List Nat → Bool := fun ds => mem (j :: ds)

theorem filter_flatMap' {β γ : Type} (l : List β) (f : β → List γ) (p : γ → Bool) :
    (l.flatMap f).filter p = l.flatMap (fun x => (f x).filter p) := by
  induction l with
  | nil => rfl
  | cons x xs ih => simp [List.flatMap_cons, List.filter_append, ih]

theorem sum_range_three (g A : Nat → Nat) (B i : Nat) (h1 : ∀ j, j < i → g j = A j) (h2 : g i = B)
    (h3 : ∀ j, i < j → g j = 0) :
    ∀ n, i < n → ((List.range n).map g).sum = ((List.range i).map A).sum + B := by
  intro n
  induction n with
  | zero => intro h; omega
  | succ n ih =>
    intro hi
    rw [List.range_succ, List.map_append, List.sum_append]
    by_cases hlt : i < n
    · rw [ih hlt, List.map_singleton, List.sum_singleton, h3 n hlt]; omega
    · have : i = n := by omega
      subst this
      rw [List.map_singleton, List.sum_singleton, h2]
      congr 1
      congr 1
      apply List.map_congr_left
      intro j hj
      exact h1 j (List.mem_range.mp hj)

theorem count_succ (S : Shape) (k : Nat) (mem : List Nat → Bool) :
    count S (k+1) mem = ((List.range (S.size (k+1))).map (fun j => count S k (consMem mem j))).sum := by
  unfold count members
  rw [DD.lexAll_succ, filter_flatMap', List.length_flatMap]
  congr 1
  apply List.map_congr_left
  intro j _
  rw [List.filter_map, List.length_map]
  rfl

theorem rank_eq (S : Shape) (k : Nat) (mem : List Nat → Bool) (ds : List Nat) :
    rank S k mem ds = ((lexAll S k).filter (fun m => lexLt m ds && mem m)).length := by
  unfold rank members
  rw [List.filter_filter]

theorem rank_cons (S : Shape) (k : Nat) (mem : List Nat → Bool) (i : Nat) (ds : List Nat)
    (hi : i < S.size (k+1)) :
    rank S (k+1) mem (i :: ds) =
      ((List.range i).map (fun j => count S k (consMem mem j))).sum + rank S k (consMem mem i) ds := by
  rw [rank_eq, DD.lexAll_succ, filter_flatMap', List.length_flatMap]
  apply sum_range_three _ _ _ i _ _ _ _ hi
  · intro j hj
    simp only [List.filter_map, List.length_map]
    unfold count members consMem
    congr 1
    apply List.filter_congr
    intro m _
    simp [lexLt, hj]
  · simp only [List.filter_map, List.length_map]
    rw [rank_eq]
    congr 1
    apply List.filter_congr
    intro m _
    simp [lexLt, consMem]
  · intro j hj
    simp only [List.filter_map, List.length_map]
    rw [List.length_eq_zero_iff, List.filter_eq_nil_iff]
    intro m _
    have h1 : ¬ j < i := by omega
    have h2 : j ≠ i := by omega
    simp [lexLt, h1, h2]

/-- a set with no members rejects every valid digit list -/
theorem mem_false_of_count_zero (S : Shape) (k : Nat) (mem : List Nat → Bool) (h : count S k mem = 0)
    (ds : List Nat) (hds : ds ∈ lexAll S k) : mem ds = false := by
  unfold count members at h
  rw [List.length_eq_zero_iff, List.filter_eq_nil_iff] at h
  simpa using h ds hds

theorem count_pos_of_mem (S : Shape) (k : Nat) (mem : List Nat → Bool)
    (ds : List Nat) (hds : ds ∈ lexAll S k) (hm : mem ds = true) : count S k mem ≠ 0 := by
  intro h
  rw [mem_false_of_count_zero S k mem h ds hds] at hm
  exact Bool.noConfusion hm

/-! ## Tree level -/

/-- index-set (EV+) trees: `bot` = terminal 0 (+infinity, transparent), `one` = terminal -1,
    a node carries its position, the cardinality stored in its unhashed header and the full
    vector of (edge value, child) -/
inductive IX where
  | bot
  | one
  | node (pos : Nat) (card : Nat) (kids : List (Nat × IX))
  deriving Inhabited

/-- `forest::getIndexSetCardinality` -/
def IX.hdr : IX → Nat
  | .bot => 0
  | .one => 1
  | .node _ c _ => c

def IX.isBot : IX → Bool
  | .bot => true
  | _ => false

/-- evaluation of an index-set tree: sum of the edge values along the path, `none` = +infinity -/
def evalIX : IX → List Nat → Option Nat
  | .bot, _ => none
  | .one, [] => some 0
  | .one, _ :: _ => none
  | .node _ _ _, [] => none
  | .node _ _ kids, i :: ds =>
    match kids[i]? with
    | some (off, ch) => (evalIX ch ds).map (· + off)
    | none => none

/-- the loop over the children in `mdd2index_operation::_compute`: `cv` is the running total -/
def ixFold (rec : DD Bool → Nat × IX) : List (DD Bool) → Nat → Nat × List (Nat × IX)
  | [], cv => (cv, [])
  | c :: cs, cv =>
    let r := rec c
    let rest := ixFold rec cs (cv + r.1)
    (rest.1, ((if r.1 ≠ 0 then cv else 0), r.2) :: rest.2)

/-- the source node unpacked at position `k+1` (`newFromNode`, or `newRedundant` when skipped) -/
def kidsOf (S : Shape) (k : Nat) (d : DD Bool) : List (DD Bool) :=
  (List.range (S.size (k+1))).map (fun i => DD.subAt false k d i)

/-- CONVERT_TO_INDEX_SET: returns (cardinality, index-set tree) -/
def toIndex (S : Shape) : Nat → DD Bool → Nat × IX
  | 0, .leaf true => (1, .one)
  | 0, _ => (0, .bot)
  | k+1, d =>
    if d = .leaf false then (0, .bot) else
    let r := ixFold (fun c => toIndex S k c) (kidsOf S k d) 0
    if r.1 = 0 then (0, .bot) else (r.1, .node (k+1) r.1 r.2)

/-- the set denoted by the source tree -/
def memOf (S : Shape) (k : Nat) (d : DD Bool) (a : Assign) : List Nat → Bool :=
  fun ds => DD.eval S false k d (withDigits a k ds)

theorem ixFold_fst (rec : DD Bool → Nat × IX) : ∀ (cs : List (DD Bool)) (cv : Nat),
    (ixFold rec cs cv).1 = cv + (cs.map (fun c => (rec c).1)).sum := by
  intro cs
  induction cs with
  | nil => intro cv; simp [ixFold]
  | cons c cs ih => intro cv; simp [ixFold, ih, Nat.add_assoc]

theorem ixFold_get (rec : DD Bool → Nat × IX) : ∀ (cs : List (DD Bool)) (cv i : Nat),
    (ixFold rec cs cv).2[i]? = (cs[i]?).map (fun c =>
      ((if (rec c).1 ≠ 0 then cv + ((cs.take i).map (fun c => (rec c).1)).sum else 0), (rec c).2)) := by
  intro cs
  induction cs with
  | nil => intro cv i; simp [ixFold]
  | cons c cs ih =>
    intro cv i
    cases i with
    | zero => simp [ixFold]
    | succ j =>
      simp only [ixFold, List.getElem?_cons_succ, ih, List.take_succ_cons, List.map_cons, List.sum_cons,
        Nat.add_assoc]

theorem toIndex_succ (S : Shape) (k : Nat) (d : DD Bool) :
    toIndex S (k+1) d =
    if d = .leaf false then (0, .bot) else
    if (ixFold (fun c => toIndex S k c) (kidsOf S k d) 0).1 = 0 then (0, .bot)
    else ((ixFold (fun c => toIndex S k c) (kidsOf S k d) 0).1,
          .node (k+1) (ixFold (fun c => toIndex S k c) (kidsOf S k d) 0).1
            (ixFold (fun c => toIndex S k c) (kidsOf S k d) 0).2) := by
  rw [toIndex]

theorem consMem_memOf (S : Shape) (hS : ∀ p, S.mode p ≠ .ident) (k : Nat) (d : DD Bool) (a : Assign) (i : Nat) :
    consMem (memOf S (k+1) d a) i = memOf S k (DD.subAt false k d i) (Assign.upd a (k+1) i) := by
  funext ds
  show DD.eval S false (k+1) d (withDigits (Assign.upd a (k+1) i) k ds) = _
  have hb1 : withDigits (Assign.upd a (k+1) i) k ds (k+1) = i := by
    rw [withDigits_above k ds _ (k+1) (by omega), Assign.upd_same]
  rw [DD.eval_succ_at, hb1]
  unfold memOf DD.subAt
  by_cases hn : d.isNodeAt (k+1) = true
  · simp [hn]
  · simp [hn, hS (k+1)]

theorem count_memOf_leaf_false (S : Shape) (k : Nat) (a : Assign) :
    count S k (memOf S k (.leaf false) a) = 0 := by
  unfold count members
  rw [List.length_eq_zero_iff, List.filter_eq_nil_iff]
  intro ds _
  simp [memOf, DD.eval_leaf_zero]

theorem toIndex_fst (S : Shape) (hS : ∀ p, S.mode p ≠ .ident) :
    ∀ (k : Nat) (d : DD Bool) (a : Assign), (toIndex S k d).1 = count S k (memOf S k d a) := by
  intro k
  induction k with
  | zero =>
    intro d a
    cases d with
    | leaf v => cases v <;> simp [toIndex, count, members, lexAll, List.filter, memOf, DD.eval]
    | node p cs => simp [toIndex, count, members, lexAll, List.filter, memOf, DD.eval]
  | succ k ih =>
    intro d a
    rw [toIndex_succ]
    by_cases hz : d = .leaf false
    · rw [if_pos hz, hz, count_memOf_leaf_false]
    · rw [if_neg hz]
      have hsum : (ixFold (fun c => toIndex S k c) (kidsOf S k d) 0).1 = count S (k+1) (memOf S (k+1) d a) := by
        rw [ixFold_fst, count_succ, Nat.zero_add]
        unfold kidsOf
        rw [List.map_map]
        congr 1
        apply List.map_congr_left
        intro j _
        rw [consMem_memOf S hS]
        exact ih _ _
      split
      · rename_i h0; rw [← hsum, h0]
      · exact hsum

theorem toIndex_snd_bot (S : Shape) (k : Nat) (d : DD Bool) (h : (toIndex S k d).1 = 0) :
    (toIndex S k d).2 = .bot := by
  cases k with
  | zero =>
    cases d with
    | leaf v => cases v <;> simp [toIndex] at h ⊢
    | node p cs => simp [toIndex]
  | succ k =>
    rw [toIndex_succ] at h ⊢
    split
    · rfl
    · split
      · rfl
      · rename_i h1 h2
        rw [if_neg h1, if_neg h2] at h
        exact absurd h h2

theorem mem_lexAll_cons (S : Shape) (k i : Nat) (ds : List Nat) :
    (i :: ds) ∈ lexAll S (k+1) ↔ i < S.size (k+1) ∧ ds ∈ lexAll S k := by
  rw [DD.lexAll_succ, List.mem_flatMap]
  constructor
  · rintro ⟨j, hj, hm⟩
    obtain ⟨ds', hds', he⟩ := List.mem_map.mp hm
    cases he
    exact ⟨List.mem_range.mp hj, hds'⟩
  · rintro ⟨hi, hds⟩
    exact ⟨i, List.mem_range.mpr hi, List.mem_map.mpr ⟨ds, hds, rfl⟩⟩

theorem mem_lexAll_zero (S : Shape) (ds : List Nat) : ds ∈ lexAll S 0 ↔ ds = [] := by
  simp [lexAll]

theorem mem_lexAll_succ_exists (S : Shape) (k : Nat) (ds : List Nat) (h : ds ∈ lexAll S (k+1)) :
    ∃ i ds', ds = i :: ds' ∧ i < S.size (k+1) ∧ ds' ∈ lexAll S k := by
  rw [DD.lexAll_succ, List.mem_flatMap] at h
  obtain ⟨j, hj, hm⟩ := h
  obtain ⟨ds', hds', he⟩ := List.mem_map.mp hm
  exact ⟨j, ds', he.symm, List.mem_range.mp hj, hds'⟩

theorem index_eval_aux (S : Shape) (hS : ∀ p, S.mode p ≠ .ident) :
    ∀ (k : Nat) (d : DD Bool) (a : Assign) (ds : List Nat), ds ∈ lexAll S k →
      evalIX (toIndex S k d).2 ds = indexSpec S k (memOf S k d a) ds := by
  intro k
  induction k with
  | zero =>
    intro d a ds hds
    rw [mem_lexAll_zero] at hds
    subst hds
    cases d with
    | leaf v =>
      cases v <;> simp [toIndex, evalIX, indexSpec, memOf, DD.eval, rank, members, lexAll, lexLt]
    | node p cs => simp [toIndex, evalIX, indexSpec, memOf, DD.eval]
  | succ k ih =>
    intro d a ds hds
    obtain ⟨i, ds', rfl, hi, hds'⟩ := mem_lexAll_succ_exists S k ds hds
    have hcount := toIndex_fst S hS (k+1) d a
    by_cases hc : (toIndex S (k+1) d).1 = 0
    · -- empty set: transparent terminal
      rw [toIndex_snd_bot S (k+1) d hc]
      have : memOf S (k+1) d a (i :: ds') = false :=
        mem_false_of_count_zero S (k+1) _ (by rw [← hcount]; exact hc) _ hds
      simp [evalIX, indexSpec, this]
    · have hnode : (toIndex S (k+1) d).2 = .node (k+1) (ixFold (fun c => toIndex S k c) (kidsOf S k d) 0).1
          (ixFold (fun c => toIndex S k c) (kidsOf S k d) 0).2 := by
        rw [toIndex_succ] at hc ⊢
        by_cases hz : d = .leaf false
        · rw [if_pos hz] at hc; exact absurd rfl hc
        · rw [if_neg hz] at hc ⊢
          by_cases h0 : (ixFold (fun c => toIndex S k c) (kidsOf S k d) 0).1 = 0
          · rw [if_pos h0] at hc; exact absurd rfl hc
          · rw [if_neg h0]
      rw [hnode]
      have hkid : (kidsOf S k d)[i]? = some (DD.subAt false k d i) := by
        unfold kidsOf
        rw [List.getElem?_map, List.getElem?_range hi]
        rfl
      have htake : ((kidsOf S k d).take i).map (fun c => (toIndex S k c).1)
          = (List.range i).map (fun j => count S k (consMem (memOf S (k+1) d a) j)) := by
        unfold kidsOf
        rw [← List.map_take, List.take_range, List.map_map, Nat.min_eq_left (Nat.le_of_lt hi)]
        apply List.map_congr_left
        intro j _
        rw [consMem_memOf S hS]
        exact toIndex_fst S hS k _ _
      simp only [evalIX, ixFold_get, hkid, Option.map_some, Nat.zero_add, htake]
      rw [ih (DD.subAt false k d i) (Assign.upd a (k+1) i) ds' hds', ← consMem_memOf S hS]
      unfold indexSpec
      have hmem : consMem (memOf S (k+1) d a) i ds' = memOf S (k+1) d a (i :: ds') := rfl
      rw [hmem]
      by_cases hm : memOf S (k+1) d a (i :: ds') = true
      · have hpos : (toIndex S k (DD.subAt false k d i)).1 ≠ 0 := by
          rw [toIndex_fst S hS k _ (Assign.upd a (k+1) i), ← consMem_memOf S hS]
          exact count_pos_of_mem S k _ ds' hds' (by rw [hmem]; exact hm)
        simp only [hm, if_true, Option.map_some, hpos, ne_eq, not_false_eq_true]
        rw [rank_cons S k _ i ds' hi, Nat.add_comm]
      · simp [hm]

/-- all headers in the tree are consistent: a node's stored cardinality is the sum of its
    children's (terminals count 0 and 1), positions descend by one -/
def IX.hdrOK : Nat → IX → Bool
  | _, .bot => true
  | _, .one => true
  | 0, .node _ _ _ => false
  | k+1, .node p c kids =>
    p == k+1 && c == (kids.map (fun e => e.2.hdr)).sum && kids.all (fun e => IX.hdrOK k e.2)

theorem toIndex_hdr (S : Shape) (k : Nat) (d : DD Bool) : (toIndex S k d).2.hdr = (toIndex S k d).1 := by
  cases k with
  | zero =>
    cases d with
    | leaf v => cases v <;> simp [toIndex, IX.hdr]
    | node p cs => simp [toIndex, IX.hdr]
  | succ k =>
    rw [toIndex_succ]
    split
    · rfl
    · split <;> rfl

theorem ixFold_snd_map (rec : DD Bool → Nat × IX) : ∀ (cs : List (DD Bool)) (cv : Nat),
    (ixFold rec cs cv).2.map (fun e => e.2) = cs.map (fun c => (rec c).2) := by
  intro cs
  induction cs with
  | nil => intro cv; simp [ixFold]
  | cons c cs ih => intro cv; simp [ixFold, ih]

theorem toIndex_hdrOK (S : Shape) : ∀ (k : Nat) (d : DD Bool), (toIndex S k d).2.hdrOK k = true := by
  intro k
  induction k with
  | zero =>
    intro d
    cases d with
    | leaf v => cases v <;> simp [toIndex, IX.hdrOK]
    | node p cs => simp [toIndex, IX.hdrOK]
  | succ k ih =>
    intro d
    rw [toIndex_succ]
    split
    · rfl
    · split
      · rfl
      · simp only [IX.hdrOK, beq_self_eq_true, Bool.true_and, Bool.and_eq_true, beq_iff_eq, List.all_eq_true]
        constructor
        · rw [ixFold_fst, Nat.zero_add]
          have h1 : (ixFold (fun c => toIndex S k c) (kidsOf S k d) 0).2.map (fun e => e.2.hdr)
              = ((ixFold (fun c => toIndex S k c) (kidsOf S k d) 0).2.map (fun e => e.2)).map IX.hdr := by
            rw [List.map_map]; rfl
          rw [h1, ixFold_snd_map, List.map_map]
          congr 1
          apply List.map_congr_left
          intro c _
          exact (toIndex_hdr S k c).symm
        · intro e he
          have : e.2 ∈ (ixFold (fun c => toIndex S k c) (kidsOf S k d) 0).2.map (fun e => e.2) :=
            List.mem_map.mpr ⟨e, he, rfl⟩
          rw [ixFold_snd_map] at this
          obtain ⟨c, _, hc⟩ := List.mem_map.mp this
          rw [← hc]
          exact ih c

/-! ## `getElement` -/

abbrev SpE := Nat × Nat × IX

/-- sparse view of a node: (index, edge value, child) of the entries whose child is not the
    transparent terminal, numbered from `j` -/
def sparseFrom : Nat → List (Nat × IX) → List SpE
  | _, [] => []
  | j, (off, ch) :: rest =>
    if ch.isBot = true then sparseFrom (j+1) rest else (j, off, ch) :: sparseFrom (j+1) rest

/-- the backward linear search of `getElemLong`, on the sparse entries listed from the LAST one:
    the first entry whose edge value is ≤ index; entry 0 is taken without a test -/
def pickBack (idx : Int) : List SpE → Option SpE
  | [] => none
  | [e] => some e
  | e :: e' :: rest => if (e.2.1 : Int) ≤ idx then some e else pickBack idx (e' :: rest)

/-- `dd_edge::getElemLong`: the loop over the levels; returns the digits and the remaining index.
    A terminal met at a variable level makes the real code dereference it (finding F2); the
    model answers `none` (= the documented `false`). -/
def getElem : Nat → IX → Int → Option (List Nat × Int)
  | 0, _, idx => some ([], idx)
  | k+1, .node _ _ kids, idx =>
    match pickBack idx (sparseFrom 0 kids).reverse with
    | none => none
    | some (i, off, ch) => (getElem k ch (idx - off)).map (fun r => (i :: r.1, r.2))
  | _+1, _, _ => none

def getElement (k : Nat) (t : IX) (idx : Int) : Option (List Nat) :=
  if idx < 0 then none else
  match getElem k t idx with
  | some (ds, rest) => if rest > 0 then none else some ds
  | none => none

def okE (idx : Int) (e : SpE) : Bool := decide ((e.2.1 : Int) ≤ idx)

theorem pickBack_eq (idx : Int) : ∀ l : List SpE,
    pickBack idx l = match l.find? (okE idx) with | some x => some x | none => l.getLast? := by
  intro l
  induction l with
  | nil => rfl
  | cons e l ih =>
    cases l with
    | nil =>
      by_cases h : (e.2.1 : Int) ≤ idx <;> simp [pickBack, okE, h]
    | cons e' rest =>
      rw [pickBack]
      by_cases h : (e.2.1 : Int) ≤ idx
      · simp [h, okE]
      · rw [if_neg h, ih]
        simp [List.find?_cons, okE, h, List.getLast?_cons_cons]

/-- forward description of "the last entry with edge value ≤ index" -/
def pickF (idx : Int) : List SpE → Option SpE
  | [] => none
  | e :: l =>
    match pickF idx l with
    | some x => some x
    | none => if (e.2.1 : Int) ≤ idx then some e else none

theorem find_reverse (idx : Int) : ∀ l : List SpE, l.reverse.find? (okE idx) = pickF idx l := by
  intro l
  induction l with
  | nil => rfl
  | cons e l ih =>
    rw [List.reverse_cons, List.find?_append, ih, pickF]
    cases pickF idx l with
    | some x => rfl
    | none => simp [okE]

theorem isBot_iff (S : Shape) (k : Nat) (d : DD Bool) :
    (toIndex S k d).2.isBot = true ↔ (toIndex S k d).1 = 0 := by
  constructor
  · intro h
    cases k with
    | zero =>
      cases d with
      | leaf v => cases v <;> simp [toIndex, IX.isBot] at h ⊢
      | node p cs => simp [toIndex]
    | succ k =>
      rw [toIndex_succ] at h ⊢
      split
      · rfl
      · split
        · rfl
        · rename_i h1 h2
          rw [if_neg h1, if_neg h2] at h
          simp [IX.isBot] at h
  · intro h
    rw [toIndex_snd_bot S k d h]; rfl

section pick
variable (rec : DD Bool → Nat × IX)

theorem pickF_none_below (hbot : ∀ c, (rec c).2.isBot = true ↔ (rec c).1 = 0) (idx : Int) : ∀ (cs : List (DD Bool)) (j cv : Nat), idx < (cv : Int) →
    pickF idx (sparseFrom j (ixFold rec cs cv).2) = none := by
  intro cs
  induction cs with
  | nil => intro j cv _; rfl
  | cons c cs ih =>
    intro j cv h
    simp only [ixFold, sparseFrom]
    by_cases hb : (rec c).2.isBot = true
    · rw [if_pos hb]
      have : (rec c).1 = 0 := (hbot c).mp hb
      rw [this, Nat.add_zero]
      exact ih (j+1) cv h
    · rw [if_neg hb]
      have hne : (rec c).1 ≠ 0 := fun e => hb ((hbot c).mpr e)
      rw [pickF, ih (j+1) (cv + (rec c).1) (by omega)]
      simp only [hne, ne_eq, not_false_eq_true, if_true]
      rw [if_neg (by omega)]

def offAt (cs : List (DD Bool)) (cv i : Nat) : Nat := cv + ((cs.take i).map (fun c => (rec c).1)).sum

theorem pick_spec (hbot : ∀ c, (rec c).2.isBot = true ↔ (rec c).1 = 0) (idx : Int) : ∀ (cs : List (DD Bool)) (j cv : Nat), (cv : Int) ≤ idx →
    (cv + (cs.map (fun c => (rec c).1)).sum = cv → pickF idx (sparseFrom j (ixFold rec cs cv).2) = none) ∧
    (cv < cv + (cs.map (fun c => (rec c).1)).sum →
      ∃ i c, cs[i]? = some c ∧ (rec c).1 ≠ 0 ∧
        pickF idx (sparseFrom j (ixFold rec cs cv).2) = some (j + i, offAt rec cs cv i, (rec c).2) ∧
        (offAt rec cs cv i : Int) ≤ idx ∧
        (idx < ((cv + (cs.map (fun c => (rec c).1)).sum : Nat) : Int) → idx < ((offAt rec cs cv i + (rec c).1 : Nat) : Int)) ∧
        ((((cv + (cs.map (fun c => (rec c).1)).sum : Nat) : Int) ≤ idx) →
            offAt rec cs cv i + (rec c).1 = cv + (cs.map (fun c => (rec c).1)).sum)) := by
  intro cs
  induction cs with
  | nil =>
    intro j cv h
    refine ⟨fun _ => rfl, fun h' => ?_⟩
    simp at h'
  | cons c cs ih =>
    intro j cv h
    simp only [ixFold, sparseFrom, List.map_cons, List.sum_cons]
    by_cases hb : (rec c).2.isBot = true
    · have h0 : (rec c).1 = 0 := (hbot c).mp hb
      rw [if_pos hb, h0]
      simp only [Nat.add_zero, Nat.zero_add]
      obtain ⟨ih1, ih2⟩ := ih (j+1) cv h
      refine ⟨ih1, fun hlt => ?_⟩
      obtain ⟨i, c', hi, hne, hp, ho, h3, h4⟩ := ih2 hlt
      refine ⟨i+1, c', by simpa using hi, hne, ?_, ?_, ?_, ?_⟩
      · rw [hp]; simp [offAt, h0, Nat.add_assoc, Nat.add_comm 1 i]
      · simpa [offAt, h0] using ho
      · simpa [offAt, h0] using h3
      · simpa [offAt, h0] using h4
    · rw [if_neg hb]
      have hne : (rec c).1 ≠ 0 := fun e => hb ((hbot c).mpr e)
      simp only [hne, ne_eq, not_false_eq_true, if_true]
      refine ⟨fun h' => by omega, fun _ => ?_⟩
      rw [pickF]
      by_cases hin : ((cv + (rec c).1 : Nat) : Int) ≤ idx
      · obtain ⟨ih1, ih2⟩ := ih (j+1) (cv + (rec c).1) hin
        by_cases hmore : cv + (rec c).1 < cv + (rec c).1 + (cs.map (fun c => (rec c).1)).sum
        · obtain ⟨i, c', hi, hne', hp, ho, h3, h4⟩ := ih2 hmore
          refine ⟨i+1, c', by simpa using hi, hne', ?_, ?_, ?_, ?_⟩
          · rw [hp]; simp [offAt, Nat.add_assoc, Nat.add_comm 1 i]
          · simpa [offAt, Nat.add_assoc] using ho
          · simpa [offAt, Nat.add_assoc] using h3
          · simpa [offAt, Nat.add_assoc] using h4
        · have hs : (cs.map (fun c => (rec c).1)).sum = 0 := by omega
          rw [ih1 (by omega)]
          refine ⟨0, c, rfl, hne, ?_, ?_, ?_, ?_⟩
          · simp [offAt, h]
          · simpa [offAt] using h
          · intro hlt; rw [hs] at hlt; simp [offAt]; omega
          · intro _; simp [offAt, hs]
      · rw [pickF_none_below rec hbot idx cs (j+1) (cv + (rec c).1) (by omega)]
        refine ⟨0, c, rfl, hne, ?_, ?_, ?_, ?_⟩
        · simp [offAt, h]
        · simpa [offAt] using h
        · intro _; simp [offAt]; omega
        · intro hle; omega

end pick
theorem members_succ (S : Shape) (k : Nat) (mem : List Nat → Bool) :
    members S (k+1) mem =
      (List.range (S.size (k+1))).flatMap (fun j => (members S k (consMem mem j)).map (fun ds => j :: ds)) := by
  unfold members
  rw [DD.lexAll_succ, filter_flatMap']
  apply flatMap_congr'
  intro j _
  rw [List.filter_map]
  rfl

theorem getElem?_flatMap_block {β γ : Type} (f : β → List γ) : ∀ (xs : List β) (i r : Nat) (x : β),
    xs[i]? = some x → r < (f x).length →
    (xs.flatMap f)[((xs.take i).map (fun y => (f y).length)).sum + r]? = (f x)[r]? := by
  intro xs
  induction xs with
  | nil => intro i r x h; simp at h
  | cons y ys ih =>
    intro i r x h hr
    cases i with
    | zero =>
      simp only [List.getElem?_cons_zero, Option.some.injEq] at h
      subst h
      simp only [List.take_zero, List.map_nil, List.sum_nil, Nat.zero_add, List.flatMap_cons]
      rw [List.getElem?_append_left hr]
    | succ i' =>
      simp only [List.getElem?_cons_succ] at h
      simp only [List.take_succ_cons, List.map_cons, List.sum_cons, List.flatMap_cons]
      rw [List.getElem?_append_right (by omega)]
      have : (f y).length + ((ys.take i').map (fun y => (f y).length)).sum + r - (f y).length
          = ((ys.take i').map (fun y => (f y).length)).sum + r := by omega
      rw [this]
      exact ih i' r x h hr

theorem ixFold_total (S : Shape) (hS : ∀ p, S.mode p ≠ .ident) (k : Nat) (d : DD Bool) (a : Assign) :
    ((kidsOf S k d).map (fun c => (toIndex S k c).1)).sum = count S (k+1) (memOf S (k+1) d a) := by
  rw [count_succ]
  unfold kidsOf
  rw [List.map_map]
  congr 1
  apply List.map_congr_left
  intro j _
  rw [consMem_memOf S hS]
  exact toIndex_fst S hS k _ _

theorem toIndex_node (S : Shape) (k : Nat) (d : DD Bool) (hc : (toIndex S (k+1) d).1 ≠ 0) :
    (toIndex S (k+1) d).2 = .node (k+1) (ixFold (fun c => toIndex S k c) (kidsOf S k d) 0).1
          (ixFold (fun c => toIndex S k c) (kidsOf S k d) 0).2 := by
  rw [toIndex_succ] at hc ⊢
  by_cases hz : d = .leaf false
  · rw [if_pos hz] at hc; exact absurd rfl hc
  · rw [if_neg hz] at hc ⊢
    by_cases h0 : (ixFold (fun c => toIndex S k c) (kidsOf S k d) 0).1 = 0
    · rw [if_pos h0] at hc; exact absurd rfl hc
    · rw [if_neg h0]

theorem getElem_node (k p c : Nat) (kids : List (Nat × IX)) (idx : Int) :
    getElem (k+1) (.node p c kids) idx =
      match pickBack idx (sparseFrom 0 kids).reverse with
      | none => none
      | some (i, off, ch) => (getElem k ch (idx - off)).map (fun r => (i :: r.1, r.2)) := by
  rw [getElem]

theorem getElem_spec_aux (S : Shape) (hS : ∀ p, S.mode p ≠ .ident) :
    ∀ (k : Nat) (d : DD Bool) (a : Assign) (idx : Int), 0 ≤ idx → count S k (memOf S k d a) ≠ 0 →
      (idx < (count S k (memOf S k d a) : Int) →
        ∃ ds, (members S k (memOf S k d a))[idx.toNat]? = some ds ∧
          getElem k (toIndex S k d).2 idx = some (ds, 0)) ∧
      ((count S k (memOf S k d a) : Int) ≤ idx →
        ∃ ds r, getElem k (toIndex S k d).2 idx = some (ds, r) ∧ idx - (count S k (memOf S k d a) : Int) < r) := by
  intro k
  induction k with
  | zero =>
    intro d a idx h0 hc
    have hle : count S 0 (memOf S 0 d a) ≤ 1 := by
      unfold count members
      simp only [lexAll]
      exact Nat.le_trans (List.length_filter_le _ _) (by simp)
    have h1 : count S 0 (memOf S 0 d a) = 1 := by omega
    have hm : members S 0 (memOf S 0 d a) = [[]] := by
      unfold count members at h1
      unfold members
      simp only [lexAll] at h1 ⊢
      by_cases hx : memOf S 0 d a [] = true
      · simp [List.filter, hx]
      · simp [List.filter, hx] at h1
    constructor
    · intro hlt
      have : idx = 0 := by omega
      subst this
      exact ⟨[], by rw [hm]; rfl, rfl⟩
    · intro hge
      exact ⟨[], idx, rfl, by omega⟩
  | succ k ih =>
    intro d a idx h0 hc
    have hfst := toIndex_fst S hS (k+1) d a
    have hnode := toIndex_node S k d (by rw [hfst]; exact hc)
    have htot := ixFold_total S hS k d a
    obtain ⟨_, hp2⟩ := pick_spec (fun c => toIndex S k c) (fun c => isBot_iff S k c) idx (kidsOf S k d) 0 0
      (by simpa using h0)
    obtain ⟨i, c, hi, hne, hp, ho, h3, h4⟩ := hp2 (by rw [Nat.zero_add, htot]; omega)
    simp only [Nat.zero_add, htot] at hp ho h3 h4
    -- the chosen child
    have hin : i < S.size (k+1) := by
      unfold kidsOf at hi
      rw [List.getElem?_map] at hi
      cases hr : (List.range (S.size (k+1)))[i]? with
      | none => rw [hr] at hi; cases hi
      | some x =>
        have := (List.getElem?_eq_some_iff.mp hr).1
        simpa using this
    have hc_eq : c = DD.subAt false k d i := by
      unfold kidsOf at hi
      rw [List.getElem?_map, List.getElem?_range hin] at hi
      simpa using hi.symm
    subst hc_eq
    have hoff : offAt (fun c => toIndex S k c) (kidsOf S k d) 0 i
        = ((List.range i).map (fun j => count S k (consMem (memOf S (k+1) d a) j))).sum := by
      unfold offAt kidsOf
      rw [Nat.zero_add, ← List.map_take, List.take_range, List.map_map, Nat.min_eq_left (Nat.le_of_lt hin)]
      congr 1
      apply List.map_congr_left
      intro j _
      show (toIndex S k (DD.subAt false k d j)).1 = _
      rw [consMem_memOf S hS]
      exact toIndex_fst S hS k _ _
    have hci : (toIndex S k (DD.subAt false k d i)).1
        = count S k (memOf S k (DD.subAt false k d i) (Assign.upd a (k+1) i)) := toIndex_fst S hS k _ _
    have hge : getElem (k+1) (toIndex S (k+1) d).2 idx =
        (getElem k (toIndex S k (DD.subAt false k d i)).2
          (idx - (offAt (fun c => toIndex S k c) (kidsOf S k d) 0 i : Int))).map (fun r => (i :: r.1, r.2)) := by
      rw [hnode, getElem_node, pickBack_eq, find_reverse, hp]
    obtain ⟨ih1, ih2⟩ := ih (DD.subAt false k d i) (Assign.upd a (k+1) i)
      (idx - (offAt (fun c => toIndex S k c) (kidsOf S k d) 0 i : Int)) (by omega) (by rw [← hci]; exact hne)
    constructor
    · intro hlt
      have h3' := h3 hlt
      obtain ⟨ds', hm', hg'⟩ := ih1 (by rw [← hci]; omega)
      refine ⟨i :: ds', ?_, by rw [hge, hg']; rfl⟩
      rw [members_succ]
      have hblock := getElem?_flatMap_block
        (fun j => (members S k (consMem (memOf S (k+1) d a) j)).map (fun ds => j :: ds))
        (List.range (S.size (k+1))) i
        (idx - (offAt (fun c => toIndex S k c) (kidsOf S k d) 0 i : Int)).toNat i
        (List.getElem?_range hin)
        (by
          rw [List.length_map]
          show _ < count S k (consMem (memOf S (k+1) d a) i)
          rw [consMem_memOf S hS, ← hci]
          omega)
      have hidx : idx.toNat = ((List.take i (List.range (S.size (k+1)))).map
          (fun y => ((members S k (consMem (memOf S (k+1) d a) y)).map (fun ds => y :: ds)).length)).sum
          + (idx - (offAt (fun c => toIndex S k c) (kidsOf S k d) 0 i : Int)).toNat := by
        rw [List.take_range, Nat.min_eq_left (Nat.le_of_lt hin)]
        have : (List.range i).map (fun y => ((members S k (consMem (memOf S (k+1) d a) y)).map (fun ds => y :: ds)).length)
            = (List.range i).map (fun j => count S k (consMem (memOf S (k+1) d a) j)) := by
          apply List.map_congr_left
          intro j _
          rw [List.length_map]; rfl
        rw [this, ← hoff]
        omega
      rw [hidx, hblock, List.getElem?_map, consMem_memOf S hS, hm']
      rfl
    · intro hge'
      have h4' := h4 hge'
      obtain ⟨ds', r', hg', hr'⟩ := ih2 (by rw [← hci]; omega)
      refine ⟨i :: ds', r', by rw [hge, hg']; rfl, ?_⟩
      rw [← hci] at hr'
      omega

theorem getElement_spec_aux (S : Shape) (hS : ∀ p, S.mode p ≠ .ident) (k : Nat) (d : DD Bool) (a : Assign)
    (idx : Int) :
    getElement (k+1) (toIndex S (k+1) d).2 idx = getElementSpec S (k+1) (memOf S (k+1) d a) idx := by
  unfold getElement getElementSpec
  by_cases hneg : idx < 0
  · rw [if_pos hneg, if_pos hneg]
  · rw [if_neg hneg, if_neg hneg]
    by_cases hc : count S (k+1) (memOf S (k+1) d a) = 0
    · have hbot : (toIndex S (k+1) d).2 = .bot :=
        toIndex_snd_bot S (k+1) d (by rw [toIndex_fst S hS (k+1) d a]; exact hc)
      rw [hbot]
      have : members S (k+1) (memOf S (k+1) d a) = [] := List.length_eq_zero_iff.mp hc
      rw [this]
      simp [getElem]
    · obtain ⟨h1, h2⟩ := getElem_spec_aux S hS (k+1) d a idx (by omega) hc
      by_cases hlt : idx < (count S (k+1) (memOf S (k+1) d a) : Int)
      · obtain ⟨ds, hm, hg⟩ := h1 hlt
        rw [hg, hm]
        simp
      · obtain ⟨ds, r, hg, hr⟩ := h2 (by omega)
        rw [hg]
        have hpos : r > 0 := by omega
        simp only [hpos, if_true]
        symm
        rw [List.getElem?_eq_none_iff]
        unfold count at hlt
        omega


/-! ## Property theorems -/

/-- Looking up the index of a member returns exactly that member: the member with index
    `rank ds` (the number of members lexicographically before `ds`) is `ds`. -/
theorem getElementSpec_rank (S : Shape) (k : Nat) (mem : List Nat → Bool) (ds : List Nat)
    (hds : ds ∈ lexAll S k) (hm : mem ds = true) :
    getElementSpec S k mem (rank S k mem ds : Nat) = some ds := by
  unfold getElementSpec rank
  have hmem : ds ∈ members S k mem := List.mem_filter.mpr ⟨hds, hm⟩
  have := sorted_get_count (members S k mem) (members_pairwise S k mem) ds hmem
  simpa using this

/-- `getElement` specification is the inverse of the index function: index `i` designates a member
    whose rank is `i`, and it fails exactly outside `0 … n-1` (in particular always for the empty set). -/
theorem getElementSpec_some (S : Shape) (k : Nat) (mem : List Nat → Bool) (i : Int) (ds : List Nat)
    (h : getElementSpec S k mem i = some ds) :
    0 ≤ i ∧ ds ∈ lexAll S k ∧ mem ds = true ∧ (rank S k mem ds : Int) = i := by
  unfold getElementSpec at h
  by_cases hi : i < 0
  · rw [if_pos hi] at h; cases h
  · rw [if_neg hi] at h
    have hmem : ds ∈ members S k mem := List.mem_of_getElem? h
    have hr := sorted_count_of_get (members S k mem) (members_pairwise S k mem) _ _ h
    obtain ⟨h1, h2⟩ := List.mem_filter.mp hmem
    refine ⟨by omega, h1, h2, ?_⟩
    unfold rank
    rw [hr]
    omega

theorem getElementSpec_none (S : Shape) (k : Nat) (mem : List Nat → Bool) (i : Int) :
    getElementSpec S k mem i = none ↔ (i < 0 ∨ (count S k mem : Int) ≤ i) := by
  unfold getElementSpec count
  by_cases hi : i < 0
  · simp [hi]
  · rw [if_neg hi, List.getElem?_eq_none_iff]
    constructor
    · intro h; right; omega
    · intro h
      rcases h with h | h
      · exact absurd h hi
      · omega

example :
    let S : Shape := { top := 2, size := fun p => if p = 2 then 3 else 2, mode := fun _ => .red }
    let mem : List Nat → Bool := fun ds => ds == [0, 1] || ds == [2, 0] || ds == [2, 1]
    (indexSpec S 2 mem [2, 0] = some 1 ∧ indexSpec S 2 mem [1, 0] = none ∧
     getElementSpec S 2 mem 1 = some [2, 0] ∧ getElementSpec S 2 mem 3 = none ∧
     getElementSpec S 2 mem (-1) = none ∧ getElementSpec S 2 (fun _ => false) 0 = none) := by decide

/-- CONVERT_TO_INDEX_SET yields a function that maps every member of the set to the number of
    members lexicographically before it and every non-member to +infinity (`none`), for fully- and
    quasi-reduced sources (no identity positions: sets). -/
theorem index_eval (S : Shape) (hS : ∀ p, S.mode p ≠ .ident) (k : Nat) (d : DD Bool) (a : Assign)
    (ds : List Nat) (hds : ds ∈ lexAll S k) :
    evalIX (toIndex S k d).2 ds =
      if DD.eval S false k d (withDigits a k ds) = true
      then some (rank S k (fun m => DD.eval S false k d (withDigits a k m)) ds) else none :=
  index_eval_aux S hS k d a ds hds

/-- The cardinality stored in the header of the result (and returned by the conversion) is the
    number of members of the set; every node below stores the sum of its children's headers. -/
theorem header_spec (S : Shape) (hS : ∀ p, S.mode p ≠ .ident) (k : Nat) (d : DD Bool) (a : Assign) :
    (toIndex S k d).2.hdr = count S k (fun m => DD.eval S false k d (withDigits a k m)) ∧
    (toIndex S k d).2.hdrOK k = true :=
  ⟨by rw [toIndex_hdr]; exact toIndex_fst S hS k d a, toIndex_hdrOK S k d⟩

example :
    let S : Shape := { top := 2, size := fun p => if p = 2 then 3 else 2, mode := fun _ => .red }
    -- the set {01, 20, 21} (fully reduced source: child 2 of the root skips position 1)
    let d : DD Bool := .node 2 [.node 1 [.leaf false, .leaf true], .leaf false, .leaf true]
    ((lexAll S 2).map (evalIX (toIndex S 2 d).2) = [none, some 0, none, none, some 1, some 2] ∧
     (toIndex S 2 d).2.hdr = 3) := by decide

/-- `getElement(i)` on the index set built by CONVERT_TO_INDEX_SET returns exactly the member with
    index `i` (the `i`-th member in lexicographic order) and fails for every `i` outside `0 … n-1`,
    including on the empty set (where the real code crashes instead: finding F2).  Forests have at
    least one variable (`k+1`). -/
theorem getElement_spec (S : Shape) (hS : ∀ p, S.mode p ≠ .ident) (k : Nat) (d : DD Bool) (a : Assign)
    (idx : Int) :
    getElement (k+1) (toIndex S (k+1) d).2 idx =
      getElementSpec S (k+1) (fun m => DD.eval S false (k+1) d (withDigits a (k+1) m)) idx :=
  getElement_spec_aux S hS k d a idx

example :
    let S : Shape := { top := 2, size := fun p => if p = 2 then 3 else 2, mode := fun _ => .red }
    let d : DD Bool := .node 2 [.node 1 [.leaf false, .leaf true], .leaf false, .leaf true]
    (([-1, 0, 1, 2, 3] : List Int).map (fun i => getElement 2 (toIndex S 2 d).2 i)
        = [none, some [0, 1], some [2, 0], some [2, 1], none] ∧
     getElement 2 (toIndex S 2 (.leaf false)).2 0 = none) := by decide

end IndexSet
end Meddly

/-
  #print axioms (lake env lean, Lean 4.33.0):
  'Meddly.IndexSet.getElementSpec_rank' depends on axioms: [propext, Classical.choice, Quot.sound]
  'Meddly.IndexSet.getElementSpec_some' depends on axioms: [propext, Classical.choice, Quot.sound]
  'Meddly.IndexSet.getElementSpec_none' depends on axioms: [propext, Quot.sound]
  'Meddly.IndexSet.index_eval' depends on axioms: [propext, Classical.choice, Quot.sound]
  'Meddly.IndexSet.header_spec' depends on axioms: [propext, Classical.choice, Quot.sound]
  'Meddly.IndexSet.getElement_spec' depends on axioms: [propext, Classical.choice, Quot.sound]
-/
