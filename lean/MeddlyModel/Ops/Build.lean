/-
  Layer 2: the function *builders* of MEDDLY on decision-diagram trees (C03).

    minterm::buildFunction            (minterms.cc: setPathToBottom / relPathToBottom)
    minterm_coll::buildFunctionMax    (minterms.cc: fbuilder<OP>::createEdgeSet / createEdgeRel,
    minterm_coll::buildFunctionMin     the recursive partition of the collection)
    forest::createConstant            (forest.h)
    forest::createEdgeForVar          (forest.cc)

  Trees are built exactly the way the code builds nodes: a node is assembled from
  children and handed to `mkNode` (= `forest::createReducedNode`, Ops/Apply.lean); the
  "union the don't-care branch in" step is the element-wise `apply2 op` (= the
  MAXIMUM / MINIMUM / UNION / INTERSECTION operation the builder calls).

  A tree below a primed position of an identity-reduced forest depends on the index
  through which it is entered (`createReducedNode(…, in)`, `redirectSingleton`, the
  `check_singleton` branch of `_makeRedundantsTo`); so every builder yields a *family*
  `Fam α = Option Nat → DD α` (incoming index ↦ tree), as `apply2` does.

  Main results (end of file): the built trees are reduced, evaluate to the builder's
  *semantic recursion* (`semSet`, `semRel`: unconditional, this is what the code computes
  also outside the documented contract), and under the documented contract
  (`Spec.defaultOK`) to the specification `Spec.specColl`.
-/
import MeddlyModel.Core.DD
import MeddlyModel.Core.Canon
import MeddlyModel.Ops.Apply
import MeddlyModel.Ops.ApplyProofs
import MeddlyModel.Spec.Minterms

namespace Meddly
namespace Build
open DD Spec

set_option linter.unusedSectionVars false
set_option linter.unusedVariables false
set_option linter.unusedSimpArgs false

variable {α : Type} [DecidableEq α]

/-- a tree as a function of the index through which it is entered -/
abbrev Fam (α : Type) := Option Nat → DD α

section Combinators
variable (S : Shape) (zero : α)

/-- a node at position `k+1` whose child `i` is `ch i` (entered through index `i`),
    passed through `createReducedNode` -/
def nodeF (k : Nat) (ch : Nat → Fam α) : Fam α := fun fi =>
  mkNode S zero (k+1) fi ((List.range (S.size (k+1))).map fun i => ch i (some i))

/-- `makeRedundantsTo(t, k, k+1)`: a redundant node at position `k+1` above `t` -/
def redF (k : Nat) (t : Fam α) : Fam α := nodeF S zero k (fun _ => t)

/-- the element-wise operation the builder uses to accumulate (`union_op->compute`) -/
def opF (op : α → α → α) (k : Nat) (t1 t2 : Fam α) : Fam α := fun fi =>
  apply2 S S S zero zero zero op k fi (t1 fi) (t2 fi)

/-- the constant function `v` from position `k` down (`dp_unp[k]` / `dp_pri[k]` of
    `fbuilder_forest`, `createConstant`) -/
def constF (v : α) : Nat → Fam α
  | 0 => fun _ => .leaf v
  | k+1 => redF S zero k (constF v k)

/-- `t` (read from position `k`) is below `k`, reduced, and denotes `g`. -/
structure Good (k : Nat) (t : Fam α) (g : Assign → α) : Prop where
  below : ∀ fi, Below k (t fi)
  red : ∀ fi, (fi = none → S.mode k ≠ .ident) → Red S zero k fi (t fi) = true
  eval : ∀ fi x, Assign.Valid S x → (S.mode k = .ident → fi = some (x (k+1))) →
    eval S zero k (t fi) x = g x

variable {S zero}

theorem Good.leaf (v : α) : Good S zero 0 (fun _ => .leaf v) (fun _ => v) :=
  ⟨fun _ => Below_leaf _ _, fun _ _ => rfl, fun _ _ _ _ => rfl⟩

theorem Good.congr {k : Nat} {t : Fam α} {g g' : Assign → α} (h : Good S zero k t g)
    (hg : ∀ x, Assign.Valid S x → g x = g' x) : Good S zero k t g' :=
  ⟨h.below, h.red, fun fi x hx hf => (h.eval fi x hx hf).trans (hg x hx)⟩

theorem Good.node (hS : S.WF) {k : Nat} (hk : k+1 ≤ S.top) {ch : Nat → Fam α}
    {g : Nat → Assign → α} (h : ∀ i, i < S.size (k+1) → Good S zero k (ch i) (g i)) :
    Good S zero (k+1) (nodeF S zero k ch) (fun x => g (x (k+1)) x) := by
  have hb : ∀ c, c ∈ ((List.range (S.size (k+1))).map fun i => ch i (some i)) → Below k c := by
    intro c hc
    obtain ⟨i, hi, rfl⟩ := List.mem_map.mp hc
    exact (h i (List.mem_range.mp hi)).below _
  refine ⟨fun fi => mkNode_Below S zero k fi _ hb, ?_, ?_⟩
  · intro fi hfi
    refine mkNode_red S zero hS k fi _ (length_map_range _ _) ?_ hfi
    intro i hi
    rw [length_map_range] at hi
    rw [getD_map_range _ _ _ hi]
    exact (h i hi).red (some i) (fun e => by cases e)
  · intro fi x hx hfi
    have hxk : x (k+1) < S.size (k+1) := hx (k+1) (by omega) hk
    show DD.eval S zero (k+1) (mkNode S zero (k+1) fi _) x = _
    rw [mkNode_eval S zero k fi _ x hk (length_map_range _ _) hx hb hfi, getD_map_range _ _ _ hxk]
    exact (h _ hxk).eval (some (x (k+1))) x hx (fun _ => rfl)

theorem Good.red1 (hS : S.WF) {k : Nat} (hk : k+1 ≤ S.top) {t : Fam α} {g : Assign → α}
    (h : Good S zero k t g) : Good S zero (k+1) (redF S zero k t) g :=
  Good.node (g := fun _ => g) hS hk (fun _ _ => h)

theorem Good.op (hS : S.WF) (op : α → α → α) {k : Nat} (hk : k ≤ S.top) {t1 t2 : Fam α}
    {g1 g2 : Assign → α} (h1 : Good S zero k t1 g1) (h2 : Good S zero k t2 g2) :
    Good S zero k (opF S zero op k t1 t2) (fun x => op (g1 x) (g2 x)) := by
  refine ⟨fun fi => (apply2_Below_WFTree S S S zero zero zero op k fi _ _).1,
    fun fi hfi => apply2_red S S S zero zero zero op hS k fi _ _ hfi, ?_⟩
  intro fi x hx hfi
  show DD.eval S zero k (apply2 S S S zero zero zero op k fi (t1 fi) (t2 fi)) x = _
  rw [apply2_eval S S S zero zero zero op k fi _ _ x hk hx hfi hfi hfi,
    h1.eval fi x hx hfi, h2.eval fi x hx hfi]

theorem Good.const (hS : S.WF) (v : α) : ∀ k, k ≤ S.top → Good S zero k (constF S zero v k) (fun _ => v)
  | 0, _ => Good.leaf v
  | k+1, hk => Good.red1 hS hk (Good.const hS v k (by omega))

/-- a node with one distinguished child (`newSetNode` + `addToNode`) -/
theorem Good.ite_node (hS : S.WF) {k : Nat} (hk : k+1 ≤ S.top) (i0 : Nat) {t u : Fam α}
    {g h : Assign → α} (ht : Good S zero k t g) (hu : Good S zero k u h) :
    Good S zero (k+1) (nodeF S zero k (fun i => if i = i0 then t else u))
      (fun x => if x (k+1) = i0 then g x else h x) := by
  have := Good.node (S := S) (zero := zero) hS hk (ch := fun i => if i = i0 then t else u)
    (g := fun i => if i = i0 then g else h)
    (fun i _ => by by_cases e : i = i0 <;> simp [e, ht, hu])
  refine this.congr (fun x _ => ?_)
  by_cases e : x (k+1) = i0 <;> simp [e]

end Combinators

/-! ## The algebra of accumulation

`big op dflt ms c` = `dflt op c(m₁) op c(m₂) op …` — the value the builder accumulates when
every minterm `m` contributes `c m`. -/
section Big
variable (op : α → α → α) (dflt : α)

def bigFrom (acc : α) (ms : List (Minterm α)) (c : Minterm α → α) : α :=
  ms.foldl (fun acc m => op acc (c m)) acc

def big (ms : List (Minterm α)) (c : Minterm α → α) : α := bigFrom op dflt ms c

variable {op dflt}

theorem bigFrom_op (hL : SemiLat op) (x acc : α) (ms : List (Minterm α)) (c : Minterm α → α) :
    bigFrom op (op x acc) ms c = op x (bigFrom op acc ms c) := by
  induction ms generalizing acc with
  | nil => rfl
  | cons m r ih =>
    show bigFrom op (op (op x acc) (c m)) r c = op x (bigFrom op (op acc (c m)) r c)
    rw [hL.assoc, ih]

theorem big_absorb (hL : SemiLat op) (ms : List (Minterm α)) (c : Minterm α → α) :
    op dflt (big op dflt ms c) = big op dflt ms c := by
  unfold big
  rw [← bigFrom_op hL, hL.idem]

theorem big_absorb' (hL : SemiLat op) (ms : List (Minterm α)) (c : Minterm α → α) :
    op (big op dflt ms c) dflt = big op dflt ms c := by
  rw [hL.comm, big_absorb hL]

theorem big_nil (c : Minterm α → α) : big op dflt [] c = dflt := rfl

theorem big_congr {ms : List (Minterm α)} {c c' : Minterm α → α} (h : ∀ m, m ∈ ms → c m = c' m) :
    big op dflt ms c = big op dflt ms c' := by
  unfold big
  generalize dflt = acc
  induction ms generalizing acc with
  | nil => rfl
  | cons m r ih =>
    show bigFrom op (op acc (c m)) r c = bigFrom op (op acc (c' m)) r c'
    rw [h m (List.mem_cons_self ..)]
    exact ih (fun m' hm' => h m' (List.mem_cons_of_mem _ hm')) _

theorem big_const (hL : SemiLat op) (ms : List (Minterm α)) : big op dflt ms (fun _ => dflt) = dflt := by
  unfold big
  induction ms with
  | nil => rfl
  | cons m r ih =>
    show bigFrom op (op dflt dflt) r _ = dflt
    rw [hL.idem]; exact ih

theorem big_filter (hL : SemiLat op) (ms : List (Minterm α)) (q : Minterm α → Bool) (c : Minterm α → α) :
    big op dflt (ms.filter q) c = big op dflt ms (fun m => if q m then c m else dflt) := by
  unfold big
  have key : ∀ acc, op acc dflt = acc →
      bigFrom op acc (ms.filter q) c = bigFrom op acc ms (fun m => if q m then c m else dflt) := by
    induction ms with
    | nil => intro _ _; rfl
    | cons m r ih =>
      intro acc hacc
      by_cases hq : q m = true
      · rw [List.filter_cons_of_pos hq]
        show bigFrom op (op acc (c m)) _ c = bigFrom op (op acc (if q m = true then c m else dflt)) r _
        rw [if_pos hq]
        apply ih
        rw [hL.assoc, hL.comm (c m), ← hL.assoc, hacc]
      · rw [List.filter_cons_of_neg hq]
        show _ = bigFrom op (op acc (if q m = true then c m else dflt)) r _
        rw [if_neg hq, hacc]
        exact ih acc hacc
  exact key dflt (hL.idem dflt)

theorem big_op (hL : SemiLat op) (ms : List (Minterm α)) (f g : Minterm α → α) :
    op (big op dflt ms f) (big op dflt ms g) = big op dflt ms (fun m => op (f m) (g m)) := by
  unfold big
  have key : ∀ a b, op (bigFrom op a ms f) (bigFrom op b ms g)
      = bigFrom op (op a b) ms (fun m => op (f m) (g m)) := by
    induction ms with
    | nil => intro _ _; rfl
    | cons m r ih =>
      intro a b
      show op (bigFrom op (op a (f m)) r f) (bigFrom op (op b (g m)) r g)
        = bigFrom op (op (op a b) (op (f m) (g m))) r _
      rw [ih]
      congr 1
      rw [hL.assoc, hL.assoc, ← hL.assoc (f m), hL.comm (f m) b, hL.assoc b]
  rw [key, hL.idem]

theorem big_isEmpty (ms : List (Minterm α)) (c : Minterm α → α) :
    (if ms.isEmpty then dflt else big op dflt ms c) = big op dflt ms c := by
  cases ms <;> rfl

theorem big_single (hL : SemiLat op) (m : Minterm α) (c : Minterm α → α) (h : op dflt (c m) = c m) :
    big op dflt [m] c = c m := h

/-- under the contract, "`op` over a non-empty list, default for the empty one" is `big` -/
theorem foldOpt_eq_big (l : List (Minterm α)) (h : defaultOK op dflt l) :
    (foldOpt op (l.map (·.val))).getD dflt = big op dflt l (·.val) := by
  cases l with
  | nil => rfl
  | cons m r =>
    show (r.map (·.val)).foldl op m.val = bigFrom op (op dflt m.val) r _
    rw [h m (List.mem_cons_self ..), List.foldl_map]
    rfl

end Big

/-- contribution of minterm `m` at assignment `a`, looking at positions `1..k` only -/
def cK (dflt : α) (a : Assign) (k : Nat) (m : Minterm α) : α :=
  if matchesUpTo m a k then m.val else dflt

theorem cK_neutral {op : α → α → α} {dflt : α} (hL : SemiLat op) (a : Assign) (k : Nat) (m : Minterm α)
    (h : op dflt m.val = m.val) : op dflt (cK dflt a k m) = cK dflt a k m := by
  unfold cK; split
  · exact h
  · exact hL.idem _

theorem cK_neutral' {op : α → α → α} {dflt : α} (hL : SemiLat op) (a : Assign) (k : Nat) (m : Minterm α)
    (h : op dflt m.val = m.val) : op (cK dflt a k m) dflt = cK dflt a k m := by
  rw [hL.comm]; exact cK_neutral hL a k m h

/-- the specification in accumulated form (under the contract) -/
theorem specColl_eq_big {op : α → α → α} {dflt : α} (hL : SemiLat op) (top : Nat) (ms : List (Minterm α))
    (h : defaultOK op dflt ms) (a : Assign) :
    specColl op top ms dflt a = big op dflt ms (cK dflt a top) := by
  unfold specColl
  rw [foldOpt_eq_big _ (fun m hm => h m (List.mem_filter.mp hm).1), big_filter hL]
  rfl

theorem defaultOK_filter {op : α → α → α} {dflt : α} {ms : List (Minterm α)} (h : defaultOK op dflt ms)
    (q : Minterm α → Bool) : defaultOK op dflt (ms.filter q) :=
  fun m hm => h m (List.mem_filter.mp hm).1

/-! ## Sets: `setPathToBottom`, `createEdgeSet` -/

/-- entry is not a fixed value (sets: `DONT_CARE`) -/
def notFixE : Entry → Bool
  | .fixed _ => false
  | _ => true

theorem _root_.Meddly.Spec.Entry.cases3 (e : Entry) :
    (∃ v, e = .fixed v) ∨ e = .dontCare ∨ e = .dontChange := by
  cases e with
  | fixed v => exact .inl ⟨v, rfl⟩
  | dontCare => exact .inr (.inl rfl)
  | dontChange => exact .inr (.inr rfl)

def isDCs (p : Nat) (m : Minterm α) : Bool := notFixE (m.at p)
def isFix (p i : Nat) (m : Minterm α) : Bool := m.at p == .fixed i

/-- `OP::finalize`: the terminal value for the minterms that reached the bottom -/
def finalize (op : α → α → α) (dflt : α) (ms : List (Minterm α)) : α :=
  (foldOpt op (ms.map (·.val))).getD dflt

section SetBuilder
variable (S : Shape) (zero : α) (op : α → α → α) (dflt : α)

/-- `fbuilder_forest::setPathToBottom` (also `minterm::buildFunction` for sets): bottom-up, a
    redundant node for `DONT_CARE`, otherwise a node whose other children are the default. -/
def pathSet (m : Minterm α) : Nat → Fam α
  | 0 => fun _ => .leaf m.val
  | k+1 =>
    match m.at (k+1) with
    | .fixed v => nodeF S zero k (fun i => if i = v then pathSet m k else constF S zero dflt k)
    | _ => redF S zero k (pathSet m k)

/-- `fbuilder<OP>::createEdgeSet(L, low, high)` on the sub-collection `ms`:
      L = 0: finalize;
      all entries at L are DONT_CARE: recurse, add a redundant node;
      otherwise: node whose child `v` is the recursion on the minterms with entry `v` (default
      where there is none), accumulated (`union_op`) with the redundant node above the recursion
      on the DONT_CARE minterms.
    (The code's shortcut for a single remaining minterm, `setPathToBottom`, builds the same tree:
    `buildSet_single`.) -/
def buildSet : Nat → List (Minterm α) → Fam α
  | 0, ms => fun _ => .leaf (finalize op dflt ms)
  | k+1, ms =>
    if ms.all (isDCs (k+1)) then redF S zero k (buildSet k ms)
    else
      let expl : Fam α := nodeF S zero k (fun i =>
        if (ms.filter (isFix (k+1) i)).isEmpty then constF S zero dflt k
        else buildSet k (ms.filter (isFix (k+1) i)))
      if (ms.filter (isDCs (k+1))).isEmpty then expl
      else opF S zero op (k+1) (redF S zero k (buildSet k (ms.filter (isDCs (k+1))))) expl

/-- the function `buildSet` computes, written as a recursion on assignments -/
def semSet : Nat → List (Minterm α) → Assign → α
  | 0, ms, _ => finalize op dflt ms
  | k+1, ms, a =>
    if ms.all (isDCs (k+1)) then semSet k ms a
    else
      let e := if (ms.filter (isFix (k+1) (a (k+1)))).isEmpty then dflt
               else semSet k (ms.filter (isFix (k+1) (a (k+1)))) a
      if (ms.filter (isDCs (k+1))).isEmpty then e
      else op (semSet k (ms.filter (isDCs (k+1))) a) e

variable {S zero op dflt}

theorem pathSet_good (hS : S.WF) (m : Minterm α) (hm : SetLegal m) :
    ∀ k, k ≤ S.top → Good S zero k (pathSet S zero dflt m k) (fun x => cK dflt x k m)
  | 0, _ => (Good.leaf m.val).congr (fun _ _ => rfl)
  | k+1, hk => by
    have ih := pathSet_good hS m hm k (by omega)
    unfold pathSet
    cases he : m.at (k+1) with
    | fixed v =>
      refine (Good.ite_node hS hk v ih (Good.const hS dflt k (by omega))).congr (fun x _ => ?_)
      simp only [cK, matchesUpTo, he, entryOK]
      by_cases e : x (k+1) = v <;> simp [e]
    | dontCare =>
      refine (Good.red1 hS hk ih).congr (fun x _ => ?_)
      simp [cK, matchesUpTo, he, entryOK]
    | dontChange => exact absurd he (hm _)

theorem buildSet_good (hS : S.WF) :
    ∀ k, k ≤ S.top → ∀ ms : List (Minterm α),
      Good S zero k (buildSet S zero op dflt k ms) (semSet op dflt k ms)
  | 0, _, ms => (Good.leaf _).congr (fun _ _ => rfl)
  | k+1, hk, ms => by
    have ih := buildSet_good hS k (by omega)
    unfold buildSet
    by_cases hall : ms.all (isDCs (k+1)) = true
    · rw [if_pos hall]
      refine (Good.red1 hS hk (ih ms)).congr (fun x _ => ?_)
      rw [semSet, if_pos hall]
    · rw [if_neg hall]
      have hexpl := Good.node (S := S) (zero := zero) hS hk
        (ch := fun i => if (ms.filter (isFix (k+1) i)).isEmpty then constF S zero dflt k
          else buildSet S zero op dflt k (ms.filter (isFix (k+1) i)))
        (g := fun i x => if (ms.filter (isFix (k+1) i)).isEmpty then dflt
          else semSet op dflt k (ms.filter (isFix (k+1) i)) x)
        (fun i _ => by
          by_cases e : (ms.filter (isFix (k+1) i)).isEmpty = true
          · simp only [e, if_true]; exact Good.const hS dflt k (by omega)
          · simp only [e]; exact ih _)
      by_cases hdc : (ms.filter (isDCs (k+1))).isEmpty = true
      · simp only [hdc, if_true]
        refine hexpl.congr (fun x _ => ?_)
        rw [semSet, if_neg hall]; simp only [hdc, if_true]
      · simp only [hdc]
        refine (Good.op hS op hk (Good.red1 hS hk (ih _)) hexpl).congr (fun x _ => ?_)
        rw [semSet, if_neg hall]; simp only [hdc]; rfl

/-- under the contract the semantic recursion is the specification (accumulated form) -/
theorem semSet_eq_big (hL : SemiLat op) (a : Assign) :
    ∀ (k : Nat) (ms : List (Minterm α)), defaultOK op dflt ms → (∀ m, m ∈ ms → SetLegal m) →
      semSet op dflt k ms a = big op dflt ms (cK dflt a k)
  | 0, ms, hd, _ => by
    rw [semSet, finalize, foldOpt_eq_big _ hd]
    exact big_congr (fun m _ => by simp [cK, matchesUpTo])
  | k+1, ms, hd, hl => by
    have ih := semSet_eq_big hL a k
    rw [semSet]
    by_cases hall : ms.all (isDCs (k+1)) = true
    · rw [if_pos hall, ih ms hd hl]
      apply big_congr
      intro m hm
      have h1 : isDCs (k+1) m = true := List.all_eq_true.mp hall m hm
      have h2 := hl m hm (k+1)
      unfold isDCs at h1
      simp only [cK, matchesUpTo]
      rcases Entry.cases3 (m.at (k+1)) with ⟨v, he⟩ | he | he
      · rw [he] at h1; cases h1
      · simp [he, entryOK]
      · exact absurd he h2
    · rw [if_neg hall]
      have hf : ∀ q : Minterm α → Bool,
          (if (ms.filter q).isEmpty then dflt else semSet op dflt k (ms.filter q) a)
            = big op dflt ms (fun m => if q m then cK dflt a k m else dflt) := by
        intro q
        rw [ih _ (defaultOK_filter hd q) (fun m hm => hl m (List.mem_filter.mp hm).1),
          big_isEmpty, big_filter hL]
      have hdc : (if (ms.filter (isDCs (k+1))).isEmpty = true then
            (if (ms.filter (isFix (k+1) (a (k+1)))).isEmpty then dflt
              else semSet op dflt k (ms.filter (isFix (k+1) (a (k+1)))) a)
          else op (semSet op dflt k (ms.filter (isDCs (k+1))) a)
            (if (ms.filter (isFix (k+1) (a (k+1)))).isEmpty then dflt
              else semSet op dflt k (ms.filter (isFix (k+1) (a (k+1)))) a))
          = op (big op dflt ms (fun m => if isDCs (k+1) m then cK dflt a k m else dflt))
              (big op dflt ms (fun m => if isFix (k+1) (a (k+1)) m then cK dflt a k m else dflt)) := by
        rw [hf]
        by_cases e : (ms.filter (isDCs (k+1))).isEmpty = true
        · rw [if_pos e, ← big_filter hL ms (isDCs (k+1)), List.isEmpty_iff.mp e, big_nil, big_absorb hL]
        · rw [if_neg e, ih _ (defaultOK_filter hd _) (fun m hm => hl m (List.mem_filter.mp hm).1),
            big_filter hL]
      show (if (ms.filter (isDCs (k+1))).isEmpty = true then _ else _) = _
      rw [hdc, big_op hL]
      apply big_congr
      intro m hm
      have hn := cK_neutral hL a k m (hd m hm)
      have hn' := cK_neutral' hL a k m (hd m hm)
      have h2 := hl m hm (k+1)
      simp only [isDCs, isFix, cK, matchesUpTo] at hn hn' ⊢
      rcases Entry.cases3 (m.at (k+1)) with ⟨v, he⟩ | he | he
      · by_cases e : a (k+1) = v
        · simp [he, entryOK, notFixE, e, hn]
        · have e' : ¬ v = a (k+1) := fun h => e h.symm
          simp [he, entryOK, notFixE, e, e', hL.idem]
      · simp [he, entryOK, notFixE, hn']
      · exact absurd he h2

/-- The code's shortcut "only one minterm left → `setPathToBottom`" builds exactly the tree the
    general recursion builds for a one-element collection (so `buildSet` needs no such case). -/
theorem buildSet_single (m : Minterm α) :
    ∀ k, buildSet S zero op dflt k [m] = pathSet S zero dflt m k
  | 0 => rfl
  | k+1 => by
    have ih := buildSet_single m k
    unfold buildSet pathSet
    rcases Entry.cases3 (m.at (k+1)) with ⟨v, he⟩ | he | he
    · have hall : ([m].all (isDCs (k+1))) = false := by simp [isDCs, he, notFixE]
      have hdc : ([m].filter (isDCs (k+1))) = [] := by simp [isDCs, he, notFixE]
      simp only [hall, hdc, he, List.isEmpty_nil, if_true, Bool.false_eq_true, if_false]
      congr 1
      funext i
      by_cases e : i = v
      · subst e
        have : [m].filter (isFix (k+1) i) = [m] := by simp [isFix, he]
        simp only [this, if_true, List.isEmpty_cons, Bool.false_eq_true, if_false]
        exact ih
      · have e' : ¬ v = i := fun h => e h.symm
        have : [m].filter (isFix (k+1) i) = [] := by simp [isFix, he, e']
        simp only [this, List.isEmpty_nil, if_true, e, if_false]
    · have hall : ([m].all (isDCs (k+1))) = true := by simp [isDCs, he, notFixE]
      simp only [hall, if_true, he]
      rw [ih]
    · have hall : ([m].all (isDCs (k+1))) = true := by simp [isDCs, he, notFixE]
      simp only [hall, if_true, he]
      rw [ih]

end SetBuilder

/-! ## Relations: `relPathToBottom`, `identityPattern`, `createEdgeRel`

Variable `k+1` (k = 0, 1, …) has its unprimed position at `2k+2` and its primed position at
`2k+1`; the recursion below is on the variable. -/

def uDC (k : Nat) (m : Minterm α) : Bool := notFixE (m.at (2*k+2))
def uFix (k i : Nat) (m : Minterm α) : Bool := m.at (2*k+2) == .fixed i
def pChg (k : Nat) (m : Minterm α) : Bool := m.at (2*k+1) == .dontChange
def pDC (k : Nat) (m : Minterm α) : Bool := m.at (2*k+1) == .dontCare
def pFix (k j : Nat) (m : Minterm α) : Bool := m.at (2*k+1) == .fixed j

section RelBuilder
variable (S : Shape) (zero : α) (op : α → α → α) (dflt : α)

/-- `fbuilder_forest::identityPattern(k+1, …)` above `low`: the diagonal continues to `low`, every
    off-diagonal entry is the default.  (With a transparent default this is
    `makeIdentitiesTo`; in an identity-reduced forest `mkNode` then stores nothing.) -/
def identF (k : Nat) (low : Fam α) : Fam α :=
  nodeF S zero (2*k+1) (fun i =>
    nodeF S zero (2*k) (fun j => if j = i then low else constF S zero dflt (2*k)))

/-- `fbuilder_forest::relPathToBottom` (general case; the identity-reduced/zero-default special
    case builds the same reduced tree): per variable, `DONT_CHANGE` → identity pattern; else the
    primed node (redundant for `DONT_CARE`), then the unprimed node. -/
def pathRel (m : Minterm α) : Nat → Fam α
  | 0 => fun _ => .leaf m.val
  | k+1 =>
    match m.at (2*k+1) with
    | .dontChange => identF S zero dflt k (pathRel m k)
    | p =>
      let prT : Fam α :=
        match p with
        | .fixed j0 => nodeF S zero (2*k) (fun j => if j = j0 then pathRel m k else constF S zero dflt (2*k))
        | _ => redF S zero (2*k) (pathRel m k)
      match m.at (2*k+2) with
      | .fixed i0 => nodeF S zero (2*k+1) (fun i => if i = i0 then prT else constF S zero dflt (2*k+1))
      | _ => redF S zero (2*k+1) prT

/-- the primed node `Cp` of `createEdgeRel`: child `j` = recursion on `grp j`, default if empty -/
def cpF (k : Nat) (rec : List (Minterm α) → Fam α) (grp : Nat → List (Minterm α)) : Fam α :=
  nodeF S zero (2*k) (fun j => if (grp j).isEmpty then constF S zero dflt (2*k) else rec (grp j))

/-- One level of `fbuilder<OP>::createEdgeRel` (variable `k+1`) given the recursion `rec` for
    the variables below:
      * all pairs (DONT_CARE, DONT_CARE): recurse, two redundant nodes;
      * all pairs (DONT_CARE, DONT_CHANGE): recurse, identity pattern;
      * otherwise, with the pairs in the order (x,c) < (x,x) < (x,j) < (i,x) < (i,j):
        for every unprimed value `i` that occurs, the primed node `Cp` (children `j` from the
        (i,j) groups) accumulated with the redundant node above the (i,x) group — child `i` of
        `Cu`; if unprimed DONT_CARE occurs, the "unprimed extra" function accumulates the
        identity pattern above the (x,c) group, the redundant nodes above the (x,x) group and
        the redundant node above the `Cp` of the (x,j) groups (that `Cp` is closed and
        accumulated even when it is empty, i.e. all default); finally `Cu` and the extra
        function are accumulated. -/
def relStep (k : Nat) (rec : List (Minterm α) → Fam α) (ms : List (Minterm α)) : Fam α :=
  if ms.all (fun m => uDC k m && pDC k m) then redF S zero (2*k+1) (redF S zero (2*k) (rec ms))
  else if ms.all (fun m => uDC k m && pChg k m) then identF S zero dflt k (rec ms)
  else
    let cu : Fam α := nodeF S zero (2*k+1) (fun i =>
      let gi := ms.filter (uFix k i)
      if gi.isEmpty then constF S zero dflt (2*k+1)
      else
        let cp := cpF S zero dflt k rec (fun j => gi.filter (pFix k j))
        if (gi.filter (pDC k)).isEmpty then cp
        else opF S zero op (2*k+1) (redF S zero (2*k) (rec (gi.filter (pDC k)))) cp)
    let gx := ms.filter (uDC k)
    if gx.isEmpty then cu
    else
      let x0 : Fam α := redF S zero (2*k+1) (cpF S zero dflt k rec (fun j => gx.filter (pFix k j)))
      let x1 : Fam α := if (gx.filter (pDC k)).isEmpty then x0
        else opF S zero op (2*k+2) (redF S zero (2*k+1) (redF S zero (2*k) (rec (gx.filter (pDC k))))) x0
      let x2 : Fam α := if (gx.filter (pChg k)).isEmpty then x1
        else opF S zero op (2*k+2) (identF S zero dflt k (rec (gx.filter (pChg k)))) x1
      opF S zero op (2*k+2) x2 cu

/-- `fbuilder<OP>::createEdgeRel(L, low, high)` on the sub-collection `ms` -/
def buildRel : Nat → List (Minterm α) → Fam α
  | 0, ms => fun _ => .leaf (finalize op dflt ms)
  | k+1, ms =>
    match ms with
    | [m] => pathRel S zero dflt m (k+1)        -- "only one minterm left"
    | _ => relStep S zero op dflt k (buildRel k) ms

/-- semantics of a single minterm path (code view): per variable -/
def pathRelSem (m : Minterm α) : Nat → Assign → α
  | 0, _ => m.val
  | k+1, a =>
    match m.at (2*k+1) with
    | .dontChange => if a (2*k+1) = a (2*k+2) then pathRelSem m k a else dflt
    | p =>
      let prV : α :=
        match p with
        | .fixed j0 => if a (2*k+1) = j0 then pathRelSem m k a else dflt
        | _ => pathRelSem m k a
      match m.at (2*k+2) with
      | .fixed i0 => if a (2*k+2) = i0 then prV else dflt
      | _ => prV

def cpS (k : Nat) (recS : List (Minterm α) → Assign → α) (grp : Nat → List (Minterm α)) (a : Assign) : α :=
  if (grp (a (2*k+1))).isEmpty then dflt else recS (grp (a (2*k+1))) a

/-- the function `relStep` computes -/
def relStepSem (k : Nat) (recS : List (Minterm α) → Assign → α) (ms : List (Minterm α)) (a : Assign) : α :=
  if ms.all (fun m => uDC k m && pDC k m) then recS ms a
  else if ms.all (fun m => uDC k m && pChg k m) then
    (if a (2*k+1) = a (2*k+2) then recS ms a else dflt)
  else
    let gi := ms.filter (uFix k (a (2*k+2)))
    let e : α :=
      if gi.isEmpty then dflt
      else
        let cp := cpS dflt k recS (fun j => gi.filter (pFix k j)) a
        if (gi.filter (pDC k)).isEmpty then cp else op (recS (gi.filter (pDC k)) a) cp
    let gx := ms.filter (uDC k)
    if gx.isEmpty then e
    else
      let x0 := cpS dflt k recS (fun j => gx.filter (pFix k j)) a
      let x1 := if (gx.filter (pDC k)).isEmpty then x0 else op (recS (gx.filter (pDC k)) a) x0
      let x2 := if (gx.filter (pChg k)).isEmpty then x1
        else op (if a (2*k+1) = a (2*k+2) then recS (gx.filter (pChg k)) a else dflt) x1
      op x2 e

/-- the function `buildRel` computes, written as a recursion on assignments -/
def semRel : Nat → List (Minterm α) → Assign → α
  | 0, ms, _ => finalize op dflt ms
  | k+1, ms, a =>
    match ms with
    | [m] => pathRelSem dflt m (k+1) a
    | _ => relStepSem op dflt k (semRel k) ms a

variable {S zero op dflt}

theorem identF_good (hS : S.WF) {k : Nat} (hk : 2*k+2 ≤ S.top) {low : Fam α} {g : Assign → α}
    (h : Good S zero (2*k) low g) :
    Good S zero (2*k+2) (identF S zero dflt k low)
      (fun x => if x (2*k+1) = x (2*k+2) then g x else dflt) :=
  Good.node (g := fun i x => if x (2*k+1) = i then g x else dflt) hS hk
    (fun i _ => Good.ite_node hS (by omega) i h (Good.const hS dflt (2*k) (by omega)))

theorem pathRel_good (hS : S.WF) (m : Minterm α) :
    ∀ k, 2*k ≤ S.top → Good S zero (2*k) (pathRel S zero dflt m k) (pathRelSem dflt m k)
  | 0, _ => (Good.leaf m.val).congr (fun _ _ => rfl)
  | k+1, hk => by
    have ih := pathRel_good hS m k (by omega)
    have hk1 : 2*k+1+1 ≤ S.top := by omega
    have hk0 : 2*k+1 ≤ S.top := by omega
    have hc0 := Good.const (S := S) (zero := zero) hS dflt (2*k) (by omega)
    have hc1 := Good.const (S := S) (zero := zero) hS dflt (2*k+1) (by omega)
    show Good S zero (2*k+2) _ (fun a => pathRelSem dflt m (k+1) a)
    unfold pathRel pathRelSem
    rcases Entry.cases3 (m.at (2*k+1)) with ⟨j0, hp⟩ | hp | hp
    · rcases Entry.cases3 (m.at (2*k+2)) with ⟨i0, hu⟩ | hu | hu
      · simp only [hp, hu]
        exact Good.ite_node hS hk1 i0 (Good.ite_node hS hk0 j0 ih hc0) hc1
      · simp only [hp, hu]
        exact Good.red1 hS hk1 (Good.ite_node hS hk0 j0 ih hc0)
      · simp only [hp, hu]
        exact Good.red1 hS hk1 (Good.ite_node hS hk0 j0 ih hc0)
    · rcases Entry.cases3 (m.at (2*k+2)) with ⟨i0, hu⟩ | hu | hu
      · simp only [hp, hu]
        exact Good.ite_node hS hk1 i0 (Good.red1 hS hk0 ih) hc1
      · simp only [hp, hu]
        exact Good.red1 hS hk1 (Good.red1 hS hk0 ih)
      · simp only [hp, hu]
        exact Good.red1 hS hk1 (Good.red1 hS hk0 ih)
    · simp only [hp]
      exact identF_good hS (by omega) ih

theorem cpF_good (hS : S.WF) {k : Nat} (hk : 2*k+1 ≤ S.top) {rec : List (Minterm α) → Fam α}
    {recS : List (Minterm α) → Assign → α} (hr : ∀ ms, Good S zero (2*k) (rec ms) (recS ms))
    (grp : Nat → List (Minterm α)) :
    Good S zero (2*k+1) (cpF S zero dflt k rec grp) (cpS dflt k recS grp) :=
  Good.node (g := fun j x => if (grp j).isEmpty then dflt else recS (grp j) x) hS hk
    (fun j _ => by
      by_cases e : (grp j).isEmpty = true
      · simp only [e, if_true]; exact Good.const hS dflt (2*k) (by omega)
      · simp only [e]; exact hr _)

theorem relStep_good (hS : S.WF) {k : Nat} (hk : 2*k+2 ≤ S.top) {rec : List (Minterm α) → Fam α}
    {recS : List (Minterm α) → Assign → α} (hr : ∀ ms, Good S zero (2*k) (rec ms) (recS ms))
    (ms : List (Minterm α)) :
    Good S zero (2*k+2) (relStep S zero op dflt k rec ms) (relStepSem op dflt k recS ms) := by
  have hk1 : 2*k+1+1 ≤ S.top := by omega
  have hk0 : 2*k+1 ≤ S.top := by omega
  unfold relStep relStepSem
  by_cases h1 : ms.all (fun m => uDC k m && pDC k m) = true
  · simp only [h1, if_true]
    exact Good.red1 hS hk1 (Good.red1 hS hk0 (hr ms))
  · simp only [h1]
    by_cases h2 : ms.all (fun m => uDC k m && pChg k m) = true
    · simp only [h2, if_true]
      exact identF_good hS hk (hr ms)
    · simp only [h2]
      have hcu := Good.node (S := S) (zero := zero) hS hk1
        (ch := fun i =>
          if (ms.filter (uFix k i)).isEmpty then constF S zero dflt (2*k+1)
          else
            if ((ms.filter (uFix k i)).filter (pDC k)).isEmpty then
              cpF S zero dflt k rec (fun j => (ms.filter (uFix k i)).filter (pFix k j))
            else opF S zero op (2*k+1) (redF S zero (2*k) (rec ((ms.filter (uFix k i)).filter (pDC k))))
              (cpF S zero dflt k rec (fun j => (ms.filter (uFix k i)).filter (pFix k j))))
        (g := fun i x =>
          if (ms.filter (uFix k i)).isEmpty then dflt
          else
            if ((ms.filter (uFix k i)).filter (pDC k)).isEmpty then
              cpS dflt k recS (fun j => (ms.filter (uFix k i)).filter (pFix k j)) x
            else op (recS ((ms.filter (uFix k i)).filter (pDC k)) x)
              (cpS dflt k recS (fun j => (ms.filter (uFix k i)).filter (pFix k j)) x))
        (fun i _ => by
          by_cases e1 : (ms.filter (uFix k i)).isEmpty = true
          · simp only [e1, if_true]; exact Good.const hS dflt (2*k+1) hk0
          · simp only [e1]
            by_cases e2 : ((ms.filter (uFix k i)).filter (pDC k)).isEmpty = true
            · simp only [e2, if_true]; exact cpF_good hS hk0 hr _
            · simp only [e2]
              exact Good.op hS op hk0 (Good.red1 hS hk0 (hr _)) (cpF_good hS hk0 hr _))
      by_cases h3 : (ms.filter (uDC k)).isEmpty = true
      · simp only [h3, if_true]
        exact hcu
      · simp only [h3]
        have hx0 := Good.red1 hS hk1
          (cpF_good (S := S) (zero := zero) (dflt := dflt) hS hk0 hr
            (fun j => (ms.filter (uDC k)).filter (pFix k j)))
        refine Good.op hS op hk ?_ hcu
        by_cases h4 : ((ms.filter (uDC k)).filter (pDC k)).isEmpty = true
        · simp only [h4, if_true]
          by_cases h5 : ((ms.filter (uDC k)).filter (pChg k)).isEmpty = true
          · simp only [h5, if_true]; exact hx0
          · simp only [h5]
            exact Good.op hS op hk (identF_good hS hk (hr _)) hx0
        · simp only [h4]
          have hx1 := Good.op hS op hk
            (Good.red1 hS hk1 (Good.red1 hS hk0 (hr ((ms.filter (uDC k)).filter (pDC k))))) hx0
          by_cases h5 : ((ms.filter (uDC k)).filter (pChg k)).isEmpty = true
          · simp only [h5, if_true]; exact hx1
          · simp only [h5]
            exact Good.op hS op hk (identF_good hS hk (hr _)) hx1

theorem buildRel_good (hS : S.WF) :
    ∀ k, 2*k ≤ S.top → ∀ ms : List (Minterm α),
      Good S zero (2*k) (buildRel S zero op dflt k ms) (semRel op dflt k ms)
  | 0, _, ms => (Good.leaf _).congr (fun _ _ => rfl)
  | k+1, hk, ms => by
    have ih := buildRel_good hS k (by omega)
    show Good S zero (2*k+2) _ (fun a => semRel op dflt (k+1) ms a)
    unfold buildRel semRel
    split
    · exact pathRel_good hS _ (k+1) hk
    · exact relStep_good hS (by omega) ih ms

/-! ### Under the contract the relation recursion is the specification -/

theorem matchesUpTo_two (m : Minterm α) (a : Assign) (k : Nat) :
    matchesUpTo m a (2*k+2) =
      (entryOK (m.at (2*k+2)) a (2*k+2) && (entryOK (m.at (2*k+1)) a (2*k+1) && matchesUpTo m a (2*k))) := rfl

theorem pathRelSem_eq (m : Minterm α) (hm : RelLegal m) (a : Assign) :
    ∀ k, pathRelSem dflt m k a = cK dflt a (2*k) m
  | 0 => by simp [pathRelSem, cK, matchesUpTo]
  | k+1 => by
    have ih := pathRelSem_eq m hm a k
    show pathRelSem dflt m (k+1) a = cK dflt a (2*k+2) m
    unfold pathRelSem
    rw [ih]
    unfold cK
    rw [matchesUpTo_two]
    obtain ⟨hu1, hu2⟩ := hm k
    rcases Entry.cases3 (m.at (2*k+1)) with ⟨j0, hp⟩ | hp | hp
    · rcases Entry.cases3 (m.at (2*k+2)) with ⟨i0, hu⟩ | hu | hu
      · simp only [hp, hu, entryOK]
        by_cases e1 : a (2*k+2) = i0 <;> by_cases e2 : a (2*k+1) = j0 <;> simp [e1, e2]
      · simp only [hp, hu, entryOK]
        by_cases e2 : a (2*k+1) = j0 <;> simp [e2]
      · exact absurd hu hu1
    · rcases Entry.cases3 (m.at (2*k+2)) with ⟨i0, hu⟩ | hu | hu
      · simp only [hp, hu, entryOK]
        by_cases e1 : a (2*k+2) = i0 <;> simp [e1]
      · simp [hp, hu, entryOK]
      · exact absurd hu hu1
    · have hu := hu2 hp
      simp only [hp, hu, entryOK]
      by_cases e : a (2*k+1) = a (2*k+2) <;> simp [e]

theorem relStepSem_eq_big (hL : SemiLat op) (a : Assign) (k : Nat)
    (recS : List (Minterm α) → Assign → α) (ms : List (Minterm α))
    (hd : defaultOK op dflt ms) (hl : ∀ m, m ∈ ms → RelLegal m)
    (hrec : ∀ ms' : List (Minterm α), (∀ m, m ∈ ms' → m ∈ ms) →
      recS ms' a = big op dflt ms' (cK dflt a (2*k))) :
    relStepSem op dflt k recS ms a = big op dflt ms (cK dflt a (2*k+2)) := by
  have hsub : ∀ (l : List (Minterm α)) (q : Minterm α → Bool), (∀ m, m ∈ l → m ∈ ms) →
      ∀ m, m ∈ l.filter q → m ∈ ms := fun l q h m hm => h m (List.mem_filter.mp hm).1
  have hms : ∀ m, m ∈ ms → m ∈ ms := fun _ h => h
  -- per-minterm facts
  have hpt : ∀ m, m ∈ ms →
      op dflt (cK dflt a (2*k) m) = cK dflt a (2*k) m ∧ op (cK dflt a (2*k) m) dflt = cK dflt a (2*k) m :=
    fun m hm => ⟨cK_neutral hL a _ m (hd m hm), cK_neutral' hL a _ m (hd m hm)⟩
  unfold relStepSem
  by_cases h1 : ms.all (fun m => uDC k m && pDC k m) = true
  · rw [if_pos h1, hrec ms hms]
    apply big_congr
    intro m hm
    have hh := List.all_eq_true.mp h1 m hm
    simp only [Bool.and_eq_true, uDC, pDC, beq_iff_eq] at hh
    obtain ⟨hu1, _⟩ := hl m hm k
    unfold cK; rw [matchesUpTo_two]
    rcases Entry.cases3 (m.at (2*k+2)) with ⟨i0, hu⟩ | hu | hu
    · rw [hu] at hh; exact absurd hh.1 (by simp [notFixE])
    · simp [hu, hh.2, entryOK]
    · exact absurd hu hu1
  · rw [if_neg h1]
    by_cases h2 : ms.all (fun m => uDC k m && pChg k m) = true
    · rw [if_pos h2, hrec ms hms]
      have hcase : ∀ m, m ∈ ms → cK dflt a (2*k+2) m =
          if a (2*k+1) = a (2*k+2) then cK dflt a (2*k) m else dflt := by
        intro m hm
        have hh := List.all_eq_true.mp h2 m hm
        simp only [Bool.and_eq_true, uDC, pChg, beq_iff_eq] at hh
        obtain ⟨hu1, hu2⟩ := hl m hm k
        have hu := hu2 hh.2
        unfold cK; rw [matchesUpTo_two]
        simp only [hu, hh.2, entryOK]
        by_cases e : a (2*k+1) = a (2*k+2) <;> simp [e]
      by_cases e : a (2*k+1) = a (2*k+2)
      · rw [if_pos e]
        exact big_congr (fun m hm => by rw [hcase m hm, if_pos e])
      · rw [if_neg e]
        rw [big_congr (fun m hm => by rw [hcase m hm, if_neg e]), big_const hL]
    · rw [if_neg h2]
      -- the pieces, each as an accumulation over `ms`
      have hcp : ∀ (l : List (Minterm α)), (∀ m, m ∈ l → m ∈ ms) →
          cpS dflt k recS (fun j => l.filter (pFix k j)) a
            = big op dflt l (fun m => if pFix k (a (2*k+1)) m then cK dflt a (2*k) m else dflt) := by
        intro l hlm
        unfold cpS
        rw [hrec _ (hsub l _ hlm), big_isEmpty, big_filter hL]
      have hopt : ∀ (l : List (Minterm α)) (q : Minterm α → Bool) (y : α), (∀ m, m ∈ l → m ∈ ms) →
          op dflt y = y →
          (if (l.filter q).isEmpty then y else op (recS (l.filter q) a) y)
            = op (big op dflt l (fun m => if q m then cK dflt a (2*k) m else dflt)) y := by
        intro l q y hlm hy
        rw [← big_filter hL]
        by_cases e : (l.filter q).isEmpty = true
        · rw [if_pos e, List.isEmpty_iff.mp e, big_nil, hy]
        · rw [if_neg e, hrec _ (hsub l _ hlm)]
      have habs : ∀ (l : List (Minterm α)) (f : Minterm α → α), op dflt (big op dflt l f) = big op dflt l f :=
        fun l f => big_absorb hL l f
      -- E part
      have hgi : ∀ m, m ∈ ms.filter (uFix k (a (2*k+2))) → m ∈ ms := hsub ms _ hms
      have hgx : ∀ m, m ∈ ms.filter (uDC k) → m ∈ ms := hsub ms _ hms
      have hE : (if (ms.filter (uFix k (a (2*k+2)))).isEmpty then dflt
          else
            if ((ms.filter (uFix k (a (2*k+2)))).filter (pDC k)).isEmpty then
              cpS dflt k recS (fun j => (ms.filter (uFix k (a (2*k+2)))).filter (pFix k j)) a
            else op (recS ((ms.filter (uFix k (a (2*k+2)))).filter (pDC k)) a)
              (cpS dflt k recS (fun j => (ms.filter (uFix k (a (2*k+2)))).filter (pFix k j)) a))
          = op (big op dflt ms (fun m => if uFix k (a (2*k+2)) m then
                  (if pDC k m then cK dflt a (2*k) m else dflt) else dflt))
               (big op dflt ms (fun m => if uFix k (a (2*k+2)) m then
                  (if pFix k (a (2*k+1)) m then cK dflt a (2*k) m else dflt) else dflt)) := by
        rw [hcp _ hgi, hopt _ _ _ hgi (habs _ _), ← big_filter hL ms, ← big_filter hL ms]
        by_cases e : (ms.filter (uFix k (a (2*k+2)))).isEmpty = true
        · rw [if_pos e, List.isEmpty_iff.mp e, big_nil, big_nil, hL.idem]
        · rw [if_neg e]
      -- X part
      have hX : (if ((ms.filter (uDC k)).filter (pChg k)).isEmpty then
              (if ((ms.filter (uDC k)).filter (pDC k)).isEmpty then
                cpS dflt k recS (fun j => (ms.filter (uDC k)).filter (pFix k j)) a
              else op (recS ((ms.filter (uDC k)).filter (pDC k)) a)
                (cpS dflt k recS (fun j => (ms.filter (uDC k)).filter (pFix k j)) a))
            else op (if a (2*k+1) = a (2*k+2) then recS ((ms.filter (uDC k)).filter (pChg k)) a else dflt)
              (if ((ms.filter (uDC k)).filter (pDC k)).isEmpty then
                cpS dflt k recS (fun j => (ms.filter (uDC k)).filter (pFix k j)) a
              else op (recS ((ms.filter (uDC k)).filter (pDC k)) a)
                (cpS dflt k recS (fun j => (ms.filter (uDC k)).filter (pFix k j)) a)))
          = op (big op dflt ms (fun m => if uDC k m then
                  (if pChg k m then (if a (2*k+1) = a (2*k+2) then cK dflt a (2*k) m else dflt) else dflt) else dflt))
              (op (big op dflt ms (fun m => if uDC k m then
                    (if pDC k m then cK dflt a (2*k) m else dflt) else dflt))
                  (big op dflt ms (fun m => if uDC k m then
                    (if pFix k (a (2*k+1)) m then cK dflt a (2*k) m else dflt) else dflt))) := by
        rw [hcp _ hgx, hopt _ _ _ hgx (habs _ _)]
        rw [← big_filter hL ms (uDC k), ← big_filter hL ms (uDC k), ← big_filter hL ms (uDC k)]
        have hy : op dflt (op (big op dflt (ms.filter (uDC k)) fun m => if pDC k m then cK dflt a (2*k) m else dflt)
            (big op dflt (ms.filter (uDC k)) fun m => if pFix k (a (2*k+1)) m then cK dflt a (2*k) m else dflt))
            = op (big op dflt (ms.filter (uDC k)) fun m => if pDC k m then cK dflt a (2*k) m else dflt)
            (big op dflt (ms.filter (uDC k)) fun m => if pFix k (a (2*k+1)) m then cK dflt a (2*k) m else dflt) := by
          rw [← hL.assoc, habs]
        by_cases e : a (2*k+1) = a (2*k+2)
        · rw [if_pos e, big_congr (ms := ms.filter (uDC k))
            (c := fun m => if pChg k m then (if a (2*k+1) = a (2*k+2) then cK dflt a (2*k) m else dflt) else dflt)
            (c' := fun m => if pChg k m then cK dflt a (2*k) m else dflt)
            (fun m _ => by rw [if_pos e])]
          exact hopt _ _ _ hgx hy
        · rw [if_neg e, big_congr (ms := ms.filter (uDC k))
            (c := fun m => if pChg k m then (if a (2*k+1) = a (2*k+2) then cK dflt a (2*k) m else dflt) else dflt)
            (c' := fun _ => dflt)
            (fun m _ => by rw [if_neg e]; split <;> rfl), big_const hL]
          by_cases e' : ((ms.filter (uDC k)).filter (pChg k)).isEmpty = true
          · rw [if_pos e', hy]
          · rw [if_neg e']
      have hpoint : ∀ m, m ∈ ms →
          op (op (if uDC k m then
                    (if pChg k m then (if a (2*k+1) = a (2*k+2) then cK dflt a (2*k) m else dflt) else dflt)
                  else dflt)
               (op (if uDC k m then (if pDC k m then cK dflt a (2*k) m else dflt) else dflt)
                   (if uDC k m then (if pFix k (a (2*k+1)) m then cK dflt a (2*k) m else dflt) else dflt)))
             (op (if uFix k (a (2*k+2)) m then (if pDC k m then cK dflt a (2*k) m else dflt) else dflt)
                 (if uFix k (a (2*k+2)) m then
                    (if pFix k (a (2*k+1)) m then cK dflt a (2*k) m else dflt) else dflt))
            = cK dflt a (2*k+2) m := by
        intro m hm
        obtain ⟨hn, hn'⟩ := hpt m hm
        obtain ⟨hu1, hu2⟩ := hl m hm k
        unfold cK at hn hn' ⊢; rw [matchesUpTo_two]
        simp only [uDC, uFix, pDC, pFix, pChg]
        rcases Entry.cases3 (m.at (2*k+2)) with ⟨i0, hu⟩ | hu | hu
        · rcases Entry.cases3 (m.at (2*k+1)) with ⟨j0, hp⟩ | hp | hp
          · by_cases e1 : a (2*k+2) = i0 <;> by_cases e2 : a (2*k+1) = j0
            · simp [hu, hp, entryOK, notFixE, e1, e2, hn, hn', hL.idem]
            · have e2' : ¬ j0 = a (2*k+1) := fun h => e2 h.symm
              simp [hu, hp, entryOK, notFixE, e1, e2, e2', hn, hn', hL.idem]
            · have e1' : ¬ i0 = a (2*k+2) := fun h => e1 h.symm
              simp [hu, hp, entryOK, notFixE, e1, e1', e2, hn, hn', hL.idem]
            · have e1' : ¬ i0 = a (2*k+2) := fun h => e1 h.symm
              have e2' : ¬ j0 = a (2*k+1) := fun h => e2 h.symm
              simp [hu, hp, entryOK, notFixE, e1, e1', e2, e2', hn, hn', hL.idem]
          · by_cases e1 : a (2*k+2) = i0
            · simp [hu, hp, entryOK, notFixE, e1, hn, hn', hL.idem]
            · have e1' : ¬ i0 = a (2*k+2) := fun h => e1 h.symm
              simp [hu, hp, entryOK, notFixE, e1, e1', hn, hn', hL.idem]
          · have := hu2 hp; rw [hu] at this; cases this
        · rcases Entry.cases3 (m.at (2*k+1)) with ⟨j0, hp⟩ | hp | hp
          · by_cases e2 : a (2*k+1) = j0
            · simp [hu, hp, entryOK, notFixE, e2, hn, hn', hL.idem]
            · have e2' : ¬ j0 = a (2*k+1) := fun h => e2 h.symm
              simp [hu, hp, entryOK, notFixE, e2, e2', hn, hn', hL.idem]
          · simp [hu, hp, entryOK, notFixE, hn, hn', hL.idem]
          · by_cases e : a (2*k+1) = a (2*k+2) <;>
              simp [hu, hp, entryOK, notFixE, e, hn, hn', hL.idem]
        · exact absurd hu hu1
      by_cases h3 : (ms.filter (uDC k)).isEmpty = true
      · rw [if_pos h3, hE, big_op hL]
        apply big_congr
        intro m hm
        rw [← hpoint m hm]
        have hnx : uDC k m = false := by
          have : ms.filter (uDC k) = [] := List.isEmpty_iff.mp h3
          have := List.filter_eq_nil_iff.mp this m hm
          simpa using this
        simp only [hnx, Bool.false_eq_true, if_false]
        rw [hL.idem, hL.idem, ← hL.assoc]
        congr 1
        obtain ⟨hn, hn'⟩ := hpt m hm
        by_cases e : uFix k (a (2*k+2)) m = true
        · rw [if_pos e]
          by_cases e2 : pDC k m = true
          · rw [if_pos e2, hn]
          · rw [if_neg e2, hL.idem]
        · rw [if_neg e, hL.idem]
      · rw [if_neg h3]
        dsimp only
        rw [hE, hX, big_op hL, big_op hL, big_op hL, big_op hL]
        exact big_congr hpoint

theorem semRel_eq_big (hL : SemiLat op) (a : Assign) :
    ∀ (k : Nat) (ms : List (Minterm α)), defaultOK op dflt ms → (∀ m, m ∈ ms → RelLegal m) →
      semRel op dflt k ms a = big op dflt ms (cK dflt a (2*k))
  | 0, ms, hd, _ => by
    rw [semRel, finalize, foldOpt_eq_big _ hd]
    exact big_congr (fun m _ => by simp [cK, matchesUpTo])
  | k+1, ms, hd, hl => by
    have ih := semRel_eq_big hL a k
    show semRel op dflt (k+1) ms a = big op dflt ms (cK dflt a (2*k+2))
    unfold semRel
    split
    · next m =>
      rw [pathRelSem_eq m (hl m (List.mem_singleton.mpr rfl)) a (k+1)]
      exact (big_single hL m _ (cK_neutral hL a _ m (hd m (List.mem_singleton.mpr rfl)))).symm
    · exact relStepSem_eq_big hL a k _ ms hd hl
        (fun ms' hsub => ih ms' (fun m hm => hd m (hsub m hm)) (fun m hm => hl m (hsub m hm)))

end RelBuilder

/-! ## `createEdgeForVar`, top-level entry points -/

section Top
variable (S : Shape) (zero : α)

/-- `forest::createEdgeForVar` for the variable at position `p` (`2·level` / `2·level-1` for an
    unprimed / primed variable of a relation): a node at `p` whose child `i` is the constant
    `terms i`, redundant nodes above. -/
def varF (terms : Nat → α) (p : Nat) : Nat → Fam α
  | 0 => fun _ => .leaf zero
  | k+1 => if k+1 = p then nodeF S zero k (fun i => constF S zero (terms i) k)
           else redF S zero k (varF terms p k)

/-- `forest::createEdgeForVar(vh, pr, terms, e)` -/
def createEdgeForVar (terms : Nat → α) (p : Nat) : DD α := varF S zero terms p S.top none

/-- `forest::createConstant(v, e)` -/
def createConstant (v : α) : DD α := constF S zero v S.top none

/-- `minterm::buildFunction(dflt, e)`; `rel`: the forest is a relation forest -/
def buildMinterm (rel : Bool) (dflt : α) (m : Minterm α) : DD α :=
  if rel then pathRel S zero dflt m (S.top / 2) none else pathSet S zero dflt m S.top none

/-- `minterm_coll::buildFunctionMax / Min (dflt, e)` with `op` = max / min.  (The code's special
    case for the empty collection, `createConstant(dflt)`, is what the recursion yields for `[]`:
    `buildColl_nil`.) -/
def buildColl (rel : Bool) (op : α → α → α) (dflt : α) (ms : List (Minterm α)) : DD α :=
  if rel then buildRel S zero op dflt (S.top / 2) ms none else buildSet S zero op dflt S.top ms none

end Top

/-- what `buildColl` computes (inside and outside the documented contract) -/
def semColl (rel : Bool) (op : α → α → α) (dflt : α) (top : Nat) (ms : List (Minterm α)) (a : Assign) : α :=
  if rel then semRel op dflt (top / 2) ms a else semSet op dflt top ms a

/-- legal minterms for a set / relation forest -/
def Legal (rel : Bool) (m : Minterm α) : Prop := if rel then RelLegal m else SetLegal m

section TopProofs
variable {S : Shape} {zero : α} {op : α → α → α} {dflt : α}

theorem varF_good (hS : S.WF) (terms : Nat → α) (p : Nat) (hp : 1 ≤ p) :
    ∀ k, k ≤ S.top → p ≤ k → Good S zero k (varF S zero terms p k) (fun x => terms (x p))
  | 0, _, h => by omega
  | k+1, hk, h => by
    unfold varF
    by_cases e : k+1 = p
    · rw [if_pos e]
      subst e
      exact Good.node (g := fun i _ => terms i) hS hk (fun i _ => Good.const hS (terms i) k (by omega))
    · rw [if_neg e]
      exact Good.red1 hS hk (varF_good hS terms p hp k (by omega) (by omega))

theorem top_not_ident (hS : S.WF) : S.mode S.top ≠ .ident := hS.top_not_ident (Nat.le_refl _)

theorem Good.top_eval (hS : S.WF) {t : Fam α} {g : Assign → α} (h : Good S zero S.top t g)
    (a : Assign) (ha : Assign.Valid S a) : DD.eval S zero S.top (t none) a = g a :=
  h.eval none a ha (fun hm => absurd hm (top_not_ident hS))

theorem Good.top_red (hS : S.WF) {t : Fam α} {g : Assign → α} (h : Good S zero S.top t g) :
    Red S zero S.top none (t none) = true :=
  h.red none (fun _ => top_not_ident hS)

theorem big_perm (hL : SemiLat op) {ms ms' : List (Minterm α)} (hp : ms.Perm ms') (c : Minterm α → α) :
    big op dflt ms c = big op dflt ms' c := by
  unfold big bigFrom
  apply List.Perm.foldl_eq' hp
  intro x _ y _ z
  rw [hL.assoc, hL.assoc, hL.comm (c x)]

theorem buildColl_good (hS : S.WF) (rel : Bool) (hrel : rel = true → S.top % 2 = 0)
    (ms : List (Minterm α)) :
    ∃ t : Fam α, t none = buildColl S zero rel op dflt ms ∧
      Good S zero S.top t (semColl rel op dflt S.top ms) := by
  cases rel with
  | false => exact ⟨_, rfl, buildSet_good hS S.top (Nat.le_refl _) ms⟩
  | true =>
    have h2 : 2 * (S.top / 2) = S.top := by have := hrel rfl; omega
    refine ⟨buildRel S zero op dflt (S.top / 2) ms, rfl, ?_⟩
    have := buildRel_good (S := S) (zero := zero) (op := op) (dflt := dflt) hS (S.top / 2) (by omega) ms
    rw [h2] at this
    exact this

theorem semColl_eq_spec (hL : SemiLat op) (rel : Bool) (top : Nat) (hrel : rel = true → top % 2 = 0)
    (ms : List (Minterm α)) (hd : defaultOK op dflt ms) (hl : ∀ m, m ∈ ms → Legal rel m) (a : Assign) :
    semColl rel op dflt top ms a = specColl op top ms dflt a := by
  rw [specColl_eq_big hL top ms hd a]
  cases rel with
  | false => exact semSet_eq_big hL a top ms hd hl
  | true =>
    have h2 : 2 * (top / 2) = top := by have := hrel rfl; omega
    have := semRel_eq_big hL a (top / 2) ms hd hl
    rw [h2] at this
    exact this

end TopProofs

/-! ## Concrete shapes and collections for the non-vacuity examples -/
namespace Examples

/-- set forest, two variables of sizes 2 (bottom) and 3, fully reduced -/
def SS : Shape := { top := 2, size := fun p => if p = 2 then 3 else 2, mode := fun _ => .red }
theorem SS_WF : SS.WF where
  size_ge := by intro p h1 h2; show 2 ≤ (if p = 2 then 3 else 2); split <;> omega
  ident_below_red := by intro p h; cases h

/-- set forest, quasi reduced -/
def SQ : Shape := { top := 2, size := fun p => if p = 2 then 3 else 2, mode := fun _ => .none }
theorem SQ_WF : SQ.WF where
  size_ge := by intro p h1 h2; show 2 ≤ (if p = 2 then 3 else 2); split <;> omega
  ident_below_red := by intro p h; cases h

/-- relation forest, one variable of size 2 (positions 2 = unprimed, 1 = primed), identity reduced -/
def SI : Shape := { top := 2, size := fun _ => 2, mode := fun p => if p = 1 then .ident else .red }
theorem SI_WF : SI.WF where
  size_ge := by intro p _ _; exact Nat.le_refl 2
  ident_below_red := by
    intro p h
    have hp : p = 1 := by
      by_cases e : p = 1
      · exact e
      · have : (if p = 1 then Mode.ident else Mode.red) = .ident := h
        rw [if_neg e] at this; cases this
    subst hp
    exact ⟨Nat.le_refl _, Nat.le_refl _, rfl, rfl⟩

/-- relation forest, one variable of size 2, fully reduced -/
def SF : Shape := { top := 2, size := fun _ => 2, mode := fun _ => .red }
theorem SF_WF : SF.WF where
  size_ge := by intro p _ _; exact Nat.le_refl 2
  ident_below_red := by intro p h; cases h

/-- assignment from a list of values for positions 1, 2, … -/
def asg (l : List Nat) : Assign := fun p => l.getD (p - 1) 0

/-- set minterms over `SS`: (x₂ = don't care, x₁ = 0) ↦ 1 and (x₂ = 0, x₁ = 1) ↦ 7 -/
def msA : List (Minterm Int) := [⟨[.fixed 0, .dontCare], 1⟩, ⟨[.fixed 1, .fixed 0], 7⟩]

/-- relation minterms over one variable: (x, x' = x) ↦ 3, (x = 1, x' = don't care) ↦ 4, (0 → 1) ↦ 9 -/
def msR : List (Minterm Int) :=
  [⟨[.dontChange, .dontCare], 3⟩, ⟨[.dontCare, .fixed 1], 4⟩, ⟨[.fixed 1, .fixed 0], 9⟩]

end Examples

/-! ## Property theorems -/
section Props
open Examples
variable {S : Shape} {zero : α} {op : α → α → α} {dflt : α}

/-- **What the collection builder computes, contract or not.**  For every forest shape (any number
    of variables, any sizes ≥ 2, fully / quasi / identity reduced), every collection and every
    default, the tree built by the model of `fbuilder::createEdgeSet / createEdgeRel` evaluates at
    every assignment to the semantic recursion `semColl` (the same partition, read on assignments). -/
theorem buildColl_sem (hS : S.WF) (rel : Bool) (hrel : rel = true → S.top % 2 = 0)
    (ms : List (Minterm α)) (a : Assign) (ha : Assign.Valid S a) :
    DD.eval S zero S.top (buildColl S zero rel op dflt ms) a = semColl rel op dflt S.top ms a := by
  obtain ⟨t, ht, hg⟩ := buildColl_good (zero := zero) (op := op) (dflt := dflt) hS rel hrel ms
  rw [← ht]; exact hg.top_eval hS a ha

example : DD.eval SS (0:Int) 2 (buildColl SS 0 false max 0 msA) (asg [0, 2]) = 1 := by decide
example : DD.eval SI (0:Int) 2 (buildColl SI 0 true max 0 msR) (asg [1, 1]) = 4 := by decide

/-- **C03, collections.**  Under the documented contract of `buildFunctionMax` / `buildFunctionMin`
    (`defaultOK`: the default is ≤ / ≥ every value) the function built from a collection of legal
    minterms has, at every assignment of the domain, the max / min of the values of the matching
    minterms, and the default where none matches — for every domain, forest kind and collection. -/
theorem buildColl_eval (hS : S.WF) (hL : SemiLat op) (rel : Bool) (hrel : rel = true → S.top % 2 = 0)
    (ms : List (Minterm α)) (hd : defaultOK op dflt ms) (hl : ∀ m, m ∈ ms → Legal rel m)
    (a : Assign) (ha : Assign.Valid S a) :
    DD.eval S zero S.top (buildColl S zero rel op dflt ms) a = specColl op S.top ms dflt a := by
  rw [buildColl_sem hS rel hrel ms a ha, semColl_eq_spec hL rel S.top hrel ms hd hl a]

example : defaultOK (max : Int → Int → Int) 0 msR := by decide
example : (List.range 4).map (fun i => DD.eval SI (0:Int) 2 (buildColl SI 0 true max 0 msR) (asg [i % 2, i / 2]))
    = [3, 9, 4, 4] ∧
    (List.range 4).map (fun i => specColl max 2 msR 0 (asg [i % 2, i / 2])) = [3, 9, 4, 4] := by decide

/-- **The built tree is in reduced (canonical) form** for the forest's rule. -/
theorem buildColl_red (hS : S.WF) (rel : Bool) (hrel : rel = true → S.top % 2 = 0)
    (ms : List (Minterm α)) :
    Red S zero S.top none (buildColl S zero rel op dflt ms) = true := by
  obtain ⟨t, ht, hg⟩ := buildColl_good (zero := zero) (op := op) (dflt := dflt) hS rel hrel ms
  rw [← ht]; exact hg.top_red hS

example : Red SI (0:Int) 2 none (buildColl SI 0 true max 0 msR) = true := by decide

/-- **The result does not depend on the order of the collection** (the code permutes it in
    place): permuted collections give the identical tree, hence (`DD.canon`) the identical edge. -/
theorem buildColl_perm (hS : S.WF) (hL : SemiLat op) (rel : Bool) (hrel : rel = true → S.top % 2 = 0)
    {ms ms' : List (Minterm α)} (hp : ms.Perm ms') (hd : defaultOK op dflt ms)
    (hl : ∀ m, m ∈ ms → Legal rel m) :
    buildColl S zero rel op dflt ms = buildColl S zero rel op dflt ms' := by
  apply (canon S zero hS _ _ (buildColl_red hS rel hrel ms) (buildColl_red hS rel hrel ms')).mp
  intro a ha
  have hd' : defaultOK op dflt ms' := fun m hm => hd m (hp.symm.subset hm)
  have hl' : ∀ m, m ∈ ms' → Legal rel m := fun m hm => hl m (hp.symm.subset hm)
  rw [buildColl_eval hS hL rel hrel ms hd hl a ha, buildColl_eval hS hL rel hrel ms' hd' hl' a ha,
    specColl_eq_big hL _ _ hd, specColl_eq_big hL _ _ hd', big_perm hL hp]

example : buildColl SI (0:Int) true max 0 msR = buildColl SI 0 true max 0 msR.reverse := by decide

/-- **C03, single minterm** (`minterm::buildFunction`): value of the minterm where it matches
    (fixed / don't-care / don't-change positions), the default elsewhere — no contract needed. -/
theorem buildMinterm_eval (hS : S.WF) (rel : Bool) (hrel : rel = true → S.top % 2 = 0)
    (m : Minterm α) (hm : Legal rel m) (a : Assign) (ha : Assign.Valid S a) :
    DD.eval S zero S.top (buildMinterm S zero rel dflt m) a = specSingle S.top m dflt a := by
  cases rel with
  | false => exact (pathSet_good hS m hm S.top (Nat.le_refl _)).top_eval hS a ha
  | true =>
    have h2 : 2 * (S.top / 2) = S.top := by have := hrel rfl; omega
    have hg := pathRel_good (S := S) (zero := zero) (dflt := dflt) hS m (S.top / 2) (by omega)
    rw [h2] at hg
    show DD.eval S zero S.top (pathRel S zero dflt m (S.top / 2) none) a = _
    rw [hg.top_eval hS a ha, pathRelSem_eq m hm a (S.top / 2), h2]
    rfl

theorem buildMinterm_red (hS : S.WF) (rel : Bool) (hrel : rel = true → S.top % 2 = 0)
    (m : Minterm α) (hm : Legal rel m) :
    Red S zero S.top none (buildMinterm S zero rel dflt m) = true := by
  cases rel with
  | false => exact (pathSet_good hS m hm S.top (Nat.le_refl _)).top_red hS
  | true =>
    have h2 : 2 * (S.top / 2) = S.top := by have := hrel rfl; omega
    have hg := pathRel_good (S := S) (zero := zero) (dflt := dflt) hS m (S.top / 2) (by omega)
    rw [h2] at hg
    exact hg.top_red hS

example : (List.range 4).map (fun i =>
      DD.eval SI (0:Int) 2 (buildMinterm SI 0 true 5 ⟨[.dontChange, .dontCare], 3⟩) (asg [i % 2, i / 2]))
    = [3, 5, 5, 3] := by decide
example : (List.range 6).map (fun i =>
      DD.eval SQ (0:Int) 2 (buildMinterm SQ 0 false (-1) ⟨[.dontCare, .fixed 2], 8⟩) (asg [i % 2, i / 2]))
    = [-1, -1, -1, -1, 8, 8] := by decide

/-- **C03, constants** (`forest::createConstant`). -/
theorem constant_eval (hS : S.WF) (v : α) (a : Assign) (ha : Assign.Valid S a) :
    DD.eval S zero S.top (createConstant S zero v) a = specConst v a :=
  (Good.const hS v S.top (Nat.le_refl _)).top_eval hS a ha

theorem constant_red (hS : S.WF) (v : α) : Red S zero S.top none (createConstant S zero v) = true :=
  (Good.const hS v S.top (Nat.le_refl _)).top_red hS

example : createConstant SQ (0:Int) 4 = .node 2 [.node 1 [.leaf 4, .leaf 4], .node 1 [.leaf 4, .leaf 4],
    .node 1 [.leaf 4, .leaf 4]] := by decide
example : createConstant SI (0:Int) 4 = .node 1 [.leaf 4, .leaf 4] := by decide

/-- **C03, variables** (`forest::createEdgeForVar`, primed or unprimed, with or without a `terms`
    array): the function returns `terms[value of that variable]`. -/
theorem edgeForVar_eval (hS : S.WF) (terms : Nat → α) (p : Nat) (hp1 : 1 ≤ p) (hp2 : p ≤ S.top)
    (a : Assign) (ha : Assign.Valid S a) :
    DD.eval S zero S.top (createEdgeForVar S zero terms p) a = specVar terms p a :=
  (varF_good hS terms p hp1 S.top (Nat.le_refl _) hp2).top_eval hS a ha

theorem edgeForVar_red (hS : S.WF) (terms : Nat → α) (p : Nat) (hp1 : 1 ≤ p) (hp2 : p ≤ S.top) :
    Red S zero S.top none (createEdgeForVar S zero terms p) = true :=
  (varF_good hS terms p hp1 S.top (Nat.le_refl _) hp2).top_red hS

/-- the primed variable of an identity-reduced relation with terms [0, 5]: the singleton primed node
    may not hang below index 1 of the unprimed node (`check_singleton` in `_makeRedundantsTo`) -/
example : createEdgeForVar SI (0:Int) (fun i => if i = 1 then 5 else 0) 1
    = .node 2 [.node 1 [.leaf 0, .leaf 5], .leaf 5] := by decide
example : (List.range 4).map (fun i =>
      DD.eval SI (0:Int) 2 (createEdgeForVar SI 0 (fun i => if i = 1 then 5 else 0) 1) (asg [i % 2, i / 2]))
    = [0, 5, 0, 5] := by decide

/-- **The guard of `buildColl_eval` is needed**: with default 5 above the value 1 of a minterm with a
    don't-care entry (outside the contract of `buildFunctionMax`), the point (x₂=1, x₁=0), matched
    only by that minterm, evaluates to 5 = max(default, 1) instead of 1 — in the model as in the
    library (harness family `build`, case `offcontract-witness`). -/
example : ¬ defaultOK (max : Int → Int → Int) 5 msA ∧
    DD.eval SS (0:Int) 2 (buildColl SS 0 false max 5 msA) (asg [0, 1]) = 5 ∧
    specColl max 2 msA 5 (asg [0, 1]) = 1 := by decide

/-! ### The contract and the theorem for the concrete value types -/

/-- order of the EV+ values: `none` (+infinity) on top -/
def leInf : IntInf → IntInf → Prop
  | _, none => True
  | none, some _ => False
  | some a, some b => a ≤ b

/-- `defaultOK` for integer `buildFunctionMax` is literally the documented "default ≤ every value" -/
theorem defaultOK_intMax (dflt : Int) (ms : List (Minterm Int)) :
    defaultOK max dflt ms ↔ ∀ m, m ∈ ms → dflt ≤ m.val := by
  unfold defaultOK
  constructor <;> intro h m hm <;> have := h m hm <;> omega

/-- … and for `buildFunctionMin` "default ≥ every value" -/
theorem defaultOK_intMin (dflt : Int) (ms : List (Minterm Int)) :
    defaultOK min dflt ms ↔ ∀ m, m ∈ ms → m.val ≤ dflt := by
  unfold defaultOK
  constructor <;> intro h m hm <;> have := h m hm <;> omega

theorem defaultOK_maxInf (dflt : IntInf) (ms : List (Minterm IntInf)) :
    defaultOK maxInf dflt ms ↔ ∀ m, m ∈ ms → leInf dflt m.val := by
  unfold defaultOK
  constructor <;> intro h m hm <;> have := h m hm <;> revert this <;>
    cases dflt <;> cases m.val <;> simp [maxInf, leInf] <;> omega

theorem defaultOK_minInf (dflt : IntInf) (ms : List (Minterm IntInf)) :
    defaultOK minInf dflt ms ↔ ∀ m, m ∈ ms → leInf m.val dflt := by
  unfold defaultOK
  constructor <;> intro h m hm <;> have := h m hm <;> revert this <;>
    cases dflt <;> cases m.val <;> simp [minInf, leInf] <;> omega

/-- **`buildFunctionMax` on integer forests** (MT int): with `deflt ≤` every value, the maximum of
    the matching minterms' values, `deflt` where none matches. -/
theorem buildFunctionMax_int (hS : S.WF) (rel : Bool) (hrel : rel = true → S.top % 2 = 0)
    (dflt : Int) (ms : List (Minterm Int)) (hd : ∀ m, m ∈ ms → dflt ≤ m.val)
    (hl : ∀ m, m ∈ ms → Legal rel m) (a : Assign) (ha : Assign.Valid S a) :
    DD.eval S (0:Int) S.top (buildColl S 0 rel max dflt ms) a = specColl max S.top ms dflt a :=
  buildColl_eval hS semiLat_intMax rel hrel ms ((defaultOK_intMax dflt ms).mpr hd) hl a ha

/-- **`buildFunctionMin` on EV+ forests** (values with +infinity, transparent value +infinity):
    with `deflt ≥` every value — in particular `deflt = +infinity` — the minimum of the matching
    minterms' values, `deflt` where none matches. -/
theorem buildFunctionMin_evplus (hS : S.WF) (rel : Bool) (hrel : rel = true → S.top % 2 = 0)
    (dflt : IntInf) (ms : List (Minterm IntInf)) (hd : ∀ m, m ∈ ms → leInf m.val dflt)
    (hl : ∀ m, m ∈ ms → Legal rel m) (a : Assign) (ha : Assign.Valid S a) :
    DD.eval S (none : IntInf) S.top (buildColl S none rel minInf dflt ms) a = specColl minInf S.top ms dflt a :=
  buildColl_eval hS semiLat_minInf rel hrel ms ((defaultOK_minInf dflt ms).mpr hd) hl a ha

/-- EV+ relation, one variable: `(0→0) ↦ 2`, `(x, x'=x) ↦ +infinity`, `(1→x) ↦ 5`, default +infinity -/
example : (List.range 4).map (fun i =>
      DD.eval SI (none : IntInf) 2
        (buildColl SI none true minInf none
          [⟨[.fixed 0, .fixed 0], some 2⟩, ⟨[.dontChange, .dontCare], none⟩, ⟨[.dontCare, .fixed 1], some 5⟩])
        (asg [i % 2, i / 2]))
    = [some 2, none, some 5, some 5] := by decide

end Props

end Build
end Meddly

/-
#print axioms (lake env lean, Lean 4.33.0):
'Meddly.Build.buildColl_sem' depends on axioms: [propext, Classical.choice, Quot.sound]
'Meddly.Build.buildColl_eval' depends on axioms: [propext, Classical.choice, Quot.sound]
'Meddly.Build.buildColl_red' depends on axioms: [propext, Classical.choice, Quot.sound]
'Meddly.Build.buildColl_perm' depends on axioms: [propext, Classical.choice, Quot.sound]
'Meddly.Build.buildMinterm_eval' depends on axioms: [propext, Classical.choice, Quot.sound]
'Meddly.Build.buildMinterm_red' depends on axioms: [propext, Classical.choice, Quot.sound]
'Meddly.Build.constant_eval' depends on axioms: [propext, Classical.choice, Quot.sound]
'Meddly.Build.constant_red' depends on axioms: [propext, Classical.choice, Quot.sound]
'Meddly.Build.edgeForVar_eval' depends on axioms: [propext, Classical.choice, Quot.sound]
'Meddly.Build.edgeForVar_red' depends on axioms: [propext, Classical.choice, Quot.sound]
'Meddly.Build.semColl_eq_spec' depends on axioms: [propext, Classical.choice, Quot.sound]
'Meddly.Build.buildSet_single' depends on axioms: [propext, Quot.sound]
'Meddly.Build.buildFunctionMax_int' depends on axioms: [propext, Classical.choice, Quot.sound]
'Meddly.Build.buildFunctionMin_evplus' depends on axioms: [propext, Classical.choice, Quot.sound]
-/
