/-
  C14 — proofs about the exchange-file model (`Ops/ExchangeFile.lean`).
  The property theorems are at the end of this file.
-/
import MeddlyModel.Ops.ExchangeFile

namespace Meddly
namespace XFile
open Dump

set_option linter.unusedSectionVars false

variable {α : Type}

/-! ## Part A — the writer's numbering -/

theorem mem_handlesOf {h : Nat} : ∀ {cs : List (Child α)}, h ∈ handlesOf cs ↔ Child.nd h ∈ cs
  | [] => by simp [handlesOf]
  | .nd g :: cs => by
    simp only [handlesOf, List.mem_cons, Child.nd.injEq]
    rw [mem_handlesOf (cs := cs)]
  | .tm v :: cs => by
    simp only [handlesOf, List.mem_cons]
    rw [mem_handlesOf (cs := cs)]
    constructor
    · intro h; exact Or.inr h
    · intro h
      rcases h with h | h
      · cases h
      · exact h

theorem mem_kidsOf {D : Dump α} {M : List Nat} {h : Nat} :
    h ∈ kidsOf D M ↔ ∃ n, n ∈ D ∧ n.handle ∈ M ∧ Child.nd h ∈ n.down := by
  simp only [kidsOf, List.mem_flatMap, List.mem_filter, List.contains_iff_mem, mem_handlesOf]
  constructor
  · rintro ⟨n, ⟨h1, h2⟩, h3⟩; exact ⟨n, h1, h2, h3⟩
  · rintro ⟨n, h1, h2, h3⟩; exact ⟨n, ⟨h1, h2⟩, h3⟩

theorem markIter_mono (D : Dump α) : ∀ (i : Nat) (M : List Nat) {h : Nat}, h ∈ M → h ∈ markIter D i M
  | 0, _, _, hm => hm
  | i+1, M, _, hm => markIter_mono D i (M ++ kidsOf D M) (List.mem_append_left _ hm)

/-- every handle in `M` is a stored node at position `≤ top` -/
def ValidSet (D : Dump α) (top : Nat) (M : List Nat) : Prop :=
  ∀ h, h ∈ M → ∃ m, D.find h = some m ∧ m.pos ≤ top

/-- nodes of `M` above position `t` have all their children in `M` -/
def ClosedAbove (D : Dump α) (M : List Nat) (t : Nat) : Prop :=
  ∀ n, n ∈ D → n.handle ∈ M → t < n.pos → ∀ h, Child.nd h ∈ n.down → h ∈ M

variable [DecidableEq α]

theorem child_of_store {D : Dump α} (hs : D.storeOK = true) {g : DNode α} (hg : g ∈ D) {h : Nat}
    (hc : Child.nd h ∈ g.down) : ∃ m, D.find h = some m ∧ m ∈ D ∧ m.handle = h ∧ m.pos + 1 ≤ g.pos := by
  obtain ⟨_, hp, hch⟩ := storeOK_node hs hg
  obtain ⟨m, hm, hle⟩ := childOK_nd (hch _ hc)
  exact ⟨m, hm, (find_some hm).1, (find_some hm).2, by omega⟩

theorem find_self {D : Dump α} (hs : D.storeOK = true) {n : DNode α} (hn : n ∈ D) :
    D.find n.handle = some n := distinctOK_find (storeOK_distinct hs) hn

theorem validSet_step {D : Dump α} (hs : D.storeOK = true) {top : Nat} {M : List Nat}
    (hv : ValidSet D top M) : ValidSet D top (M ++ kidsOf D M) := by
  intro h hm
  rcases List.mem_append.1 hm with hm | hm
  · exact hv h hm
  · obtain ⟨g, hg, hgM, hc⟩ := mem_kidsOf.1 hm
    obtain ⟨m, hfm, _, _, hlt⟩ := child_of_store hs hg hc
    obtain ⟨g', hfg, hgt⟩ := hv _ hgM
    rw [find_self hs hg] at hfg
    cases hfg
    exact ⟨m, hfm, by omega⟩

theorem closed_step {D : Dump α} (hs : D.storeOK = true) {M : List Nat} {t : Nat}
    (hc : ClosedAbove D M t) : ClosedAbove D (M ++ kidsOf D M) (t - 1) := by
  intro n hn hnM ht h hch
  have key : n.handle ∈ M → h ∈ M ++ kidsOf D M := fun hin =>
    List.mem_append_right _ (mem_kidsOf.2 ⟨n, hn, hin, hch⟩)
  rcases List.mem_append.1 hnM with hin | hin
  · exact key hin
  · obtain ⟨g, hg, hgM, hgc⟩ := mem_kidsOf.1 hin
    obtain ⟨m, hfm, _, _, hlt⟩ := child_of_store hs hg hgc
    rw [find_self hs hn] at hfm
    cases hfm
    exact key (hc g hg hgM (by omega) _ hgc)

theorem markIter_inv {D : Dump α} (hs : D.storeOK = true) {top : Nat} :
    ∀ (i : Nat) (M : List Nat) (t : Nat), ValidSet D top M → ClosedAbove D M t →
      ValidSet D top (markIter D i M) ∧ ClosedAbove D (markIter D i M) (t - i)
  | 0, _, _, hv, hc => ⟨hv, hc⟩
  | i+1, M, t, hv, hc => by
    have := markIter_inv hs i (M ++ kidsOf D M) (t - 1) (validSet_step hs hv) (closed_step hs hc)
    have e : t - 1 - i = t - (i+1) := by omega
    rw [e] at this
    exact this

theorem roots_valid {D : Dump α} {top : Nat} {roots : List (Child α)}
    (hr : ∀ r, r ∈ roots → D.childOK top r = true) : ValidSet D top (handlesOf roots) := by
  intro h hm
  exact childOK_nd (hr _ (mem_handlesOf.1 hm))

/-- the marked set contains the roots, only valid handles, and is closed under children -/
theorem mark_spec {D : Dump α} (hs : D.storeOK = true) {top : Nat} {roots : List (Child α)}
    (hr : ∀ r, r ∈ roots → D.childOK top r = true) :
    (∀ h, Child.nd h ∈ roots → h ∈ mark D top roots) ∧
    ValidSet D top (mark D top roots) ∧
    (∀ n, n ∈ D → n.handle ∈ mark D top roots → ∀ h, Child.nd h ∈ n.down → h ∈ mark D top roots) := by
  have hv := roots_valid hr
  have hc0 : ClosedAbove D (handlesOf roots) top := by
    intro n hn hnM ht
    obtain ⟨m, hfm, hle⟩ := hv _ hnM
    rw [find_self hs hn] at hfm
    cases hfm
    omega
  obtain ⟨h1, h2⟩ := markIter_inv hs top (handlesOf roots) top hv hc0
  refine ⟨fun h hm => markIter_mono D top _ (mem_handlesOf.2 hm), h1, ?_⟩
  intro n hn hnM h hch
  rw [Nat.sub_self] at h2
  exact h2 n hn hnM (storeOK_node hs hn).2.1 h hch

omit [DecidableEq α] in
theorem mem_orderUpTo {D : Dump α} {M : List Nat} {n : DNode α} :
    ∀ {p : Nat}, n ∈ orderUpTo D M p ↔ n ∈ D ∧ 1 ≤ n.pos ∧ n.pos ≤ p ∧ n.handle ∈ M
  | 0 => by
    simp only [orderUpTo, List.not_mem_nil, false_iff]
    rintro ⟨_, h1, h2, _⟩; omega
  | p+1 => by
    simp only [orderUpTo, List.mem_append, List.mem_filter, Bool.and_eq_true, beq_iff_eq,
      List.contains_iff_mem]
    rw [mem_orderUpTo (p := p)]
    constructor
    · rintro (⟨h1, h2, h3, h4⟩ | ⟨h1, h2, h3⟩)
      · exact ⟨h1, h2, by omega, h4⟩
      · exact ⟨h1, by omega, by omega, h3⟩
    · rintro ⟨h1, h2, h3, h4⟩
      by_cases hp : n.pos = p+1
      · exact Or.inr ⟨h1, hp, h4⟩
      · exact Or.inl ⟨h1, h2, by omega, h4⟩

omit [DecidableEq α] in
theorem orderUpTo_sorted (D : Dump α) (M : List Nat) :
    ∀ p, List.Pairwise (fun a b : DNode α => a.pos ≤ b.pos) (orderUpTo D M p)
  | 0 => List.Pairwise.nil
  | p+1 => by
    simp only [orderUpTo]
    rw [List.pairwise_append]
    refine ⟨orderUpTo_sorted D M p, ?_, ?_⟩
    · have : ∀ l : List (DNode α), (∀ a ∈ l, a.pos = p+1) →
          List.Pairwise (fun a b : DNode α => a.pos ≤ b.pos) l := by
        intro l
        induction l with
        | nil => intro _; exact List.Pairwise.nil
        | cons a l ih =>
          intro h
          refine List.Pairwise.cons ?_ (ih (fun b hb => h b (List.mem_cons_of_mem _ hb)))
          intro b hb
          rw [h a (List.mem_cons_self ..), h b (List.mem_cons_of_mem _ hb)]
          exact Nat.le_refl _
      apply this
      intro a ha
      simp only [List.mem_filter, Bool.and_eq_true, beq_iff_eq] at ha
      exact ha.2.1
    · intro a ha b hb
      have h1 := (mem_orderUpTo.1 ha).2.2.1
      simp only [List.mem_filter, Bool.and_eq_true, beq_iff_eq] at hb
      omega

/-- what the reader's simulation needs to know about the writer's order -/
structure OrderOK (D : Dump α) (top : Nat) (roots : List (Child α)) (ordN : List (DNode α)) : Prop where
  mem : ∀ n, n ∈ ordN → n ∈ D ∧ 1 ≤ n.pos ∧ n.pos ≤ top
  earlier : ∀ pre n post, ordN = pre ++ n :: post → ∀ h, Child.nd h ∈ n.down → h ∈ pre.map (·.handle)
  roots : ∀ h, Child.nd h ∈ roots → h ∈ ordN.map (·.handle)

theorem order_ok {D : Dump α} (hs : D.storeOK = true) {top : Nat} {roots : List (Child α)}
    (hr : ∀ r, r ∈ roots → D.childOK top r = true) : OrderOK D top roots (order D top roots) := by
  obtain ⟨hroots, hvalid, hclosed⟩ := mark_spec hs hr
  refine ⟨?_, ?_, ?_⟩
  · intro n hn
    obtain ⟨h1, h2, h3, _⟩ := mem_orderUpTo.1 hn
    exact ⟨h1, h2, h3⟩
  · intro pre n post e h hch
    have hn : n ∈ order D top roots := by rw [e]; simp
    obtain ⟨hnD, hn1, hn2, hnM⟩ := mem_orderUpTo.1 hn
    have hhM := hclosed n hnD hnM h hch
    obtain ⟨m, hfm, hmD, hmh, hlt⟩ := child_of_store hs hnD hch
    have hm1 := (storeOK_node hs hmD).2.1
    have hm : m ∈ order D top roots :=
      mem_orderUpTo.2 ⟨hmD, hm1, by omega, by rw [hmh]; exact hhM⟩
    have hsorted := orderUpTo_sorted D (mark D top roots) top
    change List.Pairwise _ (order D top roots) at hsorted
    rw [e] at hm hsorted
    rw [List.pairwise_append] at hsorted
    obtain ⟨_, hs2, _⟩ := hsorted
    rcases List.mem_append.1 hm with hpre | hrest
    · exact List.mem_map.2 ⟨m, hpre, hmh⟩
    · rcases List.mem_cons.1 hrest with rfl | hpost
      · omega
      · have := (List.pairwise_cons.1 hs2).1 m hpost
        omega
  · intro h hm
    have hhM := hroots h hm
    obtain ⟨m, hfm, hle⟩ := hvalid h hhM
    have hmD := (find_some hfm).1
    have hmh := (find_some hfm).2
    have hm1 := (storeOK_node hs hmD).2.1
    exact List.mem_map.2 ⟨m, mem_orderUpTo.2 ⟨hmD, hm1, hle, by rw [hmh]; exact hhM⟩, hmh⟩


/-! ## Part B — the receiving store -/

/-- `D'` extends `D`: every handle of `D` resolves to the same node in `D'` -/
def Ext (D D' : Dump α) : Prop := ∀ h m, D.find h = some m → D'.find h = some m

theorem Ext.refl (D : Dump α) : Ext D D := fun _ _ h => h

theorem Ext.trans {D1 D2 D3 : Dump α} (h12 : Ext D1 D2) (h23 : Ext D2 D3) : Ext D1 D3 :=
  fun h m e => h23 h m (h12 h m e)

theorem Ext.childOK {D D' : Dump α} (he : Ext D D') {b : Nat} {c : Child α}
    (v : D.childOK b c = true) : D'.childOK b c = true := by
  cases c with
  | tm x => rfl
  | nd h =>
    obtain ⟨m, hm, hp⟩ := childOK_nd v
    simp only [Dump.childOK, he h m hm, decide_eq_true_eq]
    exact hp

theorem Ext.unfold {D D' : Dump α} (he : Ext D D') (zero : α) (hs : D.storeOK = true) :
    ∀ (f : Nat) (c : Child α), D.childOK f c = true → D'.unfold zero f c = D.unfold zero f c := by
  intro f
  induction f with
  | zero =>
    intro c v
    cases c with
    | tm x => simp
    | nd h => obtain ⟨_, _, _, hf, _⟩ := unfold_nd zero hs v; omega
  | succ g ih =>
    intro c v
    cases c with
    | tm x => simp
    | nd h =>
      obtain ⟨m, g0, hm, hf, _, hc, hu⟩ := unfold_nd zero hs v
      have hg : g0 = g := by omega
      subst hg
      rw [hu, unfold_nd_succ zero g0 (he h m hm)]
      congr 1
      apply List.map_congr_left
      intro c hcm
      exact ih c (hc c hcm)

/-- unfolding of a stored node with the uniform fuel `top` -/
theorem unfold_node_top {D : Dump α} (zero : α) (hs : D.storeOK = true) {top h : Nat} {m : DNode α}
    (hm : D.find h = some m) (hp : m.pos ≤ top) :
    D.unfold zero top (.nd h) = .node m.pos (m.down.map (D.unfold zero top)) := by
  obtain ⟨h1, hc⟩ := storeOK_find hs hm
  obtain ⟨g, rfl⟩ : ∃ g, top = g+1 := ⟨top - 1, by omega⟩
  rw [unfold_nd_succ zero g hm]
  congr 1
  apply List.map_congr_left
  intro c hcm
  exact (unfold_fuel zero hs g (g+1) c (childOK_mono (hc c hcm) (by omega)) (by omega)).symm

theorem all_zero_map {D : Dump α} (zero : α) (hs : D.storeOK = true) {g : Nat} :
    ∀ (cs : List (Child α)), (∀ c ∈ cs, D.childOK g c = true) →
      (cs.map (D.unfold zero g)).all (fun c => c == .leaf zero) = cs.all (fun c => c == .tm zero)
  | [], _ => rfl
  | c :: cs, hc => by
    have ih := all_zero_map zero hs cs (fun x hx => hc x (List.mem_cons_of_mem _ hx))
    simp only [List.map_cons, List.all_cons, ih,
      unfold_beq_leaf_zero zero hs (hc c (List.mem_cons_self ..))]

omit [DecidableEq α] in
theorem headD_map_unfold (D : Dump α) (zero : α) (g : Nat) (cs : List (Child α)) :
    (cs.map (D.unfold zero g)).headD (.leaf zero) = D.unfold zero g (cs.headD (.tm zero)) := by
  cases cs with
  | nil => simp
  | cons c cs => rfl

omit [DecidableEq α] in
theorem le_foldl_max (D : Dump α) : ∀ (init : Nat),
    init ≤ D.foldl (fun m n => max m n.handle) init ∧
    ∀ n, n ∈ D → n.handle ≤ D.foldl (fun m n => max m n.handle) init := by
  induction D with
  | nil => intro init; exact ⟨Nat.le_refl _, fun _ h => by cases h⟩
  | cons a D ih =>
    intro init
    obtain ⟨h1, h2⟩ := ih (max init a.handle)
    simp only [List.foldl_cons]
    refine ⟨by omega, ?_⟩
    intro n hn
    rcases List.mem_cons.1 hn with rfl | hn
    · omega
    · exact h2 n hn

omit [DecidableEq α] in
theorem lt_fresh {D : Dump α} {n : DNode α} (hn : n ∈ D) : n.handle < fresh D := by
  have := (le_foldl_max D 0).2 n hn
  unfold fresh
  omega

/-- `mkNode` without an incoming index when neither elimination applies -/
theorem mkNode_none_node (S : Shape) (zero : α) (k : Nat) (cs : List (DD α))
    (hz : cs.all (fun c => c == .leaf zero) = false)
    (hr : ¬ (S.mode k = .red ∧ cs.all (fun c => c == cs.headD (.leaf zero)) = true)) :
    DD.mkNode S zero k none cs = .node k cs := by
  unfold DD.mkNode
  rw [if_neg (by simp [hz])]
  cases hm : S.mode k with
  | red =>
    have : ¬ cs.all (fun c => c == cs.headD (.leaf zero)) = true := fun h => hr ⟨hm, h⟩
    simp only [if_neg this]
  | none => rfl
  | ident => rfl

/-- `createReducedNode` on the store computes `mkNode` on the unfoldings -/
theorem insertNode_spec (S : Shape) (zero : α) {D : Dump α} (hs : D.storeOK = true) {top pos : Nat}
    (hp1 : 1 ≤ pos) (hpt : pos ≤ top) {down : List (Child α)}
    (hd : ∀ c ∈ down, D.childOK (pos - 1) c = true) :
    (insertNode S zero D pos down).1.storeOK = true ∧
    Ext D (insertNode S zero D pos down).1 ∧
    (insertNode S zero D pos down).1.childOK pos (insertNode S zero D pos down).2 = true ∧
    (insertNode S zero D pos down).1.unfold zero top (insertNode S zero D pos down).2 =
      DD.mkNode S zero pos none (down.map (D.unfold zero top)) := by
  have hdt : ∀ c ∈ down, D.childOK top c = true := fun c hc => childOK_mono (hd c hc) (by omega)
  have hzm := all_zero_map zero hs down hdt
  have hhm := all_eq_head_map zero hs down hdt
  have hhd := headD_map_unfold D zero top down
  unfold insertNode
  by_cases hz : down.all (fun c => c == .tm zero) = true
  · rw [if_pos hz]
    refine ⟨hs, Ext.refl D, rfl, ?_⟩
    unfold DD.mkNode
    rw [if_pos (by rw [hzm]; exact hz)]
    simp
  · rw [if_neg hz]
    have hz' : (down.map (D.unfold zero top)).all (fun c => c == .leaf zero) = false := by
      rw [hzm]; simpa using hz
    by_cases hr : S.mode pos = .red ∧ down.all (fun c => c == down.headD (.tm zero)) = true
    · rw [if_pos hr]
      have hne : down ≠ [] := by
        intro e; rw [e] at hz; exact hz rfl
      have hhead : down.headD (.tm zero) ∈ down := by
        cases down with
        | nil => exact absurd rfl hne
        | cons c cs => simp
      refine ⟨hs, Ext.refl D, childOK_mono (hd _ hhead) (by omega), ?_⟩
      unfold DD.mkNode
      rw [if_neg (by simp [hz']), hr.1]
      simp only
      rw [if_pos (by rw [hhm]; exact hr.2), hhd]
    · rw [if_neg hr]
      have hmk : DD.mkNode S zero pos none (down.map (D.unfold zero top)) =
          .node pos (down.map (D.unfold zero top)) := by
        apply mkNode_none_node S zero pos _ hz'
        rw [hhm]; exact hr
      rw [hmk]
      cases hf : D.find? (fun n => n.pos == pos && n.down == down) with
      | some n =>
        have hnD : n ∈ D := List.mem_of_find?_eq_some hf
        have hpn := List.find?_some hf
        simp only [Bool.and_eq_true, beq_iff_eq] at hpn
        obtain ⟨hnp, hnd⟩ := hpn
        have hfn := find_self hs hnD
        refine ⟨hs, Ext.refl D, ?_, ?_⟩
        · simp only [Dump.childOK, hfn, decide_eq_true_eq]; omega
        · show D.unfold zero top (.nd n.handle) = _
          rw [unfold_node_top zero hs hfn (by omega), hnp, hnd]
      | none =>
        have hnone := List.find?_eq_none.1 hf
        show Dump.storeOK (⟨fresh D, pos, down⟩ :: D) = true ∧ Ext D (⟨fresh D, pos, down⟩ :: D) ∧
          Dump.childOK (⟨fresh D, pos, down⟩ :: D) pos (.nd (fresh D)) = true ∧
          Dump.unfold (⟨fresh D, pos, down⟩ :: D) zero top (.nd (fresh D)) = _
        have hext : Ext D (⟨fresh D, pos, down⟩ :: D) := by
          intro h m hm
          have hmD := (find_some hm).1
          have hmh := (find_some hm).2
          have := lt_fresh hmD
          unfold Dump.find at hm ⊢
          rw [List.find?_cons_of_neg (by simp; omega)]
          exact hm
        have hfnew : Dump.find (⟨fresh D, pos, down⟩ :: D) (fresh D) = some ⟨fresh D, pos, down⟩ := by
          simp [Dump.find]
        have hs' : Dump.storeOK (⟨fresh D, pos, down⟩ :: D) = true := by
          simp only [Dump.storeOK, Bool.and_eq_true, List.all_eq_true, decide_eq_true_eq]
          refine ⟨?_, ?_⟩
          · intro n hn
            rcases List.mem_cons.1 hn with rfl | hn
            · exact ⟨⟨(Nat.succ_pos _ : 0 < fresh D), hp1⟩, fun c hc => hext.childOK (hd c hc)⟩
            · obtain ⟨h1, h2, h3⟩ := storeOK_node hs hn
              exact ⟨⟨h1, h2⟩, fun c hc => hext.childOK (h3 c hc)⟩
          · simp only [Dump.distinctOK, Bool.and_eq_true, List.all_eq_true, bne_iff_ne, ne_eq,
              Bool.not_eq_true', Bool.and_eq_false_iff, beq_eq_false_iff_ne]
            refine ⟨?_, storeOK_distinct hs⟩
            intro m hm
            refine ⟨by have := lt_fresh hm; omega, ?_⟩
            have := hnone m hm
            simp only [Bool.and_eq_true, beq_iff_eq, not_and] at this
            by_cases hpm : m.pos = pos
            · exact Or.inr (this hpm)
            · exact Or.inl hpm
        refine ⟨hs', hext, ?_, ?_⟩
        · simp only [Dump.childOK, hfnew, decide_eq_true_eq]; exact Nat.le_refl _
        · rw [unfold_node_top zero hs' hfnew hpt]
          congr 1
          apply List.map_congr_left
          intro c hc
          exact hext.unfold zero hs top c (hdt c hc)


/-- `insertNode` adds at most the node it was asked for, in front of the store -/
theorem insertNode_new (S : Shape) (zero : α) (D : Dump α) (pos : Nat) (down : List (Child α)) :
    (insertNode S zero D pos down).1 = D ∨
    (insertNode S zero D pos down).1 = ⟨fresh D, pos, down⟩ :: D := by
  unfold insertNode
  split
  · exact Or.inl rfl
  · split
    · exact Or.inl rfl
    · split
      · exact Or.inl rfl
      · exact Or.inr rfl

/-! ## Part C — reading back what was written -/

/- what the reader makes of a tree: every node goes through `createReducedNode` (no incoming
   index) under the reader's shape, bottom-up -/
mutual
def rebuild (S : Shape) (zero : α) : DD α → DD α
  | .leaf v => .leaf v
  | .node p cs => DD.mkNode S zero p none (rebuildL S zero cs)
def rebuildL (S : Shape) (zero : α) : List (DD α) → List (DD α)
  | [] => []
  | c :: cs => rebuild S zero c :: rebuildL S zero cs
end

theorem rebuildL_eq_map (S : Shape) (zero : α) : ∀ cs : List (DD α),
    rebuildL S zero cs = cs.map (rebuild S zero)
  | [] => by simp [rebuildL]
  | c :: cs => by simp [rebuildL, rebuildL_eq_map S zero cs]

theorem rebuild_leaf (S : Shape) (zero v : α) : rebuild S zero (.leaf v) = .leaf v := by
  simp [rebuild]

theorem rebuild_node (S : Shape) (zero : α) (p : Nat) (cs : List (DD α)) :
    rebuild S zero (.node p cs) = DD.mkNode S zero p none (cs.map (rebuild S zero)) := by
  simp [rebuild, rebuildL_eq_map]

/-- two lists related position by position -/
def Rel {A B : Type} (R : A → B → Prop) : List A → List B → Prop
  | [], [] => True
  | a :: as, b :: bs => R a b ∧ Rel R as bs
  | _, _ => False

theorem Rel.snoc {A B : Type} {R : A → B → Prop} : ∀ {as : List A} {bs : List B} {a : A} {b : B},
    Rel R as bs → R a b → Rel R (as ++ [a]) (bs ++ [b])
  | [], [], _, _, _, h => ⟨h, trivial⟩
  | [], _ :: _, _, _, h, _ => h.elim
  | _ :: _, [], _, _, h, _ => h.elim
  | _ :: _, _ :: _, _, _, h, hab => ⟨h.1, Rel.snoc h.2 hab⟩

theorem Rel.imp {A B : Type} {R R' : A → B → Prop} (hi : ∀ a b, R a b → R' a b) :
    ∀ {as : List A} {bs : List B}, Rel R as bs → Rel R' as bs
  | [], [], _ => trivial
  | [], _ :: _, h => h.elim
  | _ :: _, [], h => h.elim
  | _ :: _, _ :: _, h => ⟨hi _ _ h.1, Rel.imp hi h.2⟩

theorem Rel.get {A B : Type} {R : A → B → Prop} : ∀ {as : List A} {bs : List B}, Rel R as bs →
    ∀ (i : Nat) (a : A), as[i]? = some a → ∃ b, bs[i]? = some b ∧ R a b
  | [], _, _, _, _, e => by simp at e
  | _ :: _, [], h, _, _, _ => h.elim
  | x :: as, y :: bs, h, 0, a, e => by
    simp only [List.getElem?_cons_zero, Option.some.injEq] at e
    subst e
    exact ⟨y, by simp, h.1⟩
  | x :: as, y :: bs, h, i+1, a, e => by
    simp only [List.getElem?_cons_succ] at e
    obtain ⟨b, hb, hr⟩ := Rel.get h.2 i a e
    exact ⟨b, by simpa using hb, hr⟩

theorem indexIn_get : ∀ {l : List Nat} {h : Nat}, h ∈ l → l[indexIn l h]? = some h
  | [], _, hm => by cases hm
  | x :: xs, h, hm => by
    unfold indexIn
    by_cases e : x = h
    · rw [if_pos e]; simp [e]
    · rw [if_neg e]
      have : h ∈ xs := by
        rcases List.mem_cons.1 hm with e' | hm'
        · exact absurd e'.symm e
        · exact hm'
      simpa using indexIn_get this

theorem indexIn_append : ∀ {l1 : List Nat} (l2 : List Nat) {h : Nat}, h ∈ l1 →
    indexIn (l1 ++ l2) h = indexIn l1 h
  | [], _, _, hm => by cases hm
  | x :: xs, l2, h, hm => by
    simp only [List.cons_append, indexIn]
    by_cases e : x = h
    · rw [if_pos e, if_pos e]
    · rw [if_neg e, if_neg e]
      have : h ∈ xs := by
        rcases List.mem_cons.1 hm with e' | hm'
        · exact absurd e'.symm e
        · exact hm'
      rw [indexIn_append l2 this]

section sim
variable (S : Shape) (zero : α) (Dw : Dump α)

/-- the reader's map entry `c` (in store `D`) stands for the writer's node `h` -/
def Good (D : Dump α) (h : Nat) (c : Child α) : Prop :=
  D.childOK (Dw.cpos (.nd h)) c = true ∧ D.childOK S.top c = true ∧
  D.unfold zero S.top c = rebuild S zero (Dw.unfold zero S.top (.nd h))

theorem Good.ext {D D' : Dump α} (hs : D.storeOK = true) (he : Ext D D') {h : Nat} {c : Child α}
    (g : Good S zero Dw D h c) : Good S zero Dw D' h c :=
  ⟨he.childOK g.1, he.childOK g.2.1, by rw [he.unfold zero hs _ _ g.2.1]; exact g.2.2⟩

theorem resolveAll_spec {map : List (Child α)} {ord : List Nat} (Q : Child α → Prop)
    (U : Child α → DD α) (V : Child α → DD α) :
    ∀ (cs : List (Child α)),
      (∀ c ∈ cs, ∃ c', resolve map (encChild ord c) = some c' ∧ Q c' ∧ U c' = V c) →
      ∃ cs', resolveAll map (cs.map (encChild ord)) = some cs' ∧ (∀ c' ∈ cs', Q c') ∧
        cs'.map U = cs.map V
  | [], _ => ⟨[], rfl, (fun _ h => by cases h), rfl⟩
  | c :: cs, hc => by
    obtain ⟨c', h1, h2, h3⟩ := hc c (List.mem_cons_self ..)
    obtain ⟨cs', g1, g2, g3⟩ := resolveAll_spec Q U V cs (fun x hx => hc x (List.mem_cons_of_mem _ hx))
    refine ⟨c' :: cs', ?_, ?_, ?_⟩
    · simp only [List.map_cons, resolveAll, h1, g1]
    · intro x hx
      rcases List.mem_cons.1 hx with rfl | hx
      · exact h2
      · exact g2 x hx
    · simp only [List.map_cons, h3, g3]

/-- a child of a written node (or a root), all of whose node handles were already read,
    resolves to a child of the receiving store that unfolds to the rebuilt tree -/
theorem resolve_child (_hsw : Dw.storeOK = true) {D : Dump α} {preH restH : List Nat}
    {map : List (Child α)} (hrel : Rel (Good S zero Dw D) preH map) {b : Nat} {c : Child α}
    (hv : Dw.childOK b c = true) (hpre : ∀ h, c = .nd h → h ∈ preH) :
    ∃ c', resolve map (encChild (preH ++ restH) c) = some c' ∧
      (D.childOK b c' = true ∧ D.childOK S.top c' = true) ∧
      D.unfold zero S.top c' = rebuild S zero (Dw.unfold zero S.top c) := by
  cases c with
  | tm v =>
    exact ⟨.tm v, rfl, ⟨rfl, rfl⟩, by simp [rebuild_leaf]⟩
  | nd h =>
    have hm := hpre h rfl
    have hget : preH[indexIn (preH ++ restH) h]? = some h := by
      rw [indexIn_append restH hm]; exact indexIn_get hm
    obtain ⟨c', hc', hg⟩ := Rel.get hrel _ _ hget
    refine ⟨c', ?_, ⟨?_, hg.2.1⟩, hg.2.2⟩
    · simp only [encChild, resolve, Nat.add_one_ne_zero, if_false, Nat.add_sub_cancel]
      exact hc'
    · obtain ⟨m, hfm, hle⟩ := childOK_nd hv
      have : Dw.cpos (.nd h) = m.pos := by simp [Dump.cpos, hfm]
      exact childOK_mono hg.1 (by omega)

theorem readRecs_sim (hsw : Dw.storeOK = true) {roots : List (Child α)} {ordN : List (DNode α)}
    (hOK : OrderOK Dw S.top roots ordN) :
    ∀ (post pre : List (DNode α)) (D : Dump α) (map : List (Child α)),
      ordN = pre ++ post → D.storeOK = true → Rel (Good S zero Dw D) (pre.map (·.handle)) map →
      ∃ D' map', readRecs S zero (post.map (encRec (ordN.map (·.handle)))) D map = some (D', map') ∧
        D'.storeOK = true ∧ Ext D D' ∧ Rel (Good S zero Dw D') (ordN.map (·.handle)) map' ∧
        (∃ added, D' = added ++ D ∧ ∀ n', n' ∈ added → ∃ w, w ∈ post ∧ n'.pos = w.pos ∧
          n'.down.map (D'.unfold zero S.top) =
            w.down.map (fun c => rebuild S zero (Dw.unfold zero S.top c)))
  | [], pre, D, map, e, hs, hrel => by
    refine ⟨D, map, rfl, hs, Ext.refl D, ?_, [], rfl, fun _ h => by cases h⟩
    rw [e, List.append_nil]; exact hrel
  | n :: post, pre, D, map, e, hs, hrel => by
    obtain ⟨hnD, hn1, hnt⟩ := hOK.mem n (by rw [e]; simp)
    have hfn := find_self hsw hnD
    have hch := (storeOK_node hsw hnD).2.2
    have hordH : ordN.map (·.handle) = pre.map (·.handle) ++ (n :: post).map (·.handle) := by
      rw [e, List.map_append]
    -- resolve the children
    obtain ⟨down', hres, hq, hmap⟩ := resolveAll_spec (map := map) (ord := ordN.map (·.handle))
      (fun c' => D.childOK (n.pos - 1) c' = true ∧ D.childOK S.top c' = true)
      (D.unfold zero S.top) (fun c => rebuild S zero (Dw.unfold zero S.top c)) n.down (by
        intro c hc
        rw [hordH]
        exact resolve_child S zero Dw hsw hrel (hch c hc)
          (fun h eh => hOK.earlier pre n post e h (by rw [← eh]; exact hc)))
    obtain ⟨hs1, hext, hok1, hun1⟩ := insertNode_spec S zero hs hn1 hnt (fun c hc => (hq c hc).1)
    -- the new map entry is good for `n`
    have hgood : Good S zero Dw (insertNode S zero D n.pos down').1 n.handle
        (insertNode S zero D n.pos down').2 := by
      have hcp : Dw.cpos (.nd n.handle) = n.pos := by simp [Dump.cpos, hfn]
      refine ⟨by rw [hcp]; exact hok1, childOK_mono hok1 hnt, ?_⟩
      rw [hun1, hmap, unfold_node_top zero hsw hfn hnt, rebuild_node, List.map_map]
      rfl
    have hrel1 : Rel (Good S zero Dw (insertNode S zero D n.pos down').1)
        ((pre ++ [n]).map (·.handle)) (map ++ [(insertNode S zero D n.pos down').2]) := by
      rw [List.map_append]
      exact Rel.snoc (Rel.imp (fun h c g => Good.ext S zero Dw hs hext g) hrel) hgood
    obtain ⟨D', map', hread, hs', hext', hrel', added, hadd, hnew⟩ :=
      readRecs_sim hsw hOK post (pre ++ [n]) _ _ (by rw [e]; simp) hs1 hrel1
    have hnews : ∃ added2, D' = added2 ++ D ∧ ∀ n', n' ∈ added2 → ∃ w, w ∈ n :: post ∧
        n'.pos = w.pos ∧ n'.down.map (D'.unfold zero S.top) =
          w.down.map (fun c => rebuild S zero (Dw.unfold zero S.top c)) := by
      rcases insertNode_new S zero D n.pos down' with hsame | hcons
      · refine ⟨added, by rw [hadd, hsame], ?_⟩
        intro n' hn'
        obtain ⟨w, hw, h1, h2⟩ := hnew n' hn'
        exact ⟨w, List.mem_cons_of_mem _ hw, h1, h2⟩
      · refine ⟨added ++ [⟨fresh D, n.pos, down'⟩], by rw [hadd, hcons]; simp, ?_⟩
        intro n' hn'
        rcases List.mem_append.1 hn' with hn' | hn'
        · obtain ⟨w, hw, h1, h2⟩ := hnew n' hn'
          exact ⟨w, List.mem_cons_of_mem _ hw, h1, h2⟩
        · rw [List.mem_singleton] at hn'
          subst hn'
          refine ⟨n, List.mem_cons_self .., rfl, ?_⟩
          rw [← hmap]
          apply List.map_congr_left
          intro c hc
          exact (hext.trans hext').unfold zero hs _ c (hq c hc).2
    refine ⟨D', map', ?_, hs', hext.trans hext', hrel', hnews⟩
    simp only [List.map_cons, readRecs]
    have hpos : ¬ ((encRec (ordN.map (·.handle)) n).pos = 0 ∨ S.top < (encRec (ordN.map (·.handle)) n).pos) := by
      simp only [encRec]; omega
    rw [if_neg hpos]
    simp only [encRec] at hres ⊢
    rw [hres]
    exact hread

/-- reading the records and roots produced by the writer: succeeds, extends the receiving store,
    and every root unfolds to the rebuilt tree of the written root -/
theorem readF_writeF (hsw : Dw.storeOK = true) {roots : List (Child α)}
    (hr : ∀ r, r ∈ roots → Dw.childOK S.top r = true) {D0 : Dump α} (hs0 : D0.storeOK = true) :
    ∃ D' roots', readF S zero D0 (writeF Dw S.top roots) = some (D', roots') ∧
      D'.storeOK = true ∧ Ext D0 D' ∧ (∀ c, c ∈ roots' → D'.childOK S.top c = true) ∧
      roots'.map (D'.unfold zero S.top) =
        roots.map (fun r => rebuild S zero (Dw.unfold zero S.top r)) ∧
      (∃ added, D' = added ++ D0 ∧ ∀ n', n' ∈ added → ∃ w, w ∈ Dw ∧ n'.pos = w.pos ∧
        n'.down.map (D'.unfold zero S.top) =
          w.down.map (fun c => rebuild S zero (Dw.unfold zero S.top c))) := by
  have hOK := order_ok hsw hr
  obtain ⟨D', map', hread, hs', hext, hrel, added, hadd, hnew⟩ :=
    readRecs_sim S zero Dw hsw hOK (order Dw S.top roots) [] D0 [] rfl hs0 trivial
  obtain ⟨roots', hres, hq, hmap⟩ := resolveAll_spec (map := map')
    (ord := (order Dw S.top roots).map (·.handle))
    (fun c' => D'.childOK S.top c' = true ∧ D'.childOK S.top c' = true)
    (D'.unfold zero S.top) (fun c => rebuild S zero (Dw.unfold zero S.top c)) roots (by
      intro c hc
      have := resolve_child S zero Dw hsw (restH := []) hrel (hr c hc)
        (fun h eh => hOK.roots h (by rw [← eh]; exact hc))
      rw [List.append_nil] at this
      exact this)
  refine ⟨D', roots', ?_, hs', hext, fun c hc => (hq c hc).1, hmap, added, hadd, ?_⟩
  · simp only [readF, writeF]
    rw [hread]
    simp only
    rw [hres]
  · intro n' hn'
    obtain ⟨w, hw, h1, h2⟩ := hnew n' hn'
    exact ⟨w, (hOK.mem w hw).1, h1, h2⟩

end sim


/-! ## Part D — the token level -/

omit [DecidableEq α] in
theorem takeChildren_enc : ∀ (cs : List (FChild α)) (rest : List (Tok α)),
    takeChildren cs.length (cs.map encFChild ++ rest) = some (cs, rest)
  | [], _ => rfl
  | .ref i :: cs, rest => by
    simp only [List.length_cons, List.map_cons, encFChild, List.cons_append, takeChildren,
      takeChildren_enc cs rest, Option.map_some]
  | .term v :: cs, rest => by
    simp only [List.length_cons, List.map_cons, encFChild, List.cons_append, takeChildren,
      takeChildren_enc cs rest, Option.map_some]

omit [DecidableEq α] in
theorem takeNats_enc : ∀ (ns : List Nat) (rest : List (Tok α)),
    takeNats ns.length (ns.map (fun (n : Nat) => (Tok.int (n : Int) : Tok α)) ++ rest) = some (ns, rest)
  | [], _ => rfl
  | n :: ns, rest => by
    have hn : ¬ ((n : Int) < 0) := by omega
    simp only [List.length_cons, List.map_cons, List.cons_append, takeNats, if_neg hn,
      takeNats_enc ns rest, Option.map_some, Int.toNat_natCast]

theorem pad_dropTZ (zero : α) : ∀ (cs : List (FChild α)),
    dropTZ zero cs ++ List.replicate (cs.length - (dropTZ zero cs).length) (.term zero) = cs
  | [] => rfl
  | c :: cs => by
    have ih := pad_dropTZ zero cs
    unfold dropTZ
    cases hr : dropTZ zero cs with
    | nil =>
      rw [hr] at ih
      simp only [List.nil_append, List.length_nil, Nat.sub_zero] at ih
      by_cases hc : c = .term zero
      · simp only [if_pos hc, List.nil_append, List.length_nil, List.length_cons, Nat.sub_zero,
          List.replicate_succ]
        rw [ih, hc]
      · simp only [if_neg hc, List.length_cons, List.length_nil, List.cons_append, List.nil_append]
        have e : cs.length + 1 - (0 + 1) = cs.length := by omega
        rw [e, ih]
    | cons x r =>
      rw [hr] at ih
      simp only [List.length_cons, List.cons_append] at ih ⊢
      have e : cs.length + 1 - (r.length + 1 + 1) = cs.length - (r.length + 1) := by omega
      rw [e, ih]

theorem dropTZ_length_le (zero : α) (cs : List (FChild α)) : (dropTZ zero cs).length ≤ cs.length := by
  have h := congrArg List.length (pad_dropTZ zero cs)
  simp only [List.length_append, List.length_replicate] at h
  omega

omit [DecidableEq α] in
theorem lookupIdx_lt (zero : α) [DecidableEq α] : ∀ (cs : List (FChild α)) (i j : Nat), j < i →
    lookupIdx j (sparsify zero i cs) = none
  | [], _, _, _ => rfl
  | c :: cs, i, j, hj => by
    unfold sparsify
    by_cases hc : c = .term zero
    · rw [if_pos hc]; exact lookupIdx_lt zero cs (i+1) j (by omega)
    · rw [if_neg hc]
      simp only [lookupIdx]
      rw [if_neg (by omega)]
      exact lookupIdx_lt zero cs (i+1) j (by omega)

omit [DecidableEq α] in
theorem expandFrom_skip (zero : α) (i : Nat) (c : FChild α) (ps : List (Nat × FChild α)) :
    ∀ (n k : Nat), i < k → expandFrom zero ((i, c) :: ps) k n = expandFrom zero ps k n
  | 0, _, _ => rfl
  | n+1, k, hk => by
    simp only [expandFrom, lookupIdx]
    rw [if_neg (by omega), expandFrom_skip zero i c ps n (k+1) (by omega)]

theorem expand_sparsify (zero : α) : ∀ (cs : List (FChild α)) (i : Nat),
    expandFrom zero (sparsify zero i cs) i cs.length = cs
  | [], _ => rfl
  | c :: cs, i => by
    unfold sparsify
    by_cases hc : c = .term zero
    · rw [if_pos hc]
      simp only [List.length_cons, expandFrom, lookupIdx_lt zero cs (i+1) i (by omega),
        Option.getD_none, expand_sparsify zero cs (i+1)]
      rw [hc]
    · rw [if_neg hc]
      simp only [List.length_cons, expandFrom, lookupIdx, if_true, Option.getD_some]
      rw [expandFrom_skip zero i c _ cs.length (i+1) (by omega), expand_sparsify zero cs (i+1)]

theorem sparsify_nil (zero : α) : ∀ (cs : List (FChild α)) (i : Nat), sparsify zero i cs = [] →
    cs = List.replicate cs.length (.term zero)
  | [], _, _ => rfl
  | c :: cs, i, h => by
    unfold sparsify at h
    by_cases hc : c = .term zero
    · rw [if_pos hc] at h
      rw [List.length_cons, List.replicate_succ, ← sparsify_nil zero cs (i+1) h, hc]
    · rw [if_neg hc] at h; cases h

omit [DecidableEq α] in
theorem zip_fst_snd {A B : Type} : ∀ (ps : List (A × B)), (ps.map Prod.fst).zip (ps.map Prod.snd) = ps
  | [] => rfl
  | p :: ps => by simp [zip_fst_snd ps]

/-- one record survives encoding, whatever form the writer's storage policy picks -/
theorem decodeRec_encodeRec (S : Shape) (zero : α) (sp : FRec α → Bool) (r : FRec α)
    (hlen : r.down.length = S.size r.pos) (rest : List (Tok α)) :
    decodeRec S zero (encodeRec zero sp r ++ rest) = some (r, rest) := by
  have hp : ¬ ((r.pos : Int) < 0) := by omega
  unfold encodeRec
  cases hsp : sp r with
  | true =>
    simp only [if_true]
    cases hps : sparsify zero 0 r.down with
    | nil =>
      -- `-0`: read as a full node of size 0
      have hz := sparsify_nil zero r.down 0 hps
      simp only [List.length_nil, List.map_nil, List.append_nil, List.cons_append, List.nil_append,
        decodeRec, if_neg hp, Int.toNat_natCast]
      have : ¬ (-((0 : Nat) : Int) < 0) := by omega
      rw [if_neg this]
      simp only [Int.natCast_zero, Int.neg_zero, Int.toNat_zero, takeChildren, pad, List.length_nil,
        Nat.sub_zero, List.nil_append, ← hlen, ← hz]
    | cons q ps =>
      have hneg : -(((q :: ps).length : Nat) : Int) < 0 := by simp only [List.length_cons]; omega
      have hexp := expand_sparsify zero r.down 0
      rw [hps] at hexp
      simp only [List.cons_append, List.nil_append, List.append_assoc, decodeRec, if_neg hp,
        if_pos hneg, Int.natAbs_neg, Int.natAbs_natCast, Int.toNat_natCast]
      have h1 := takeNats_enc ((q :: ps).map Prod.fst)
        ((q :: ps).map (fun p => encFChild p.2) ++ rest)
      simp only [List.length_map, List.map_map] at h1
      have e1 : (fun p : Nat × FChild α => (Tok.int (p.1 : Int) : Tok α)) =
          ((fun (n : Nat) => (Tok.int (n : Int) : Tok α)) ∘ Prod.fst) := rfl
      rw [e1, h1]
      have h2 := takeChildren_enc ((q :: ps).map Prod.snd) rest
      simp only [List.length_map, List.map_map] at h2
      have e2 : (fun p : Nat × FChild α => encFChild p.2) = ((encFChild : FChild α → Tok α) ∘ Prod.snd) := rfl
      rw [e2]
      simp only
      rw [h2]
      simp only [zip_fst_snd, expand, ← hlen, hexp]
  | false =>
    simp only [Bool.false_eq_true, if_false, List.cons_append, List.nil_append, decodeRec, if_neg hp,
      Int.toNat_natCast]
    have hz : ¬ (((dropTZ zero r.down).length : Int) < 0) := by omega
    rw [if_neg hz]
    simp only [takeChildren_enc, pad, ← hlen, pad_dropTZ]

theorem decodeRecs_encode (S : Shape) (zero : α) (sp : FRec α → Bool) :
    ∀ (recs : List (FRec α)), (∀ r ∈ recs, r.down.length = S.size r.pos) → ∀ (rest : List (Tok α)),
      decodeRecs S zero recs.length (recs.flatMap (encodeRec zero sp) ++ rest) = some (recs, rest)
  | [], _, _ => rfl
  | r :: recs, h, rest => by
    simp only [List.length_cons, List.flatMap_cons, List.append_assoc, decodeRecs]
    rw [decodeRec_encodeRec S zero sp r (h r (List.mem_cons_self ..))]
    simp only
    rw [decodeRecs_encode S zero sp recs (fun x hx => h x (List.mem_cons_of_mem _ hx))]
    rfl

/-- the token level is lossless for files whose records have the reader's variable sizes -/
theorem decode_encode (S : Shape) (zero : α) (sp : FRec α → Bool) (f : File α)
    (h : ∀ r ∈ f.recs, r.down.length = S.size r.pos) :
    decode S zero (encode zero sp f) = some f := by
  have h1 : ¬ ((f.recs.length : Int) < 0) := by omega
  have h2 : ¬ ((f.roots.length : Int) < 0) := by omega
  simp only [encode, List.cons_append, List.nil_append, List.append_assoc, decode, if_neg h1,
    Int.toNat_natCast]
  rw [decodeRecs_encode S zero sp f.recs h]
  simp only [if_neg h2, Int.toNat_natCast, takeChildren_enc]


/-! ## Part E — reduced trees, evaluation, certificates -/

/-- a reduced tree is a fixed point of the reader of the same shape -/
theorem rebuild_of_Red (S : Shape) (zero : α) :
    ∀ (k : Nat) (fi : Option Nat) (t : DD α), DD.Red S zero k fi t = true → rebuild S zero t = t := by
  intro k
  induction k with
  | zero =>
    intro fi t h
    obtain ⟨v, rfl⟩ := (DD.Red_zero_iff S zero fi t).mp h
    exact rebuild_leaf S zero v
  | succ k ih =>
    intro fi t h
    rcases DD.storedAt_cases (k+1) t with ⟨cs, rfl⟩ | hd
    · obtain ⟨_, _, ⟨c0, hc0, hne⟩, hred, hch⟩ := (DD.Red_succ_node S zero k fi cs).mp h
      have hid : cs.map (rebuild S zero) = cs := by
        have : ∀ c ∈ cs, rebuild S zero c = id c := by
          intro c hc
          obtain ⟨j, hj, rfl⟩ := List.getElem_of_mem hc
          have := hch j hj
          rw [List.getD_eq_getElem?_getD, List.getElem?_eq_getElem hj] at this
          exact ih (some j) _ this
        rw [List.map_congr_left this, List.map_id]
      rw [rebuild_node, hid]
      apply mkNode_none_node
      · rw [Bool.eq_false_iff]
        intro hall
        exact hne (beq_iff_eq.mp (List.all_eq_true.mp hall c0 hc0))
      · rintro ⟨hm, hall⟩
        exact hred hm (fun c hc => beq_iff_eq.mp (List.all_eq_true.mp hall c hc))
    · exact ih none t (DD.Red_succ_skip S zero k fi hd h).2

section checked
variable (S : Shape) (zero : α)

theorem check_parts {D : Dump α} {roots : List (Child α)} (hc : Dump.check S zero D roots = true) :
    D.storeOK = true ∧ D.all (nodeOK S zero D) = true ∧
    (∀ r, r ∈ roots → D.childOK S.top r = true ∧ edgeChk S zero D S.top none r = true) := by
  simp only [Dump.check, Bool.and_eq_true] at hc
  obtain ⟨⟨hs, hn⟩, hr⟩ := hc
  refine ⟨hs, hn, ?_⟩
  intro r hrm
  have := List.all_eq_true.1 hr r hrm
  simpa only [rootOK, Bool.and_eq_true] using this

theorem nodeOK_parts {D : Dump α} {n : DNode α} (h : nodeOK S zero D n = true) :
    n.pos ≤ S.top ∧ n.down.length = S.size n.pos ∧ edgesChk S zero D (n.pos - 1) 0 n.down = true := by
  simp only [nodeOK, Bool.and_eq_true, decide_eq_true_eq, beq_iff_eq] at h
  exact ⟨h.1.1.1.1, h.1.1.1.2, h.2⟩

/-- in a checked store the reader of the same shape leaves every child's tree alone -/
theorem rebuild_child_checked {D : Dump α} (hs : D.storeOK = true) (hn : D.all (nodeOK S zero D) = true)
    {w : DNode α} (hw : w ∈ D) : ∀ c, c ∈ w.down →
      rebuild S zero (D.unfold zero S.top c) = D.unfold zero S.top c := by
  intro c hc
  have hwOK := List.all_eq_true.1 hn w hw
  obtain ⟨hpt, _, hedges⟩ := nodeOK_parts S zero hwOK
  obtain ⟨j, hj, rfl⟩ := List.getElem_of_mem hc
  have h1 := edgesChk_getD S zero D (w.pos - 1) w.down 0 hedges j hj
  rw [List.getD_eq_getElem?_getD, List.getElem?_eq_getElem hj] at h1
  have hv := (storeOK_node hs hw).2.2 _ hc
  exact rebuild_of_Red S zero _ _ _
    (red_of_edgeChk S zero hs hn (w.pos - 1) _ _ S.top hv (by omega) h1)

theorem rebuild_root_checked {D : Dump α} {roots : List (Child α)}
    (hc : Dump.check S zero D roots = true) : ∀ r, r ∈ roots →
      rebuild S zero (D.unfold zero S.top r) = D.unfold zero S.top r := by
  intro r hr
  exact rebuild_of_Red S zero _ _ _ (check_sound S zero D roots hc r hr)

end checked


/-! ### The certificate only looks at the unfoldings -/

/-- `Dump.edgeChk` computed on the unfolded tree -/
def treeChk (S : Shape) (zero : α) : Nat → Option Nat → DD α → Bool
  | 0, _, _ => true
  | k+1, fi, t => DD.edgeOK S zero (k+1) fi t && (if t.pos = k+1 then true else treeChk S zero k none t)

theorem cpos_eq_pos {D : Dump α} (zero : α) (hs : D.storeOK = true) {f : Nat} {c : Child α}
    (v : D.childOK f c = true) : D.cpos c = (D.unfold zero f c).pos := by
  cases c with
  | tm x => simp [Dump.cpos, DD.pos]
  | nd h =>
    obtain ⟨m, g, hm, _, _, _, hu⟩ := unfold_nd zero hs v
    simp [Dump.cpos, hm, hu, DD.pos]

theorem edgeChk_eq_treeChk (S : Shape) (zero : α) {D : Dump α} (hs : D.storeOK = true) {f : Nat}
    {c : Child α} (v : D.childOK f c = true) :
    ∀ (k : Nat) (fi : Option Nat), edgeChk S zero D k fi c = treeChk S zero k fi (D.unfold zero f c)
  | 0, _ => rfl
  | k+1, fi => by
    simp only [edgeChk, treeChk, ← edgeOK_unfold S zero hs v, cpos_eq_pos zero hs v,
      edgeChk_eq_treeChk S zero hs v k none]

theorem edgesChk_transfer (S : Shape) (zero : α) {D1 D2 : Dump α} (hs1 : D1.storeOK = true)
    (hs2 : D2.storeOK = true) {f : Nat} (k : Nat) :
    ∀ (cs1 cs2 : List (Child α)) (i : Nat), (∀ c ∈ cs1, D1.childOK f c = true) →
      (∀ c ∈ cs2, D2.childOK f c = true) →
      cs1.map (D1.unfold zero f) = cs2.map (D2.unfold zero f) →
      edgesChk S zero D1 k i cs1 = edgesChk S zero D2 k i cs2
  | [], [], _, _, _, _ => rfl
  | [], _ :: _, _, _, _, e => by simp at e
  | _ :: _, [], _, _, _, e => by simp at e
  | c1 :: cs1, c2 :: cs2, i, h1, h2, e => by
    simp only [List.map_cons, List.cons.injEq] at e
    simp only [edgesChk]
    rw [edgeChk_eq_treeChk S zero hs1 (h1 c1 (List.mem_cons_self ..)),
      edgeChk_eq_treeChk S zero hs2 (h2 c2 (List.mem_cons_self ..)), e.1,
      edgesChk_transfer S zero hs1 hs2 k cs1 cs2 (i+1)
        (fun c hc => h1 c (List.mem_cons_of_mem _ hc)) (fun c hc => h2 c (List.mem_cons_of_mem _ hc)) e.2]

/-- two node records (possibly in different stores) at the same position whose children unfold to
    the same trees pass or fail the node-local certificate together -/
theorem nodeOK_transfer (S : Shape) (zero : α) {D1 D2 : Dump α} (hs1 : D1.storeOK = true)
    (hs2 : D2.storeOK = true) {f : Nat} {n1 n2 : DNode α} (hp : n1.pos = n2.pos)
    (h1 : ∀ c ∈ n1.down, D1.childOK f c = true) (h2 : ∀ c ∈ n2.down, D2.childOK f c = true)
    (e : n1.down.map (D1.unfold zero f) = n2.down.map (D2.unfold zero f)) :
    nodeOK S zero D1 n1 = nodeOK S zero D2 n2 := by
  have hl : n1.down.length = n2.down.length := by
    have := congrArg List.length e
    simpa using this
  have e1 : n1.down.any (fun c => c != .tm zero) = n2.down.any (fun c => c != .tm zero) := by
    rw [← any_ne_zero_map zero hs1 n1.down h1, e, any_ne_zero_map zero hs2 n2.down h2]
  have e2 : n1.down.all (fun c => c == n1.down.headD (.tm zero)) =
      n2.down.all (fun c => c == n2.down.headD (.tm zero)) := by
    rw [← all_eq_head_map zero hs1 n1.down h1, e, all_eq_head_map zero hs2 n2.down h2]
  have e3 := edgesChk_transfer S zero hs1 hs2 (n1.pos - 1) n1.down n2.down 0 h1 h2 e
  unfold nodeOK
  rw [e1, e2, e3, hl, hp]


theorem distinctOK_append_disjoint : ∀ {a b : Dump α}, Dump.distinctOK (a ++ b) = true →
    ∀ x, x ∈ a → x ∈ b → False
  | [], _, _, _, hx, _ => by cases hx
  | y :: a, b, hd, x, hxa, hxb => by
    simp only [List.cons_append, Dump.distinctOK, Bool.and_eq_true, List.all_eq_true, bne_iff_ne,
      ne_eq] at hd
    rcases List.mem_cons.1 hxa with rfl | hxa'
    · exact (hd.1 x (List.mem_append_right _ hxb)).1 rfl
    · exact distinctOK_append_disjoint hd.2 x hxa' hxb

omit [DecidableEq α] in
theorem writeF_sized (S : Shape) {Dw : Dump α} {roots : List (Child α)} [DecidableEq α]
    (hsw : Dw.storeOK = true) (hr : ∀ r, r ∈ roots → Dw.childOK S.top r = true)
    (hlen : ∀ n, n ∈ Dw → n.down.length = S.size n.pos) :
    ∀ r, r ∈ (writeF Dw S.top roots).recs → r.down.length = S.size r.pos := by
  intro r hrm
  simp only [writeF, List.mem_map] at hrm
  obtain ⟨n, hn, rfl⟩ := hrm
  have := hlen n ((order_ok hsw hr).mem n hn).1
  simpa [encRec] using this

/-! ### Evaluation under the reader's shape -/

/-- every stored node has a legal position and as many children as the variable has values -/
inductive Sized (S : Shape) : DD α → Prop where
  | leaf (v : α) : Sized S (.leaf v)
  | node (p : Nat) (cs : List (DD α)) : 1 ≤ p → cs.length = S.size p →
      (∀ c, c ∈ cs → Sized S c) → Sized S (.node p cs)

omit [DecidableEq α] in
theorem Sized.child {S : Shape} {p : Nat} {cs : List (DD α)} (h : Sized S (.node p cs)) (zero : α)
    (i : Nat) : Sized S (cs.getD i (.leaf zero)) := by
  cases h with
  | node _ _ _ _ hc =>
    rcases DD.getD_mem_or cs i (.leaf zero) with hm | he
    · exact hc _ hm
    · rw [he]; exact Sized.leaf _

theorem Red_Sized {Sw S : Shape} (hsv : DD.SameVars Sw S) (zero : α) :
    ∀ (k : Nat) (fi : Option Nat) (d : DD α), DD.Red Sw zero k fi d = true → Sized S d := by
  intro k
  induction k with
  | zero =>
    intro fi d h
    obtain ⟨v, rfl⟩ := (DD.Red_zero_iff Sw zero fi d).mp h
    exact Sized.leaf _
  | succ k ih =>
    intro fi d h
    rcases DD.storedAt_cases (k+1) d with ⟨cs, rfl⟩ | hd
    · obtain ⟨_, hl, _, _, hch⟩ := (DD.Red_succ_node Sw zero k fi cs).mp h
      refine Sized.node _ _ (by omega) (by rw [hl, hsv.size]) ?_
      intro c hc
      obtain ⟨j, hj, rfl⟩ := List.getElem_of_mem hc
      have := hch j hj
      rw [List.getD_eq_getElem?_getD, List.getElem?_eq_getElem hj] at this
      exact ih (some j) _ this
    · exact ih none d (DD.Red_succ_skip Sw zero k fi hd h).2

/-- `mkNode` without an incoming index denotes the function whose cofactors are the children -/
theorem mkNode_none_eval (S : Shape) (zero : α) (k : Nat) (cs : List (DD α)) (x : Assign)
    (hlen : cs.length = S.size (k+1)) (hx : x (k+1) < S.size (k+1))
    (hb : ∀ c, c ∈ cs → DD.Below k c) :
    DD.eval S zero (k+1) (DD.mkNode S zero (k+1) none cs) x
      = DD.eval S zero k (cs.getD (x (k+1)) (.leaf zero)) x := by
  have hbg : ∀ i, DD.Below k (cs.getD i (.leaf zero)) := by
    intro i
    rcases DD.getD_mem_or cs i (.leaf zero) with hm | he
    · exact hb _ hm
    · rw [he]; exact DD.Below_leaf _ _
  rcases DD.mkNode_cases S zero (k+1) none cs with ⟨hz, hr⟩ | ⟨_, hm, hh, hr⟩ | ⟨_, _, i, hi, _⟩ |
      ⟨_, hr, _, _⟩
  · rw [hr, DD.eval_leaf_zero, DD.all_leaf_zero_getD zero cs hz, DD.eval_leaf_zero]
  · rw [hr, DD.all_head_getD _ cs hh _ (by rw [hlen]; exact hx)]
    have hbh : DD.Below k (cs.headD (.leaf zero)) := by rw [DD.headD_eq_getD]; exact hbg 0
    rw [DD.eval_succ_skip S zero k x hbh.not_nodeAt]
    have : ¬ (S.mode (k+1) = .ident ∧ x (k+1) ≠ x (k+2)) := by
      intro h; rw [hm] at h; cases h.1
    rw [if_neg this]
  · cases hi
  · rw [hr, DD.eval_succ_node]

theorem getD_map_rebuild (S : Shape) (zero : α) (cs : List (DD α)) (i : Nat) :
    (cs.map (rebuild S zero)).getD i (.leaf zero) = rebuild S zero (cs.getD i (.leaf zero)) := by
  simp only [List.getD_eq_getElem?_getD, List.getElem?_map]
  cases cs[i]? <;> simp [rebuild_leaf]

/-- the reader's reductions preserve the denotation UNDER THE READER'S SHAPE -/
theorem rebuild_eval (S : Shape) (zero : α) (x : Assign) (hx : Assign.Valid S x) :
    ∀ (k : Nat), k ≤ S.top → ∀ (t : DD α), DD.Below k t → DD.WFTree t → Sized S t →
      DD.Below k (rebuild S zero t) ∧
      DD.eval S zero k (rebuild S zero t) x = DD.eval S zero k t x := by
  intro k
  induction k with
  | zero =>
    intro _ t hb _ hsz
    cases t with
    | leaf v => rw [rebuild_leaf]; exact ⟨hb, rfl⟩
    | node p cs =>
      cases hsz with
      | node _ _ hp _ _ =>
        have : p ≤ 0 := hb
        omega
  | succ k ih =>
    intro hk t hb hw hsz
    cases t with
    | leaf v => rw [rebuild_leaf]; exact ⟨hb, rfl⟩
    | node p cs =>
      have hpk : p ≤ k+1 := hb
      by_cases hp : p = k+1
      · subst hp
        have hchild : ∀ c, c ∈ cs → DD.Below k c ∧ DD.WFTree c := by
          intro c hc
          have := hw.children c hc
          simpa using this
        have hlen : cs.length = S.size (k+1) := by
          cases hsz with
          | node _ _ _ hl _ => exact hl
        have hszc : ∀ c, c ∈ cs → Sized S c := by
          cases hsz with
          | node _ _ _ _ hc => exact hc
        have hbm : ∀ c, c ∈ cs.map (rebuild S zero) → DD.Below k c := by
          intro c hc
          obtain ⟨c0, hc0, rfl⟩ := List.mem_map.1 hc
          exact (ih (by omega) c0 (hchild c0 hc0).1 (hchild c0 hc0).2 (hszc c0 hc0)).1
        rw [rebuild_node]
        refine ⟨DD.mkNode_Below S zero k none _ hbm, ?_⟩
        rw [mkNode_none_eval S zero k _ x (by rw [List.length_map]; exact hlen)
          (hx (k+1) (by omega) hk) hbm, getD_map_rebuild, DD.eval_succ_node]
        have hc := hw.child zero (x (k+1))
        exact (ih (by omega) _ (by simpa using hc.1) hc.2 (hsz.child zero _)).2
      · have hbk : DD.Below k (.node p cs : DD α) := by
          show p ≤ k
          omega
        obtain ⟨h1, h2⟩ := ih (by omega) _ hbk hw hsz
        refine ⟨h1.mono (Nat.le_succ k), ?_⟩
        rw [DD.eval_succ_skip S zero k x h1.not_nodeAt, DD.eval_succ_skip S zero k x hbk.not_nodeAt, h2]

/-- a tree reduced for a quasi-reduced shape (nothing skipped except by the transparent
    terminal) denotes the same function under every shape -/
theorem eval_quasi_irrel (Sw S : Shape) (zero : α) (hq : ∀ p, Sw.mode p = .none) (x : Assign) :
    ∀ (k : Nat) (fi : Option Nat) (t : DD α), DD.Red Sw zero k fi t = true →
      DD.eval S zero k t x = DD.eval Sw zero k t x := by
  intro k
  induction k with
  | zero =>
    intro fi t h
    obtain ⟨v, rfl⟩ := (DD.Red_zero_iff Sw zero fi t).mp h
    rfl
  | succ k ih =>
    intro fi t h
    rcases DD.storedAt_cases (k+1) t with ⟨cs, rfl⟩ | hd
    · obtain ⟨_, _, _, _, hch⟩ := (DD.Red_succ_node Sw zero k fi cs).mp h
      rw [DD.eval_succ_node, DD.eval_succ_node]
      by_cases hi : x (k+1) < cs.length
      · exact ih (some (x (k+1))) _ (hch _ hi)
      · rw [List.getD_eq_getElem?_getD, List.getElem?_eq_none (by omega)]
        simp only [Option.getD_none, DD.eval_leaf_zero]
    · obtain ⟨he, _⟩ := DD.Red_succ_skip Sw zero k fi hd h
      rw [DD.edgeOK_none_skip Sw zero k fi (hq (k+1)) hd he, DD.eval_leaf_zero, DD.eval_leaf_zero]

/-- without `ident` positions a skipped position is a don't-care under every rule: fully- and
    quasi-reduced shapes evaluate every tree alike -/
theorem eval_noident_irrel (Sw S : Shape) (zero : α) (hw : ∀ p, Sw.mode p ≠ .ident)
    (hs : ∀ p, S.mode p ≠ .ident) (x : Assign) :
    ∀ (k : Nat) (t : DD α), DD.eval S zero k t x = DD.eval Sw zero k t x := by
  intro k
  induction k with
  | zero => intro t; cases t <;> rfl
  | succ k ih =>
    intro t
    rcases DD.storedAt_cases (k+1) t with ⟨cs, rfl⟩ | hd
    · rw [DD.eval_succ_node, DD.eval_succ_node]; exact ih _
    · rw [DD.eval_succ_skip S zero k x hd, DD.eval_succ_skip Sw zero k x hd,
        if_neg (fun h => hs _ h.1), if_neg (fun h => hw _ h.1)]
      exact ih _

/-! ## Part F — reference counts -/

/-- occurrences of the pointer `nd h` in a child list -/
def cnt : List (Child α) → Nat → Int
  | [], _ => 0
  | .nd g :: cs, h => (if g = h then 1 else 0) + cnt cs h
  | .tm _ :: cs, h => cnt cs h

/-- incoming pointers from the stored nodes -/
def cntStore : Dump α → Nat → Int
  | [], _ => 0
  | n :: D, h => cnt n.down h + cntStore D h

omit [DecidableEq α] in
theorem cnt_append (h : Nat) : ∀ (a b : List (Child α)), cnt (a ++ b) h = cnt a h + cnt b h
  | [], b => by simp [cnt]
  | .nd g :: a, b => by simp only [List.cons_append, cnt, cnt_append h a b]; omega
  | .tm _ :: a, b => by simp only [List.cons_append, cnt, cnt_append h a b]

omit [DecidableEq α] in
theorem link_apply (rc : RC) (c : Child α) (h : Nat) : link rc c h = rc h + cnt [c] h := by
  cases c with
  | tm v => simp [link, cnt]
  | nd g =>
    simp only [link, cnt]
    by_cases e : h = g
    · subst e; simp
    · have e' : ¬ g = h := fun x => e x.symm
      simp [e, e']

omit [DecidableEq α] in
theorem unlink_apply (rc : RC) (c : Child α) (h : Nat) : unlink rc c h = rc h - cnt [c] h := by
  cases c with
  | tm v => simp [unlink, cnt]
  | nd g =>
    simp only [unlink, cnt]
    by_cases e : h = g
    · subst e; simp
    · have e' : ¬ g = h := fun x => e x.symm
      simp [e, e']

omit [DecidableEq α] in
theorem linkAll_apply (h : Nat) : ∀ (cs : List (Child α)) (rc : RC), linkAll rc cs h = rc h + cnt cs h
  | [], rc => by simp [linkAll, cnt]
  | c :: cs, rc => by
    have ih := linkAll_apply h cs (link rc c)
    have hc := cnt_append h [c] cs
    simp only [linkAll, List.foldl_cons, List.singleton_append] at ih hc ⊢
    rw [ih, link_apply, hc]; omega

omit [DecidableEq α] in
theorem unlinkAll_apply (h : Nat) : ∀ (cs : List (Child α)) (rc : RC), unlinkAll rc cs h = rc h - cnt cs h
  | [], rc => by simp [unlinkAll, cnt]
  | c :: cs, rc => by
    have ih := unlinkAll_apply h cs (unlink rc c)
    have hc := cnt_append h [c] cs
    simp only [unlinkAll, List.foldl_cons, List.singleton_append] at ih hc ⊢
    rw [ih, unlink_apply, hc]; omega

theorem cnt_all_tm (zero : α) (h : Nat) : ∀ (cs : List (Child α)),
    cs.all (fun c => c == .tm zero) = true → cnt cs h = 0
  | [], _ => rfl
  | c :: cs, hall => by
    simp only [List.all_cons, Bool.and_eq_true, beq_iff_eq] at hall
    rw [hall.1]
    simp only [cnt]
    exact cnt_all_tm zero h cs hall.2

/-- the counts are exactly the number of incoming pointers from stored nodes, from the root edges
    `roots`, and from the reader's temporary `map` -/
def Exact (rc : RC) (D : Dump α) (roots map : List (Child α)) : Prop :=
  ∀ h, rc h = cntStore D h + cnt roots h + cnt map h

theorem insertNodeRC_exact (S : Shape) (zero : α) {D : Dump α} {roots map : List (Child α)} {rc : RC}
    (hx : Exact rc D roots map) (pos : Nat) (down : List (Child α)) :
    Exact (insertNodeRC S zero D pos down (linkAll rc down)) (insertNode S zero D pos down).1 roots
      (map ++ [(insertNode S zero D pos down).2]) := by
  intro h
  have hx := hx h
  unfold insertNodeRC insertNode
  by_cases hz : down.all (fun c => c == .tm zero) = true
  · rw [if_pos hz, if_pos hz]
    simp only [linkAll_apply, cnt_append, cnt, cnt_all_tm zero h down hz]
    omega
  · rw [if_neg hz, if_neg hz]
    by_cases hr : S.mode pos = .red ∧ down.all (fun c => c == down.headD (.tm zero)) = true
    · rw [if_pos hr, if_pos hr]
      cases down with
      | nil => exact absurd rfl hz
      | cons c tl =>
        have hc := cnt_append h [c] tl
        simp only [List.singleton_append] at hc
        simp only [List.tail_cons, List.headD_cons, unlinkAll_apply, linkAll_apply, cnt_append, hc]
        omega
    · rw [if_neg hr, if_neg hr]
      cases hf : D.find? (fun n => n.pos == pos && n.down == down) with
      | some n =>
        simp only [link_apply, unlinkAll_apply, linkAll_apply, cnt_append]
        omega
      | none =>
        simp only [link_apply, linkAll_apply, cnt_append, cntStore]
        omega

theorem readRecsRC_exact (S : Shape) (zero : α) {roots : List (Child α)} :
    ∀ (rs : List (FRec α)) (D : Dump α) (map : List (Child α)) (rc : RC) {D' : Dump α}
      {map' : List (Child α)} {rc' : RC}, Exact rc D roots map →
      readRecsRC S zero rs D map rc = some (D', map', rc') →
      readRecs S zero rs D map = some (D', map') ∧ Exact rc' D' roots map'
  | [], D, map, rc, D', map', rc', hx, e => by
    simp only [readRecsRC, Option.some.injEq, Prod.mk.injEq] at e
    obtain ⟨rfl, rfl, rfl⟩ := e
    exact ⟨rfl, hx⟩
  | r :: rs, D, map, rc, D', map', rc', hx, e => by
    simp only [readRecsRC, readRecs] at e ⊢
    by_cases hp : r.pos = 0 ∨ S.top < r.pos
    · rw [if_pos hp] at e; cases e
    · rw [if_neg hp] at e ⊢
      cases hres : resolveAll map r.down with
      | none => rw [hres] at e; cases e
      | some down =>
        rw [hres] at e
        simp only at e ⊢
        exact readRecsRC_exact S zero rs _ _ _ (insertNodeRC_exact S zero hx r.pos down) e

theorem readRecsRC_some (S : Shape) (zero : α) :
    ∀ (rs : List (FRec α)) (D : Dump α) (map : List (Child α)) (rc : RC) {D' : Dump α}
      {map' : List (Child α)}, readRecs S zero rs D map = some (D', map') →
      ∃ rc', readRecsRC S zero rs D map rc = some (D', map', rc')
  | [], D, map, rc, D', map', e => by
    simp only [readRecs, Option.some.injEq, Prod.mk.injEq] at e
    obtain ⟨rfl, rfl⟩ := e
    exact ⟨rc, rfl⟩
  | r :: rs, D, map, rc, D', map', e => by
    simp only [readRecsRC, readRecs] at e ⊢
    by_cases hp : r.pos = 0 ∨ S.top < r.pos
    · rw [if_pos hp] at e; cases e
    · rw [if_neg hp] at e ⊢
      cases hres : resolveAll map r.down with
      | none => rw [hres] at e; cases e
      | some down =>
        rw [hres] at e
        simp only at e ⊢
        exact readRecsRC_some S zero rs _ _ _ e

/-! ### Concrete instances used by the non-vacuity examples -/

namespace Ex
open DumpExamples

/-- a root list with a shared sub-graph, a repeated root, a low root and a terminal root -/
def roots1 : List (Child Nat) := [.nd 5, .nd 6, .nd 1, .tm 1, .nd 5, .tm 0]

/-- storage policy of the writer: position 2 sparse, everything else (truncated) full -/
def sp1 : FRec Nat → Bool := fun r => r.pos == 2

/-- two positions of size 2, fully reduced -/
def SF2 : Shape := { top := 2, size := fun _ => 2, mode := fun _ => .red }

/-- quasi-reduced relation shape over two variables (4 positions of size 2) -/
def SQ4 : Shape := { top := 4, size := fun _ => 2, mode := fun _ => .none }

/-- a canonical QUASI-reduced relation store: node 1 is the 0-singleton at the primed position 1,
    entered through index 0 of node 2 (an identity pattern that an identity-reduced forest would
    never store) -/
def DQ : Dump Bool :=
  [ ⟨1, 1, [.tm true, .tm false]⟩, ⟨2, 2, [.nd 1, .tm false]⟩,
    ⟨3, 3, [.nd 2, .nd 2]⟩, ⟨4, 4, [.nd 3, .tm false]⟩ ]

end Ex

/-! ## Property theorems -/

/-- C14, general form ("the file is interpreted under the READER's rule"): whatever reduction rule
    the writing forest had and whatever storage policy chose sparse or full records, reading the
    written tokens into ANY well-formed receiving store `D0` of shape `S` succeeds; the receiving
    store is extended (old handles keep their nodes: `Ext`), stays a well-formed unique table
    (`storeOK`), and the i-th root read unfolds to `rebuild S` of the i-th root written — the same
    graph with every node passed through the reader's `createReducedNode` — in the same order and
    with the same multiplicity.  Every node added corresponds to a written node. -/
theorem read_write_tree (S : Shape) (zero : α) (sp : FRec α → Bool) {Dw : Dump α}
    (hsw : Dw.storeOK = true) {roots : List (Child α)}
    (hr : ∀ r, r ∈ roots → Dw.childOK S.top r = true)
    (hlen : ∀ n, n ∈ Dw → n.down.length = S.size n.pos) {D0 : Dump α} (hs0 : D0.storeOK = true) :
    ∃ D' roots', read S zero D0 (write S zero sp Dw roots) = some (D', roots') ∧
      D'.storeOK = true ∧ Ext D0 D' ∧ (∀ c, c ∈ roots' → D'.childOK S.top c = true) ∧
      roots'.map (D'.unfold zero S.top) =
        roots.map (fun r => rebuild S zero (Dw.unfold zero S.top r)) ∧
      (∃ added, D' = added ++ D0 ∧ ∀ n', n' ∈ added → ∃ w, w ∈ Dw ∧ n'.pos = w.pos ∧
        n'.down.map (D'.unfold zero S.top) =
          w.down.map (fun c => rebuild S zero (Dw.unfold zero S.top c))) := by
  obtain ⟨D', roots', h1, h2⟩ := readF_writeF S zero Dw hsw hr hs0
  refine ⟨D', roots', ?_, h2⟩
  simp only [read, write]
  rw [decode_encode S zero sp _ (writeF_sized S hsw hr hlen)]
  exact h1

-- non-vacuity: a quasi-reduced file read by a fully-reduced forest — the redundant node 1 is
-- eliminated by the reader, the root keeps its meaning under the reader's rule
example : read Ex.SF2 0 [] (write Ex.SF2 0 (fun _ => true) DumpExamples.D3 [.nd 2, .tm 0, .nd 1]) =
    some ([⟨1, 2, [.tm 1, .tm 0]⟩], [.nd 1, .tm 0, .tm 1]) := by decide
-- the converse direction is NOT supported by the design: a fully-reduced file read by a
-- quasi-reduced forest keeps its long edges, and the receiving forest is no longer canonical
example : (read DumpExamples.S3 0 [] (write DumpExamples.S3 0 (fun _ => false)
      [⟨1, 2, [.tm 1, .tm 0]⟩] [.nd 1])).map (fun p => (p, Dump.check DumpExamples.S3 0 p.1 p.2)) =
    some (([⟨1, 2, [.tm 1, .tm 0]⟩], [.nd 1]), false) := by decide
-- a quasi-reduced relation file read by an identity-reduced forest: same functions
-- (`read_write_eval_quasi`), but the reader calls `createReducedNode` without the incoming index,
-- identity patterns are kept, and the receiving forest is NOT canonical
example : Dump.check Ex.SQ4 false Ex.DQ [.nd 4] = true := by decide
example : (read DumpExamples.S2 false [] (write DumpExamples.S2 false (fun _ => true) Ex.DQ [.nd 4])).map
      (fun p => (p.2, Dump.check DumpExamples.S2 false p.1 p.2)) = some ([.nd 4], false) := by decide

/-- C14 `read_write`: if the writing forest is canonical (`Dump.check`) and the reading forest has
    the same shape (same domain and reduction rule), the roots read back unfold to exactly the
    trees that were written, in the same order — into an empty forest, another forest already
    holding nodes, or the writer itself (`D0` arbitrary). -/
theorem read_write_unfold (S : Shape) (zero : α) (sp : FRec α → Bool) {Dw : Dump α}
    {roots : List (Child α)} (hc : Dump.check S zero Dw roots = true) {D0 : Dump α}
    (hs0 : D0.storeOK = true) :
    ∃ D' roots', read S zero D0 (write S zero sp Dw roots) = some (D', roots') ∧
      D'.storeOK = true ∧ Ext D0 D' ∧ (∀ c, c ∈ roots' → D'.childOK S.top c = true) ∧
      roots'.map (D'.unfold zero S.top) = roots.map (Dw.unfold zero S.top) := by
  obtain ⟨hsw, hn, hroots⟩ := check_parts S zero hc
  have hlen : ∀ n, n ∈ Dw → n.down.length = S.size n.pos :=
    fun n hnm => (nodeOK_parts S zero (List.all_eq_true.1 hn n hnm)).2.1
  obtain ⟨D', roots', h1, h2, h3, h4, h5, _⟩ :=
    read_write_tree S zero sp hsw (fun r hr => (hroots r hr).1) hlen hs0
  refine ⟨D', roots', h1, h2, h3, h4, ?_⟩
  rw [h5]
  apply List.map_congr_left
  intro r hr
  exact rebuild_root_checked S zero hc r hr

-- non-vacuity: the hypotheses hold for the six-node store `D1` (shared nodes, a skipped level)
-- and the result is the stated one
example := read_write_unfold DumpExamples.S1 0 Ex.sp1 (Dw := DumpExamples.D1) (roots := Ex.roots1)
  (by decide) (D0 := []) (by decide)
example : (read DumpExamples.S1 0 [] (write DumpExamples.S1 0 Ex.sp1 DumpExamples.D1 Ex.roots1)).map
      (fun p => p.2.map (p.1.unfold 0 3)) = some (Ex.roots1.map (DumpExamples.D1.unfold 0 3)) := by
  decide
-- a receiver that already holds an equal node (handle 7 = node 1 of the writer) and an unrelated
-- one (handle 9): the equal node is found, not duplicated
example : (read DumpExamples.S1 0 [⟨7, 1, [.tm 0, .tm 1]⟩, ⟨9, 1, [.tm 1, .tm 2]⟩]
      (write DumpExamples.S1 0 Ex.sp1 DumpExamples.D1 [.nd 3, .nd 1])).map (·.2) =
    some [.nd 11, .nd 7] := by decide

/-- C14: as many roots come back as were written (order and multiplicity are in `read_write_unfold`). -/
theorem read_write_length (S : Shape) (zero : α) (sp : FRec α → Bool) {Dw : Dump α}
    {roots : List (Child α)} (hc : Dump.check S zero Dw roots = true) {D0 : Dump α}
    (hs0 : D0.storeOK = true) :
    ∃ D' roots', read S zero D0 (write S zero sp Dw roots) = some (D', roots') ∧
      roots'.length = roots.length := by
  obtain ⟨D', roots', h1, _, _, _, h5⟩ := read_write_unfold S zero sp hc hs0
  refine ⟨D', roots', h1, ?_⟩
  have := congrArg List.length h5
  simpa using this

example : (read DumpExamples.S1 0 [] (write DumpExamples.S1 0 Ex.sp1 DumpExamples.D1 Ex.roots1)).map
      (fun p => p.2.length) = some 6 := by decide
-- the empty root list
example : read DumpExamples.S1 0 [] (write DumpExamples.S1 0 Ex.sp1 DumpExamples.D1 []) = some ([], []) := by
  decide

/-- C14: the i-th edge read denotes the same function as the i-th edge written, at every
    assignment (same reduction rule for writer and reader). -/
theorem read_write_eval (S : Shape) (zero : α) (sp : FRec α → Bool) {Dw : Dump α}
    {roots : List (Child α)} (hc : Dump.check S zero Dw roots = true) {D0 : Dump α}
    (hs0 : D0.storeOK = true) :
    ∃ D' roots', read S zero D0 (write S zero sp Dw roots) = some (D', roots') ∧
      roots'.length = roots.length ∧
      ∀ (i : Nat) (a : Assign), Dump.evalChild S zero D' (roots'.getD i (.tm zero)) a =
        Dump.evalChild S zero Dw (roots.getD i (.tm zero)) a := by
  obtain ⟨D', roots', h1, _, _, _, h5⟩ := read_write_unfold S zero sp hc hs0
  refine ⟨D', roots', h1, ?_, ?_⟩
  · have := congrArg List.length h5
    simpa using this
  · intro i a
    have := congrArg (fun l => l.getD i (.leaf zero)) h5
    simp only [getD_map_unfold] at this
    simp only [Dump.evalChild, this]

example := read_write_eval DumpExamples.S1 0 Ex.sp1 (Dw := DumpExamples.D1) (roots := Ex.roots1)
  (by decide) (D0 := []) (by decide)
-- x3 = 1, x2 = 1, x1 = 0 on the second root: 1 before and after
example : (read DumpExamples.S1 0 [] (write DumpExamples.S1 0 Ex.sp1 DumpExamples.D1 Ex.roots1)).map
      (fun p => Dump.evalChild DumpExamples.S1 0 p.1 (p.2.getD 1 (.tm 0)) (fun q => if q = 1 then 0 else 1)) =
    some (Dump.evalChild DumpExamples.S1 0 DumpExamples.D1 (.nd 6) (fun q => if q = 1 then 0 else 1)) := by
  decide

/-- C14 `read_same_forest`: reading a file back into the forest that wrote it returns the
    IDENTICAL edges (same node handles), and creates no node. -/
theorem read_same_store (S : Shape) (zero : α) (sp : FRec α → Bool) {Dw : Dump α}
    {roots : List (Child α)} (hc : Dump.check S zero Dw roots = true) :
    read S zero Dw (write S zero sp Dw roots) = some (Dw, roots) := by
  obtain ⟨hsw, hn, hroots⟩ := check_parts S zero hc
  have hlen : ∀ n, n ∈ Dw → n.down.length = S.size n.pos :=
    fun n hnm => (nodeOK_parts S zero (List.all_eq_true.1 hn n hnm)).2.1
  obtain ⟨D', roots', h1, hs', hext, hv, h5, added, hadd, hnew⟩ :=
    read_write_tree S zero sp hsw (fun r hr => (hroots r hr).1) hlen hsw
  -- the roots
  have hroots' : roots' = roots := by
    apply Dump.map_inj_on (D'.unfold zero S.top) roots' roots
    · intro a ha b hb
      exact unfold_inj D' zero hs' a b S.top (hv a ha) (hext.childOK (hroots b hb).1)
    · rw [h5]
      apply List.map_congr_left
      intro r hr
      rw [rebuild_root_checked S zero hc r hr, hext.unfold zero hsw _ _ (hroots r hr).1]
  -- no node was added
  have hadded : added = [] := by
    apply List.eq_nil_iff_forall_not_mem.2
    intro n' hn'
    obtain ⟨w, hw, hp, hmap⟩ := hnew n' hn'
    have hn'D : n' ∈ D' := by rw [hadd]; exact List.mem_append_left _ hn'
    have hwt := (nodeOK_parts S zero (List.all_eq_true.1 hn w hw)).1
    have hfw := find_self hsw hw
    have e1 : D'.unfold zero S.top (.nd n'.handle) = D'.unfold zero S.top (.nd w.handle) := by
      rw [unfold_node_top zero hs' (find_self hs' hn'D) (by omega),
        unfold_node_top zero hs' (hext _ _ hfw) hwt, hp, hmap]
      congr 1
      apply List.map_congr_left
      intro c hcm
      have hcv := childOK_mono ((storeOK_node hsw hw).2.2 c hcm) (by omega : w.pos - 1 ≤ S.top)
      rw [rebuild_child_checked S zero hsw hn hw c hcm, hext.unfold zero hsw _ _ hcv]
    have v1 : D'.childOK S.top (.nd n'.handle) = true := by
      simp only [Dump.childOK, find_self hs' hn'D, decide_eq_true_eq]; omega
    have v2 : D'.childOK S.top (.nd w.handle) = true := by
      simp only [Dump.childOK, hext _ _ hfw, decide_eq_true_eq]; exact hwt
    have e2 := unfold_inj D' zero hs' _ _ S.top v1 v2 e1
    simp only [Child.nd.injEq] at e2
    have e3 : n' = w := by
      have f1 := find_self hs' hn'D
      rw [e2, hext _ _ hfw] at f1
      exact (Option.some.inj f1).symm
    rw [hadd] at hs'
    exact distinctOK_append_disjoint (storeOK_distinct hs') n' hn' (by rw [e3]; exact hw)
  rw [h1, hadd, hadded, hroots', List.nil_append]

example : read DumpExamples.S1 0 DumpExamples.D1 (write DumpExamples.S1 0 Ex.sp1 DumpExamples.D1 Ex.roots1) =
    some (DumpExamples.D1, Ex.roots1) :=
  read_same_store DumpExamples.S1 0 Ex.sp1 (by decide)
-- identity-reduced relation store with legal singletons and skipped `ident` positions
example : read DumpExamples.S2 false DumpExamples.D2
      (write DumpExamples.S2 false (fun r => r.pos == 3) DumpExamples.D2 [.nd 5, .nd 7, .nd 3, .tm true, .tm false]) =
    some (DumpExamples.D2, [.nd 5, .nd 7, .nd 3, .tm true, .tm false]) :=
  read_same_store DumpExamples.S2 false _ (by decide)

/-- C14 `read_canonical`: if the receiving forest passed the canonical-form certificate before
    the read (with its own root edges `roots0`) and the file was written by a canonical forest of
    the same shape, the receiving forest passes the certificate after the read, with the edges
    read added to its roots: no duplicate, no unreduced node, no illegal edge. -/
theorem read_canonical (S : Shape) (zero : α) (sp : FRec α → Bool) {Dw : Dump α}
    {roots : List (Child α)} (hc : Dump.check S zero Dw roots = true) {D0 : Dump α}
    {roots0 : List (Child α)} (hc0 : Dump.check S zero D0 roots0 = true) :
    ∃ D' roots', read S zero D0 (write S zero sp Dw roots) = some (D', roots') ∧
      Dump.check S zero D' (roots0 ++ roots') = true := by
  obtain ⟨hsw, hn, hroots⟩ := check_parts S zero hc
  obtain ⟨hs0, hn0, hroots0⟩ := check_parts S zero hc0
  have hlen : ∀ n, n ∈ Dw → n.down.length = S.size n.pos :=
    fun n hnm => (nodeOK_parts S zero (List.all_eq_true.1 hn n hnm)).2.1
  obtain ⟨D', roots', h1, hs', hext, hv, h5, added, hadd, hnew⟩ :=
    read_write_tree S zero sp hsw (fun r hr => (hroots r hr).1) hlen hs0
  refine ⟨D', roots', h1, ?_⟩
  simp only [Dump.check, Bool.and_eq_true, List.all_eq_true]
  refine ⟨⟨hs', ?_⟩, ?_⟩
  · intro n' hn'
    have hn'D := hn'
    rw [hadd] at hn'
    rcases List.mem_append.1 hn' with hnew' | hold
    · obtain ⟨w, hw, hp, hmap⟩ := hnew n' hnew'
      have hwOK := List.all_eq_true.1 hn w hw
      have hwt := (nodeOK_parts S zero hwOK).1
      rw [nodeOK_transfer S zero hs' hsw (f := S.top) hp
        (fun c hcm => childOK_mono ((storeOK_node hs' hn'D).2.2 c hcm) (by omega))
        (fun c hcm => childOK_mono ((storeOK_node hsw hw).2.2 c hcm) (by omega))
        (by
          rw [hmap]
          apply List.map_congr_left
          intro c hcm
          exact rebuild_child_checked S zero hsw hn hw c hcm)]
      exact hwOK
    · have hch := (storeOK_node hs0 hold).2.2
      rw [nodeOK_transfer S zero hs' hs0 (f := n'.pos - 1) rfl
        (fun c hcm => hext.childOK (hch c hcm)) hch
        (List.map_congr_left (fun c hcm => hext.unfold zero hs0 _ _ (hch c hcm)))]
      exact List.all_eq_true.1 hn0 n' hold
  · intro r hrm
    simp only [rootOK, Bool.and_eq_true]
    rcases List.mem_append.1 hrm with h0 | h'
    · obtain ⟨hv0, hchk0⟩ := hroots0 r h0
      refine ⟨hext.childOK hv0, ?_⟩
      rw [edgeChk_eq_treeChk S zero hs' (hext.childOK hv0), hext.unfold zero hs0 _ _ hv0,
        ← edgeChk_eq_treeChk S zero hs0 hv0]
      exact hchk0
    · refine ⟨hv r h', ?_⟩
      have hmem : D'.unfold zero S.top r ∈ roots'.map (D'.unfold zero S.top) :=
        List.mem_map.2 ⟨r, h', rfl⟩
      rw [h5] at hmem
      obtain ⟨r0, hr0, e0⟩ := List.mem_map.1 hmem
      rw [rebuild_root_checked S zero hc r0 hr0] at e0
      obtain ⟨hvw, hchkw⟩ := hroots r0 hr0
      rw [edgeChk_eq_treeChk S zero hs' (hv r h'), ← e0, ← edgeChk_eq_treeChk S zero hsw hvw]
      exact hchkw


example := read_canonical DumpExamples.S1 0 Ex.sp1 (Dw := DumpExamples.D1) (roots := Ex.roots1)
  (by decide) (D0 := [⟨7, 1, [.tm 0, .tm 1]⟩, ⟨9, 1, [.tm 1, .tm 2]⟩]) (roots0 := [.nd 9, .nd 7]) (by decide)
example : (read DumpExamples.S1 0 [⟨7, 1, [.tm 0, .tm 1]⟩, ⟨9, 1, [.tm 1, .tm 2]⟩]
      (write DumpExamples.S1 0 Ex.sp1 DumpExamples.D1 Ex.roots1)).map
      (fun p => (p.1.length, Dump.check DumpExamples.S1 0 p.1 ([.nd 9, .nd 7] ++ p.2))) = some (7, true) := by
  decide

/-- C14 across reduction rules ("skipped levels in a file are read under the READER's rule"):
    a file written by a canonical forest of shape `Sw` and read into a forest of shape `S` over the
    same variables yields, for the i-th root, the function obtained by evaluating the WRITER's
    graph under the READER's shape `S`.  (With `Sw = S` this is `read_write_eval`.) -/
theorem read_write_eval_cross (Sw S : Shape) (hsv : DD.SameVars Sw S) (zero : α)
    (sp : FRec α → Bool) {Dw : Dump α} {roots : List (Child α)}
    (hc : Dump.check Sw zero Dw roots = true) {D0 : Dump α} (hs0 : D0.storeOK = true) :
    ∃ D' roots', read S zero D0 (write S zero sp Dw roots) = some (D', roots') ∧
      D'.storeOK = true ∧ roots'.length = roots.length ∧
      ∀ (i : Nat), i < roots.length → ∀ (a : Assign), Assign.Valid S a →
        Dump.evalChild S zero D' (roots'.getD i (.tm zero)) a =
          DD.eval S zero S.top (Dw.unfold zero S.top (roots.getD i (.tm zero))) a := by
  obtain ⟨hsw, hn, hroots⟩ := check_parts Sw zero hc
  have hlen : ∀ n, n ∈ Dw → n.down.length = S.size n.pos := by
    intro n hnm
    rw [← hsv.size]
    exact (nodeOK_parts Sw zero (List.all_eq_true.1 hn n hnm)).2.1
  have hr : ∀ r, r ∈ roots → Dw.childOK S.top r = true := by
    intro r hrm; rw [← hsv.top]; exact (hroots r hrm).1
  obtain ⟨D', roots', h1, hs', _, _, h5, _⟩ := read_write_tree S zero sp hsw hr hlen hs0
  have hl : roots'.length = roots.length := by
    have := congrArg List.length h5
    simpa using this
  refine ⟨D', roots', h1, hs', hl, ?_⟩
  intro i hi a ha
  have hget := congrArg (fun l => l.getD i (.leaf zero)) h5
  simp only [getD_map_unfold] at hget
  have hri : roots.getD i (.tm zero) ∈ roots := by
    rw [List.getD_eq_getElem?_getD, List.getElem?_eq_getElem hi]
    exact List.getElem_mem hi
  have hrhs : (roots.map (fun r => rebuild S zero (Dw.unfold zero S.top r))).getD i (.leaf zero) =
      rebuild S zero (Dw.unfold zero S.top (roots.getD i (.tm zero))) := by
    simp only [List.getD_eq_getElem?_getD, List.getElem?_map, List.getElem?_eq_getElem hi,
      Option.map_some, Option.getD_some]
  rw [hrhs] at hget
  have hred := check_sound Sw zero Dw roots hc _ hri
  rw [hsv.top] at hred
  obtain ⟨hb, hw⟩ := DD.Red_WFTree Sw zero _ _ _ hred
  simp only [Dump.evalChild, hget]
  exact (rebuild_eval S zero a ha S.top (Nat.le_refl _) _ hb hw (Red_Sized hsv zero _ _ _ hred)).2

-- a fully-reduced relation file (`tm true` = the constant TRUE relation, every level skipped) read
-- by an identity-reduced forest denotes the IDENTITY relation there: not lossless, by design
example : (read DumpExamples.S2 false [] (write DumpExamples.S2 false (fun _ => false) [] [.tm true])).map
      (fun p => Dump.evalChild DumpExamples.S2 false p.1 (p.2.getD 0 (.tm false)) (fun q => if q = 3 then 1 else 0)) =
    some false := by decide
example := read_write_eval_cross Ex.SQ4 DumpExamples.S2 ⟨rfl, fun _ => rfl⟩ false (fun _ => true)
  (Dw := Ex.DQ) (roots := [.nd 4]) (by decide) (D0 := []) (by decide)

/-- C14 for quasi-reduced writers: their files contain no rule-dependent skips, so a reader of
    ANY reduction rule over the same variables gets the functions that were written. -/
theorem read_write_eval_quasi (Sw S : Shape) (hsv : DD.SameVars Sw S) (hq : ∀ p, Sw.mode p = .none)
    (zero : α) (sp : FRec α → Bool) {Dw : Dump α} {roots : List (Child α)}
    (hc : Dump.check Sw zero Dw roots = true) {D0 : Dump α} (hs0 : D0.storeOK = true) :
    ∃ D' roots', read S zero D0 (write S zero sp Dw roots) = some (D', roots') ∧
      roots'.length = roots.length ∧
      ∀ (i : Nat), i < roots.length → ∀ (a : Assign), Assign.Valid S a →
        Dump.evalChild S zero D' (roots'.getD i (.tm zero)) a =
          Dump.evalChild Sw zero Dw (roots.getD i (.tm zero)) a := by
  obtain ⟨D', roots', h1, _, hl, h⟩ := read_write_eval_cross Sw S hsv zero sp hc hs0
  refine ⟨D', roots', h1, hl, ?_⟩
  intro i hi a ha
  rw [h i hi a ha]
  have hri : roots.getD i (.tm zero) ∈ roots := by
    rw [List.getD_eq_getElem?_getD, List.getElem?_eq_getElem hi]
    exact List.getElem_mem hi
  have hred := check_sound Sw zero Dw roots hc _ hri
  simp only [Dump.evalChild, ← hsv.top]
  exact eval_quasi_irrel Sw S zero hq a _ _ _ hred

example := read_write_eval_quasi Ex.SQ4 DumpExamples.S2 ⟨rfl, fun _ => rfl⟩ (fun _ => rfl) false
  (fun _ => true) (Dw := Ex.DQ) (roots := [.nd 4]) (by decide) (D0 := []) (by decide)
example := read_write_eval_quasi DumpExamples.S3 Ex.SF2 ⟨rfl, fun _ => rfl⟩ (fun _ => rfl) 0
  (fun _ => false) (Dw := DumpExamples.D3) (roots := [.nd 2, .tm 0]) (by decide) (D0 := []) (by decide)

/-- C14 for the pairs fully ↔ quasi (all set forests; relations without identity reduction): the
    functions survive, because both rules read a skipped level as a don't-care.  (Whether the
    receiver is canonical is another matter: see the examples after `read_write_tree`.) -/
theorem read_write_eval_noident (Sw S : Shape) (hsv : DD.SameVars Sw S)
    (hw : ∀ p, Sw.mode p ≠ .ident) (hs : ∀ p, S.mode p ≠ .ident)
    (zero : α) (sp : FRec α → Bool) {Dw : Dump α} {roots : List (Child α)}
    (hc : Dump.check Sw zero Dw roots = true) {D0 : Dump α} (hs0 : D0.storeOK = true) :
    ∃ D' roots', read S zero D0 (write S zero sp Dw roots) = some (D', roots') ∧
      roots'.length = roots.length ∧
      ∀ (i : Nat), i < roots.length → ∀ (a : Assign), Assign.Valid S a →
        Dump.evalChild S zero D' (roots'.getD i (.tm zero)) a =
          Dump.evalChild Sw zero Dw (roots.getD i (.tm zero)) a := by
  obtain ⟨D', roots', h1, _, hl, h⟩ := read_write_eval_cross Sw S hsv zero sp hc hs0
  refine ⟨D', roots', h1, hl, ?_⟩
  intro i hi a ha
  rw [h i hi a ha]
  simp only [Dump.evalChild, ← hsv.top]
  exact eval_noident_irrel Sw S zero hw hs a _ _
example := read_write_eval_noident Ex.SF2 DumpExamples.S3 ⟨rfl, fun _ => rfl⟩ (fun _ h => by cases h)
  (fun _ h => by cases h) 0 (fun _ => false) (Dw := [⟨1, 2, [.tm 1, .tm 0]⟩]) (roots := [.nd 1])
  (by decide) (D0 := []) (by decide)

/-- C14 `read_counts_exact`: on EVERY file the reader accepts (not only well-written ones), if the
    receiving forest's reference counts were exact before the read (each count = pointers from
    stored nodes + from the root edges `roots0`), they are exact after it with the edges read added
    to the roots: every temporary link taken through the file-index map has been released, none
    twice.  The store and roots are those of `readF` (the counts do not influence the read), and
    the count-keeping reader succeeds whenever `readF` does. -/
theorem read_counts_exact (S : Shape) (zero : α) (D0 : Dump α) (roots0 : List (Child α)) (rc0 : RC)
    (hx : ∀ h, rc0 h = cntStore D0 h + cnt roots0 h) (f : File α) :
    (∀ D' rs rc', readFRC S zero D0 rc0 f = some (D', rs, rc') →
      readF S zero D0 f = some (D', rs) ∧ ∀ h, rc' h = cntStore D' h + cnt (roots0 ++ rs) h) ∧
    (∀ D' rs, readF S zero D0 f = some (D', rs) → ∃ rc', readFRC S zero D0 rc0 f = some (D', rs, rc')) := by
  have hx0 : Exact rc0 D0 roots0 [] := by
    intro h; rw [hx h]; simp [cnt]
  constructor
  · intro D' rs rc' e
    unfold readFRC at e
    cases hrr : readRecsRC S zero f.recs D0 [] rc0 with
    | none => rw [hrr] at e; cases e
    | some t =>
      obtain ⟨D1, map1, rc1⟩ := t
      rw [hrr] at e
      simp only at e
      obtain ⟨hread, hex⟩ := readRecsRC_exact S zero f.recs D0 [] rc0 hx0 hrr
      cases hres : resolveAll map1 f.roots with
      | none => rw [hres] at e; cases e
      | some rs1 =>
        rw [hres] at e
        simp only [Option.some.injEq, Prod.mk.injEq] at e
        obtain ⟨rfl, rfl, rfl⟩ := e
        refine ⟨by simp only [readF, hread, hres], ?_⟩
        intro h
        have := hex h
        simp only [unlinkAll_apply, linkAll_apply, cnt_append]
        omega
  · intro D' rs e
    unfold readF at e
    cases hrr : readRecs S zero f.recs D0 [] with
    | none => rw [hrr] at e; cases e
    | some t =>
      obtain ⟨D1, map1⟩ := t
      rw [hrr] at e
      simp only at e
      obtain ⟨rc1, h1⟩ := readRecsRC_some S zero f.recs D0 [] rc0 hrr
      cases hres : resolveAll map1 f.roots with
      | none => rw [hres] at e; cases e
      | some rs1 =>
        rw [hres] at e
        simp only [Option.some.injEq, Prod.mk.injEq] at e
        obtain ⟨rfl, rfl⟩ := e
        exact ⟨unlinkAll (linkAll rc1 rs1) map1, by simp only [readFRC, h1, hres]⟩
-- non-vacuity: the writer `D1` read into a receiver that holds an equal and an unrelated node,
-- its counts exact before (node 7 and node 9 each held by one root edge): node 7 ends with count 6
-- (its old root edge, the root read as `nd 7`, four parent slots in the new nodes 11, 12, 14), the
-- repeated root 13 with count 2, and count = recount at every handle
example : (readFRC DumpExamples.S1 0 [⟨7, 1, [.tm 0, .tm 1]⟩, ⟨9, 1, [.tm 1, .tm 2]⟩]
      (fun h => if h = 7 ∨ h = 9 then 1 else 0) (writeF DumpExamples.D1 3 Ex.roots1)).map
      (fun t => (List.range 16).map (fun h => t.2.2 h == cntStore t.1 h + cnt ([.nd 9, .nd 7] ++ t.2.1) h)) =
    some (List.replicate 16 true) := by decide
example : (readFRC DumpExamples.S1 0 [⟨7, 1, [.tm 0, .tm 1]⟩, ⟨9, 1, [.tm 1, .tm 2]⟩]
      (fun h => if h = 7 ∨ h = 9 then 1 else 0) (writeF DumpExamples.D1 3 Ex.roots1)).map
      (fun t => (t.2.2 7, t.2.2 9, t.2.2 10, t.2.2 13)) = some (6, 1, 2, 2) := by decide

end XFile
end Meddly

/-
#print axioms (Lean 4.33.0), each property theorem:
'Meddly.XFile.read_write_tree' depends on axioms: [propext, Classical.choice, Quot.sound]
'Meddly.XFile.read_write_unfold' depends on axioms: [propext, Classical.choice, Quot.sound]
'Meddly.XFile.read_write_length' depends on axioms: [propext, Classical.choice, Quot.sound]
'Meddly.XFile.read_write_eval' depends on axioms: [propext, Classical.choice, Quot.sound]
'Meddly.XFile.read_same_store' depends on axioms: [propext, Classical.choice, Quot.sound]
'Meddly.XFile.read_canonical' depends on axioms: [propext, Classical.choice, Quot.sound]
'Meddly.XFile.read_write_eval_cross' depends on axioms: [propext, Classical.choice, Quot.sound]
'Meddly.XFile.read_write_eval_quasi' depends on axioms: [propext, Classical.choice, Quot.sound]
'Meddly.XFile.decode_encode' depends on axioms: [propext, Quot.sound]
'Meddly.XFile.read_write_eval_noident' depends on axioms: [propext, Classical.choice, Quot.sound]
'Meddly.XFile.read_counts_exact' depends on axioms: [propext, Quot.sound]
-/
