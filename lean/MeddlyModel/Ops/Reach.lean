/-
  C08 — reachability operations return exactly the least fixed point.

  Model of `src/operations/reach_trad.cc` (the frontier / no-frontier loops over
  imageOp, accumulateOp, differenceOp) on an explicit finite state space, and the
  scheduling-independent core of `satur_sets.cc` (split of the relation by common
  diagonal, chaotic firing of the pieces).

  A state space is a list `states : List σ` that enumerates `σ` (`Complete`); a
  relation is `R : σ → σ → Bool`; a *set* is the canonical list `states.filter p`
  (the analogue of a canonical decision-diagram edge: two sets with the same
  members are the same list, so the loops' stop tests are list equalities exactly
  as the C++ compares node handles).

  NOT modelled here: the decision-diagram level of saturation (`saturate_1`,
  `recFire`, their `saturate` / `satfire` compute-table entries, the explorer
  objects).  What is proved about saturation is the statement its correctness
  reduces to: the split denotes the relation (`split_union`) and ANY order of
  firing the pieces that ends in a set closed under every piece ends in exactly
  the reachable set (`chaotic_eq_lfp`).
-/
set_option linter.unusedSectionVars false
set_option linter.unusedSimpArgs false

namespace Meddly
namespace Reach

variable {σ : Type} [DecidableEq σ]

/-! ## Sets as canonical lists -/

/-- `states` enumerates the whole state type -/
def Complete (states : List σ) : Prop := ∀ s : σ, s ∈ states

/-- canonical representation of `{s | s ∈ S}` -/
def norm (states : List σ) (S : List σ) : List σ := states.filter (fun s => decide (s ∈ S))

/-- one-step successors of `S` (POST_IMAGE) -/
def post (states : List σ) (R : σ → σ → Bool) (S : List σ) : List σ :=
  states.filter (fun t => S.any (fun s => R s t))

/-- one-step predecessors of `S` (PRE_IMAGE) -/
def pre (states : List σ) (R : σ → σ → Bool) (S : List σ) : List σ :=
  states.filter (fun s => S.any (fun t => R s t))

/-- converse relation -/
def conv (R : σ → σ → Bool) : σ → σ → Bool := fun a b => R b a

/-- UNION (accumulateOp of the boolean variants) -/
def union (states : List σ) (A B : List σ) : List σ :=
  states.filter (fun s => decide (s ∈ A) || decide (s ∈ B))

/-- DIFFERENCE (differenceOp) -/
def diff (states : List σ) (A B : List σ) : List σ :=
  states.filter (fun s => decide (s ∈ A) && !decide (s ∈ B))

theorem mem_norm {states S : List σ} {s : σ} : s ∈ norm states S ↔ s ∈ states ∧ s ∈ S := by
  simp [norm]

theorem mem_post {states : List σ} {R : σ → σ → Bool} {S : List σ} {t : σ} :
    t ∈ post states R S ↔ t ∈ states ∧ ∃ s, s ∈ S ∧ R s t = true := by
  simp [post]

theorem mem_pre {states : List σ} {R : σ → σ → Bool} {S : List σ} {s : σ} :
    s ∈ pre states R S ↔ s ∈ states ∧ ∃ t, t ∈ S ∧ R s t = true := by
  simp [pre]

theorem mem_union {states A B : List σ} {s : σ} :
    s ∈ union states A B ↔ s ∈ states ∧ (s ∈ A ∨ s ∈ B) := by
  simp [union]

theorem mem_diff {states A B : List σ} {s : σ} :
    s ∈ diff states A B ↔ s ∈ states ∧ s ∈ A ∧ s ∉ B := by
  simp [diff]

/-- two filters of the same list with the same members are the same list -/
theorem filter_ext {l : List σ} {p q : σ → Bool}
    (h : ∀ x, x ∈ l.filter p ↔ x ∈ l.filter q) : l.filter p = l.filter q := by
  apply List.filter_congr
  intro x hx
  have := h x
  simp only [List.mem_filter, hx, true_and] at this
  cases hp : p x <;> cases hq : q x <;> simp_all

/-- a strictly larger filter is strictly longer -/
theorem filter_length_lt {l : List σ} {p q : σ → Bool}
    (hsub : ∀ x, x ∈ l → p x = true → q x = true)
    (hne : ∃ x, x ∈ l ∧ q x = true ∧ p x = false) :
    (l.filter p).length < (l.filter q).length := by
  induction l with
  | nil => obtain ⟨x, hx, _⟩ := hne; cases hx
  | cons a l ih =>
    have hsub' : ∀ x, x ∈ l → p x = true → q x = true :=
      fun x hx => hsub x (List.mem_cons_of_mem a hx)
    have hle : (l.filter p).length ≤ (l.filter q).length := by
      clear ih hne hsub
      induction l with
      | nil => simp
      | cons b l ih2 =>
        have h2 : ∀ x, x ∈ l → p x = true → q x = true :=
          fun x hx => hsub' x (List.mem_cons_of_mem b hx)
        have hb := hsub' b (List.mem_cons_self)
        cases hpb : p b <;> cases hqb : q b <;> simp_all [List.filter_cons] <;> omega
    obtain ⟨x, hx, hqx, hpx⟩ := hne
    rcases List.mem_cons.mp hx with rfl | hxl
    · simp [List.filter_cons, hqx, hpx]; omega
    · have := ih hsub' ⟨x, hxl, hqx, hpx⟩
      have ha := hsub a (List.mem_cons_self)
      cases hpa : p a <;> cases hqa : q a <;> simp_all [List.filter_cons] <;> omega

/-! ## Reachability, paths -/

/-- the reflexive-transitive closure of `R` from `init` -/
inductive Reachable (R : σ → σ → Bool) (init : List σ) : σ → Prop
  | base {s : σ} : s ∈ init → Reachable R init s
  | step {s t : σ} : Reachable R init s → R s t = true → Reachable R init t

/-- `PathLen R init n s`: there is a path of exactly `n` steps from `init` to `s` -/
inductive PathLen (R : σ → σ → Bool) (init : List σ) : Nat → σ → Prop
  | base {s : σ} : s ∈ init → PathLen R init 0 s
  | step {n : Nat} {s t : σ} : PathLen R init n s → R s t = true → PathLen R init (n+1) t

/-- backward reachability: states from which `target` can be reached -/
inductive CoReachable (R : σ → σ → Bool) (target : List σ) : σ → Prop
  | base {s : σ} : s ∈ target → CoReachable R target s
  | step {s t : σ} : R s t = true → CoReachable R target t → CoReachable R target s

theorem PathLen.reachable {R : σ → σ → Bool} {init : List σ} {n : Nat} {s : σ}
    (h : PathLen R init n s) : Reachable R init s := by
  induction h with
  | base h => exact .base h
  | step _ hr ih => exact .step ih hr

theorem Reachable.exists_path {R : σ → σ → Bool} {init : List σ} {s : σ}
    (h : Reachable R init s) : ∃ n, PathLen R init n s := by
  induction h with
  | base h => exact ⟨0, .base h⟩
  | step _ hr ih => obtain ⟨n, hn⟩ := ih; exact ⟨n+1, .step hn hr⟩

theorem reachable_conv_iff {R : σ → σ → Bool} {init : List σ} {s : σ} :
    Reachable (conv R) init s ↔ CoReachable R init s := by
  constructor
  · intro h
    induction h with
    | base h => exact .base h
    | step _ hr ih => exact .step hr ih
  · intro h
    induction h with
    | base h => exact .base h
    | step hr _ ih => exact .step ih hr

/-! ## The fixed-point iteration -/

/-- one round of `S ↦ init ∪ S ∪ post R S` -/
def stepF (states : List σ) (R : σ → σ → Bool) (init S : List σ) : List σ :=
  states.filter (fun s => decide (s ∈ init) || decide (s ∈ S) || decide (s ∈ post states R S))

/-- `n` rounds starting from `init` -/
def lfpIter (states : List σ) (R : σ → σ → Bool) (init : List σ) : Nat → List σ
  | 0 => norm states init
  | n+1 => stepF states R init (lfpIter states R init n)

/-- the least fixed point: `|states|` rounds -/
def lfp (states : List σ) (R : σ → σ → Bool) (init : List σ) : List σ :=
  lfpIter states R init states.length

section
variable {states : List σ} {R : σ → σ → Bool} {init : List σ}

theorem mem_stepF {S : List σ} {s : σ} :
    s ∈ stepF states R init S ↔ s ∈ states ∧ (s ∈ init ∨ s ∈ S ∨ s ∈ post states R S) := by
  simp [stepF, or_assoc]

theorem lfpIter_sub_states {n : Nat} {s : σ} (h : s ∈ lfpIter states R init n) : s ∈ states := by
  cases n with
  | zero => exact (mem_norm.mp h).1
  | succ n => exact (mem_stepF.mp h).1

theorem lfpIter_mono {n : Nat} {s : σ} (h : s ∈ lfpIter states R init n) :
    s ∈ lfpIter states R init (n+1) := by
  show s ∈ stepF states R init (lfpIter states R init n)
  exact mem_stepF.mpr ⟨lfpIter_sub_states h, Or.inr (Or.inl h)⟩

theorem lfpIter_mono_le {n m : Nat} (hnm : n ≤ m) {s : σ} (h : s ∈ lfpIter states R init n) :
    s ∈ lfpIter states R init m := by
  induction hnm with
  | refl => exact h
  | step _ ih => exact lfpIter_mono ih

theorem init_sub_lfpIter (hc : Complete states) {n : Nat} {s : σ} (h : s ∈ init) :
    s ∈ lfpIter states R init n :=
  lfpIter_mono_le (Nat.zero_le n) (mem_norm.mpr ⟨hc s, h⟩)

/-- round `n` holds exactly the states reachable by a path of at most `n` steps -/
theorem lfpIter_iff_path (hc : Complete states) {n : Nat} {s : σ} :
    s ∈ lfpIter states R init n ↔ ∃ m, m ≤ n ∧ PathLen R init m s := by
  induction n generalizing s with
  | zero =>
    constructor
    · intro h; exact ⟨0, Nat.le_refl 0, .base (mem_norm.mp h).2⟩
    · rintro ⟨m, hm, hp⟩
      have : m = 0 := by omega
      subst this
      cases hp with
      | base h => exact mem_norm.mpr ⟨hc s, h⟩
  | succ n ih =>
    constructor
    · intro h
      rcases (mem_stepF.mp h).2 with h | h | h
      · exact ⟨0, Nat.zero_le _, .base h⟩
      · obtain ⟨m, hm, hp⟩ := ih.mp h; exact ⟨m, by omega, hp⟩
      · obtain ⟨_, u, hu, hr⟩ := mem_post.mp h
        obtain ⟨m, hm, hp⟩ := ih.mp hu
        exact ⟨m+1, by omega, .step hp hr⟩
    · rintro ⟨m, hm, hp⟩
      cases hp with
      | base h => exact init_sub_lfpIter hc h
      | @step k u _ hp hr =>
        have hu : u ∈ lfpIter states R init n := ih.mpr ⟨k, by omega, hp⟩
        exact mem_stepF.mpr ⟨hc s, Or.inr (Or.inr (mem_post.mpr ⟨hc s, u, hu, hr⟩))⟩

/-- the iteration does not change any more after round `n` -/
def Stable (states : List σ) (R : σ → σ → Bool) (init : List σ) (n : Nat) : Prop :=
  lfpIter states R init (n+1) = lfpIter states R init n

theorem lfpIter_length_le (n : Nat) : (lfpIter states R init n).length ≤ states.length := by
  cases n with
  | zero => exact List.length_filter_le _ _
  | succ n => exact List.length_filter_le _ _

/-- `lfpIter n` as a filter of `states` by its own membership test -/
theorem lfpIter_eq_filter (n : Nat) :
    lfpIter states R init n = states.filter (fun s => decide (s ∈ lfpIter states R init n)) := by
  have key : ∀ (p : σ → Bool), states.filter p = states.filter (fun s => decide (s ∈ states.filter p)) := by
    intro p
    apply List.filter_congr
    intro x hx
    simp [List.mem_filter, hx]
  cases n with
  | zero => exact key _
  | succ n => exact key _

/-- monotone growth: an unstable round adds at least one state -/
theorem unstable_grows {n : Nat} (h : ¬ Stable states R init n) :
    (lfpIter states R init n).length < (lfpIter states R init (n+1)).length := by
  rw [lfpIter_eq_filter n, lfpIter_eq_filter (n+1)]
  apply filter_length_lt
  · intro x _ hx
    simp only [decide_eq_true_eq] at hx ⊢
    exact lfpIter_mono hx
  · apply Classical.byContradiction
    intro hno
    apply h
    show lfpIter states R init (n+1) = lfpIter states R init n
    rw [lfpIter_eq_filter n, lfpIter_eq_filter (n+1)]
    apply List.filter_congr
    intro x hx
    cases h1 : decide (x ∈ lfpIter states R init (n+1)) <;>
      cases h2 : decide (x ∈ lfpIter states R init n) <;> try rfl
    · simp only [decide_eq_true_eq, decide_eq_false_iff_not] at h1 h2
      exact absurd (lfpIter_mono h2) h1
    · exact absurd ⟨x, hx, h1, h2⟩ hno

/-- pigeonhole: some round `k ≤ |states|` is stable -/
theorem exists_stable : ∃ k, k ≤ states.length ∧ Stable states R init k := by
  have grow : ∀ n, (∃ k, k < n ∧ Stable states R init k) ∨ n ≤ (lfpIter states R init n).length := by
    intro n
    induction n with
    | zero => exact Or.inr (Nat.zero_le _)
    | succ n ih =>
      rcases ih with ⟨k, hk, hs⟩ | hlen
      · exact Or.inl ⟨k, by omega, hs⟩
      · by_cases hst : Stable states R init n
        · exact Or.inl ⟨n, by omega, hst⟩
        · have := unstable_grows hst
          exact Or.inr (by omega)
  rcases grow (states.length + 1) with ⟨k, hk, hs⟩ | hlen
  · exact ⟨k, by omega, hs⟩
  · have := lfpIter_length_le (states := states) (R := R) (init := init) (states.length + 1)
    omega

theorem stable_forever {k : Nat} (hs : Stable states R init k) :
    ∀ m, k ≤ m → lfpIter states R init m = lfpIter states R init k := by
  intro m hm
  induction hm with
  | refl => rfl
  | @step m _ ih =>
    show stepF states R init (lfpIter states R init m) = _
    rw [ih]
    exact hs

theorem stable_of_le {k m : Nat} (hs : Stable states R init k) (hm : k ≤ m) : Stable states R init m := by
  unfold Stable
  rw [stable_forever hs m hm, stable_forever hs (m+1) (by omega)]

/-- a stable round is closed under the relation -/
theorem stable_closed (hc : Complete states) {k : Nat} (hs : Stable states R init k)
    {s t : σ} (h : s ∈ lfpIter states R init k) (hr : R s t = true) : t ∈ lfpIter states R init k := by
  rw [← hs]
  exact mem_stepF.mpr ⟨hc t, Or.inr (Or.inr (mem_post.mpr ⟨hc t, s, h, hr⟩))⟩

theorem stable_contains_reachable (hc : Complete states) {k : Nat} (hs : Stable states R init k)
    {s : σ} (h : Reachable R init s) : s ∈ lfpIter states R init k := by
  induction h with
  | base h => exact init_sub_lfpIter hc h
  | step _ hr ih => exact stable_closed hc hs ih hr

theorem lfp_eq_of_stable {k : Nat} (hk : k ≤ states.length) (hs : Stable states R init k) :
    lfp states R init = lfpIter states R init k :=
  stable_forever hs _ hk

theorem lfpIter_sound (hc : Complete states) {n : Nat} {s : σ} (h : s ∈ lfpIter states R init n) :
    Reachable R init s := by
  obtain ⟨m, _, hp⟩ := (lfpIter_iff_path hc).mp h
  exact hp.reachable

end

/-! ## The two loops of reach_trad.cc -/

/-- `reachset_no_frontier::compute`: `do { old = S; S = S ∪ post(S) } while (S != old)`.
    Returns the set and whether the loop stopped by its own test (`false`: out of fuel). -/
def noFrontierLoop (states : List σ) (R : σ → σ → Bool) : Nat → List σ → List σ × Bool
  | 0, S => (S, false)
  | fuel+1, S =>
    let next := post states R S
    let S' := union states S next
    if S' = S then (S', true) else noFrontierLoop states R fuel S'

def bfsNoFrontier (states : List σ) (R : σ → σ → Bool) (init : List σ) : List σ × Bool :=
  noFrontierLoop states R (states.length + 1) (norm states init)

/-- `reachset_frontier::compute`:
    `loop { next = post(frnt); frnt = next \ reach; if (frnt == ∅) break; reach = reach ∪ frnt }` -/
def frontierLoop (states : List σ) (R : σ → σ → Bool) : Nat → List σ → List σ → List σ × Bool
  | 0, reach, _ => (reach, false)
  | fuel+1, reach, frnt =>
    let next := post states R frnt
    let frnt' := diff states next reach
    if frnt' = [] then (reach, true)
    else frontierLoop states R fuel (union states reach frnt') frnt'

def bfsFrontier (states : List σ) (R : σ → σ → Bool) (init : List σ) : List σ × Bool :=
  frontierLoop states R (states.length + 1) (norm states init) (norm states init)

section
variable {states : List σ} {R : σ → σ → Bool} {init : List σ}

theorem union_post_eq_succ (hc : Complete states) (n : Nat) :
    union states (lfpIter states R init n) (post states R (lfpIter states R init n))
      = lfpIter states R init (n+1) := by
  show states.filter _ = states.filter _
  apply filter_ext
  intro x
  have h1 := mem_union (states := states) (A := lfpIter states R init n)
    (B := post states R (lfpIter states R init n)) (s := x)
  have h2 := mem_stepF (states := states) (R := R) (init := init) (S := lfpIter states R init n) (s := x)
  unfold union at h1; unfold stepF at h2
  rw [h1, h2]
  constructor
  · rintro ⟨hx, h | h⟩
    · exact ⟨hx, Or.inr (Or.inl h)⟩
    · exact ⟨hx, Or.inr (Or.inr h)⟩
  · rintro ⟨hx, h | h | h⟩
    · exact ⟨hx, Or.inl (init_sub_lfpIter hc h)⟩
    · exact ⟨hx, Or.inl h⟩
    · exact ⟨hx, Or.inr h⟩

theorem noFrontierLoop_spec (hc : Complete states) :
    ∀ fuel n, (∃ k, n ≤ k ∧ k < n + fuel ∧ Stable states R init k) →
      ∃ k, n ≤ k ∧ Stable states R init k ∧
        noFrontierLoop states R fuel (lfpIter states R init n) = (lfpIter states R init (k+1), true) := by
  intro fuel
  induction fuel with
  | zero => rintro n ⟨k, h1, h2, _⟩; omega
  | succ fuel ih =>
    rintro n ⟨k, h1, h2, hs⟩
    unfold noFrontierLoop
    simp only [union_post_eq_succ hc n]
    by_cases hst : lfpIter states R init (n+1) = lfpIter states R init n
    · rw [if_pos hst]; exact ⟨n, Nat.le_refl n, hst, rfl⟩
    · rw [if_neg hst]
      have hk : n + 1 ≤ k := by
        rcases Nat.lt_or_ge n k with h | h
        · exact h
        · have : k = n := by omega
          subst this; exact absurd hs hst
      obtain ⟨k', hk1, hk2, hk3⟩ := ih (n+1) ⟨k, hk, by omega, hs⟩
      exact ⟨k', by omega, hk2, hk3⟩

/-- loop invariant of the frontier loop after `n` rounds -/
structure FrontInv (states : List σ) (R : σ → σ → Bool) (init : List σ) (n : Nat) (reach frnt : List σ) : Prop where
  reach_eq : reach = lfpIter states R init n
  frnt_sub : ∀ s, s ∈ frnt → s ∈ reach
  border : ∀ s t, s ∈ reach → R s t = true → t ∉ reach → s ∈ frnt

theorem frontier_step (hc : Complete states) {n : Nat} {reach frnt : List σ}
    (inv : FrontInv states R init n reach frnt) :
    (diff states (post states R frnt) reach = [] ↔ Stable states R init n) ∧
    FrontInv states R init (n+1) (union states reach (diff states (post states R frnt) reach))
      (diff states (post states R frnt) reach) := by
  have hU : union states reach (diff states (post states R frnt) reach) = lfpIter states R init (n+1) := by
    show states.filter _ = states.filter _
    apply filter_ext
    intro x
    have h1 := mem_union (states := states) (A := reach)
      (B := diff states (post states R frnt) reach) (s := x)
    have h2 := mem_stepF (states := states) (R := R) (init := init) (S := lfpIter states R init n) (s := x)
    unfold union at h1; unfold stepF at h2
    rw [h1, h2, ← inv.reach_eq]
    constructor
    · rintro ⟨hx, h | h⟩
      · exact ⟨hx, Or.inr (Or.inl h)⟩
      · obtain ⟨_, hp, _⟩ := mem_diff.mp h
        obtain ⟨_, u, hu, hr⟩ := mem_post.mp hp
        exact ⟨hx, Or.inr (Or.inr (mem_post.mpr ⟨hx, u, inv.frnt_sub u hu, hr⟩))⟩
    · rintro ⟨hx, h | h | h⟩
      · exact ⟨hx, Or.inl (by rw [inv.reach_eq]; exact init_sub_lfpIter hc h)⟩
      · exact ⟨hx, Or.inl h⟩
      · by_cases hin : x ∈ reach
        · exact ⟨hx, Or.inl hin⟩
        · obtain ⟨_, u, hu, hr⟩ := mem_post.mp h
          have huf := inv.border u x hu hr hin
          exact ⟨hx, Or.inr (mem_diff.mpr ⟨hx, mem_post.mpr ⟨hx, u, huf, hr⟩, hin⟩)⟩
  refine ⟨?_, ?_⟩
  · constructor
    · intro hnil
      show lfpIter states R init (n+1) = lfpIter states R init n
      rw [← hU, hnil, ← inv.reach_eq]
      -- union reach [] = reach, because reach is a filter of states
      rw [inv.reach_eq, lfpIter_eq_filter (states := states) (R := R) (init := init) n]
      show states.filter _ = states.filter _
      apply filter_ext
      intro x
      simp [List.mem_filter]
    · intro hs
      apply List.eq_nil_iff_forall_not_mem.mpr
      intro x hx
      obtain ⟨_, _, hnot⟩ := mem_diff.mp hx
      have : x ∈ lfpIter states R init (n+1) := by
        rw [← hU]; exact mem_union.mpr ⟨hc x, Or.inr hx⟩
      rw [hs, ← inv.reach_eq] at this
      exact hnot this
  · refine ⟨hU, ?_, ?_⟩
    · intro s hs; exact mem_union.mpr ⟨hc s, Or.inr hs⟩
    · intro s t hs hr hnt
      have hnt' : t ∉ reach := fun h => hnt (mem_union.mpr ⟨hc t, Or.inl h⟩)
      rcases (mem_union.mp hs).2 with h | h
      · -- s was already reached: then t would have been added in this round
        have hsf := inv.border s t h hr hnt'
        exact absurd (mem_union.mpr ⟨hc t, Or.inr (mem_diff.mpr ⟨hc t, mem_post.mpr ⟨hc t, s, hsf, hr⟩, hnt'⟩)⟩) hnt
      · exact h

theorem frontierLoop_spec (hc : Complete states) :
    ∀ fuel n reach frnt, FrontInv states R init n reach frnt →
      (∃ k, n ≤ k ∧ k < n + fuel ∧ Stable states R init k) →
      ∃ k, n ≤ k ∧ Stable states R init k ∧
        frontierLoop states R fuel reach frnt = (lfpIter states R init k, true) := by
  intro fuel
  induction fuel with
  | zero => rintro n _ _ _ ⟨k, h1, h2, _⟩; omega
  | succ fuel ih =>
    rintro n reach frnt inv ⟨k, h1, h2, hs⟩
    obtain ⟨hstop, inv'⟩ := frontier_step hc inv
    unfold frontierLoop
    by_cases hnil : diff states (post states R frnt) reach = []
    · simp only [hnil, if_true]
      exact ⟨n, Nat.le_refl n, hstop.mp hnil, by rw [inv.reach_eq]⟩
    · simp only [hnil, if_false]
      have hk : n + 1 ≤ k := by
        rcases Nat.lt_or_ge n k with h | h
        · exact h
        · have : k = n := by omega
          subst this; exact absurd (hstop.mpr hs) hnil
      obtain ⟨k', hk1, hk2, hk3⟩ := ih (n+1) _ _ inv' ⟨k, hk, by omega, hs⟩
      exact ⟨k', by omega, hk2, hk3⟩

end

/-! ## Distances -/

/-- the successive rounds `[S, F S, F (F S), …]` (`n+1` entries), computed once -/
def layers (states : List σ) (R : σ → σ → Bool) (init : List σ) : Nat → List σ → List (List σ)
  | 0, S => [S]
  | n+1, S => S :: layers states R init n (stepF states R init S)

/-- least `k` in `[start, start+fuel)` with `p k` -/
def firstFrom (p : Nat → Bool) : Nat → Nat → Option Nat
  | 0, _ => none
  | fuel+1, k => if p k then some k else firstFrom p fuel (k+1)

/-- shortest-path length from `init` by breadth-first layers; `none` = unreachable -/
def distIn (L : List (List σ)) (s : σ) : Option Nat :=
  firstFrom (fun k => decide (s ∈ L.getD k [])) L.length 0

def dist (states : List σ) (R : σ → σ → Bool) (init : List σ) (s : σ) : Option Nat :=
  distIn (layers states R init states.length (norm states init)) s

theorem firstFrom_some {p : Nat → Bool} {fuel k n : Nat} :
    firstFrom p fuel k = some n ↔ k ≤ n ∧ n < k + fuel ∧ p n = true ∧ ∀ j, k ≤ j → j < n → p j = false := by
  induction fuel generalizing k with
  | zero => simp [firstFrom]; omega
  | succ fuel ih =>
    unfold firstFrom
    by_cases hp : p k = true
    · rw [if_pos hp]
      constructor
      · intro h
        have : k = n := by simpa using h
        subst this
        exact ⟨Nat.le_refl k, by omega, hp, fun j h1 h2 => by omega⟩
      · rintro ⟨h1, _, _, h4⟩
        rcases Nat.lt_or_ge k n with h | h
        · have := h4 k (Nat.le_refl k) h; rw [hp] at this; cases this
        · have : k = n := by omega
          subst this; rfl
    · rw [if_neg hp, ih]
      have hpf : p k = false := by cases h : p k <;> simp_all
      constructor
      · rintro ⟨h1, h2, h3, h4⟩
        refine ⟨by omega, by omega, h3, ?_⟩
        intro j hj1 hj2
        rcases Nat.lt_or_ge k j with h | h
        · exact h4 j h hj2
        · have : j = k := by omega
          subst this; exact hpf
      · rintro ⟨h1, h2, h3, h4⟩
        have hne : k ≠ n := by intro h; subst h; rw [hpf] at h3; cases h3
        exact ⟨by omega, by omega, h3, fun j hj1 hj2 => h4 j (by omega) hj2⟩

theorem firstFrom_none {p : Nat → Bool} {fuel k : Nat} :
    firstFrom p fuel k = none ↔ ∀ j, k ≤ j → j < k + fuel → p j = false := by
  induction fuel generalizing k with
  | zero => simp [firstFrom]; intro j h1 h2; omega
  | succ fuel ih =>
    unfold firstFrom
    by_cases hp : p k = true
    · rw [if_pos hp]
      constructor
      · intro h; cases h
      · intro h; have := h k (Nat.le_refl k) (by omega); rw [hp] at this; cases this
    · rw [if_neg hp, ih]
      have hpf : p k = false := by cases h : p k <;> simp_all
      constructor
      · intro h j hj1 hj2
        rcases Nat.lt_or_ge k j with h' | h'
        · exact h j h' (by omega)
        · have : j = k := by omega
          subst this; exact hpf
      · intro h j hj1 hj2; exact h j (by omega) (by omega)

section
variable {states : List σ} {R : σ → σ → Bool} {init : List σ}

theorem layers_length (n : Nat) (S : List σ) : (layers states R init n S).length = n + 1 := by
  induction n generalizing S with
  | zero => rfl
  | succ n ih => simp [layers, ih]

theorem layers_getD (n k i : Nat) (hi : i ≤ n) :
    (layers states R init n (lfpIter states R init k)).getD i [] = lfpIter states R init (k + i) := by
  induction n generalizing k i with
  | zero =>
    have : i = 0 := by omega
    subst this; rfl
  | succ n ih =>
    cases i with
    | zero => rfl
    | succ i =>
      show (layers states R init n (lfpIter states R init (k+1))).getD i [] = _
      rw [ih (k+1) i (by omega)]
      congr 1; omega

theorem dist_eq_some_iff {s : σ} {n : Nat} :
    dist states R init s = some n ↔
      n ≤ states.length ∧ s ∈ lfpIter states R init n ∧ ∀ j, j < n → s ∉ lfpIter states R init j := by
  unfold dist distIn
  rw [firstFrom_some, layers_length]
  have hL : ∀ i, i ≤ states.length →
      (layers states R init states.length (norm states init)).getD i [] = lfpIter states R init i := by
    intro i hi
    have := layers_getD (states := states) (R := R) (init := init) states.length 0 i hi
    simpa [lfpIter] using this
  constructor
  · rintro ⟨_, h2, h3, h4⟩
    have hn : n ≤ states.length := by omega
    refine ⟨hn, ?_, ?_⟩
    · rw [hL n hn] at h3; simpa using h3
    · intro j hj
      have := h4 j (Nat.zero_le j) hj
      rw [hL j (by omega)] at this
      simpa using this
  · rintro ⟨h1, h2, h3⟩
    refine ⟨Nat.zero_le n, by omega, ?_, ?_⟩
    · rw [hL n h1]; simpa using h2
    · intro j _ hj
      rw [hL j (by omega)]
      simpa using h3 j hj

end

/-! ## Distances: shortest paths, and the distance loop of reach_trad.cc -/

section
variable {states : List σ} {R : σ → σ → Bool} {init : List σ}

theorem lfp_mem_iff (hc : Complete states) (s : σ) :
    s ∈ lfp states R init ↔ Reachable R init s := by
  obtain ⟨k, hk, hs⟩ := exists_stable (states := states) (R := R) (init := init)
  rw [lfp_eq_of_stable hk hs]
  exact ⟨lfpIter_sound hc, stable_contains_reachable hc hs⟩

theorem dist_shortest_aux (hc : Complete states) (s : σ) (n : Nat) :
    dist states R init s = some n ↔
      PathLen R init n s ∧ ∀ m, PathLen R init m s → n ≤ m := by
  rw [dist_eq_some_iff]
  constructor
  · rintro ⟨_, h2, h3⟩
    obtain ⟨m, hm, hp⟩ := (lfpIter_iff_path hc).mp h2
    have hmn : m = n := by
      rcases Nat.lt_or_ge m n with h | h
      · exact absurd ((lfpIter_iff_path hc).mpr ⟨m, Nat.le_refl m, hp⟩) (h3 m h)
      · omega
    subst hmn
    refine ⟨hp, ?_⟩
    intro j hj
    rcases Nat.lt_or_ge j m with h | h
    · exact absurd ((lfpIter_iff_path hc).mpr ⟨j, Nat.le_refl j, hj⟩) (h3 j h)
    · exact h
  · rintro ⟨hp, hmin⟩
    have hN : s ∈ lfp states R init := (lfp_mem_iff hc s).mpr hp.reachable
    obtain ⟨m, hm, hpm⟩ := (lfpIter_iff_path hc).mp hN
    refine ⟨by have := hmin m hpm; omega, (lfpIter_iff_path hc).mpr ⟨n, Nat.le_refl n, hp⟩, ?_⟩
    intro j hj hin
    obtain ⟨m', hm', hp'⟩ := (lfpIter_iff_path hc).mp hin
    have := hmin m' hp'
    omega

theorem dist_none_aux (hc : Complete states) (s : σ) :
    dist states R init s = none ↔ ¬ Reachable R init s := by
  constructor
  · intro hnone hr
    obtain ⟨n, hn⟩ := hr.exists_path
    -- take the least path length
    have : ∃ n, PathLen R init n s ∧ ∀ m, PathLen R init m s → n ≤ m := by
      induction n using Nat.strongRecOn with
      | _ n ih =>
        by_cases hmin : ∀ m, PathLen R init m s → n ≤ m
        · exact ⟨n, hn, hmin⟩
        · have ⟨m, hm⟩ : ∃ m, ¬ (PathLen R init m s → n ≤ m) := Classical.not_forall.mp hmin
          have hm' : PathLen R init m s ∧ m < n := by
            constructor
            · exact Classical.byContradiction (fun h => hm (fun h' => absurd h' h))
            · exact Nat.lt_of_not_le (fun h => hm (fun _ => h))
          exact ih m hm'.2 hm'.1
    obtain ⟨n, h1, h2⟩ := this
    have := (dist_shortest_aux hc s n).mpr ⟨h1, h2⟩
    rw [hnone] at this; cases this
  · intro hnr
    cases h : dist states R init s with
    | none => rfl
    | some n => exact absurd ((dist_shortest_aux hc s n).mp h).1.reachable hnr


theorem dist_some_of_reachable (hc : Complete states) {s : σ} (h : Reachable R init s) :
    ∃ n, dist states R init s = some n := by
  cases hd : dist states R init s with
  | none => exact absurd h ((dist_none_aux hc s).mp hd)
  | some n => exact ⟨n, rfl⟩

/-- triangle inequality along an edge -/
theorem dist_edge (hc : Complete states) {s t : σ} {k : Nat} (hr : R s t = true)
    (hs : dist states R init s = some k) : ∃ d, dist states R init t = some d ∧ d ≤ k + 1 := by
  have hp := ((dist_shortest_aux hc s k).mp hs).1
  have hpt : PathLen R init (k+1) t := .step hp hr
  obtain ⟨d, hd⟩ := dist_some_of_reachable (states := states) hc hpt.reachable
  exact ⟨d, hd, ((dist_shortest_aux hc t d).mp hd).2 _ hpt⟩

/-- a state at distance `m+1` has a predecessor at distance `m` -/
theorem dist_pred (hc : Complete states) {t : σ} {m : Nat} (ht : dist states R init t = some (m+1)) :
    ∃ s, R s t = true ∧ dist states R init s = some m := by
  obtain ⟨hp, hmin⟩ := (dist_shortest_aux hc t (m+1)).mp ht
  cases hp with
  | @step _ s _ hps hr =>
    refine ⟨s, hr, (dist_shortest_aux hc s m).mpr ⟨hps, ?_⟩⟩
    intro j hj
    have := hmin (j+1) (.step hj hr)
    omega

theorem dist_unreachable_pred (hc : Complete states) {s t : σ} (hr : R s t = true)
    (ht : dist states R init t = none) : dist states R init s = none := by
  cases hs : dist states R init s with
  | none => rfl
  | some k =>
    obtain ⟨d, hd, _⟩ := dist_edge hc hr hs
    rw [ht] at hd; cases hd

end

/-- minimum of two distances, `none` = unreachable (DIST_MIN on MT integers with "negative =
    unreachable", MINIMUM on EV+ with +infinity) -/
def dmin : Option Nat → Option Nat → Option Nat
  | none, b => b
  | a, none => a
  | some a, some b => some (min a b)

def minList : List (Option Nat) → Option Nat
  | [] => none
  | x :: xs => dmin x (minList xs)

/-- POST_IMAGE on distance functions: one plus the minimum over the predecessors -/
def distImage (states : List σ) (R : σ → σ → Bool) (D : σ → Option Nat) : σ → Option Nat :=
  fun t => (minList ((states.filter (fun s => R s t)).map D)).map (· + 1)

/-- one round of the no-frontier loop on distances: `D := min(D, image(D))` -/
def distStep (states : List σ) (R : σ → σ → Bool) (D : σ → Option Nat) : σ → Option Nat :=
  fun s => dmin (D s) (distImage states R D s)

/-- `reachset_no_frontier::compute` with accumulateOp = DIST_MIN / MINIMUM -/
def distLoop (states : List σ) (R : σ → σ → Bool) : Nat → (σ → Option Nat) → (σ → Option Nat) × Bool
  | 0, D => (D, false)
  | fuel+1, D =>
    let D' := distStep states R D
    if states.all (fun s => D' s == D s) then (D', true) else distLoop states R fuel D'

def distNoFrontier (states : List σ) (R : σ → σ → Bool) (init : List σ) : (σ → Option Nat) × Bool :=
  distLoop states R (states.length + 1) (fun s => if s ∈ init then some 0 else none)

theorem minList_none {l : List (Option Nat)} : minList l = none ↔ ∀ x, x ∈ l → x = none := by
  induction l with
  | nil => simp [minList]
  | cons x xs ih =>
    cases x with
    | none => simp [minList, dmin, ih]
    | some a =>
      cases h : minList xs with
      | none => simp [minList, dmin, h]
      | some b => simp [minList, dmin, h]

theorem minList_some {l : List (Option Nat)} {m : Nat} :
    minList l = some m ↔ some m ∈ l ∧ ∀ k, some k ∈ l → m ≤ k := by
  induction l generalizing m with
  | nil => simp [minList]
  | cons x xs ih =>
    cases x with
    | none =>
      simp only [minList, dmin, List.mem_cons, reduceCtorEq, false_or]
      exact ih
    | some a =>
      cases h : minList xs with
      | none =>
        have hn := minList_none.mp h
        simp only [minList, dmin, h, Option.some.injEq, List.mem_cons]
        constructor
        · rintro rfl
          refine ⟨Or.inl rfl, ?_⟩
          rintro k (hk | hk)
          · cases hk; exact Nat.le_refl _
          · have := hn _ hk; cases this
        · rintro ⟨h1 | h1, _⟩
          · exact h1.symm
          · have := hn _ h1; cases this
      | some b =>
        obtain ⟨hb1, hb2⟩ := ih.mp h
        simp only [minList, dmin, h, Option.some.injEq, List.mem_cons]
        constructor
        · intro hm
          subst hm
          refine ⟨?_, ?_⟩
          · rcases Nat.le_total a b with hab | hab
            · left; simp [Nat.min_eq_left hab]
            · right; rw [Nat.min_eq_right hab]; exact hb1
          · rintro k (hk | hk)
            · cases hk; exact Nat.min_le_left _ _
            · exact Nat.le_trans (Nat.min_le_right _ _) (hb2 k hk)
        · rintro ⟨h1, h2⟩
          have ha : m ≤ a := h2 a (Or.inl rfl)
          have hb : m ≤ b := h2 b (Or.inr hb1)
          rcases h1 with h1 | h1
          · have : m = a := by simpa using h1
            subst this; exact Nat.min_eq_left hb
          · have := hb2 m h1
            have : m = b := by omega
            subst this; exact Nat.min_eq_right ha

section
variable {states : List σ} {R : σ → σ → Bool} {init : List σ}

/-- the distance function cut off at `n` rounds -/
def truncDist (states : List σ) (R : σ → σ → Bool) (init : List σ) (n : Nat) (s : σ) : Option Nat :=
  match dist states R init s with
  | some d => if d ≤ n then some d else none
  | none => none

theorem truncDist_some {n k : Nat} {s : σ} :
    truncDist states R init n s = some k ↔ dist states R init s = some k ∧ k ≤ n := by
  unfold truncDist
  cases dist states R init s with
  | none => simp
  | some d =>
    by_cases h : d ≤ n
    · simp only [h, if_true, Option.some.injEq]
      constructor
      · rintro rfl; exact ⟨rfl, h⟩
      · rintro ⟨h1, _⟩; exact h1
    · simp only [h, if_false, Option.some.injEq, reduceCtorEq, false_iff]
      rintro ⟨h1, h2⟩; omega

theorem distStep_trunc (hc : Complete states) {n : Nat} {D : σ → Option Nat}
    (hD : ∀ s, D s = truncDist states R init n s) (t : σ) :
    distStep states R D t = truncDist states R init (n+1) t := by
  have hDf : D = truncDist states R init n := funext hD
  subst hDf
  unfold distStep distImage
  -- facts about the predecessors' values
  have hmem : ∀ k, some k ∈ (states.filter (fun s => R s t)).map (truncDist states R init n) ↔
      ∃ s, R s t = true ∧ dist states R init s = some k ∧ k ≤ n := by
    intro k
    simp only [List.mem_map, List.mem_filter]
    constructor
    · rintro ⟨s, ⟨_, hr⟩, hs⟩; exact ⟨s, hr, truncDist_some.mp hs⟩
    · rintro ⟨s, hr, hs⟩; exact ⟨s, ⟨hc s, hr⟩, truncDist_some.mpr hs⟩
  cases hdt : dist states R init t with
  | none =>
    have h1 : truncDist states R init n t = none := by simp [truncDist, hdt]
    have h2 : truncDist states R init (n+1) t = none := by simp [truncDist, hdt]
    have h3 : minList ((states.filter (fun s => R s t)).map (truncDist states R init n)) = none := by
      cases hm : minList ((states.filter (fun s => R s t)).map (truncDist states R init n)) with
      | none => rfl
      | some m =>
        obtain ⟨s, hr, hs, _⟩ := (hmem m).mp (minList_some.mp hm).1
        have := dist_unreachable_pred hc hr hdt
        rw [hs] at this; cases this
    rw [h1, h2, h3]; rfl
  | some d =>
    -- every predecessor value k satisfies d ≤ k+1
    have htri : ∀ k, some k ∈ (states.filter (fun s => R s t)).map (truncDist states R init n) → d ≤ k + 1 := by
      intro k hk
      obtain ⟨s, hr, hs, _⟩ := (hmem k).mp hk
      obtain ⟨d', hd', hle⟩ := dist_edge hc hr hs
      rw [hdt] at hd'; cases hd'; exact hle
    rcases Nat.lt_or_ge n d with hlt | hge
    · -- d > n: the old value is unreachable
      have h1 : truncDist states R init n t = none := by
        simp only [truncDist, hdt]; rw [if_neg (by omega)]
      rw [h1]
      rcases Nat.lt_or_ge (n+1) d with hlt2 | hge2
      · -- d > n+1: no predecessor has a value
        have h2 : truncDist states R init (n+1) t = none := by
          simp only [truncDist, hdt]; rw [if_neg (by omega)]
        have h3 : minList ((states.filter (fun s => R s t)).map (truncDist states R init n)) = none := by
          cases hm : minList ((states.filter (fun s => R s t)).map (truncDist states R init n)) with
          | none => rfl
          | some m =>
            have hk := (minList_some.mp hm).1
            obtain ⟨_, _, _, hmn⟩ := (hmem m).mp hk
            have := htri m hk
            omega
        rw [h2, h3]; rfl
      · -- d = n+1: a predecessor at distance n exists, and n is the minimum
        have hd : d = n + 1 := by omega
        subst hd
        have h2 : truncDist states R init (n+1) t = some (n+1) := by
          simp [truncDist, hdt]
        obtain ⟨s, hr, hs⟩ := dist_pred hc hdt
        have h3 : minList ((states.filter (fun s => R s t)).map (truncDist states R init n)) = some n := by
          apply minList_some.mpr
          refine ⟨(hmem n).mpr ⟨s, hr, hs, Nat.le_refl n⟩, ?_⟩
          intro k hk
          have := htri k hk
          omega
        rw [h2, h3]; rfl
    · -- d ≤ n: the old value stays
      have h1 : truncDist states R init n t = some d := by
        simp only [truncDist, hdt]; rw [if_pos hge]
      have h2 : truncDist states R init (n+1) t = some d := by
        simp only [truncDist, hdt]; rw [if_pos (by omega)]
      rw [h1, h2]
      cases hm : minList ((states.filter (fun s => R s t)).map (truncDist states R init n)) with
      | none => rfl
      | some m =>
        have := htri m (minList_some.mp hm).1
        show dmin (some d) (some (m+1)) = some d
        simp only [dmin, Option.some.injEq]
        exact Nat.min_eq_left this

theorem truncDist_zero (hc : Complete states) (s : σ) :
    (if s ∈ init then some 0 else none) = truncDist states R init 0 s := by
  by_cases h : s ∈ init
  · rw [if_pos h]
    have : dist states R init s = some 0 :=
      (dist_shortest_aux hc s 0).mpr ⟨.base h, fun _ _ => Nat.zero_le _⟩
    simp [truncDist, this]
  · rw [if_neg h]
    cases hd : dist states R init s with
    | none => simp [truncDist, hd]
    | some d =>
      cases d with
      | zero =>
        have := ((dist_shortest_aux hc s 0).mp hd).1
        cases this with
        | base h' => exact absurd h' h
      | succ d => simp [truncDist, hd]

/-- no state sits exactly at distance `n+1` -/
def LevelEmpty (states : List σ) (R : σ → σ → Bool) (init : List σ) (n : Nat) : Prop :=
  ∀ s, dist states R init s ≠ some (n+1)

theorem levelEmpty_all (hc : Complete states) {n : Nat} (h : LevelEmpty states R init n) :
    ∀ s d, dist states R init s = some d → d ≤ n := by
  intro s d
  induction d generalizing s with
  | zero => intro _; omega
  | succ d ih =>
    intro hd
    obtain ⟨u, _, hu⟩ := dist_pred hc hd
    have := ih u hu
    rcases Nat.lt_or_ge d n with hlt | hge
    · omega
    · have : d = n := by omega
      subst this; exact absurd hd (h s)

theorem trunc_eq_dist_of_levelEmpty (hc : Complete states) {n m : Nat} (h : LevelEmpty states R init n)
    (hm : n ≤ m) (s : σ) : truncDist states R init m s = dist states R init s := by
  unfold truncDist
  cases hd : dist states R init s with
  | none => rfl
  | some d =>
    have := levelEmpty_all hc h s d hd
    simp only []
    rw [if_pos (by omega)]

theorem trunc_succ_eq_iff (hc : Complete states) {n : Nat} :
    (∀ s, truncDist states R init (n+1) s = truncDist states R init n s) ↔ LevelEmpty states R init n := by
  constructor
  · intro h s hs
    have h1 : truncDist states R init (n+1) s = some (n+1) := by simp [truncDist, hs]
    have h2 : truncDist states R init n s = none := by simp [truncDist, hs]
    have := h s
    rw [h1, h2] at this; cases this
  · intro h s
    rw [trunc_eq_dist_of_levelEmpty hc h (Nat.le_succ n), trunc_eq_dist_of_levelEmpty hc h (Nat.le_refl n)]

theorem distLoop_spec (hc : Complete states) :
    ∀ fuel n (D : σ → Option Nat), (∀ s, D s = truncDist states R init n s) →
      (∃ k, n ≤ k ∧ k < n + fuel ∧ LevelEmpty states R init k) →
      (distLoop states R fuel D).2 = true ∧ ∀ s, (distLoop states R fuel D).1 s = dist states R init s := by
  intro fuel
  induction fuel with
  | zero => rintro n _ _ ⟨k, h1, h2, _⟩; omega
  | succ fuel ih =>
    rintro n D hD ⟨k, h1, h2, hk⟩
    have hstep := distStep_trunc hc hD
    unfold distLoop
    by_cases hall : (states.all (fun s => distStep states R D s == D s)) = true
    · simp only [hall, if_true]
      refine ⟨by trivial, ?_⟩
      have heq : ∀ s, truncDist states R init (n+1) s = truncDist states R init n s := by
        intro s
        have := List.all_eq_true.mp hall s (hc s)
        rw [← hstep s, ← hD s]
        exact eq_of_beq this
      have hle := (trunc_succ_eq_iff hc).mp heq
      intro s
      rw [hstep s]
      exact trunc_eq_dist_of_levelEmpty hc hle (Nat.le_succ n) s
    · simp only [hall, if_false, Bool.false_eq_true]
      have hne : ¬ LevelEmpty states R init n := by
        intro hle
        apply hall
        apply List.all_eq_true.mpr
        intro s _
        rw [hstep s, hD s, (trunc_succ_eq_iff hc).mpr hle s]
        exact beq_self_eq_true _
      have hk' : n + 1 ≤ k := by
        rcases Nat.lt_or_ge n k with h | h
        · exact h
        · have : k = n := by omega
          subst this; exact absurd hk hne
      exact ih (n+1) _ hstep ⟨k, hk', by omega, hk⟩

end

/-! ## Saturation: chaotic iteration over a split relation -/

/-- union of a list of relations -/
def unionRel (pieces : List (σ → σ → Bool)) : σ → σ → Bool := fun a b => pieces.any (fun P => P a b)

/-- `Chaotic pieces init S`: `S` is obtained from `init` by a finite sequence of steps, each of
    which keeps the current set and adds only states that some single piece `P` reaches in one
    step from the current set (a step may add any subset of `post P S`, e.g. the effect of firing
    one matrix entry of one event at one node). -/
inductive Chaotic (pieces : List (σ → σ → Bool)) (init : List σ) : (σ → Prop) → Prop
  | start : Chaotic pieces init (fun s => s ∈ init)
  | fire {S S' : σ → Prop} (P : σ → σ → Bool) : P ∈ pieces → Chaotic pieces init S →
      (∀ s, S s → S' s) → (∀ t, S' t → S t ∨ ∃ s, S s ∧ P s t = true) → Chaotic pieces init S'

/-- closed under one relation -/
def ClosedUnder (P : σ → σ → Bool) (S : σ → Prop) : Prop := ∀ s t, S s → P s t = true → S t

theorem Chaotic.contains_init {pieces : List (σ → σ → Bool)} {init : List σ} {S : σ → Prop}
    (h : Chaotic pieces init S) : ∀ s, s ∈ init → S s := by
  induction h with
  | start => intro s hs; exact hs
  | fire _ _ _ hsub _ ih => intro s hs; exact hsub s (ih s hs)

theorem Chaotic.sound {pieces : List (σ → σ → Bool)} {init : List σ} {S : σ → Prop}
    (h : Chaotic pieces init S) : ∀ s, S s → Reachable (unionRel pieces) init s := by
  induction h with
  | start => intro s hs; exact .base hs
  | fire P hP _ _ hadd ih =>
    intro t ht
    rcases hadd t ht with h | ⟨s, hs, hr⟩
    · exact ih t h
    · refine .step (ih s hs) ?_
      exact List.any_eq_true.mpr ⟨P, hP, hr⟩

/-! ## The split by common diagonal (fillSplit)

  States are vectors `x_K :: … :: x_1 :: []` (top variable first).  At the top variable of size
  `sz` the relation `M` is split into the *common diagonal* `D a b := ∀ i < sz, M (i::a) (i::b)`
  (the part that does not care about the top variable: it is continued at the next level, lifted
  with the identity on the top variable) and the rest `M \ (I × D)` (`top_exactly[k]`).  -/

/-- identity on the top variable, `P` below -/
def liftId (P : List Nat → List Nat → Bool) : List Nat → List Nat → Bool
  | i :: a, j :: b => i == j && P a b
  | _, _ => false

/-- the common diagonal of `M` at a top variable of size `sz` -/
def commonDiag (sz : Nat) (M : List Nat → List Nat → Bool) : List Nat → List Nat → Bool :=
  fun a b => (List.range sz).all (fun i => M (i :: a) (i :: b))

/-- `top_exactly`: the relation minus its lifted common diagonal -/
def topExactly (sz : Nat) (M : List Nat → List Nat → Bool) : List Nat → List Nat → Bool :=
  fun x y => M x y && !(liftId (commonDiag sz M) x y)

/-- the pieces `top_exactly[K], …, top_exactly[1]`, each lifted to full state vectors -/
def splitPieces : List Nat → (List Nat → List Nat → Bool) → List (List Nat → List Nat → Bool)
  | [], _ => []
  | sz :: rest, M => topExactly sz M :: (splitPieces rest (commonDiag sz M)).map liftId

/-- what is left at the bottom of the split: the constant `top_at_or_below[0]` (dropped by
    fillSplit: it can only relate a state to itself) -/
def splitRest : List Nat → (List Nat → List Nat → Bool) → Bool
  | [], M => M [] []
  | sz :: rest, M => splitRest rest (commonDiag sz M)

/-- state vectors of the domain with sizes `sizes` (top variable first) -/
def InDom : List Nat → List Nat → Prop
  | [], x => x = []
  | sz :: rest, x => ∃ i a, x = i :: a ∧ i < sz ∧ InDom rest a

theorem liftId_cons {P : List Nat → List Nat → Bool} {i j : Nat} {a b : List Nat} :
    liftId P (i :: a) (j :: b) = true ↔ i = j ∧ P a b = true := by
  simp [liftId]

theorem commonDiag_true {sz : Nat} {M : List Nat → List Nat → Bool} {a b : List Nat} :
    commonDiag sz M a b = true ↔ ∀ i, i < sz → M (i :: a) (i :: b) = true := by
  simp [commonDiag]

/-- every piece of the split is a sub-relation of `M` (on states of the domain) -/
theorem splitPieces_sub {sizes : List Nat} {M P : List Nat → List Nat → Bool} {x y : List Nat}
    (hx : InDom sizes x) (hP : P ∈ splitPieces sizes M) (h : P x y = true) : M x y = true := by
  induction sizes generalizing M P x y with
  | nil => cases hP
  | cons sz rest ih =>
    obtain ⟨i, a, rfl, hi, ha⟩ := hx
    rcases List.mem_cons.mp hP with rfl | hP
    · simp only [topExactly, Bool.and_eq_true] at h; exact h.1
    · obtain ⟨Q, hQ, rfl⟩ := List.mem_map.mp hP
      cases y with
      | nil => simp [liftId] at h
      | cons j b =>
        obtain ⟨rfl, hq⟩ := liftId_cons.mp h
        exact commonDiag_true.mp (ih ha hQ hq) i hi

/-- `fillSplit`: the pieces together with the dropped bottom constant denote the relation -/
theorem split_union_aux {sizes : List Nat} {M : List Nat → List Nat → Bool} {x y : List Nat}
    (hx : InDom sizes x) (hy : InDom sizes y) :
    M x y = true ↔ (∃ P, P ∈ splitPieces sizes M ∧ P x y = true) ∨ (x = y ∧ splitRest sizes M = true) := by
  induction sizes generalizing M x y with
  | nil =>
    cases hx; cases hy
    simp [splitPieces, splitRest]
  | cons sz rest ih =>
    obtain ⟨i, a, rfl, hi, ha⟩ := hx
    obtain ⟨j, b, rfl, hj, hb⟩ := hy
    have IH := ih (M := commonDiag sz M) ha hb
    constructor
    · intro hM
      by_cases hd : liftId (commonDiag sz M) (i :: a) (j :: b) = true
      · obtain ⟨rfl, hD⟩ := liftId_cons.mp hd
        rcases IH.mp hD with ⟨Q, hQ, hq⟩ | ⟨rfl, hr⟩
        · exact Or.inl ⟨liftId Q, List.mem_cons_of_mem _ (List.mem_map.mpr ⟨Q, hQ, rfl⟩),
            liftId_cons.mpr ⟨rfl, hq⟩⟩
        · exact Or.inr ⟨rfl, hr⟩
      · refine Or.inl ⟨topExactly sz M, List.mem_cons_self, ?_⟩
        have : liftId (commonDiag sz M) (i :: a) (j :: b) = false := Bool.eq_false_iff.mpr hd
        simp only [topExactly, hM, this, Bool.not_false, Bool.and_self]
    · rintro (⟨P, hP, hp⟩ | ⟨hxy, hr⟩)
      · have hx' : InDom (sz :: rest) (i :: a) := ⟨i, a, rfl, hi, ha⟩
        exact splitPieces_sub hx' hP hp
      · obtain ⟨rfl, rfl⟩ := List.cons.inj hxy
        have hD : commonDiag sz M a a = true := IH.mpr (Or.inr ⟨rfl, hr⟩)
        exact commonDiag_true.mp hD i hi

/-- adding or removing self-loops does not change what is reachable -/
theorem reachable_mod_selfloops {τ : Type} {R R' : τ → τ → Bool} {init : List τ} {Dom : τ → Prop}
    (hinit : ∀ s, s ∈ init → Dom s)
    (hclosed : ∀ s t, Dom s → R s t = true → Dom t)
    (h1 : ∀ s t, Dom s → Dom t → R s t = true → R' s t = true ∨ s = t)
    (h2 : ∀ s t, Dom s → R' s t = true → R s t = true) (s : τ) :
    Reachable R init s ↔ Reachable R' init s := by
  constructor
  · intro h
    have : Reachable R' init s ∧ Dom s := by
      induction h with
      | base h => exact ⟨.base h, hinit _ h⟩
      | @step u t _ hr ih =>
        have ht := hclosed u t ih.2 hr
        rcases h1 u t ih.2 ht hr with h | rfl
        · exact ⟨.step ih.1 h, ht⟩
        · exact ih
    exact this.1
  · intro h
    have : Reachable R init s ∧ Dom s := by
      induction h with
      | base h => exact ⟨.base h, hinit _ h⟩
      | @step u t _ hr ih =>
        have hr' := h2 u t ih.2 hr
        exact ⟨.step ih.1 hr', hclosed u t ih.2 hr'⟩
    exact this.1

/-! ## Property theorems -/

section
variable {states : List σ} {R : σ → σ → Bool} {init : List σ}

/-- `|states|` rounds of `S ↦ init ∪ S ∪ post R S` hold exactly the states reachable from `init`
    in zero or more steps: this list is the specification every reachability operation of
    ops_builtin.h is compared with. -/
theorem lfpIter_spec (hc : Complete states) (s : σ) :
    s ∈ lfp states R init ↔ Reachable R init s :=
  lfp_mem_iff hc s

example : lfp (List.finRange 4) (fun a b => decide (b.val = a.val + 1 ∧ a.val ≠ 2)) [1] = [1, 2] := by decide

/-- REACHABLE_TRAD_NOFS (`reachset_no_frontier::compute`): the loop stops by its own test within
    `|states|+1` rounds and returns exactly the least fixed point - the identical canonical set,
    no state missing, none extra. -/
theorem bfs_nofrontier_eq_lfp (hc : Complete states) :
    bfsNoFrontier states R init = (lfp states R init, true) := by
  obtain ⟨k, hk, hs⟩ := exists_stable (states := states) (R := R) (init := init)
  obtain ⟨k', _, hs', heq⟩ := noFrontierLoop_spec hc (states.length + 1) 0 ⟨k, Nat.zero_le k, by omega, hs⟩
  unfold bfsNoFrontier
  show noFrontierLoop states R (states.length + 1) (lfpIter states R init 0) = _
  rw [heq, hs', lfp_eq_of_stable hk hs]
  congr 1
  rcases Nat.le_total k k' with h | h
  · exact stable_forever hs k' h
  · exact (stable_forever hs' k h).symm

example : bfsNoFrontier (List.finRange 5) (fun a b => decide (b.val = (a.val + 2) % 5 ∧ a.val ≠ 4)) [0]
    = ([0, 2, 4], true) := by decide

/-- REACHABLE_TRAD_FS (`reachset_frontier::compute`): the frontier becomes empty within
    `|states|+1` rounds and the accumulated set is exactly the least fixed point. -/
theorem bfs_frontier_eq_lfp (hc : Complete states) :
    bfsFrontier states R init = (lfp states R init, true) := by
  obtain ⟨k, hk, hs⟩ := exists_stable (states := states) (R := R) (init := init)
  have inv0 : FrontInv states R init 0 (norm states init) (norm states init) :=
    ⟨rfl, fun _ h => h, fun s _ h _ _ => h⟩
  obtain ⟨k', _, hs', heq⟩ := frontierLoop_spec hc (states.length + 1) 0 _ _ inv0 ⟨k, Nat.zero_le k, by omega, hs⟩
  unfold bfsFrontier
  rw [heq, lfp_eq_of_stable hk hs]
  congr 1
  rcases Nat.le_total k k' with h | h
  · exact stable_forever hs k' h
  · exact (stable_forever hs' k h).symm

example : bfsFrontier (List.finRange 5) (fun a b => decide (b.val = (a.val + 2) % 5 ∧ a.val ≠ 4)) [0]
    = ([0, 2, 4], true) := by decide

/-- Both breadth-first algorithms return the identical set (hence, in a canonical forest, the
    identical edge), and membership in it is reachability in zero or more steps. -/
theorem bfs_algorithms_agree (hc : Complete states) :
    (bfsFrontier states R init).1 = (bfsNoFrontier states R init).1 ∧
    ∀ s, s ∈ (bfsFrontier states R init).1 ↔ Reachable R init s := by
  rw [bfs_frontier_eq_lfp hc, bfs_nofrontier_eq_lfp hc]
  exact ⟨rfl, lfpIter_spec hc⟩

example : (bfsFrontier (List.finRange 3) (fun a b => decide (a = b)) [2]).1 =
    (bfsNoFrontier (List.finRange 3) (fun a b => decide (a = b)) [2]).1 := by decide

/-- PRE_IMAGE is POST_IMAGE of the converse relation. -/
theorem pre_eq_post_conv (S : List σ) : pre states R S = post states (conv R) S := rfl

/-- The backward operations (REACHABLE_TRAD_*(false)) are the forward ones on the converse
    relation and return exactly the states from which the target set can be reached. -/
theorem bfs_backward_spec (hc : Complete states) (s : σ) :
    (s ∈ (bfsNoFrontier states (conv R) init).1 ↔ CoReachable R init s) ∧
    (s ∈ (bfsFrontier states (conv R) init).1 ↔ CoReachable R init s) := by
  rw [bfs_frontier_eq_lfp hc, bfs_nofrontier_eq_lfp hc]
  exact ⟨(lfpIter_spec hc s).trans reachable_conv_iff, (lfpIter_spec hc s).trans reachable_conv_iff⟩

example : (bfsNoFrontier (List.finRange 4) (conv (fun a b => decide (b.val = a.val + 1))) [2]).1
    = [0, 1, 2] := by decide

/-- The distance-valued variants: `dist s = some n` iff `n` is the length of a shortest path from
    the initial set to `s`. -/
theorem dist_eq_shortest (hc : Complete states) (s : σ) (n : Nat) :
    dist states R init s = some n ↔
      PathLen R init n s ∧ ∀ m, PathLen R init m s → n ≤ m :=
  dist_shortest_aux hc s n

/-- … and the 'unreachable' value exactly at the states that are not reachable. -/
theorem dist_none_iff (hc : Complete states) (s : σ) :
    dist states R init s = none ↔ ¬ Reachable R init s :=
  dist_none_aux hc s

example : (List.finRange 5).map (dist (List.finRange 5) (fun a b => decide (b.val = (a.val + 2) % 5 ∧ a.val ≠ 4)) [0])
    = [some 0, none, some 1, none, some 2] := by decide

/-- REACHABLE_TRAD_NOFS on distance functions (`reachset_no_frontier::compute` with image =
    "one plus the minimum over the predecessors" and accumulate = DIST_MIN / MINIMUM): the loop
    stops by its own test within `|states|+1` rounds and returns, for every state, the length of
    a shortest path from the initial set, and the 'unreachable' value elsewhere. -/
theorem dist_nofrontier_eq_dist (hc : Complete states) :
    (distNoFrontier states R init).2 = true ∧
    ∀ s, (distNoFrontier states R init).1 s = dist states R init s := by
  apply distLoop_spec hc (states.length + 1) 0 _ (truncDist_zero hc)
  refine ⟨states.length, Nat.zero_le _, by omega, ?_⟩
  intro s hs
  have := (dist_eq_some_iff.mp hs).1
  omega

example : (List.finRange 5).map (distNoFrontier (List.finRange 5) (fun a b => decide (b.val = (a.val + 2) % 5 ∧ a.val ≠ 4)) [0]).1
    = [some 0, none, some 1, none, some 2] := by decide

end

/-- Chaotic iteration (what saturation's correctness reduces to): ANY sequence of firings of
    pieces of a split relation that ends in a set closed under every piece ends in exactly the
    set reachable under the union of the pieces - only reachable states are ever added, and a
    closed superset of the initial set contains every reachable state.  The order in which
    `saturate_1` / `recFire` fire events is one such schedule. -/
theorem chaotic_eq_lfp {pieces : List (σ → σ → Bool)} {init : List σ} {S : σ → Prop}
    (h : Chaotic pieces init S) (hclosed : ∀ P, P ∈ pieces → ClosedUnder P S) (s : σ) :
    S s ↔ Reachable (unionRel pieces) init s := by
  constructor
  · exact h.sound s
  · intro hr
    induction hr with
    | base hi => exact h.contains_init _ hi
    | step _ hr ih =>
      obtain ⟨P, hP, hp⟩ := List.any_eq_true.mp hr
      exact hclosed P hP _ _ ih hp

example : ∃ S : Fin 3 → Prop, Chaotic [fun a b => decide (a.val = 0 ∧ b.val = 1), fun a b => decide (a.val = 1 ∧ b.val = 2)] [0] S
    ∧ S 2 := by
  refine ⟨fun s => s ∈ [0] ∨ s = 1 ∨ s = 2, ?_, Or.inr (Or.inr rfl)⟩
  refine Chaotic.fire (S := fun s => s ∈ [0] ∨ s = 1) _ (List.mem_cons_of_mem _ List.mem_cons_self) ?_ ?_ ?_
  · refine Chaotic.fire (S := fun s => s ∈ [0]) _ List.mem_cons_self Chaotic.start ?_ ?_
    · intro s hs; exact Or.inl hs
    · rintro t (h | h)
      · exact Or.inl h
      · exact Or.inr ⟨0, by simp, by subst h; decide⟩
  · rintro s (h | h)
    · exact Or.inl h
    · exact Or.inr (Or.inl h)
  · rintro t (h | h | h)
    · exact Or.inl (Or.inl h)
    · exact Or.inl (Or.inr h)
    · exact Or.inr ⟨1, Or.inr rfl, by subst h; decide⟩

/-- `fillSplit` (split of the relation by common diagonal into `top_exactly[K..1]`): on states of
    the domain the relation is the union of the pieces, up to the bottom constant, which can only
    relate a state to itself. -/
theorem split_union {sizes : List Nat} {M : List Nat → List Nat → Bool} {x y : List Nat}
    (hx : InDom sizes x) (hy : InDom sizes y) :
    M x y = true ↔ unionRel (splitPieces sizes M) x y = true ∨ (x = y ∧ splitRest sizes M = true) := by
  rw [split_union_aux hx hy]
  simp only [unionRel, List.any_eq_true]

example : (splitPieces [2, 2] (fun x y => decide (x = [0, 0] ∧ y = [0, 1] ∨ x = [1, 0] ∧ y = [1, 1] ∨ x = [0, 1] ∧ y = [1, 1]))).map
    (fun P => (P [0, 0] [0, 1], P [1, 0] [1, 1], P [0, 1] [1, 1])) = [(false, false, true), (true, true, false)] := by decide

/-- The split is reachability-preserving: the states reachable under the union of the pieces
    `top_exactly[k]` are exactly the states reachable under the relation. -/
theorem reachable_split {sizes : List Nat} {M : List Nat → List Nat → Bool} {init : List (List Nat)}
    (hinit : ∀ s, s ∈ init → InDom sizes s)
    (hM : ∀ x y, InDom sizes x → M x y = true → InDom sizes y) (s : List Nat) :
    Reachable M init s ↔ Reachable (unionRel (splitPieces sizes M)) init s := by
  apply reachable_mod_selfloops (Dom := InDom sizes) hinit hM
  · intro x y hx hy h
    rcases (split_union hx hy).mp h with h | ⟨h, _⟩
    · exact Or.inl h
    · exact Or.inr h
  · intro x y hx h
    obtain ⟨P, hP, hp⟩ := List.any_eq_true.mp h
    exact splitPieces_sub hx hP hp

/-- Saturation, scheduling-independent part: any chaotic firing of the pieces produced by the
    split that ends in a set closed under every piece ends in exactly the set reachable under the
    ORIGINAL relation.  (The decision-diagram recursion that realises one such schedule, and its
    compute-table entries, are not modelled.) -/
theorem saturation_schedule_correct {sizes : List Nat} {M : List Nat → List Nat → Bool}
    {init : List (List Nat)} {S : List Nat → Prop}
    (hinit : ∀ s, s ∈ init → InDom sizes s)
    (hM : ∀ x y, InDom sizes x → M x y = true → InDom sizes y)
    (h : Chaotic (splitPieces sizes M) init S)
    (hclosed : ∀ P, P ∈ splitPieces sizes M → ClosedUnder P S) (s : List Nat) :
    S s ↔ Reachable M init s :=
  (chaotic_eq_lfp h hclosed s).trans (reachable_split hinit hM s).symm

/-
  Full-strength target of DESIGN.md §5 C08, NOT proved (kept visible):

      theorem satur_eq_lfp : eval (saturate init R) = lfp init R

  where `saturate` would be the decision-diagram recursion of satur_sets.cc (`saturate_1`,
  `_saturate_1`, `recFire` over unpacked nodes, with the `saturate` / `satfire` compute tables and
  the per-level explorer queues).  That recursion is not modelled.  What is missing for the full
  statement: (1) a node-level model of `saturate_1` / `recFire`; (2) the invariant that every
  firing performed by `_saturate_1` / `recFire` is a `Chaotic.fire` step of the piece
  `top_exactly[k]` it belongs to (soundness of each `addToCi`); (3) that on return the node is
  closed under every piece with top ≤ its level (the explorer queue is empty only then);
  (4) transparency of the two compute tables w.r.t. the CURRENT split (this is exactly what fails
  in the library: known finding F4).  Given (2) and (3), the theorem below closes the argument.
-/

/-- The proven part of `satur_eq_lfp`: see `saturation_schedule_correct` (same statement). -/
theorem satur_eq_lfp_partial {sizes : List Nat} {M : List Nat → List Nat → Bool}
    {init : List (List Nat)} {S : List Nat → Prop}
    (hinit : ∀ s, s ∈ init → InDom sizes s)
    (hM : ∀ x y, InDom sizes x → M x y = true → InDom sizes y)
    (h : Chaotic (splitPieces sizes M) init S)
    (hclosed : ∀ P, P ∈ splitPieces sizes M → ClosedUnder P S) (s : List Nat) :
    S s ↔ Reachable M init s :=
  saturation_schedule_correct hinit hM h hclosed s

example : ∀ s, (fun x => x = [0] ∨ x = [1]) s ↔
    Reachable (fun x y => decide (x = [0] ∧ y = [1])) [[0]] s := by
  apply satur_eq_lfp_partial (sizes := [2])
  · intro s hs; simp at hs; subst hs; exact ⟨0, [], rfl, by omega, rfl⟩
  · intro x y _ h; simp at h; obtain ⟨_, rfl⟩ := h; exact ⟨1, [], rfl, by omega, rfl⟩
  · refine Chaotic.fire (S := fun x => x ∈ [[0]]) (topExactly 2 (fun x y => decide (x = [0] ∧ y = [1])))
      List.mem_cons_self Chaotic.start ?_ ?_
    · intro s hs; simp at hs; exact Or.inl hs
    · rintro t (h | h)
      · exact Or.inl (by simp [h])
      · exact Or.inr ⟨[0], by simp, by subst h; decide⟩
  · intro P hP x y hx hp
    simp only [splitPieces, List.map_nil, List.mem_cons, List.not_mem_nil, or_false] at hP
    subst hP
    simp only [topExactly, Bool.and_eq_true, decide_eq_true_eq] at hp
    exact Or.inr hp.1.2

end Reach
end Meddly

/-
  #print axioms (Lean 4.33.0), property theorems of this file:

  'Meddly.Reach.lfpIter_spec' depends on axioms: [propext, Classical.choice, Quot.sound]
  'Meddly.Reach.bfs_nofrontier_eq_lfp' depends on axioms: [propext, Classical.choice, Quot.sound]
  'Meddly.Reach.bfs_frontier_eq_lfp' depends on axioms: [propext, Classical.choice, Quot.sound]
  'Meddly.Reach.bfs_algorithms_agree' depends on axioms: [propext, Classical.choice, Quot.sound]
  'Meddly.Reach.pre_eq_post_conv' does not depend on any axioms
  'Meddly.Reach.bfs_backward_spec' depends on axioms: [propext, Classical.choice, Quot.sound]
  'Meddly.Reach.dist_eq_shortest' depends on axioms: [propext, Classical.choice, Quot.sound]
  'Meddly.Reach.dist_none_iff' depends on axioms: [propext, Classical.choice, Quot.sound]
  'Meddly.Reach.dist_nofrontier_eq_dist' depends on axioms: [propext, Classical.choice, Quot.sound]
  'Meddly.Reach.chaotic_eq_lfp' depends on axioms: [propext, Quot.sound]
  'Meddly.Reach.split_union' depends on axioms: [propext, Classical.choice, Quot.sound]
  'Meddly.Reach.reachable_split' depends on axioms: [propext, Classical.choice, Quot.sound]
  'Meddly.Reach.saturation_schedule_correct' depends on axioms: [propext, Classical.choice, Quot.sound]
  'Meddly.Reach.satur_eq_lfp_partial' depends on axioms: [propext, Classical.choice, Quot.sound]
  (Spec/ReachTables.lean)
  'Meddly.Spec.ReachTables.reachList_spec' depends on axioms: [propext, Classical.choice, Quot.sound]
  'Meddly.Spec.ReachTables.distList_spec' depends on axioms: [propext, Quot.sound]
-/
