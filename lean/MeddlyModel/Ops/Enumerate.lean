/-
  C11 — enumeration and counting.

  `enumerate` / `enumerateMask` mirror `iterator_templ::first_unpr / first_pri / next`
  (src/dd_edge.cc): positions are visited top-down (`k, k-1, …, 1`; for relations this is
  the interleaved order x_K, x'_K, x_{K-1}, …), indices ascending, the transparent
  terminal is never entered (`if (0==p) return false`), a skipped `red` position is
  expanded over all values (`initRedundant`), a skipped `ident` position is forced to
  the value chosen at the position above (`initIdentity(-k, M_from(k), p)`), a bound
  position (mask entry ≠ DONT_CARE) tries its single value, `DONT_CHANGE` = the value
  above.  `card` mirrors `card_templ::_compute` (src/operations/cardinality.cc):
  skipped positions scale the count by the variable size, except primed positions of
  identity-reduced forests.  `Dump.nodeCount / edgeCount` mirror `node_marker`.

  Assignments are digit lists, most significant (top position) first.
-/
import MeddlyModel.Core.DD
import MeddlyModel.Core.Canon
import MeddlyModel.Core.Dump

namespace Meddly

set_option linter.unusedSectionVars false
set_option linter.unusedVariables false

/-! ## Digit lists -/

/-- all digit lists for positions `k … 1`, most significant first, in lexicographic order -/
def lexAll (S : Shape) : Nat → List (List Nat)
  | 0 => [[]]
  | k+1 => (List.range (S.size (k+1))).flatMap (fun i => (lexAll S k).map (fun ds => i :: ds))

/-- extend `a` (which supplies the positions above `k`) with digits for positions `k … 1` -/
def withDigits (a : Assign) : Nat → List Nat → Assign
  | k+1, i :: ds => withDigits (Assign.upd a (k+1) i) k ds
  | _, _ => a

theorem withDigits_zero (a : Assign) (ds : List Nat) : withDigits a 0 ds = a := by
  cases ds <;> rfl

theorem withDigits_above : ∀ (k : Nat) (ds : List Nat) (a : Assign) (q : Nat), k < q →
    withDigits a k ds q = a q := by
  intro k
  induction k with
  | zero => intro ds a q _; rw [withDigits_zero]
  | succ k ih =>
    intro ds a q hq
    cases ds with
    | nil => rfl
    | cons i ds =>
      show withDigits (Assign.upd a (k+1) i) k ds q = a q
      rw [ih ds _ q (by omega), Assign.upd_other a i (by omega)]

/-- strict lexicographic order on digit lists -/
def lexLt : List Nat → List Nat → Bool
  | [], [] => false
  | [], _ :: _ => true
  | _ :: _, [] => false
  | x :: xs, y :: ys => decide (x < y) || (x == y && lexLt xs ys)

/-! ## Masks -/

/-- one mask entry: `free` = DONT_CARE, `fixed v`, `same` = DONT_CHANGE (value of the position above) -/
inductive MaskE where
  | free
  | fixed (v : Nat)
  | same
  deriving DecidableEq, Repr, Inhabited

abbrev Mask := Nat → MaskE

def MaskE.ok (e : MaskE) (here above : Nat) : Bool :=
  match e with
  | .free => true
  | .fixed v => here == v
  | .same => here == above

/-- the assignment agrees with the mask at positions `k … 1` -/
def matchesMask (m : Mask) (a : Assign) : Nat → Bool
  | 0 => true
  | k+1 => (m (k+1)).ok (a (k+1)) (a (k+2)) && matchesMask m a k

def Mask.allFree : Mask := fun _ => .free

theorem matchesMask_allFree (a : Assign) : ∀ k, matchesMask Mask.allFree a k = true := by
  intro k
  induction k with
  | zero => rfl
  | succ k ih => simp [matchesMask, Mask.allFree, MaskE.ok, ih]

namespace DD
variable {α : Type} [DecidableEq α]

def enumChildAt (zero : α) (d : DD α) (i : Nat) : DD α := d.children.getD i (.leaf zero)

/-! ## The iterator -/

/-- Unmasked enumeration from position `k` downwards; `up` is the value chosen at position `k+1`.
    (The guard `up < size` at a skipped `ident` position has no counterpart in the code: there
    the primed and the unprimed variable have the same size, see `card_eq_length`.) -/
def enumerate (S : Shape) (zero : α) : Nat → Nat → DD α → List (List Nat × α)
  | 0, _, .leaf v => if v = zero then [] else [([], v)]
  | 0, _, .node _ _ => []
  | k+1, up, d =>
    if d = .leaf zero then [] else
    if d.isNodeAt (k+1) = true then
      (List.range (S.size (k+1))).flatMap (fun i =>
        (enumerate S zero k i (enumChildAt zero d i)).map (fun e => (i :: e.1, e.2)))
    else if S.mode (k+1) = .ident then
      if up < S.size (k+1) then (enumerate S zero k up d).map (fun e => (up :: e.1, e.2)) else []
    else
      (List.range (S.size (k+1))).flatMap (fun i =>
        (enumerate S zero k i d).map (fun e => (i :: e.1, e.2)))

/-- the values of position `k+1` the masked iterator tries, ascending -/
def tryIdx (S : Shape) (m : Mask) (k up : Nat) (skippedIdent : Bool) : List Nat :=
  match m (k+1) with
  | .free =>
    if skippedIdent then (if up < S.size (k+1) then [up] else []) else List.range (S.size (k+1))
  | .fixed v => if v < S.size (k+1) then [v] else []
  | .same => if up < S.size (k+1) then [up] else []

/-- Masked enumeration. -/
def enumerateMask (S : Shape) (zero : α) (m : Mask) : Nat → Nat → DD α → List (List Nat × α)
  | 0, _, .leaf v => if v = zero then [] else [([], v)]
  | 0, _, .node _ _ => []
  | k+1, up, d =>
    if d = .leaf zero then [] else
    (tryIdx S m k up (!d.isNodeAt (k+1) && decide (S.mode (k+1) = .ident))).flatMap (fun i =>
      if d.isNodeAt (k+1) = true then
        (enumerateMask S zero m k i (enumChildAt zero d i)).map (fun e => (i :: e.1, e.2))
      else if S.mode (k+1) = .ident ∧ i ≠ up then []
      else (enumerateMask S zero m k i d).map (fun e => (i :: e.1, e.2)))

/-- what the specification lists for the digit list `ds` -/
def specEntry (S : Shape) (zero : α) (m : Mask) (k : Nat) (d : DD α) (a : Assign) (ds : List Nat) :
    Option (List Nat × α) :=
  if matchesMask m (withDigits a k ds) k = true ∧ eval S zero k d (withDigits a k ds) ≠ zero
  then some (ds, eval S zero k d (withDigits a k ds)) else none

/-! ## Cardinality -/

def card (S : Shape) (zero : α) : Nat → DD α → Nat
  | 0, .leaf v => if v = zero then 0 else 1
  | 0, .node _ _ => 0
  | k+1, d =>
    if d = .leaf zero then 0 else
    if d.isNodeAt (k+1) = true then
      ((List.range (S.size (k+1))).map (fun i => card S zero k (enumChildAt zero d i))).sum
    else if S.mode (k+1) = .ident then card S zero k d
    else S.size (k+1) * card S zero k d

end DD

/-! ## List lemmas -/

theorem flatMap_range_single {β : Type} (n v : Nat) (H : Nat → List β) :
    (List.range n).flatMap (fun i => if i = v then H i else []) = if v < n then H v else [] := by
  induction n with
  | zero => simp
  | succ n ih =>
    rw [List.range_succ, List.flatMap_append, ih]
    by_cases h1 : v < n
    · have : n ≠ v := by omega
      simp [h1, this, Nat.lt_succ_of_lt h1]
    · by_cases h2 : n = v
      · subst h2; simp
      · have h3 : ¬ v < n + 1 := by omega
        simp [h1, h2, h3]

theorem filterMap_flatMap' {β γ δ : Type} (l : List β) (f : β → List γ) (g : γ → Option δ) :
    (l.flatMap f).filterMap g = l.flatMap (fun x => (f x).filterMap g) := by
  induction l with
  | nil => rfl
  | cons x xs ih => simp [List.flatMap_cons, List.filterMap_append, ih]

theorem flatMap_congr' {β γ : Type} (l : List β) (f g : β → List γ) (h : ∀ x ∈ l, f x = g x) :
    l.flatMap f = l.flatMap g := by
  induction l with
  | nil => rfl
  | cons x xs ih =>
    rw [List.flatMap_cons, List.flatMap_cons, h x (by simp), ih (fun y hy => h y (by simp [hy]))]

theorem filterMap_none' {β γ : Type} (l : List β) (g : β → Option γ) (h : ∀ x ∈ l, g x = none) :
    l.filterMap g = [] := by
  induction l with
  | nil => rfl
  | cons x xs ih =>
    rw [List.filterMap_cons, h x (by simp)]
    exact ih (fun y hy => h y (by simp [hy]))

theorem filterMap_congr' {β γ : Type} (l : List β) (f g : β → Option γ) (h : ∀ x ∈ l, f x = g x) :
    l.filterMap f = l.filterMap g := by
  induction l with
  | nil => rfl
  | cons x xs ih =>
    rw [List.filterMap_cons, List.filterMap_cons, h x (by simp), ih (fun y hy => h y (by simp [hy]))]

theorem sum_map_const' {β : Type} (l : List β) (c : Nat) : (l.map (fun _ => c)).sum = l.length * c := by
  induction l with
  | nil => simp
  | cons x xs ih => simp [ih, Nat.succ_mul, Nat.add_comm]

namespace DD
variable {α : Type} [DecidableEq α]

/-! ## Unfolding lemmas -/

theorem enumerateMask_succ (S : Shape) (zero : α) (m : Mask) (k up : Nat) (d : DD α) :
    enumerateMask S zero m (k+1) up d =
    if d = .leaf zero then [] else
    (tryIdx S m k up (!d.isNodeAt (k+1) && decide (S.mode (k+1) = .ident))).flatMap (fun i =>
      if d.isNodeAt (k+1) = true then
        (enumerateMask S zero m k i (enumChildAt zero d i)).map (fun e => (i :: e.1, e.2))
      else if S.mode (k+1) = .ident ∧ i ≠ up then []
      else (enumerateMask S zero m k i d).map (fun e => (i :: e.1, e.2))) := by
  rw [enumerateMask]

theorem lexAll_succ (S : Shape) (k : Nat) :
    lexAll S (k+1) = (List.range (S.size (k+1))).flatMap (fun i => (lexAll S k).map (fun ds => i :: ds)) := rfl

theorem eval_succ_at (S : Shape) (zero : α) (k : Nat) (d : DD α) (b : Assign) :
    eval S zero (k+1) d b =
      if d.isNodeAt (k+1) = true then eval S zero k (enumChildAt zero d (b (k+1))) b
      else if S.mode (k+1) = .ident ∧ b (k+1) ≠ b (k+2) then zero else eval S zero k d b := by
  rcases storedAt_cases (k+1) d with ⟨cs, rfl⟩ | hd
  · rw [eval_succ_node]; simp [isNodeAt, enumChildAt, children]
  · rw [eval_succ_skip S zero k b hd]; simp [hd]

/-- the part of the specification entry that concerns position `k+1` -/
def headOK (S : Shape) (m : Mask) (k up : Nat) (d : DD α) (i : Nat) : Prop :=
  (m (k+1)).ok i up = true ∧ ¬ (d.isNodeAt (k+1) = false ∧ S.mode (k+1) = .ident ∧ i ≠ up)

instance (S : Shape) (m : Mask) (k up : Nat) (d : DD α) (i : Nat) : Decidable (headOK S m k up d i) := by
  unfold headOK; exact inferInstance

def subAt (zero : α) (k : Nat) (d : DD α) (i : Nat) : DD α :=
  if d.isNodeAt (k+1) = true then enumChildAt zero d i else d

theorem specEntry_cons (S : Shape) (zero : α) (m : Mask) (k : Nat) (d : DD α) (a : Assign)
    (i : Nat) (ds : List Nat) :
    specEntry S zero m (k+1) d a (i :: ds) =
      if headOK S m k (a (k+2)) d i then
        (specEntry S zero m k (subAt zero k d i) (Assign.upd a (k+1) i) ds).map (fun e => (i :: e.1, e.2))
      else none := by
  have hb1 : withDigits (Assign.upd a (k+1) i) k ds (k+1) = i := by
    rw [withDigits_above k ds _ (k+1) (by omega), Assign.upd_same]
  have hb2 : withDigits (Assign.upd a (k+1) i) k ds (k+2) = a (k+2) := by
    rw [withDigits_above k ds _ (k+2) (by omega), Assign.upd_other a i (by omega)]
  unfold specEntry
  show (if matchesMask m (withDigits (Assign.upd a (k+1) i) k ds) (k+1) = true ∧
          eval S zero (k+1) d (withDigits (Assign.upd a (k+1) i) k ds) ≠ zero
        then some (i :: ds, eval S zero (k+1) d (withDigits (Assign.upd a (k+1) i) k ds)) else none) = _
  rw [eval_succ_at, matchesMask, hb1, hb2]
  unfold headOK subAt
  by_cases hn : d.isNodeAt (k+1) = true
  · simp only [hn, if_true]
    by_cases hm : (m (k+1)).ok i (a (k+2)) = true
    · simp [hm]
    · simp [hm]
  · have hn' : d.isNodeAt (k+1) = false := by simpa using hn
    simp only [hn', Bool.false_eq_true, if_false]
    by_cases hm : (m (k+1)).ok i (a (k+2)) = true
    · by_cases hid : S.mode (k+1) = .ident ∧ i ≠ a (k+2)
      · simp [hm, hid]
      · simp only [hid, if_false, hm, Bool.true_and, true_and, not_false_eq_true, and_true]
        split <;> simp_all
    · simp [hm]

theorem enumerateMask_leaf_zero (S : Shape) (zero : α) (m : Mask) (k up : Nat) :
    enumerateMask S zero m k up (.leaf zero) = [] := by
  cases k with
  | zero => simp [enumerateMask]
  | succ k => rw [enumerateMask_succ]; simp

theorem flatMap_nil_of {β γ : Type} (l : List β) (f : β → List γ) (h : ∀ x ∈ l, f x = []) :
    l.flatMap f = [] := by
  induction l with
  | nil => rfl
  | cons x xs ih => rw [List.flatMap_cons, h x (by simp), ih (fun y hy => h y (by simp [hy]))]; rfl

theorem tryIdx_flatMap {β : Type} (S : Shape) (m : Mask) (k up : Nat) (sk : Bool) (Fd : Nat → List β)
    (hsk : sk = true → ∀ i, i ≠ up → Fd i = []) :
    (tryIdx S m k up sk).flatMap Fd =
      (List.range (S.size (k+1))).flatMap (fun i => if (m (k+1)).ok i up = true then Fd i else []) := by
  unfold tryIdx
  cases hm : m (k+1) with
  | free =>
    simp only [MaskE.ok, if_true]
    cases sk with
    | false => simp
    | true =>
      have h1 : ∀ i, Fd i = if i = up then Fd i else [] := by
        intro i
        by_cases hi : i = up
        · rw [if_pos hi]
        · rw [if_neg hi]; exact hsk rfl i hi
      have h2 : (fun i => Fd i) = (fun i => if i = up then Fd i else []) := funext h1
      simp only [if_true]
      rw [show (List.range (S.size (k+1))).flatMap Fd
            = (List.range (S.size (k+1))).flatMap (fun i => if i = up then Fd i else []) from by
              rw [← h2], flatMap_range_single]
      split <;> simp
  | fixed v =>
    simp only [MaskE.ok, beq_iff_eq]
    rw [flatMap_range_single]
    split <;> simp
  | same =>
    simp only [MaskE.ok, beq_iff_eq]
    rw [flatMap_range_single]
    split <;> simp

/-- **Specification of the masked iterator.** -/
theorem enumerateMask_spec_aux (S : Shape) (zero : α) (m : Mask) :
    ∀ (k up : Nat) (d : DD α) (a : Assign), a (k+1) = up →
      enumerateMask S zero m k up d = (lexAll S k).filterMap (specEntry S zero m k d a) := by
  intro k
  induction k with
  | zero =>
    intro up d a _
    cases d with
    | leaf v =>
      by_cases hv : v = zero
      · simp [enumerateMask, lexAll, specEntry, eval, matchesMask, hv]
      · simp [enumerateMask, lexAll, specEntry, eval, matchesMask, hv]
    | node p cs => simp [enumerateMask, lexAll, specEntry, eval, matchesMask]
  | succ k ih =>
    intro up d a hup
    rw [lexAll_succ, filterMap_flatMap']
    -- right-hand side, block `i`
    have hR : ∀ i, ((lexAll S k).map (fun ds => i :: ds)).filterMap (specEntry S zero m (k+1) d a)
        = if headOK S m k (a (k+2)) d i then
            (enumerateMask S zero m k i (subAt zero k d i)).map (fun e => (i :: e.1, e.2))
          else [] := by
      intro i
      rw [List.filterMap_map]
      by_cases hq : headOK S m k (a (k+2)) d i
      · rw [if_pos hq, ih i (subAt zero k d i) (Assign.upd a (k+1) i) (Assign.upd_same a (k+1) i),
          List.map_filterMap]
        apply filterMap_congr'
        intro ds _
        show specEntry S zero m (k+1) d a (i :: ds) = _
        rw [specEntry_cons, if_pos hq]
      · rw [if_neg hq]
        apply filterMap_none'
        intro ds _
        show specEntry S zero m (k+1) d a (i :: ds) = none
        rw [specEntry_cons, if_neg hq]
    rw [flatMap_congr' _ _ _ (fun i _ => hR i)]
    have hup' : a (k+2) = up := hup
    rw [hup', enumerateMask_succ]
    by_cases hz : d = .leaf zero
    · rw [if_pos hz]
      subst hz
      symm
      apply flatMap_nil_of
      intro i _
      have : subAt zero k (.leaf zero : DD α) i = .leaf zero := by simp [subAt, isNodeAt]
      rw [this, enumerateMask_leaf_zero]
      split <;> rfl
    · rw [if_neg hz, tryIdx_flatMap]
      · apply flatMap_congr'
        intro i _
        unfold headOK subAt
        by_cases hn : d.isNodeAt (k+1) = true
        · by_cases hm : (m (k+1)).ok i up = true <;> simp [hn, hm]
        · have hn' : d.isNodeAt (k+1) = false := by simpa using hn
          by_cases hm : (m (k+1)).ok i up = true
          · by_cases hb : S.mode (k+1) = .ident ∧ i ≠ up
            · simp [hn', hm, hb]
            · simp only [hn', hm, hb, if_true, if_false, Bool.false_eq_true, true_and, and_true,
                not_false_eq_true]
          · simp [hn', hm]
      · intro hsk i hi
        simp only [Bool.and_eq_true, Bool.not_eq_true', decide_eq_true_eq] at hsk
        simp [hsk.1, hsk.2, hi]

theorem enumerate_succ (S : Shape) (zero : α) (k up : Nat) (d : DD α) :
    enumerate S zero (k+1) up d =
    if d = .leaf zero then [] else
    if d.isNodeAt (k+1) = true then
      (List.range (S.size (k+1))).flatMap (fun i =>
        (enumerate S zero k i (enumChildAt zero d i)).map (fun e => (i :: e.1, e.2)))
    else if S.mode (k+1) = .ident then
      if up < S.size (k+1) then (enumerate S zero k up d).map (fun e => (up :: e.1, e.2)) else []
    else
      (List.range (S.size (k+1))).flatMap (fun i =>
        (enumerate S zero k i d).map (fun e => (i :: e.1, e.2))) := by
  rw [enumerate]

/-- with every position free the masked iterator is the plain iterator -/
theorem enumerateMask_allFree (S : Shape) (zero : α) :
    ∀ (k up : Nat) (d : DD α), enumerateMask S zero Mask.allFree k up d = enumerate S zero k up d := by
  intro k
  induction k with
  | zero => intro up d; cases d <;> simp [enumerateMask, enumerate]
  | succ k ih =>
    intro up d
    rw [enumerateMask_succ, enumerate_succ]
    by_cases hz : d = .leaf zero
    · rw [if_pos hz, if_pos hz]
    · rw [if_neg hz, if_neg hz]
      by_cases hn : d.isNodeAt (k+1) = true
      · simp only [hn, tryIdx, Mask.allFree, if_true, Bool.not_true, Bool.false_and, Bool.false_eq_true, if_false]
        apply flatMap_congr'
        intro i _
        rw [ih]
      · have hn' : d.isNodeAt (k+1) = false := by simpa using hn
        by_cases hid : S.mode (k+1) = .ident
        · simp only [hn', tryIdx, Mask.allFree, hid, Bool.not_false, decide_true, Bool.and_self, if_true,
            Bool.false_eq_true, if_false]
          by_cases hu : up < S.size (k+1)
          · simp [hu, ih]
          · simp [hu]
        · simp only [hn', tryIdx, Mask.allFree, hid, Bool.not_false, decide_false, Bool.and_false,
            Bool.false_eq_true, if_false, false_and]
          apply flatMap_congr'
          intro i _
          rw [ih]

/-- the unmasked specification entry -/
def specEntry0 (S : Shape) (zero : α) (k : Nat) (d : DD α) (a : Assign) (ds : List Nat) :
    Option (List Nat × α) :=
  if eval S zero k d (withDigits a k ds) ≠ zero then some (ds, eval S zero k d (withDigits a k ds)) else none

theorem specEntry_allFree (S : Shape) (zero : α) (k : Nat) (d : DD α) (a : Assign) :
    specEntry S zero Mask.allFree k d a = specEntry0 S zero k d a := by
  funext ds
  simp [specEntry, specEntry0, matchesMask_allFree]

theorem card_succ (S : Shape) (zero : α) (k : Nat) (d : DD α) :
    card S zero (k+1) d =
    if d = .leaf zero then 0 else
    if d.isNodeAt (k+1) = true then
      ((List.range (S.size (k+1))).map (fun i => card S zero k (enumChildAt zero d i))).sum
    else if S.mode (k+1) = .ident then card S zero k d
    else S.size (k+1) * card S zero k d := by
  rw [card]

theorem card_eq_length_aux (S : Shape) (zero : α)
    (hS : ∀ p, S.mode p = .ident → S.size (p+1) ≤ S.size p) :
    ∀ (k up : Nat) (d : DD α), (S.mode k = .ident → up < S.size k) →
      card S zero k d = (enumerate S zero k up d).length := by
  intro k
  induction k with
  | zero =>
    intro up d _
    cases d with
    | leaf v => by_cases hv : v = zero <;> simp [card, enumerate, hv]
    | node p cs => simp [card, enumerate]
  | succ k ih =>
    intro up d hup
    rw [card_succ, enumerate_succ]
    by_cases hz : d = .leaf zero
    · simp [hz]
    · rw [if_neg hz, if_neg hz]
      have hlow : ∀ i, i < S.size (k+1) → S.mode k = .ident → i < S.size k := by
        intro i hi hm
        have := hS k hm
        omega
      by_cases hn : d.isNodeAt (k+1) = true
      · rw [if_pos hn, if_pos hn, List.length_flatMap]
        congr 1
        apply List.map_congr_left
        intro i hi
        rw [List.length_map]
        exact ih i _ (hlow i (List.mem_range.mp hi))
      · rw [if_neg hn, if_neg hn]
        by_cases hid : S.mode (k+1) = .ident
        · rw [if_pos hid, if_pos hid, if_pos (hup hid), List.length_map]
          exact ih up d (hlow up (hup hid))
        · rw [if_neg hid, if_neg hid, List.length_flatMap]
          have : (List.range (S.size (k+1))).map (fun i =>
              ((enumerate S zero k i d).map (fun e => (i :: e.1, e.2))).length)
              = (List.range (S.size (k+1))).map (fun _ => card S zero k d) := by
            apply List.map_congr_left
            intro i hi
            rw [List.length_map]
            exact (ih i d (hlow i (List.mem_range.mp hi))).symm
          rw [this, sum_map_const', List.length_range]

end DD

/-! ## Order facts about `lexAll` -/

theorem lexAll_pairwise (S : Shape) : ∀ k, (lexAll S k).Pairwise (fun x y => lexLt x y = true) := by
  intro k
  induction k with
  | zero => simp [lexAll]
  | succ k ih =>
    show ((List.range (S.size (k+1))).flatMap (fun i => (lexAll S k).map (fun ds => i :: ds))).Pairwise _
    rw [List.pairwise_flatMap]
    refine ⟨?_, ?_⟩
    · intro i _
      rw [List.pairwise_map]
      refine ih.imp ?_
      intro x y hxy
      simp [lexLt, hxy]
    · refine (List.pairwise_lt_range).imp ?_
      intro i j hij x hx y hy
      obtain ⟨x', _, rfl⟩ := List.mem_map.mp hx
      obtain ⟨y', _, rfl⟩ := List.mem_map.mp hy
      simp [lexLt, hij]

theorem lexLt_irrefl : ∀ x : List Nat, lexLt x x = false := by
  intro x
  induction x with
  | nil => rfl
  | cons a as ih => simp [lexLt, ih]

theorem lexAll_nodup (S : Shape) (k : Nat) : (lexAll S k).Nodup := by
  refine (lexAll_pairwise S k).imp ?_
  intro x y hxy hEq
  subst hEq
  rw [lexLt_irrefl] at hxy
  exact Bool.noConfusion hxy

/-! ## Node and edge counts of a dumped edge (`node_marker`) -/

/-- remove duplicates, keeping the last occurrence -/
def dedupNat : List Nat → List Nat
  | [] => []
  | x :: xs => if x ∈ dedupNat xs then dedupNat xs else x :: dedupNat xs

theorem mem_dedupNat (x : Nat) : ∀ l : List Nat, x ∈ dedupNat l ↔ x ∈ l := by
  intro l
  induction l with
  | nil => simp [dedupNat]
  | cons y ys ih =>
    unfold dedupNat
    by_cases hy : y ∈ dedupNat ys
    · rw [if_pos hy, ih]
      constructor
      · intro h; exact List.mem_cons_of_mem _ h
      · intro h
        rcases List.mem_cons.mp h with rfl | h
        · exact ih.mp hy
        · exact h
    · rw [if_neg hy, List.mem_cons, List.mem_cons, ih]

theorem nodup_dedupNat : ∀ l : List Nat, (dedupNat l).Nodup := by
  intro l
  induction l with
  | nil => simp [dedupNat]
  | cons y ys ih =>
    unfold dedupNat
    by_cases hy : y ∈ dedupNat ys
    · rw [if_pos hy]; exact ih
    · rw [if_neg hy]; exact List.nodup_cons.mpr ⟨hy, ih⟩

namespace Dump
variable {α : Type}

/-- handles met on all paths from `c` (with repetitions); `fuel` ≥ position of `c` suffices -/
def reachList (D : Dump α) : Nat → Child α → List Nat
  | _, .tm _ => []
  | 0, .nd _ => []
  | f+1, .nd h =>
    match D.find h with
    | none => []
    | some n => h :: n.down.flatMap (reachList D f)

/-- `getNodeCount`: number of distinct nodes below the edge -/
def nodeCount (D : Dump α) (fuel : Nat) (c : Child α) : Nat := (dedupNat (D.reachList fuel c)).length

/-- edges of one node: the full child vector (`countZeroes`), or its non-transparent entries -/
def nodeEdges [DecidableEq α] (zero : α) (countZeroes : Bool) (n : DNode α) : Nat :=
  if countZeroes then n.down.length else (n.down.filter (fun c => c != .tm zero)).length

/-- `getEdgeCount(countZeroes)` -/
def edgeCount [DecidableEq α] (D : Dump α) (zero : α) (fuel : Nat) (c : Child α) (countZeroes : Bool) : Nat :=
  ((dedupNat (D.reachList fuel c)).map (fun h =>
    match D.find h with
    | some n => nodeEdges zero countZeroes n
    | none => 0)).sum

/-- declarative reachability: `h` is the root node of `c` or a stored descendant of it -/
inductive Reach (D : Dump α) (c : Child α) : Nat → Prop
  | root {h : Nat} {n : DNode α} : c = .nd h → D.find h = some n → Reach D c h
  | step {h h' : Nat} {n n' : DNode α} : Reach D c h → D.find h = some n → Child.nd h' ∈ n.down →
      D.find h' = some n' → Reach D c h'

theorem reachList_succ_nd (D : Dump α) (f h : Nat) {n : DNode α} (e : D.find h = some n) :
    D.reachList (f+1) (.nd h) = h :: n.down.flatMap (D.reachList f) := by
  simp only [reachList, e]

theorem Reach.lift {D : Dump α} {h0 : Nat} {n0 : DNode α} (e0 : D.find h0 = some n0)
    {c' : Child α} (hc : c' ∈ n0.down) {h : Nat} (r : Reach D c' h) : Reach D (.nd h0) h := by
  induction r with
  | root hc' hf => subst hc'; exact Reach.step (Reach.root rfl e0) e0 hc hf
  | step _ hf hm hf' ih => exact Reach.step ih hf hm hf'

theorem reachList_sound (D : Dump α) : ∀ (f : Nat) (c : Child α) (h : Nat),
    h ∈ D.reachList f c → Reach D c h := by
  intro f
  induction f with
  | zero => intro c h hm; cases c <;> simp [reachList] at hm
  | succ f ih =>
    intro c h hm
    cases c with
    | tm v => simp [reachList] at hm
    | nd h0 =>
      cases e0 : D.find h0 with
      | none => simp [reachList, e0] at hm
      | some n0 =>
        rw [reachList_succ_nd D f h0 e0] at hm
        rcases List.mem_cons.mp hm with rfl | hm
        · exact Reach.root rfl e0
        · obtain ⟨c', hc', hh⟩ := List.mem_flatMap.mp hm
          exact Reach.lift e0 hc' (ih c' h hh)

variable [DecidableEq α]

/-- a child of a listed node is listed -/
theorem reachList_child {D : Dump α} (hs : D.storeOK = true) : ∀ (f : Nat) (c : Child α),
    D.childOK f c = true → ∀ {h h' : Nat} {n n' : DNode α}, h ∈ D.reachList f c → D.find h = some n →
    Child.nd h' ∈ n.down → D.find h' = some n' → h' ∈ D.reachList f c := by
  intro f
  induction f with
  | zero => intro c _ h h' n n' hm; cases c <;> simp [reachList] at hm
  | succ f ih =>
    intro c hc h h' n n' hm hf hd hf'
    cases c with
    | tm v => simp [reachList] at hm
    | nd h0 =>
      obtain ⟨n0, e0, hp0⟩ := childOK_nd hc
      obtain ⟨hp1, hkids⟩ := storeOK_find hs e0
      rw [reachList_succ_nd D f h0 e0] at hm ⊢
      apply List.mem_cons_of_mem
      rcases List.mem_cons.mp hm with rfl | hm
      · -- `h` is the root: `h'` is one of its children
        rw [e0] at hf
        cases hf
        have hk := hkids _ hd
        obtain ⟨m', hm', hpm'⟩ := childOK_nd hk
        rw [hf'] at hm'
        cases hm'
        obtain ⟨hp1', _⟩ := storeOK_find hs hf'
        refine List.mem_flatMap.mpr ⟨.nd h', hd, ?_⟩
        cases f with
        | zero => omega
        | succ g => rw [reachList_succ_nd D g h' hf']; exact List.mem_cons_self
      · obtain ⟨c', hc', hh⟩ := List.mem_flatMap.mp hm
        have hk : D.childOK f c' = true := childOK_mono (hkids c' hc') (by omega)
        exact List.mem_flatMap.mpr ⟨c', hc', ih c' hk hh hf hd hf'⟩

theorem reachList_complete {D : Dump α} (hs : D.storeOK = true) (f : Nat) (c : Child α)
    (hc : D.childOK f c = true) {h : Nat} (r : Reach D c h) : h ∈ D.reachList f c := by
  induction r with
  | root hc' hf =>
    subst hc'
    obtain ⟨n0, e0, hp0⟩ := childOK_nd hc
    obtain ⟨hp1, _⟩ := storeOK_find hs e0
    cases f with
    | zero => omega
    | succ g => rw [reachList_succ_nd D g _ e0]; exact List.mem_cons_self
  | step _ hf hm hf' ih => exact reachList_child hs f c hc ih hf hm hf'

end Dump

/-! ## Property theorems -/

namespace DD
variable {α : Type} [DecidableEq α]

/-- The iterator of `dd_edge` (no mask) visits, in lexicographic order of the assignments
    (top position most significant), exactly the assignments at which the function differs
    from the forest's transparent value, each once, and reports the function's value there. -/
theorem enumerate_spec (S : Shape) (zero : α) (k up : Nat) (d : DD α) (a : Assign) (h : a (k+1) = up) :
    enumerate S zero k up d = (lexAll S k).filterMap (fun ds =>
      if eval S zero k d (withDigits a k ds) ≠ zero
      then some (ds, eval S zero k d (withDigits a k ds)) else none) := by
  rw [← enumerateMask_allFree, enumerateMask_spec_aux S zero Mask.allFree k up d a h, specEntry_allFree]
  rfl

example :
    let S : Shape := { top := 2, size := fun _ => 2, mode := fun p => if p = 1 then .ident else .red }
    -- identity-reduced relation over one binary variable; the constant-true edge skips both positions
    enumerate S false 2 0 (.leaf true) = [([0, 0], true), ([1, 1], true)] := by decide

example :
    let S : Shape := { top := 2, size := fun p => if p = 2 then 3 else 2, mode := fun _ => .red }
    enumerate S 0 2 0 (.node 2 [.leaf 0, .node 1 [.leaf 0, .leaf 7], .leaf 5])
      = [([1, 1], 7), ([2, 0], 5), ([2, 1], 5)] := by decide

/-- With a mask (fixed values, free positions, DONT_CHANGE) the iterator visits exactly the
    assignments that match the mask and have a non-transparent value, nothing else, in order. -/
theorem enumerateMask_spec (S : Shape) (zero : α) (m : Mask) (k up : Nat) (d : DD α) (a : Assign)
    (h : a (k+1) = up) :
    enumerateMask S zero m k up d = (lexAll S k).filterMap (fun ds =>
      if matchesMask m (withDigits a k ds) k = true ∧ eval S zero k d (withDigits a k ds) ≠ zero
      then some (ds, eval S zero k d (withDigits a k ds)) else none) :=
  enumerateMask_spec_aux S zero m k up d a h

example :
    let S : Shape := { top := 2, size := fun _ => 2, mode := fun _ => .red }
    -- fully-reduced relation, everything true, mask (free, DONT_CHANGE): the diagonal
    enumerateMask S false (fun p => if p = 1 then .same else .free) 2 0 (.leaf true)
      = [([0, 0], true), ([1, 1], true)] := by decide

/-- Completeness and correctness of the values: a pair is visited iff it is a valid assignment
    with a non-transparent value, paired with that value. -/
theorem enumerate_mem_iff (S : Shape) (zero : α) (k up : Nat) (d : DD α) (a : Assign) (h : a (k+1) = up)
    (ds : List Nat) (v : α) :
    (ds, v) ∈ enumerate S zero k up d ↔
      ds ∈ lexAll S k ∧ eval S zero k d (withDigits a k ds) = v ∧ v ≠ zero := by
  rw [enumerate_spec S zero k up d a h, List.mem_filterMap]
  constructor
  · rintro ⟨x, hx, hy⟩
    split at hy
    · cases hy
      exact ⟨hx, rfl, by assumption⟩
    · cases hy
  · rintro ⟨h1, h2, h3⟩
    refine ⟨ds, h1, ?_⟩
    rw [if_pos (by rw [h2]; exact h3), h2]

/-- The visited assignments are strictly increasing in lexicographic order (hence no assignment
    is visited twice). -/
theorem enumerate_sorted (S : Shape) (zero : α) (m : Mask) (k up : Nat) (d : DD α) :
    (enumerateMask S zero m k up d).Pairwise (fun e1 e2 => lexLt e1.1 e2.1 = true) := by
  rw [enumerateMask_spec S zero m k up d (fun _ => up) rfl]
  refine List.Pairwise.filterMap _ ?_ (lexAll_pairwise S k)
  intro x y hxy b hb b' hb'
  split at hb
  · split at hb'
    · cases hb; cases hb'; exact hxy
    · cases hb'
  · cases hb

/-- CARDINALITY returns the number of assignments the iterator visits, for every reduction rule
    (primed positions of identity-reduced forests are not scaled); the hypotheses say that a
    primed variable is at least as large as its unprimed partner, which holds in every forest. -/
theorem card_eq_length (S : Shape) (zero : α)
    (hS : ∀ p, S.mode p = .ident → S.size (p+1) ≤ S.size p)
    (k up : Nat) (d : DD α) (hup : S.mode k = .ident → up < S.size k) :
    card S zero k d = (enumerate S zero k up d).length :=
  card_eq_length_aux S zero hS k up d hup

example :
    let S : Shape := { top := 4, size := fun p => if p ≤ 2 then 3 else 2, mode := fun p => if p % 2 = 1 then .ident else .red }
    -- identity-reduced, two variables (sizes 3 and 2): x2 = 1, x2' free, x1' = x1 skipped
    card S false 4 (.node 4 [.leaf false, .node 3 [.leaf true, .leaf true]]) = 6
    ∧ (enumerate S false 4 0 (.node 4 [.leaf false, .node 3 [.leaf true, .leaf true]])).length = 6 := by decide

end DD

namespace Dump
variable {α : Type} [DecidableEq α]

/-- `getNodeCount` equals the number of distinct stored nodes reachable from the edge: the counted
    list has no duplicates and contains exactly the reachable handles. -/
theorem nodeCount_spec (D : Dump α) (hs : D.storeOK = true) (f : Nat) (c : Child α)
    (hc : D.childOK f c = true) :
    ∃ L : List Nat, L.Nodup ∧ (∀ h, h ∈ L ↔ Reach D c h) ∧ D.nodeCount f c = L.length := by
  refine ⟨dedupNat (D.reachList f c), nodup_dedupNat _, ?_, rfl⟩
  intro h
  rw [mem_dedupNat]
  exact ⟨reachList_sound D f c h, reachList_complete hs f c hc⟩

/-- `getEdgeCount(countZeroes)` is the sum, over exactly the distinct reachable nodes, of the
    node's full child-vector length (`true`) or of its non-transparent entries (`false`). -/
theorem edgeCount_spec (D : Dump α) (zero : α) (hs : D.storeOK = true) (f : Nat) (c : Child α)
    (hc : D.childOK f c = true) (cz : Bool) :
    ∃ L : List Nat, L.Nodup ∧ (∀ h, h ∈ L ↔ Reach D c h) ∧
      D.edgeCount zero f c cz = (L.map (fun h =>
        match D.find h with
        | some n => if cz then n.down.length else (n.down.filter (fun c => c != .tm zero)).length
        | none => 0)).sum := by
  refine ⟨dedupNat (D.reachList f c), nodup_dedupNat _, ?_, rfl⟩
  intro h
  rw [mem_dedupNat]
  exact ⟨reachList_sound D f c h, reachList_complete hs f c hc⟩

example :
    -- node 1 is shared by nodes 2 and 3: counted once
    let D : Dump Nat := [⟨1, 1, [.tm 0, .tm 1]⟩, ⟨2, 2, [.nd 1, .tm 0]⟩, ⟨3, 2, [.tm 0, .nd 1]⟩, ⟨4, 3, [.nd 2, .nd 3]⟩]
    D.nodeCount 3 (.nd 4) = 4 ∧ D.edgeCount 0 3 (.nd 4) true = 8 ∧ D.edgeCount 0 3 (.nd 4) false = 5 := by decide

end Dump

end Meddly

/-
  #print axioms (lake env lean, Lean 4.33.0):
  'Meddly.DD.enumerate_spec' depends on axioms: [propext, Classical.choice, Quot.sound]
  'Meddly.DD.enumerateMask_spec' depends on axioms: [propext, Classical.choice, Quot.sound]
  'Meddly.DD.enumerate_mem_iff' depends on axioms: [propext, Classical.choice, Quot.sound]
  'Meddly.DD.enumerate_sorted' depends on axioms: [propext, Classical.choice, Quot.sound]
  'Meddly.DD.card_eq_length' depends on axioms: [propext, Quot.sound]
  'Meddly.Dump.nodeCount_spec' depends on axioms: [propext, Quot.sound]
  'Meddly.Dump.edgeCount_spec' depends on axioms: [propext, Quot.sound]
-/
