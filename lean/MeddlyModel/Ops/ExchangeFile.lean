/-
  C14 — the exchange file (`src/io_mdds.cc`: `mdd_writer`, `mdd_reader`;
  `unpacked_node::write/read`, `dd_edge::write/read`).

  Layers
  * `File α`  — what a file *says*: one record per written node (position and the FULL child
    vector, children being terminals or 1-based indexes of earlier records) and the root list.
  * `writeF`  — `mdd_writer::finish`: mark what the roots reach (`node_marker`), number the marked
    nodes bottom-up by position (`getNodesAtLevel(-k)`, `(k)` for k = 1..K; within a position the
    order of the store), emit each node with its children renumbered, then the roots.
  * `encode / decode` — the token level: header keyword and record count, per record the position
    and the *signed size* (negative: sparse = index list followed by the children; non-negative:
    truncated full = the child vector without its trailing transparent entries), trailer keyword,
    `ptrs n`, the roots, `srtp`.  Which of the two forms a record takes is the storage policy of
    the writing forest: an arbitrary function `sp` of the record.
  * `readF`   — `mdd_reader::readAfterForest`: records are rebuilt one by one through
    `insertNode` = `forest::createReducedNode(nb, ev, map[i])` called WITHOUT an incoming index
    (`in = -1`): transparent node → transparent terminal; redundant node eliminated at `red`
    positions (fully reduced; unprimed levels of identity reduced); NO identity-pattern
    elimination; otherwise unique-table lookup, else a new node.  The file index → child map is
    the reader's `map` vector.
  The file does not record the reduction rule: the graph in the file is interpreted under the
  READER's shape (`read_write_tree`, `read_write_eval_cross`).

  * `readFRC` — the same reader carrying the reference counts (link per resolved child,
    `unlinkAllDown` on duplicate / redundant elimination, link per root, release of `map`).
  Theorems: `Ops/ExchangeFileProofs.lean` (property theorems at its end).

  Not modelled: edge values (EV+/EV*) and the index-set cardinality header (covered by the
  correspondence run only), counter widths of the reference counts (integers here), decimal
  printing of reals, malformed files (`read = none` covers some; error codes are C16's subject).
-/
import MeddlyModel.Core.DD
import MeddlyModel.Core.Canon
import MeddlyModel.Core.Dump
import MeddlyModel.Ops.Apply
import MeddlyModel.Ops.ApplyProofs

namespace Meddly
namespace XFile

variable {α : Type}

/-! ## The file -/

/-- a child as written in a file: a terminal or the 1-based index of an earlier record -/
inductive FChild (α : Type) where
  | ref (i : Nat)
  | term (v : α)
  deriving DecidableEq, Repr, Inhabited

structure FRec (α : Type) where
  pos  : Nat
  down : List (FChild α)        -- full child vector
  deriving DecidableEq, Repr, Inhabited

structure File (α : Type) where
  recs  : List (FRec α)
  roots : List (FChild α)
  deriving DecidableEq, Repr, Inhabited

/-! ## Writer -/

/-- handles of the non-terminal children -/
def handlesOf : List (Child α) → List Nat
  | [] => []
  | .nd h :: cs => h :: handlesOf cs
  | .tm _ :: cs => handlesOf cs

/-- handles of the children of the stored nodes whose handle is in `M` -/
def kidsOf (D : Dump α) (M : List Nat) : List Nat :=
  (D.filter (fun n => M.contains n.handle)).flatMap (fun n => handlesOf n.down)

/-- `node_marker::mark`: `i` rounds of "add the children of everything marked" -/
def markIter (D : Dump α) : Nat → List Nat → List Nat
  | 0, M => M
  | i+1, M => markIter D i (M ++ kidsOf D M)

def mark (D : Dump α) (top : Nat) (roots : List (Child α)) : List Nat :=
  markIter D top (handlesOf roots)

/-- marked nodes at positions `1..p`, bottom-up; within a position in store order -/
def orderUpTo (D : Dump α) (M : List Nat) : Nat → List (DNode α)
  | 0 => []
  | p+1 => orderUpTo D M p ++ D.filter (fun n => n.pos == p+1 && M.contains n.handle)

def order (D : Dump α) (top : Nat) (roots : List (Child α)) : List (DNode α) :=
  orderUpTo D (mark D top roots) top

/-- position of `h` in `l` (`l.length` if absent) -/
def indexIn : List Nat → Nat → Nat
  | [], _ => 0
  | x :: xs, h => if x = h then 0 else indexIn xs h + 1

def encChild (ord : List Nat) : Child α → FChild α
  | .tm v => .term v
  | .nd h => .ref (indexIn ord h + 1)

def encRec (ord : List Nat) (n : DNode α) : FRec α :=
  { pos := n.pos, down := n.down.map (encChild ord) }

/-- `mdd_writer::finish` -/
def writeF (D : Dump α) (top : Nat) (roots : List (Child α)) : File α :=
  let ordN := order D top roots
  let ord := ordN.map (·.handle)
  { recs := ordN.map (encRec ord), roots := roots.map (encChild ord) }

/-! ## Reader -/

variable [DecidableEq α]

def fresh (D : Dump α) : Nat := D.foldl (fun m n => max m n.handle) 0 + 1

/-- `forest::createReducedNode(nb, ev, node)` as the reader calls it (no incoming index) -/
def insertNode (S : Shape) (zero : α) (D : Dump α) (pos : Nat) (down : List (Child α)) :
    Dump α × Child α :=
  if down.all (fun c => c == .tm zero) then (D, .tm zero)
  else if S.mode pos = .red ∧ down.all (fun c => c == down.headD (.tm zero)) = true then
    (D, down.headD (.tm zero))
  else match D.find? (fun n => n.pos == pos && n.down == down) with
    | some n => (D, .nd n.handle)
    | none => (⟨fresh D, pos, down⟩ :: D, .nd (fresh D))

/-- the reader's `map[i]` -/
def resolve (map : List (Child α)) : FChild α → Option (Child α)
  | .term v => some (.tm v)
  | .ref i => if i = 0 then none else map[i-1]?

def resolveAll (map : List (Child α)) : List (FChild α) → Option (List (Child α))
  | [] => some []
  | c :: cs =>
    match resolve map c, resolveAll map cs with
    | some c', some cs' => some (c' :: cs')
    | _, _ => none

def readRecs (S : Shape) (zero : α) :
    List (FRec α) → Dump α → List (Child α) → Option (Dump α × List (Child α))
  | [], D, map => some (D, map)
  | r :: rs, D, map =>
    if r.pos = 0 ∨ S.top < r.pos then none      -- `isValidLevel`
    else match resolveAll map r.down with
      | none => none
      | some down =>
        readRecs S zero rs (insertNode S zero D r.pos down).1
          (map ++ [(insertNode S zero D r.pos down).2])

/-- `mdd_reader::readAfterForest` -/
def readF (S : Shape) (zero : α) (D0 : Dump α) (f : File α) : Option (Dump α × List (Child α)) :=
  match readRecs S zero f.recs D0 [] with
  | none => none
  | some (D, map) =>
    match resolveAll map f.roots with
    | none => none
    | some rs => some (D, rs)

/-! ## Reference counts kept by the reader

  `unpacked_node::read` links every non-terminal child it resolves through `map`
  (`modparent->linkNode(map[d])`); `createReducedNode` then either keeps those links in the new
  node (whose own count starts at 1, held by `map[i]`), or finds a duplicate (`unlinkAllDown`, then
  `linkNode(found)`), or eliminates a redundant node (`unlinkAllDown(*un, 1)`: the link of child 0
  becomes the link held by `map[i]`); `dd_edge::read` links each non-terminal root; at the end
  `unlinkNode(map[i])` for every record.  Counts are integers here (no saturation): the theorem
  `read_counts_exact` shows they end up equal to the recount. -/

/-- incoming count of every handle -/
abbrev RC := Nat → Int

def link (rc : RC) : Child α → RC
  | .nd h => fun x => if x = h then rc x + 1 else rc x
  | .tm _ => rc

def unlink (rc : RC) : Child α → RC
  | .nd h => fun x => if x = h then rc x - 1 else rc x
  | .tm _ => rc

def linkAll (rc : RC) (cs : List (Child α)) : RC := cs.foldl link rc
def unlinkAll (rc : RC) (cs : List (Child α)) : RC := cs.foldl unlink rc

/-- the count side of `insertNode`; `rc` already holds one link per entry of `down` -/
def insertNodeRC (S : Shape) (zero : α) (D : Dump α) (pos : Nat) (down : List (Child α)) (rc : RC) : RC :=
  if down.all (fun c => c == .tm zero) then rc
  else if S.mode pos = .red ∧ down.all (fun c => c == down.headD (.tm zero)) = true then
    unlinkAll rc down.tail
  else match D.find? (fun n => n.pos == pos && n.down == down) with
    | some n => link (unlinkAll rc down) (Child.nd n.handle : Child α)
    | none => link rc (Child.nd (fresh D) : Child α)

def readRecsRC (S : Shape) (zero : α) :
    List (FRec α) → Dump α → List (Child α) → RC → Option (Dump α × List (Child α) × RC)
  | [], D, map, rc => some (D, map, rc)
  | r :: rs, D, map, rc =>
    if r.pos = 0 ∨ S.top < r.pos then none
    else match resolveAll map r.down with
      | none => none
      | some down =>
        readRecsRC S zero rs (insertNode S zero D r.pos down).1
          (map ++ [(insertNode S zero D r.pos down).2])
          (insertNodeRC S zero D r.pos down (linkAll rc down))

/-- `readF` with the reference counts: roots linked, then the map released -/
def readFRC (S : Shape) (zero : α) (D0 : Dump α) (rc0 : RC) (f : File α) :
    Option (Dump α × List (Child α) × RC) :=
  match readRecsRC S zero f.recs D0 [] rc0 with
  | none => none
  | some (D, map, rc) =>
    match resolveAll map f.roots with
    | none => none
    | some rs => some (D, rs, unlinkAll (linkAll rc rs) map)

/-! ## Tokens -/

inductive Tok (α : Type) where
  | kw (s : String)
  | int (z : Int)
  | ref (i : Nat)
  | term (v : α)
  deriving DecidableEq, Repr, Inhabited

def encFChild : FChild α → Tok α
  | .ref i => .ref i
  | .term v => .term v

/-- drop the trailing transparent entries (truncated-full storage) -/
def dropTZ (zero : α) : List (FChild α) → List (FChild α)
  | [] => []
  | c :: cs =>
    match dropTZ zero cs with
    | [] => if c = .term zero then [] else [c]
    | r => c :: r

/-- (index, child) for the non-transparent entries, indexes counted from `i` -/
def sparsify (zero : α) : Nat → List (FChild α) → List (Nat × FChild α)
  | _, [] => []
  | i, c :: cs => if c = .term zero then sparsify zero (i+1) cs else (i, c) :: sparsify zero (i+1) cs

/-- one node record: `pos size children…` or `pos -nnz indexes… children…` -/
def encodeRec (zero : α) (sp : FRec α → Bool) (r : FRec α) : List (Tok α) :=
  if sp r then
    let ps := sparsify zero 0 r.down
    [.int r.pos, .int (-(ps.length : Int))] ++ ps.map (fun p => Tok.int p.1) ++ ps.map (fun p => encFChild p.2)
  else
    let cs := dropTZ zero r.down
    [.int r.pos, .int cs.length] ++ cs.map encFChild

def encode (zero : α) (sp : FRec α → Bool) (f : File α) : List (Tok α) :=
  [.kw "dd", .int f.recs.length] ++ f.recs.flatMap (encodeRec zero sp) ++
  [.kw "dd/", .kw "ptrs", .int f.roots.length] ++ f.roots.map encFChild ++ [.kw "srtp"]

def takeChildren : Nat → List (Tok α) → Option (List (FChild α) × List (Tok α))
  | 0, ts => some ([], ts)
  | n+1, .ref i :: ts => (takeChildren n ts).map (fun p => (.ref i :: p.1, p.2))
  | n+1, .term v :: ts => (takeChildren n ts).map (fun p => (.term v :: p.1, p.2))
  | _+1, _ => none

def takeNats : Nat → List (Tok α) → Option (List Nat × List (Tok α))
  | 0, ts => some ([], ts)
  | n+1, .int z :: ts => if z < 0 then none else (takeNats n ts).map (fun p => (z.toNat :: p.1, p.2))
  | _+1, _ => none

def lookupIdx (i : Nat) : List (Nat × FChild α) → Option (FChild α)
  | [] => none
  | (j, c) :: ps => if j = i then some c else lookupIdx i ps

/-- entries `i, i+1, …, i+n-1` of the sparse node `ps` -/
def expandFrom (zero : α) (ps : List (Nat × FChild α)) : Nat → Nat → List (FChild α)
  | _, 0 => []
  | i, n+1 => (lookupIdx i ps).getD (.term zero) :: expandFrom zero ps (i+1) n

/-- sparse → full: what `createReducedNode` sees of a sparse unpacked node -/
def expand (zero : α) (size : Nat) (ps : List (Nat × FChild α)) : List (FChild α) :=
  expandFrom zero ps 0 size

/-- truncated full → full -/
def pad (zero : α) (size : Nat) (cs : List (FChild α)) : List (FChild α) :=
  cs ++ List.replicate (size - cs.length) (.term zero)

def decodeRec (S : Shape) (zero : α) : List (Tok α) → Option (FRec α × List (Tok α))
  | .int p :: .int z :: ts =>
    if p < 0 then none
    else if z < 0 then
      match takeNats z.natAbs ts with
      | none => none
      | some (idx, ts1) =>
        match takeChildren z.natAbs ts1 with
        | none => none
        | some (cs, ts2) => some (⟨p.toNat, expand zero (S.size p.toNat) (idx.zip cs)⟩, ts2)
    else
      match takeChildren z.toNat ts with
      | none => none
      | some (cs, ts1) => some (⟨p.toNat, pad zero (S.size p.toNat) cs⟩, ts1)
  | _ => none

def decodeRecs (S : Shape) (zero : α) : Nat → List (Tok α) → Option (List (FRec α) × List (Tok α))
  | 0, ts => some ([], ts)
  | n+1, ts =>
    match decodeRec S zero ts with
    | none => none
    | some (r, ts1) => (decodeRecs S zero n ts1).map (fun p => (r :: p.1, p.2))

def decode (S : Shape) (zero : α) : List (Tok α) → Option (File α)
  | .kw "dd" :: .int n :: ts =>
    if n < 0 then none
    else match decodeRecs S zero n.toNat ts with
      | some (recs, .kw "dd/" :: .kw "ptrs" :: .int m :: ts1) =>
        if m < 0 then none
        else match takeChildren m.toNat ts1 with
          | some (roots, [.kw "srtp"]) => some ⟨recs, roots⟩
          | _ => none
      | _ => none
  | _ => none

/-- writer: `mdd_writer::finish` down to tokens.  `sp` = the writing forest's storage policy. -/
def write (S : Shape) (zero : α) (sp : FRec α → Bool) (D : Dump α) (roots : List (Child α)) :
    List (Tok α) :=
  encode zero sp (writeF D S.top roots)

/-- reader: tokens → (receiving store after the read, root edges in file order) -/
def read (S : Shape) (zero : α) (D0 : Dump α) (toks : List (Tok α)) :
    Option (Dump α × List (Child α)) :=
  match decode S zero toks with
  | none => none
  | some f => readF S zero D0 f

end XFile
end Meddly
