/-
  `dd_edge::evaluate` (dd_edge.cc) on decision-diagram trees (C03: "evaluation never depends on
  how the function is represented internally").

  The code has three walks (`evaluator_helper_mt`):
    * `set_eval`, `fully_rel_eval`: `while (!terminal(p)) p = down(p, m[level(p)])` — the walk
      *jumps* to the level of the node it reached, skipped levels are never looked at
      (`walkJump`);
    * `ident_rel_eval`: variables K, K-1, …, 1; at the unprimed level follow the node if it is
      there; at the primed level follow the node if it is there, otherwise the function is 0
      unless `to = from` (`walkIdent`); early exit as soon as the transparent terminal is reached.
  `DD.eval` — the denotation used by every theorem of the model — reads a tree position by
  position.  The theorems below show the walks compute exactly `DD.eval` (for the reduction rules
  they are used with), so evaluation is a function of the denotation alone.

  Edge-valued forests (EV+, EV*): the same walks accumulate edge values (`EOP::accumulateOp`);
  the tree model abstracts an EV forest as the tree of its values, so that accumulation is not
  modelled here (it is compared with the dump by the acceptor's `evalEV`).
-/
import MeddlyModel.Core.DD
import MeddlyModel.Core.Canon
import MeddlyModel.Ops.Apply
import MeddlyModel.Ops.ApplyProofs

namespace Meddly
namespace EvalWalk
open DD

set_option linter.unusedSectionVars false
set_option linter.unusedVariables false

variable {α : Type} [DecidableEq α]

/-- `set_eval` / `fully_rel_eval`: follow the node's own level (fuel: number of positions). -/
def walkJump (zero : α) : Nat → DD α → Assign → α
  | _, .leaf v, _ => v
  | 0, .node _ _, _ => zero
  | f+1, .node p cs, a => walkJump zero f (cs.getD (a p) (.leaf zero)) a

/-- `ident_rel_eval` for `K` variables (positions `2K … 1`). -/
def walkIdent (zero : α) : Nat → DD α → Assign → α
  | 0, d, _ => leafVal zero d
  | K+1, d, a =>
    if d = .leaf zero then zero                                  -- `if (0==p) return;`
    else
      let d1 := if d.isNodeAt (2*K+2) then d.children.getD (a (2*K+2)) (.leaf zero) else d
      if d1 = .leaf zero then zero                               -- `if (0==p) return;`
      else if d1.isNodeAt (2*K+1) then
        walkIdent zero K (d1.children.getD (a (2*K+1)) (.leaf zero)) a
      else if a (2*K+1) ≠ a (2*K+2) then zero                    -- `m.to(-L) != m.from(-L)`: p = 0
      else walkIdent zero K d1 a

theorem walkJump_leaf (zero v : α) (f : Nat) (a : Assign) : walkJump zero f (.leaf v) a = v := by
  cases f <;> rfl

/-- more fuel than positions changes nothing (reduced trees) -/
theorem walkJump_fuel (S : Shape) (zero : α) (a : Assign) :
    ∀ (k : Nat) (fi : Option Nat) (d : DD α), Red S zero k fi d = true →
      ∀ f, k ≤ f → walkJump zero f d a = walkJump zero k d a := by
  intro k
  induction k with
  | zero =>
    intro fi d h f _
    obtain ⟨v, rfl⟩ := (Red_zero_iff S zero fi d).mp h
    rw [walkJump_leaf, walkJump_leaf]
  | succ k ih =>
    intro fi d h f hf
    obtain ⟨f', rfl⟩ : ∃ f', f = f'+1 := ⟨f-1, by omega⟩
    rcases storedAt_cases (k+1) d with ⟨cs, rfl⟩ | hd
    · obtain ⟨_, _, _, _, hch⟩ := (Red_succ_node S zero k fi cs).mp h
      show walkJump zero f' (cs.getD (a (k+1)) (.leaf zero)) a = walkJump zero k (cs.getD (a (k+1)) (.leaf zero)) a
      by_cases hi : a (k+1) < cs.length
      · exact ih _ _ (hch _ hi) f' (by omega)
      · have : cs.getD (a (k+1)) (.leaf zero) = .leaf zero := by
          rw [List.getD_eq_getElem?_getD, List.getElem?_eq_none (by omega)]; rfl
        rw [this, walkJump_leaf, walkJump_leaf]
    · obtain ⟨_, h2⟩ := Red_succ_skip S zero k fi hd h
      rw [ih none d h2 (f'+1) (by omega), ih none d h2 (k+1) (by omega)]

/-- `set_eval` / `fully_rel_eval` compute the denotation (fully or quasi reduced forests: no
    position is read as an identity). -/
theorem walkJump_eq_eval (S : Shape) (zero : α) (hm : ∀ p, S.mode p ≠ .ident) (a : Assign) :
    ∀ (k : Nat) (fi : Option Nat) (d : DD α), Red S zero k fi d = true →
      walkJump zero k d a = eval S zero k d a := by
  intro k
  induction k with
  | zero =>
    intro fi d h
    obtain ⟨v, rfl⟩ := (Red_zero_iff S zero fi d).mp h
    rfl
  | succ k ih =>
    intro fi d h
    rcases storedAt_cases (k+1) d with ⟨cs, rfl⟩ | hd
    · obtain ⟨_, _, _, _, hch⟩ := (Red_succ_node S zero k fi cs).mp h
      rw [eval_succ_node]
      show walkJump zero k (cs.getD (a (k+1)) (.leaf zero)) a = _
      by_cases hi : a (k+1) < cs.length
      · exact ih _ _ (hch _ hi)
      · have : cs.getD (a (k+1)) (.leaf zero) = .leaf zero := by
          rw [List.getD_eq_getElem?_getD, List.getElem?_eq_none (by omega)]; rfl
        rw [this, walkJump_leaf, eval_leaf_zero]
    · obtain ⟨_, h2⟩ := Red_succ_skip S zero k fi hd h
      rw [eval_succ_skip S zero k a hd, if_neg (fun hh => hm (k+1) hh.1),
        walkJump_fuel S zero a k none d h2 (k+1) (by omega)]
      exact ih none d h2

theorem isNodeAt_children {p : Nat} {d : DD α} (h : d.isNodeAt p = true) : d = .node p d.children := by
  cases d with
  | leaf v => cases h
  | node q cs =>
    have : q = p := by simpa [isNodeAt] using h
    subst this; rfl

/-- `ident_rel_eval` computes the denotation of ANY tree of an identity-reduced relation forest
    (unprimed positions `2K+2` skipped as "don't care", primed positions `2K+1` as identity). -/
theorem walkIdent_eq_eval (S : Shape) (zero : α)
    (hu : ∀ K, S.mode (2*K+2) ≠ .ident) (hp : ∀ K, S.mode (2*K+1) = .ident) (a : Assign) :
    ∀ (K : Nat) (d : DD α), walkIdent zero K d a = eval S zero (2*K) d a := by
  intro K
  induction K with
  | zero => intro d; rw [walkIdent]; exact (eval_zero_eq_leafVal S zero d a).symm
  | succ K ih =>
    intro d
    show walkIdent zero (K+1) d a = eval S zero (2*K+1+1) d a
    rw [walkIdent]
    by_cases hz : d = .leaf zero
    · rw [if_pos hz, hz, eval_leaf_zero]
    · rw [if_neg hz]
      -- the tree below the unprimed position
      have hstep1 : eval S zero (2*K+1+1) d a = eval S zero (2*K+1)
          (if d.isNodeAt (2*K+2) then d.children.getD (a (2*K+2)) (.leaf zero) else d) a := by
        by_cases hn : d.isNodeAt (2*K+2) = true
        · rw [if_pos hn]
          have hd := isNodeAt_children hn
          rw [hd]
          exact eval_succ_node S zero (2*K+1) _ a
        · rw [if_neg hn]
          have hn' : d.isNodeAt (2*K+1+1) = false := by simpa using hn
          rw [eval_succ_skip S zero (2*K+1) a hn', if_neg (fun hh => hu K hh.1)]
      rw [hstep1]
      generalize (if d.isNodeAt (2*K+2) then d.children.getD (a (2*K+2)) (.leaf zero) else d) = d1
      show (if d1 = .leaf zero then zero
        else if d1.isNodeAt (2*K+1) then walkIdent zero K (d1.children.getD (a (2*K+1)) (.leaf zero)) a
        else if a (2*K+1) ≠ a (2*K+2) then zero else walkIdent zero K d1 a) = _
      by_cases hz1 : d1 = .leaf zero
      · rw [if_pos hz1, hz1, eval_leaf_zero]
      · rw [if_neg hz1]
        by_cases hn : d1.isNodeAt (2*K+1) = true
        · rw [if_pos hn, ih]
          have hd := isNodeAt_children hn
          conv => rhs; rw [hd]
          exact (eval_succ_node S zero (2*K) _ a).symm
        · rw [if_neg hn]
          have hn' : d1.isNodeAt (2*K+1) = false := by simpa using hn
          rw [eval_succ_skip S zero (2*K) a hn']
          by_cases he : a (2*K+1) ≠ a (2*K+2)
          · rw [if_pos he, if_pos ⟨hp K, he⟩]
          · rw [if_neg he, if_neg (fun hh => he hh.2)]
            exact ih d1

/-! ## Property theorems -/

/-- `dd_edge::evaluate` as dispatched in dd_edge.cc: `ident_rel_eval` for identity-reduced
    relation forests, the jumping walk otherwise. -/
def evaluate (S : Shape) (zero : α) (identRel : Bool) (d : DD α) (a : Assign) : α :=
  if identRel then walkIdent zero (S.top / 2) d a else walkJump zero S.top d a

/-- **Evaluation never depends on the representation**: for every stored (reduced) tree of a fully
    or quasi reduced forest, and for every tree of an identity-reduced relation forest,
    `dd_edge::evaluate` returns the denotation `DD.eval` — the function of the assignment that all
    theorems of the model speak about — and nothing else about the tree. -/
theorem evalWalk_eq_den (S : Shape) (zero : α) (identRel : Bool)
    (hshape : if identRel then S.top % 2 = 0 ∧ (∀ K, S.mode (2*K+2) ≠ .ident) ∧ (∀ K, S.mode (2*K+1) = .ident)
              else ∀ p, S.mode p ≠ .ident)
    (d : DD α) (hr : Red S zero S.top none d = true) (a : Assign) :
    evaluate S zero identRel d a = eval S zero S.top d a := by
  unfold evaluate
  cases identRel with
  | false => exact walkJump_eq_eval S zero hshape a S.top none d hr
  | true =>
    obtain ⟨h2, hu, hp⟩ := hshape
    have : 2 * (S.top / 2) = S.top := by omega
    rw [if_pos rfl, walkIdent_eq_eval S zero hu hp a (S.top / 2) d, this]

/-- two edges that denote the same function evaluate identically, whatever their nodes look like -/
theorem evaluate_congr (S : Shape) (zero : α) (identRel : Bool)
    (hshape : if identRel then S.top % 2 = 0 ∧ (∀ K, S.mode (2*K+2) ≠ .ident) ∧ (∀ K, S.mode (2*K+1) = .ident)
              else ∀ p, S.mode p ≠ .ident)
    (d1 d2 : DD α) (h1 : Red S zero S.top none d1 = true) (h2 : Red S zero S.top none d2 = true)
    (a : Assign) (h : eval S zero S.top d1 a = eval S zero S.top d2 a) :
    evaluate S zero identRel d1 a = evaluate S zero identRel d2 a := by
  rw [evalWalk_eq_den S zero identRel hshape d1 h1, evalWalk_eq_den S zero identRel hshape d2 h2, h]

/-- non-vacuity: an identity-reduced relation over one variable of size 2; the tree `x' = x ↦ 3,
    (1 → 0) ↦ 9`: the skipped primed position below index 0 is read as identity -/
def SIx : Shape := { top := 2, size := fun _ => 2, mode := fun p => if p = 1 then .ident else .red }
def tIx : DD Nat := .node 2 [.leaf 3, .node 1 [.leaf 9, .leaf 3]]
example : Red SIx 0 2 none tIx = true := by decide
example : (List.range 4).map (fun i => evaluate SIx 0 true tIx (fun p => if p = 1 then i % 2 else i / 2))
    = [3, 0, 9, 3] := by decide
example : (List.range 4).map (fun i => eval SIx 0 2 tIx (fun p => if p = 1 then i % 2 else i / 2))
    = [3, 0, 9, 3] := by decide
/-- non-vacuity: a fully reduced set forest, positions of sizes 2 and 3; the walk jumps over position 2 -/
def SFx : Shape := { top := 2, size := fun p => if p = 2 then 3 else 2, mode := fun _ => .red }
def tFx : DD Nat := .node 1 [.leaf 4, .leaf 7]
example : Red SFx 0 2 none tFx = true := by decide
example : (List.range 6).map (fun i => evaluate SFx 0 false tFx (fun p => if p = 1 then i % 2 else i / 2))
    = [4, 7, 4, 7, 4, 7] := by decide

end EvalWalk
end Meddly

/-
#print axioms (lake env lean, Lean 4.33.0):
'Meddly.EvalWalk.evalWalk_eq_den' depends on axioms: [propext, Quot.sound]
'Meddly.EvalWalk.evaluate_congr' depends on axioms: [propext, Quot.sound]
'Meddly.EvalWalk.walkIdent_eq_eval' depends on axioms: [propext, Quot.sound]
'Meddly.EvalWalk.walkJump_eq_eval' depends on axioms: [propext, Quot.sound]
-/
