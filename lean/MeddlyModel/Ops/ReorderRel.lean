/-
  C13 — variable reordering, part 2: RELATION forests (all three reduction rules) and EV+ sets.

  `Ops/Reorder.lean` proves the adjacent swap for multi-terminal SET forests without
  identity-reduced positions.  This file adds

  A. Relations (`mtmxd_forest::swapAdjacentVariablesByVarSwap` / `swapAdjacentVariablesOf`).
     A relation over K variables is a tree over the positions 2K … 1 (position 2k = unprimed
     level k, position 2k-1 = primed level -k).  Swapping the adjacent VARIABLES k and k+1
     exchanges the position PAIRS (2k+2, 2k+1) and (2k, 2k-1).  With `b = 2k-1` the four
     positions are `b+3, b+2, b+1, b`.  `relSwapDD` rebuilds the four positions with `mkNode`
     (the model of `createReducedNode`) of the TARGET shape from the four-fold cofactors
     `[i][i'][j][j'] ↦ [j][j'][i][i']`; `cofactor` is threaded with the arriving index exactly
     as in `apply2`, so that an identity-skipped primed position is expanded to the diagonal
     (what the C++ spells out as `q != p ⇒ transparent`, `n != m ⇒ transparent`) and `mkNode`
     re-eliminates identity patterns in the new places.  Fully-, quasi- and identity-reduced
     relations are all instances of the shape hypothesis `RelSwapShape`.

  B. The decomposition of `swapAdjacentVariablesByLevelSwap` (four adjacent POSITION swaps:
     middle, top, bottom, middle) at the tree level, for shapes without `ident` positions,
     using `swapAdjDD` of `Ops/Reorder.lean`.

  C. EV+ sets (`evmdd_pluslong::swapAdjacentVariables`): `swapAdjE` rebuilds the positions
     `k+1, k` with `mkNodeEV` (`normalize_evplus` + `createReducedNode`) from the pushed-down
     child edges `cofactorE` (`sum_evs[j][k] = ev1 + ev2` in the code).

  D. Schedules: any list of adjacent variable swaps preserves the function of the (renamed)
     variables and reducedness.
-/
import MeddlyModel.Core.DD
import MeddlyModel.Core.Canon
import MeddlyModel.Ops.Apply
import MeddlyModel.Ops.ApplyProofs
import MeddlyModel.Ops.Reorder
import MeddlyModel.Core.EV
import MeddlyModel.Core.EVCanon
import MeddlyModel.Core.EVNode
import MeddlyModel.Ops.EVApply

namespace Meddly

set_option linter.unusedSectionVars false
set_option linter.unusedVariables false

namespace DD
variable {α : Type} [DecidableEq α]

/-! ## Part A — the variable swap on relation trees -/

/-! ### Generic helpers: `mkNode` over a tabulated child vector -/

theorem mkNode_map_ok (S : Shape) (zero : α) (k : Nat) (fi : Option Nat) (n : Nat)
    (g : Nat → DD α) (h : ∀ i, Below k (g i) ∧ WFTree (g i)) :
    Below (k+1) (mkNode S zero (k+1) fi ((List.range n).map g)) ∧
    WFTree (mkNode S zero (k+1) fi ((List.range n).map g)) := by
  have hc : ∀ c, c ∈ (List.range n).map g → Below k c ∧ WFTree c := by
    intro c hc
    obtain ⟨i, _, rfl⟩ := List.mem_map.mp hc
    exact h i
  exact ⟨mkNode_Below S zero k fi _ (fun c h => (hc c h).1),
    mkNode_WFTree S zero k fi _ (fun c h => (hc c h).1) (fun c h => (hc c h).2)⟩

theorem mkNode_map_eval (S : Shape) (zero : α) (k : Nat) (fi : Option Nat) (n : Nat)
    (g : Nat → DD α) (x : Assign) (hn : n = S.size (k+1)) (hx : x (k+1) < n)
    (hb : ∀ i, Below k (g i))
    (hfi : S.mode (k+1) = .ident → fi = some (x (k+2))) :
    eval S zero (k+1) (mkNode S zero (k+1) fi ((List.range n).map g)) x
      = eval S zero k (g (x (k+1))) x := by
  rw [mkNode_eval_lt S zero k fi _ x (by rw [length_map_range, hn]) (by rw [← hn]; exact hx)
      (fun c hc => by
        obtain ⟨i, _, rfl⟩ := List.mem_map.mp hc
        exact hb i) hfi,
    getD_map_range _ _ _ hx]

theorem mkNode_map_red (S : Shape) (zero : α) (hS : S.WF) (k : Nat) (fi : Option Nat) (n : Nat)
    (g : Nat → DD α) (hn : n = S.size (k+1))
    (hch : ∀ i, i < n → Red S zero k (some i) (g i) = true)
    (hfi : fi = none → S.mode (k+1) ≠ .ident) :
    Red S zero (k+1) fi (mkNode S zero (k+1) fi ((List.range n).map g)) = true := by
  apply mkNode_red S zero hS k fi _ (by rw [length_map_range, hn]) _ hfi
  intro i hi
  rw [length_map_range] at hi
  rw [getD_map_range _ _ _ hi]
  exact hch i hi

/-- the cofactors of a reduced tree are reduced one position lower — for every reduction rule
    (an identity-skipped position yields the tree itself on the diagonal, the transparent
    terminal off it) -/
theorem Red_cofactor (S : Shape) (zero : α) (p : Nat) (fi fj : Option Nat)
    (d : DD α) (hr : Red S zero (p+1) fi d = true) (i : Nat) (hi : i < S.size (p+1)) :
    Red S zero p (some i) (cofactor S zero (p+1) fj d i) = true := by
  rcases storedAt_cases (p+1) d with ⟨cs, rfl⟩ | hd
  · obtain ⟨_, hlen, _, _, hch⟩ := (Red_succ_node S zero p fi cs).mp hr
    rw [cofactor_node]
    exact hch i (by rw [hlen]; exact hi)
  · obtain ⟨_, h2⟩ := Red_succ_skip S zero p fi hd hr
    rcases cofactor_skip_cases S zero (p+1) fj i hd with h | h <;> rw [h]
    · exact Red_none_some S zero p i d h2
    · exact Red_leaf_zero S zero p (some i)

/-- `eval … p` depends on the shape only through the modes of the positions `≤ p` -/
theorem eval_mode_congr_le (S S' : Shape) (zero : α) :
    ∀ (p : Nat), (∀ q, q ≤ p → S'.mode q = S.mode q) →
      ∀ (d : DD α) (a : Assign), eval S' zero p d a = eval S zero p d a := by
  intro p
  induction p with
  | zero => intro _ d a; cases d <;> rfl
  | succ p ih =>
    intro hm d a
    have ih' := ih (fun q hq => hm q (Nat.le_succ_of_le hq))
    rcases storedAt_cases (p+1) d with ⟨cs, rfl⟩ | hd
    · rw [eval_succ_node, eval_succ_node, ih']
    · rw [eval_succ_skip S' zero p a hd, eval_succ_skip S zero p a hd, hm (p+1) (Nat.le_refl _),
        ih']

/-! ### The assignment renaming -/

theorem relSwapA_0 (b : Nat) (a : Assign) : relSwapA b a b = a (b+1+1) := by
  simp [relSwapA]
theorem relSwapA_1 (b : Nat) (a : Assign) : relSwapA b a (b+1) = a (b+1+1+1) := by
  simp [relSwapA]
theorem relSwapA_2 (b : Nat) (a : Assign) : relSwapA b a (b+1+1) = a b := by
  unfold relSwapA
  rw [if_neg (by omega), if_neg (by omega), if_pos rfl]
theorem relSwapA_3 (b : Nat) (a : Assign) : relSwapA b a (b+1+1+1) = a (b+1) := by
  unfold relSwapA
  rw [if_neg (by omega), if_neg (by omega), if_neg (by omega), if_pos rfl]
theorem relSwapA_other (b : Nat) (a : Assign) {p : Nat} (h0 : p ≠ b) (h1 : p ≠ b+1)
    (h2 : p ≠ b+1+1) (h3 : p ≠ b+1+1+1) : relSwapA b a p = a p := by
  unfold relSwapA
  rw [if_neg h0, if_neg h1, if_neg h2, if_neg h3]

theorem relSwapA_relSwapA (b : Nat) (a : Assign) : relSwapA b (relSwapA b a) = a := by
  funext p
  by_cases h0 : p = b
  · subst h0; rw [relSwapA_0, relSwapA_2]
  · by_cases h1 : p = b+1
    · subst h1; rw [relSwapA_1, relSwapA_3]
    · by_cases h2 : p = b+1+1
      · subst h2; rw [relSwapA_2, relSwapA_0]
      · by_cases h3 : p = b+1+1+1
        · subst h3; rw [relSwapA_3, relSwapA_1]
        · rw [relSwapA_other b _ h0 h1 h2 h3, relSwapA_other b _ h0 h1 h2 h3]

/-! ### The shape hypothesis -/

/-- `S'` is `S` with the position PAIRS `(b+3, b+2)` and `(b+1, b)` exchanged — sizes and
    skipping modes travel with the variables.  `b` is the primed position of the lower
    variable (`b = 2k-1` for MEDDLY's `swapAdjacentVariables(k)`).

    Pair structure of the modes: the two upper positions of the pairs (`b+3`, `b+1`: unprimed
    levels) and the position below the block (`b-1`: the unprimed level of the next variable,
    or the terminal position 0) are not `ident`; with `Shape.WF` this says that an `ident`
    position inside the block (`b+2` or `b`) sits below the `red` partner of its own pair.
    Fully reduced (all `red`), quasi reduced (all `none`) and identity reduced (`b+3, b+1`
    `red`, `b+2, b` `ident`) relations are instances. -/
structure RelSwapShape (S S' : Shape) (b : Nat) : Prop where
  base : 1 ≤ b
  fits : b + 1 + 1 + 1 ≤ S.top
  top : S'.top = S.top
  size0 : S'.size b = S.size (b+1+1)
  size1 : S'.size (b+1) = S.size (b+1+1+1)
  size2 : S'.size (b+1+1) = S.size b
  size3 : S'.size (b+1+1+1) = S.size (b+1)
  size_other : ∀ p, p ≠ b → p ≠ b+1 → p ≠ b+1+1 → p ≠ b+1+1+1 → S'.size p = S.size p
  mode0 : S'.mode b = S.mode (b+1+1)
  mode1 : S'.mode (b+1) = S.mode (b+1+1+1)
  mode2 : S'.mode (b+1+1) = S.mode b
  mode3 : S'.mode (b+1+1+1) = S.mode (b+1)
  mode_other : ∀ p, p ≠ b → p ≠ b+1 → p ≠ b+1+1 → p ≠ b+1+1+1 → S'.mode p = S.mode p
  unprimed_lo : S.mode (b+1) ≠ .ident
  unprimed_hi : S.mode (b+1+1+1) ≠ .ident
  below : S.mode (b-1) ≠ .ident

theorem RelSwapShape.symm {S S' : Shape} {b : Nat} (h : RelSwapShape S S' b) :
    RelSwapShape S' S b where
  base := h.base
  fits := by rw [h.top]; exact h.fits
  top := h.top.symm
  size0 := h.size2.symm
  size1 := h.size3.symm
  size2 := h.size0.symm
  size3 := h.size1.symm
  size_other := fun p h0 h1 h2 h3 => (h.size_other p h0 h1 h2 h3).symm
  mode0 := h.mode2.symm
  mode1 := h.mode3.symm
  mode2 := h.mode0.symm
  mode3 := h.mode1.symm
  mode_other := fun p h0 h1 h2 h3 => (h.mode_other p h0 h1 h2 h3).symm
  unprimed_lo := by rw [h.mode1]; exact h.unprimed_hi
  unprimed_hi := by rw [h.mode3]; exact h.unprimed_lo
  below := by
    have hb := h.base
    rw [h.mode_other (b-1) (by omega) (by omega) (by omega) (by omega)]; exact h.below

/-- the target shape of a well-formed shape is well formed -/
theorem RelSwapShape.wf {S S' : Shape} {b : Nat} (h : RelSwapShape S S' b) (hS : S.WF) :
    S'.WF where
  size_ge := by
    intro p h1 h2
    rw [h.top] at h2
    have hb := h.base
    have hf := h.fits
    by_cases e0 : p = b
    · subst e0; rw [h.size0]; exact hS.size_ge _ (by omega) (by omega)
    · by_cases e1 : p = b+1
      · subst e1; rw [h.size1]; exact hS.size_ge _ (by omega) (by omega)
      · by_cases e2 : p = b+1+1
        · subst e2; rw [h.size2]; exact hS.size_ge _ (by omega) (by omega)
        · by_cases e3 : p = b+1+1+1
          · subst e3; rw [h.size3]; exact hS.size_ge _ (by omega) (by omega)
          · rw [h.size_other p e0 e1 e2 e3]; exact hS.size_ge p h1 h2
  ident_below_red := by
    intro p hp
    have hb := h.base
    have hf := h.fits
    by_cases e0 : p = b
    · subst e0
      rw [h.mode0] at hp
      obtain ⟨_, _, hr, hsz⟩ := hS.ident_below_red _ hp
      refine ⟨by omega, by rw [h.top]; omega, ?_, ?_⟩
      · rw [h.mode1]; exact hr
      · rw [h.size1, h.size0]; exact hsz
    · by_cases e1 : p = b+1
      · subst e1; rw [h.mode1] at hp; exact absurd hp h.unprimed_hi
      · by_cases e2 : p = b+1+1
        · subst e2
          rw [h.mode2] at hp
          obtain ⟨_, _, hr, hsz⟩ := hS.ident_below_red _ hp
          refine ⟨by omega, by rw [h.top]; omega, ?_, ?_⟩
          · rw [h.mode3]; exact hr
          · rw [h.size3, h.size2]; exact hsz
        · by_cases e3 : p = b+1+1+1
          · subst e3; rw [h.mode3] at hp; exact absurd hp h.unprimed_lo
          · rw [h.mode_other p e0 e1 e2 e3] at hp
            obtain ⟨h1, h2, hr, hsz⟩ := hS.ident_below_red _ hp
            have e4 : p + 1 ≠ b := by
              intro e
              have : p = b - 1 := by omega
              rw [this] at hp; exact h.below hp
            refine ⟨h1, by rw [h.top]; exact h2, ?_, ?_⟩
            · rw [h.mode_other (p+1) e4 (by omega) (by omega) (by omega)]; exact hr
            · rw [h.size_other (p+1) e4 (by omega) (by omega) (by omega),
                h.size_other p e0 e1 e2 e3]; exact hsz

/-- a valid assignment of the target shape, renamed, is a valid assignment of the source -/
theorem RelSwapShape.valid {S S' : Shape} {b : Nat} (h : RelSwapShape S S' b) {a : Assign}
    (ha : Assign.Valid S' a) : Assign.Valid S (relSwapA b a) := by
  intro p h1 h2
  have hb := h.base
  have hf := h.fits
  have ht := h.top
  by_cases e0 : p = b
  · subst e0; rw [relSwapA_0, ← h.size2]; exact ha _ (by omega) (by omega)
  · by_cases e1 : p = b+1
    · subst e1; rw [relSwapA_1, ← h.size3]; exact ha _ (by omega) (by omega)
    · by_cases e2 : p = b+1+1
      · subst e2; rw [relSwapA_2, ← h.size0]; exact ha _ (by omega) (by omega)
      · by_cases e3 : p = b+1+1+1
        · subst e3; rw [relSwapA_3, ← h.size1]; exact ha _ (by omega) (by omega)
        · rw [relSwapA_other b a e0 e1 e2 e3, ← h.size_other p e0 e1 e2 e3]
          exact ha p h1 (by omega)

/-! ### The four-fold cofactor and the rebuilt block -/

/-- the cofactor `d[i][i'][j][j']` of the block `b+3, b+2, b+1, b`, with the arriving index
    threaded as in `apply2`: the index taken at an unprimed position is what an
    identity-skipped primed position below it is compared with -/
def cof4 (S : Shape) (zero : α) (b : Nat) (fi : Option Nat) (d : DD α) (i i' j j' : Nat) : DD α :=
  cofactor S zero b (some j)
    (cofactor S zero (b+1) (some i')
      (cofactor S zero (b+1+1) (some i)
        (cofactor S zero (b+1+1+1) fi d i) i') j) j'

/-- new primed low node (`plnb`): position `b`, indexed by the old upper primed index `i'` -/
def swapNode0 (S S' : Shape) (zero : α) (b : Nat) (fi : Option Nat) (d : DD α) (j j' i : Nat) :
    DD α :=
  mkNode S' zero b (some i) ((List.range (S'.size b)).map fun i' => cof4 S zero b fi d i i' j j')

/-- new unprimed low node (`lnb`): position `b+1`, indexed by the old upper unprimed index `i` -/
def swapNode1 (S S' : Shape) (zero : α) (b : Nat) (fi : Option Nat) (d : DD α) (j j' : Nat) :
    DD α :=
  mkNode S' zero (b+1) (some j')
    ((List.range (S'.size (b+1))).map fun i => swapNode0 S S' zero b fi d j j' i)

/-- new primed high node (`phnb`): position `b+2`, indexed by the old lower primed index `j'` -/
def swapNode2 (S S' : Shape) (zero : α) (b : Nat) (fi : Option Nat) (d : DD α) (j : Nat) : DD α :=
  mkNode S' zero (b+1+1) (some j)
    ((List.range (S'.size (b+1+1))).map fun j' => swapNode1 S S' zero b fi d j j')

/-- the rebuilt block (`hnb`, `swapAdjacentVariablesOf`): position `b+3`, indexed by the old
    lower unprimed index `j` -/
def swap4 (S S' : Shape) (zero : α) (b : Nat) (fi : Option Nat) (d : DD α) : DD α :=
  mkNode S' zero (b+1+1+1) fi
    ((List.range (S'.size (b+1+1+1))).map fun j => swapNode2 S S' zero b fi d j)

/-- The variable swap on relation trees, read from position `p` downwards (arriving index
    `fi`): above the block nodes are rebuilt over their swapped children, the block is
    rebuilt by `swap4`, everything below `b` is left untouched. -/
def relSwapDD (S S' : Shape) (zero : α) (b : Nat) : Nat → Option Nat → DD α → DD α
  | 0, _, d => d
  | p+1, fi, d =>
    if p + 1 ≤ b + 1 + 1 then d
    else if p = b + 1 + 1 then swap4 S S' zero b fi d
    else
      mkNode S' zero (p+1) fi ((List.range (S'.size (p+1))).map fun i =>
        relSwapDD S S' zero b p (some i) (cofactor S zero (p+1) fi d i))

theorem relSwapDD_at (S S' : Shape) (zero : α) (b : Nat) (fi : Option Nat) (d : DD α) :
    relSwapDD S S' zero b (b+1+1+1) fi d = swap4 S S' zero b fi d := by
  rw [relSwapDD, if_neg (by omega), if_pos rfl]

theorem relSwapDD_above (S S' : Shape) (zero : α) (b : Nat) {p : Nat} (h : b + 1 + 1 + 1 ≤ p)
    (fi : Option Nat) (d : DD α) :
    relSwapDD S S' zero b (p+1) fi d =
      mkNode S' zero (p+1) fi ((List.range (S'.size (p+1))).map fun i =>
        relSwapDD S S' zero b p (some i) (cofactor S zero (p+1) fi d i)) := by
  rw [relSwapDD, if_neg (by omega), if_neg (by omega)]

theorem relSwapDD_below (S S' : Shape) (zero : α) (b : Nat) {p : Nat} (h : p ≤ b + 1 + 1)
    (fi : Option Nat) (d : DD α) : relSwapDD S S' zero b p fi d = d := by
  cases p with
  | zero => rfl
  | succ p => rw [relSwapDD, if_pos h]

/-- the four-fold cofactor is below the block and well shaped -/
theorem cof4_ok (S : Shape) (zero : α) (c : Nat) (fi : Option Nat) (d : DD α) (hw : WFTree d)
    (hb : Below (c+1+1+1+1) d) (i i' j j' : Nat) :
    Below c (cof4 S zero (c+1) fi d i i' j j') ∧ WFTree (cof4 S zero (c+1) fi d i i' j j') := by
  have hw3 := cofactor_WFTree S zero (c+1+1+1+1) fi d i hw
  have hb3 := cofactor_Below S zero (c+1+1+1) fi d i hw hb
  have hw2 := cofactor_WFTree S zero (c+1+1+1) (some i) _ i' hw3
  have hb2 := cofactor_Below S zero (c+1+1) (some i) _ i' hw3 hb3
  have hw1 := cofactor_WFTree S zero (c+1+1) (some i') _ j hw2
  have hb1 := cofactor_Below S zero (c+1) (some i') _ j hw2 hb2
  exact ⟨cofactor_Below S zero c (some j) _ j' hw1 hb1,
    cofactor_WFTree S zero (c+1) (some j) _ j' hw1⟩

theorem swapNode0_ok (S S' : Shape) (zero : α) (c : Nat) (fi : Option Nat) (d : DD α)
    (hw : WFTree d) (hb : Below (c+1+1+1+1) d) (j j' i : Nat) :
    Below (c+1) (swapNode0 S S' zero (c+1) fi d j j' i) ∧
    WFTree (swapNode0 S S' zero (c+1) fi d j j' i) :=
  mkNode_map_ok S' zero c _ _ _ (fun i' => cof4_ok S zero c fi d hw hb i i' j j')

theorem swapNode1_ok (S S' : Shape) (zero : α) (c : Nat) (fi : Option Nat) (d : DD α)
    (hw : WFTree d) (hb : Below (c+1+1+1+1) d) (j j' : Nat) :
    Below (c+1+1) (swapNode1 S S' zero (c+1) fi d j j') ∧
    WFTree (swapNode1 S S' zero (c+1) fi d j j') :=
  mkNode_map_ok S' zero (c+1) _ _ _ (fun i => swapNode0_ok S S' zero c fi d hw hb j j' i)

theorem swapNode2_ok (S S' : Shape) (zero : α) (c : Nat) (fi : Option Nat) (d : DD α)
    (hw : WFTree d) (hb : Below (c+1+1+1+1) d) (j : Nat) :
    Below (c+1+1+1) (swapNode2 S S' zero (c+1) fi d j) ∧
    WFTree (swapNode2 S S' zero (c+1) fi d j) :=
  mkNode_map_ok S' zero (c+1+1) _ _ _ (fun j' => swapNode1_ok S S' zero c fi d hw hb j j')

theorem swap4_ok (S S' : Shape) (zero : α) (c : Nat) (fi : Option Nat) (d : DD α)
    (hw : WFTree d) (hb : Below (c+1+1+1+1) d) :
    Below (c+1+1+1+1) (swap4 S S' zero (c+1) fi d) ∧ WFTree (swap4 S S' zero (c+1) fi d) :=
  mkNode_map_ok S' zero (c+1+1+1) _ _ _ (fun j => swapNode2_ok S S' zero c fi d hw hb j)

/-- The swapped tree is well shaped and stays below its position. -/
theorem relSwapDD_ok (S S' : Shape) (zero : α) (b : Nat) (hb1 : 1 ≤ b) :
    ∀ (p : Nat) (fi : Option Nat) (d : DD α), WFTree d → Below p d →
      Below p (relSwapDD S S' zero b p fi d) ∧ WFTree (relSwapDD S S' zero b p fi d) := by
  obtain ⟨c, rfl⟩ : ∃ c, b = c+1 := ⟨b-1, by omega⟩
  intro p
  induction p with
  | zero => intro fi d hw hb; exact ⟨hb, hw⟩
  | succ p ih =>
    intro fi d hw hb
    by_cases h1 : p + 1 ≤ c + 1 + 1 + 1
    · rw [relSwapDD_below S S' zero (c+1) h1]; exact ⟨hb, hw⟩
    · by_cases h2 : p = c + 1 + 1 + 1
      · subst h2
        rw [relSwapDD_at]
        exact swap4_ok S S' zero c fi d hw hb
      · rw [relSwapDD_above S S' zero (c+1) (by omega)]
        exact mkNode_map_ok S' zero p fi _ _ (fun i =>
          ih (some i) _ (cofactor_WFTree S zero (p+1) fi d i hw)
            (cofactor_Below S zero p fi d i hw hb))

/-! ### Denotation -/

/-- reading `d` from the top of the block is reading its four-fold cofactor below the block -/
theorem cof4_eval (S : Shape) (zero : α) (c : Nat) (fi : Option Nat) (d : DD α) (x : Assign)
    (h3 : S.mode (c+1+1+1+1) ≠ .ident) (h1 : S.mode (c+1+1) ≠ .ident) :
    eval S zero (c+1+1+1+1) d x
      = eval S zero c
          (cof4 S zero (c+1) fi d (x (c+1+1+1+1)) (x (c+1+1+1)) (x (c+1+1)) (x (c+1))) x := by
  unfold cof4
  rw [cofactor_eval S zero (c+1+1+1) fi d x (fun hm => absurd hm h3),
    cofactor_eval S zero (c+1+1) (some (x (c+1+1+1+1))) _ x (fun _ => rfl),
    cofactor_eval S zero (c+1) (some (x (c+1+1+1))) _ x (fun hm => absurd hm h1),
    cofactor_eval S zero c (some (x (c+1+1))) _ x (fun _ => rfl)]

/-- The rebuilt block denotes the function with the two variable pairs exchanged. -/
theorem swap4_eval (S S' : Shape) (zero : α) (c : Nat) (h : RelSwapShape S S' (c+1))
    (fi : Option Nat) (d : DD α) (hw : WFTree d) (hb : Below (c+1+1+1+1) d)
    (a : Assign) (ha : Assign.Valid S' a) :
    eval S' zero (c+1+1+1+1) (swap4 S S' zero (c+1) fi d) a
      = eval S zero (c+1+1+1+1) d (relSwapA (c+1) a) := by
  have hf := h.fits
  have ht := h.top
  have hbl : S.mode c ≠ .ident := h.below
  have ha3 : a (c+1+1+1+1) < S'.size (c+1+1+1+1) := ha _ (by omega) (by omega)
  have ha2 : a (c+1+1+1) < S'.size (c+1+1+1) := ha _ (by omega) (by omega)
  have ha1 : a (c+1+1) < S'.size (c+1+1) := ha _ (by omega) (by omega)
  have ha0 : a (c+1) < S'.size (c+1) := ha _ (by omega) (by omega)
  unfold swap4
  rw [mkNode_map_eval S' zero (c+1+1+1) fi _ _ a rfl ha3
      (fun j => (swapNode2_ok S S' zero c fi d hw hb j).1)
      (fun hm => absurd (h.mode3 ▸ hm) h.unprimed_lo)]
  unfold swapNode2
  rw [mkNode_map_eval S' zero (c+1+1) _ _ _ a rfl ha2
      (fun j' => (swapNode1_ok S S' zero c fi d hw hb _ j').1) (fun _ => rfl)]
  unfold swapNode1
  rw [mkNode_map_eval S' zero (c+1) _ _ _ a rfl ha1
      (fun i => (swapNode0_ok S S' zero c fi d hw hb _ _ i).1) (fun _ => rfl)]
  unfold swapNode0
  rw [mkNode_map_eval S' zero c _ _ _ a rfl ha0
      (fun i' => (cof4_ok S zero c fi d hw hb _ i' _ _).1) (fun _ => rfl)]
  -- the untouched part below the block: same modes, reads none of the four positions
  rw [eval_mode_congr_le S S' zero c
      (fun q hq => h.mode_other q (by omega) (by omega) (by omega) (by omega))]
  rw [eval_congr S zero c _ a (relSwapA (c+1) a)
      (fun p hp => (relSwapA_other (c+1) a (by omega) (by omega) (by omega) (by omega)).symm)
      (fun hm => absurd hm hbl)]
  rw [cof4_eval S zero c fi d (relSwapA (c+1) a) h.unprimed_hi h.unprimed_lo,
    relSwapA_3, relSwapA_2, relSwapA_1, relSwapA_0]

/-- `relSwapDD` denotes the function with the two variable pairs exchanged, from any position
    above the block. -/
theorem relSwapDD_eval_above (S S' : Shape) (zero : α) (b : Nat) (h : RelSwapShape S S' b) :
    ∀ (n : Nat) (fi : Option Nat) (d : DD α), b + 1 + 1 + 1 + n ≤ S.top → WFTree d →
      Below (b+1+1+1+n) d → ∀ (a : Assign), Assign.Valid S' a →
      (S.mode (b+1+1+1+n) = .ident → fi = some (a (b+1+1+1+n+1))) →
      eval S' zero (b+1+1+1+n) (relSwapDD S S' zero b (b+1+1+1+n) fi d) a
        = eval S zero (b+1+1+1+n) d (relSwapA b a) := by
  have hb1 := h.base
  intro n
  induction n with
  | zero =>
    intro fi d _ hw hb a ha _
    obtain ⟨c, rfl⟩ : ∃ c, b = c+1 := ⟨b-1, by omega⟩
    show eval S' zero (c+1+1+1+1) (relSwapDD S S' zero (c+1) (c+1+1+1+1) fi d) a = _
    rw [relSwapDD_at]
    exact swap4_eval S S' zero c h fi d hw hb a ha
  | succ n ih =>
    intro fi d ht hw hb a ha hfi
    have hp : b + 1 + 1 + 1 + (n + 1) = (b + 1 + 1 + 1 + n) + 1 := by omega
    rw [hp] at hb hfi ⊢
    have hsz : S'.size (b+1+1+1+n+1) = S.size (b+1+1+1+n+1) :=
      h.size_other _ (by omega) (by omega) (by omega) (by omega)
    have hmd : S'.mode (b+1+1+1+n+1) = S.mode (b+1+1+1+n+1) :=
      h.mode_other _ (by omega) (by omega) (by omega) (by omega)
    have hax : a (b+1+1+1+n+1) < S'.size (b+1+1+1+n+1) :=
      ha _ (by omega) (by rw [h.top]; omega)
    rw [relSwapDD_above S S' zero b (by omega)]
    rw [mkNode_map_eval S' zero (b+1+1+1+n) fi _ _ a rfl hax
        (fun i => (relSwapDD_ok S S' zero b hb1 _ _ _
          (cofactor_WFTree S zero _ fi d i hw) (cofactor_Below S zero _ fi d i hw hb)).1)
        (fun hm => hfi (hmd ▸ hm))]
    rw [ih (some (a (b+1+1+1+n+1))) _ (by omega) (cofactor_WFTree S zero _ fi d _ hw)
        (cofactor_Below S zero _ fi d _ hw hb) a ha (fun _ => rfl)]
    have hr1 : relSwapA b a (b+1+1+1+n+1) = a (b+1+1+1+n+1) :=
      relSwapA_other b a (by omega) (by omega) (by omega) (by omega)
    have hr2 : relSwapA b a (b+1+1+1+n+2) = a (b+1+1+1+n+1+1) :=
      relSwapA_other b a (by omega) (by omega) (by omega) (by omega)
    rw [cofactor_eval S zero (b+1+1+1+n) fi d (relSwapA b a)
        (fun hm => by rw [hr2]; exact hfi hm), hr1]

/-! ### Reducedness -/

/-- the four-fold cofactor of a reduced tree is reduced below the block -/
theorem cof4_red (S : Shape) (zero : α) (c : Nat) (fi : Option Nat) (d : DD α)
    (hr : Red S zero (c+1+1+1+1) fi d = true) (i i' j j' : Nat)
    (hi : i < S.size (c+1+1+1+1)) (hi' : i' < S.size (c+1+1+1)) (hj : j < S.size (c+1+1))
    (hj' : j' < S.size (c+1)) :
    Red S zero c (some j') (cof4 S zero (c+1) fi d i i' j j') = true := by
  have h3 := Red_cofactor S zero (c+1+1+1) fi fi d hr i hi
  have h2 := Red_cofactor S zero (c+1+1) (some i) (some i) _ h3 i' hi'
  have h1 := Red_cofactor S zero (c+1) (some i') (some i') _ h2 j hj
  exact Red_cofactor S zero c (some j) (some j) _ h1 j' hj'

/-- The rebuilt block is reduced for the target shape. -/
theorem swap4_red (S S' : Shape) (zero : α) (c : Nat) (h : RelSwapShape S S' (c+1))
    (hS' : S'.WF) (fi : Option Nat) (d : DD α) (hr : Red S zero (c+1+1+1+1) fi d = true) :
    Red S' zero (c+1+1+1+1) fi (swap4 S S' zero (c+1) fi d) = true := by
  have hbl : S.mode c ≠ .ident := h.below
  unfold swap4
  apply mkNode_map_red S' zero hS' (c+1+1+1) fi _ _ rfl _
    (fun _ => by rw [h.mode3]; exact h.unprimed_lo)
  intro j hj
  unfold swapNode2
  apply mkNode_map_red S' zero hS' (c+1+1) _ _ _ rfl _ (fun e => by cases e)
  intro j' hj'
  unfold swapNode1
  apply mkNode_map_red S' zero hS' (c+1) _ _ _ rfl _ (fun e => by cases e)
  intro i hi
  unfold swapNode0
  apply mkNode_map_red S' zero hS' c _ _ _ rfl _ (fun e => by cases e)
  intro i' hi'
  -- below the block the shapes agree, and position `c` is not `ident`
  apply swapRed_shape_congr S S' zero c
    (fun q hq => ⟨h.size_other q (by omega) (by omega) (by omega) (by omega),
      h.mode_other q (by omega) (by omega) (by omega) (by omega)⟩)
  rw [Red_fi_irrel S zero c (some i') (some j') _ hbl]
  exact cof4_red S zero c fi d hr i i' j j' (by rw [← h.size1]; exact hi)
    (by rw [← h.size0]; exact hi') (by rw [← h.size3]; exact hj) (by rw [← h.size2]; exact hj')

/-- The swapped tree is reduced for the target shape, from any position above the block. -/
theorem relSwapDD_red_above (S S' : Shape) (zero : α) (b : Nat) (h : RelSwapShape S S' b)
    (hS' : S'.WF) :
    ∀ (n : Nat) (fi : Option Nat) (d : DD α),
      (fi = none → S.mode (b+1+1+1+n) ≠ .ident) →
      Red S zero (b+1+1+1+n) fi d = true →
      Red S' zero (b+1+1+1+n) fi (relSwapDD S S' zero b (b+1+1+1+n) fi d) = true := by
  have hb1 := h.base
  intro n
  induction n with
  | zero =>
    intro fi d _ hr
    obtain ⟨c, rfl⟩ : ∃ c, b = c+1 := ⟨b-1, by omega⟩
    show Red S' zero (c+1+1+1+1) fi (relSwapDD S S' zero (c+1) (c+1+1+1+1) fi d) = true
    rw [relSwapDD_at]
    exact swap4_red S S' zero c h hS' fi d hr
  | succ n ih =>
    intro fi d hfi hr
    have hp : b + 1 + 1 + 1 + (n + 1) = (b + 1 + 1 + 1 + n) + 1 := by omega
    rw [hp] at hr hfi ⊢
    have hsz : S'.size (b+1+1+1+n+1) = S.size (b+1+1+1+n+1) :=
      h.size_other _ (by omega) (by omega) (by omega) (by omega)
    have hmd : S'.mode (b+1+1+1+n+1) = S.mode (b+1+1+1+n+1) :=
      h.mode_other _ (by omega) (by omega) (by omega) (by omega)
    rw [relSwapDD_above S S' zero b (by omega)]
    apply mkNode_map_red S' zero hS' (b+1+1+1+n) fi _ _ rfl _
      (fun e => by rw [hmd]; exact hfi e)
    intro i hi
    exact ih (some i) _ (fun e => by cases e)
      (Red_cofactor S zero (b+1+1+1+n) fi fi d hr i (by rw [← hsz]; exact hi))

/-! ## Part B — `swapAdjacentVariablesByLevelSwap`: four adjacent position swaps -/

/-- the composition of the four adjacent POSITION swaps of `swapAdjacentVariablesByLevelSwap`
    (`x x' y y'` → `x y x' y'` → `y x x' y'` → `y x y' x'` → `y y' x x'`), each done by
    `swapAdjDD` of `Ops/Reorder.lean`; `S1 … S3` are the shapes of the intermediate orders -/
def levelSwap4 (S S1 S2 S3 S4 : Shape) (zero : α) (b : Nat) (d : DD α) : DD α :=
  swapAdjDD S3 S4 zero (b+1) S3.top
    (swapAdjDD S2 S3 zero b S2.top
      (swapAdjDD S1 S2 zero (b+1+1) S1.top
        (swapAdjDD S S1 zero (b+1) S.top d)))

/-- the four position swaps exchange the two pairs: for shapes without `ident` positions whose
    modes are uniform over the two pairs, the last shape is the target shape of the variable
    swap -/
theorem RelSwapShape.of_levelSwaps {S S1 S2 S3 S4 : Shape} {b : Nat}
    (h1 : SwapShape S S1 (b+1)) (h2 : SwapShape S1 S2 (b+1+1)) (h3 : SwapShape S2 S3 b)
    (h4 : SwapShape S3 S4 (b+1)) (hn : NoIdent S) (hb : 1 ≤ b) (hf : b + 1 + 1 + 1 ≤ S.top)
    (hm0 : S.mode (b+1+1) = S.mode b) (hm1 : S.mode (b+1+1+1) = S.mode (b+1)) :
    RelSwapShape S S4 b where
  base := hb
  fits := hf
  top := by rw [h4.top, h3.top, h2.top, h1.top]
  size0 := by
    rw [h4.size_other b (by omega) (by omega), h3.size_lo, h2.size_other _ (by omega) (by omega),
      h1.size_lo]
  size1 := by
    rw [h4.size_lo, h3.size_other _ (by omega) (by omega), h2.size_lo,
      h1.size_other _ (by omega) (by omega)]
  size2 := by
    rw [h4.size_hi, h3.size_hi, h2.size_other _ (by omega) (by omega),
      h1.size_other _ (by omega) (by omega)]
  size3 := by
    rw [h4.size_other _ (by omega) (by omega), h3.size_other _ (by omega) (by omega), h2.size_hi,
      h1.size_hi]
  size_other := by
    intro p e0 e1 e2 e3
    rw [h4.size_other p (by omega) (by omega), h3.size_other p (by omega) (by omega),
      h2.size_other p (by omega) (by omega), h1.size_other p (by omega) (by omega)]
  mode0 := by rw [h4.mode, h3.mode, h2.mode, h1.mode, hm0]
  mode1 := by rw [h4.mode, h3.mode, h2.mode, h1.mode, hm1]
  mode2 := by rw [h4.mode, h3.mode, h2.mode, h1.mode, hm0]
  mode3 := by rw [h4.mode, h3.mode, h2.mode, h1.mode, hm1]
  mode_other := by intro p _ _ _ _; rw [h4.mode, h3.mode, h2.mode, h1.mode]
  unprimed_lo := hn _
  unprimed_hi := hn _
  below := hn _

/-- `swapAdjacentVariables(k)` on a relation tree (`swapAdjacentVariablesByVarSwap`): the
    variables at levels `k` and `k+1` change places; the block starts at the primed position
    `2k-1` of the lower variable. -/
def swapVarRel (S S' : Shape) (zero : α) (k : Nat) (d : DD α) : DD α :=
  relSwapDD S S' zero (2*k-1) S.top none d

end DD

/-! ## Part C — the adjacent swap on EV+ trees -/

namespace EDD
open DD (SwapShape NoIdent swapA swapA_lo swapA_hi swapA_other)

/-- `eval` depends on the shape only through the skipping modes -/
theorem eval_mode_congr (S S' : Shape) (hm : ∀ p, S'.mode p = S.mode p) :
    ∀ (p : Nat) (d : EDD) (a : Assign), eval S' p d a = eval S p d a := by
  intro p
  induction p with
  | zero => intro d a; cases d <;> rfl
  | succ p ih =>
    intro d a
    rcases storedAt_cases (p+1) d with ⟨cs, rfl⟩ | hd
    · rw [eval_succ_node, eval_succ_node]; unfold evalEdge; rw [ih]
    · rw [eval_succ_skip S' p a hd, eval_succ_skip S p a hd, hm (p+1), ih]

theorem evalEdge_mode_congr (S S' : Shape) (hm : ∀ p, S'.mode p = S.mode p) (p : Nat)
    (e : Int × EDD) (a : Assign) : evalEdge S' p e a = evalEdge S p e a := by
  unfold evalEdge; rw [eval_mode_congr S S' hm]

theorem edgeOK_mode_congr (S S' : Shape) (k : Nat) (fi : Option Nat) (d : EDD)
    (hm : S'.mode k = S.mode k) : edgeOK S' k fi d = edgeOK S k fi d := by
  unfold edgeOK
  rw [hm]

/-- `Red … p` only looks at the sizes and modes of the positions `≤ p` -/
theorem Red_shape_congr (S S' : Shape) :
    ∀ (p : Nat), (∀ q, q ≤ p → S'.size q = S.size q ∧ S'.mode q = S.mode q) →
      ∀ (fi : Option Nat) (d : EDD), Red S p fi d = true → Red S' p fi d = true := by
  intro p
  induction p with
  | zero =>
    intro _ fi d hr
    exact (Red_zero_iff S' fi d).mpr ((Red_zero_iff S fi d).mp hr)
  | succ p ih =>
    intro hq fi d hr
    have hq' : ∀ q, q ≤ p → S'.size q = S.size q ∧ S'.mode q = S.mode q :=
      fun q h => hq q (Nat.le_succ_of_le h)
    obtain ⟨hsz, hmd⟩ := hq (p+1) (Nat.le_refl _)
    rcases storedAt_cases (p+1) d with ⟨cs, rfl⟩ | hd
    · obtain ⟨h1, h2, h3⟩ := (Red_succ_node S p fi cs).mp hr
      refine (Red_succ_node S' p fi cs).mpr ⟨?_, ?_, ?_⟩
      · rw [edgeOK_mode_congr S S' (p+1) fi _ hmd]; exact h1
      · rw [hsz, hmd]; exact h2
      · intro i hi; exact ih hq' (some i) _ (h3 i hi)
    · obtain ⟨h1, h2⟩ := Red_succ_skip S p fi hd hr
      have hb : Below p d := Red_Below S p none d h2
      exact Red_skip_intro S' p fi hb
        (by rw [edgeOK_mode_congr S S' (p+1) fi _ hmd]; exact h1) (ih hq' none d h2)

/-- the pushed-down child edges of a reduced target have reduced targets -/
theorem Red_cofactorE (S : Shape) (p : Nat) (fi fj : Option Nat) (e : Int × EDD)
    (hr : Red S (p+1) fi e.2 = true) (i : Nat) (hi : i < S.size (p+1)) :
    Red S p (some i) (cofactorE S (p+1) fj e i).2 = true := by
  obtain ⟨v, d⟩ := e
  rcases storedAt_cases (p+1) d with ⟨cs, rfl⟩ | hd
  · obtain ⟨_, hloc, hch⟩ := (Red_succ_node S p fi cs).mp hr
    have hlen := ((evLocalOK_iff _ _ _ _ _).mp hloc).1
    rw [cofactorE_node]
    exact hch i (by rw [hlen]; exact hi)
  · obtain ⟨_, h2⟩ := Red_succ_skip S p fi hd hr
    rw [cofactorE_skip S (p+1) fj (v, d) i hd]
    rcases skipE_cases S (p+1) fj (v, d) i with h | h <;> rw [h]
    · exact Red_none_some S p i d h2
    · exact Red_inf S p (some i)

/-! ### `mkNodeEV` does not look at the value of an edge to the transparent terminal -/

/-- an edge to the transparent terminal with its value reset to 0 -/
def cleanE (e : Int × EDD) : Int × EDD := if isInf e.2 then dflt else e

theorem cleanE_snd (e : Int × EDD) : (cleanE e).2 = e.2 := by
  unfold cleanE
  cases hi : isInf e.2 with
  | true => simp only [if_true]; exact ((isInf_iff _).mp hi).symm
  | false => simp

theorem normE_cleanE (m : Int) (e : Int × EDD) : normE m (cleanE e) = normE m e := by
  unfold cleanE
  cases hi : isInf e.2 with
  | true => simp only [if_true, normE_dflt]; unfold normE; rw [hi]; rfl
  | false => simp

theorem evMin_cleanE (cs : List (Int × EDD)) : evMin (cs.map cleanE) = evMin cs := by
  induction cs with
  | nil => rfl
  | cons e cs ih =>
    simp only [List.map_cons, evMin, cleanE_snd, ih]
    cases hi : isInf e.2 with
    | true => rfl
    | false =>
      have : (cleanE e).1 = e.1 := by unfold cleanE; rw [hi]; rfl
      rw [this]

theorem evNorm_cleanE (m : Int) (cs : List (Int × EDD)) :
    evNorm m (cs.map cleanE) = evNorm m cs := by
  unfold evNorm
  rw [List.map_map]
  apply List.map_congr_left
  intro e _
  exact normE_cleanE m e

theorem all_inf_cleanE (cs : List (Int × EDD)) :
    (cs.map cleanE).all (fun e => isInf e.2) = cs.all (fun e => isInf e.2) := by
  rw [List.all_map]
  apply List.all_congr rfl
  intro e
  show isInf (cleanE e).2 = isInf e.2
  rw [cleanE_snd]

theorem mkNodeEV_cleanE (S : Shape) (k : Nat) (fi : Option Nat) (cs : List (Int × EDD)) :
    mkNodeEV S k fi (cs.map cleanE) = mkNodeEV S k fi cs := by
  unfold mkNodeEV
  simp only [evMin_cleanE, evNorm_cleanE, all_inf_cleanE]

theorem getD_map_cleanE (cs : List (Int × EDD)) (i : Nat) :
    (cs.map cleanE).getD i dflt = cleanE (cs.getD i dflt) := by
  simp only [List.getD_eq_getElem?_getD, List.getElem?_map]
  cases cs[i]? with
  | none => rfl
  | some e => rfl

/-- `mkNodeEV_red` for children of which only the TARGETS are known to be reduced (pushed-down
    edges `cofactorE` may carry a non-zero value on the transparent terminal; `normalize_evplus`
    resets it) -/
theorem mkNodeEV_red_targets (S : Shape) (hS : S.WF) (k : Nat) (fi : Option Nat)
    (cs : List (Int × EDD)) (hlen : cs.length = S.size (k+1))
    (hch : ∀ i, i < cs.length → Red S k (some i) (cs.getD i dflt).2 = true)
    (hfi : fi = none → S.mode (k+1) ≠ .ident) :
    RedEdge S (k+1) fi (mkNodeEV S (k+1) fi cs) = true := by
  rw [← mkNodeEV_cleanE]
  apply mkNodeEV_red S hS k fi _ (by rw [List.length_map]; exact hlen) _ hfi
  intro i hi
  rw [List.length_map] at hi
  rw [getD_map_cleanE]
  refine (RedEdge_iff _ _ _ _).mpr ⟨by rw [cleanE_snd]; exact hch i hi, ?_⟩
  intro hinf
  rw [cleanE_snd] at hinf
  unfold cleanE
  rw [(isInf_iff _).mpr hinf]
  rfl

/-! ### Generic helpers: `mkNodeEV` over a tabulated child vector -/

theorem mkNodeEV_map_Below (S : Shape) (k : Nat) (fi : Option Nat) (n : Nat)
    (g : Nat → Int × EDD) (h : ∀ i, i < n → Below k (g i).2) :
    Below (k+1) (mkNodeEV S (k+1) fi ((List.range n).map g)).2 := by
  apply mkNodeEV_Below
  intro e he
  obtain ⟨i, hi, rfl⟩ := List.mem_map.mp he
  exact h i (List.mem_range.mp hi)

theorem mkNodeEV_map_eval (S : Shape) (k : Nat) (fi : Option Nat) (n : Nat)
    (g : Nat → Int × EDD) (x : Assign) (hn : n = S.size (k+1)) (hx : x (k+1) < n)
    (hb : ∀ i, i < n → Below k (g i).2)
    (hfi : S.mode (k+1) = .ident → fi = some (x (k+2))) :
    evalEdge S (k+1) (mkNodeEV S (k+1) fi ((List.range n).map g)) x
      = evalEdge S k (g (x (k+1))) x := by
  rw [mkNodeEV_eval S k fi _ x (by rw [DD.length_map_range, hn]) (by rw [← hn]; exact hx)
      (fun e he => by
        obtain ⟨i, hi, rfl⟩ := List.mem_map.mp he
        exact hb i (List.mem_range.mp hi)) hfi,
    eval_succ_node, DD.getD_map_range _ _ _ hx]

theorem mkNodeEV_map_red (S : Shape) (hS : S.WF) (k : Nat) (fi : Option Nat) (n : Nat)
    (g : Nat → Int × EDD) (hn : n = S.size (k+1))
    (hch : ∀ i, i < n → Red S k (some i) (g i).2 = true)
    (hfi : fi = none → S.mode (k+1) ≠ .ident) :
    RedEdge S (k+1) fi (mkNodeEV S (k+1) fi ((List.range n).map g)) = true := by
  apply mkNodeEV_red_targets S hS k fi _ (by rw [DD.length_map_range, hn]) _ hfi
  intro i hi
  rw [DD.length_map_range] at hi
  rw [DD.getD_map_range _ _ _ hi]
  exact hch i hi

/-! ### The swap -/

/-- new lower node (`low_nb`): position `k`, entries `sum_evs[i][j]` = pushed-down values -/
def swapLowE (S S' : Shape) (k : Nat) (fi : Option Nat) (e : Int × EDD) (j : Nat) : Int × EDD :=
  mkNodeEV S' k (some j) ((List.range (S'.size k)).map fun i =>
    cofactorE S k (some i) (cofactorE S (k+1) fi e i) j)

/-- The adjacent swap on EV+ edges, read from position `p` downwards
    (`evmdd_pluslong::swapAdjacentVariables`): the positions `k+1, k` are rebuilt with
    `mkNodeEV` from the pushed-down grandchild edges `e[i][j] ↦ [j][i]`; nodes above are rebuilt
    over their swapped children; everything below `k` is untouched. -/
def swapAdjE (S S' : Shape) (k : Nat) : Nat → Option Nat → (Int × EDD) → (Int × EDD)
  | 0, _, e => e
  | p+1, fi, e =>
    if p + 1 ≤ k then e
    else if p = k then
      mkNodeEV S' (k+1) fi ((List.range (S'.size (k+1))).map fun j => swapLowE S S' k fi e j)
    else
      mkNodeEV S' (p+1) fi ((List.range (S'.size (p+1))).map fun i =>
        swapAdjE S S' k p (some i) (cofactorE S (p+1) fi e i))

theorem swapAdjE_at (S S' : Shape) (k : Nat) (fi : Option Nat) (e : Int × EDD) :
    swapAdjE S S' k (k+1) fi e =
      mkNodeEV S' (k+1) fi ((List.range (S'.size (k+1))).map fun j => swapLowE S S' k fi e j) := by
  rw [swapAdjE, if_neg (by omega), if_pos rfl]

theorem swapAdjE_above (S S' : Shape) (k : Nat) {p : Nat} (h : k + 1 ≤ p) (fi : Option Nat)
    (e : Int × EDD) :
    swapAdjE S S' k (p+1) fi e =
      mkNodeEV S' (p+1) fi ((List.range (S'.size (p+1))).map fun i =>
        swapAdjE S S' k p (some i) (cofactorE S (p+1) fi e i)) := by
  rw [swapAdjE, if_neg (by omega), if_neg (by omega)]

/-- the doubly pushed-down edge of a reduced target is below the pair -/
theorem cof2E_red (S : Shape) (k' : Nat) (fi : Option Nat) (e : Int × EDD)
    (hr : Red S (k'+1+1) fi e.2 = true) (i j : Nat) (hi : i < S.size (k'+1+1))
    (hj : j < S.size (k'+1)) :
    Red S k' (some j) (cofactorE S (k'+1) (some i) (cofactorE S (k'+1+1) fi e i) j).2 = true :=
  Red_cofactorE S k' (some i) (some i) _ (Red_cofactorE S (k'+1) fi fi e hr i hi) j hj

/-- The swapped edge is a reduced edge of the swapped shape (from any position above the pair);
    only the TARGET of the input edge has to be reduced. -/
theorem swapAdjE_red_above (S S' : Shape) (k : Nat) (h : SwapShape S S' k) (hS : S.WF)
    (hn : NoIdent S) (hk : 1 ≤ k) (hk1 : k + 1 ≤ S.top) :
    ∀ (n : Nat) (fi : Option Nat) (e : Int × EDD), Red S (k+1+n) fi e.2 = true →
      RedEdge S' (k+1+n) fi (swapAdjE S S' k (k+1+n) fi e) = true := by
  have hn' := h.noIdent hn
  have hS' : S'.WF := h.wf hS hn hk hk1
  intro n
  induction n with
  | zero =>
    intro fi e hr
    obtain ⟨k', rfl⟩ : ∃ k', k = k'+1 := ⟨k-1, by omega⟩
    show RedEdge S' (k'+1+1) fi (swapAdjE S S' (k'+1) (k'+1+1) fi e) = true
    rw [swapAdjE_at]
    apply mkNodeEV_map_red S' hS' (k'+1) fi _ _ rfl _ (fun _ => hn' _)
    intro j hj
    refine ((RedEdge_iff _ _ _ _).mp ?_).1
    unfold swapLowE
    apply mkNodeEV_map_red S' hS' k' (some j) _ _ rfl _ (fun e => by cases e)
    intro i hi
    apply Red_shape_congr S S' k'
      (fun q hq => ⟨h.size_other q (by omega) (by omega), h.mode q⟩)
    rw [Red_fi_irrel S k' (some i) (some j) _ (hn _)]
    exact cof2E_red S k' fi e hr i j (by rw [← h.size_lo]; exact hi) (by rw [← h.size_hi]; exact hj)
  | succ n ih =>
    intro fi e hr
    have hp : k + 1 + (n + 1) = (k + 1 + n) + 1 := by omega
    rw [hp] at hr ⊢
    have hsz : S'.size (k+1+n+1) = S.size (k+1+n+1) := h.size_other _ (by omega) (by omega)
    rw [swapAdjE_above S S' k (by omega)]
    apply mkNodeEV_map_red S' hS' (k+1+n) fi _ _ rfl _ (fun _ => hn' _)
    intro i hi
    exact ((RedEdge_iff _ _ _ _).mp
      (ih (some i) _ (Red_cofactorE S (k+1+n) fi fi e hr i (by rw [← hsz]; exact hi)))).1

/-- The rebuilt pair denotes the function with the two positions exchanged. -/
theorem swapAdjE_eval_at (S S' : Shape) (k : Nat) (h : SwapShape S S' k)
    (hn : NoIdent S) (hk : 1 ≤ k) (hk1 : k + 1 ≤ S.top) (fi : Option Nat) (e : Int × EDD)
    (hr : Red S (k+1) fi e.2 = true) (a : Assign) (ha : Assign.Valid S' a) :
    evalEdge S' (k+1) (swapAdjE S S' k (k+1) fi e) a = evalEdge S (k+1) e (swapA k a) := by
  obtain ⟨k', rfl⟩ : ∃ k', k = k'+1 := ⟨k-1, by omega⟩
  have hn' := h.noIdent hn
  have ha1 : a (k'+1+1) < S'.size (k'+1+1) := ha _ (by omega) (by rw [h.top]; exact hk1)
  have ha0 : a (k'+1) < S'.size (k'+1) := ha _ (by omega) (by rw [h.top]; omega)
  have hcof : ∀ i j, i < S'.size (k'+1) → j < S'.size (k'+1+1) →
      Below k' (cofactorE S (k'+1) (some i) (cofactorE S (k'+1+1) fi e i) j).2 := by
    intro i j hi hj
    exact Red_Below S k' (some j) _
      (cof2E_red S k' fi e hr i j (by rw [← h.size_lo]; exact hi) (by rw [← h.size_hi]; exact hj))
  have hlow : ∀ j, j < S'.size (k'+1+1) → Below (k'+1) (swapLowE S S' (k'+1) fi e j).2 := by
    intro j hj
    unfold swapLowE
    exact mkNodeEV_map_Below S' k' _ _ _ (fun i hi => hcof i j hi hj)
  rw [swapAdjE_at]
  rw [mkNodeEV_map_eval S' (k'+1) fi _ (fun j => swapLowE S S' (k'+1) fi e j) a rfl ha1 hlow
      (fun hm => absurd hm (hn' _))]
  unfold swapLowE
  rw [mkNodeEV_map_eval S' k' _ _ _ a rfl ha0 (fun i hi => hcof i _ hi ha1)
      (fun hm => absurd hm (hn' _))]
  rw [evalEdge_mode_congr S S' h.mode]
  rw [evalEdge_congr S k' _ a (swapA (k'+1) a)
      (fun p hp => (swapA_other (k'+1) a (by omega) (by omega)).symm)
      (fun hm => absurd hm (hn _))]
  rw [cofactorE_eval S (k'+1) fi e (swapA (k'+1) a) (fun hm => absurd hm (hn _)),
    cofactorE_eval S k' (some (a (k'+1))) _ (swapA (k'+1) a) (fun hm => absurd hm (hn _)),
    swapA_hi, swapA_lo]

/-- `swapAdjE` denotes the function with positions `k`, `k+1` exchanged (from any position above
    the pair). -/
theorem swapAdjE_eval_above (S S' : Shape) (k : Nat) (h : SwapShape S S' k) (hS : S.WF)
    (hn : NoIdent S) (hk : 1 ≤ k) (hk1 : k + 1 ≤ S.top) :
    ∀ (n : Nat) (fi : Option Nat) (e : Int × EDD), k + 1 + n ≤ S.top →
      Red S (k+1+n) fi e.2 = true → ∀ (a : Assign), Assign.Valid S' a →
      evalEdge S' (k+1+n) (swapAdjE S S' k (k+1+n) fi e) a
        = evalEdge S (k+1+n) e (swapA k a) := by
  intro n
  induction n with
  | zero =>
    intro fi e _ hr a ha
    exact swapAdjE_eval_at S S' k h hn hk hk1 fi e hr a ha
  | succ n ih =>
    intro fi e ht hr a ha
    have hn' := h.noIdent hn
    have hp : k + 1 + (n + 1) = (k + 1 + n) + 1 := by omega
    rw [hp] at hr ⊢
    have hsz : S'.size (k+1+n+1) = S.size (k+1+n+1) := h.size_other _ (by omega) (by omega)
    have hax : a (k+1+n+1) < S'.size (k+1+n+1) := ha _ (by omega) (by rw [h.top]; omega)
    have hrc : ∀ i, i < S'.size (k+1+n+1) →
        Red S (k+1+n) (some i) (cofactorE S (k+1+n+1) fi e i).2 = true :=
      fun i hi => Red_cofactorE S (k+1+n) fi fi e hr i (by rw [← hsz]; exact hi)
    rw [swapAdjE_above S S' k (by omega)]
    rw [mkNodeEV_map_eval S' (k+1+n) fi _ _ a rfl hax
        (fun i hi => Red_Below S' (k+1+n) (some i) _
          ((RedEdge_iff _ _ _ _).mp
            (swapAdjE_red_above S S' k h hS hn hk hk1 n (some i) _ (hrc i hi))).1)
        (fun hm => absurd hm (hn' _))]
    rw [ih (some (a (k+1+n+1))) _ (by omega) (hrc _ hax) a ha]
    rw [cofactorE_eval S (k+1+n) fi e (swapA k a) (fun hm => absurd hm (hn _)),
      swapA_other k a (by omega) (by omega)]

end EDD

/-! ## Part D — orders and trees together: relations and EV+ sets under a schedule -/

namespace Reorder
open DD
variable {α : Type} [DecidableEq α]

/-- (0-based) index in the order of the variable that owns position `p ≥ 1` of a relation:
    positions `2i+2` (unprimed) and `2i+1` (primed) belong to level `i+1` -/
def varIdx (p : Nat) : Nat := (p + 1) / 2 - 1

/-- shape of a relation forest over variables with sizes `dom`, whose level `i+1` holds variable
    `o[i]`: rule `mu` at the unprimed (even) positions, `mp` at the primed (odd) positions.
    `(red, red)` = fully reduced, `(none, none)` = quasi reduced, `(red, ident)` = identity
    reduced. -/
def relShapeOf (dom : Nat → Nat) (mu mp : Mode) (o : Order) : Shape where
  top := 2 * o.length
  size := fun p => if p = 0 then 1 else dom (o.getD (varIdx p) 0)
  mode := fun p => if p % 2 = 1 ∧ p ≤ 2 * o.length then mp else mu

/-- the assignment of positions induced by an assignment of the VARIABLES under order `o`:
    `v x` is the unprimed ("from") value of variable `x`, `v' x` its primed ("to") value -/
def relVarAssign (o : Order) (v v' : Nat → Nat) : Assign :=
  fun p => if p = 0 then 0
           else if p % 2 = 0 then v (o.getD (varIdx p) 0) else v' (o.getD (varIdx p) 0)

/-- the admissible pairs of rules: the unprimed rule is never `ident`, and `ident` primed
    positions sit below `red` unprimed ones -/
def RelRule (mu mp : Mode) : Prop := mu ≠ .ident ∧ (mp = .ident → mu = .red)

theorem varIdx_0 (i : Nat) : varIdx (2*i+1) = i := by unfold varIdx; omega
theorem varIdx_1 (i : Nat) : varIdx (2*i+1+1) = i := by unfold varIdx; omega
theorem varIdx_2 (i : Nat) : varIdx (2*i+1+1+1) = i+1 := by unfold varIdx; omega
theorem varIdx_3 (i : Nat) : varIdx (2*i+1+1+1+1) = i+1 := by unfold varIdx; omega
theorem varIdx_other (i p : Nat) (hp : p ≠ 0) (h0 : p ≠ 2*i+1) (h1 : p ≠ 2*i+1+1)
    (h2 : p ≠ 2*i+1+1+1) (h3 : p ≠ 2*i+1+1+1+1) : varIdx p ≠ i ∧ varIdx p ≠ i+1 := by
  unfold varIdx; omega

theorem relShapeOf_size (dom : Nat → Nat) (mu mp : Mode) (o : Order) {p : Nat} (hp : p ≠ 0) :
    (relShapeOf dom mu mp o).size p = dom (o.getD (varIdx p) 0) := by
  show (if p = 0 then 1 else dom (o.getD (varIdx p) 0)) = _
  rw [if_neg hp]

theorem relShapeOf_mode_even (dom : Nat → Nat) (mu mp : Mode) (o : Order) {p : Nat}
    (hp : p % 2 = 0) : (relShapeOf dom mu mp o).mode p = mu := by
  show (if p % 2 = 1 ∧ p ≤ 2 * o.length then mp else mu) = mu
  rw [if_neg (by omega)]

theorem relShapeOf_mode_len (dom : Nat → Nat) (mu mp : Mode) (o o' : Order)
    (hl : o'.length = o.length) (p : Nat) :
    (relShapeOf dom mu mp o').mode p = (relShapeOf dom mu mp o).mode p := by
  show (if p % 2 = 1 ∧ p ≤ 2 * o'.length then mp else mu)
    = (if p % 2 = 1 ∧ p ≤ 2 * o.length then mp else mu)
  rw [hl]

theorem relShapeOf_mode_shift (dom : Nat → Nat) (mu mp : Mode) (o : Order) {p : Nat}
    (hp : p + 2 ≤ 2 * o.length) :
    (relShapeOf dom mu mp o).mode (p+1+1) = (relShapeOf dom mu mp o).mode p := by
  show (if (p+1+1) % 2 = 1 ∧ p+1+1 ≤ 2 * o.length then mp else mu)
    = (if p % 2 = 1 ∧ p ≤ 2 * o.length then mp else mu)
  by_cases h : p % 2 = 1
  · rw [if_pos ⟨by omega, by omega⟩, if_pos ⟨h, by omega⟩]
  · rw [if_neg (fun e => h (by omega)), if_neg (fun e => h e.1)]

/-- exchanging the variables at levels `i+1`, `i+2` of a relation exchanges the two position
    pairs `(2i+4, 2i+3)` and `(2i+2, 2i+1)` -/
theorem relShapeOf_swap (dom : Nat → Nat) (mu mp : Mode) (hmu : mu ≠ .ident) (o : Order) (i : Nat)
    (hi : i + 1 < o.length) :
    RelSwapShape (relShapeOf dom mu mp o) (relShapeOf dom mu mp (swapAdj i o)) (2*i+1) where
  base := by omega
  fits := by show 2*i+1+1+1+1 ≤ 2 * o.length; omega
  top := by show 2 * (swapAdj i o).length = 2 * o.length; rw [swapAdj_length]
  size0 := by
    rw [relShapeOf_size _ _ _ _ (by omega), relShapeOf_size _ _ _ _ (by omega), varIdx_0, varIdx_2,
      swapAdj_getD_lo i o 0 hi]
  size1 := by
    rw [relShapeOf_size _ _ _ _ (by omega), relShapeOf_size _ _ _ _ (by omega), varIdx_1, varIdx_3,
      swapAdj_getD_lo i o 0 hi]
  size2 := by
    rw [relShapeOf_size _ _ _ _ (by omega), relShapeOf_size _ _ _ _ (by omega), varIdx_2, varIdx_0,
      swapAdj_getD_hi i o 0 hi]
  size3 := by
    rw [relShapeOf_size _ _ _ _ (by omega), relShapeOf_size _ _ _ _ (by omega), varIdx_3, varIdx_1,
      swapAdj_getD_hi i o 0 hi]
  size_other := by
    intro p h0 h1 h2 h3
    by_cases hp : p = 0
    · subst hp; rfl
    · obtain ⟨e1, e2⟩ := varIdx_other i p hp h0 h1 h2 h3
      rw [relShapeOf_size _ _ _ _ hp, relShapeOf_size _ _ _ _ hp,
        swapAdj_getD_other i o 0 _ e1 e2]
  mode0 := by
    rw [relShapeOf_mode_len dom mu mp o _ (swapAdj_length i o)]
    exact (relShapeOf_mode_shift dom mu mp o (p := 2*i+1) (by omega)).symm
  mode1 := by
    rw [relShapeOf_mode_len dom mu mp o _ (swapAdj_length i o)]
    exact (relShapeOf_mode_shift dom mu mp o (p := 2*i+1+1) (by omega)).symm
  mode2 := by
    rw [relShapeOf_mode_len dom mu mp o _ (swapAdj_length i o)]
    exact relShapeOf_mode_shift dom mu mp o (p := 2*i+1) (by omega)
  mode3 := by
    rw [relShapeOf_mode_len dom mu mp o _ (swapAdj_length i o)]
    exact relShapeOf_mode_shift dom mu mp o (p := 2*i+1+1) (by omega)
  mode_other := fun p _ _ _ _ => relShapeOf_mode_len dom mu mp o _ (swapAdj_length i o) p
  unprimed_lo := by rw [relShapeOf_mode_even _ _ _ _ (by omega)]; exact hmu
  unprimed_hi := by rw [relShapeOf_mode_even _ _ _ _ (by omega)]; exact hmu
  below := by rw [relShapeOf_mode_even _ _ _ _ (by omega)]; exact hmu

theorem relShapeOf_wf (dom : Nat → Nat) (mu mp : Mode) (hr : RelRule mu mp) (o : Order)
    (hd : ∀ x, 2 ≤ dom x) : (relShapeOf dom mu mp o).WF where
  size_ge := by
    intro p h1 _
    rw [relShapeOf_size _ _ _ _ (by omega)]
    exact hd _
  ident_below_red := by
    intro p hp
    have hp' : (if p % 2 = 1 ∧ p ≤ 2 * o.length then mp else mu) = Mode.ident := hp
    by_cases hc : p % 2 = 1 ∧ p ≤ 2 * o.length
    · rw [if_pos hc] at hp'
      have htop : (relShapeOf dom mu mp o).top = 2 * o.length := rfl
      refine ⟨by omega, by rw [htop]; omega, ?_, ?_⟩
      · rw [relShapeOf_mode_even _ _ _ _ (by omega)]; exact hr.2 hp'
      · rw [relShapeOf_size _ _ _ _ (by omega), relShapeOf_size _ _ _ _ (by omega)]
        have : varIdx (p+1) = varIdx p := by unfold varIdx; omega
        rw [this]
    · rw [if_neg hc] at hp'; exact absurd hp' hr.1

theorem relShapeOf_top_not_ident (dom : Nat → Nat) (mu mp : Mode) (hmu : mu ≠ .ident) (o : Order) :
    (relShapeOf dom mu mp o).mode (relShapeOf dom mu mp o).top ≠ .ident := by
  rw [relShapeOf_mode_even _ _ _ _ (by show (2 * o.length) % 2 = 0; omega)]; exact hmu

theorem relVarAssign_odd (o : Order) (v v' : Nat → Nat) {p : Nat} (hp : p % 2 = 1) :
    relVarAssign o v v' p = v' (o.getD (varIdx p) 0) := by
  unfold relVarAssign
  rw [if_neg (by omega), if_neg (by omega)]

theorem relVarAssign_even (o : Order) (v v' : Nat → Nat) {p : Nat} (hp0 : p ≠ 0) (hp : p % 2 = 0) :
    relVarAssign o v v' p = v (o.getD (varIdx p) 0) := by
  unfold relVarAssign
  rw [if_neg hp0, if_pos hp]

/-- renaming the positions of the new order's assignment gives the old order's assignment: both
    are the same assignment of the VARIABLES -/
theorem relVarAssign_swap (o : Order) (v v' : Nat → Nat) (i : Nat) (hi : i + 1 < o.length) :
    relSwapA (2*i+1) (relVarAssign (swapAdj i o) v v') = relVarAssign o v v' := by
  funext p
  by_cases h0 : p = 2*i+1
  · subst h0
    rw [relSwapA_0, relVarAssign_odd _ _ _ (by omega), relVarAssign_odd _ _ _ (by omega),
      varIdx_2, varIdx_0, swapAdj_getD_hi i o 0 hi]
  · by_cases h1 : p = 2*i+1+1
    · subst h1
      rw [relSwapA_1, relVarAssign_even _ _ _ (by omega) (by omega),
        relVarAssign_even _ _ _ (by omega) (by omega), varIdx_3, varIdx_1,
        swapAdj_getD_hi i o 0 hi]
    · by_cases h2 : p = 2*i+1+1+1
      · subst h2
        rw [relSwapA_2, relVarAssign_odd _ _ _ (by omega), relVarAssign_odd _ _ _ (by omega),
          varIdx_0, varIdx_2, swapAdj_getD_lo i o 0 hi]
      · by_cases h3 : p = 2*i+1+1+1+1
        · subst h3
          rw [relSwapA_3, relVarAssign_even _ _ _ (by omega) (by omega),
            relVarAssign_even _ _ _ (by omega) (by omega), varIdx_1, varIdx_3,
            swapAdj_getD_lo i o 0 hi]
        · rw [relSwapA_other _ _ h0 h1 h2 h3]
          by_cases hp : p = 0
          · subst hp; rfl
          · obtain ⟨e1, e2⟩ := varIdx_other i p hp h0 h1 h2 h3
            unfold relVarAssign
            rw [swapAdj_getD_other i o 0 _ e1 e2]

theorem relVarAssign_valid (dom : Nat → Nat) (mu mp : Mode) (o : Order) (v v' : Nat → Nat)
    (hv : ∀ x, v x < dom x) (hv' : ∀ x, v' x < dom x) :
    Assign.Valid (relShapeOf dom mu mp o) (relVarAssign o v v') := by
  intro p h1 _
  rw [relShapeOf_size _ _ _ _ (by omega)]
  by_cases hp : p % 2 = 0
  · rw [relVarAssign_even _ _ _ (by omega) hp]; exact hv _
  · rw [relVarAssign_odd _ _ _ (by omega)]; exact hv' _

/-- one library swap on the pair (order, relation tree): `swapAdjacentVariables(i+1)` -/
def relSwapStep (dom : Nat → Nat) (mu mp : Mode) (zero : α) (i : Nat) (o : Order) (d : DD α) :
    Order × DD α :=
  (swapAdj i o,
   swapVarRel (relShapeOf dom mu mp o) (relShapeOf dom mu mp (swapAdj i o)) zero (i+1) d)

/-- a whole reordering of a relation forest: any list of adjacent variable swaps -/
def reorderRel (dom : Nat → Nat) (mu mp : Mode) (zero : α) :
    List Nat → Order → DD α → Order × DD α
  | [], o, d => (o, d)
  | i :: is, o, d =>
    reorderRel dom mu mp zero is (relSwapStep dom mu mp zero i o d).1
      (relSwapStep dom mu mp zero i o d).2

theorem reorderRel_order (dom : Nat → Nat) (mu mp : Mode) (zero : α) :
    ∀ (is : List Nat) (o : Order) (d : DD α),
      (reorderRel dom mu mp zero is o d).1 = applySchedule is o
  | [], _, _ => rfl
  | i :: is, o, d => reorderRel_order dom mu mp zero is _ _

/-- one library swap on the pair (order, EV+ edge) -/
def swapStepE (dom : Nat → Nat) (m : Mode) (i : Nat) (o : Order) (e : Int × EDD) :
    Order × (Int × EDD) :=
  (swapAdj i o,
   EDD.swapAdjE (shapeOf dom m o) (shapeOf dom m (swapAdj i o)) (i+1) o.length none e)

/-- a whole reordering of an EV+ set forest: any list of adjacent swaps -/
def reorderE (dom : Nat → Nat) (m : Mode) : List Nat → Order → (Int × EDD) → Order × (Int × EDD)
  | [], o, e => (o, e)
  | i :: is, o, e => reorderE dom m is (swapStepE dom m i o e).1 (swapStepE dom m i o e).2

theorem reorderE_order (dom : Nat → Nat) (m : Mode) :
    ∀ (is : List Nat) (o : Order) (e : Int × EDD), (reorderE dom m is o e).1 = applySchedule is o
  | [], _, _ => rfl
  | i :: is, o, e => reorderE_order dom m is _ _

end Reorder

/-! ## Property theorems -/

namespace DD
variable {α : Type} [DecidableEq α]

/-- C13/relations, function (block form): the swapped tree, read from the top, denotes the old
    function at the assignment with the two position pairs exchanged. -/
theorem relSwapDD_eval_top (S S' : Shape) (zero : α) (b : Nat) (h : RelSwapShape S S' b)
    (htop : S.mode S.top ≠ .ident) (d : DD α) (hw : WFTree d) (hb : Below S.top d)
    (a : Assign) (ha : Assign.Valid S' a) :
    eval S' zero S'.top (relSwapDD S S' zero b S.top none d) a
      = eval S zero S.top d (relSwapA b a) := by
  obtain ⟨n, hn'⟩ : ∃ n, S.top = b + 1 + 1 + 1 + n := ⟨S.top - (b+1+1+1), by have := h.fits; omega⟩
  rw [h.top]
  rw [hn'] at htop hb ⊢
  exact relSwapDD_eval_above S S' zero b h n none d (by omega) hw hb a ha
    (fun hm => absurd hm htop)

/-- C13/relations, canonical form (block form): the swapped tree of a reduced tree is reduced
    for the target shape. -/
theorem relSwapDD_red_top (S S' : Shape) (zero : α) (b : Nat) (h : RelSwapShape S S' b)
    (hS : S.WF) (d : DD α) (hr : Red S zero S.top none d = true) :
    Red S' zero S'.top none (relSwapDD S S' zero b S.top none d) = true := by
  obtain ⟨n, hn'⟩ : ∃ n, S.top = b + 1 + 1 + 1 + n := ⟨S.top - (b+1+1+1), by have := h.fits; omega⟩
  have htop : S.mode S.top ≠ .ident := hS.top_not_ident (Nat.le_refl _)
  rw [h.top]
  rw [hn'] at htop hr ⊢
  exact relSwapDD_red_above S S' zero b h (h.wf hS) n none d (fun _ => htop) hr

/-- C13/relations (`swapVarRel_eval`): after `swapAdjacentVariables(k)` in a relation forest —
    fully, quasi or identity reduced — every tree denotes the old function with the values of
    the position pairs `(2k+2, 2k+1)` and `(2k, 2k-1)` exchanged: the two variables have changed
    places, the relation between the (renamed) variables is the same.  Shape hypotheses:
    `RelSwapShape` (sizes and modes of the two pairs exchanged, unprimed positions and the
    position below the block not `ident`) and a non-`ident` top position (implied by `S.WF`). -/
theorem swapVarRel_eval (S S' : Shape) (zero : α) (k : Nat) (h : RelSwapShape S S' (2*k-1))
    (htop : S.mode S.top ≠ .ident) (d : DD α) (hw : WFTree d) (hb : Below S.top d)
    (a : Assign) (ha : Assign.Valid S' a) :
    eval S' zero S'.top (swapVarRel S S' zero k d) a
      = eval S zero S.top d (relSwapA (2*k-1) a) :=
  relSwapDD_eval_top S S' zero (2*k-1) h htop d hw hb a ha

/-- C13/relations (`swapVarRel_red`): the swapped tree of a reduced tree is reduced in the TARGET
    shape, whose sizes and modes of the two pairs are exchanged — including the identity rule:
    no singleton that spells an identity survives at the new `ident` positions, although the
    primed positions now have the other variable's size. -/
theorem swapVarRel_red (S S' : Shape) (zero : α) (k : Nat) (h : RelSwapShape S S' (2*k-1))
    (hS : S.WF) (d : DD α) (hr : Red S zero S.top none d = true) :
    Red S' zero S'.top none (swapVarRel S S' zero k d) = true :=
  relSwapDD_red_top S S' zero (2*k-1) h hS d hr

/-- C13/relations (`swapVarRel_canonical`): the swapped tree is THE canonical tree of the swapped
    function (by `DD.canon`): whatever `swapAdjacentVariablesByVarSwap` builds (renumbering,
    `swapNodes`, duplicate resolution), if it is reduced for the target shape and denotes the
    renamed function, it is this tree. -/
theorem swapVarRel_canonical (S S' : Shape) (zero : α) (k : Nat) (h : RelSwapShape S S' (2*k-1))
    (hS : S.WF) (d : DD α) (hr : Red S zero S.top none d = true) (r : DD α)
    (hr' : Red S' zero S'.top none r = true)
    (hd : ∀ a, Assign.Valid S' a →
      eval S' zero S'.top r a = eval S zero S.top d (relSwapA (2*k-1) a)) :
    r = swapVarRel S S' zero k d := by
  obtain ⟨hb, hw⟩ := Red_WFTree S zero S.top none d hr
  apply (canon S' zero (h.wf hS) r _ hr' (swapVarRel_red S S' zero k h hS d hr)).mp
  intro a ha
  rw [hd a ha, swapVarRel_eval S S' zero k h (hS.top_not_ident (Nat.le_refl _)) d hw hb a ha]

/-- C13/relations (`swapVarRel_involutive`): swapping the same two variables twice restores
    exactly the original tree. -/
theorem swapVarRel_involutive (S S' : Shape) (zero : α) (k : Nat) (h : RelSwapShape S S' (2*k-1))
    (hS : S.WF) (d : DD α) (hr : Red S zero S.top none d = true) :
    swapVarRel S' S zero k (swapVarRel S S' zero k d) = d := by
  have hS' : S'.WF := h.wf hS
  obtain ⟨hb, hw⟩ := Red_WFTree S zero S.top none d hr
  symm
  apply swapVarRel_canonical S' S zero k h.symm hS' _ (swapVarRel_red S S' zero k h hS d hr) d hr
  intro a ha
  rw [swapVarRel_eval S S' zero k h (hS.top_not_ident (Nat.le_refl _)) d hw hb _ (h.symm.valid ha),
    relSwapA_relSwapA]

/-- C13/relations, `swapAdjacentVariablesByLevelSwap` (upgrade of
    `relSwap_four_level_swaps_partial` to trees): for relation forests WITHOUT `ident` positions
    whose rule is the same for both pairs (fully-fully, quasi-quasi) the composition of the four
    adjacent position swaps middle / top / bottom / middle is exactly the variable swap.

    This route cannot be used for identity-reduced relations (the code throws
    `INVALID_OPERATION`; its `swapAdjacentLevels` is moreover `NOT_IMPLEMENTED`): the
    intermediate orders `x y x' y'`, `y x x' y'`, `y x y' x'` separate a primed position from its
    unprimed partner, but the meaning of a skipped `ident` position ("same value as the position
    directly above", `DD.eval`) and the identity pattern (`edgeOK`) refer to the position directly
    above, which must be the `red` partner of the same size (`Shape.WF.ident_below_red`).  The
    intermediate shapes are not well formed — for variables of different sizes the comparison
    would even be between values of different ranges — so neither `swapAdjDD` (which needs
    `NoIdent`, see `SwapShape.wf`) nor canonicity applies to the intermediate forests. -/
theorem levelSwap4_eq_swapVarRel (S S1 S2 S3 S4 : Shape) (zero : α) (k : Nat)
    (h1 : SwapShape S S1 (2*k-1+1)) (h2 : SwapShape S1 S2 (2*k-1+1+1))
    (h3 : SwapShape S2 S3 (2*k-1)) (h4 : SwapShape S3 S4 (2*k-1+1))
    (hS : S.WF) (hn : NoIdent S) (hk : 1 ≤ k) (hf : 2*k-1+1+1+1 ≤ S.top)
    (hm0 : S.mode (2*k-1+1+1) = S.mode (2*k-1)) (hm1 : S.mode (2*k-1+1+1+1) = S.mode (2*k-1+1))
    (d : DD α) (hr : Red S zero S.top none d = true) :
    levelSwap4 S S1 S2 S3 S4 zero (2*k-1) d = swapVarRel S S4 zero k d := by
  have hb : 1 ≤ 2*k-1 := by omega
  have h := RelSwapShape.of_levelSwaps h1 h2 h3 h4 hn hb hf hm0 hm1
  have hn1 := h1.noIdent hn
  have hn2 := h2.noIdent hn1
  have hn3 := h3.noIdent hn2
  have t1 := h1.top
  have t2 := h2.top
  have t3 := h3.top
  have hS1 : S1.WF := h1.wf hS hn (by omega) (by omega)
  have hS2 : S2.WF := h2.wf hS1 hn1 (by omega) (by omega)
  have hS3 : S3.WF := h3.wf hS2 hn2 hb (by omega)
  have r1 := swapAdjDD_red S S1 zero _ h1 hS hn (by omega) (by omega) d hr
  have r2 := swapAdjDD_red S1 S2 zero _ h2 hS1 hn1 (by omega) (by omega) _ r1
  have r3 := swapAdjDD_red S2 S3 zero _ h3 hS2 hn2 hb (by omega) _ r2
  have r4 := swapAdjDD_red S3 S4 zero _ h4 hS3 hn3 (by omega) (by omega) _ r3
  obtain ⟨b0, w0⟩ := Red_WFTree S zero S.top none d hr
  obtain ⟨b1, w1⟩ := Red_WFTree S1 zero S1.top none _ r1
  obtain ⟨b2, w2⟩ := Red_WFTree S2 zero S2.top none _ r2
  obtain ⟨b3, w3⟩ := Red_WFTree S3 zero S3.top none _ r3
  apply swapVarRel_canonical S S4 zero k h hS d hr _ r4
  intro a ha
  have v3 := h4.valid (by omega) (by omega) ha
  have v2 := h3.valid hb (by omega) v3
  have v1 := h2.valid (by omega) (by omega) v2
  rw [swapAdjDD_eval S3 S4 zero _ h4 hn3 (by omega) (by omega) _ w3 b3 a ha,
    swapAdjDD_eval S2 S3 zero _ h3 hn2 hb (by omega) _ w2 b2 _ v3,
    swapAdjDD_eval S1 S2 zero _ h2 hn1 (by omega) (by omega) _ w1 b1 _ v2,
    swapAdjDD_eval S S1 zero _ h1 hn (by omega) (by omega) d w0 b0 _ v1,
    relSwap_four_level_swaps_partial]

end DD

namespace EDD
open DD (SwapShape NoIdent swapA swapA_swapA)

/-- C13/EV+ (`swapAdjE_eval`): after `evmdd_pluslong::swapAdjacentVariables(k)` every edge denotes
    the old function (`none` = +∞) with the values of positions `k` and `k+1` exchanged; the
    pushed-down sums `ev1 + ev2` and the re-normalisation leave every value unchanged. -/
theorem swapAdjE_eval (S S' : Shape) (k : Nat) (h : SwapShape S S' k) (hS : S.WF)
    (hn : NoIdent S) (hk : 1 ≤ k) (hk1 : k + 1 ≤ S.top) (e : Int × EDD)
    (hr : Red S S.top none e.2 = true) (a : Assign) (ha : Assign.Valid S' a) :
    evalEdge S' S'.top (swapAdjE S S' k S.top none e) a = evalEdge S S.top e (swapA k a) := by
  obtain ⟨n, hn'⟩ : ∃ n, S.top = k + 1 + n := ⟨S.top - (k+1), by omega⟩
  rw [h.top]
  rw [hn'] at hr ⊢
  exact swapAdjE_eval_above S S' k h hS hn hk hk1 n none e (by omega) hr a ha

/-- C13/EV+ (`swapAdjE_red`): the swapped edge is a reduced edge of the swapped shape: minimum 0
    in every rebuilt node, the excess pulled up to the incoming edges, +∞ entries with value 0,
    no redundant node at `red` positions. -/
theorem swapAdjE_red (S S' : Shape) (k : Nat) (h : SwapShape S S' k) (hS : S.WF)
    (hn : NoIdent S) (hk : 1 ≤ k) (hk1 : k + 1 ≤ S.top) (e : Int × EDD)
    (hr : Red S S.top none e.2 = true) :
    RedEdge S' S'.top none (swapAdjE S S' k S.top none e) = true := by
  obtain ⟨n, hn'⟩ : ∃ n, S.top = k + 1 + n := ⟨S.top - (k+1), by omega⟩
  rw [h.top]
  rw [hn'] at hr ⊢
  exact swapAdjE_red_above S S' k h hS hn hk hk1 n none e hr

/-- C13/EV+ (`swapAdjE_canonical`): the swapped edge is THE reduced edge of the swapped function
    (by `EDD.canon`) — the code rebuilds the dependent upper nodes IN PLACE
    (`modifyReducedNodeInPlace`); if what it leaves is reduced and denotes the swapped function,
    it is this edge, edge values included. -/
theorem swapAdjE_canonical (S S' : Shape) (k : Nat) (h : SwapShape S S' k) (hS : S.WF)
    (hn : NoIdent S) (hk : 1 ≤ k) (hk1 : k + 1 ≤ S.top) (e : Int × EDD)
    (hr : Red S S.top none e.2 = true) (r : Int × EDD)
    (hr' : RedEdge S' S'.top none r = true)
    (hd : ∀ a, Assign.Valid S' a → evalEdge S' S'.top r a = evalEdge S S.top e (swapA k a)) :
    r = swapAdjE S S' k S.top none e := by
  have hS' : S'.WF := h.wf hS hn hk hk1
  apply (canon S' hS' r _ hr' (swapAdjE_red S S' k h hS hn hk hk1 e hr)).mp
  intro a ha
  rw [hd a ha, swapAdjE_eval S S' k h hS hn hk hk1 e hr a ha]

/-- C13/EV+: swapping the same pair twice restores exactly the original reduced edge. -/
theorem swapAdjE_involutive (S S' : Shape) (k : Nat) (h : SwapShape S S' k) (hS : S.WF)
    (hn : NoIdent S) (hk : 1 ≤ k) (hk1 : k + 1 ≤ S.top) (e : Int × EDD)
    (hr : RedEdge S S.top none e = true) :
    swapAdjE S' S k S'.top none (swapAdjE S S' k S.top none e) = e := by
  have hS' : S'.WF := h.wf hS hn hk hk1
  have hn' := h.noIdent hn
  have hk1' : k + 1 ≤ S'.top := by rw [h.top]; exact hk1
  have hr2 := ((RedEdge_iff _ _ _ _).mp hr).1
  have hrs := swapAdjE_red S S' k h hS hn hk hk1 e hr2
  symm
  apply swapAdjE_canonical S' S k h.symm hS' hn' hk hk1' _ ((RedEdge_iff _ _ _ _).mp hrs).1 e hr
  intro a ha
  rw [swapAdjE_eval S S' k h hS hn hk hk1 e hr2 _ (h.symm.valid hk hk1' ha), swapA_swapA]

end EDD

namespace Reorder
open DD
variable {α : Type} [DecidableEq α]

/-- C13/relations, held edges: one variable swap leaves the relation between the VARIABLES
    unchanged: the swapped tree under the new order, at the (unprimed, primed) values `v, v'` of
    the variables, gives what the old tree gave under the old order. -/
theorem relSwap_preserves_varfunction (dom : Nat → Nat) (mu mp : Mode) (hmu : mu ≠ .ident)
    (zero : α) (o : Order) (i : Nat) (hi : i + 1 < o.length) (d : DD α) (hw : WFTree d)
    (hb : Below (2 * o.length) d) (v v' : Nat → Nat) (hv : ∀ x, v x < dom x)
    (hv' : ∀ x, v' x < dom x) :
    eval (relShapeOf dom mu mp (relSwapStep dom mu mp zero i o d).1) zero
        (2 * (relSwapStep dom mu mp zero i o d).1.length) (relSwapStep dom mu mp zero i o d).2
        (relVarAssign (relSwapStep dom mu mp zero i o d).1 v v')
      = eval (relShapeOf dom mu mp o) zero (2 * o.length) d (relVarAssign o v v') := by
  have hbase : 2 * (i+1) - 1 = 2 * i + 1 := by omega
  have hsh : RelSwapShape (relShapeOf dom mu mp o) (relShapeOf dom mu mp (swapAdj i o))
      (2 * (i+1) - 1) := by rw [hbase]; exact relShapeOf_swap dom mu mp hmu o i hi
  have h := swapVarRel_eval (relShapeOf dom mu mp o) (relShapeOf dom mu mp (swapAdj i o)) zero
    (i+1) hsh (relShapeOf_top_not_ident dom mu mp hmu o) d hw hb
    (relVarAssign (swapAdj i o) v v') (relVarAssign_valid dom mu mp _ v v' hv hv')
  rw [hbase, relVarAssign_swap o v v' i hi] at h
  exact h

/-- C13/relations, whole reordering (`reorderRel_preserves_function`): ANY sequence of adjacent
    variable swaps of a relation forest (fully, quasi or identity reduced) leaves the relation
    between the variables denoted by every tree unchanged. -/
theorem reorderRel_preserves_function (dom : Nat → Nat) (mu mp : Mode) (hmu : mu ≠ .ident)
    (zero : α) :
    ∀ (is : List Nat) (o : Order) (d : DD α), (∀ i, i ∈ is → i + 1 < o.length) →
      WFTree d → Below (2 * o.length) d → ∀ (v v' : Nat → Nat), (∀ x, v x < dom x) →
      (∀ x, v' x < dom x) →
      eval (relShapeOf dom mu mp (reorderRel dom mu mp zero is o d).1) zero
          (2 * (reorderRel dom mu mp zero is o d).1.length) (reorderRel dom mu mp zero is o d).2
          (relVarAssign (reorderRel dom mu mp zero is o d).1 v v')
        = eval (relShapeOf dom mu mp o) zero (2 * o.length) d (relVarAssign o v v') := by
  intro is
  induction is with
  | nil => intro o d _ _ _ v v' _ _; rfl
  | cons i is ih =>
    intro o d hi hw hb v v' hv hv'
    have hi0 : i + 1 < o.length := hi i List.mem_cons_self
    have hlen : (relSwapStep dom mu mp zero i o d).1.length = o.length := swapAdj_length i o
    have hwb := relSwapDD_ok (relShapeOf dom mu mp o) (relShapeOf dom mu mp (swapAdj i o)) zero
      (2 * (i+1) - 1) (by omega) (2 * o.length) none d hw hb
    simp only [reorderRel]
    rw [ih (relSwapStep dom mu mp zero i o d).1 (relSwapStep dom mu mp zero i o d).2
      (fun j hj => by rw [hlen]; exact hi j (List.mem_cons_of_mem _ hj))
      hwb.2 (by rw [hlen]; exact hwb.1) v v' hv hv']
    exact relSwap_preserves_varfunction dom mu mp hmu zero o i hi0 d hw hb v v' hv hv'

/-- C13/relations, canonical form, whole reordering: every sequence of adjacent variable swaps
    keeps the tree reduced for the shape of the current order (all three rules). -/
theorem reorderRel_preserves_reduced (dom : Nat → Nat) (mu mp : Mode) (hrule : RelRule mu mp)
    (hd : ∀ x, 2 ≤ dom x) (zero : α) :
    ∀ (is : List Nat) (o : Order) (d : DD α), (∀ i, i ∈ is → i + 1 < o.length) →
      Red (relShapeOf dom mu mp o) zero (2 * o.length) none d = true →
      Red (relShapeOf dom mu mp (reorderRel dom mu mp zero is o d).1) zero
        (2 * (reorderRel dom mu mp zero is o d).1.length) none
        (reorderRel dom mu mp zero is o d).2 = true := by
  intro is
  induction is with
  | nil => intro o d _ hr; exact hr
  | cons i is ih =>
    intro o d hi hr
    have hi0 : i + 1 < o.length := hi i List.mem_cons_self
    have hlen : (relSwapStep dom mu mp zero i o d).1.length = o.length := swapAdj_length i o
    have hbase : 2 * (i+1) - 1 = 2 * i + 1 := by omega
    have hsh : RelSwapShape (relShapeOf dom mu mp o) (relShapeOf dom mu mp (swapAdj i o))
        (2 * (i+1) - 1) := by rw [hbase]; exact relShapeOf_swap dom mu mp hrule.1 o i hi0
    have h1 := swapVarRel_red (relShapeOf dom mu mp o) (relShapeOf dom mu mp (swapAdj i o)) zero
      (i+1) hsh (relShapeOf_wf dom mu mp hrule o hd) d hr
    exact ih (relSwapStep dom mu mp zero i o d).1 (relSwapStep dom mu mp zero i o d).2
      (fun j hj => by rw [hlen]; exact hi j (List.mem_cons_of_mem _ hj)) h1

/-- C13/EV+, whole reordering: every sequence of adjacent swaps keeps the edge reduced for the
    shape of the current order. -/
theorem reorderE_preserves_reduced (dom : Nat → Nat) (m : Mode) (hm : m ≠ .ident)
    (hd : ∀ x, 2 ≤ dom x) :
    ∀ (is : List Nat) (o : Order) (e : Int × EDD), (∀ i, i ∈ is → i + 1 < o.length) →
      EDD.RedEdge (shapeOf dom m o) o.length none e = true →
      EDD.RedEdge (shapeOf dom m (reorderE dom m is o e).1) (reorderE dom m is o e).1.length none
        (reorderE dom m is o e).2 = true := by
  intro is
  induction is with
  | nil => intro o e _ hr; exact hr
  | cons i is ih =>
    intro o e hi hr
    have hi0 : i + 1 < o.length := hi i List.mem_cons_self
    have hlen : (swapStepE dom m i o e).1.length = o.length := swapAdj_length i o
    have h1 := EDD.swapAdjE_red (shapeOf dom m o) (shapeOf dom m (swapAdj i o)) (i+1)
      (shapeOf_swap dom m o i hi0) (shapeOf_wf dom m o hm hd) (shapeOf_noIdent dom m o hm)
      (by omega) hi0 e ((EDD.RedEdge_iff _ _ _ _).mp hr).1
    exact ih (swapStepE dom m i o e).1 (swapStepE dom m i o e).2
      (fun j hj => by rw [hlen]; exact hi j (List.mem_cons_of_mem _ hj)) h1

/-- C13/EV+, whole reordering (`reorderE_preserves_function`): ANY sequence of adjacent swaps of an
    EV+ set forest leaves the function of the variables (values and +∞) denoted by every reduced
    edge unchanged. -/
theorem reorderE_preserves_function (dom : Nat → Nat) (m : Mode) (hm : m ≠ .ident)
    (hd : ∀ x, 2 ≤ dom x) :
    ∀ (is : List Nat) (o : Order) (e : Int × EDD), (∀ i, i ∈ is → i + 1 < o.length) →
      EDD.Red (shapeOf dom m o) o.length none e.2 = true →
      ∀ (v : Nat → Nat), (∀ x, v x < dom x) →
      EDD.evalEdge (shapeOf dom m (reorderE dom m is o e).1) (reorderE dom m is o e).1.length
          (reorderE dom m is o e).2 (varAssign (reorderE dom m is o e).1 v)
        = EDD.evalEdge (shapeOf dom m o) o.length e (varAssign o v) := by
  intro is
  induction is with
  | nil => intro o e _ _ v _; rfl
  | cons i is ih =>
    intro o e hi hr v hv
    have hi0 : i + 1 < o.length := hi i List.mem_cons_self
    have hlen : (swapStepE dom m i o e).1.length = o.length := swapAdj_length i o
    have h1 := EDD.swapAdjE_red (shapeOf dom m o) (shapeOf dom m (swapAdj i o)) (i+1)
      (shapeOf_swap dom m o i hi0) (shapeOf_wf dom m o hm hd) (shapeOf_noIdent dom m o hm)
      (by omega) hi0 e hr
    have h2 := EDD.swapAdjE_eval (shapeOf dom m o) (shapeOf dom m (swapAdj i o)) (i+1)
      (shapeOf_swap dom m o i hi0) (shapeOf_wf dom m o hm hd) (shapeOf_noIdent dom m o hm)
      (by omega) hi0 e hr (varAssign (swapAdj i o) v) (varAssign_valid dom m _ v hv)
    rw [varAssign_swap o v i hi0] at h2
    simp only [reorderE]
    rw [ih (swapStepE dom m i o e).1 (swapStepE dom m i o e).2
      (fun j hj => by rw [hlen]; exact hi j (List.mem_cons_of_mem _ hj))
      ((EDD.RedEdge_iff _ _ _ _).mp h1).1 v hv]
    exact h2

end Reorder

/-! ### Non-vacuity: relations over two variables of DIFFERENT sizes (2 and 3), EV+ sets -/

namespace ReorderRelExamples
open DD Reorder CanonExamples ReorderExamples EVApplyExamples

/-- variable 1 (`y`) has 2 values, variable 2 (`x`) has 3 -/
def domR : Nat → Nat := fun x => if x = 2 then 3 else 2

/-- identity-reduced relation forest, order `[y, x]`: positions 4, 3 = `x, x'` (size 3),
    positions 2, 1 = `y, y'` (size 2); positions 3 and 1 are `ident` -/
def SR : Shape := relShapeOf domR .red .ident [1, 2]
/-- the same forest after the swap, order `[x, y]`: positions 4, 3 = `y, y'` (size 2),
    positions 2, 1 = `x, x'` (size 3) -/
def SR' : Shape := relShapeOf domR .red .ident [2, 1]

example : (List.range 5).map SR.size = [1, 2, 2, 3, 3] := by decide
example : (List.range 5).map SR'.size = [1, 3, 3, 2, 2] := by decide
example : (List.range 6).map SR.mode = [.red, .ident, .red, .ident, .red, .red] := by decide

/-- `y' = 1 - y` (stored nodes at the `ident` position 1: each is a singleton, but not at the
    arriving index) -/
def flipY : DD Nat := .node 2 [.node 1 [.leaf 0, .leaf 1], .node 1 [.leaf 1, .leaf 0]]
/-- `x = 0`: position 3 identity-skipped (`x' = 0`), then `flipY`;
    `x = 1`: a stored node at the `ident` position 3: `x' = 0` ↦ 0; `x' = 1` ↦ a node stored at
    the `ident` position 1 below the SKIPPED unprimed position 2 (any `y`; value 2 or 3 by `y'`);
    `x' = 2` ↦ the terminal 1, positions 2 and 1 skipped (`y' = y`);
    `x = 2`: position 3 identity-skipped (`x' = 2`), `y = 0`, position 1 identity-skipped
    (`y' = 0`) -/
def tR : DD Nat :=
  .node 4 [flipY, .node 3 [.leaf 0, .node 1 [.leaf 2, .leaf 3], .leaf 1], .node 2 [.leaf 1, .leaf 0]]

example : Red SR 0 4 none tR = true := by decide

/-- the swapped tree, written out: `y, y'` on top (size 2), `x, x'` below (size 3); the identity
    patterns are re-eliminated at the NEW `ident` positions (position 1 now has 3 values) -/
def tR' : DD Nat :=
  .node 4
    [.node 3 [.node 2 [.leaf 0, .node 1 [.leaf 0, .leaf 2, .leaf 1], .leaf 1],
              .node 2 [.leaf 1, .leaf 3, .leaf 0]],
     .node 3 [.node 2 [.leaf 1, .leaf 2, .leaf 0],
              .node 2 [.leaf 0, .node 1 [.leaf 0, .leaf 3, .leaf 1], .leaf 0]]]

example : swapVarRel SR SR' 0 1 tR = tR' := by decide
example : Red SR' 0 4 none tR' = true := by decide
/-- swapping back restores the tree (instance of `swapVarRel_involutive`) -/
example : swapVarRel SR' SR 0 1 tR' = tR := by decide
/-- values: `x = 1, x' = 1, y = 1, y' = 1` ↦ 3 before (positions `y' y x' x`) and after
    (positions `x' x y' y`) -/
example : eval SR 0 4 tR (relVarAssign [1, 2] (fun _ => 1) (fun _ => 1)) = 3 := by decide
example : eval SR' 0 4 tR' (relVarAssign [2, 1] (fun _ => 1) (fun _ => 1)) = 3 := by decide
/-- `x = 2, x' = 2, y = 0, y' = 0` (both primed positions identity-skipped in `tR`) -/
example : eval SR 0 4 tR (relVarAssign [1, 2] (fun _ => 0) (fun _ => 0))
    = eval SR' 0 4 tR' (relVarAssign [2, 1] (fun _ => 0) (fun _ => 0)) := by decide
/-- the schedule form: `[y, x] → [x, y]` by the schedule `[0]` -/
example : reorderRel domR .red .ident 0 [0] [1, 2] tR = ([2, 1], tR') := by decide

/-- the hypotheses of the theorems are satisfiable: `swapVarRel_canonical` applies to `tR` -/
example (r : DD Nat) (hr : Red SR' 0 4 none r = true)
    (hd : ∀ a, Assign.Valid SR' a → eval SR' 0 4 r a = eval SR 0 4 tR (relSwapA 1 a)) :
    r = tR' := by
  have e : swapVarRel SR SR' 0 1 tR = tR' := by decide
  rw [← e]
  exact swapVarRel_canonical SR SR' 0 1
    (relShapeOf_swap domR .red .ident (by decide) [1, 2] 0 (by decide))
    (relShapeOf_wf domR .red .ident ⟨by decide, fun _ => rfl⟩ [1, 2]
      (fun x => by show 2 ≤ (if x = 2 then 3 else 2); split <;> omega))
    tR (by decide) r hr hd

/-- quasi-reduced relation (all positions `none`): only the transparent terminal skips -/
def SQR : Shape := relShapeOf domR .none .none [1, 2]
def SQR' : Shape := relShapeOf domR .none .none [2, 1]
def tQ : DD Nat :=
  .node 4 [.node 3 [.node 2 [.node 1 [.leaf 1, .leaf 0], .leaf 0], .leaf 0,
                    .node 2 [.leaf 0, .node 1 [.leaf 2, .leaf 2]]], .leaf 0, .leaf 0]
example : Red SQR 0 4 none tQ = true := by decide
example : swapVarRel SQR SQR' 0 1 tQ =
    .node 4
      [.node 3 [.node 2 [.node 1 [.leaf 1, .leaf 0, .leaf 0], .leaf 0, .leaf 0], .leaf 0],
       .node 3 [.node 2 [.node 1 [.leaf 0, .leaf 0, .leaf 2], .leaf 0, .leaf 0],
                .node 2 [.node 1 [.leaf 0, .leaf 0, .leaf 2], .leaf 0, .leaf 0]]] := by decide
example : Red SQR' 0 4 none (swapVarRel SQR SQR' 0 1 tQ) = true := by decide

/-- fully-reduced relation, seen as a forest over the four positions `y' y x' x` = "variables"
    `1 2 3 4`; the intermediate orders of `swapAdjacentVariablesByLevelSwap` -/
def dom4 : Nat → Nat := fun x => if x = 3 ∨ x = 4 then 3 else 2
def P0 : Shape := shapeOf dom4 .red [1, 2, 3, 4]
def P1 : Shape := shapeOf dom4 .red [1, 3, 2, 4]
def P2 : Shape := shapeOf dom4 .red [1, 3, 4, 2]
def P3 : Shape := shapeOf dom4 .red [3, 1, 4, 2]
def P4 : Shape := shapeOf dom4 .red [3, 4, 1, 2]

example : Red P0 0 4 none tR = true := by decide
/-- four position swaps = the variable swap, computed … -/
example : levelSwap4 P0 P1 P2 P3 P4 0 1 tR = swapVarRel P0 P4 0 1 tR := by decide
/-- … and as an instance of `levelSwap4_eq_swapVarRel` (its hypotheses are satisfiable) -/
example : levelSwap4 P0 P1 P2 P3 P4 0 1 tR = swapVarRel P0 P4 0 1 tR :=
  levelSwap4_eq_swapVarRel P0 P1 P2 P3 P4 0 1
    (shapeOf_swap dom4 .red [1, 2, 3, 4] 1 (by decide))
    (shapeOf_swap dom4 .red [1, 3, 2, 4] 2 (by decide))
    (shapeOf_swap dom4 .red [1, 3, 4, 2] 0 (by decide))
    (shapeOf_swap dom4 .red [3, 1, 4, 2] 1 (by decide))
    (shapeOf_wf dom4 .red _ (by decide)
      (fun x => by show 2 ≤ (if x = 3 ∨ x = 4 then 3 else 2); split <;> omega))
    (shapeOf_noIdent dom4 .red _ (by decide)) (by decide) (by decide) rfl rfl tR (by decide)
/-- the fully-reduced result spells the identities out (compare `tR'`) -/
example : swapVarRel P0 P4 0 1 tR =
    .node 4
      [.node 3 [.node 2 [.leaf 0, .node 1 [.leaf 0, .leaf 2, .leaf 1], .leaf 1],
                .node 2 [.leaf 1, .node 1 [.leaf 0, .leaf 3, .leaf 1], .leaf 1]],
       .node 3 [.node 2 [.leaf 1, .node 1 [.leaf 0, .leaf 2, .leaf 1], .leaf 0],
                .node 2 [.leaf 0, .node 1 [.leaf 0, .leaf 3, .leaf 1], .leaf 0]]] := by decide

/-! EV+ set, `CanonExamples.SA` (sizes 2, 3, 2), edge `EVApplyExamples.aE` with non-zero edge
    values; positions 2 and 3 exchanged (`ReorderExamples.SA23`: sizes 2, 2, 3) -/

/-- `aE = (1, node 3 [(0, node 2 [(0, xE), (1, yE), (0, ∞)]), (2, xE)])`: the new top variable has
    3 values; under its value 1 the entries `1 + yE`, `2 + xE` are re-normalised (1 pulled up);
    under its value 2 the entries `∞`, `2 + xE` (2 pulled up) -/
def aE' : Int × EDD :=
  (1, .node 3 [(0, .node 2 [(0, xE), (2, xE)]), (1, .node 2 [(0, yE), (1, xE)]),
               (2, .node 2 [(0, .inf), (0, xE)])])

example : EDD.RedEdge SA 3 none aE = true := by decide
example : EDD.swapAdjE SA SA23 2 3 none aE = aE' := by decide
example : EDD.RedEdge SA23 3 none aE' = true := by decide
example : EDD.swapAdjE SA23 SA 2 3 none aE' = aE := by decide
/-- values: `(x₁, x₂, x₃) = (1, 1, 0)`: `1 + 0 + 1 + 0 = 2` before; after the swap the old `x₂`
    sits at position 3, the old `x₃` at position 2: `1 + 1 + 0 + 0 = 2` -/
example : EDD.evalEdge SA 3 aE (fun p => if p = 3 then 0 else 1) = some 2 := by decide
example : EDD.evalEdge SA23 3 aE' (fun p => if p = 2 then 0 else 1) = some 2 := by decide
example : EDD.evalEdge SA23 3 aE' (fun p => if p = 3 then 2 else 0) = none := by decide
/-- a whole reordering on (order, edge): `[1,2,3] → [3,1,2]` by the schedule `[1, 0]` -/
example : (reorderE (fun x => if x = 2 then 3 else 2) .red [1, 0] [1, 2, 3] aE).1 = [3, 1, 2] := by
  decide
example : EDD.RedEdge (shapeOf (fun x => if x = 2 then 3 else 2) .red [3, 1, 2]) 3 none
    (reorderE (fun x => if x = 2 then 3 else 2) .red [1, 0] [1, 2, 3] aE).2 = true := by decide
/-- the hypotheses of `swapAdjE_canonical` are satisfiable -/
example (r : Int × EDD) (hr : EDD.RedEdge SA23 3 none r = true)
    (hd : ∀ a, Assign.Valid SA23 a → EDD.evalEdge SA23 3 r a = EDD.evalEdge SA 3 aE (swapA 2 a)) :
    r = aE' := by
  have e : EDD.swapAdjE SA SA23 2 3 none aE = aE' := by decide
  rw [← e]
  exact EDD.swapAdjE_canonical SA SA23 2 SA_SA23 SA_WF SA_noIdent (by decide) (by decide) aE
    (by decide) r hr hd

end ReorderRelExamples

#print axioms DD.swapVarRel_eval
#print axioms DD.swapVarRel_red
#print axioms DD.swapVarRel_canonical
#print axioms DD.swapVarRel_involutive
#print axioms DD.levelSwap4_eq_swapVarRel
#print axioms EDD.swapAdjE_eval
#print axioms EDD.swapAdjE_red
#print axioms EDD.swapAdjE_canonical
#print axioms EDD.swapAdjE_involutive
#print axioms Reorder.relSwap_preserves_varfunction
#print axioms Reorder.reorderRel_preserves_function
#print axioms Reorder.reorderRel_preserves_reduced
#print axioms Reorder.reorderE_preserves_function
#print axioms Reorder.reorderE_preserves_reduced
/- Output (Lean 4.33.0):
'Meddly.DD.swapVarRel_eval' depends on axioms: [propext, Classical.choice, Quot.sound]
'Meddly.DD.swapVarRel_red' depends on axioms: [propext, Classical.choice, Quot.sound]
'Meddly.DD.swapVarRel_canonical' depends on axioms: [propext, Classical.choice, Quot.sound]
'Meddly.DD.swapVarRel_involutive' depends on axioms: [propext, Classical.choice, Quot.sound]
'Meddly.DD.levelSwap4_eq_swapVarRel' depends on axioms: [propext, Classical.choice, Quot.sound]
'Meddly.EDD.swapAdjE_eval' depends on axioms: [propext, Classical.choice, Quot.sound]
'Meddly.EDD.swapAdjE_red' depends on axioms: [propext, Classical.choice, Quot.sound]
'Meddly.EDD.swapAdjE_canonical' depends on axioms: [propext, Classical.choice, Quot.sound]
'Meddly.EDD.swapAdjE_involutive' depends on axioms: [propext, Classical.choice, Quot.sound]
'Meddly.Reorder.relSwap_preserves_varfunction' depends on axioms: [propext, Classical.choice, Quot.sound]
'Meddly.Reorder.reorderRel_preserves_function' depends on axioms: [propext, Classical.choice, Quot.sound]
'Meddly.Reorder.reorderRel_preserves_reduced' depends on axioms: [propext, Classical.choice, Quot.sound]
'Meddly.Reorder.reorderE_preserves_function' depends on axioms: [propext, Classical.choice, Quot.sound]
'Meddly.Reorder.reorderE_preserves_reduced' depends on axioms: [propext, Classical.choice, Quot.sound]

  Scope (kept visible):
    * the model works on TREES: the in-place node surgery of the C++ (`setNodeLevel`, `swapNodes`,
      `modifyReducedNodeInPlace`, unique-table re-insertion, duplicate resolution) is tied to the
      model through `swapVarRel_canonical` / `swapAdjE_canonical` (any reduced result with the
      swapped denotation IS the model's tree) and the differential run, not modelled step by step;
    * `levelSwap4_eq_swapVarRel` is about the ALGORITHM of `swapAdjacentVariablesByLevelSwap`; in
      the library `mtmxd_forest::swapAdjacentLevels` throws `NOT_IMPLEMENTED`;
    * EV+ RELATIONS (EV+MxD, identity-reduced with edge values) and EV* forests are not covered:
      `swapAdjE` is stated for shapes without `ident` positions (`NoIdent`, all EV+ set forests).
-/

end Meddly
