/-
  Layer 0 (specification) for C05: the scalar semantics of MEDDLY's element-wise
  arithmetic, comparison, min/max, distance and user-defined operations, and the
  catalogue of operand/result forest combinations the operation factories accept.

  Read from /repo/src/operations/arith_{plus,minus,mult,div,mod,max,min,distmin}.cc
  (the `apply` members of the `mt_*`, `evplus_*`, `evstar_*` classes), compare.cc
  (`*_mt::compare`, `*_evplus::compare`), dist_inc.cc, user_unary.cc,
  maxmin_range.cc and from the tests ops_{plusminus,mult,divmod,maxmin,distmin,comp,user_un}.cc.

  Values (`Val`): `.i` integers (MT integer forests and finite EV+ values), `.r n e`
  the dyadic real `n / 2^e` (MT real and EV* forests), `.inf` the EV+ infinity.

  EV+ infinity rules (the code's `evplus_*::apply`):
    x + inf = inf + x = inf          x * inf = inf * x = inf   (also for x = 0)
    inf - x = inf (x finite)         x - inf  : SUBTRACT_INFINITY  (also inf - inf)
    x / inf = 0 (x finite)           inf / inf : INFINITY_DIV_INFINITY
    x / 0   : DIVIDE_BY_ZERO (also inf / 0)      inf / x = inf (x finite, non-zero)
    x % inf = x (x finite)           inf % inf : INFINITY_DIV_INFINITY
    x % 0   : DIVIDE_BY_ZERO         inf % x = inf
    max(x, inf) = inf                min(x, inf) = x
    comparisons: inf is the largest element, inf = inf.
  Integer `/` and `%` are C++'s (truncation toward zero; the remainder has the sign
  of the dividend).  DIST_MIN: a negative value means "unreachable = infinity":
  of two values with the same sign class the smaller, otherwise the non-negative one.
  DIST_INC: x ↦ x+1 for x ≥ 0, negative values unchanged.  Comparisons produce
  true/false, stored as T/F, 1/0 or 1.0/0.0 according to the range of the result forest.
-/
import MeddlyModel.Basic.Val
import MeddlyModel.Spec.Tables

namespace Meddly
namespace Spec
namespace Arith

inductive ArithOp where
  | plus | minus | mult | div | mod | max | min | distmin
  | eq | ne | lt | le | gt | ge
  deriving DecidableEq, Repr, Inhabited

/-- range of a forest -/
inductive Rng where
  | bool | int | real
  deriving DecidableEq, Repr, Inhabited

def ArithOp.isCompare : ArithOp → Bool
  | .eq | .ne | .lt | .le | .gt | .ge => true
  | _ => false

def ArithOp.ofName (s : String) : Option ArithOp :=
  match s with
  | "PLUS" => some .plus | "MINUS" => some .minus | "MULTIPLY" => some .mult
  | "DIVIDE" => some .div | "MODULO" => some .mod | "MAXIMUM" => some .max
  | "MINIMUM" => some .min | "DIST_MIN" => some .distmin
  | "EQUAL" => some .eq | "NOT_EQUAL" => some .ne | "LESS_THAN" => some .lt
  | "LESS_THAN_EQUAL" => some .le | "GREATER_THAN" => some .gt
  | "GREATER_THAN_EQUAL" => some .ge
  | _ => none

/-- how a truth value is stored in a forest of the given range -/
def ofBool (rng : Rng) (b : Bool) : Val :=
  match rng with
  | .bool => .b b
  | .int => .i (if b then 1 else 0)
  | .real => .r (if b then 1 else 0) 0

def errDivZero : String := "DIVIDE_BY_ZERO"
def errSubInf : String := "SUBTRACT_INFINITY"
def errInfDivInf : String := "INFINITY_DIV_INFINITY"

/-! ### dyadic reals `n / 2^e` -/

/-- numerators of two dyadics over the common denominator `2^(max e1 e2)` -/
def align (n1 e1 n2 e2 : Int) : Int × Int × Int :=
  let e := if e1 ≤ e2 then e2 else e1
  (n1 * 2 ^ (e - e1).toNat, n2 * 2 ^ (e - e2).toNat, e)

def radd (n1 e1 n2 e2 : Int) : Val := let (a, b, e) := align n1 e1 n2 e2; .r (a + b) e
def rsub (n1 e1 n2 e2 : Int) : Val := let (a, b, e) := align n1 e1 n2 e2; .r (a - b) e
def rmul (n1 e1 n2 e2 : Int) : Val := .r (n1 * n2) (e1 + e2)
/-- real quotient, rounded to 40 fractional bits (the library computes in `float`;
    observations are compared with the library's own tolerance) -/
def rdiv (n1 e1 n2 e2 : Int) : Val :=
  let s := 40 + e2 - e1
  let num := if 0 ≤ s then n1 * 2 ^ s.toNat else n1
  let den := if 0 ≤ s then n2 else n2 * 2 ^ (-s).toNat
  let (num, den) := if den < 0 then (-num, -den) else (num, den)
  .r ((2 * num + den) / (2 * den)) 40
def rlt (n1 e1 n2 e2 : Int) : Bool := let (a, b, _) := align n1 e1 n2 e2; decide (a < b)
def rle (n1 e1 n2 e2 : Int) : Bool := let (a, b, _) := align n1 e1 n2 e2; decide (a ≤ b)
def req (n1 e1 n2 e2 : Int) : Bool := let (a, b, _) := align n1 e1 n2 e2; decide (a = b)

def distMinInt (a b : Int) : Int :=
  if a < 0 then (if b < 0 then min a b else b) else (if b < 0 then a else min a b)

/-- both operands finite integers -/
def intOp (op : ArithOp) (rng : Rng) (a b : Int) : Except String Val :=
  match op with
  | .plus => .ok (.i (a + b))
  | .minus => .ok (.i (a - b))
  | .mult => .ok (.i (a * b))
  | .div => if b = 0 then .error errDivZero else .ok (.i (Int.tdiv a b))
  | .mod => if b = 0 then .error errDivZero else .ok (.i (Int.tmod a b))
  | .max => .ok (.i (max a b))
  | .min => .ok (.i (min a b))
  | .distmin => .ok (.i (distMinInt a b))
  | .eq => .ok (ofBool rng (decide (a = b)))
  | .ne => .ok (ofBool rng (!decide (a = b)))
  | .lt => .ok (ofBool rng (decide (a < b)))
  | .le => .ok (ofBool rng (decide (a ≤ b)))
  | .gt => .ok (ofBool rng (decide (b < a)))
  | .ge => .ok (ofBool rng (decide (b ≤ a)))

/-- both operands reals -/
def realOp (op : ArithOp) (rng : Rng) (n1 e1 n2 e2 : Int) : Except String Val :=
  match op with
  | .plus => .ok (radd n1 e1 n2 e2)
  | .minus => .ok (rsub n1 e1 n2 e2)
  | .mult => .ok (rmul n1 e1 n2 e2)
  | .div => if n2 = 0 then .error errDivZero else .ok (rdiv n1 e1 n2 e2)
  | .mod => .error "NOT_IMPLEMENTED"
  | .max => .ok (if rlt n1 e1 n2 e2 then .r n2 e2 else .r n1 e1)
  | .min => .ok (if rlt n2 e2 n1 e1 then .r n2 e2 else .r n1 e1)
  | .distmin =>
    .ok (if n1 < 0 then (if n2 < 0 then (if rlt n2 e2 n1 e1 then .r n2 e2 else .r n1 e1) else .r n2 e2)
         else (if n2 < 0 then .r n1 e1 else (if rlt n2 e2 n1 e1 then .r n2 e2 else .r n1 e1)))
  | .eq => .ok (ofBool rng (req n1 e1 n2 e2))
  | .ne => .ok (ofBool rng (!req n1 e1 n2 e2))
  | .lt => .ok (ofBool rng (rlt n1 e1 n2 e2))
  | .le => .ok (ofBool rng (rle n1 e1 n2 e2))
  | .gt => .ok (ofBool rng (rlt n2 e2 n1 e1))
  | .ge => .ok (ofBool rng (rle n2 e2 n1 e1))

/-- EV+: left operand infinite, right operand the finite `b` -/
def infLeft (op : ArithOp) (rng : Rng) (b : Int) : Except String Val :=
  match op with
  | .plus | .mult | .max => .ok .inf
  | .minus => .ok .inf
  | .div => if b = 0 then .error errDivZero else .ok .inf
  | .mod => if b = 0 then .error errDivZero else .ok .inf
  | .min => .ok (.i b)
  | .distmin => .error "NOT_IMPLEMENTED"
  | .eq => .ok (ofBool rng false)
  | .ne => .ok (ofBool rng true)
  | .lt => .ok (ofBool rng false)
  | .le => .ok (ofBool rng false)
  | .gt => .ok (ofBool rng true)
  | .ge => .ok (ofBool rng true)

/-- EV+: left operand the finite `a`, right operand infinite -/
def infRight (op : ArithOp) (rng : Rng) (a : Int) : Except String Val :=
  match op with
  | .plus | .mult | .max => .ok .inf
  | .minus => .error errSubInf
  | .div => .ok (.i 0)
  | .mod => .ok (.i a)
  | .min => .ok (.i a)
  | .distmin => .error "NOT_IMPLEMENTED"
  | .eq => .ok (ofBool rng false)
  | .ne => .ok (ofBool rng true)
  | .lt => .ok (ofBool rng true)
  | .le => .ok (ofBool rng true)
  | .gt => .ok (ofBool rng false)
  | .ge => .ok (ofBool rng false)

/-- EV+: both operands infinite -/
def infBoth (op : ArithOp) (rng : Rng) : Except String Val :=
  match op with
  | .plus | .mult | .max | .min => .ok .inf
  | .minus => .error errSubInf
  | .div | .mod => .error errInfDivInf
  | .distmin => .error "NOT_IMPLEMENTED"
  | .eq | .le | .ge => .ok (ofBool rng true)
  | .ne | .lt | .gt => .ok (ofBool rng false)

/-- The scalar operation: `rng` is the range of the RESULT forest (it only matters
    for comparisons).  `.error code` = the call must raise `code`. -/
def scalar (op : ArithOp) (rng : Rng) (x y : Val) : Except String Val :=
  match x, y with
  | .i a, .i b => intOp op rng a b
  | .r n1 e1, .r n2 e2 => realOp op rng n1 e1 n2 e2
  | .inf, .i b => infLeft op rng b
  | .i a, .inf => infRight op rng a
  | .inf, .inf => infBoth op rng
  | _, _ => .error "TYPE_MISMATCH"

/-! ### unary maps -/

/-- the fixed catalogue of user-defined maps the harness registers (identical
    definitions in harness/fam_arith.cc) -/
inductive UMap where
  | lin     -- x ↦ 2x+1        (inf ↦ inf)
  | sq      -- x ↦ x*x         (inf ↦ inf)
  | neg     -- x ↦ -x          (inf ↦ inf)
  | sat3    -- x ↦ min(x,3)    (inf ↦ 3)
  | isneg   -- x ↦ (x < 0)     (inf ↦ false), stored according to the result range
  deriving DecidableEq, Repr, Inhabited

def UMap.ofName (s : String) : Option UMap :=
  match s with
  | "lin" => some .lin | "sq" => some .sq | "neg" => some .neg
  | "sat3" => some .sat3 | "isneg" => some .isneg | _ => none

def userMap (m : UMap) (rng : Rng) (x : Val) : Except String Val :=
  match m, x with
  | .lin, .i v => .ok (.i (2 * v + 1))
  | .lin, .r n e => .ok (radd (2 * n) e 1 0)
  | .lin, .inf => .ok .inf
  | .sq, .i v => .ok (.i (v * v))
  | .sq, .r n e => .ok (rmul n e n e)
  | .sq, .inf => .ok .inf
  | .neg, .i v => .ok (.i (-v))
  | .neg, .r n e => .ok (.r (-n) e)
  | .neg, .inf => .ok .inf
  | .sat3, .i v => .ok (.i (min v 3))
  | .sat3, .r n e => .ok (if rlt 3 0 n e then .r 3 0 else .r n e)
  | .sat3, .inf => .ok (.i 3)
  | .isneg, .i v => .ok (ofBool rng (decide (v < 0)))
  | .isneg, .r n _ => .ok (ofBool rng (decide (n < 0)))
  | .isneg, .inf => .ok (ofBool rng false)
  | _, .b _ => .error "TYPE_MISMATCH"

/-- DIST_INC (multi-terminal integer forests only) -/
def distInc (x : Val) : Except String Val :=
  match x with
  | .i v => .ok (.i (if v < 0 then v else v + 1))
  | _ => .error "TYPE_MISMATCH"

/-- unary scalar operations by name: "DIST_INC" or a user map -/
def scalar1 (name : String) (rng : Rng) (x : Val) : Except String Val :=
  if name == "DIST_INC" then distInc x
  else match UMap.ofName name with
    | some m => userMap m rng x
    | none => .error s!"UNKNOWN-MAP {name}"

/-! ### range queries -/

/-- the larger / smaller of two values of the same kind -/
def vmax (x y : Val) : Val := match scalar .max .int x y with | .ok v => v | .error _ => x
def vmin (x y : Val) : Val := match scalar .min .int x y with | .ok v => v | .error _ => x

/-- MAX_RANGE / MIN_RANGE: the largest / smallest value the function takes over
    ALL assignments (so a function that is 0 somewhere has minimum ≤ 0). -/
def rangeMax (t : Table) : Val := t.foldl vmax (t.getD 0 default)
def rangeMin (t : Table) : Val := t.foldl vmin (t.getD 0 default)

/-! ### the support table

  Which (operand, operand, result) forest kinds each factory accepts; mirrored from
  the `build_new` members and the operation constructors
  (`checkAllRelations / checkAllLabelings / checkAllRanges` → TYPE_MISMATCH,
  `build_new` returning null → NOT_IMPLEMENTED).  All forests over one domain. -/

structure Kind where
  rel : Bool
  range : String     -- "bool" | "int" | "real"
  lab : String       -- "mt" | "evp" | "evt"
  rule : String      -- "fully" | "quasi" | "ident"   (irrelevant for support)
  deriving Repr, Inhabited, DecidableEq

def Kind.rng (k : Kind) : Rng :=
  if k.range == "bool" then .bool else if k.range == "int" then .int else .real

def Kind.sameBase (a b : Kind) : Bool := a.rel == b.rel && a.range == b.range && a.lab == b.lab

/-- `.ok ()` = accepted; `.error code` = the call raises `code` -/
def supportBin (op : ArithOp) (a b c : Kind) : Except String Unit :=
  if op.isCompare then
    -- compare_mt / compare_ev constructors
    if a.rel == c.rel && b.rel == c.rel && a.lab == b.lab && a.range == b.range && c.lab == "mt"
    then .ok () else .error "TYPE_MISMATCH"
  else
    -- factories: null for the combinations they do not know
    let notImpl :=
      (op == .mod && ((c.lab == "mt" && (a.range == "real" || b.range == "real")) || c.lab == "evt")) ||
      (op == .distmin && c.lab != "mt")
    if notImpl then .error "NOT_IMPLEMENTED"
    else if a.sameBase c && b.sameBase c then .ok () else .error "TYPE_MISMATCH"

/-- DIST_INC: integer multi-terminal argument and result, both sets or both relations -/
def supportDistInc (a c : Kind) : Except String Unit :=
  if a.rel == c.rel && a.range == "int" && c.range == "int" && a.lab == "mt" && c.lab == "mt"
  then .ok () else .error "TYPE_MISMATCH"

/-- MAX_RANGE / MIN_RANGE into a C `long` (`wantReal = false`) or `double` -/
def supportRange (a : Kind) (wantReal : Bool) : Except String Unit :=
  if a.lab != "mt" then .error "NOT_IMPLEMENTED"
  else if (wantReal && a.range == "real") || (!wantReal && a.range == "int") then .ok ()
  else .error "TYPE_MISMATCH"

/-! ### table level -/

/-- The specification of `apply(op, A, B, C)` on function tables: the support
    table decides first; then the scalar operation at every assignment; the call
    must raise iff the scalar operation is invalid at some assignment. -/
def binTable (op : ArithOp) (ka kb kc : Kind) (a b : Table) : Except String Table := do
  supportBin op ka kb kc
  pointwise2 (scalar op kc.rng) a b

end Arith
end Spec
end Meddly
