/-
  Layer 0: the *specification* of every operation, on explicit function tables.
  A function over a domain is its table: the value at every assignment, indexed
  with position 1 as the least significant digit (position = level for sets;
  2k = unprimed level k, 2k-1 = primed level k for relations), which is the
  lexicographic order the library's iterators use (top variable most significant).
-/
import MeddlyModel.Basic.Val
import MeddlyModel.Core.DD

namespace Meddly
namespace Spec

abbrev Table := Array Val

/-- sizes of the positions 1..top, bottom-up -/
def posSizes (dom : Array Nat) (rel : Bool) : Array Nat :=
  if rel then dom.foldl (fun acc s => (acc.push s).push s) #[] else dom

def card (sizes : Array Nat) : Nat := sizes.foldl (· * ·) 1

/-- the assignment (value of position p, p ≥ 1) encoded by table index `idx` -/
def assignOf (sizes : Array Nat) (idx : Nat) : Assign := fun p =>
  if p = 0 then 0 else
    let stride := (sizes.extract 0 (p - 1)).foldl (· * ·) 1
    (idx / stride) % (sizes.getD (p - 1) 1)

def digits (sizes : Array Nat) (idx : Nat) : Array Nat := Id.run do
  let mut out := #[]
  let mut r := idx
  for s in sizes do
    out := out.push (r % s)
    r := r / s
  return out

def undigits (sizes : Array Nat) (ds : Array Nat) : Nat := Id.run do
  let mut idx := 0
  let mut stride := 1
  for i in [0:sizes.size] do
    idx := idx + ds.getD i 0 * stride
    stride := stride * sizes.getD i 1
  return idx

def mkShape (dom : Array Nat) (rel : Bool) (rule : String) : Shape :=
  let sizes := posSizes dom rel
  { top := sizes.size
    size := fun p => if p = 0 then 1 else sizes.getD (p - 1) 1
    mode := fun p =>
      if rule == "quasi" then .none
      else if rule == "ident" && rel && p % 2 == 1 && p ≤ sizes.size then .ident
      else .red }

def pointwise2 (f : Val → Val → Except String Val) (a b : Table) : Except String Table := do
  if a.size != b.size then throw "size-mismatch"
  let mut out : Table := Array.mkEmpty a.size
  for i in [0:a.size] do
    out := out.push (← f (a.getD i default) (b.getD i default))
  return out

def pointwise1 (f : Val → Except String Val) (a : Table) : Except String Table := do
  let mut out : Table := Array.mkEmpty a.size
  for i in [0:a.size] do
    out := out.push (← f (a.getD i default))
  return out

def tablesAgree (a b : Table) : Bool :=
  a.size == b.size && (List.range a.size).all (fun i => Val.approxEq (a.getD i default) (b.getD i default))

/-- first index where two tables differ -/
def firstDiff (a b : Table) : Option Nat :=
  (List.range (max a.size b.size)).find? (fun i => !(Val.approxEq (a.getD i default) (b.getD i default)))

end Spec
end Meddly
