/-
  C10, Layer 0: the scalar conversion performed by `COPY` between two forest
  kinds, and the factory's support table (`COPY_factory::build_new`,
  src/operations/copy.cc).

  How the code converts (read off copy.cc / terminal.h / edge_value.h):
    * the source value is first read into a C variable whose type is chosen by
      the TARGET: `bool` for MT-boolean targets, `int` for MT-integer and EV+
      (`long` for EV+ when the source is edge valued), `float` for MT-real and
      EV* targets (`terminal::getValue<T>` = `T(t_boolean|t_integer|t_real)`,
      `edge_value::copyInto<T>` = `T(ev_long|ev_float)`); these are plain C
      conversions:  bool→0/1, int→real exactly (|n| < 2^24), real→int by
      TRUNCATION TOWARDS ZERO, non-zero→true;
    * it is then stored with `handleForValue` / `getEdgeForValue`, which for an
      EV+ target always yields a FINITE value (a multi-terminal 0 becomes the
      EV+ value 0, not +infinity) and for an EV* target maps 0.0 to the
      transparent terminal (value 0).
    * +infinity of an EV+ / index-set source survives only through
      `copy_inforest` and `copy_EV_fast` (target EV+); the push-down copy
      `copy_EV<EdgeOp>` has no case for the terminal OMEGA_INFINITY (the source
      says `// if (OMEGA_INFINITY == ap) then what???`) — see `CopyImpl.keepsInf` and the
      FINDINGS in NOTES.md.  `conv` maps +infinity to +infinity for every target;
      for a target that cannot hold it the pair is outside `convExact`.
-/
import MeddlyModel.Basic.Val

namespace Meddly
namespace Spec

inductive Range where
  | bool | int | real
  deriving DecidableEq, Repr, Inhabited

inductive Lab where
  | mt | evp | evt | idx
  deriving DecidableEq, Repr, Inhabited

inductive Rule where
  | fully | quasi | ident
  deriving DecidableEq, Repr, Inhabited

/-- A forest kind: set/relation, range type, edge labeling, reduction rule. -/
structure Kind where
  rel : Bool
  range : Range
  lab : Lab
  rule : Rule
  deriving DecidableEq, Repr, Inhabited

namespace Kind

/-- the kinds `forest::create` accepts (forest.cc): EV+ integer only, index sets
    integer sets only, EV* real relations only; identity reduction for relations only -/
def legal (k : Kind) : Bool :=
  (k.rule != .ident || k.rel) &&
  match k.lab with
  | .mt => true
  | .evp => k.range == .int
  | .idx => k.range == .int && !k.rel
  | .evt => k.range == .real && k.rel

/-- transparent value of the kind -/
def zero (k : Kind) : Val :=
  match k.lab with
  | .evp | .idx => .inf
  | _ => match k.range with
    | .bool => .b false
    | .int => .i 0
    | .real => .r 0 0

def ofStrings (k : Bool × String × String × String) : Option Kind := do
  let range ← match k.2.1 with
    | "bool" => some Range.bool | "int" => some Range.int | "real" => some Range.real | _ => none
  let lab ← match k.2.2.1 with
    | "mt" => some Lab.mt | "evp" => some Lab.evp | "evt" => some Lab.evt | "idx" => some Lab.idx | _ => none
  let rule ← match k.2.2.2 with
    | "fully" => some Rule.fully | "quasi" => some Rule.quasi | "ident" => some Rule.ident | _ => none
  pure { rel := k.1, range, lab, rule }

/-- every legal kind (25 of them: 10 for sets, 15 for relations) -/
def all : List Kind := Id.run do
  let mut out := []
  for rel in [false, true] do
    for range in [Range.bool, .int, .real] do
      for lab in [Lab.mt, .evp, .evt, .idx] do
        for rule in [Rule.fully, .quasi, .ident] do
          let k : Kind := { rel, range, lab, rule }
          if k.legal then out := out ++ [k]
  return out

end Kind

/-! ## The factory's support table -/

/-- which implementation `COPY_factory::build_new` selects -/
inductive CopyImpl where
  | inforest          -- same forest: link the node
  | mt                -- `copy_MT`: multi-terminal source, any target
  | evFast            -- `copy_EV_fast`: EV+/index set → EV+, EV* → EV*
  | evPushPlus        -- `copy_EV<EdgeOp_plus>`: EV+/index set → MT, EV*, index set
  | evPushTimes       -- `copy_EV<EdgeOp_times>`: EV* → MT, EV+
  deriving DecidableEq, Repr, Inhabited

/-- `COPY_factory::build_new(arg, res)`, branch by branch; `same` = the two
    forests are the same object.  The error is the code the call raises. -/
def copyImpl (ka kb : Kind) (same : Bool) : Except String CopyImpl :=
  if ka.rel != kb.rel then .error "TYPE_MISMATCH"
  else if same then .ok .inforest
  else if ka.lab == .mt then .ok .mt
  else if ((ka.lab == .evp || ka.lab == .idx) && kb.lab == .evp) || (ka.lab == .evt && kb.lab == .evt) then
    match ka.range with
    | .int => .ok .evFast
    | .real => if kb.range == .real then .ok .evFast else .error "TYPE_MISMATCH"
    | .bool => .error "TYPE_MISMATCH"
  else if ka.lab == .evp || ka.lab == .idx then
    match ka.range with
    | .bool => .error "TYPE_MISMATCH"
    | _ => .ok .evPushPlus
  else
    match ka.range with
    | .bool => .error "TYPE_MISMATCH"
    | _ => .ok .evPushTimes

/-- THE SUPPORT TABLE: is `apply(COPY, a, b)` accepted for `a` in a forest of
    kind `ka` and `b` in a distinct forest of kind `kb` (same domain)? -/
def copySupported (ka kb : Kind) : Bool :=
  match copyImpl ka kb false with
  | .ok _ => true
  | .error _ => false

/-- does +infinity of the source survive this implementation? -/
def CopyImpl.keepsInf : CopyImpl → Bool
  | .inforest | .evFast => true
  | _ => false

/-! ## The scalar conversion -/

/-- `n / 2^e` truncated towards zero (C conversion real → integer) -/
def truncReal (n e : Int) : Int :=
  if e ≤ 0 then n * 2 ^ (-e).toNat
  else if 0 ≤ n then n / 2 ^ e.toNat else -((-n) / 2 ^ e.toNat)

/-- C conversion to `bool` -/
def toBoolC : Val → Val
  | .b v => .b v
  | .i v => .b (v != 0)
  | .r n _ => .b (n != 0)
  | .inf => .inf

/-- C conversion to `int` / `long` -/
def toIntC : Val → Val
  | .b v => .i (if v then 1 else 0)
  | .i v => .i v
  | .r n e => .i (truncReal n e)
  | .inf => .inf

/-- C conversion to `float` (exact on the model's dyadic reals; the harness keeps |n| < 2^24) -/
def toRealC : Val → Val
  | .b v => .r (if v then 1 else 0) 0
  | .i v => .r v 0
  | .r n e => .r n e
  | .inf => .inf

/-- conversion into a target of the given range type -/
def convTo : Range → Val → Val
  | .bool => toBoolC
  | .int => toIntC
  | .real => toRealC

/-- The scalar conversion of `COPY` from kind `ka` to kind `kb`: it depends on
    the target's range type only (the source's type is carried by the value);
    +infinity is kept (an EV+ target holds it; for other targets see `convExact`). -/
def conv (_ka kb : Kind) (v : Val) : Val := convTo kb.range v

/-- is `v` a value a function of kind `k` can take? -/
def hasKind (k : Kind) : Val → Bool
  | .b _ => k.range == .bool
  | .i _ => k.range == .int
  | .r _ _ => k.range == .real
  | .inf => k.lab == .evp || k.lab == .idx

/-- Where the library's copy IS the scalar conversion `conv`: the value is not
    +infinity, or the selected implementation keeps +infinity. (Outside: F-C10-1.) -/
def convExact (ka kb : Kind) (same : Bool) (v : Val) : Bool :=
  v != .inf ||
  match copyImpl ka kb same with
  | .ok impl => impl.keepsInf
  | .error _ => false

/-- pairs for which copying there and back loses nothing, for every value of the source kind -/
def lossless (ka kb : Kind) : Bool :=
  match ka.range, kb.range with
  | .bool, _ => true
  | .int, .int => true
  | .int, .real => true
  | .real, .real => true
  | _, _ => false

/-! ## Property theorems -/

/-- The factory accepts exactly the pairs of the same set/relation shape: for legal kinds in
    two distinct forests over one domain, `COPY` is supported iff both are sets or both are relations. -/
theorem copySupported_iff (ka kb : Kind) (ha : ka.legal = true) (hb : kb.legal = true) :
    copySupported ka kb = (ka.rel == kb.rel) := by
  obtain ⟨ra, ga, la, ua⟩ := ka
  obtain ⟨rb, gb, lb, ub⟩ := kb
  by_cases hr : ra = rb
  · subst hr
    cases la <;> cases ga <;> simp [Kind.legal] at ha <;>
      cases lb <;> cases gb <;> simp [Kind.legal] at hb <;>
      simp [copySupported, copyImpl]
  · have h1 : (ra != rb) = true := by simp [bne_iff_ne, hr]
    have h2 : (ra == rb) = false := by simp [hr]
    simp [copySupported, copyImpl, h1, h2]

example : copySupported ⟨false, .int, .evp, .fully⟩ ⟨false, .real, .mt, .quasi⟩ = true := by decide
example : copySupported ⟨false, .bool, .mt, .fully⟩ ⟨true, .bool, .mt, .fully⟩ = false := by decide
example : copyImpl ⟨false, .int, .idx, .fully⟩ ⟨false, .int, .idx, .fully⟩ false = .ok .evPushPlus := by rfl

/-- A set/relation mismatch is refused with TYPE_MISMATCH, whatever else holds. -/
theorem copy_shape_mismatch (ka kb : Kind) (same : Bool) (h : ka.rel ≠ kb.rel) :
    copyImpl ka kb same = .error "TYPE_MISMATCH" := by
  unfold copyImpl
  have : (ka.rel != kb.rel) = true := by simp [bne_iff_ne, h]
  simp [this]

example : copyImpl ⟨true, .real, .evt, .ident⟩ ⟨false, .real, .mt, .fully⟩ false = .error "TYPE_MISMATCH" := by rfl

/-- The conversion produces values of the target kind (finite values stay finite). -/
theorem conv_hasKind (ka kb : Kind) (v : Val) (hv : v ≠ .inf) :
    hasKind kb (conv ka kb v) = true ∧ conv ka kb v ≠ .inf := by
  obtain ⟨rb, gb, lb, ub⟩ := kb
  cases gb <;> cases v <;> simp_all [conv, convTo, toBoolC, toIntC, toRealC, hasKind]

example : conv ⟨false, .real, .mt, .fully⟩ ⟨false, .int, .evp, .fully⟩ (.r (-3) 1) = .i (-1) := by decide
example : conv ⟨false, .real, .mt, .fully⟩ ⟨false, .int, .mt, .fully⟩ (.r 7 2) = .i 1 := by decide
example : conv ⟨false, .int, .mt, .fully⟩ ⟨false, .bool, .mt, .fully⟩ (.i (-2)) = .b true := by decide
example : conv ⟨false, .bool, .mt, .fully⟩ ⟨false, .int, .evp, .fully⟩ (.b false) = .i 0 := by decide

/-- Lossless pairs: converting a value of the source kind there and back gives the value itself
    (bool ↔ 0/1, int ↔ integral real, same range type), including +infinity. -/
theorem conv_roundtrip (ka kb : Kind) (hl : lossless ka kb = true) (v : Val)
    (hv : hasKind ka v = true) : conv kb ka (conv ka kb v) = v := by
  obtain ⟨ra, ga, la, ua⟩ := ka
  obtain ⟨rb, gb, lb, ub⟩ := kb
  cases ga <;> cases gb <;> cases v <;>
    simp_all [conv, convTo, toBoolC, toIntC, toRealC, hasKind, lossless, truncReal]
  all_goals (rename_i b; cases b <;> simp)

example : conv ⟨false, .int, .mt, .fully⟩ ⟨false, .real, .mt, .quasi⟩ (.i (-5)) = .r (-5) 0 ∧
    conv ⟨false, .real, .mt, .quasi⟩ ⟨false, .int, .mt, .fully⟩ (.r (-5) 0) = .i (-5) := by decide
/-- real → int → real is lossy: 3/2 comes back as 1 -/
example : conv ⟨false, .int, .mt, .fully⟩ ⟨false, .real, .mt, .fully⟩
    (conv ⟨false, .real, .mt, .fully⟩ ⟨false, .int, .mt, .fully⟩ (.r 3 1)) = .r 1 0 := by decide

end Spec

#print axioms Spec.copySupported_iff
#print axioms Spec.copy_shape_mismatch
#print axioms Spec.conv_hasKind
#print axioms Spec.conv_roundtrip
/- Output (Lean 4.33.0):
'Meddly.Spec.copySupported_iff' depends on axioms: [propext, Quot.sound]
'Meddly.Spec.copy_shape_mismatch' depends on axioms: [propext]
'Meddly.Spec.conv_hasKind' depends on axioms: [propext]
'Meddly.Spec.conv_roundtrip' depends on axioms: [propext, Quot.sound]
-/

end Meddly
