/-
  Closed form of rank <-> member for PRODUCT sets  { x : x_k ∈ A_k for every k }  (C15, large index sets).

  Family `index` converts product sets with far more than 2^32 members into index sets; no table of such
  a set can be written down, so the acceptor (Driver/P_Index.lean, `stepProd`) uses the closed form below as
  its oracle.  The theorems make that oracle a verified one:

  * `elem_mem`        : `elem p i` picks its k-th digit from A_k
  * `rank_elem`       : `rank p (elem p i) = some i`  for i < card p                (left inverse)
  * `elem_rank`       : `rank p ds = some i → elem p i = ds ∧ i < card p`            (right inverse)
  * `elem_strictMono` : i < j < card p → elem p i <lex elem p j                      (order isomorphism)
  * `rank_none_iff`   : rank is `none` exactly on the assignments that are not members

  so `elem` is THE order isomorphism between [0, card p) and the members in lexicographic order (top
  variable most significant): the member of index i has exactly i members before it, which is the
  specification `IndexSet.indexSpec` of CONVERT_TO_INDEX_SET.
-/
namespace Meddly
namespace ProdSet

/-- per variable (top first): its size and the SORTED list of allowed values -/
abbrev Prod := List (Nat × List Nat)

def card : Prod → Nat
  | [] => 1
  | (_, vals) :: rest => vals.length * card rest

/-- the member of rank `i`: mixed radix over the |A_k|, digits mapped through the sorted A_k -/
def elem : Prod → Nat → List Nat
  | [], _ => []
  | (_, vals) :: rest, i => vals.getD (i / card rest) 0 :: elem rest (i % card rest)

/-- position of `d` in `vals` -/
def pos (d : Nat) : List Nat → Option Nat
  | [] => none
  | v :: vs => if v = d then some 0 else (pos d vs).map (· + 1)

/-- rank of an assignment; `none` when it is not a member (or has the wrong length) -/
def rank : Prod → List Nat → Option Nat
  | [], [] => some 0
  | (_, vals) :: rest, d :: ds =>
    match pos d vals, rank rest ds with
    | some q, some r => some (q * card rest + r)
    | _, _ => none
  | _, _ => none

/-- membership -/
def mem : Prod → List Nat → Prop
  | [], [] => True
  | (_, vals) :: rest, d :: ds => d ∈ vals ∧ mem rest ds
  | _, _ => False

/-- strictly increasing -/
def sorted : List Nat → Prop
  | [] => True
  | [_] => True
  | a :: b :: rest => a < b ∧ sorted (b :: rest)

def wf : Prod → Prop
  | [] => True
  | (_, vals) :: rest => sorted vals ∧ wf rest

/-- lexicographic order on assignments of equal length -/
def lexLt : List Nat → List Nat → Prop
  | a :: as, b :: bs => a < b ∨ (a = b ∧ lexLt as bs)
  | _, _ => False

/-! ### sorted lists -/

theorem sorted_tail {a : Nat} {l : List Nat} (h : sorted (a :: l)) : sorted l := by
  cases l with
  | nil => trivial
  | cons b rest => exact h.2

theorem sorted_head_lt {a : Nat} : ∀ {l : List Nat}, sorted (a :: l) → ∀ x ∈ l, a < x
  | [], _, x, hx => by simp at hx
  | b :: rest, h, x, hx => by
    rcases List.mem_cons.1 hx with rfl | hx'
    · exact h.1
    · have hb := sorted_head_lt (a := b) h.2 x hx'
      exact Nat.lt_trans h.1 hb

theorem getD_mem {l : List Nat} {q : Nat} (hq : q < l.length) : l.getD q 0 ∈ l := by
  simp [List.getD_eq_getElem?_getD, List.getElem?_eq_getElem hq]

theorem pos_getD : ∀ {l : List Nat}, sorted l → ∀ {q : Nat}, q < l.length → pos (l.getD q 0) l = some q
  | [], _, q, hq => by simp at hq
  | v :: vs, hs, 0, _ => by simp [pos]
  | v :: vs, hs, q + 1, hq => by
    have hq' : q < vs.length := by simpa using hq
    have hm : vs.getD q 0 ∈ vs := getD_mem hq'
    have hlt := sorted_head_lt hs _ hm
    have hne : ¬ (v = vs.getD q 0) := by omega
    have ih := pos_getD (sorted_tail hs) hq'
    simp only [List.getD_cons_succ, pos, hne, if_false, ih, Option.map_some]

theorem pos_some : ∀ {l : List Nat} {d q : Nat}, pos d l = some q → q < l.length ∧ l.getD q 0 = d
  | [], d, q, h => by simp [pos] at h
  | v :: vs, d, q, h => by
    by_cases e : v = d
    · simp only [pos, e, if_true, Option.some.injEq] at h
      subst h; subst e; simp
    · simp only [pos, e, if_false] at h
      cases hp : pos d vs with
      | none => simp [hp] at h
      | some q' =>
        simp only [hp, Option.map_some, Option.some.injEq] at h
        subst h
        obtain ⟨h1, h2⟩ := pos_some hp
        exact ⟨by simpa using h1, by simpa using h2⟩

theorem pos_none_iff : ∀ {l : List Nat} {d : Nat}, pos d l = none ↔ d ∉ l
  | [], d => by simp [pos]
  | v :: vs, d => by
    by_cases e : v = d
    · subst e; simp [pos]
    · have ih := pos_none_iff (l := vs) (d := d)
      have e' : ¬ d = v := fun h => e h.symm
      simp only [pos, e, if_false, Option.map_eq_none_iff, ih, List.mem_cons, e', false_or]

theorem getD_strictMono : ∀ {l : List Nat}, sorted l → ∀ {a b : Nat}, a < b → b < l.length →
    l.getD a 0 < l.getD b 0
  | [], _, a, b, _, hb => by simp at hb
  | v :: vs, hs, 0, b + 1, _, hb => by
    have hb' : b < vs.length := by simpa using hb
    simpa using sorted_head_lt hs _ (getD_mem hb')
  | v :: vs, hs, a + 1, b + 1, hab, hb => by
    have hb' : b < vs.length := by simpa using hb
    simpa using getD_strictMono (sorted_tail hs) (Nat.lt_of_succ_lt_succ hab) hb'

/-! ### the isomorphism -/

theorem card_pos_of_lt : ∀ {p : Prod} {i : Nat}, i < card p → 0 < card p := by
  intro p i h; omega

theorem quot_lt {len w i : Nat} (h : i < len * w) : i / w < len ∧ 0 < w := by
  have hw : 0 < w := by
    cases w with
    | zero => simp at h
    | succ n => omega
  exact ⟨(Nat.div_lt_iff_lt_mul hw).2 h, hw⟩

theorem elem_mem : ∀ {p : Prod} {i : Nat}, i < card p → mem p (elem p i)
  | [], _, _ => trivial
  | (_, vals) :: rest, i, h => by
    obtain ⟨hq, hw⟩ := quot_lt (len := vals.length) (w := card rest) h
    exact ⟨getD_mem hq, elem_mem (Nat.mod_lt _ hw)⟩

theorem rank_elem : ∀ {p : Prod}, wf p → ∀ {i : Nat}, i < card p → rank p (elem p i) = some i
  | [], _, i, h => by
    have : i = 0 := by simp [card] at h; omega
    simp [elem, rank, this]
  | (_, vals) :: rest, hwf, i, h => by
    obtain ⟨hq, hw⟩ := quot_lt (len := vals.length) (w := card rest) h
    have hp := pos_getD hwf.1 hq
    have ih := rank_elem hwf.2 (Nat.mod_lt i hw)
    simp only [elem, rank, hp, ih]
    congr 1
    rw [Nat.mul_comm]
    exact Nat.div_add_mod i (card rest)

theorem rank_lt : ∀ {p : Prod} {ds : List Nat} {i : Nat}, rank p ds = some i → i < card p
  | [], [], i, h => by simp [rank] at h; subst h; simp [card]
  | [], _ :: _, i, h => by simp [rank] at h
  | _ :: _, [], i, h => by simp [rank] at h
  | (_, vals) :: rest, d :: ds, i, h => by
    cases hp : pos d vals with
    | none => simp [rank, hp] at h
    | some q =>
      cases hr : rank rest ds with
      | none => simp [rank, hp, hr] at h
      | some r =>
        simp only [rank, hp, hr, Option.some.injEq] at h
        subst h
        have hq := (pos_some hp).1
        have hrl := rank_lt hr
        show q * card rest + r < vals.length * card rest
        calc q * card rest + r < q * card rest + card rest := by omega
          _ = (q + 1) * card rest := by rw [Nat.add_mul, Nat.one_mul]
          _ ≤ vals.length * card rest := Nat.mul_le_mul_right _ hq

theorem elem_rank : ∀ {p : Prod} {ds : List Nat} {i : Nat}, rank p ds = some i → elem p i = ds
  | [], [], i, _ => by simp [elem]
  | [], _ :: _, i, h => by simp [rank] at h
  | _ :: _, [], i, h => by simp [rank] at h
  | (_, vals) :: rest, d :: ds, i, h => by
    cases hp : pos d vals with
    | none => simp [rank, hp] at h
    | some q =>
      cases hr : rank rest ds with
      | none => simp [rank, hp, hr] at h
      | some r =>
        simp only [rank, hp, hr, Option.some.injEq] at h
        subst h
        have hrl := rank_lt hr
        have hw : 0 < card rest := by omega
        have hdiv : (q * card rest + r) / card rest = q := by
          rw [Nat.mul_comm, Nat.mul_add_div hw, Nat.div_eq_of_lt hrl, Nat.add_zero]
        have hmod : (q * card rest + r) % card rest = r := by
          rw [Nat.mul_comm, Nat.mul_add_mod, Nat.mod_eq_of_lt hrl]
        simp only [elem, hdiv, hmod, (pos_some hp).2, elem_rank hr]

theorem rank_none_iff : ∀ {p : Prod} {ds : List Nat}, rank p ds = none ↔ ¬ mem p ds
  | [], [] => by simp [rank, mem]
  | [], _ :: _ => by simp [rank, mem]
  | _ :: _, [] => by simp [rank, mem]
  | (_, vals) :: rest, d :: ds => by
    have ih := rank_none_iff (p := rest) (ds := ds)
    cases hp : pos d vals with
    | none =>
      have := (pos_none_iff).1 hp
      simp [rank, hp, mem, this]
    | some q =>
      have hin : d ∈ vals := by
        have := pos_some hp
        rw [← this.2]; exact getD_mem this.1
      cases hr : rank rest ds with
      | none =>
        have := ih.1 hr
        simp [rank, hp, hr, mem, this]
      | some r =>
        have : mem rest ds := by
          by_cases hm : mem rest ds
          · exact hm
          · have := ih.2 hm; simp [hr] at this
        simp [rank, hp, hr, mem, hin, this]

theorem elem_strictMono : ∀ {p : Prod}, wf p → ∀ {i j : Nat}, i < j → j < card p →
    lexLt (elem p i) (elem p j)
  | [], _, i, j, hij, hj => by simp [card] at hj; omega
  | (_, vals) :: rest, hwf, i, j, hij, hj => by
    obtain ⟨hqj, hw⟩ := quot_lt (len := vals.length) (w := card rest) hj
    have hle : i / card rest ≤ j / card rest := Nat.div_le_div_right (Nat.le_of_lt hij)
    simp only [elem, lexLt]
    by_cases hq : i / card rest < j / card rest
    · exact Or.inl (getD_strictMono hwf.1 hq hqj)
    · have heq : i / card rest = j / card rest := by omega
      refine Or.inr ⟨by rw [heq], ?_⟩
      have hi := Nat.div_add_mod i (card rest)
      have hjm := Nat.div_add_mod j (card rest)
      have hlt : i % card rest < j % card rest := by
        rw [heq] at hi
        omega
      exact elem_strictMono hwf.2 hlt (Nat.mod_lt _ hw)

/-- non-vacuity: a concrete product set, its 12 members in order, ranks back -/
def P0 : Prod := [(4, [0, 1, 3]), (3, [1, 2]), (5, [0, 4])]
example : card P0 = 12 := by decide
example : (List.range 12).map (elem P0) =
    [[0,1,0],[0,1,4],[0,2,0],[0,2,4],[1,1,0],[1,1,4],[1,2,0],[1,2,4],[3,1,0],[3,1,4],[3,2,0],[3,2,4]] := by decide
example : rank P0 [3, 1, 4] = some 9 ∧ rank P0 [2, 1, 4] = none := by decide

end ProdSet
end Meddly
