/-
  C08 on tables: the specification of the reachability operations for the driver.

  A set over K variables is a table over the K positions (index digit 1 = variable 1);
  a relation is a table over the 2K positions (2k = unprimed variable k, 2k-1 = primed
  variable k).  State number = set-table index.  The functions below are the
  definitions of `MeddlyModel/Ops/Reach.lean` instantiated at `σ := Fin n`,
  `states := List.finRange n`.

  Conventions for the distance-valued variants (tests/kan_chkrs.cc):
    * MT integer sets: value `d ≥ 0` = distance, any negative value = unreachable
      (the library produces -1);
    * EV+ sets: `d` = distance, `inf` = unreachable.
  An initial "set" of a distance variant is itself a distance function (normally 0
  on the initial states); the result is `min over x (init x + δ(x, s))`, computed as
  the minimum over the distinct start offsets `o` of `o + dist from {x | init x = o}`.
-/
import MeddlyModel.Spec.Tables
import MeddlyModel.Ops.Reach

namespace Meddly
namespace Spec
namespace ReachTables
open Reach

/-- number of states of a domain -/
def nStates (dom : Array Nat) : Nat := card dom

/-- index of the pair `(a, b)` (from, to) in the relation table: per variable the digit pair
    (primed = to-digit, unprimed = from-digit), primed less significant -/
def relIndex (dom : Array Nat) (a b : Nat) : Nat :=
  let da := digits dom a
  let db := digits dom b
  let ds : Array Nat := (Array.range dom.size).foldl (fun acc k => (acc.push (db.getD k 0)).push (da.getD k 0)) #[]
  undigits (posSizes dom true) ds

/-- adjacency matrix of a relation table -/
def adjOf (dom : Array Nat) (rel : Table) : Array (Array Bool) :=
  let n := nStates dom
  (Array.range n).map (fun a => (Array.range n).map (fun b => rel.getD (relIndex dom a b) (.b false) == .b true))

def relOf (n : Nat) (adj : Array (Array Bool)) (fwd : Bool) : Fin n → Fin n → Bool :=
  if fwd then fun a b => (adj.getD a.val #[]).getD b.val false
  else fun a b => (adj.getD b.val #[]).getD a.val false

/-- start offset of a state in an initial table: `none` = not an initial state -/
def startOf (v : Val) : Option Nat :=
  match v with
  | .b true => some 0
  | .i d => if d ≥ 0 then some d.toNat else none
  | _ => none

def initStates (n : Nat) (init : Table) (o : Nat) : List (Fin n) :=
  (List.finRange n).filter (fun s => startOf (init.getD s.val (.b false)) == some o)

/-- the reachable states, as a list of state numbers -/
def reachList (n : Nat) (R : Fin n → Fin n → Bool) (init : List (Fin n)) : List (Fin n) :=
  lfp (List.finRange n) R init

/-- shortest distances of all states (layers computed once) -/
def distList (n : Nat) (R : Fin n → Fin n → Bool) (init : List (Fin n)) : List (Option Nat) :=
  let L := layers (List.finRange n) R init n (norm (List.finRange n) init)
  (List.finRange n).map (distIn L)

/-- boolean reachability on tables -/
def reachTable (dom : Array Nat) (fwd : Bool) (init rel : Table) : Table :=
  let n := nStates dom
  let R := relOf n (adjOf dom rel) fwd
  let res := reachList n R (initStates n init 0)
  ((List.finRange n).map (fun s => Val.b (decide (s ∈ res)))).toArray

def omin : Option Nat → Option Nat → Option Nat := dmin

/-- distances on tables; `unreach` is the value of unreachable states -/
def distTable (dom : Array Nat) (fwd : Bool) (unreach : Val) (init rel : Table) : Table :=
  let n := nStates dom
  let R := relOf n (adjOf dom rel) fwd
  let offs : List Nat := ((init.toList.filterMap startOf).foldl (fun acc o => if acc.contains o then acc else o :: acc) [])
  let per : List (List (Option Nat)) :=
    offs.map (fun o => (distList n R (initStates n init o)).map (fun d => d.map (· + o)))
  let best : List (Option Nat) :=
    (List.range n).map (fun i => per.foldl (fun acc col => omin acc (col.getD i none)) none)
  (best.map (fun d => match d with | some k => Val.i k | none => unreach)).toArray

def reachFwd (dom : Array Nat) (init rel : Table) : Table := reachTable dom true init rel
def reachBwd (dom : Array Nat) (init rel : Table) : Table := reachTable dom false init rel
/-- MT integer: unreachable = -1 ; EV+: unreachable = inf -/
def distFwd (dom : Array Nat) (evplus : Bool) (init rel : Table) : Table :=
  distTable dom true (if evplus then .inf else .i (-1)) init rel
def distBwd (dom : Array Nat) (evplus : Bool) (init rel : Table) : Table :=
  distTable dom false (if evplus then .inf else .i (-1)) init rel

theorem complete_finRange (n : Nat) : Complete (List.finRange n) := fun s => List.mem_finRange s

/-- the driver's boolean specification is reachability in zero or more steps -/
theorem reachList_spec (n : Nat) (R : Fin n → Fin n → Bool) (init : List (Fin n)) (s : Fin n) :
    s ∈ reachList n R init ↔ Reachable R init s :=
  lfpIter_spec (complete_finRange n) s

/-- the driver's distance specification is the shortest path length -/
theorem distList_spec (n : Nat) (R : Fin n → Fin n → Bool) (init : List (Fin n)) :
    distList n R init = (List.finRange n).map (dist (List.finRange n) R init) := by
  unfold distList dist
  simp

example : reachList 4 (fun a b => decide (b.val = a.val + 1 ∧ a.val < 2)) [0] = [0, 1, 2] := by decide

example : distList 4 (fun a b => decide (b.val = a.val + 1 ∧ a.val < 2)) [0] = [some 0, some 1, some 2, none] := by decide

-- table-level sanity (evaluated at build time): relation 0>1, 1>2 on domain (2,2), forward from {0}
#guard reachFwd #[2, 2] #[.b true, .b false, .b false, .b false]
    ((Array.range 16).map (fun i => Val.b (i == relIndex #[2,2] 0 1 || i == relIndex #[2,2] 1 2)))
    == #[.b true, .b true, .b true, .b false]
#guard distBwd #[2, 2] true #[.inf, .inf, .i 0, .inf]
    ((Array.range 16).map (fun i => Val.b (i == relIndex #[2,2] 0 1 || i == relIndex #[2,2] 1 2)))
    == #[.i 2, .i 1, .i 0, .inf]
-- relIndex agrees with the harness: pair (from 1, to 2) on (2,2): digits from=(1,0) to=(0,1)
#guard relIndex #[2, 2] 1 2 == 6

end ReachTables
end Spec
end Meddly
