/-
  Layer 0 specification of the one-step image operators and of the
  vector–matrix products (C09), on explicit tables.

  A set / distance function / vector over K variables is a table over the
  positions K..1; a relation / matrix is a table over the positions 2K..1,
  position 2k = unprimed x_k ("from"), position 2k-1 = primed x'_k ("to").
  A pair of set-table indices (x, y) therefore sits at the relation-table index
  whose digits are  y₁ x₁ y₂ x₂ … (least significant first): `pairIndex`.

    postImage s r  y  ⇔  ∃ x, s x ∧ r (x,y)          preImage s r x ⇔ ∃ y, s y ∧ r (x,y)
    distance variants:  1 + min { d x | d x reachable, r (x,y) }   or "unreachable"
         MT integer: every negative value means unreachable; the result uses -1
         EV+       : +infinity means unreachable
    vmMult v m  y  =  Σ_x v x * m (x,y)              mvMult m v x  =  Σ_y m (x,y) * v y
-/
import MeddlyModel.Spec.Tables

namespace Meddly
namespace Spec

/-- index in the relation table of the pair (from-state `x`, to-state `y`): the digits of the
    relation index are y₁ x₁ y₂ x₂ … (position 2k-1 = primed = `y`, position 2k = unprimed = `x`), i.e.
    `undigits (posSizes dom true) [y₁, x₁, y₂, x₂, …]`, computed here variable by variable -/
def pairIndex (dom : Array Nat) (x y : Nat) : Nat :=
  let dx := digits dom x
  let dy := digits dom y
  ((Array.range dom.size).foldl (fun (acc : Nat × Nat) k =>
      let sz := dom.getD k 1
      (acc.1 + (dy.getD k 0 + sz * dx.getD k 0) * acc.2, acc.2 * sz * sz)) (0, 1)).1

/-- number of states -/
def nStates (dom : Array Nat) : Nat := card (posSizes dom false)

/-- is there an edge?  (boolean relations: `T`; the library treats every non-zero entry of an
    integer / real valued relation as an edge) -/
def isEdge : Val → Bool
  | .b v => v
  | .i v => v != 0
  | .r n _ => n != 0
  | .inf => false

/-- entry of the relation for the step from `x` to `y`; `fwd = false` swaps the roles
    (the result state is then the source of the edge) -/
def relEntry (dom : Array Nat) (r : Table) (fwd : Bool) (operand result : Nat) : Val :=
  if fwd then r.getD (pairIndex dom operand result) default
  else r.getD (pairIndex dom result operand) default

/-! ### sets -/

/-- boolean image: `fwd` = post-image, otherwise pre-image -/
def imageBool (dom : Array Nat) (fwd : Bool) (s r : Table) : Table :=
  let n := nStates dom
  Array.mk <| (List.range n).map fun res =>
    Val.b ((List.range n).any fun x => s.getD x default == Val.b true && isEdge (relEntry dom r fwd x res))

def postImage (dom : Array Nat) (s r : Table) : Table := imageBool dom true s r
def preImage (dom : Array Nat) (s r : Table) : Table := imageBool dom false s r

/-! ### distances -/

/-- minimum of a list of candidate distances, `none` when there is none -/
def minOpt (l : List Int) : Option Int :=
  l.foldl (fun acc d => match acc with | none => some d | some m => some (if d < m then d else m)) none

/-- candidate distances for result state `res`: `d x + 1` for every reachable `x` with an edge -/
def candidates (dom : Array Nat) (fwd : Bool) (dist : Val → Option Int) (s r : Table) (res : Nat) : List Int :=
  (List.range (nStates dom)).filterMap fun x =>
    match dist (s.getD x default) with
    | some d => if isEdge (relEntry dom r fwd x res) then some (d + 1) else none
    | none => none

/-- MT integer distance functions: negative = unreachable -/
def distMT : Val → Option Int
  | .i d => if d < 0 then none else some d
  | _ => none

/-- EV+ distance functions: +infinity = unreachable -/
def distEV : Val → Option Int
  | .i d => some d
  | _ => none

def imageDistMT (dom : Array Nat) (fwd : Bool) (s r : Table) : Table :=
  Array.mk <| (List.range (nStates dom)).map fun res =>
    match minOpt (candidates dom fwd distMT s r res) with
    | some m => Val.i m
    | none => Val.i (-1)

def imageDistEV (dom : Array Nat) (fwd : Bool) (s r : Table) : Table :=
  Array.mk <| (List.range (nStates dom)).map fun res =>
    match minOpt (candidates dom fwd distEV s r res) with
    | some m => Val.i m
    | none => Val.inf

/-- two MT-integer distance tables agree when they agree up to the choice of the negative value -/
def distAgree (a b : Table) : Bool :=
  a.size == b.size && (List.range a.size).all fun i =>
    match a.getD i default, b.getD i default with
    | .i x, .i y => (x < 0 && y < 0) || x == y
    | _, _ => false

/-! ### vector–matrix products -/

/-- exact arithmetic on values: integers, and dyadic rationals `n / 2^e` -/
def vAdd : Val → Val → Val
  | .i a, .i b => .i (a + b)
  | .r n1 e1, .r n2 e2 =>
    let e := if e1 < e2 then e2 else e1
    .r (n1 * 2 ^ (e - e1).toNat + n2 * 2 ^ (e - e2).toNat) e
  | .i a, .r n e => .r (a * 2 ^ e.toNat + n) (if e < 0 then 0 else e)     -- only used with e ≥ 0
  | .r n e, .i a => .r (a * 2 ^ e.toNat + n) (if e < 0 then 0 else e)
  | a, _ => a

def vMul : Val → Val → Val
  | .i a, .i b => .i (a * b)
  | .r n1 e1, .r n2 e2 => .r (n1 * n2) (e1 + e2)
  | .i a, .r n e => .r (a * n) e
  | .r n e, .i a => .r (a * n) e
  | a, _ => a

/-- conversion of a matrix entry to the element type of the vector (`real = true`: reals) -/
def toElem (real : Bool) : Val → Val
  | .b v => if real then .r (if v then 1 else 0) 0 else .i (if v then 1 else 0)
  | .i v => if real then .r v 0 else .i v
  | .r n e =>
    if real then .r n e
    else -- C conversion float → int: truncation toward zero
      let d : Int := 2 ^ e.toNat
      .i (if e < 0 then n * 2 ^ (-e).toNat else if n < 0 then -((-n) / d) else n / d)
  | .inf => .inf

def zeroElem (real : Bool) : Val := if real then .r 0 0 else .i 0

/-- `fwd`: y ↦ Σ_x v x * m (x,y)   (vector–matrix);  otherwise x ↦ Σ_y m (x,y) * v y  (matrix–vector) -/
def vecMat (dom : Array Nat) (fwd real : Bool) (v m : Table) : Table :=
  let n := nStates dom
  Array.mk <| (List.range n).map fun res =>
    (List.range n).foldl
      (fun acc x => vAdd acc (vMul (v.getD x default) (toElem real (relEntry dom m fwd x res))))
      (zeroElem real)

def vmMult (dom : Array Nat) (real : Bool) (v m : Table) : Table := vecMat dom true real v m
def mvMult (dom : Array Nat) (real : Bool) (m v : Table) : Table := vecMat dom false real v m

/-! ### sanity examples (2 variables of sizes 2 and 3; state index = x₁ + 2·x₂) -/

section Examples
private def dom23 : Array Nat := #[2, 3]

/-- digits of the relation index: y₁ x₁ y₂ x₂ -/
example : pairIndex dom23 0 0 = 0 := by decide
example : pairIndex dom23 1 0 = 2 := by decide           -- x₁ = 1  → position 2 (stride 2)
example : pairIndex dom23 0 1 = 1 := by decide           -- y₁ = 1  → position 1 (stride 1)
example : pairIndex dom23 2 0 = 12 := by decide          -- x₂ = 1  → position 4 (stride 2·2·3)
example : pairIndex dom23 0 2 = 4 := by decide           -- y₂ = 1  → position 3 (stride 2·2)
example : pairIndex dom23 5 5 = 35 := by decide

private def domB : Array Nat := #[2]
/-- relation {0→1}: entries in order (x,y) = (0,0) (0,1) (1,0) (1,1) -/
private def r01 : Table := #[.b false, .b true, .b false, .b false]
example : postImage domB #[.b true, .b false] r01 = #[.b false, .b true] := by decide
example : preImage domB #[.b false, .b true] r01 = #[.b true, .b false] := by decide
example : postImage domB #[.b false, .b true] r01 = #[.b false, .b false] := by decide
example : imageDistMT domB true #[.i 3, .i (-1)] r01 = #[.i (-1), .i 4] := by decide
example : imageDistMT domB true #[.i (-2), .i 0] r01 = #[.i (-1), .i (-1)] := by decide
example : imageDistEV domB false #[.inf, .i 0] r01 = #[.i 1, .inf] := by decide
example : vmMult domB false #[.i 2, .i 5] #[.i 1, .i 3, .i 0, .i (-1)] = #[.i 2, .i 1] := by decide
example : mvMult domB false #[.i 1, .i 3, .i 0, .i (-1)] #[.i 2, .i 5] = #[.i 17, .i (-5)] := by decide
end Examples

end Spec
end Meddly
