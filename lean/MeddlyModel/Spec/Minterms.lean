/-
  Layer 0 specification of the *construction* API (C03):
    minterm::buildFunction, minterm_coll::buildFunctionMax / buildFunctionMin,
    forest::createConstant, forest::createEdgeForVar.

  A minterm gives, for every *position* (see Core/DD.lean: position = level for
  sets; position 2k = unprimed level k, position 2k-1 = primed level k for
  relations), one of
    * `fixed v`     the variable must have value v,
    * `dontCare`    any value            (MEDDLY::DONT_CARE  = -1),
    * `dontChange`  primed positions only: the primed value must equal the
                    unprimed value of the same variable (MEDDLY::DONT_CHANGE = -2),
  plus a function value.

  The specification is the documented one (minterms.h):
    the function built from a collection has, at an assignment, the maximum
    (resp. minimum) of the values of the minterms that match the assignment and
    the default value where no minterm matches.
  Max / min are abstracted as a binary operation `op` (commutative, associative,
  idempotent); the instances for integers, integers with +infinity (EV+) and
  Booleans are at the end of the file.
-/
import MeddlyModel.Core.DD

namespace Meddly
namespace Spec

inductive Entry where
  | fixed (v : Nat)
  | dontCare
  | dontChange
  deriving DecidableEq, Repr, Inhabited

/-- A minterm: entry `ent[p-1]` for position `p` (missing entries: don't care) and a value. -/
structure Minterm (α : Type) where
  ent : List Entry
  val : α
  deriving Repr, Inhabited

variable {α : Type}

/-- entry at position `p ≥ 1` -/
def Minterm.at (m : Minterm α) (p : Nat) : Entry := m.ent.getD (p - 1) .dontCare

/-- does assignment `a` satisfy entry `e` at position `p`? -/
def entryOK (e : Entry) (a : Assign) (p : Nat) : Bool :=
  match e with
  | .fixed v => a p == v
  | .dontCare => true
  | .dontChange => a p == a (p + 1)

/-- `a` agrees with `m` on positions `1..k` -/
def matchesUpTo (m : Minterm α) (a : Assign) : Nat → Bool
  | 0 => true
  | k+1 => entryOK (m.at (k+1)) a (k+1) && matchesUpTo m a k

/-- `a` matches minterm `m` (over positions `1..top`) -/
def matchesM (top : Nat) (m : Minterm α) (a : Assign) : Bool := matchesUpTo m a top

/-- combine a non-empty list with `op`; `none` for the empty list -/
def foldOpt (op : α → α → α) : List α → Option α
  | [] => none
  | v :: vs => some (vs.foldl op v)

/-- **Specification of `minterm::buildFunction`**: the minterm's value where it matches,
    the default elsewhere. -/
def specSingle (top : Nat) (m : Minterm α) (dflt : α) (a : Assign) : α :=
  if matchesM top m a then m.val else dflt

/-- **Specification of `minterm_coll::buildFunctionMax/Min`** (`op` = max / min): `op` over the
    values of all matching minterms, the default if there is none. -/
def specColl (op : α → α → α) (top : Nat) (ms : List (Minterm α)) (dflt : α) (a : Assign) : α :=
  (foldOpt op ((ms.filter (fun m => matchesM top m a)).map (·.val))).getD dflt

/-- **Specification of `forest::createConstant`** -/
def specConst (v : α) (_a : Assign) : α := v

/-- **Specification of `forest::createEdgeForVar`**: `terms[value of the variable at position p]` -/
def specVar (terms : Nat → α) (p : Nat) (a : Assign) : α := terms (a p)

/-- The laws of max / min that the builder relies on. -/
structure SemiLat (op : α → α → α) : Prop where
  comm : ∀ x y, op x y = op y x
  assoc : ∀ x y z, op (op x y) z = op x (op y z)
  idem : ∀ x, op x x = x

/-- The documented contract of `buildFunctionMax` (`deflt ≤` every value) and of
    `buildFunctionMin` (`deflt ≥` every value): the default is neutral for `op` on every
    value of the collection. -/
def defaultOK (op : α → α → α) (dflt : α) (ms : List (Minterm α)) : Prop :=
  ∀ m, m ∈ ms → op dflt m.val = m.val

instance [DecidableEq α] (op : α → α → α) (dflt : α) (ms : List (Minterm α)) :
    Decidable (defaultOK op dflt ms) := by
  unfold defaultOK; exact List.decidableBAll _ ms

/-- Legal set minterms: no `dontChange`. -/
def SetLegal (m : Minterm α) : Prop := ∀ p, m.at p ≠ .dontChange

/-- Legal relation minterms (the `MEDDLY_DCASSERT`s of `minterm::setVars` and of
    `relPathToBottom`): `dontChange` only at primed positions (odd), and only together with
    `dontCare` at the unprimed position of the same variable (`setVars` rewrites
    `(v, DONT_CHANGE)` to `(v, v)`). -/
def RelLegal (m : Minterm α) : Prop :=
  ∀ k, m.at (2*k+2) ≠ .dontChange ∧ (m.at (2*k+1) = .dontChange → m.at (2*k+2) = .dontCare)

/-! ## Value instances -/

/-- integers with +infinity (EV+ forests): `none` = +infinity -/
abbrev IntInf := Option Int

def maxInf : IntInf → IntInf → IntInf
  | none, _ => none
  | _, none => none
  | some a, some b => some (max a b)

def minInf : IntInf → IntInf → IntInf
  | none, y => y
  | x, none => x
  | some a, some b => some (min a b)

theorem semiLat_intMax : SemiLat (max : Int → Int → Int) :=
  ⟨fun x y => by omega, fun x y z => by omega, fun x => by omega⟩
theorem semiLat_intMin : SemiLat (min : Int → Int → Int) :=
  ⟨fun x y => by omega, fun x y z => by omega, fun x => by omega⟩

theorem semiLat_maxInf : SemiLat maxInf := by
  refine ⟨?_, ?_, ?_⟩
  · intro x y; cases x <;> cases y <;> simp [maxInf] <;> omega
  · intro x y z; cases x <;> cases y <;> cases z <;> simp [maxInf] <;> omega
  · intro x; cases x <;> simp [maxInf]

theorem semiLat_minInf : SemiLat minInf := by
  refine ⟨?_, ?_, ?_⟩
  · intro x y; cases x <;> cases y <;> simp [minInf] <;> omega
  · intro x y z; cases x <;> cases y <;> cases z <;> simp [minInf] <;> omega
  · intro x; cases x <;> simp [minInf]

theorem semiLat_or : SemiLat (fun a b : Bool => a || b) :=
  ⟨fun x y => by cases x <;> cases y <;> rfl, fun x y z => by cases x <;> cases y <;> cases z <;> rfl,
   fun x => by cases x <;> rfl⟩
theorem semiLat_and : SemiLat (fun a b : Bool => a && b) :=
  ⟨fun x y => by cases x <;> cases y <;> rfl, fun x y z => by cases x <;> cases y <;> cases z <;> rfl,
   fun x => by cases x <;> rfl⟩

/-- `fbop_max_tmpl::finalize` as written (minterms.cc): scan, stop at +infinity. -/
def finalizeMaxInf : IntInf → List IntInf → IntInf
  | none, _ => none                         -- `if (val.isPlusInfinity()) break;`
  | some v, [] => some v
  | some _, none :: _ => none               -- `if (mci.isPlusInfinity()) { val = mci; break; }`
  | some v, some w :: r => finalizeMaxInf (some (if w > v then w else v)) r

/-- `fbop_min_tmpl::finalize` as written: +infinity entries are skipped, a +infinity
    accumulator is replaced. -/
def finalizeMinInf : IntInf → List IntInf → IntInf
  | v, [] => v
  | v, none :: r => finalizeMinInf v r
  | none, some w :: r => finalizeMinInf (some w) r
  | some v, some w :: r => finalizeMinInf (some (if w < v then w else v)) r

theorem finalizeMaxInf_eq (v : IntInf) (l : List IntInf) : finalizeMaxInf v l = l.foldl maxInf v := by
  induction l generalizing v with
  | nil => cases v <;> rfl
  | cons w r ih =>
    cases v with
    | none =>
      have : ∀ r : List IntInf, r.foldl maxInf none = none := by
        intro r; induction r with
        | nil => rfl
        | cons x r ih => simpa [List.foldl, maxInf] using ih
      simp [finalizeMaxInf, List.foldl, maxInf, this]
    | some v =>
      cases w with
      | none =>
        have : ∀ r : List IntInf, r.foldl maxInf none = none := by
          intro r; induction r with
          | nil => rfl
          | cons x r ih => simpa [List.foldl, maxInf] using ih
        simp [finalizeMaxInf, List.foldl, maxInf, this]
      | some w =>
        simp only [finalizeMaxInf, List.foldl, maxInf]
        rw [ih]
        congr 2
        split <;> omega

theorem finalizeMinInf_eq (v : IntInf) (l : List IntInf) : finalizeMinInf v l = l.foldl minInf v := by
  induction l generalizing v with
  | nil => cases v <;> rfl
  | cons w r ih =>
    cases v <;> cases w <;> simp only [finalizeMinInf, List.foldl, minInf] <;> rw [ih]
    congr 2
    split <;> omega

end Spec
end Meddly

/-
#print axioms (lake env lean, Lean 4.33.0):
'Meddly.Spec.finalizeMaxInf_eq' depends on axioms: [propext, Quot.sound]
'Meddly.Spec.finalizeMinInf_eq' depends on axioms: [propext, Quot.sound]
'Meddly.Spec.semiLat_maxInf' depends on axioms: [propext, Quot.sound]
'Meddly.Spec.semiLat_minInf' depends on axioms: [propext, Quot.sound]
-/
