/-
  Layer 0 for C13: what "the same function of the renamed variables" means on
  explicit tables.

  MEDDLY's minterms are indexed by LEVEL (`dd_edge::evaluate` reads
  `m.from(level)`); after `reorderVariables(level2var)` level `i` holds variable
  `level2var[i]`.  A held edge therefore has two tables:
    * by VARIABLE (index digits = values of variables 1..K): must not change;
    * by LEVEL    (index digits = values of levels 1..K, sizes = level sizes):
      `levelTable` of the former under the current order.
  Positions: sets: level i ↦ position i, variable v ↦ position v;
  relations: (level i, unprimed) ↦ 2i, primed ↦ 2i-1, likewise for variables.
-/
import MeddlyModel.Spec.Tables

namespace Meddly
namespace Spec

/-- `order[i-1]` = variable at level `i`.  Position (by level) ↦ position (by variable). -/
def posMap (rel : Bool) (order : Array Nat) (pL : Nat) : Nat :=
  if rel then
    let lvl := (pL + 1) / 2
    let v := order.getD (lvl - 1) 0
    if pL % 2 == 0 then 2 * v else 2 * v - 1
  else order.getD (pL - 1) 0

/-- sizes of the positions in level order -/
def levelPosSizes (dom : Array Nat) (rel : Bool) (order : Array Nat) : Array Nat :=
  let sv := posSizes dom rel
  (Array.range sv.size).map (fun i => sv.getD (posMap rel order (i + 1) - 1) 1)

/-- index into the by-variable table of the assignment whose by-level index is `idxL` -/
def varIndexOfLevelIndex (dom : Array Nat) (rel : Bool) (order : Array Nat) (idxL : Nat) : Nat :=
  let sv := posSizes dom rel
  let sl := levelPosSizes dom rel order
  let dl := digits sl idxL
  let dv := (Array.range sv.size).foldl
    (fun (acc : Array Nat) i => acc.setIfInBounds (posMap rel order (i + 1) - 1) (dl.getD i 0))
    (Array.replicate sv.size 0)
  undigits sv dv

/-- the by-level table of the function whose by-variable table is `tv` -/
def levelTable (dom : Array Nat) (rel : Bool) (order : Array Nat) (tv : Table) : Table :=
  (Array.range tv.size).map (fun idxL => tv.getD (varIndexOfLevelIndex dom rel order idxL) default)

def isPermutation (order : Array Nat) : Bool :=
  (List.range order.size).all (fun v => order.toList.contains (v + 1))

-- sets, sizes (2,3) by variable, order = [2,1] (level 1 holds variable 2):
-- by-variable index = x1 + 2*x2 ; by-level index = x2 + 3*x1
#guard levelTable #[2, 3] false #[2, 1] #[.i 0, .i 1, .i 2, .i 3, .i 4, .i 5]
    == #[.i 0, .i 2, .i 4, .i 1, .i 3, .i 5]
#guard levelTable #[2, 3] false #[1, 2] #[.i 0, .i 1, .i 2, .i 3, .i 4, .i 5]
    == #[.i 0, .i 1, .i 2, .i 3, .i 4, .i 5]
-- relation over sizes (2,3), order [2,1]: positions by level = (x2', x2, x1', x1)
#guard levelPosSizes #[2, 3] true #[2, 1] == #[3, 3, 2, 2]
#guard (List.range 36).all (fun i => varIndexOfLevelIndex #[2, 3] true #[1, 2] i == i)

end Spec
end Meddly
