/-
  Function values as exchanged between the harness and the model.
  Reals travel as exact dyadic rationals `n / 2^e` (every IEEE float is one).
-/
namespace Meddly

inductive Val where
  | b (v : Bool)
  | i (v : Int)
  | r (n : Int) (e : Int)     -- n / 2^e, normalised by the harness (n odd, or n = 0 ∧ e = 0)
  | inf
  deriving DecidableEq, Repr, Inhabited

namespace Val

def toStr : Val → String
  | .b true => "T"
  | .b false => "F"
  | .i v => toString v
  | .r n e => s!"{n}/{e}"
  | .inf => "inf"

instance : ToString Val := ⟨toStr⟩

def parse (s : String) : Option Val :=
  if s == "T" then some (.b true)
  else if s == "F" then some (.b false)
  else if s == "inf" then some .inf
  else match s.splitOn "/" with
    | [n, e] => do let n ← n.toInt?; let e ← e.toInt?; pure (.r n e)
    | [n] => do let n ← n.toInt?; pure (.i n)
    | _ => none

def toFloat : Val → Float
  | .b v => if v then 1.0 else 0.0
  | .i v => Float.ofInt v
  | .r n e => Float.ofInt n * (if e ≥ 0 then Float.exp2 (-(Float.ofInt e)) else Float.exp2 (Float.ofInt (-e)))
  | .inf => 1.0 / 0.0

/-- approximate equality used for real-valued observations (the library's own
    comparisons are relative 1e-6 .. 1e-8; terminals are rounded to 1e-5). -/
def approxEq (x y : Val) : Bool :=
  match x, y with
  | .r _ _, .r _ _ =>
    let a := x.toFloat; let b := y.toFloat
    let d := Float.abs (a - b)
    -- magnitudes below the terminal precision only occur as EV* values (the generators keep multi-terminal
    -- reals on a coarse grid); there the library's comparison is purely relative, and so is this one
    if Float.abs a < 1e-5 && Float.abs b < 1e-5 then d ≤ 1e-5 * (Float.abs a + Float.abs b)
    else d ≤ 2e-5 || d ≤ 1e-5 * (Float.abs a + Float.abs b)
  | _, _ => x == y

def isTrue : Val → Bool
  | .b v => v
  | .i v => v != 0
  | .r n _ => n != 0
  | .inf => true

end Val
end Meddly
