/-
  Result of replaying one transcript on the model.  Every family acceptor
  (`MeddlyModel/Fam/*.lean` or `Driver/*.lean`) returns one of these.
-/
namespace Meddly

structure Report where
  /-- number of observations that were checked against the model -/
  checked : Nat := 0
  /-- one entry per disagreement: "line=<n> kind=<..> expected=<..> got=<..> [case=<i>]" -/
  diffs : Array String := #[]
  /-- distribution / coverage counters measured by the acceptor -/
  stats : List (String × Nat) := []
  deriving Repr, Inhabited

namespace Report
def ok (r : Report) : Bool := r.diffs.isEmpty
def addDiff (r : Report) (s : String) : Report := { r with diffs := r.diffs.push s }
def tick (r : Report) (n : Nat := 1) : Report := { r with checked := r.checked + n }
def bump (r : Report) (key : String) (n : Nat := 1) : Report :=
  let rec go : List (String × Nat) → List (String × Nat)
    | [] => [(key, n)]
    | (k, v) :: rest => if k == key then (k, v + n) :: rest else (k, v) :: go rest
  { r with stats := go r.stats }
def print (r : Report) : IO Unit := do
  for d in r.diffs do IO.println s!"DIFF {d}"
  for (k, v) in r.stats do IO.println s!"mstat {k} {v}"
  IO.println s!"checked {r.checked}"
  IO.println (if r.ok then "verdict ok" else s!"verdict diff {r.diffs.size}")
end Report
end Meddly
