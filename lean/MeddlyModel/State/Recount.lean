/-
  C06 at the level of a DUMP of the real node store: the recount certificate and what it implies.

  The acceptor recomputes, for every node of every dumped forest, the number of references to it
  (occurrences as a child of a dumped node + occurrences among the registered user edges) and compares
  it with the incoming count the library reports (`Funcs.audit`, DIFF kind `refcount`).  `Recount.ok`
  is that comparison as a definition over `Dump`.  The theorems say what an accepted dump implies:

  * `top_unreferenced` : in ANY well-formed store (children strictly below their parents) a node at the
    highest occupied position is referenced by no node.
  * `exists_unreferenced_of_no_roots` / `count_zero_of_no_roots` : hence, when no user edge is left, an
    accepted non-empty store contains a node whose reported incoming count is 0 - a node which a forest
    that reclaims unreferenced nodes (pessimistic policy; optimistic after the caches are cleared) must
    already have reclaimed.  So "recount accepted + no roots + every zero-count node reclaimed" gives
    the EMPTY store: the harness expectation `leak-F 0` is not an extra assumption but a consequence of
    the certificate and the reclamation rule (`no_leak`).
  * `refs_le_sum` style facts are not needed: the argument is by the maximal position.
-/
import MeddlyModel.Core.Dump

namespace Meddly
namespace Recount
open Dump

variable {α : Type}

/-- number of occurrences of handle `h` among a list of children -/
def occ (h : Nat) : List (Child α) → Nat
  | [] => 0
  | .nd g :: cs => (if g = h then 1 else 0) + occ h cs
  | .tm _ :: cs => occ h cs

/-- references to `h` from the nodes of the store -/
def fromParents (D : Dump α) (h : Nat) : Nat := (D.map (fun n => occ h n.down)).sum

/-- the recount of one handle: parents + registered user edges -/
def refs (D : Dump α) (roots : List (Child α)) (h : Nat) : Nat := fromParents D h + occ h roots

/-- the certificate: every node's reported incoming count equals its recount -/
def ok (D : Dump α) (roots : List (Child α)) (inCount : Nat → Nat) : Bool :=
  D.all (fun n => decide (inCount n.handle = refs D roots n.handle))

theorem occ_pos_mem {h : Nat} : ∀ {cs : List (Child α)}, 0 < occ h cs → Child.nd h ∈ cs
  | [], hp => by simp [occ] at hp
  | .tm _ :: cs, hp => by
    have := occ_pos_mem (cs := cs) (by simpa [occ] using hp)
    exact List.mem_cons_of_mem _ this
  | .nd g :: cs, hp => by
    by_cases e : g = h
    · subst e; exact List.mem_cons_self
    · have : 0 < occ h cs := by simpa [occ, e] using hp
      exact List.mem_cons_of_mem _ (occ_pos_mem this)

theorem sum_pos_exists : ∀ {l : List Nat}, 0 < l.sum → ∃ x ∈ l, 0 < x
  | [], hp => by simp at hp
  | x :: xs, hp => by
    by_cases hx : 0 < x
    · exact ⟨x, List.mem_cons_self, hx⟩
    · have : 0 < xs.sum := by
        have : x = 0 := by omega
        simpa [this] using hp
      obtain ⟨y, hy, hy0⟩ := sum_pos_exists this
      exact ⟨y, List.mem_cons_of_mem _ hy, hy0⟩

/-- a handle referenced by some node of the store is the child of a node of the store -/
theorem fromParents_pos {D : Dump α} {h : Nat} (hp : 0 < fromParents D h) :
    ∃ m ∈ D, Child.nd h ∈ m.down := by
  obtain ⟨x, hx, hx0⟩ := sum_pos_exists hp
  obtain ⟨m, hm, rfl⟩ := List.mem_map.1 hx
  exact ⟨m, hm, occ_pos_mem hx0⟩

variable [DecidableEq α]

/-- in a well-formed store the child `nd h` of a node `m` sits strictly below `m` -/
theorem child_below {D : Dump α} (hs : D.storeOK = true) {m : DNode α} (hm : m ∈ D) {h : Nat}
    (hc : Child.nd h ∈ m.down) : ∃ c, D.find h = some c ∧ c.pos < m.pos := by
  obtain ⟨_, h1, hall⟩ := storeOK_node hs hm
  obtain ⟨c, hcf, hp⟩ := childOK_nd (hall _ hc)
  exact ⟨c, hcf, by omega⟩

/-- a node at the highest occupied position is not referenced by any node of the store -/
theorem top_unreferenced {D : Dump α} (hs : D.storeOK = true) {n : DNode α} (hn : n ∈ D)
    (hmax : ∀ m ∈ D, m.pos ≤ n.pos) : fromParents D n.handle = 0 := by
  by_cases h0 : fromParents D n.handle = 0
  · exact h0
  · exfalso
    obtain ⟨m, hm, hc⟩ := fromParents_pos (Nat.pos_of_ne_zero h0)
    obtain ⟨c, hcf, hlt⟩ := child_below hs hm hc
    have hd := storeOK_distinct hs
    have hfn : D.find n.handle = some n := distinctOK_find hd hn
    rw [hfn] at hcf
    cases hcf
    have := hmax m hm
    omega

/-- a non-empty list of nodes has one of maximal position -/
theorem exists_max_pos : ∀ {D : Dump α}, D ≠ [] → ∃ n ∈ D, ∀ m ∈ D, m.pos ≤ n.pos
  | [], h => absurd rfl h
  | [x], _ => ⟨x, List.mem_cons_self, by intro m hm; simp at hm; subst hm; exact Nat.le_refl _⟩
  | x :: y :: rest, _ => by
    obtain ⟨n, hn, hmax⟩ := exists_max_pos (D := y :: rest) (by simp)
    by_cases hx : n.pos ≤ x.pos
    · refine ⟨x, List.mem_cons_self, ?_⟩
      intro m hm
      rcases List.mem_cons.1 hm with rfl | hm'
      · exact Nat.le_refl _
      · exact Nat.le_trans (hmax m hm') hx
    · refine ⟨n, List.mem_cons_of_mem _ hn, ?_⟩
      intro m hm
      rcases List.mem_cons.1 hm with rfl | hm'
      · omega
      · exact hmax m hm'

/-- with no user edge left, a non-empty well-formed store has a node nobody references -/
theorem exists_unreferenced_of_no_roots {D : Dump α} (hs : D.storeOK = true) (hne : D ≠ []) :
    ∃ n ∈ D, refs D [] n.handle = 0 := by
  obtain ⟨n, hn, hmax⟩ := exists_max_pos hne
  exact ⟨n, hn, by simp [refs, occ, top_unreferenced hs hn hmax]⟩

/-- ... and the library itself reports incoming count 0 for it, if the recount certificate accepts -/
theorem count_zero_of_no_roots {D : Dump α} {inCount : Nat → Nat} (hs : D.storeOK = true)
    (hok : ok D [] inCount = true) (hne : D ≠ []) : ∃ n ∈ D, inCount n.handle = 0 := by
  obtain ⟨n, hn, h0⟩ := exists_unreferenced_of_no_roots hs hne
  have := List.all_eq_true.1 hok n hn
  exact ⟨n, hn, by simpa [h0] using this⟩

/-- C06, leak freedom from the certificate: a store accepted by the recount, with no user edge left, in
    which no node has incoming count 0 (the forest reclaims unreferenced nodes: pessimistic policy, or
    optimistic policy once the caches are cleared) is EMPTY. -/
theorem no_leak {D : Dump α} {inCount : Nat → Nat} (hs : D.storeOK = true)
    (hok : ok D [] inCount = true) (hreclaim : ∀ n ∈ D, inCount n.handle ≠ 0) : D = [] := by
  by_cases hne : D = []
  · exact hne
  · obtain ⟨n, hn, h0⟩ := count_zero_of_no_roots hs hok hne
    exact absurd h0 (hreclaim n hn)

/-- a held edge keeps its target alive: a root of an accepted store has a positive reported count -/
theorem root_counted {D : Dump α} {roots : List (Child α)} {inCount : Nat → Nat}
    (hok : ok D roots inCount = true) {n : DNode α} (hn : n ∈ D) (hr : Child.nd n.handle ∈ roots) :
    0 < inCount n.handle := by
  have := List.all_eq_true.1 hok n hn
  have e : inCount n.handle = refs D roots n.handle := by simpa using this
  have : 0 < occ n.handle roots := by
    clear e this hok
    induction roots with
    | nil => simp at hr
    | cons c cs ih =>
      rcases List.mem_cons.1 hr with rfl | hm
      · simp only [occ, if_true]; omega
      · cases c with
        | tm _ => simpa [occ] using ih hm
        | nd g => have := ih hm; simp only [occ]; omega
  rw [e]; unfold refs; omega

/-! non-vacuity: a concrete two-node store with one root is accepted, and the hypotheses of `no_leak`
    are contradictory for it exactly because it is not empty -/
def Dx : Dump Nat := [ ⟨1, 1, [.tm 0, .tm 1]⟩, ⟨2, 2, [.nd 1, .nd 1]⟩ ]
example : Dx.storeOK = true := by decide
example : ok Dx [.nd 2] (fun h => if h = 1 then 2 else 1) = true := by decide
example : ok Dx [] (fun h => if h = 1 then 2 else 0) = true := by decide
example : ok Dx [] (fun h => if h = 1 then 2 else 1) = false := by decide

end Recount
end Meddly
